package main

import (
	"fmt"
	"go/ast"
	"go/token"
	"sort"
	"strings"
)

// ---------------------------------------------------------------- result (interface{}) sum type

type resultCtor struct {
	name string // Lean constructor
	typ  *gtype // Go type (nil for the nil result)
}

var resultCtors []resultCtor

func ctorNameOf(t *gtype) string {
	switch t.kind {
	case "nil":
		return "nil"
	case "u64":
		return "uint64"
	case "bool":
		return "bool"
	case "struct":
		return lowerFirst(t.name)
	case "ptr":
		if t.elem.kind == "struct" {
			if guardedEnc[t.elem.String()] || handTypes[t.elem.String()] {
				return lowerFirst(t.elem.name)
			}
			return lowerFirst(t.elem.name) + "Ptr"
		}
	case "slice":
		el := t.elem
		if el.kind == "ptr" {
			el = el.elem
		}
		if el.kind == "struct" {
			return lowerFirst(el.name) + "s"
		}
		if el.kind == "u64" {
			return "rowIDs"
		}
	}
	die("no result constructor for %s", t)
	return ""
}

func lowerFirst(s string) string {
	if s == "" {
		return s
	}
	return strings.ToLower(s[:1]) + s[1:]
}

func addResultCtor(t *gtype) string {
	n := ctorNameOf(t)
	for _, c := range resultCtors {
		if c.name == n {
			return n
		}
	}
	resultCtors = append(resultCtors, resultCtor{n, t})
	return n
}

// resultPayloadType: Lean type of the constructor argument
func resultPayloadType(t *gtype) string {
	if t.kind == "ptr" && (guardedEnc[t.elem.String()] || handTypes[t.elem.String()]) {
		return "(Option " + leanType(t.elem) + ")"
	}
	if t.kind == "ptr" {
		return leanType(t.elem)
	}
	return leanType(t)
}

// collectResultCtors scans the type switch of encodeQueryResponse and the returns of decodeQueryResult.
func collectResultCtors() {
	fd, ok := funcs["encodeQueryResponse"]
	if !ok {
		die("encodeQueryResponse not found")
	}
	ast.Inspect(fd, func(n ast.Node) bool {
		ts, ok := n.(*ast.TypeSwitchStmt)
		if !ok {
			return true
		}
		for _, c := range ts.Body.List {
			cc := c.(*ast.CaseClause)
			for _, te := range cc.List {
				if src(te) == "nil" {
					addResultCtor(&gtype{kind: "nil"})
					continue
				}
				addResultCtor(parseType(te, "P"))
			}
		}
		return false
	})
	fd, ok = funcs["decodeQueryResult"]
	if !ok {
		die("decodeQueryResult not found")
	}
	e := newEnv("decodeQueryResult", fd, true)
	ast.Inspect(fd, func(n ast.Node) bool {
		r, ok := n.(*ast.ReturnStmt)
		if !ok || len(r.Results) == 0 {
			return true
		}
		if src(r.Results[0]) == "nil" {
			addResultCtor(&gtype{kind: "nil"})
			return true
		}
		t := e.staticType(r.Results[0])
		if t != nil {
			addResultCtor(t)
		}
		return true
	})
}

// staticType: Go type of an expression without emitting anything
func (e *env) staticType(x ast.Expr) *gtype {
	sub := e.clone()
	// index expressions with a literal index: element of the slice
	if ce, ok := x.(*ast.CallExpr); ok {
		if id, ok := ce.Fun.(*ast.Ident); ok {
			if fi, ok := fnInfo[id.Name]; ok && len(fi.sig.results) > 0 {
				return fi.sig.results[0]
			}
		}
		switch src(ce.Fun) {
		case "pilosa.RowIDs":
			return parseType(ce.Fun, "P")
		}
	}
	_, t := sub.expr(x)
	return t
}

func newEnv(name string, fd *ast.FuncDecl, monad bool) *env {
	e := &env{fn: name, vars: map[string]*gtype{}, lean: map[string]string{}, indent: "    ", monad: monad}
	s := funcSig(fd)
	for _, p := range s.params {
		if p.name == "_" {
			continue
		}
		e.vars[p.name] = p.typ
		e.lean[p.name] = p.name
	}
	return e
}

// ---------------------------------------------------------------- result type of a function in Lean

func leanResult(fi *finfo) (string, *gtype) {
	if fi.inout >= 0 {
		t := fi.sig.params[fi.inout].typ.elem
		return leanType(t), t
	}
	if fi.filler {
		t := fi.sig.params[1].typ
		return leanType(t), t
	}
	if len(fi.sig.results) == 0 {
		die("%s has no result", fi.name)
	}
	t := fi.sig.results[0]
	if fi.kind == "enc" && t.kind == "ptr" && !fi.guarded {
		return leanType(t.elem), t.elem // always a fresh non-nil struct
	}
	return leanType(t), t
}

// paramDecls: Lean binders; returns also the pointer parameter to match on (first param, I-side or guarded)
func paramDecls(fi *finfo) (string, string) {
	var parts []string
	matchOn := ""
	for i, p := range fi.sig.params {
		if fi.filler && i == 1 {
			continue
		}
		name := p.name
		if name == "_" {
			name = fmt.Sprintf("_p%d", i)
		}
		lt := leanType(p.typ)
		if fi.inout == i {
			lt = leanType(p.typ.elem)
		}
		parts = append(parts, fmt.Sprintf("(%s : %s)", name, lt))
		if i == 0 && p.typ.kind == "ptr" && strings.HasPrefix(lt, "(Option") {
			matchOn = name
		}
	}
	return strings.Join(parts, " "), matchOn
}

// ---------------------------------------------------------------- per-function translation

type leanFn struct {
	name  string
	text  string
	deps  []string
	fi    *finfo
	shape string
}

func calledFuncs(fd *ast.FuncDecl) []string {
	seen := map[string]bool{}
	var out []string
	ast.Inspect(fd.Body, func(n ast.Node) bool {
		if c, ok := n.(*ast.CallExpr); ok {
			if id, ok := c.Fun.(*ast.Ident); ok {
				if _, ok := fnInfo[id.Name]; ok && !seen[id.Name] {
					seen[id.Name] = true
					out = append(out, id.Name)
				}
			}
		}
		return true
	})
	return out
}

func translateFunc(fi *finfo) *leanFn {
	fd := funcs[fi.name]
	lf := &leanFn{name: fi.name, fi: fi, deps: calledFuncs(fd)}
	binders, matchOn := paramDecls(fi)
	resT, resG := leanResult(fi)
	e := newEnv(fi.name, fd, fi.monadic)
	body := fd.Body.List
	if fi.guarded {
		body = body[1:]
	}
	retT := resT
	if fi.monadic {
		retT = "Outcome " + resT
	}
	var sb strings.Builder
	fmt.Fprintf(&sb, "def %s %s : %s :=\n", fi.name, binders, retT)

	// leading nil guard / unguarded pointer dereference
	if matchOn != "" {
		p0 := fi.sig.params[0]
		noneCase := ""
		if fi.guarded {
			is, _ := isNilGuard(fd.Body.List[0], p0.name)
			r := is.Body.List[0].(*ast.ReturnStmt)
			switch {
			case len(r.Results) == 0 && fi.inout >= 0:
				noneCase = "pure " + fi.sig.params[fi.inout].name
			case len(r.Results) == 1 && src(r.Results[0]) == "nil":
				noneCase = "none"
				if fi.monadic {
					noneCase = "pure none"
				}
			case len(r.Results) == 1:
				ge := newEnv(fi.name, fd, fi.monadic)
				term, gt := ge.expr(r.Results[0])
				noneCase = ge.adapt(term, stripAddr(gt), resT, r)
				if fi.monadic {
					noneCase = "pure " + noneCase
				}
			default:
				e.fail(r, "guard return not handled")
			}
		} else {
			if !fi.monadic {
				die("%s: dereferences its optional parameter without a guard but is not a decoder", fi.name)
			}
			noneCase = fmt.Sprintf("throw (.panic \"%s: nil pointer dereference of %s\")", fi.name, p0.name)
		}
		fmt.Fprintf(&sb, "  match %s with\n  | none => %s\n  | some %s =>\n", matchOn, noneCase, p0.name)
		e.vars[p0.name] = p0.typ
	}
	doKw := ""
	if fi.monadic {
		doKw = "do"
	}
	final := ""
	ret := func(r *ast.ReturnStmt) {
		switch {
		case fi.inout >= 0 && len(r.Results) == 0:
			final = fi.sig.params[fi.inout].name
		case fi.inout >= 0 && fi.errRes && len(r.Results) == 1:
			// return decodeXs(SRC, m.F)  (error-returning filler in return position) / return nil
			if src(r.Results[0]) == "nil" {
				final = fi.sig.params[fi.inout].name
				return
			}
			e.fail(r, "error return not handled")
		case len(r.Results) >= 1:
			term, t := e.expr(r.Results[0])
			final = e.adapt(term, stripAddr(t), resT, r)
		default:
			e.fail(r, "return not handled")
		}
	}
	_ = resG
	switch {
	case fi.filler:
		lf.shape = "filler"
		final = e.sliceLoop(body, fi, resT)
	case isSliceBuilder(body):
		lf.shape = "slice"
		final = e.sliceLoop(body, fi, resT)
	case fi.name == "decodeQueryResult":
		lf.shape = "switch"
		final = e.valueSwitch(body, fi)
	case fi.name == "encodeQueryResponse":
		lf.shape = "encqr"
		e.encodeQueryResponse(body, fi)
		final = "pb"
	default:
		lf.shape = "plain"
		// decodeQueryResponse-style tail: m.F = make(len(SRC)); return decodeXs(SRC, m.F)
		n := len(body)
		if fi.inout >= 0 && fi.errRes && n >= 2 {
			if r, ok := body[n-1].(*ast.ReturnStmt); ok && len(r.Results) == 1 {
				if c, ok := r.Results[0].(*ast.CallExpr); ok {
					if id, ok := c.Fun.(*ast.Ident); ok && fnInfo[id.Name] != nil && fnInfo[id.Name].filler {
						body = append(append([]ast.Stmt{}, body[:n-1]...), &ast.ExprStmt{X: c})
					}
				}
			}
		}
		ended := e.stmts(body, ret)
		if !ended {
			if fi.inout >= 0 {
				final = fi.sig.params[fi.inout].name
			} else {
				die("%s: falls off the end without a return", fi.name)
			}
		}
	}
	ind := "  "
	if matchOn != "" {
		ind = "    "
	}
	if doKw != "" {
		fmt.Fprintf(&sb, "%s%s\n", ind, doKw)
	}
	for _, l := range e.lines {
		sb.WriteString(ind + strings.TrimPrefix(l, "    ") + "\n")
	}
	if fi.monadic {
		if strings.HasPrefix(final, "throw") || strings.HasPrefix(final, "if ") || strings.HasPrefix(final, "match ") || strings.HasPrefix(final, "RAW:") {
			fmt.Fprintf(&sb, "%s%s\n", ind, strings.TrimPrefix(final, "RAW:"))
		} else {
			fmt.Fprintf(&sb, "%spure %s\n", ind, final)
		}
	} else {
		fmt.Fprintf(&sb, "%s%s\n", ind, final)
	}
	lf.text = prelude + sb.String()
	prelude = ""
	return lf
}

// make-then-fill forms where the filler call is an ExprStmt are handled in stmts(); here the make+filler
// pair with the filler as a statement after rewriting the return (see above).
func init() {}

func isSliceBuilder(body []ast.Stmt) bool {
	// x := make([]T, ..) ; for .. range A { .. } ; return x
	if len(body) != 3 {
		return false
	}
	as, ok := body[0].(*ast.AssignStmt)
	if !ok || as.Tok != token.DEFINE {
		return false
	}
	c, ok := as.Rhs[0].(*ast.CallExpr)
	if !ok || src(c.Fun) != "make" {
		return false
	}
	if _, ok := body[1].(*ast.RangeStmt); !ok {
		return false
	}
	r, ok := body[2].(*ast.ReturnStmt)
	return ok && len(r.Results) == 1 && src(r.Results[0]) == src(as.Lhs[0])
}

// sliceLoop translates
//
//	dst := make(..); for i := range A { BODY }; return dst          (BODY builds dst[i] or appends)
//	for i := range A { m[i] = &T{}; decodeT(A[i], m[i]) }            (filler, dst = second parameter)
//
// into A.map / A.mapM over an element function.
func (e *env) sliceLoop(body []ast.Stmt, fi *finfo, resT string) string {
	var rs *ast.RangeStmt
	dst := ""
	var dstT *gtype
	if fi.filler {
		for _, st := range body {
			if r, ok := st.(*ast.RangeStmt); ok {
				rs = r
			} else if r, ok := st.(*ast.ReturnStmt); ok && len(r.Results) == 1 && src(r.Results[0]) == "nil" {
				// error-returning filler: `return nil` at the end
				_ = r
			} else {
				e.fail(st, "filler body must be a single loop")
			}
		}
		dst = fi.sig.params[1].name
		dstT = fi.sig.params[1].typ
	} else {
		as := body[0].(*ast.AssignStmt)
		dst = as.Lhs[0].(*ast.Ident).Name
		c := as.Rhs[0].(*ast.CallExpr)
		dstT = parseType(c.Args[0], "P")
		rs = body[1].(*ast.RangeStmt)
	}
	if rs == nil {
		die("%s: no loop", fi.name)
	}
	coll, ct := e.expr(rs.X)
	if ct.kind != "slice" && ct.kind != "ifaces" {
		e.fail(rs, "range over a non-slice")
	}
	sub := e.clone()
	sub.indent = "      "
	sub.lines = nil
	srcEl := elemOf(ct)
	elemVar := "x"
	if rs.Value != nil {
		v := rs.Value.(*ast.Ident).Name
		sub.vars[v] = srcEl
		sub.lean[v] = elemVar
	}
	if rs.Key != nil && src(rs.Key) != "_" {
		k := src(rs.Key)
		sub.vars[src(rs.X)+"["+k+"]"] = srcEl
		sub.lean[src(rs.X)+"["+k+"]"] = elemVar
		// destination element
		dk := dst + "[" + k + "]"
		sub.vars[dk] = elemOf(dstT)
		sub.lean[dk] = "e"
	}
	dstElLean := strings.TrimSuffix(strings.TrimPrefix(leanType(dstT), "(List "), ")")
	elemInit := false
	var stmts []ast.Stmt
	for _, st := range rs.Body.List {
		// dst = append(dst, EXPR): the element is EXPR (then possibly decoded into in place)
		if as, ok := st.(*ast.AssignStmt); ok && len(as.Lhs) == 1 && src(as.Lhs[0]) == dst {
			c, ok := as.Rhs[0].(*ast.CallExpr)
			if !ok || src(c.Fun) != "append" || src(c.Args[0]) != dst {
				e.fail(st, "assignment to the destination slice is not an append")
			}
			term, t := sub.expr(c.Args[1])
			sub.emit(fmt.Sprintf("let e : %s := %s", dstElLean, sub.adapt(term, stripAddr(t), dstElLean, st)))
			elemInit = true
			// later statements refer to dst[i]
			if rs.Key != nil {
				dk := dst + "[" + src(rs.Key) + "]"
				sub.vars[dk] = elemOf(dstT)
				sub.lean[dk] = "e"
			}
			continue
		}
		// result, err := f(A[i])  /  if err != nil { return .. }
		if as, ok := st.(*ast.AssignStmt); ok && as.Tok == token.DEFINE && len(as.Lhs) == 2 && src(as.Lhs[1]) == "err" {
			term, t := sub.expr(as.Rhs[0])
			name := as.Lhs[0].(*ast.Ident).Name
			sub.vars[name] = t
			sub.lean[name] = term
			continue
		}
		if is, ok := st.(*ast.IfStmt); ok && src(is.Cond) == "err != nil" {
			continue // the error propagates through the Outcome monad
		}
		stmts = append(stmts, st)
	}
	if !elemInit {
		// whole assignment first?  otherwise start from the zero value
		first := true
		if len(stmts) > 0 {
			if as, ok := stmts[0].(*ast.AssignStmt); ok && len(as.Lhs) == 1 {
				if _, isT := sub.vars[src(as.Lhs[0])]; isT && sub.lean[src(as.Lhs[0])] == "e" {
					first = false
				}
			}
		}
		if first || true {
			sub.lines = append([]string{sub.indent + fmt.Sprintf("let e : %s := %s", dstElLean, zeroValue(elemOf(dstT)))}, sub.lines...)
		}
	}
	sub.stmts(stmts, func(r *ast.ReturnStmt) { e.fail(r, "return inside a loop") })
	monadic := fi.monadic
	var b strings.Builder
	if monadic {
		fmt.Fprintf(&b, "RAW:%s.mapM (fun %s => do\n", coll, elemVar)
		for _, l := range sub.lines {
			b.WriteString(l + "\n")
		}
		b.WriteString("      pure e)")
	} else {
		for _, l := range sub.lines {
			if strings.Contains(l, "←") {
				e.fail(rs, "monadic call in a pure loop")
			}
		}
		fmt.Fprintf(&b, "%s.map (fun %s =>\n", coll, elemVar)
		for _, l := range sub.lines {
			b.WriteString(l + "\n")
		}
		b.WriteString("      e)")
	}
	return b.String()
}

// valueSwitch: decodeQueryResult
//
//	switch pb.Type { case K: return EXPR, nil ... } ; return nil, fmt.Errorf(..)
func (e *env) valueSwitch(body []ast.Stmt, fi *finfo) string {
	if len(body) != 2 {
		die("%s: expected a switch followed by a return", fi.name)
	}
	sw, ok := body[0].(*ast.SwitchStmt)
	if !ok || sw.Init != nil {
		die("%s: expected a value switch", fi.name)
	}
	tag, _ := e.expr(sw.Tag)
	var b strings.Builder
	b.WriteString("RAW:")
	for _, c := range sw.Body.List {
		cc := c.(*ast.CaseClause)
		if len(cc.List) != 1 {
			e.fail(cc, "case with several values / default")
		}
		k, _ := e.expr(cc.List[0])
		fmt.Fprintf(&b, "if %s = %s then\n", tag, k)
		sub := e.clone()
		sub.indent = "      "
		sub.lines = nil
		res := ""
		guardList := ""
		for _, st := range cc.Body {
			switch s := st.(type) {
			case *ast.IfStmt:
				// if len(X) == 0 { return nil, errors.New(..) }
				be, ok := s.Cond.(*ast.BinaryExpr)
				if !ok || src(be.Y) != "0" {
					e.fail(s, "guard not handled")
				}
				lc, ok := be.X.(*ast.CallExpr)
				if !ok || src(lc.Fun) != "len" {
					e.fail(s, "guard not handled")
				}
				guardList = src(lc.Args[0])
			case *ast.ReturnStmt:
				if src(s.Results[0]) == "nil" {
					res = "pure .nil"
					continue
				}
				if guardList != "" {
					lt, ltT := sub.expr(mustParseExpr(guardList))
					sub.vars[guardList+"[0]"] = elemOf(ltT)
					sub.lean[guardList+"[0]"] = "x0"
					term, t := sub.expr(s.Results[0])
					ctor := addResultCtor(sub.staticTypeOr(s.Results[0], t))
					var lb strings.Builder
					fmt.Fprintf(&lb, "match %s with\n      | [] => throw (.error \"%s: empty %s\")\n      | x0 :: _ => do\n", lt, fi.name, guardList)
					for _, l := range sub.lines {
						lb.WriteString("    " + l + "\n")
					}
					fmt.Fprintf(&lb, "          pure (.%s %s)", ctor, term)
					res = lb.String()
					sub.lines = nil
					continue
				}
				term, t := sub.expr(s.Results[0])
				st := sub.staticTypeOr(s.Results[0], t)
				ctor := addResultCtor(st)
				want := resultPayloadType(st)
				res = fmt.Sprintf("pure (.%s %s)", ctor, sub.adaptResult(term, t, want, s))
			default:
				e.fail(st, "statement in a case not handled")
			}
		}
		if len(sub.lines) > 0 {
			b.WriteString("      do\n")
			for _, l := range sub.lines {
				b.WriteString("  " + l + "\n")
			}
			b.WriteString("        " + res + "\n")
		} else {
			b.WriteString("      " + res + "\n")
		}
		b.WriteString("    else ")
	}
	// trailing return: an error (or a panic in the unfixed code)
	switch t := body[1].(type) {
	case *ast.ReturnStmt:
		fmt.Fprintf(&b, "throw (.error \"%s: unknown type\")", fi.name)
	case *ast.ExprStmt:
		if c, ok := t.X.(*ast.CallExpr); ok && src(c.Fun) == "panic" {
			fmt.Fprintf(&b, "throw (.panic \"%s: unknown type\")", fi.name)
		} else {
			e.fail(t, "trailing statement not handled")
		}
	default:
		e.fail(body[1], "trailing statement not handled")
	}
	return b.String()
}

func (e *env) staticTypeOr(x ast.Expr, t *gtype) *gtype {
	if ce, ok := x.(*ast.CallExpr); ok {
		if id, ok := ce.Fun.(*ast.Ident); ok {
			if fi, ok := fnInfo[id.Name]; ok && len(fi.sig.results) > 0 {
				return fi.sig.results[0]
			}
		}
	}
	return t
}

// adaptResult: payload of a result constructor
func (e *env) adaptResult(term string, t *gtype, want string, n ast.Node) string {
	have := leanType(stripAddr(t))
	if have == want {
		return term
	}
	if want == "(Option "+have+")" {
		return "(some " + term + ")"
	}
	e.fail(n, fmt.Sprintf("result payload: have %s, want %s", have, want))
	return ""
}

// encodeQueryResponse: local struct, loop over m.Results with a type switch, Err, return.
func (e *env) encodeQueryResponse(body []ast.Stmt, fi *finfo) {
	// pb := &internal.QueryResponse{Results: make(.., len(m.Results)), ColumnAttrSets: ...}
	as, ok := body[0].(*ast.AssignStmt)
	if !ok || as.Tok != token.DEFINE {
		e.fail(body[0], "expected pb := &internal.QueryResponse{..}")
	}
	u := as.Rhs[0].(*ast.UnaryExpr)
	cl := u.X.(*ast.CompositeLit)
	// replace make(.., len(..)) fields by the empty list: they are filled by the loop
	var elts []ast.Expr
	for _, el := range cl.Elts {
		kv := el.(*ast.KeyValueExpr)
		if _, ok := isMakeLen(kv.Value); ok {
			continue
		}
		elts = append(elts, el)
	}
	cl2 := *cl
	cl2.Elts = elts
	term, t := e.composite(&cl2)
	name := as.Lhs[0].(*ast.Ident).Name
	e.vars[name] = &gtype{kind: "addr", elem: t}
	e.lean[name] = name
	e.emit(fmt.Sprintf("let %s := %s", name, term))
	for _, st := range body[1:] {
		switch s := st.(type) {
		case *ast.RangeStmt:
			e.resultsLoop(s, name)
		case *ast.IfStmt:
			e.ifStmt(s, func(r *ast.ReturnStmt) { e.fail(r, "return in if") })
		case *ast.ReturnStmt:
			if src(s.Results[0]) != name {
				e.fail(s, "unexpected return")
			}
		default:
			e.fail(st, "statement not handled")
		}
	}
}

func (e *env) resultsLoop(rs *ast.RangeStmt, pbName string) {
	coll, _ := e.expr(rs.X)
	k := src(rs.Key)
	var dstKey string
	sub := e.clone()
	sub.indent = "        "
	sub.lines = nil
	var ts *ast.TypeSwitchStmt
	for _, st := range rs.Body.List {
		switch s := st.(type) {
		case *ast.AssignStmt:
			// pb.Results[i] = &internal.QueryResult{}
			dstKey = src(s.Lhs[0])
			ft, ok := freshStruct(s.Rhs[0])
			if !ok {
				e.fail(st, "expected a fresh element")
			}
			sub.vars[dstKey] = ft
			sub.lean[dstKey] = "e"
		case *ast.TypeSwitchStmt:
			ts = s
		default:
			e.fail(st, "statement in the results loop not handled")
		}
	}
	if ts == nil || dstKey == "" {
		e.fail(rs, "results loop without element/type switch")
	}
	bind := ts.Assign.(*ast.AssignStmt).Lhs[0].(*ast.Ident).Name
	elT := leanType(sub.vars[dstKey])
	var b strings.Builder
	fmt.Fprintf(&b, "/-- The body of the loop over `m.Results` in encodeQueryResponse: one result by its dynamic type. -/\n")
	fmt.Fprintf(&b, "def encodeQueryResult (x : P.Result) : Outcome %s :=\n  do\n", elT)
	fmt.Fprintf(&b, "      let e : %s := {}\n      match x with\n", elT)
	hasDefault := false
	for _, c := range ts.Body.List {
		cc := c.(*ast.CaseClause)
		if cc.List == nil {
			hasDefault = true
			continue
		}
		caseT := &gtype{kind: "nil"}
		if src(cc.List[0]) != "nil" {
			caseT = parseType(cc.List[0], "P")
		}
		ctor := addResultCtor(caseT)
		ce := sub.clone()
		ce.lines = nil
		ce.indent = "        "
		if caseT.kind != "nil" {
			ce.vars[bind] = caseT
			ce.lean[bind] = bind
			fmt.Fprintf(&b, "      | .%s %s =>\n", ctor, bind)
		} else {
			fmt.Fprintf(&b, "      | .%s =>\n", ctor)
		}
		ce.stmts(cc.Body, func(r *ast.ReturnStmt) { e.fail(r, "return in a case") })
		for _, l := range ce.lines {
			b.WriteString(l + "\n")
		}
		b.WriteString("        pure e\n")
	}
	if !hasDefault {
		e.fail(ts, "type switch without default")
	}
	fmt.Fprintf(&b, "      | _ => throw (.panic \"encodeQueryResponse: unknown result type\")\n\n")
	_ = k
	prelude += b.String()
	e.emit(fmt.Sprintf("let rs ← %s.mapM encodeQueryResult", coll))
	sd := structOf(e.vars[pbName])
	f := sd.field("Results")
	e.setField(pbName, f, "rs")
}

// elemOf: the element of a slice as the model sees it ([]*T holds plain T values)
func elemOf(t *gtype) *gtype {
	el := t.elem
	if el != nil && el.kind == "ptr" {
		return el.elem
	}
	return el
}

// prelude: auxiliary definitions emitted before the function being translated
var prelude string

func mustParseExpr(s string) ast.Expr {
	x, err := parseExprString(s)
	if err != nil {
		die("internal: %v", err)
	}
	return x
}

// ---------------------------------------------------------------- ordering

func topoFuncs(fns map[string]*leanFn, hand map[string]bool) []string {
	var order []string
	state := map[string]int{}
	var visit func(n string)
	visit = func(n string) {
		if state[n] == 2 || hand[n] {
			return
		}
		if state[n] == 1 {
			die("recursive codec functions around %s", n)
		}
		state[n] = 1
		lf := fns[n]
		if lf != nil {
			deps := append([]string{}, lf.deps...)
			sort.Strings(deps)
			for _, d := range deps {
				if d != n {
					visit(d)
				}
			}
		}
		state[n] = 2
		if lf != nil {
			order = append(order, n)
		}
	}
	var names []string
	for n := range fns {
		names = append(names, n)
	}
	sort.Strings(names)
	for _, n := range names {
		visit(n)
	}
	return order
}
