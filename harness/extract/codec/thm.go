package main

import "strings"

func emitTheoremsImpl(sb *strings.Builder, fns map[string]*leanFn, order []string) {
	_ = strings.Join
}
