package main

import (
	"fmt"
	"go/ast"
	"sort"
	"strings"
)

// pairKey: (pilosa struct, internal struct, "one"|"list") of a codec function
func pairKey(fi *finfo) (string, bool) {
	stripS := func(t *gtype) (*gtype, string) {
		if t.kind == "slice" {
			return elemOf(t), "list"
		}
		if t.kind == "ptr" {
			return t.elem, "one"
		}
		return t, "one"
	}
	var pt, it *gtype
	var shape string
	switch {
	case fi.kind == "dec" && fi.inout >= 0:
		pt, shape = stripS(fi.sig.params[1].typ)
		it, _ = stripS(fi.sig.params[0].typ)
	case fi.kind == "dec" && fi.filler:
		pt, shape = stripS(fi.sig.params[1].typ)
		it, _ = stripS(fi.sig.params[0].typ)
	case fi.kind == "dec":
		if len(fi.sig.results) == 0 || len(fi.sig.params) != 1 {
			return "", false
		}
		pt, shape = stripS(fi.sig.results[0])
		it, _ = stripS(fi.sig.params[0].typ)
	case fi.kind == "enc":
		if len(fi.sig.results) == 0 || len(fi.sig.params) != 1 {
			return "", false
		}
		pt, shape = stripS(fi.sig.params[0].typ)
		it, _ = stripS(fi.sig.results[0])
	}
	if pt == nil || it == nil || pt.kind != "struct" || it.kind != "struct" {
		return "", false
	}
	return pt.name + "|" + it.name + "|" + shape, true
}

// assignedFields: the fields of *m an in-place decoder assigns
func assignedFields(fd *ast.FuncDecl, m string) map[string]bool {
	out := map[string]bool{}
	ast.Inspect(fd.Body, func(n ast.Node) bool {
		switch s := n.(type) {
		case *ast.AssignStmt:
			for _, l := range s.Lhs {
				if sel, ok := l.(*ast.SelectorExpr); ok && src(sel.X) == m {
					out[sel.Sel.Name] = true
				}
			}
		case *ast.CallExpr:
			for _, a := range s.Args {
				if u, ok := a.(*ast.UnaryExpr); ok {
					if sel, ok := u.X.(*ast.SelectorExpr); ok && src(sel.X) == m {
						out[sel.Sel.Name] = true
					}
				}
			}
		}
		return true
	})
	return out
}

type thmInfo struct {
	rt    string // name of the round-trip lemma(s) usable by callers
	total string
	nArgs int // explicit arguments of the no-panic lemma
}

func emitTheoremsImpl(sb *strings.Builder, fns map[string]*leanFn, order []string) {
	sb.WriteString("/-! ## Round-trip and no-panic theorems of every codec pair (generated proof scripts) -/\n\n")
	// encoders by pair key
	encBy := map[string]*finfo{}
	for _, fi := range fnInfo {
		if fi.kind == "enc" {
			if k, ok := pairKey(fi); ok {
				encBy[k] = fi
			}
		}
	}
	thms := map[string]*thmInfo{} // by decoder name
	// hand-modelled lemmas (Hand.lean)
	thms["decodeAttrs"] = &thmInfo{rt: "rt_decodeAttrs", total: "total_decodeAttrs", nArgs: 1}
	thms["decodeRow"] = &thmInfo{rt: "rt_decodeRow", total: "total_decodeRow", nArgs: 1}
	thms["decodeFieldStatus"] = &thmInfo{rt: "rt_decodeFieldStatus", total: "total_decodeFieldStatus", nArgs: 2}
	thms["decodeImportRoaringRequest"] = &thmInfo{rt: "rt_decodeImportRoaringRequest", total: "total_decodeImportRoaringRequest", nArgs: 2}

	var hookNames []string
	for h := range hooks {
		hookNames = append(hookNames, "hook_"+h)
	}
	sort.Strings(hookNames)
	hookList := strings.Join(hookNames, ", ")

	for _, name := range order {
		fi := fnInfo[name]
		if fi.kind != "dec" {
			continue
		}
		lf := fns[name]
		fd := funcs[name]
		// lemmas of the decoders this one calls
		var subRT, subTotal []string
		for _, d := range lf.deps {
			if t, ok := thms[d]; ok {
				if t.rt != "" {
					subRT = append(subRT, strings.Fields(t.rt)...)
				}
				if t.total != "" {
					subTotal = append(subTotal, t.total+strings.Repeat(" _", t.nArgs))
				}
			}
		}
		ti := &thmInfo{}
		thms[name] = ti

		// ---------- no-panic
		binders, matchOn := paramDecls(fi)
		var args []string
		for i, p := range fi.sig.params {
			if fi.filler && i == 1 {
				continue
			}
			n := p.name
			if n == "_" {
				n = fmt.Sprintf("_p%d", i)
			}
			args = append(args, n)
		}
		var alts []string
		for _, t := range subTotal {
			alts = append(alts, "exact "+t)
		}
		altS := ""
		if len(alts) > 0 {
			altS = strings.Join(alts, " | ") + " | "
		}
		steps := "repeat (first | " + altS + "exact noPanic_pure _ | exact noPanic_ok _ | exact noPanic_throw_err _ | exact noPanic_err _ | apply noPanic_mapM | apply noPanic_bind | intro _ | split)"
		ti.total = "total_" + name
		ti.nArgs = len(args)
		if matchOn != "" && fi.guarded {
			fmt.Fprintf(sb, "theorem total_%s %s : NoPanic (%s %s) := by\n  cases %s with\n  | none => simp [%s, NoPanic, Outcome.isPanic]\n  | some %s =>\n    simp only [%s]\n    %s\n\n",
				name, binders, name, strings.Join(args, " "), matchOn, name, matchOn, name, steps)
		} else if matchOn != "" {
			// unguarded: the wire message itself / an element of a repeated field is never nil
			b2 := strings.Replace(binders, "("+matchOn+" : (Option ", "("+matchOn+" : (", 1)
			a2 := append([]string{}, args...)
			a2[0] = "(some " + matchOn + ")"
			fmt.Fprintf(sb, "theorem total_%s %s : NoPanic (%s %s) := by\n  simp only [%s]\n  %s\n\n",
				name, b2, name, strings.Join(a2, " "), name, steps)
		} else {
			fmt.Fprintf(sb, "theorem total_%s %s : NoPanic (%s %s) := by\n  simp only [%s]\n  %s\n\n",
				name, binders, name, strings.Join(args, " "), name, steps)
		}

		// ---------- round trip
		if name == "decodeQueryResult" || name == "decodeQueryResults" || name == "decodeQueryResponse" {
			continue // stated and proved in Props.lean (the encoder is monadic: `default: panic`)
		}
		k, ok := pairKey(fi)
		if !ok {
			continue
		}
		enc, ok := encBy[k]
		if !ok {
			die("decoder %s has no encoder for %s", name, k)
		}
		parts := strings.Split(k, "|")
		pt := parts[0]
		simpSet := []string{name, enc.name, "canon_" + pt}
		simpSet = append(simpSet, subRT...)
		if hooks[pt] {
			simpSet = append(simpSet, "hook_"+pt)
		}
		_ = hookList
		// canonical forms of the struct types of the fields (element structs built inline)
		for _, f := range resolveStruct("P", pt).fields {
			t := f.typ
			for t.kind == "ptr" || t.kind == "slice" {
				t = t.elem
			}
			if t.kind == "struct" && t.side == "P" && !handTypes[t.String()] {
				simpSet = append(simpSet, "canon_"+t.name)
				if hooks[t.name] {
					simpSet = append(simpSet, "hook_"+t.name)
				}
			}
		}
		ss := strings.Join(simpSet, ", ")
		ti.rt = "rt_" + name
		switch {
		case parts[2] == "list":
			el := "rt_elem"
			_ = el
			fmt.Fprintf(sb, "theorem rt_%s (vs : List P.%s) : %s (%s vs) = .ok (vs.map (canon_%s true)) := by\n  simp only [%s, %s]\n  exact mapM_map_ok _ _ _ (fun x => by cases x; simp [%s] <;> (try split) <;> simp_all) vs\n\n",
				name, pt, name, enc.name, pt, name, enc.name, ss)
		default:
			// fields of the pilosa struct, named, optional ones split
			sd := resolveStruct("P", pt)
			var fnames, optCases []string
			for _, f := range sd.fields {
				fn := "f_" + f.name
				fnames = append(fnames, fn)
				if strings.HasPrefix(leanType(f.typ), "(Option") && f.typ.kind == "ptr" {
					optCases = append(optCases, fn)
				}
			}
			// the decoder argument built from the encoder result
			encArg := "v"
			if strings.HasPrefix(leanType(enc.sig.params[0].typ), "(Option") {
				encArg = "(some v)"
			}
			encRes, _ := leanResult(enc)
			decArg := "(" + enc.name + " " + encArg + ")"
			if !strings.HasPrefix(encRes, "(Option") && strings.HasPrefix(leanType(fi.sig.params[0].typ), "(Option") {
				decArg = "(some " + decArg + ")"
			}
			target := ""
			mBinder := ""
			if fi.inout >= 0 {
				all := true
				asg := assignedFields(fd, fi.sig.params[fi.inout].name)
				for _, f := range sd.fields {
					if !asg[f.name] {
						all = false
					}
				}
				if all {
					target = " m"
					mBinder = " (m : P." + pt + ")"
				} else {
					target = " ({} : P." + pt + ")"
				}
			}
			casesLine := "  cases v with\n  | mk " + strings.Join(fnames, " ") + " =>\n"
			if len(fnames) == 0 {
				casesLine = "  cases v\n"
			}
			body := "    simp [" + ss + "]"
			if len(optCases) > 0 {
				body = "    cases " + strings.Join(optCases, " <;> cases ") + " <;> simp [" + ss + "]"
			}
			if len(fnames) == 0 {
				body = "  simp [" + ss + "]"
			}
			fmt.Fprintf(sb, "theorem rt_%s (v : P.%s)%s : %s %s%s = .ok (canon_%s true v) := by\n%s%s\n\n",
				name, pt, mBinder, name, decArg, target, pt, casesLine, body)
			if enc.guarded && strings.HasPrefix(leanType(enc.sig.params[0].typ), "(Option") && fi.inout >= 0 {
				// the nil case of a guarded encoder: nothing is decoded
				fmt.Fprintf(sb, "theorem rt_%s_none (m : P.%s) : %s (%s none) m = .ok m := by\n  simp [%s, %s]\n\n",
					name, pt, name, enc.name, name, enc.name)
				ti.rt += " rt_" + name + "_none"
			}
		}
	}
}
