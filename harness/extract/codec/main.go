// Command codec translates encoding/proto/proto.go (and the struct definitions on both sides) into Lean:
//
//	go run ./extract/codec --repo <repo> --types <GenTypes.lean> --out <Gen.lean> --hand <Hand.lean>
//
// GenTypes.lean: Lean structures for the pilosa side (namespace P) and the protobuf side
//
//	(namespace I), the query-result sum type, tree printers/readers, the coverage tables of
//	Marshal / Unmarshal / getMessage / getMessageType.
//
// Gen.lean:      every encodeX / decodeX translated from its Go body, the canonical-form functions,
//
//	and for every codec pair the round-trip theorem and the no-panic theorem with a proof script.
//
// The translator knows a fixed set of Go constructs (see trans*.go comments below).  A construct it
// does not know makes it FAIL (exit 1) naming the function and the statement.  Functions listed in
// `handModelled` are modelled by hand in lean/PV/C27/Hand.lean; for those the translator checks a
// fingerprint of the Go source recorded in Hand.lean (`-- fingerprint <func> <sha1>`), so an edit of
// such a function is reported instead of silently ignored.
package main

import (
	"bytes"
	"fmt"
	"go/ast"
	"go/parser"
	"go/printer"
	"go/token"
	"os"
	"path/filepath"
	"regexp"
	"sort"
	"strings"
)

func die(format string, a ...interface{}) {
	fmt.Fprintf(os.Stderr, "extract/codec: "+format+"\n", a...)
	os.Exit(1)
}

var fset = token.NewFileSet()

func src(n ast.Node) string {
	var b bytes.Buffer
	_ = printer.Fprint(&b, fset, n)
	return b.String()
}

// ---------------------------------------------------------------- Go types

type gtype struct {
	kind string // string bool u64 u32 u16 i64 f64 bytes struct ptr slice attrs viewsmap bitmap error iface ifaces enum
	side string // P or I (struct)
	name string // struct name
	elem *gtype
}

func (t *gtype) String() string {
	switch t.kind {
	case "struct":
		return t.side + "." + t.name
	case "ptr":
		return "*" + t.elem.String()
	case "slice":
		return "[]" + t.elem.String()
	}
	return t.kind
}

type field struct {
	name string
	typ  *gtype
}

type structDef struct {
	side, name string
	fields     []field
}

var structs = map[string]*structDef{} // "P.Node"
var named = map[string]ast.Expr{}     // pilosa named non-struct types: name -> underlying

// enumTypes: named integer types with a small set of values, modelled as UInt32 (assumption:
// values are within range; stated in props/C27.json).
var enumTypes = map[string]bool{"NodeEventType": true}

// handTypes: struct types defined by hand in Hand.lean (unexported representation).
var handTypes = map[string]bool{"P.Row": true}

// handModelled: functions modelled by hand (maps, sort, interface type switches on attribute
// values, methods of Row/Bitmap).
var handModelled = map[string]bool{
	"encodeAttrs": true, "encodeAttr": true, "decodeAttrs": true, "decodeAttr": true,
	"encodeRow": true, "decodeRow": true,
	"encodeImportRoaringRequest": true, "decodeImportRoaringRequest": true,
}

// notSerialised: fields of a message that travel outside the message body.
var notSerialised = map[string]string{"P.QueryRequest.Index": "sent in the URL path of the request"}

func parseType(e ast.Expr, side string) *gtype {
	switch t := e.(type) {
	case *ast.Ident:
		switch t.Name {
		case "string":
			return &gtype{kind: "string"}
		case "bool":
			return &gtype{kind: "bool"}
		case "uint64", "uint":
			return &gtype{kind: "u64"}
		case "uint32":
			return &gtype{kind: "u32"}
		case "uint16":
			return &gtype{kind: "u16"}
		case "int64", "int":
			return &gtype{kind: "i64"}
		case "float64":
			return &gtype{kind: "f64"}
		case "error":
			return &gtype{kind: "error"}
		}
		return namedType(t.Name, side)
	case *ast.SelectorExpr:
		pkg := t.X.(*ast.Ident).Name
		switch pkg {
		case "pilosa":
			return namedType(t.Sel.Name, "P")
		case "internal":
			return namedType(t.Sel.Name, "I")
		case "roaring":
			if t.Sel.Name == "Bitmap" {
				return &gtype{kind: "bitmapval"}
			}
		}
		die("unknown qualified type %s", src(e))
	case *ast.StarExpr:
		el := parseType(t.X, side)
		if el.kind == "bitmapval" {
			return &gtype{kind: "bitmap"}
		}
		return &gtype{kind: "ptr", elem: el}
	case *ast.ArrayType:
		if t.Len != nil {
			die("array type %s not handled", src(e))
		}
		if id, ok := t.Elt.(*ast.Ident); ok && id.Name == "byte" {
			return &gtype{kind: "bytes"}
		}
		if _, ok := t.Elt.(*ast.InterfaceType); ok {
			return &gtype{kind: "ifaces", elem: &gtype{kind: "iface"}}
		}
		return &gtype{kind: "slice", elem: parseType(t.Elt, side)}
	case *ast.MapType:
		k := src(t.Key)
		v := src(t.Value)
		if k == "string" && v == "interface{}" {
			return &gtype{kind: "attrs"}
		}
		if k == "string" && v == "[]byte" {
			return &gtype{kind: "viewsmap"}
		}
		die("map type %s not handled", src(e))
	case *ast.InterfaceType:
		return &gtype{kind: "iface"}
	}
	die("type %s not handled", src(e))
	return nil
}

func namedType(name, side string) *gtype {
	if side == "P" {
		if enumTypes[name] {
			return &gtype{kind: "u32"}
		}
		if u, ok := named[name]; ok {
			return parseType(u, "P")
		}
	}
	return &gtype{kind: "struct", side: side, name: name}
}

func loadStructs(dir, side string, only func(string) bool) {
	files, _ := filepath.Glob(filepath.Join(dir, "*.go"))
	var parsed []*ast.File
	for _, f := range files {
		if strings.HasSuffix(f, "_test.go") || !only(filepath.Base(f)) {
			continue
		}
		af, err := parser.ParseFile(fset, f, nil, 0)
		if err != nil {
			die("%v", err)
		}
		parsed = append(parsed, af)
	}
	// first named non-struct types, then structs
	for _, af := range parsed {
		for _, d := range af.Decls {
			gd, ok := d.(*ast.GenDecl)
			if !ok || gd.Tok != token.TYPE {
				continue
			}
			for _, s := range gd.Specs {
				ts := s.(*ast.TypeSpec)
				if _, ok := ts.Type.(*ast.StructType); !ok && side == "P" {
					switch ts.Type.(type) {
					case *ast.Ident, *ast.ArrayType:
						named[ts.Name.Name] = ts.Type
					}
				}
			}
		}
	}
	for _, af := range parsed {
		for _, d := range af.Decls {
			gd, ok := d.(*ast.GenDecl)
			if !ok || gd.Tok != token.TYPE {
				continue
			}
			for _, s := range gd.Specs {
				ts := s.(*ast.TypeSpec)
				if st, ok := ts.Type.(*ast.StructType); ok {
					rawStructs[side+"."+ts.Name.Name] = st
				}
			}
		}
	}
}

var rawStructs = map[string]*ast.StructType{}

// resolveStruct parses the exported fields of a struct on first use.
func resolveStruct(side, name string) *structDef {
	key := side + "." + name
	if sd, ok := structs[key]; ok {
		return sd
	}
	st, ok := rawStructs[key]
	if !ok {
		die("struct %s not found", key)
	}
	sd := &structDef{side: side, name: name}
	structs[key] = sd
	if handTypes[key] {
		return sd
	}
	for _, f := range st.Fields.List {
		if len(f.Names) == 0 {
			die("embedded field in %s not handled", key)
		}
		for _, n := range f.Names {
			if !n.IsExported() {
				die("struct %s has the unexported field %s: list the type in handTypes and model it by hand", key, n.Name)
			}
			if strings.HasPrefix(n.Name, "XXX_") {
				continue
			}
			sd.fields = append(sd.fields, field{n.Name, parseType(f.Type, side)})
		}
	}
	return sd
}

func (sd *structDef) field(name string) *field {
	for i := range sd.fields {
		if sd.fields[i].name == name {
			return &sd.fields[i]
		}
	}
	return nil
}

// ---------------------------------------------------------------- Lean types

var guardedEnc = map[string]bool{} // "P.FieldOptions": encoder returns nil for nil

func leanField(n string) string {
	switch n {
	case "Type", "Prop", "Sort", "end", "from", "at", "in", "open", "show", "have":
		return n + "_"
	}
	return n
}

// leanType: the Lean type of a Go type as a field / variable.
func leanType(t *gtype) string {
	switch t.kind {
	case "string":
		return "String"
	case "bool":
		return "Bool"
	case "u64":
		return "UInt64"
	case "u32":
		return "UInt32"
	case "u16":
		return "UInt16"
	case "i64":
		return "Int64"
	case "f64":
		return "Float"
	case "bytes":
		return "(List UInt8)"
	case "struct":
		return t.side + "." + t.name
	case "ptr":
		if t.elem.kind != "struct" {
			die("pointer to %s not handled", t.elem)
		}
		if t.elem.side == "I" || guardedEnc[t.elem.String()] {
			return "(Option " + leanType(t.elem) + ")"
		}
		// a pilosa-side pointer whose encoder dereferences it unconditionally: a nil pointer cannot be
		// encoded at all; the Lean type makes that precondition explicit
		return leanType(t.elem)
	case "slice":
		el := t.elem
		if el.kind == "ptr" {
			el = el.elem // elements of []*T are never nil (protobuf allocates them; encoders dereference them)
		}
		return "(List " + leanType(el) + ")"
	case "attrs":
		return "Attrs"
	case "viewsmap":
		return "ViewsMap"
	case "bitmap":
		return "Bitmap"
	case "error":
		return "(Option String)"
	case "iface":
		return "P.Result"
	case "ifaces":
		return "(List P.Result)"
	}
	die("no Lean type for %s", t)
	return ""
}

func zeroValue(t *gtype) string {
	switch t.kind {
	case "string":
		return `""`
	case "bool":
		return "false"
	case "u64", "u32", "u16", "i64":
		return "0"
	case "f64":
		return "0.0"
	case "struct":
		return "{}"
	case "ptr":
		if strings.HasPrefix(leanType(t), "(Option") {
			return "none"
		}
		return "{}"
	case "bytes", "slice", "attrs", "viewsmap", "bitmap", "ifaces":
		return "[]"
	case "error":
		return "none"
	case "iface":
		return ".nil"
	}
	die("no zero value for %s", t)
	return ""
}

// ---------------------------------------------------------------- functions of proto.go

var funcs = map[string]*ast.FuncDecl{}
var funcOrder []string

type sig struct {
	params  []field
	results []*gtype
}

func sideOfParamType(e ast.Expr) string { return "P" }

func funcSig(fd *ast.FuncDecl) sig {
	var s sig
	for _, p := range fd.Type.Params.List {
		t := parseType(p.Type, "P")
		if len(p.Names) == 0 {
			s.params = append(s.params, field{"_", t})
		}
		for _, n := range p.Names {
			s.params = append(s.params, field{n.Name, t})
		}
	}
	if fd.Type.Results != nil {
		for _, r := range fd.Type.Results.List {
			s.results = append(s.results, parseType(r.Type, "P"))
		}
	}
	return s
}

// ---------------------------------------------------------------- translation environment

type env struct {
	fn     string
	vars   map[string]*gtype // Go variable -> Go type
	lean   map[string]string // Go variable -> Lean expression standing for it
	lines  []string          // emitted do-lines
	indent string
	monad  bool // inside a decoder (Outcome); encoders are pure except where noted
	tmp    int
}

func (e *env) fail(n ast.Node, why string) {
	die("%s: %s: `%s` (%s)", e.fn, why, strings.ReplaceAll(src(n), "\n", " "), fset.Position(n.Pos()))
}

func (e *env) emit(s string) { e.lines = append(e.lines, e.indent+s) }
func (e *env) fresh(base string) string {
	e.tmp++
	return fmt.Sprintf("%s%d", base, e.tmp)
}

func (e *env) clone() *env {
	c := &env{fn: e.fn, vars: map[string]*gtype{}, lean: map[string]string{}, indent: e.indent, monad: e.monad, tmp: e.tmp}
	for k, v := range e.vars {
		c.vars[k] = v
	}
	for k, v := range e.lean {
		c.lean[k] = v
	}
	return c
}

// deref: the struct type behind a (pointer to a) struct
func structOf(t *gtype) *structDef {
	if t.kind == "ptr" || t.kind == "addr" {
		t = t.elem
	}
	if t.kind != "struct" {
		return nil
	}
	return resolveStruct(t.side, t.name)
}

var constants = map[string]string{} // Go const name -> Lean name (emitted in GenTypes)

// expr translates a Go expression to a Lean term; monadic sub-calls are bound with `let x ← ..`
// lines emitted before.  Returns the Lean term and the Go type.
func (e *env) expr(x ast.Expr) (string, *gtype) {
	switch v := x.(type) {
	case *ast.ParenExpr:
		return e.expr(v.X)
	case *ast.Ident:
		if v.Name == "nil" {
			return "none", &gtype{kind: "nil"}
		}
		if v.Name == "true" || v.Name == "false" {
			return v.Name, &gtype{kind: "bool"}
		}
		if c, ok := constants[v.Name]; ok {
			return c, &gtype{kind: "const"}
		}
		t, ok := e.vars[v.Name]
		if !ok {
			e.fail(x, "unknown identifier")
		}
		return e.lean[v.Name], t
	case *ast.BasicLit:
		if v.Kind == token.STRING {
			return v.Value, &gtype{kind: "string"}
		}
		if v.Kind == token.INT {
			return v.Value, &gtype{kind: "const"}
		}
		e.fail(x, "literal not handled")
	case *ast.SelectorExpr:
		base, bt := e.expr(v.X)
		sd := structOf(bt)
		if sd == nil {
			e.fail(x, "field access on a non-struct")
		}
		f := sd.field(v.Sel.Name)
		if f == nil {
			e.fail(x, "no such field")
		}
		return base + "." + leanField(f.name), f.typ
	case *ast.IndexExpr:
		// a[i]: only the element variable of an enclosing loop
		key := src(x)
		if l, ok := e.lean[key]; ok {
			return l, e.vars[key]
		}
		// X[0] without a length check: index out of range panics on an empty slice
		if bl, ok := v.Index.(*ast.BasicLit); ok && bl.Value == "0" && e.monad {
			coll, ct := e.expr(v.X)
			if ct.kind == "slice" {
				tmp := e.fresh("h")
				e.emit(fmt.Sprintf("let %s ← headOrPanic \"%s: index out of range [0]\" %s", tmp, e.fn, coll))
				return tmp, elemOf(ct)
			}
		}
		e.fail(x, "index expression outside a recognised loop")
	case *ast.UnaryExpr:
		if v.Op == token.AND {
			// &x.F: pointer to an existing value / &T{...}: pointer to a fresh struct
			inner, it := e.expr(v.X)
			return inner, &gtype{kind: "addr", elem: it}
		}
		e.fail(x, "unary operator not handled")
	case *ast.CompositeLit:
		return e.composite(v)
	case *ast.CallExpr:
		return e.call(v)
	}
	e.fail(x, "expression not handled")
	return "", nil
}

// adapt converts a Lean term of Go type `from` to what a context of Lean type `want` expects.
func (e *env) adapt(term string, from *gtype, want string, n ast.Node) string {
	have := ""
	switch from.kind {
	case "nil":
		if strings.HasPrefix(want, "(Option") {
			return "none"
		}
		if strings.HasPrefix(want, "(List") || want == "Attrs" {
			return "[]"
		}
		e.fail(n, "nil in a context of type "+want)
	case "const":
		return term
	case "addr":
		have = leanType(from.elem)
		if from.elem.kind == "ptr" {
			e.fail(n, "address of a pointer")
		}
	default:
		have = leanType(from)
	}
	if have == want {
		return term
	}
	if want == "(Option "+have+")" {
		return "(some " + term + ")"
	}
	e.fail(n, fmt.Sprintf("type mismatch: have %s, want %s", have, want))
	return ""
}

func (e *env) composite(v *ast.CompositeLit) (string, *gtype) {
	switch tt := v.Type.(type) {
	case *ast.ArrayType:
		// []*internal.Pair{x}
		t := parseType(tt, "P")
		var parts []string
		elT := leanType(t)
		elT = strings.TrimSuffix(strings.TrimPrefix(elT, "(List "), ")")
		for _, el := range v.Elts {
			term, et := e.expr(el)
			parts = append(parts, e.adapt(term, stripPtr(et), elT, el))
		}
		return "[" + strings.Join(parts, ", ") + "]", t
	}
	t := parseType(v.Type, "P")
	sd := structOf(t)
	if sd == nil {
		e.fail(v, "composite literal of a non-struct")
	}
	var parts []string
	seen := map[string]bool{}
	for _, el := range v.Elts {
		kv, ok := el.(*ast.KeyValueExpr)
		if !ok {
			e.fail(v, "positional struct literal")
		}
		fname := kv.Key.(*ast.Ident).Name
		f := sd.field(fname)
		if f == nil {
			e.fail(kv, "no such field")
		}
		seen[fname] = true
		term, ft := e.expr(kv.Value)
		parts = append(parts, leanField(fname)+" := "+e.adapt(term, ft, leanType(f.typ), kv))
	}
	if len(parts) == 0 {
		return "({} : " + leanType(t) + ")", t
	}
	return "({ " + strings.Join(parts, ", ") + " } : " + leanType(t) + ")", t
}

// stripPtr: the value type behind &T{..} / a call returning *T used as a list element
func stripPtr(t *gtype) *gtype {
	if t.kind == "addr" {
		return t.elem
	}
	if t.kind == "ptr" {
		return t
	}
	return t
}

var convLean = map[string]string{
	"u16>u32": ".toUInt32", "u32>u16": ".toUInt16",
}

func (e *env) call(c *ast.CallExpr) (string, *gtype) {
	fn := src(c.Fun)
	// conversions
	switch fn {
	case "uint64", "uint", "uint32", "uint16", "int64", "string", "pilosa.TimeQuantum", "pilosa.NodeEventType", "pilosa.RowIDs":
		if len(c.Args) != 1 {
			e.fail(c, "conversion with several arguments")
		}
		term, from := e.expr(c.Args[0])
		to := parseType(c.Fun, "P")
		if leanType(from) == leanType(to) {
			return term, to
		}
		if m, ok := convLean[from.kind+">"+to.kind]; ok {
			return term + m, to
		}
		e.fail(c, fmt.Sprintf("conversion %s -> %s not handled", from, to))
	case "make":
		// make([]T, 0, n) / make([]T, 0): the empty list; make([]T, n) only in recognised idioms
		if len(c.Args) >= 2 {
			if bl, ok := c.Args[1].(*ast.BasicLit); ok && bl.Value == "0" {
				return "[]", parseType(c.Args[0], "P")
			}
		}
		e.fail(c, "make outside a recognised idiom")
	case "errors.New":
		term, _ := e.expr(c.Args[0])
		return "(some " + term + ")", &gtype{kind: "error"}
	case "roaring.NewBitmap":
		// roaring.NewBitmap(xs...): the set of the elements (Base.lean: setOfList); other argument
		// forms are not known.
		if len(c.Args) != 1 || !c.Ellipsis.IsValid() {
			e.fail(c, "roaring.NewBitmap without a single spread argument")
		}
		term, at := e.expr(c.Args[0])
		if at.kind != "slice" || at.elem.kind != "u64" {
			e.fail(c, "roaring.NewBitmap of something else than []uint64")
		}
		return "(setOfList " + term + ")", &gtype{kind: "bitmap"}
	}
	// method calls known to the hand model
	if sel, ok := c.Fun.(*ast.SelectorExpr); ok {
		if _, isIdent := sel.X.(*ast.Ident); !isIdent || e.vars[sel.X.(*ast.Ident).Name] != nil {
			recv, rt := e.expr(sel.X)
			if sel.Sel.Name == "Error" && rt.kind == "error" {
				// m.Err.Error() under `if m.Err != nil`
				return "(" + recv + ".getD \"\")", &gtype{kind: "string"}
			}
			if sel.Sel.Name == "Slice" && rt.kind == "bitmap" && len(c.Args) == 0 {
				// (*roaring.Bitmap).Slice(): a Bitmap is represented by its ascending slice (Base.lean)
				return recv, &gtype{kind: "slice", elem: &gtype{kind: "u64"}}
			}
			e.fail(c, "method call not handled (model the function by hand)")
		}
	}
	id, ok := c.Fun.(*ast.Ident)
	if !ok {
		e.fail(c, "call not handled")
	}
	fd, ok := funcs[id.Name]
	if !ok {
		e.fail(c, "call of an unknown function")
	}
	s := funcSig(fd)
	info := fnInfo[id.Name]
	var args []string
	for i, a := range c.Args {
		if info.inout >= 0 && i == info.inout {
			continue // the in-out target is handled by the caller (statement patterns)
		}
		term, at := e.expr(a)
		args = append(args, e.adapt(term, at, leanType(s.params[i].typ), a))
	}
	app := id.Name
	for _, a := range args {
		app += " " + a
	}
	if info.inout >= 0 {
		e.fail(c, "in-place decoder used as an expression")
	}
	rt := &gtype{kind: "unit"}
	if len(s.results) > 0 {
		rt = s.results[0]
	}
	if info.kind == "enc" && rt.kind == "ptr" && !info.guarded {
		rt = rt.elem // an unguarded encoder always returns a fresh struct
	}
	if info.monadic {
		if !e.monad {
			e.fail(c, "decoder called from an encoder")
		}
		v := e.fresh("r")
		e.emit("let " + v + " ← " + app)
		return v, rt
	}
	return "(" + app + ")", rt
}

// ---------------------------------------------------------------- function classification

type finfo struct {
	name    string
	kind    string // enc, dec
	monadic bool   // returns Outcome
	inout   int    // index of the in-out parameter (decoders that fill *m), -1 otherwise
	filler  bool   // func(src []*I.T, m []*P.T): fills m[i]
	guarded bool   // first statement: if p == nil { return .. }
	hand    bool
	sig     sig
	pType   string // pilosa-side type of the pair (P.X), iType likewise
	iType   string
	errRes  bool // returns an error (last result)
}

var fnInfo = map[string]*finfo{}

func isNilGuard(st ast.Stmt, param string) (*ast.IfStmt, bool) {
	is, ok := st.(*ast.IfStmt)
	if !ok || is.Init != nil || is.Else != nil {
		return nil, false
	}
	be, ok := is.Cond.(*ast.BinaryExpr)
	if !ok || be.Op != token.EQL || src(be.Y) != "nil" || src(be.X) != param {
		return nil, false
	}
	if len(is.Body.List) != 1 {
		return nil, false
	}
	_, ok = is.Body.List[0].(*ast.ReturnStmt)
	return is, ok
}

func classify() {
	for _, name := range funcOrder {
		fd := funcs[name]
		if !(strings.HasPrefix(name, "encode") || strings.HasPrefix(name, "decode")) || name == "encodeToProto" {
			continue
		}
		s := funcSig(fd)
		fi := &finfo{name: name, sig: s, inout: -1, hand: handModelled[name]}
		if strings.HasPrefix(name, "encode") {
			fi.kind = "enc"
		} else {
			fi.kind = "dec"
			fi.monadic = true
		}
		if len(s.params) > 0 && len(fd.Body.List) > 0 {
			if _, ok := isNilGuard(fd.Body.List[0], s.params[0].name); ok {
				fi.guarded = true
			}
		}
		if fi.kind == "dec" && len(s.results) > 0 && s.results[len(s.results)-1].kind == "error" {
			fi.errRes = true
		}
		if fi.kind == "dec" && len(s.params) == 2 {
			p1 := s.params[1].typ
			if p1.kind == "ptr" && p1.elem.kind == "struct" && p1.elem.side == "P" {
				fi.inout = 1
			}
			if (p1.kind == "slice" || p1.kind == "ifaces") && s.params[0].typ.kind == "slice" {
				fi.filler = true
			}
		}
		fnInfo[name] = fi
	}
	// guarded encoders decide which pilosa-side pointers are optional
	for _, fi := range fnInfo {
		if fi.kind == "enc" && fi.guarded {
			t := fi.sig.params[0].typ
			if t.kind == "ptr" {
				guardedEnc[t.elem.String()] = true
			}
		}
	}
	// encodeQueryResponse contains `default: panic`: it is the one encoder in the Outcome monad
	if fi, ok := fnInfo["encodeQueryResponse"]; ok {
		fi.monadic = true
	}
}

// ---------------------------------------------------------------- statements

// target describes an lvalue root that is being built: Go text -> Lean variable holding the struct
type target struct {
	goText string
	leanVar string
	typ     *gtype
}

// lvalue splits `root.F` where root is a known target.
func (e *env) fieldAssign(lhs ast.Expr) (root string, f *field, ok bool) {
	sel, ok := lhs.(*ast.SelectorExpr)
	if !ok {
		return "", nil, false
	}
	key := src(sel.X)
	t, ok2 := e.vars[key]
	if !ok2 {
		return "", nil, false
	}
	sd := structOf(t)
	if sd == nil {
		return "", nil, false
	}
	fl := sd.field(sel.Sel.Name)
	if fl == nil {
		e.fail(lhs, "no such field")
	}
	return key, fl, true
}

func (e *env) setField(root string, f *field, val string) {
	lv := e.lean[root]
	e.emit(fmt.Sprintf("let %s := { %s with %s := %s }", lv, lv, leanField(f.name), val))
}

// isFreshPtr: &pilosa.T{}  /  pilosa.T{}
func freshStruct(x ast.Expr) (*gtype, bool) {
	if u, ok := x.(*ast.UnaryExpr); ok && u.Op == token.AND {
		x = u.X
	}
	cl, ok := x.(*ast.CompositeLit)
	if !ok || len(cl.Elts) != 0 {
		return nil, false
	}
	t := parseType(cl.Type, "P")
	if t.kind != "struct" {
		return nil, false
	}
	return t, true
}

// callStmt: `decodeT(SRC, DST)` as a statement with an in-out target
func inoutCall(st ast.Stmt) (*ast.CallExpr, *finfo, bool) {
	es, ok := st.(*ast.ExprStmt)
	if !ok {
		return nil, nil, false
	}
	c, ok := es.X.(*ast.CallExpr)
	if !ok {
		return nil, nil, false
	}
	id, ok := c.Fun.(*ast.Ident)
	if !ok {
		return nil, nil, false
	}
	fi, ok := fnInfo[id.Name]
	if !ok || !(fi.inout >= 0 || fi.filler) {
		return nil, nil, false
	}
	return c, fi, true
}

func isMakeLen(x ast.Expr) (ast.Expr, bool) {
	c, ok := x.(*ast.CallExpr)
	if !ok || src(c.Fun) != "make" {
		return nil, false
	}
	if len(c.Args) == 2 {
		if l, ok := c.Args[1].(*ast.CallExpr); ok && src(l.Fun) == "len" {
			return l.Args[0], true
		}
	}
	return nil, false
}

func isMakeEmpty(x ast.Expr) bool {
	c, ok := x.(*ast.CallExpr)
	if !ok || src(c.Fun) != "make" {
		return false
	}
	if len(c.Args) >= 2 {
		if bl, ok := c.Args[1].(*ast.BasicLit); ok && bl.Value == "0" {
			return true
		}
	}
	return false
}

// stmts translates a statement list; returns true when the list ended with a return.
func (e *env) stmts(list []ast.Stmt, ret func(r *ast.ReturnStmt)) bool {
	for i := 0; i < len(list); i++ {
		st := list[i]
		switch s := st.(type) {
		case *ast.ReturnStmt:
			ret(s)
			return true
		case *ast.ExprStmt:
			// decodeT(SRC, &m.F) / decodeT(SRC, m.F) on an existing value
			if c, fi, ok := inoutCall(s); ok && fi.inout >= 0 {
				dst := c.Args[fi.inout]
				if u, ok := dst.(*ast.UnaryExpr); ok && u.Op == token.AND {
					dst = u.X
				}
				root, f, ok := e.fieldAssign(dst)
				if !ok {
					// the whole target variable: decodeT(SRC, m[i]) with m[i] a target
					key := src(dst)
					if _, isT := e.vars[key]; isT {
						srcTerm, st0 := e.expr(c.Args[0])
						a0 := e.adapt(srcTerm, st0, leanType(fi.sig.params[0].typ), c)
						lv := e.lean[key]
						e.emit(fmt.Sprintf("let %s ← %s %s %s", lv, fi.name, a0, lv))
						continue
					}
					e.fail(st, "in-place decode into an unknown target")
				}
				srcTerm, st0 := e.expr(c.Args[0])
				a0 := e.adapt(srcTerm, st0, leanType(fi.sig.params[0].typ), c)
				cur := e.lean[root] + "." + leanField(f.name)
				v := e.fresh("r")
				if strings.HasPrefix(leanType(f.typ), "(Option") {
					e.fail(st, "in-place decode into an optional field without a fresh allocation")
				}
				e.emit(fmt.Sprintf("let %s ← %s %s %s", v, fi.name, a0, cur))
				e.setField(root, f, v)
				continue
			}
			e.fail(st, "statement not handled")
		case *ast.AssignStmt:
			if len(s.Lhs) != 1 || len(s.Rhs) != 1 {
				e.fail(st, "multiple assignment")
			}
			lhs, rhs := s.Lhs[0], s.Rhs[0]
			// x := ... (local variable)
			if s.Tok == token.DEFINE {
				name := lhs.(*ast.Ident).Name
				// alias: fr := a[i]
				if _, ok := rhs.(*ast.IndexExpr); ok {
					term, t := e.expr(rhs)
					e.vars[name] = t
					e.lean[name] = term
					continue
				}
				// local struct under construction: ifield := &internal.Field{...}
				if u, ok := rhs.(*ast.UnaryExpr); ok && u.Op == token.AND {
					if cl, ok := u.X.(*ast.CompositeLit); ok {
						term, t := e.composite(cl)
						e.vars[name] = &gtype{kind: "addr", elem: t}
						e.lean[name] = name
						e.emit(fmt.Sprintf("let %s := %s", name, term))
						continue
					}
				}
				e.fail(st, "local definition not handled")
			}
			if s.Tok != token.ASSIGN {
				e.fail(st, "assignment operator not handled")
			}
			root, f, ok := e.fieldAssign(lhs)
			if !ok {
				// whole-target assignment: other[i] = EXPR
				key := src(lhs)
				if tt, isT := e.vars[key]; isT && e.lean[key] != "" {
					term, rt := e.expr(rhs)
					want := leanType(tt)
					if tt.kind == "ptr" {
						want = leanType(tt.elem)
					}
					e.emit(fmt.Sprintf("let %s := %s", e.lean[key], e.adapt(term, stripAddr(rt), want, rhs)))
					continue
				}
				e.fail(st, "assignment to an unknown target")
			}
			// m.F = &pilosa.T{} ; decodeT(SRC, m.F)     |  m.F = pilosa.T{} ; decodeT(SRC, &m.F)
			if ft, ok := freshStruct(rhs); ok && i+1 < len(list) {
				if c, fi, ok2 := inoutCall(list[i+1]); ok2 && fi.inout >= 0 {
					dst := c.Args[fi.inout]
					if u, ok := dst.(*ast.UnaryExpr); ok && u.Op == token.AND {
						dst = u.X
					}
					if src(dst) == src(lhs) {
						srcTerm, st0 := e.expr(c.Args[0])
						a0 := e.adapt(srcTerm, st0, leanType(fi.sig.params[0].typ), c)
						v := e.fresh("r")
						e.emit(fmt.Sprintf("let %s ← %s %s ({} : %s)", v, fi.name, a0, leanType(ft)))
						e.setField(root, f, e.adapt(v, ft, leanType(f.typ), st))
						i++
						continue
					}
				}
				// a fresh zero value that is not decoded into: plain assignment of the zero value
				e.setField(root, f, e.adapt("({} : "+leanType(ft)+")", ft, leanType(f.typ), st))
				continue
			}
			// m.F = make([]*T, len(SRC)) ; decodeTs(SRC, m.F)
			if lenOf, ok := isMakeLen(rhs); ok && i+1 < len(list) {
				if c, fi, ok2 := inoutCall(list[i+1]); ok2 && fi.filler && src(c.Args[1]) == src(lhs) && src(c.Args[0]) == src(lenOf) {
					srcTerm, _ := e.expr(c.Args[0])
					v := e.fresh("r")
					e.emit(fmt.Sprintf("let %s ← %s %s", v, fi.name, srcTerm))
					e.setField(root, f, v)
					i++
					continue
				}
				e.fail(st, "make(.., len(..)) not followed by its filler")
			}
			// m.F = make([]T, 0, n) ; for _, v := range X { m.F = append(m.F, ELEM) }
			if isMakeEmpty(rhs) && i+1 < len(list) {
				if rs, ok := list[i+1].(*ast.RangeStmt); ok {
					if term, ok := e.appendLoop(rs, src(lhs), f.typ); ok {
						e.setField(root, f, term)
						i++
						continue
					}
				}
			}
			// append(m.F, ..) outside the idiom
			term, rt := e.expr(rhs)
			e.setField(root, f, e.adapt(term, rt, leanType(f.typ), st))
		case *ast.RangeStmt:
			// for _, v := range X { V.F = append(V.F, ELEM) } on a local struct
			if as, ok := onlyStmt(s.Body).(*ast.AssignStmt); ok && len(as.Lhs) == 1 {
				if root, f, ok := e.fieldAssign(as.Lhs[0]); ok {
					if term, ok := e.appendLoop(s, src(as.Lhs[0]), f.typ); ok {
						cur := e.lean[root] + "." + leanField(f.name)
						e.setField(root, f, "("+cur+" ++ "+term+")")
						continue
					}
				}
			}
			e.fail(st, "loop not handled")
		case *ast.IfStmt:
			e.ifStmt(s, ret)
		default:
			e.fail(st, "statement not handled")
		}
	}
	return false
}

func stripAddr(t *gtype) *gtype {
	if t.kind == "addr" {
		return t.elem
	}
	return t
}

func onlyStmt(b *ast.BlockStmt) ast.Stmt {
	if len(b.List) == 1 {
		return b.List[0]
	}
	return nil
}

// appendLoop: `for _, v := range X { DST = append(DST, ELEM(v)) }` -> X.map (fun v => ELEM)
func (e *env) appendLoop(rs *ast.RangeStmt, dst string, dstType *gtype) (string, bool) {
	as, ok := onlyStmt(rs.Body).(*ast.AssignStmt)
	if !ok || len(as.Lhs) != 1 || src(as.Lhs[0]) != dst {
		return "", false
	}
	c, ok := as.Rhs[0].(*ast.CallExpr)
	if !ok || src(c.Fun) != "append" || len(c.Args) != 2 || src(c.Args[0]) != dst {
		return "", false
	}
	if rs.Value == nil {
		return "", false
	}
	coll, ct := e.expr(rs.X)
	if ct.kind != "slice" {
		e.fail(rs, "range over a non-slice")
	}
	v := rs.Value.(*ast.Ident).Name
	sub := e.clone()
	el := elemOf(ct)
	sub.vars[v] = el
	sub.lean[v] = v
	n0 := len(sub.lines)
	term, et := sub.expr(c.Args[1])
	if len(sub.lines) != n0 {
		e.fail(rs, "monadic element in an append loop")
	}
	want := strings.TrimSuffix(strings.TrimPrefix(leanType(dstType), "(List "), ")")
	term = sub.adapt(term, stripAddr(et), want, rs)
	return fmt.Sprintf("(%s.map (fun %s => %s))", coll, v, term), true
}

// ifStmt: both branches only assign fields of known targets (or the if has no else)
func (e *env) ifStmt(s *ast.IfStmt, ret func(r *ast.ReturnStmt)) {
	if s.Init != nil {
		e.fail(s, "if with init")
	}
	cond := e.cond(s.Cond)
	// collect the targets: translate each branch on a clone, then merge the final Lean variables
	thenE := e.clone()
	thenE.indent = e.indent + "  "
	returned := thenE.stmts(s.Body.List, ret)
	if returned {
		e.fail(s, "return inside if (only the leading nil guard may return)")
	}
	var elseE *env
	if s.Else != nil {
		eb, ok := s.Else.(*ast.BlockStmt)
		if !ok {
			e.fail(s, "else-if not handled")
		}
		elseE = e.clone()
		elseE.indent = e.indent + "  "
		if elseE.stmts(eb.List, ret) {
			e.fail(s, "return inside else")
		}
	}
	// which Lean variables were rebound?
	rebound := map[string]bool{}
	re := regexp.MustCompile(`^\s*let (\w+) (:=|←)`)
	for _, br := range []*env{thenE, elseE} {
		if br == nil {
			continue
		}
		for _, l := range br.lines {
			if m := re.FindStringSubmatch(l); m != nil {
				if m[2] == "←" {
					e.fail(s, "monadic call inside if")
				}
				rebound[m[1]] = true
			}
		}
	}
	var names []string
	for n := range rebound {
		isVar := false
		for _, lv := range e.lean {
			if lv == n {
				isVar = true
			}
		}
		if isVar {
			names = append(names, n)
		}
	}
	sort.Strings(names)
	if len(names) != 1 {
		e.fail(s, fmt.Sprintf("if must update exactly one target (updates %v)", names))
	}
	n := names[0]
	branch := func(br *env) string {
		if br == nil || len(br.lines) == 0 {
			return n
		}
		var b strings.Builder
		for _, l := range br.lines {
			b.WriteString("\n" + l)
		}
		b.WriteString("\n" + br.indent + n)
		return b.String()
	}
	e.emit(fmt.Sprintf("let %s := if %s then%s", n, cond, indentBranch(branch(thenE), n)))
	e.emit(fmt.Sprintf("  else%s", indentBranch(branch(elseE), n)))
	if thenE.tmp > e.tmp {
		e.tmp = thenE.tmp
	}
	if elseE != nil && elseE.tmp > e.tmp {
		e.tmp = elseE.tmp
	}
}

func indentBranch(b, n string) string {
	if b == n {
		return " " + n
	}
	return b
}

func (e *env) cond(x ast.Expr) string {
	be, ok := x.(*ast.BinaryExpr)
	if !ok {
		e.fail(x, "condition not handled")
	}
	l, lt := e.expr(be.X)
	op := ""
	switch be.Op {
	case token.EQL:
		op = "="
	case token.NEQ:
		op = "≠"
	default:
		e.fail(x, "comparison operator not handled")
	}
	if src(be.Y) == "nil" {
		switch lt.kind {
		case "error", "ptr":
			if be.Op == token.EQL {
				return l + ".isNone"
			}
			return l + ".isSome"
		}
		e.fail(x, "nil comparison on "+lt.String())
	}
	r, _ := e.expr(be.Y)
	if call, ok := be.X.(*ast.CallExpr); ok && src(call.Fun) == "len" {
		_ = call
	}
	return l + " " + op + " " + r
}
