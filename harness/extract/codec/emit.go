package main

import (
	"crypto/sha1"
	"flag"
	"fmt"
	"go/ast"
	"go/parser"
	"os"
	"path/filepath"
	"regexp"
	"sort"
	"strings"
)

func parseExprString(s string) (ast.Expr, error) { return parser.ParseExpr(s) }

// ---------------------------------------------------------------- coverage tables

func typeSwitchCases(fd *ast.FuncDecl) []string {
	var out []string
	ast.Inspect(fd.Body, func(n ast.Node) bool {
		ts, ok := n.(*ast.TypeSwitchStmt)
		if !ok {
			return true
		}
		for _, c := range ts.Body.List {
			cc := c.(*ast.CaseClause)
			for _, te := range cc.List {
				s := strings.TrimPrefix(src(te), "*")
				s = strings.TrimPrefix(s, "pilosa.")
				out = append(out, s)
			}
		}
		return false
	})
	return out
}

func findFunc(file, name string, recv bool) *ast.FuncDecl {
	af, err := parser.ParseFile(fset, file, nil, 0)
	if err != nil {
		die("%v", err)
	}
	for _, d := range af.Decls {
		if fd, ok := d.(*ast.FuncDecl); ok && fd.Name.Name == name && (fd.Recv != nil) == recv {
			return fd
		}
	}
	die("%s: function %s not found", file, name)
	return nil
}

// getMessage: switch typ { case messageTypeX: return &X{} }
func getMessagePairs(fd *ast.FuncDecl) [][2]string {
	var out [][2]string
	ast.Inspect(fd.Body, func(n ast.Node) bool {
		sw, ok := n.(*ast.SwitchStmt)
		if !ok {
			return true
		}
		for _, c := range sw.Body.List {
			cc := c.(*ast.CaseClause)
			if cc.List == nil {
				continue
			}
			r, ok := cc.Body[0].(*ast.ReturnStmt)
			if !ok {
				die("getMessage: case body is not a return")
			}
			t := strings.TrimSuffix(strings.TrimPrefix(src(r.Results[0]), "&"), "{}")
			out = append(out, [2]string{src(cc.List[0]), t})
		}
		return false
	})
	return out
}

// getMessageType: switch m.(type) { case *X: return messageTypeX }
func getMessageTypePairs(fd *ast.FuncDecl) [][2]string {
	var out [][2]string
	ast.Inspect(fd.Body, func(n ast.Node) bool {
		ts, ok := n.(*ast.TypeSwitchStmt)
		if !ok {
			return true
		}
		for _, c := range ts.Body.List {
			cc := c.(*ast.CaseClause)
			if cc.List == nil {
				continue
			}
			r, ok := cc.Body[0].(*ast.ReturnStmt)
			if !ok {
				die("getMessageType: case body is not a return")
			}
			out = append(out, [2]string{src(r.Results[0]), strings.TrimPrefix(src(cc.List[0]), "*")})
		}
		return false
	})
	return out
}

func leanStrList(xs []string) string {
	q := make([]string, len(xs))
	for i, x := range xs {
		q[i] = fmt.Sprintf("%q", x)
	}
	return "[" + strings.Join(q, ", ") + "]"
}

func leanPairList(xs [][2]string) string {
	q := make([]string, len(xs))
	for i, x := range xs {
		q[i] = fmt.Sprintf("(%q, %q)", x[0], x[1])
	}
	return "[" + strings.Join(q, ", ") + "]"
}

// ---------------------------------------------------------------- structures

func structDeps(sd *structDef) []string {
	var out []string
	var walk func(t *gtype)
	walk = func(t *gtype) {
		switch t.kind {
		case "struct":
			out = append(out, t.String())
		case "ptr", "slice":
			walk(t.elem)
		}
	}
	for _, f := range sd.fields {
		walk(f.typ)
	}
	return out
}

func usesResult(sd *structDef) bool {
	for _, f := range sd.fields {
		if f.typ.kind == "iface" || f.typ.kind == "ifaces" {
			return true
		}
	}
	return false
}

func topoStructs(keys []string) []string {
	var order []string
	state := map[string]int{}
	var visit func(k string)
	visit = func(k string) {
		if state[k] == 2 {
			return
		}
		if state[k] == 1 {
			die("recursive struct %s", k)
		}
		state[k] = 1
		sd := structs[k]
		for _, d := range structDeps(sd) {
			if _, ok := structs[d]; !ok {
				parts := strings.SplitN(d, ".", 2)
				resolveStruct(parts[0], parts[1])
			}
			visit(d)
		}
		state[k] = 2
		order = append(order, k)
	}
	sort.Strings(keys)
	for _, k := range keys {
		visit(k)
	}
	return order
}

func emitStruct(sb *strings.Builder, sd *structDef) {
	fmt.Fprintf(sb, "structure %s where\n", sd.name)
	for _, f := range sd.fields {
		fmt.Fprintf(sb, "  %s : %s := %s\n", leanField(f.name), leanType(f.typ), zeroValue(f.typ))
	}
	if len(sd.fields) == 0 {
		fmt.Fprintf(sb, "  mk ::\n")
	}
	sb.WriteString("  deriving Inhabited\n\n")
}

// tree printer / reader of a Lean type
func toTree(t *gtype, term string) string {
	switch t.kind {
	case "string":
		return "strAtom " + term
	case "bool":
		return "boolAtom " + term
	case "u64", "u32", "u16":
		return ".atom (toString " + term + ".toNat)"
	case "i64":
		return ".atom (toString " + term + ".toInt)"
	case "f64":
		return "floatAtom " + term
	case "bytes":
		return "bytesAtom " + term
	case "struct":
		return "toTree_" + t.side + "_" + t.name + " " + term
	case "ptr":
		if strings.HasPrefix(leanType(t), "(Option") {
			return "optTree (fun v => " + toTree(t.elem, "v") + ") " + term
		}
		return toTree(t.elem, term)
	case "slice":
		el := t.elem
		if el.kind == "ptr" {
			el = el.elem
		}
		return "listTree (fun v => " + toTree(el, "v") + ") " + term
	case "attrs":
		return "attrsTree " + term
	case "viewsmap":
		return "viewsTree " + term
	case "bitmap":
		return "listTree (fun v => .atom (toString v.toNat)) " + term
	case "error":
		return "optTree strAtom " + term
	case "iface":
		return "toTree_Result " + term
	case "ifaces":
		return "listTree toTree_Result " + term
	}
	die("no tree printer for %s", t)
	return ""
}

func ofTree(t *gtype) string {
	switch t.kind {
	case "string":
		return "strOfAtom"
	case "bool":
		return "boolOfAtom"
	case "u64":
		return "(fun t => (natOfAtom t).map Nat.toUInt64)"
	case "u32":
		return "(fun t => (natOfAtom t).map Nat.toUInt32)"
	case "u16":
		return "(fun t => (natOfAtom t).map Nat.toUInt16)"
	case "i64":
		return "(fun t => (intOfAtom t).map Int.toInt64)"
	case "f64":
		return "floatOfAtom"
	case "bytes":
		return "bytesOfAtom"
	case "struct":
		return "ofTree_" + t.side + "_" + t.name
	case "ptr":
		if strings.HasPrefix(leanType(t), "(Option") {
			return "(optOfTree " + ofTree(t.elem) + ")"
		}
		return ofTree(t.elem)
	case "slice":
		el := t.elem
		if el.kind == "ptr" {
			el = el.elem
		}
		return "(listOfTree " + ofTree(el) + ")"
	case "attrs":
		return "attrsOfTree"
	case "viewsmap":
		return "viewsOfTree"
	case "bitmap":
		return "(listOfTree (fun t => (natOfAtom t).map Nat.toUInt64))"
	case "error":
		return "(optOfTree strOfAtom)"
	case "iface":
		return "ofTree_Result"
	case "ifaces":
		return "(listOfTree ofTree_Result)"
	}
	die("no tree reader for %s", t)
	return ""
}

func emitTreeFns(sb *strings.Builder, sd *structDef) {
	n := sd.side + "_" + sd.name
	lt := sd.side + "." + sd.name
	fmt.Fprintf(sb, "def toTree_%s (v : %s) : Tree :=\n  .node [", n, lt)
	for i, f := range sd.fields {
		if i > 0 {
			sb.WriteString(",\n    ")
		}
		sb.WriteString(toTree(f.typ, "v."+leanField(f.name)))
	}
	sb.WriteString("]\n\n")
	fmt.Fprintf(sb, "def ofTree_%s : Tree → Option %s\n", n, lt)
	if len(sd.fields) == 0 {
		fmt.Fprintf(sb, "  | .node [] => some {}\n  | _ => none\n\n")
		return
	}
	var pats, binds, sets []string
	for i, f := range sd.fields {
		pats = append(pats, fmt.Sprintf("t%d", i))
		binds = append(binds, fmt.Sprintf("    let f%d ← %s t%d\n", i, ofTree(f.typ), i))
		sets = append(sets, fmt.Sprintf("%s := f%d", leanField(f.name), i))
	}
	fmt.Fprintf(sb, "  | .node [%s] => do\n%s    pure { %s }\n  | _ => none\n\n", strings.Join(pats, ", "), strings.Join(binds, ""), strings.Join(sets, ", "))
}

// ---------------------------------------------------------------- canon

var hooks = map[string]bool{} // P type names with a hand-written canon hook in Hand.lean

func canonOf(t *gtype, term string) string {
	switch t.kind {
	case "struct":
		if t.side == "P" {
			return "(canon_" + t.name + " code " + term + ")"
		}
	case "ptr":
		if t.elem.kind == "struct" && t.elem.side == "P" {
			if strings.HasPrefix(leanType(t), "(Option") {
				return "(" + term + ".map (canon_" + t.elem.name + " code))"
			}
			return "(canon_" + t.elem.name + " code " + term + ")"
		}
	case "slice":
		el := t.elem
		if el.kind == "ptr" {
			el = el.elem
		}
		if el.kind == "struct" && el.side == "P" {
			return "(" + term + ".map (canon_" + el.name + " code))"
		}
	case "iface":
		return "(canon_Result code " + term + ")"
	case "ifaces":
		return "(" + term + ".map (canon_Result code))"
	}
	return term
}

func emitCanon(sb *strings.Builder, sd *structDef) {
	fmt.Fprintf(sb, "def canon_%s (code : Bool) (v : P.%s) : P.%s :=\n", sd.name, sd.name, sd.name)
	var sets []string
	for _, f := range sd.fields {
		c := canonOf(f.typ, "v."+leanField(f.name))
		if c != "v."+leanField(f.name) {
			sets = append(sets, leanField(f.name)+" := "+c)
		}
	}
	body := "v"
	if len(sets) > 0 {
		body = "{ v with " + strings.Join(sets, ", ") + " }"
	}
	if hooks[sd.name] {
		body = "hook_" + sd.name + " code " + body
	}
	fmt.Fprintf(sb, "  %s\n\n", body)
}

// ---------------------------------------------------------------- main

func main() {
	repo := flag.String("repo", "", "pilosa tree")
	typesOut := flag.String("types", "", "GenTypes.lean")
	out := flag.String("out", "", "Gen.lean")
	hand := flag.String("hand", "", "Hand.lean (read: hooks and fingerprints)")
	protoFile := flag.String("proto", "", "override path of proto.go (self-test)")
	printFP := flag.Bool("fingerprints", false, "print the fingerprints of the hand-modelled functions and exit")
	flag.Parse()
	if *repo == "" || *typesOut == "" || *out == "" || *hand == "" {
		die("--repo --types --out --hand required")
	}
	pf := filepath.Join(*repo, "encoding/proto/proto.go")
	if *protoFile != "" {
		pf = *protoFile
	}
	af, err := parser.ParseFile(fset, pf, nil, 0)
	if err != nil {
		die("%v", err)
	}
	for _, d := range af.Decls {
		if fd, ok := d.(*ast.FuncDecl); ok && fd.Recv == nil {
			funcs[fd.Name.Name] = fd
			funcOrder = append(funcOrder, fd.Name.Name)
		}
	}
	// iota constants of proto.go
	for _, d := range af.Decls {
		gd, ok := d.(*ast.GenDecl)
		if !ok || gd.Tok.String() != "const" {
			continue
		}
		iota := -1
		ctype := "Nat"
		for i, s := range gd.Specs {
			vs := s.(*ast.ValueSpec)
			if i == 0 && len(vs.Values) == 1 && src(vs.Values[0]) == "iota" {
				iota = 0
			}
			if vs.Type != nil {
				ctype = leanType(parseType(vs.Type, "P"))
			}
			for _, n := range vs.Names {
				val := ""
				if iota >= 0 {
					val = fmt.Sprint(iota)
				} else if len(vs.Values) == 1 {
					val = src(vs.Values[0])
				}
				constants[n.Name] = "C." + n.Name
				constVals = append(constVals, [3]string{n.Name, val, ctype})
			}
			if iota >= 0 {
				iota++
			}
		}
	}
	loadStructs(*repo, "P", func(string) bool { return true })
	loadStructs(filepath.Join(*repo, "internal"), "I", func(f string) bool { return strings.HasSuffix(f, ".pb.go") })
	classify()

	// fingerprints of the hand-modelled functions
	handSrc, err := os.ReadFile(*hand)
	if err != nil {
		die("%v", err)
	}
	fpRe := regexp.MustCompile(`(?m)^-- fingerprint (\w+) ([0-9a-f]{40})$`)
	recorded := map[string]string{}
	for _, m := range fpRe.FindAllStringSubmatch(string(handSrc), -1) {
		recorded[m[1]] = m[2]
	}
	var hnames []string
	for n := range handModelled {
		hnames = append(hnames, n)
	}
	sort.Strings(hnames)
	for _, n := range hnames {
		fd, ok := funcs[n]
		if !ok {
			die("hand-modelled function %s no longer exists in proto.go", n)
		}
		fp := fmt.Sprintf("%x", sha1.Sum([]byte(src(fd))))
		if *printFP {
			fmt.Printf("-- fingerprint %s %s\n", n, fp)
			continue
		}
		if recorded[n] != fp {
			die("the Go source of %s changed (fingerprint %s, Hand.lean records %q): re-inspect the hand model in lean/PV/C27/Hand.lean and update its fingerprint line", n, fp, recorded[n])
		}
	}
	if *printFP {
		return
	}
	hookRe := regexp.MustCompile(`(?m)^def hook_(\w+)`)
	for _, m := range hookRe.FindAllStringSubmatch(string(handSrc), -1) {
		hooks[m[1]] = true
	}

	// message types: the cases of encodeToProto
	marshal := typeSwitchCases(funcs["encodeToProto"])
	unmarshal := typeSwitchCases(findFunc(pf, "Unmarshal", true))
	bfile := filepath.Join(*repo, "broadcast.go")
	gm := getMessagePairs(findFunc(bfile, "getMessage", false))
	gmt := getMessageTypePairs(findFunc(bfile, "getMessageType", false))
	recv := typeSwitchCases(findFunc(filepath.Join(*repo, "server.go"), "receiveMessage", true))

	// the encoder/decoder each message type dispatches to
	encOf, decOf := dispatchTables(pf)

	for _, t := range marshal {
		resolveStruct("P", t)
	}
	collectResultCtors()
	// the structs in the signatures of every codec function, hand-modelled ones included
	var touch func(t *gtype)
	touch = func(t *gtype) {
		switch t.kind {
		case "struct":
			resolveStruct(t.side, t.name)
		case "ptr", "slice", "addr":
			touch(t.elem)
		}
	}
	for _, fi := range fnInfo {
		for _, p := range fi.sig.params {
			touch(p.typ)
		}
		for _, r := range fi.sig.results {
			touch(r)
		}
	}

	// translate every function (this also resolves the structs that are reachable)
	fns := map[string]*leanFn{}
	var fnames []string
	for n := range fnInfo {
		fnames = append(fnames, n)
	}
	sort.Strings(fnames)
	for _, n := range fnames {
		fi := fnInfo[n]
		if fi.hand {
			continue
		}
		fns[n] = translateFunc(fi)
	}

	// ---------------- GenTypes.lean
	var tb strings.Builder
	tb.WriteString("/-\nGENERATED by harness/extract/codec from encoding/proto/proto.go, the pilosa structs, internal/*.pb.go,\nbroadcast.go and server.go — do not edit.\n-/\nimport PV.C27.Base\nnamespace PV.C27\n\n")
	var keys []string
	for k := range structs {
		keys = append(keys, k)
	}
	order := topoStructs(keys)
	// I-side first (no dependency on Result), then P-side with Result in between
	tb.WriteString("namespace I\n")
	for _, k := range order {
		if sd := structs[k]; sd.side == "I" {
			emitStruct(&tb, sd)
		}
	}
	tb.WriteString("end I\n\n")
	tb.WriteString("/-- `*pilosa.Row` seen through its exported surface: `Columns()` (ascending), `Keys`, `Attrs`. -/\n")
	tb.WriteString("structure P.Row where\n  Columns : List UInt64 := []\n  Keys : List String := []\n  Attrs : Attrs := []\n  deriving Inhabited\n\n")
	tb.WriteString("namespace P\n")
	var pWithResult []string
	for _, k := range order {
		sd := structs[k]
		if sd.side != "P" || handTypes[k] {
			continue
		}
		if usesResult(sd) {
			pWithResult = append(pWithResult, k)
			continue
		}
		emitStruct(&tb, sd)
	}
	tb.WriteString("/-- The dynamic types a query result (`interface{}`) can have: the cases of the type switch of\nencodeQueryResponse and the values decodeQueryResult returns. -/\ninductive Result where\n")
	for _, c := range resultCtors {
		if c.typ.kind == "nil" {
			fmt.Fprintf(&tb, "  | %s\n", c.name)
		} else {
			fmt.Fprintf(&tb, "  | %s (v : %s)\n", c.name, resultPayloadType(c.typ))
		}
	}
	tb.WriteString("  deriving Inhabited\n\n")
	for _, k := range pWithResult {
		emitStruct(&tb, structs[k])
	}
	tb.WriteString("end P\n\n")
	tb.WriteString("namespace C\n")
	for _, c := range constVals {
		if c[1] != "" {
			fmt.Fprintf(&tb, "def %s : %s := %s\n", c[0], c[2], c[1])
		}
	}
	tb.WriteString("end C\n\n")
	// coverage tables
	fmt.Fprintf(&tb, "def marshalTypes : List String := %s\n", leanStrList(marshal))
	fmt.Fprintf(&tb, "def unmarshalTypes : List String := %s\n", leanStrList(unmarshal))
	fmt.Fprintf(&tb, "def getMessagePairs : List (String × String) := %s\n", leanPairList(gm))
	fmt.Fprintf(&tb, "def getMessageTypePairs : List (String × String) := %s\n", leanPairList(gmt))
	fmt.Fprintf(&tb, "def receiveMessageTypes : List String := %s\n", leanStrList(recv))
	fmt.Fprintf(&tb, "def marshalDispatch : List (String × String) := %s\n", leanPairList(encOf))
	fmt.Fprintf(&tb, "def unmarshalDispatch : List (String × String) := %s\n", leanPairList(decOf))
	var ns [][2]string
	var nsk []string
	for k := range notSerialised {
		nsk = append(nsk, k)
	}
	sort.Strings(nsk)
	for _, k := range nsk {
		ns = append(ns, [2]string{k, notSerialised[k]})
	}
	fmt.Fprintf(&tb, "def notSerialised : List (String × String) := %s\n\n", leanPairList(ns))
	tb.WriteString("end PV.C27\n")
	if err := os.WriteFile(*typesOut, []byte(tb.String()), 0o644); err != nil {
		die("%v", err)
	}

	// ---------------- Gen.lean
	var gb strings.Builder
	gb.WriteString("/-\nGENERATED by harness/extract/codec from encoding/proto/proto.go — do not edit.\nEvery encodeX/decodeX translated from its Go body, the structural canonical forms, the tree\nprinters/readers of the protocol, and the round-trip / no-panic theorems of every codec pair.\n-/\nimport PV.C27.Hand\nnamespace PV.C27\nopen PV.C27.C\n\n")
	gb.WriteString("set_option linter.unusedVariables false\nset_option linter.unusedSimpArgs false\n\n")
	forder := topoFuncs(fns, handModelled)
	for _, n := range forder {
		gb.WriteString(fns[n].text + "\n")
	}
	// canon
	gb.WriteString("/-! ## Canonical forms (identity except for the hooks defined in Hand.lean) -/\n\n")
	for pass := 0; pass < 2; pass++ {
		for _, k := range order {
			sd := structs[k]
			if sd.side != "P" || handTypes[k] || usesResult(sd) != (pass == 1) {
				continue
			}
			emitCanon(&gb, sd)
		}
		if pass == 0 {
			emitResultCanon(&gb)
		}
	}
	// tree functions
	gb.WriteString("/-! ## Protocol trees -/\n\n")
	for pass := 0; pass < 2; pass++ {
		for _, k := range order {
			sd := structs[k]
			if sd.side != "P" || handTypes[k] || usesResult(sd) != (pass == 1) {
				continue
			}
			emitTreeFns(&gb, sd)
		}
		if pass == 0 {
			emitResultTree(&gb)
		}
	}
	gb.WriteString("/-! ## Trees of the protobuf-side structs (for `dec` lines: arbitrary internal values) -/\n\n")
	for _, k := range order {
		sd := structs[k]
		if sd.side == "I" {
			emitTreeFns(&gb, sd)
		}
	}
	emitDriverTable(&gb, marshal, encOf, decOf)
	emitTheorems(&gb, fns, forder)
	emitMessageTheorems(&gb, encOf, decOf)
	gb.WriteString("end PV.C27\n")
	if err := os.WriteFile(*out, []byte(gb.String()), 0o644); err != nil {
		die("%v", err)
	}
	fmt.Printf("extract/codec: %d functions translated, %d hand-modelled, %d structs, %d result kinds, %d message types\n",
		len(fns), len(handModelled), len(structs), len(resultCtors), len(marshal))
}

var constVals [][3]string

// dispatchTables: which encoder / decoder Marshal / Unmarshal call for each message type.
func dispatchTables(pf string) (enc, dec [][2]string) {
	ast.Inspect(funcs["encodeToProto"].Body, func(n ast.Node) bool {
		cc, ok := n.(*ast.CaseClause)
		if !ok || cc.List == nil {
			return true
		}
		t := strings.TrimPrefix(strings.TrimPrefix(src(cc.List[0]), "*"), "pilosa.")
		r := cc.Body[0].(*ast.ReturnStmt)
		c := r.Results[0].(*ast.CallExpr)
		enc = append(enc, [2]string{t, src(c.Fun)})
		return true
	})
	um := findFunc(pf, "Unmarshal", true)
	ast.Inspect(um.Body, func(n ast.Node) bool {
		cc, ok := n.(*ast.CaseClause)
		if !ok || cc.List == nil {
			return true
		}
		t := strings.TrimPrefix(strings.TrimPrefix(src(cc.List[0]), "*"), "pilosa.")
		fn := ""
		ast.Inspect(cc, func(m ast.Node) bool {
			if c, ok := m.(*ast.CallExpr); ok {
				if id, ok := c.Fun.(*ast.Ident); ok && strings.HasPrefix(id.Name, "decode") {
					fn = id.Name
				}
			}
			return true
		})
		if fn == "" {
			die("Unmarshal: case %s calls no decoder", t)
		}
		dec = append(dec, [2]string{t, fn})
		return true
	})
	return
}

func emitResultCanon(sb *strings.Builder) {
	sb.WriteString("def canon_Result (code : Bool) : P.Result → P.Result\n")
	for _, c := range resultCtors {
		if c.typ.kind == "nil" {
			fmt.Fprintf(sb, "  | .%s => hook_Result code .%s\n", c.name, c.name)
			continue
		}
		inner := "v"
		t := c.typ
		switch {
		case t.kind == "struct" && t.side == "P" && !handTypes[t.String()]:
			inner = "(canon_" + t.name + " code v)"
		case t.kind == "ptr" && t.elem.kind == "struct" && !handTypes[t.elem.String()]:
			if strings.HasPrefix(resultPayloadType(t), "(Option") {
				inner = "(v.map (canon_" + t.elem.name + " code))"
			} else {
				inner = "(canon_" + t.elem.name + " code v)"
			}
		case t.kind == "slice":
			el := t.elem
			if el.kind == "ptr" {
				el = el.elem
			}
			if el.kind == "struct" {
				inner = "(v.map (canon_" + el.name + " code))"
			}
		}
		fmt.Fprintf(sb, "  | .%s v => hook_Result code (.%s %s)\n", c.name, c.name, inner)
	}
	sb.WriteString("\n")
}

func emitResultTree(sb *strings.Builder) {
	sb.WriteString("def toTree_Result : P.Result → Tree\n")
	for _, c := range resultCtors {
		if c.typ.kind == "nil" {
			fmt.Fprintf(sb, "  | .%s => .node [.atom \"%s\"]\n", c.name, c.name)
			continue
		}
		fmt.Fprintf(sb, "  | .%s v => .node [.atom \"%s\", %s]\n", c.name, c.name, payloadToTree(c.typ))
	}
	sb.WriteString("\ndef ofTree_Result : Tree → Option P.Result\n")
	for _, c := range resultCtors {
		if c.typ.kind == "nil" {
			fmt.Fprintf(sb, "  | .node [.atom \"%s\"] => some .%s\n", c.name, c.name)
			continue
		}
		fmt.Fprintf(sb, "  | .node [.atom \"%s\", t] => (%s t).map .%s\n", c.name, payloadOfTree(c.typ), c.name)
	}
	sb.WriteString("  | _ => none\n\n")
}

func payloadToTree(t *gtype) string {
	if t.kind == "ptr" && handTypes[t.elem.String()] {
		return "optTree rowTree v"
	}
	if t.kind == "ptr" && !strings.HasPrefix(resultPayloadType(t), "(Option") {
		return toTree(t.elem, "v")
	}
	return toTree(t, "v")
}

func payloadOfTree(t *gtype) string {
	if t.kind == "ptr" && handTypes[t.elem.String()] {
		return "optOfTree rowOfTree"
	}
	if t.kind == "ptr" && !strings.HasPrefix(resultPayloadType(t), "(Option") {
		return ofTree(t.elem)
	}
	return ofTree(t)
}

// emitDriverTable: `roundTrip name tree` for the model driver: decode (encode v) as a tree.
func emitDriverTable(sb *strings.Builder, marshal []string, encOf, decOf [][2]string) {
	dec := map[string]string{}
	for _, p := range decOf {
		dec[p[0]] = p[1]
	}
	sb.WriteString("/-! ## Driver entry: Serializer.Marshal then Serializer.Unmarshal into a fresh value -/\n\n")
	sb.WriteString("def showOutcome {α : Type} (f : α → Tree) : Outcome α → String\n  | .ok v => (f v).show\n  | .error (.panic _) => \"panic:decode\"\n  | .error (.error _) => \"err:decode\"\n\n")
	sb.WriteString("/-- (model output, spec output, what the theorems say the codec returns) for message type `name` and\nthe value described by `t`. -/\n")
	sb.WriteString("def roundTrip (name : String) (t : Tree) : Option (String × String × String) :=\n")
	for _, p := range encOf {
		t, enc := p[0], p[1]
		d, ok := dec[t]
		if !ok {
			continue
		}
		ei, di := fnInfo[enc], fnInfo[d]
		encCall := enc + " v"
		if strings.HasPrefix(leanType(ei.sig.params[0].typ), "(Option") {
			encCall = enc + " (some v)"
		}
		var model string
		wrapSome := func(x string, fi *finfo) string {
			if strings.HasPrefix(leanType(fi.sig.params[0].typ), "(Option") {
				return "(some " + x + ")"
			}
			return x
		}
		encRes, _ := leanResult(ei)
		if ei.monadic {
			arg := "pb"
			if !strings.HasPrefix(encRes, "(Option") {
				arg = wrapSome("pb", di)
			}
			model = fmt.Sprintf("(%s >>= fun pb => %s %s {})", encCall, d, arg)
		} else {
			arg := "(" + encCall + ")"
			if !strings.HasPrefix(encRes, "(Option") {
				arg = wrapSome(arg, di)
			}
			model = fmt.Sprintf("(%s %s {})", d, arg)
		}
		fmt.Fprintf(sb, "  if name = %q then\n    (ofTree_P_%s t).map (fun v =>\n      (showOutcome toTree_P_%s %s, (toTree_P_%s (canon_%s false v)).show, (toTree_P_%s (canon_%s true v)).show))\n  else ", t, t, t, model, t, t, t, t)
	}
	sb.WriteString("none\n\n")
	sb.WriteString("/-- Model output for Unmarshal of the wire form of the internal value described by `t`. -/\n")
	sb.WriteString("def decodeOnly (name : String) (t : Tree) : Option String :=\n")
	for _, p := range decOf {
		t, d := p[0], p[1]
		di := fnInfo[d]
		it := di.sig.params[0].typ
		if it.kind == "ptr" {
			it = it.elem
		}
		arg := "pb"
		if strings.HasPrefix(leanType(di.sig.params[0].typ), "(Option") {
			arg = "(some pb)"
		}
		fmt.Fprintf(sb, "  if name = %q then\n    (ofTree_I_%s t).map (fun pb => showOutcome toTree_P_%s (%s %s {}))\n  else ", t, it.name, t, d, arg)
	}
	sb.WriteString("none\n\n")
}

func emitTheorems(sb *strings.Builder, fns map[string]*leanFn, order []string) {
	emitTheoremsImpl(sb, fns, order)
}


// emitMessageTheorems: one round-trip and one no-panic theorem per message type of
// Serializer.Marshal / Unmarshal (the dispatch tables), as corollaries of the codec-pair lemmas.
func emitMessageTheorems(sb *strings.Builder, encOf, decOf [][2]string) {
	dec := map[string]string{}
	for _, p := range decOf {
		dec[p[0]] = p[1]
	}
	sb.WriteString("/-! ## Per message type of Serializer.Marshal / Serializer.Unmarshal\n\n")
	sb.WriteString("`Unmarshal(Marshal(v))` into a fresh value, with the protobuf wire layer taken as the identity on\nthe model's representation (nil and empty repeated fields are the same list). -/\n\n")
	for _, p := range encOf {
		t, e := p[0], p[1]
		d, ok := dec[t]
		if !ok {
			continue
		}
		ei, di := fnInfo[e], fnInfo[d]
		if ei.monadic {
			continue // QueryResponse: Props.lean
		}
		encArg := "v"
		if strings.HasPrefix(leanType(ei.sig.params[0].typ), "(Option") {
			encArg = "(some v)"
		}
		encRes, _ := leanResult(ei)
		decArg := "(" + e + " " + encArg + ")"
		if !strings.HasPrefix(encRes, "(Option") && strings.HasPrefix(leanType(di.sig.params[0].typ), "(Option") {
			decArg = "(some " + decArg + ")"
		}
		fmt.Fprintf(sb, "theorem C27_%s (v : P.%s) : %s %s ({} : P.%s) = .ok (canon_%s true v) := by\n  first | exact rt_%s v _ | exact rt_%s v\n\n",
			t, t, d, decArg, t, t, d, d)
		it := di.sig.params[0].typ
		if it.kind == "ptr" {
			it = it.elem
		}
		fmt.Fprintf(sb, "theorem C27_total_%s (pb : I.%s) (m : P.%s) : NoPanic (%s (some pb) m) := by\n  first | exact total_%s pb m | exact total_%s (some pb) m\n\n",
			t, it.name, t, d, d, d)
	}
}
