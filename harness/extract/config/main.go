// Translator for C31: regenerates lean/PV/C31/Gen.lean from the current source.
//
//	config <repo> <out.lean>
//
// It reads (go/ast only, nothing is executed):
//   - server/config.go: the leaf fields of `type Config struct` with their toml tags, following inline
//     structs, same-package struct types (TLSConfig) and gossip.Config; toml.Duration is kind `dur`;
//   - ctl/server.go BuildServerFlags and ctl/common.go SetTLSConfig: every `flags.<T>Var[P](&srv.Config.X, "name", ...)`;
//   - cmd/root.go: the env prefix passed to setAllConfig, the strings.NewReplacer pairs, and whether the
//     statements the model relies on are present (BindPFlags, AutomaticEnv, config-key validation,
//     string-slice special case, f.Changed short-circuit).
//
// A construct it does not understand is an error (exit 1): the check then reports that the translator
// could not translate the current source.
package main

import (
	"fmt"
	"go/ast"
	"go/parser"
	"go/token"
	"os"
	"path/filepath"
	"reflect"
	"sort"
	"strconv"
	"strings"
)

type field struct {
	goPath, tomlPath, kind string
	tagged                bool
}

type flagDef struct {
	name, target, kind, dflt, env string
}

var fset = token.NewFileSet()

func die(format string, a ...interface{}) {
	fmt.Fprintf(os.Stderr, "extract/config: "+format+"\n", a...)
	os.Exit(1)
}

func parseDir(dir string) map[string]*ast.File {
	pkgs, err := parser.ParseDir(fset, dir, func(fi os.FileInfo) bool {
		return !strings.HasSuffix(fi.Name(), "_test.go")
	}, parser.ParseComments)
	if err != nil {
		die("parse %s: %v", dir, err)
	}
	files := map[string]*ast.File{}
	for _, p := range pkgs {
		for n, f := range p.Files {
			files[n] = f
		}
	}
	return files
}

func findStruct(files map[string]*ast.File, name string) *ast.StructType {
	for _, f := range files {
		for _, d := range f.Decls {
			gd, ok := d.(*ast.GenDecl)
			if !ok {
				continue
			}
			for _, s := range gd.Specs {
				ts, ok := s.(*ast.TypeSpec)
				if ok && ts.Name.Name == name {
					if st, ok := ts.Type.(*ast.StructType); ok {
						return st
					}
				}
			}
		}
	}
	return nil
}

func findFunc(files map[string]*ast.File, name string) *ast.FuncDecl {
	for _, f := range files {
		for _, d := range f.Decls {
			if fd, ok := d.(*ast.FuncDecl); ok && fd.Name.Name == name && fd.Recv == nil {
				return fd
			}
		}
	}
	return nil
}

func exprString(e ast.Expr) string {
	switch x := e.(type) {
	case *ast.Ident:
		return x.Name
	case *ast.SelectorExpr:
		return exprString(x.X) + "." + x.Sel.Name
	case *ast.ArrayType:
		return "[]" + exprString(x.Elt)
	case *ast.StarExpr:
		return "*" + exprString(x.X)
	}
	return fmt.Sprintf("%T", e)
}

var skipped []string

func walkStruct(repo string, serverFiles map[string]*ast.File, st *ast.StructType, goPrefix, tomlPrefix string, tagged bool, out *[]field) {
	for _, f := range st.Fields.List {
		if len(f.Names) != 1 {
			die("field list with %d names at %s", len(f.Names), fset.Position(f.Pos()))
		}
		name := f.Names[0].Name
		tag, hasTag := "", false
		if f.Tag != nil {
			raw, err := strconv.Unquote(f.Tag.Value)
			if err != nil {
				die("bad tag %s", f.Tag.Value)
			}
			tag, hasTag = reflect.StructTag(raw).Lookup("toml")
			if i := strings.Index(tag, ","); i >= 0 {
				tag = tag[:i]
			}
		}
		if hasTag && tag == "-" {
			skipped = append(skipped, goPrefix+name)
			continue
		}
		seg := tag
		if !hasTag || tag == "" {
			seg = name // go-toml falls back to the Go field name
		}
		gp, tp, tg := goPrefix+name, tomlPrefix+seg, tagged && hasTag && tag != ""
		switch t := f.Type.(type) {
		case *ast.StructType:
			walkStruct(repo, serverFiles, t, gp+".", tp+".", tg, out)
		case *ast.Ident:
			switch t.Name {
			case "string":
				*out = append(*out, field{gp, tp, "str", tg})
			case "int":
				*out = append(*out, field{gp, tp, "int", tg})
			case "uint64":
				*out = append(*out, field{gp, tp, "uint", tg})
			case "bool":
				*out = append(*out, field{gp, tp, "bool", tg})
			case "float64":
				*out = append(*out, field{gp, tp, "float", tg})
			default:
				sub := findStruct(serverFiles, t.Name)
				if sub == nil {
					die("unknown type %s of Config field %s", t.Name, gp)
				}
				walkStruct(repo, serverFiles, sub, gp+".", tp+".", tg, out)
			}
		case *ast.ArrayType:
			if exprString(t) != "[]string" {
				die("unsupported slice type %s of %s", exprString(t), gp)
			}
			*out = append(*out, field{gp, tp, "strs", tg})
		case *ast.SelectorExpr:
			switch exprString(t) {
			case "toml.Duration":
				*out = append(*out, field{gp, tp, "dur", tg})
			case "gossip.Config":
				gf := parseDir(filepath.Join(repo, "gossip"))
				sub := findStruct(gf, "Config")
				if sub == nil {
					die("gossip.Config not found")
				}
				walkStruct(repo, gf, sub, gp+".", tp+".", tg, out)
			default:
				die("unsupported type %s of %s", exprString(t), gp)
			}
		default:
			die("unsupported type %T of %s", f.Type, gp)
		}
	}
}

// strip removes parentheses, & and conversions like (*time.Duration)(x) / (time.Duration)(x).
func strip(e ast.Expr) ast.Expr {
	for {
		switch x := e.(type) {
		case *ast.ParenExpr:
			e = x.X
		case *ast.UnaryExpr:
			if x.Op != token.AND {
				return e
			}
			e = x.X
		case *ast.CallExpr:
			if len(x.Args) != 1 {
				return e
			}
			fun := x.Fun
			if p, ok := fun.(*ast.ParenExpr); ok {
				fun = p.X
			}
			s := exprString(fun)
			if s == "*time.Duration" || s == "time.Duration" {
				e = x.Args[0]
			} else {
				return e
			}
		default:
			return e
		}
	}
}

func configPath(e ast.Expr, subst map[string]ast.Expr) (string, bool) {
	e = strip(e)
	if id, ok := e.(*ast.Ident); ok && subst != nil {
		if a, ok := subst[id.Name]; ok {
			return configPath(a, nil)
		}
	}
	s := exprString(e)
	const pre = "srv.Config."
	if strings.HasPrefix(s, pre) {
		return s[len(pre):], true
	}
	return "", false
}

var varKinds = map[string]string{"String": "str", "Int": "int", "Uint64": "uint", "Bool": "bool",
	"Duration": "dur", "StringSlice": "strs", "Float64": "float"}

func collectFlags(ctlFiles map[string]*ast.File, body *ast.BlockStmt, subst map[string]ast.Expr, prefix, replPairs []string, envPrefix string, out *[]flagDef) {
	for _, st := range body.List {
		es, ok := st.(*ast.ExprStmt)
		if !ok {
			continue
		}
		call, ok := es.X.(*ast.CallExpr)
		if !ok {
			continue
		}
		switch fun := call.Fun.(type) {
		case *ast.Ident:
			if fun.Name == "SetTLSConfig" {
				fd := findFunc(ctlFiles, "SetTLSConfig")
				if fd == nil {
					die("SetTLSConfig not found")
				}
				var params []string
				for _, p := range fd.Type.Params.List {
					for _, n := range p.Names {
						params = append(params, n.Name)
					}
				}
				if len(params) != len(call.Args) {
					die("SetTLSConfig arity")
				}
				sub := map[string]ast.Expr{}
				for i, p := range params {
					sub[p] = call.Args[i]
				}
				collectFlags(ctlFiles, fd.Body, sub, prefix, replPairs, envPrefix, out)
			} else {
				die("unknown call %s in BuildServerFlags at %s", fun.Name, fset.Position(call.Pos()))
			}
		case *ast.SelectorExpr:
			if exprString(fun.X) != "flags" {
				die("unexpected call %s at %s", exprString(fun), fset.Position(call.Pos()))
			}
			m := fun.Sel.Name
			hasShort := strings.HasSuffix(m, "VarP")
			base := strings.TrimSuffix(strings.TrimSuffix(m, "P"), "Var")
			kind, ok := varKinds[base]
			if !ok || !strings.Contains(m, "Var") {
				die("unsupported flag method %s at %s", m, fset.Position(call.Pos()))
			}
			want := 4
			if hasShort {
				want = 5
			}
			if len(call.Args) != want {
				die("flag call arity at %s", fset.Position(call.Pos()))
			}
			target, ok := configPath(call.Args[0], subst)
			if !ok {
				die("flag target is not a Config field at %s", fset.Position(call.Pos()))
			}
			lit, ok := call.Args[1].(*ast.BasicLit)
			if !ok || lit.Kind != token.STRING {
				die("flag name is not a literal at %s", fset.Position(call.Pos()))
			}
			name, _ := strconv.Unquote(lit.Value)
			defIdx := 2
			if hasShort {
				defIdx = 3
			}
			dflt := "literal"
			if p, ok := configPath(call.Args[defIdx], subst); ok && p == target {
				dflt = "fromConfig"
			}
			*out = append(*out, flagDef{name, target, kind, dflt, envName(envPrefix, replPairs, name)})
		}
	}
}

// envName applies the extracted rule: ToUpper(prefix + "_" + key), then the replacer (viper.getEnv).
func envName(prefix string, pairs []string, key string) string {
	return strings.NewReplacer(pairs...).Replace(strings.ToUpper(prefix + "_" + key))
}

type rootFacts struct {
	prefix                                                          string
	pairs                                                           []string
	bind, autoEnv, keyValidation, sliceSpecial, changedShortCircuit bool
}

func rootRule(cmdFiles map[string]*ast.File) rootFacts {
	var rf rootFacts
	// prefix: the call setAllConfig(v, cmd.Flags(), "PILOSA")
	for _, f := range cmdFiles {
		ast.Inspect(f, func(n ast.Node) bool {
			if c, ok := n.(*ast.CallExpr); ok {
				if id, ok := c.Fun.(*ast.Ident); ok && id.Name == "setAllConfig" && len(c.Args) == 3 {
					if l, ok := c.Args[2].(*ast.BasicLit); ok {
						rf.prefix, _ = strconv.Unquote(l.Value)
					}
				}
			}
			return true
		})
	}
	fd := findFunc(cmdFiles, "setAllConfig")
	if fd == nil || rf.prefix == "" {
		die("setAllConfig or its env prefix not found")
	}
	prefixParam := fd.Type.Params.List[2].Names[0].Name
	usesPrefix := false
	ast.Inspect(fd.Body, func(n ast.Node) bool {
		switch x := n.(type) {
		case *ast.CallExpr:
			s := exprString(x.Fun)
			switch s {
			case "v.BindPFlags":
				rf.bind = true
			case "v.AutomaticEnv":
				rf.autoEnv = true
			case "v.SetEnvPrefix":
				if id, ok := x.Args[0].(*ast.Ident); ok && id.Name == prefixParam {
					usesPrefix = true
				}
			case "strings.NewReplacer":
				for _, a := range x.Args {
					l, ok := a.(*ast.BasicLit)
					if !ok {
						die("NewReplacer argument is not a literal")
					}
					v, _ := strconv.Unquote(l.Value)
					rf.pairs = append(rf.pairs, v)
				}
			case "v.AllKeys":
				rf.keyValidation = true
			case "v.GetStringSlice":
				rf.sliceSpecial = true
			}
		case *ast.IfStmt:
			if exprString(x.Cond) == "f.Changed" && len(x.Body.List) == 1 {
				if _, ok := x.Body.List[0].(*ast.ReturnStmt); ok {
					rf.changedShortCircuit = true
				}
			}
		}
		return true
	})
	if !usesPrefix {
		die("setAllConfig does not pass its envPrefix to v.SetEnvPrefix")
	}
	if len(rf.pairs)%2 != 0 {
		die("odd number of replacer arguments")
	}
	return rf
}

func leanStr(s string) string { return strconv.Quote(s) }

func main() {
	if len(os.Args) != 3 {
		die("usage: config <repo> <out.lean>")
	}
	repo, outPath := os.Args[1], os.Args[2]
	serverFiles := parseDir(filepath.Join(repo, "server"))
	cfg := findStruct(serverFiles, "Config")
	if cfg == nil {
		die("server.Config not found")
	}
	var fields []field
	walkStruct(repo, serverFiles, cfg, "", "", true, &fields)

	rf := rootRule(parseDir(filepath.Join(repo, "cmd")))

	ctlFiles := parseDir(filepath.Join(repo, "ctl"))
	bsf := findFunc(ctlFiles, "BuildServerFlags")
	if bsf == nil {
		die("BuildServerFlags not found")
	}
	var flags []flagDef
	// statements of the form `flags := cmd.Flags()` are skipped by collectFlags (not ExprStmt)
	collectFlags(ctlFiles, bsf.Body, nil, nil, rf.pairs, rf.prefix, &flags)

	var b strings.Builder
	b.WriteString("/-\nGENERATED by harness/extract/config from server/config.go, gossip/gossip.go, ctl/server.go,\nctl/common.go and cmd/root.go.  Do not edit: bin/check regenerates this file on every run.\n-/\n")
	b.WriteString("import PV.C31.Model\nnamespace PV.C31.Gen\nopen PV.C31\n\n")
	fmt.Fprintf(&b, "def envPrefix : String := %s\n", leanStr(rf.prefix))
	var ps []string
	for i := 0; i+1 < len(rf.pairs); i += 2 {
		ps = append(ps, fmt.Sprintf("(%s, %s)", leanStr(rf.pairs[i]), leanStr(rf.pairs[i+1])))
	}
	fmt.Fprintf(&b, "def replacer : List (String × String) := [%s]\n", strings.Join(ps, ", "))
	fmt.Fprintf(&b, "def bindPFlags : Bool := %v\ndef automaticEnv : Bool := %v\ndef keyValidation : Bool := %v\n", rf.bind, rf.autoEnv, rf.keyValidation)
	fmt.Fprintf(&b, "def sliceSpecialCase : Bool := %v\ndef changedShortCircuit : Bool := %v\n\n", rf.sliceSpecial, rf.changedShortCircuit)
	sort.Strings(skipped)
	var sk []string
	for _, s := range skipped {
		sk = append(sk, leanStr(s))
	}
	fmt.Fprintf(&b, "/-- Config fields excluded from TOML (`toml:\"-\"`). -/\ndef skipped : List String := [%s]\n\n", strings.Join(sk, ", "))
	b.WriteString("def fields : List CfgField := [\n")
	for i, f := range fields {
		sep := ","
		if i == len(fields)-1 {
			sep = ""
		}
		fmt.Fprintf(&b, "  ⟨%s, %s, .%s, %v⟩%s\n", leanStr(f.goPath), leanStr(f.tomlPath), f.kind, f.tagged, sep)
	}
	b.WriteString("]\n\ndef flags : List FlagDef := [\n")
	for i, f := range flags {
		sep := ","
		if i == len(flags)-1 {
			sep = ""
		}
		fmt.Fprintf(&b, "  ⟨%s, %s, .%s, .%s, %s⟩%s\n", leanStr(f.name), leanStr(f.target), f.kind, f.dflt, leanStr(f.env), sep)
	}
	b.WriteString("]\n\nend PV.C31.Gen\n")
	if err := os.WriteFile(outPath, []byte(b.String()), 0o644); err != nil {
		die("write: %v", err)
	}
	fmt.Printf("extract/config: %d fields, %d flags, %d skipped\n", len(fields), len(flags), len(skipped))
}
