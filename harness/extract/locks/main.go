// Command locks is the C29 translator: it regenerates lean/PV/C29/Gen.lean, the lock-discipline
// table of the pilosa types that share state between goroutines, from the Go source (go/ast only).
//
//	locks --repo <pilosa tree> --out <Gen.lean>
//
// For every method of fragment, view, Field, Holder, Index, rankCache, TranslateFile the
// walker follows the statements in order and keeps the mode in which the receiver's own mutex
// (`recv.mu`) is held: Lock -> W, RLock -> R, Unlock/RUnlock -> none, `defer recv.mu.Unlock()` keeps
// the mode to the end of the function, an immediately invoked func literal is walked inline, a
// `go` statement's body is walked with no lock.  Every access to a receiver field is recorded
// with that mode:
//
//	read   recv.F in an expression
//	write  recv.F = …, recv.F[k] = …, recv.F.sub = …, recv.F++, delete(recv.F, k),
//	       recv.F.M(…) where M (transitively) writes the state of the object held in F.  Whether M
//	       writes is computed from the source of the field's type (struct types of packages pilosa
//	       and roaring; interface fields are resolved to their listed implementations;
//	       bTreeContainers.Get writes the lookaside, so roaring reads through it count as writes).
//
// Calls to methods of the same receiver are inlined (transitively): a callee that takes the lock
// itself contributes its own critical sections (and is reported as nested when the caller already
// holds the lock); a callee that does not contributes its accesses under the caller's mode.
// A method is an entry when it is exported or is called anywhere outside the methods of its own type.
package main

import (
	"flag"
	"fmt"
	"go/ast"
	"go/parser"
	"go/token"
	"os"
	"path/filepath"
	"sort"
	"strings"
)

// tracked types: type -> name of its mutex field
var tracked = map[string]string{
	"fragment": "mu", "view": "mu", "Field": "mu", "Holder": "mu", "Index": "mu",
	"rankCache": "mu", "TranslateFile": "mu",
}

// implementations of interface-typed fields (closed world of the two packages)
var impls = map[string][]string{
	"cache":       {"lruCache"}, // rankCache guards itself with its own mutex (tracked separately), nopCache is stateless
	"bitmapCache": {"simpleCache"},
	"Containers":  {"bTreeContainers"}, // fragments use B-tree bitmaps (roaring.NewFileBitmap)
	"vector":      {},                  // rowsVector/boolVector read fragment storage: handled as storage reads
}

// methods of types outside the two packages (or generated code) that change their receiver
var externalMutators = map[string]bool{
	"Add": true, "Remove": true, "Set": true, "Put": true, "Delete": true, "Clear": true, "Get": false,
	"Write": true, "WriteString": true, "Flush": true, "Close": true, "Sync": true, "Truncate": true, "Seek": true,
	"Reset": true, "RemoveOldest": true, "Store": true, "Swap": true, "Broadcast": false, "Signal": false, "Wait": false,
	"Lock": false, "Unlock": false, "RLock": false, "RUnlock": false,
}

// lru.Cache.Get moves the entry to the front of its list.
var lruMutators = map[string]bool{"Add": true, "Get": true, "Remove": true, "RemoveOldest": true, "Clear": true}

type method struct {
	typ, name string
	recv      string
	decl      *ast.FuncDecl
	pkg       string
}

type world struct {
	fset    *token.FileSet
	fields  map[string]map[string]string // type -> field -> type expr (printed)
	methods map[string]map[string]*method
	// names of methods called from outside their own type's methods
	externCalls map[string]bool
	writesMemo  map[string]int    // 0 unknown, 1 in progress, 2 false, 3 true
	funcRes     map[string]string // plain function -> first result type
	files       []*ast.File
}

func elemOf(t string) string {
	if i := strings.IndexByte(t, ':'); i >= 0 && (strings.HasPrefix(t, "map:") || strings.HasPrefix(t, "slice:")) {
		return t[i+1:]
	}
	return ""
}

func firstResult(ft *ast.FuncType) string {
	if ft.Results == nil || len(ft.Results.List) == 0 {
		return ""
	}
	return typeString(ft.Results.List[0].Type)
}

// methodResult returns the first result type of typ.meth; with typ unknown the type is returned
// only when every method of that name agrees.
func (w *world) methodResult(typ, meth string) string {
	if typ != "" {
		if m := w.methods[typ][meth]; m != nil {
			return firstResult(m.decl.Type)
		}
		return ""
	}
	res := ""
	for _, ms := range w.methods {
		if m := ms[meth]; m != nil {
			r := firstResult(m.decl.Type)
			if res != "" && r != res {
				return ""
			}
			res = r
		}
	}
	return res
}

// infer gives the (heuristic) static type of an expression under env.
func (w *world) infer(e ast.Expr, env map[string]string) string {
	switch t := e.(type) {
	case *ast.Ident:
		return env[t.Name]
	case *ast.ParenExpr:
		return w.infer(t.X, env)
	case *ast.StarExpr:
		return w.infer(t.X, env)
	case *ast.UnaryExpr:
		return w.infer(t.X, env)
	case *ast.CompositeLit:
		if t.Type != nil {
			return typeString(t.Type)
		}
	case *ast.SelectorExpr:
		if x := w.infer(t.X, env); x != "" {
			return strings.TrimPrefix(w.fields[x][t.Sel.Name], "roaring.")
		}
	case *ast.IndexExpr:
		return elemOf(w.infer(t.X, env))
	case *ast.CallExpr:
		switch f := t.Fun.(type) {
		case *ast.Ident:
			return w.funcRes[f.Name]
		case *ast.SelectorExpr:
			return w.methodResult(w.infer(f.X, env), f.Sel.Name)
		}
	}
	return ""
}

// externals records, for every call x.M(…) that is not a call on the enclosing receiver, the
// type of x (or "?" when it cannot be inferred).
func (w *world) externals() {
	for _, f := range w.files {
		for _, d := range f.Decls {
			fd, ok := d.(*ast.FuncDecl)
			if !ok || fd.Body == nil {
				continue
			}
			env := map[string]string{}
			encl, recv := "", ""
			if fd.Recv != nil && len(fd.Recv.List) > 0 {
				encl = typeString(fd.Recv.List[0].Type)
				if len(fd.Recv.List[0].Names) > 0 {
					recv = fd.Recv.List[0].Names[0].Name
					env[recv] = encl
				}
			}
			if fd.Type.Params != nil {
				for i, p := range fd.Type.Params.List {
					for _, n := range p.Names {
						env[n.Name] = typeString(p.Type)
					}
					if i == 0 && fd.Recv == nil && len(p.Names) > 0 && tracked[typeString(p.Type)] != "" {
						encl, recv = typeString(p.Type), p.Names[0].Name
					}
				}
			}
			if encl == "rowsVector" || encl == "boolVector" {
				continue // vectors are owned by their fragment and run inside its critical sections
			}
			ast.Inspect(fd.Body, func(n ast.Node) bool {
				switch t := n.(type) {
				case *ast.AssignStmt:
					if len(t.Lhs) >= 1 && len(t.Rhs) == 1 {
						if id, ok := t.Lhs[0].(*ast.Ident); ok && id.Name != "_" {
							if ty := w.infer(t.Rhs[0], env); ty != "" {
								env[id.Name] = ty
							}
						}
					}
					if len(t.Lhs) == len(t.Rhs) {
						for i := range t.Lhs {
							if id, ok := t.Lhs[i].(*ast.Ident); ok && id.Name != "_" {
								if ty := w.infer(t.Rhs[i], env); ty != "" {
									env[id.Name] = ty
								}
							}
						}
					}
				case *ast.RangeStmt:
					if id, ok := t.Value.(*ast.Ident); ok && t.Value != nil {
						if ty := elemOf(w.infer(t.X, env)); ty != "" {
							env[id.Name] = ty
						}
					}
				case *ast.ValueSpec:
					if t.Type != nil {
						for _, n := range t.Names {
							env[n.Name] = typeString(t.Type)
						}
					}
				case *ast.CallExpr:
					se, ok := t.Fun.(*ast.SelectorExpr)
					if !ok {
						return true
					}
					if id, ok := se.X.(*ast.Ident); ok && encl != "" && id.Name == recv {
						return true // call on the own receiver
					}
					ty := w.infer(se.X, env)
					if ty == "" {
						ty = "?"
					}
					w.externCalls[ty+"."+se.Sel.Name] = true
				}
				return true
			})
		}
	}
}

func typeString(e ast.Expr) string {
	switch t := e.(type) {
	case *ast.Ident:
		return t.Name
	case *ast.StarExpr:
		return typeString(t.X)
	case *ast.SelectorExpr:
		return typeString(t.X) + "." + t.Sel.Name
	case *ast.MapType:
		return "map:" + typeString(t.Value)
	case *ast.ArrayType:
		return "slice:" + typeString(t.Elt)
	case *ast.Ellipsis:
		return "slice:" + typeString(t.Elt)
	case *ast.ChanType:
		return "chan"
	case *ast.FuncType:
		return "func"
	case *ast.InterfaceType:
		return "interface"
	}
	return "?"
}

func (w *world) load(dir, pkg string, files []string) {
	for _, fn := range files {
		f, err := parser.ParseFile(w.fset, filepath.Join(dir, fn), nil, 0)
		if err != nil {
			fmt.Fprintln(os.Stderr, "parse:", err)
			os.Exit(1)
		}
		for _, d := range f.Decls {
			switch d := d.(type) {
			case *ast.GenDecl:
				for _, sp := range d.Specs {
					ts, ok := sp.(*ast.TypeSpec)
					if !ok {
						continue
					}
					st, ok := ts.Type.(*ast.StructType)
					if !ok {
						continue
					}
					m := map[string]string{}
					for _, fl := range st.Fields.List {
						for _, n := range fl.Names {
							m[n.Name] = typeString(fl.Type)
						}
						if len(fl.Names) == 0 { // embedded
							m[typeString(fl.Type)] = typeString(fl.Type)
						}
					}
					w.fields[ts.Name.Name] = m
				}
			case *ast.FuncDecl:
				if d.Body == nil {
					continue
				}
				if d.Recv == nil && d.Type.Params != nil && len(d.Type.Params.List) > 0 && len(d.Type.Params.List[0].Names) > 0 {
					// a plain function whose first parameter is a tracked object is treated as its method
					pt := typeString(d.Type.Params.List[0].Type)
					if _, ok := tracked[pt]; ok {
						if w.methods[pt] == nil {
							w.methods[pt] = map[string]*method{}
						}
						w.methods[pt][d.Name.Name] = &method{typ: pt, name: d.Name.Name, recv: d.Type.Params.List[0].Names[0].Name, decl: d, pkg: pkg}
					}
					continue
				}
				if d.Recv == nil || len(d.Recv.List) == 0 {
					continue
				}
				rt := typeString(d.Recv.List[0].Type)
				rn := ""
				if len(d.Recv.List[0].Names) > 0 {
					rn = d.Recv.List[0].Names[0].Name
				}
				if w.methods[rt] == nil {
					w.methods[rt] = map[string]*method{}
				}
				w.methods[rt][d.Name.Name] = &method{typ: rt, name: d.Name.Name, recv: rn, decl: d, pkg: pkg}
			}
		}
		w.files = append(w.files, f)
		for _, d := range f.Decls {
			if fd, ok := d.(*ast.FuncDecl); ok && fd.Recv == nil {
				w.funcRes[fd.Name.Name] = firstResult(fd.Type)
			}
		}
	}
}

// recvField returns (field, rest) when e is recv.F(.sub)* ; rest is the selector chain below F.
func recvField(e ast.Expr, recv string) (string, []string, bool) {
	var chain []string
	for {
		switch t := e.(type) {
		case *ast.SelectorExpr:
			chain = append([]string{t.Sel.Name}, chain...)
			e = t.X
		case *ast.IndexExpr:
			e = t.X
		case *ast.ParenExpr:
			e = t.X
		case *ast.StarExpr:
			e = t.X
		case *ast.Ident:
			if t.Name == recv && len(chain) > 0 {
				return chain[0], chain[1:], true
			}
			return "", nil, false
		default:
			return "", nil, false
		}
	}
}

// writes reports whether calling typ.meth changes the state reachable from its receiver.
func (w *world) writes(typ, meth string) bool {
	key := typ + "." + meth
	switch w.writesMemo[key] {
	case 1:
		return false // cycle: decided by the other members
	case 2:
		return false
	case 3:
		return true
	}
	if typ == "lru.Cache" {
		return lruMutators[meth]
	}
	m := w.methods[typ][meth]
	if m == nil {
		if ims, ok := impls[typ]; ok {
			for _, it := range ims {
				if w.writes(it, meth) {
					return true
				}
			}
			return false
		}
		if _, tr := tracked[typ]; tr {
			return false
		}
		return externalMutators[meth]
	}
	w.writesMemo[key] = 1
	res := false
	ast.Inspect(m.decl.Body, func(n ast.Node) bool {
		if res {
			return false
		}
		switch s := n.(type) {
		case *ast.AssignStmt:
			for _, l := range s.Lhs {
				if _, _, ok := recvField(l, m.recv); ok {
					res = true
				}
			}
		case *ast.IncDecStmt:
			if _, _, ok := recvField(s.X, m.recv); ok {
				res = true
			}
		case *ast.CallExpr:
			if id, ok := s.Fun.(*ast.Ident); ok && id.Name == "delete" && len(s.Args) > 0 {
				if _, _, ok := recvField(s.Args[0], m.recv); ok {
					res = true
				}
			}
			if se, ok := s.Fun.(*ast.SelectorExpr); ok {
				if id, ok := se.X.(*ast.Ident); ok && id.Name == m.recv {
					if w.writes(typ, se.Sel.Name) {
						res = true
					}
				} else if f, rest, ok := recvField(se.X, m.recv); ok {
					ft := w.fields[typ][f]
					for _, r := range rest {
						ft = w.fields[ft][r]
					}
					if w.writes(strings.TrimPrefix(ft, "roaring."), se.Sel.Name) {
						res = true
					}
				}
			}
		}
		return true
	})
	if res {
		w.writesMemo[key] = 3
	} else {
		w.writesMemo[key] = 2
	}
	return res
}

type access struct {
	comp  string
	write bool
	mode  int // 0 none 1 R 2 W
	via   string
	gor   bool // inside a go statement
}

type summary struct {
	selfLocks bool     // takes recv.mu itself
	sections  []int    // modes of the critical sections entered, in order (a section in a loop is listed twice)
	accs      []access // accesses with the mode held
	nested    []string // callee that locks while the caller holds the lock
}

type walker struct {
	w     *world
	m     *method
	mu    string
	sum   *summary
	stack map[string]bool
	via   string
}

func (wk *walker) isMuCall(ce *ast.CallExpr) (string, bool) {
	se, ok := ce.Fun.(*ast.SelectorExpr)
	if !ok {
		return "", false
	}
	in, ok := se.X.(*ast.SelectorExpr)
	if !ok {
		return "", false
	}
	id, ok := in.X.(*ast.Ident)
	if !ok || id.Name != wk.m.recv || in.Sel.Name != wk.mu {
		return "", false
	}
	return se.Sel.Name, true
}

// comp returns the component name of recv.F(.sub): one level of struct sub-fields is kept so
// that unrelated members of an embedded options struct are different memory locations.
func (wk *walker) comp(f string, rest []string) string {
	if len(rest) > 0 {
		if sub, ok := wk.w.fields[wk.w.fields[wk.m.typ][f]]; ok {
			if _, ok := sub[rest[0]]; ok {
				return f + "." + rest[0]
			}
		}
	}
	return f
}

func (wk *walker) rec(comp string, write bool, mode int, gor bool) {
	if comp == wk.mu {
		return
	}
	wk.sum.accs = append(wk.sum.accs, access{comp: wk.m.typ + "." + comp, write: write, mode: mode, via: wk.via, gor: gor})
}

// expr records reads (and call effects) inside an expression evaluated with lock mode `mode`.
func (wk *walker) expr(e ast.Node, mode *int, gor bool, loop bool) {
	if e == nil {
		return
	}
	ast.Inspect(e, func(n ast.Node) bool {
		switch t := n.(type) {
		case *ast.FuncLit:
			// a closure: walked with the current mode (callbacks run synchronously in this code base)
			saved := *mode
			wk.block(t.Body.List, mode, gor, loop)
			*mode = saved
			return false
		case *ast.CallExpr:
			if name, ok := wk.isMuCall(t); ok {
				switch name {
				case "Lock":
					*mode = 2
					wk.sum.selfLocks = true
					wk.sum.sections = append(wk.sum.sections, 2)
					if loop {
						wk.sum.sections = append(wk.sum.sections, 2)
					}
				case "RLock":
					*mode = 1
					wk.sum.selfLocks = true
					wk.sum.sections = append(wk.sum.sections, 1)
					if loop {
						wk.sum.sections = append(wk.sum.sections, 1)
					}
				case "Unlock", "RUnlock":
					*mode = 0
				}
				return false
			}
			if id, ok := t.Fun.(*ast.Ident); ok && id.Name == "delete" && len(t.Args) > 0 {
				if f, _, ok := recvField(t.Args[0], wk.m.recv); ok {
					wk.rec(f, true, *mode, gor)
				}
			}
			if id, ok := t.Fun.(*ast.Ident); ok && len(t.Args) > 0 {
				if a0, ok := t.Args[0].(*ast.Ident); ok && a0.Name == wk.m.recv && wk.w.methods[wk.m.typ][id.Name] != nil {
					wk.inline(id.Name, mode, gor, loop)
					for _, a := range t.Args[1:] {
						wk.expr(a, mode, gor, loop)
					}
					return false
				}
			}
			if se, ok := t.Fun.(*ast.SelectorExpr); ok {
				if id, ok := se.X.(*ast.Ident); ok && id.Name == wk.m.recv {
					// call on the own receiver: inline
					wk.inline(se.Sel.Name, mode, gor, loop)
					for _, a := range t.Args {
						wk.expr(a, mode, gor, loop)
					}
					return false
				}
				if f, rest, ok := recvField(se.X, wk.m.recv); ok {
					ft := wk.w.fields[wk.m.typ][f]
					for _, r := range rest {
						ft = wk.w.fields[ft][r]
					}
					ft = strings.TrimPrefix(ft, "roaring.")
					wr := wk.w.writes(ft, se.Sel.Name)
					if f == "mutexVector" {
						// rowsVector/boolVector.Get read the fragment's storage
						wk.rec("storage", wk.w.writes("Bitmap", "Contains"), *mode, gor)
					}
					if _, self := tracked[ft]; self && ft != "" {
						wr = false // the object guards itself (own mutex)
					}
					wk.rec(f, wr, *mode, gor)
					for _, a := range t.Args {
						wk.expr(a, mode, gor, loop)
					}
					return false
				}
			}
			return true
		case *ast.SelectorExpr:
			if f, rest, ok := recvField(t, wk.m.recv); ok {
				if _, isMeth := wk.w.methods[wk.m.typ][f]; !isMeth {
					wk.rec(wk.comp(f, rest), false, *mode, gor)
				}
				return false
			}
		}
		return true
	})
}

func (wk *walker) inline(name string, mode *int, gor bool, loop bool) {
	cm := wk.w.methods[wk.m.typ][name]
	if cm == nil {
		return
	}
	key := name
	if wk.stack[key] {
		return
	}
	wk.stack[key] = true
	defer delete(wk.stack, key)
	sub := &walker{w: wk.w, m: cm, mu: wk.mu, sum: &summary{}, stack: wk.stack, via: wk.via + ">" + name}
	cmode := *mode
	sub.block(cm.decl.Body.List, &cmode, gor, loop)
	if sub.sum.selfLocks && *mode != 0 {
		wk.sum.nested = append(wk.sum.nested, wk.via+">"+name)
	}
	wk.sum.sections = append(wk.sum.sections, sub.sum.sections...)
	if loop && len(sub.sum.sections) > 0 {
		wk.sum.sections = append(wk.sum.sections, sub.sum.sections...)
	}
	wk.sum.accs = append(wk.sum.accs, sub.sum.accs...)
	wk.sum.nested = append(wk.sum.nested, sub.sum.nested...)
}

func (wk *walker) lhs(e ast.Expr, mode *int, gor bool, loop bool) {
	if f, rest, ok := recvField(e, wk.m.recv); ok {
		wk.rec(wk.comp(f, rest), true, *mode, gor)
		// index expressions on the left are still evaluated
		if ie, ok := e.(*ast.IndexExpr); ok {
			wk.expr(ie.Index, mode, gor, loop)
		}
		return
	}
	wk.expr(e, mode, gor, loop)
}

func (wk *walker) block(stmts []ast.Stmt, mode *int, gor bool, loop bool) {
	deferred := false
	for _, s := range stmts {
		wk.stmt(s, mode, gor, loop, &deferred)
	}
}

func endsWithReturn(b *ast.BlockStmt) bool {
	if b == nil || len(b.List) == 0 {
		return false
	}
	_, ok := b.List[len(b.List)-1].(*ast.ReturnStmt)
	return ok
}

func (wk *walker) stmt(s ast.Stmt, mode *int, gor bool, loop bool, deferred *bool) {
	switch t := s.(type) {
	case *ast.AssignStmt:
		for _, r := range t.Rhs {
			wk.expr(r, mode, gor, loop)
		}
		for _, l := range t.Lhs {
			wk.lhs(l, mode, gor, loop)
		}
	case *ast.IncDecStmt:
		wk.lhs(t.X, mode, gor, loop)
	case *ast.ExprStmt:
		wk.expr(t.X, mode, gor, loop)
	case *ast.DeferStmt:
		if name, ok := wk.isMuCall(t.Call); ok && (name == "Unlock" || name == "RUnlock") {
			*deferred = true
			return
		}
		if fl, ok := t.Call.Fun.(*ast.FuncLit); ok {
			saved := *mode
			wk.block(fl.Body.List, mode, gor, loop)
			*mode = saved
			return
		}
		saved := *mode
		wk.expr(t.Call, mode, gor, loop)
		*mode = saved
	case *ast.GoStmt:
		none := 0
		if fl, ok := t.Call.Fun.(*ast.FuncLit); ok {
			wk.block(fl.Body.List, &none, true, loop)
		} else {
			wk.expr(t.Call, &none, true, loop)
		}
	case *ast.ReturnStmt:
		for _, r := range t.Results {
			wk.expr(r, mode, gor, loop)
		}
	case *ast.BlockStmt:
		wk.block(t.List, mode, gor, loop)
	case *ast.IfStmt:
		if t.Init != nil {
			wk.stmt(t.Init, mode, gor, loop, deferred)
		}
		wk.expr(t.Cond, mode, gor, loop)
		saved := *mode
		wk.block(t.Body.List, mode, gor, loop)
		if endsWithReturn(t.Body) {
			*mode = saved
		}
		if t.Else != nil {
			after := *mode
			*mode = saved
			wk.stmt(t.Else, mode, gor, loop, deferred)
			if b, ok := t.Else.(*ast.BlockStmt); ok && endsWithReturn(b) {
				*mode = after
			}
		}
	case *ast.ForStmt:
		if t.Init != nil {
			wk.stmt(t.Init, mode, gor, loop, deferred)
		}
		wk.expr(t.Cond, mode, gor, true)
		if t.Post != nil {
			wk.stmt(t.Post, mode, gor, true, deferred)
		}
		wk.block(t.Body.List, mode, gor, true)
	case *ast.RangeStmt:
		wk.expr(t.X, mode, gor, loop)
		wk.block(t.Body.List, mode, gor, true)
	case *ast.SwitchStmt:
		if t.Init != nil {
			wk.stmt(t.Init, mode, gor, loop, deferred)
		}
		wk.expr(t.Tag, mode, gor, loop)
		saved := *mode
		for _, c := range t.Body.List {
			cc := c.(*ast.CaseClause)
			*mode = saved
			for _, e := range cc.List {
				wk.expr(e, mode, gor, loop)
			}
			wk.block(cc.Body, mode, gor, loop)
		}
		*mode = saved
	case *ast.TypeSwitchStmt:
		saved := *mode
		for _, c := range t.Body.List {
			cc := c.(*ast.CaseClause)
			*mode = saved
			wk.block(cc.Body, mode, gor, loop)
		}
		*mode = saved
	case *ast.SelectStmt:
		saved := *mode
		for _, c := range t.Body.List {
			cc := c.(*ast.CommClause)
			*mode = saved
			if cc.Comm != nil {
				wk.stmt(cc.Comm, mode, gor, loop, deferred)
			}
			wk.block(cc.Body, mode, gor, loop)
		}
		*mode = saved
	case *ast.LabeledStmt:
		wk.stmt(t.Stmt, mode, gor, loop, deferred)
	case *ast.DeclStmt:
		wk.expr(t, mode, gor, loop)
	case *ast.SendStmt:
		wk.expr(t.Chan, mode, gor, loop)
		wk.expr(t.Value, mode, gor, loop)
	}
}

func lq(s string) string { return "\"" + strings.ReplaceAll(s, "\"", "'") + "\"" }

func main() {
	repo := flag.String("repo", "/repo", "pilosa tree")
	out := flag.String("out", "", "Gen.lean to write")
	flag.Parse()
	w := &world{fset: token.NewFileSet(), fields: map[string]map[string]string{}, methods: map[string]map[string]*method{},
		externCalls: map[string]bool{}, writesMemo: map[string]int{}, funcRes: map[string]string{}}
	w.load(*repo, "pilosa", []string{"fragment.go", "view.go", "field.go", "holder.go", "index.go", "cache.go", "translate.go",
		"executor.go", "api.go", "server.go", "handler.go", "cluster.go", "row.go", "iterator.go", "attr.go", "broadcast.go"})
	w.load(filepath.Join(*repo, "roaring"), "roaring", []string{"containers_btree.go", "roaring.go", "btree.go"})
	w.externals()
	var b strings.Builder
	b.WriteString("/- GENERATED by harness/extract/locks from the pilosa source. Do not edit. -/\n")
	b.WriteString("import PV.C29.Model\nnamespace PV.C29.Gen\nopen PV.C29\n\n")
	var typs []string
	for t := range tracked {
		typs = append(typs, t)
	}
	sort.Strings(typs)
	type entryT struct {
		typ, name string
		entry     bool
		sum       *summary
	}
	var entries []entryT
	compSet := map[string]bool{}
	for _, typ := range typs {
		var ms []string
		for n := range w.methods[typ] {
			ms = append(ms, n)
		}
		sort.Strings(ms)
		for _, n := range ms {
			m := w.methods[typ][n]
			sum := &summary{}
			wk := &walker{w: w, m: m, mu: tracked[typ], sum: sum, stack: map[string]bool{n: true}, via: n}
			mode := 0
			wk.block(m.decl.Body.List, &mode, false, false)
			entry := ast.IsExported(n) || w.externCalls[typ+"."+n] || w.externCalls["?."+n]
			entries = append(entries, entryT{typ, n, entry, sum})
			for _, a := range sum.accs {
				compSet[a.comp] = true
			}
		}
	}
	var comps []string
	for c := range compSet {
		comps = append(comps, c)
	}
	sort.Strings(comps)
	compIdx := map[string]int{}
	for i, c := range comps {
		compIdx[c] = i
	}
	var names []string
	for _, e := range entries {
		seen := map[string]bool{}
		var accs []string
		for _, a := range e.sum.accs {
			k := fmt.Sprintf("%s|%v|%d|%v", a.comp, a.write, a.mode, a.gor)
			if seen[k] {
				continue
			}
			seen[k] = true
			accs = append(accs, fmt.Sprintf("⟨%d, %v, %d, %v, %s⟩", compIdx[a.comp], a.write, a.mode, a.gor, lq(a.via)))
		}
		secs := make([]string, len(e.sum.sections))
		for i, s := range e.sum.sections {
			secs[i] = fmt.Sprint(s)
		}
		nested := make([]string, len(e.sum.nested))
		for i, s := range e.sum.nested {
			nested[i] = lq(s)
		}
		id := "m_" + e.typ + "_" + e.name
		names = append(names, id)
		fmt.Fprintf(&b, "def %s : Meth := ⟨%s, %s, %v, [%s], [%s],\n  [%s]⟩\n", id, lq(e.typ), lq(e.name), e.entry,
			strings.Join(secs, ", "), strings.Join(nested, ", "), strings.Join(accs, ",\n   "))
	}
	cq := make([]string, len(comps))
	for i, c := range comps {
		cq[i] = lq(c)
	}
	fmt.Fprintf(&b, "\n/-- State components; `Acc.comp` is an index into this list. -/\ndef comps : List String := [\n  %s]\n", strings.Join(cq, ",\n  "))
	// effects of roaring.Bitmap methods (lookaside): informational table used by the theorems' comments
	var bm []string
	for n := range w.methods["Bitmap"] {
		if w.writes("Bitmap", n) {
			bm = append(bm, n)
		}
	}
	sort.Strings(bm)
	qs := make([]string, len(bm))
	for i, s := range bm {
		qs[i] = lq(s)
	}
	fmt.Fprintf(&b, "\n/-- roaring.Bitmap methods that change the bitmap or its B-tree lookaside. -/\ndef bitmapWriters : List String := [%s]\n", strings.Join(qs, ", "))
	fmt.Fprintf(&b, "\ndef table : List Meth := [\n  %s]\n\nend PV.C29.Gen\n", strings.Join(names, ",\n  "))
	if *out == "" {
		fmt.Print(b.String())
		return
	}
	if err := os.WriteFile(*out, []byte(b.String()), 0o644); err != nil {
		fmt.Fprintln(os.Stderr, err)
		os.Exit(1)
	}
}
