// Fact extractor for C30: regenerates lean/PV/C30/Gen.lean with the csv.Reader settings of
// ImportCommand.bufferBits (ctl/import.go) and the csv.Writer settings of API.ExportCSV (api.go).
//
//	csvsettings <repo> <out.lean>
//
// go/ast only. Every assignment `<reader>.<Field> = <literal>` to a variable bound to csv.NewReader in
// bufferBits (resp. csv.NewWriter in ExportCSV) is recorded; an unknown field, a non-literal value or a
// reader/writer handed to another function is an error (the check then reports that the translator
// could not translate the current source).
package main

import (
	"fmt"
	"go/ast"
	"go/parser"
	"go/token"
	"os"
	"path/filepath"
	"strconv"
	"strings"
)

var fset = token.NewFileSet()

func die(format string, a ...interface{}) {
	fmt.Fprintf(os.Stderr, "extract/csvsettings: "+format+"\n", a...)
	os.Exit(1)
}

func findMethod(path, name string) *ast.FuncDecl {
	f, err := parser.ParseFile(fset, path, nil, 0)
	if err != nil {
		die("parse %s: %v", path, err)
	}
	for _, d := range f.Decls {
		if fd, ok := d.(*ast.FuncDecl); ok && fd.Name.Name == name && fd.Recv != nil {
			return fd
		}
	}
	die("%s: method %s not found", path, name)
	return nil
}

func sel(e ast.Expr) string {
	if s, ok := e.(*ast.SelectorExpr); ok {
		if x, ok := s.X.(*ast.Ident); ok {
			return x.Name + "." + s.Sel.Name
		}
	}
	return ""
}

// settings collects `<v>.<Field> = <value>` for every v bound to ctor(...) inside fd.
func settings(fd *ast.FuncDecl, ctor string) map[string]ast.Expr {
	vars := map[string]bool{}
	ast.Inspect(fd.Body, func(n ast.Node) bool {
		as, ok := n.(*ast.AssignStmt)
		if !ok || len(as.Lhs) != 1 || len(as.Rhs) != 1 {
			return true
		}
		if c, ok := as.Rhs[0].(*ast.CallExpr); ok && sel(c.Fun) == ctor {
			if id, ok := as.Lhs[0].(*ast.Ident); ok {
				vars[id.Name] = true
			} else {
				die("%s result is not bound to a plain variable at %s", ctor, fset.Position(as.Pos()))
			}
		}
		return true
	})
	if len(vars) == 0 {
		die("no %s call in %s", ctor, fd.Name.Name)
	}
	out := map[string]ast.Expr{}
	ast.Inspect(fd.Body, func(n ast.Node) bool {
		switch x := n.(type) {
		case *ast.AssignStmt:
			for i, l := range x.Lhs {
				if s, ok := l.(*ast.SelectorExpr); ok {
					if id, ok := s.X.(*ast.Ident); ok && vars[id.Name] {
						if len(x.Rhs) != len(x.Lhs) {
							die("multi-value assignment to %s at %s", sel(l), fset.Position(x.Pos()))
						}
						if prev, dup := out[s.Sel.Name]; dup && fmt.Sprint(prev) != fmt.Sprint(x.Rhs[i]) {
							// the two branches (file / stdin) must agree
							if lit(prev) != lit(x.Rhs[i]) {
								die("conflicting values for %s", s.Sel.Name)
							}
						}
						out[s.Sel.Name] = x.Rhs[i]
					}
				}
			}
		case *ast.CallExpr:
			for _, a := range x.Args {
				if id, ok := a.(*ast.Ident); ok && vars[id.Name] {
					die("%s is handed to %s at %s: its settings cannot be read off this function", id.Name, sel(x.Fun), fset.Position(x.Pos()))
				}
			}
		}
		return true
	})
	return out
}

// lit renders a literal value canonically: c<code point>, i<int>, b<bool>.
func lit(e ast.Expr) string {
	switch x := e.(type) {
	case *ast.BasicLit:
		switch x.Kind {
		case token.CHAR:
			s, err := strconv.Unquote(x.Value)
			if err != nil {
				die("bad char literal %s", x.Value)
			}
			return "c" + strconv.Itoa(int([]rune(s)[0]))
		case token.INT:
			return "i" + x.Value
		}
	case *ast.UnaryExpr:
		if x.Op == token.SUB {
			if l, ok := x.X.(*ast.BasicLit); ok && l.Kind == token.INT {
				return "i-" + l.Value
			}
		}
	case *ast.Ident:
		if x.Name == "true" || x.Name == "false" {
			return "b" + x.Name
		}
	}
	die("setting value at %s is not a literal", fset.Position(e.Pos()))
	return ""
}

func char(v string, dflt string) string {
	if v == "" {
		return dflt
	}
	if v[0] == 'c' {
		return "Char.ofNat " + v[1:]
	}
	if v[0] == 'i' { // a rune given as a number
		return "Char.ofNat " + v[1:]
	}
	die("expected a rune, got %s", v)
	return ""
}

func boolean(v string) string {
	switch v {
	case "", "bfalse":
		return "false"
	case "btrue":
		return "true"
	}
	die("expected a bool, got %s", v)
	return ""
}

func main() {
	if len(os.Args) != 3 {
		die("usage: csvsettings <repo> <out.lean>")
	}
	repo, outPath := os.Args[1], os.Args[2]
	rs := settings(findMethod(filepath.Join(repo, "ctl", "import.go"), "bufferBits"), "csv.NewReader")
	ws := settings(findMethod(filepath.Join(repo, "api.go"), "ExportCSV"), "csv.NewWriter")
	rv := map[string]string{}
	for k, e := range rs {
		switch k {
		case "Comma", "Comment", "LazyQuotes", "TrimLeadingSpace", "FieldsPerRecord":
			rv[k] = lit(e)
		case "ReuseRecord": // does not change what is read
		default:
			die("unknown csv.Reader field %s set in bufferBits", k)
		}
	}
	wv := map[string]string{}
	for k, e := range ws {
		switch k {
		case "Comma", "UseCRLF":
			wv[k] = lit(e)
		default:
			die("unknown csv.Writer field %s set in ExportCSV", k)
		}
	}
	comment := "none"
	if v := rv["Comment"]; v != "" && v != "c0" && v != "i0" {
		comment = "some (" + char(v, "") + ")"
	}
	fpr := "0" // csv.NewReader default: FieldsPerRecord = 0 (taken from the first record)
	if v := rv["FieldsPerRecord"]; v != "" {
		if v[0] != 'i' {
			die("FieldsPerRecord is not an integer")
		}
		fpr = "(" + v[1:] + ")"
	}
	var b strings.Builder
	b.WriteString("/-\nGENERATED by harness/extract/csvsettings from ctl/import.go (ImportCommand.bufferBits) and api.go\n(API.ExportCSV).  Do not edit: bin/check regenerates this file on every run.\n-/\n")
	b.WriteString("import PV.C30.Csv\nnamespace PV.C30.Gen\nopen PV.C30\n\n")
	fmt.Fprintf(&b, "def importReader : ReaderCfg :=\n  { comma := %s, comment := %s, lazyQuotes := %s, trimLeadingSpace := %s, fieldsPerRecord := %s }\n\n",
		char(rv["Comma"], "','"), comment, boolean(rv["LazyQuotes"]), boolean(rv["TrimLeadingSpace"]), fpr)
	fmt.Fprintf(&b, "def exportWriter : WriterCfg :=\n  { comma := %s, useCRLF := %s }\n\nend PV.C30.Gen\n", char(wv["Comma"], "','"), boolean(wv["UseCRLF"]))
	if err := os.WriteFile(outPath, []byte(b.String()), 0o644); err != nil {
		die("write: %v", err)
	}
	fmt.Printf("extract/csvsettings: reader %v writer %v\n", rv, wv)
}
