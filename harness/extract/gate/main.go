// Command gate is the C23 translator: it reads api.go (and http/handler.go) of a pilosa tree and
// regenerates lean/PV/C23/Gen.lean — the apiMethod constants, the three method sets, the
// validAPIMethods table and, for EVERY exported method of API, its state gate (the argument of a
// checked `api.validate(X)` call among the top-level statements of its body, or none) and the names
// of all calls that precede the gate.  go/ast + go/parser only; nothing is executed.
//
//	gate --repo /repo --out /verif/lean/PV/C23/Gen.lean
//	gate --api /tmp/x/api.go --handler /tmp/x/handler.go --out /tmp/x/Gen.lean
//
// A gate counts only in this exact shape (anything else is reported as `gate := none` with a note,
// so that the proof about the table fails instead of silently trusting an unchecked call):
//
//	if err := api.validate(apiX); err != nil { ...; return ... }      (also with `err =`)
package main

import (
	"flag"
	"fmt"
	"go/ast"
	"go/parser"
	"go/token"
	"os"
	"path/filepath"
	"sort"
	"strings"
)

type apiFn struct {
	name     string
	gate     string // "" = none
	before   []string
	note     string
	offences []string // site-precise descriptions of everything that is wrong around the gate
}

func die(format string, a ...interface{}) {
	fmt.Fprintf(os.Stderr, "gate: "+format+"\n", a...)
	os.Exit(1)
}

// callName renders the function expression of a call as dotted text (a.b.c), "?" for others.
func exprName(e ast.Expr) string {
	switch x := e.(type) {
	case *ast.Ident:
		return x.Name
	case *ast.SelectorExpr:
		return exprName(x.X) + "." + x.Sel.Name
	case *ast.CallExpr:
		return exprName(x.Fun) + "()"
	case *ast.ParenExpr:
		return exprName(x.X)
	case *ast.StarExpr:
		return exprName(x.X)
	case *ast.IndexExpr:
		return exprName(x.X) + "[]"
	case *ast.FuncLit:
		return "func"
	}
	return "?"
}

// callsIn lists the names of every call inside n, in source order.
func callsIn(n ast.Node) []string {
	var out []string
	ast.Inspect(n, func(m ast.Node) bool {
		if c, ok := m.(*ast.CallExpr); ok {
			out = append(out, exprName(c.Fun))
		}
		return true
	})
	return out
}

// isValidateCall reports whether e is `<recv>.validate(<ident>)` and returns the ident.
func isValidateCall(e ast.Expr, recv string) (string, bool) {
	c, ok := e.(*ast.CallExpr)
	if !ok || len(c.Args) != 1 {
		return "", false
	}
	s, ok := c.Fun.(*ast.SelectorExpr)
	if !ok || s.Sel.Name != "validate" {
		return "", false
	}
	if id, ok := s.X.(*ast.Ident); !ok || id.Name != recv {
		return "", false
	}
	arg, ok := c.Args[0].(*ast.Ident)
	if !ok {
		return "?", true
	}
	return arg.Name, true
}

// gateOf recognises the checked gate statement.
func gateOf(st ast.Stmt, recv string) (string, bool) {
	ifs, ok := st.(*ast.IfStmt)
	if !ok || ifs.Init == nil || ifs.Else != nil {
		return "", false
	}
	as, ok := ifs.Init.(*ast.AssignStmt)
	if !ok || len(as.Lhs) != 1 || len(as.Rhs) != 1 {
		return "", false
	}
	lhs, ok := as.Lhs[0].(*ast.Ident)
	if !ok || lhs.Name == "_" {
		return "", false
	}
	m, ok := isValidateCall(as.Rhs[0], recv)
	if !ok || m == "?" {
		return "", false
	}
	cond, ok := ifs.Cond.(*ast.BinaryExpr)
	if !ok || cond.Op != token.NEQ {
		return "", false
	}
	cx, ok1 := cond.X.(*ast.Ident)
	cy, ok2 := cond.Y.(*ast.Ident)
	if !ok1 || !ok2 || cx.Name != lhs.Name || cy.Name != "nil" {
		return "", false
	}
	if len(ifs.Body.List) == 0 {
		return "", false
	}
	if _, ok := ifs.Body.List[len(ifs.Body.List)-1].(*ast.ReturnStmt); !ok {
		return "", false
	}
	return m, true
}

func containsValidate(n ast.Node, recv string) bool {
	found := false
	ast.Inspect(n, func(m ast.Node) bool {
		if e, ok := m.(ast.Expr); ok {
			if _, ok := isValidateCall(e, recv); ok {
				found = true
			}
		}
		return true
	})
	return found
}

func recvOf(fd *ast.FuncDecl) (typ, name string) {
	if fd.Recv == nil || len(fd.Recv.List) != 1 {
		return "", ""
	}
	f := fd.Recv.List[0]
	t := f.Type
	if st, ok := t.(*ast.StarExpr); ok {
		t = st.X
	}
	id, ok := t.(*ast.Ident)
	if !ok {
		return "", ""
	}
	if len(f.Names) == 1 {
		name = f.Names[0].Name
	}
	return id.Name, name
}

// tracingOnly reports whether st is span / tracing set-up: `span, ctx := tracing.StartSpanFromContext(..)`,
// `defer span.Finish()`, `span.LogKV(..)`.
func tracingOnly(st ast.Stmt) bool {
	isTracingCall := func(e ast.Expr) bool {
		c, ok := e.(*ast.CallExpr)
		if !ok {
			return false
		}
		switch exprName(c.Fun) {
		case "tracing.StartSpanFromContext", "span.Finish", "span.LogKV":
			// arguments must not hide other calls
			for _, a := range c.Args {
				if len(callsIn(a)) > 0 {
					return false
				}
			}
			return true
		}
		return false
	}
	switch x := st.(type) {
	case *ast.AssignStmt:
		return len(x.Rhs) == 1 && isTracingCall(x.Rhs[0])
	case *ast.DeferStmt:
		return isTracingCall(x.Call)
	case *ast.ExprStmt:
		return isTracingCall(x.X)
	}
	return false
}

func stmtKind(st ast.Stmt) string {
	switch st.(type) {
	case *ast.IfStmt:
		return "if-statement (a branch that can skip or precede the gate)"
	case *ast.ReturnStmt:
		return "return"
	case *ast.AssignStmt:
		return "assignment"
	case *ast.ExprStmt:
		return "call"
	case *ast.ForStmt, *ast.RangeStmt:
		return "loop"
	case *ast.SwitchStmt, *ast.TypeSwitchStmt, *ast.SelectStmt:
		return "switch/select"
	case *ast.GoStmt:
		return "go statement"
	case *ast.DeferStmt:
		return "defer"
	case *ast.DeclStmt:
		return "declaration"
	}
	return "statement"
}

func analyseFn(fset *token.FileSet, file string, fd *ast.FuncDecl, recv string) apiFn {
	fn := apiFn{name: fd.Name.Name}
	at := func(n ast.Node) string {
		return fmt.Sprintf("%s:%d %s", file, fset.Position(n.Pos()).Line, fd.Name.Name)
	}
	if fd.Body == nil {
		fn.note = "no-body"
		fn.offences = append(fn.offences, at(fd)+": no body")
		return fn
	}
	var before []string
	var pre []string
	for _, st := range fd.Body.List {
		if g, ok := gateOf(st, recv); ok {
			fn.gate = g
			fn.before = before
			fn.offences = pre
			return fn
		}
		if containsValidate(st, recv) {
			fn.note = "validate-call-not-a-checked-top-level-gate"
			fn.offences = append(pre, at(st)+": the validate call is not a checked top-level gate (nested in a "+stmtKind(st)+", or its result is not returned): the gate can be skipped")
			return fn
		}
		if !tracingOnly(st) {
			calls := callsIn(st)
			pre = append(pre, at(st)+": "+stmtKind(st)+" before the state gate"+map[bool]string{true: " calling " + strings.Join(calls, ", "), false: ""}[len(calls) > 0])
		}
		before = append(before, callsIn(st)...)
	}
	return fn // no validate call at all: ungated (classification decides whether that is allowed)
}

// checkValidate verifies the body of API.validate statement by statement:
//
//	state := api.cluster.State()
//	if _, ok := validAPIMethods[state][f]; ok { return nil }
//	return newAPIMethodNotAllowedError(...)
func checkValidate(fd *ast.FuncDecl, recv string) bool {
	if fd.Body == nil || len(fd.Body.List) != 3 || fd.Type.Params == nil || len(fd.Type.Params.List) != 1 ||
		len(fd.Type.Params.List[0].Names) != 1 {
		return false
	}
	param := fd.Type.Params.List[0].Names[0].Name
	a0, ok := fd.Body.List[0].(*ast.AssignStmt)
	if !ok || a0.Tok != token.DEFINE || len(a0.Lhs) != 1 || len(a0.Rhs) != 1 {
		return false
	}
	stateVar, ok := a0.Lhs[0].(*ast.Ident)
	if !ok || exprName(a0.Rhs[0]) != recv+".cluster.State()" {
		return false
	}
	ifs, ok := fd.Body.List[1].(*ast.IfStmt)
	if !ok || ifs.Else != nil || ifs.Init == nil {
		return false
	}
	ia, ok := ifs.Init.(*ast.AssignStmt)
	if !ok || len(ia.Lhs) != 2 || len(ia.Rhs) != 1 {
		return false
	}
	okVar, ok := ia.Lhs[1].(*ast.Ident)
	if !ok {
		return false
	}
	outer, ok := ia.Rhs[0].(*ast.IndexExpr)
	if !ok {
		return false
	}
	inner, ok := outer.X.(*ast.IndexExpr)
	if !ok || exprName(inner.X) != "validAPIMethods" || exprName(inner.Index) != stateVar.Name || exprName(outer.Index) != param {
		return false
	}
	if c, ok := ifs.Cond.(*ast.Ident); !ok || c.Name != okVar.Name {
		return false
	}
	if len(ifs.Body.List) != 1 {
		return false
	}
	r, ok := ifs.Body.List[0].(*ast.ReturnStmt)
	if !ok || len(r.Results) != 1 || exprName(r.Results[0]) != "nil" {
		return false
	}
	r2, ok := fd.Body.List[2].(*ast.ReturnStmt)
	if !ok || len(r2.Results) != 1 || exprName(r2.Results[0]) != "newAPIMethodNotAllowedError()" {
		return false
	}
	return true
}

// checkAppendMap verifies appendMap(a, b) is the union: two range loops copying a then b into r.
func checkAppendMap(fd *ast.FuncDecl) bool {
	if fd.Body == nil || len(fd.Body.List) != 4 || fd.Type.Params == nil {
		return false
	}
	var params []string
	for _, f := range fd.Type.Params.List {
		for _, n := range f.Names {
			params = append(params, n.Name)
		}
	}
	if len(params) != 2 {
		return false
	}
	a0, ok := fd.Body.List[0].(*ast.AssignStmt)
	if !ok || len(a0.Lhs) != 1 || exprName(a0.Rhs[0]) != "make()" {
		return false
	}
	res := exprName(a0.Lhs[0])
	for i := 0; i < 2; i++ {
		rs, ok := fd.Body.List[1+i].(*ast.RangeStmt)
		if !ok || exprName(rs.X) != params[i] || rs.Key == nil || rs.Value == nil || len(rs.Body.List) != 1 {
			return false
		}
		as, ok := rs.Body.List[0].(*ast.AssignStmt)
		if !ok || len(as.Lhs) != 1 || len(as.Rhs) != 1 {
			return false
		}
		ix, ok := as.Lhs[0].(*ast.IndexExpr)
		if !ok || exprName(ix.X) != res || exprName(ix.Index) != exprName(rs.Key) || exprName(as.Rhs[0]) != exprName(rs.Value) {
			return false
		}
	}
	r, ok := fd.Body.List[3].(*ast.ReturnStmt)
	return ok && len(r.Results) == 1 && exprName(r.Results[0]) == res
}

func leanStr(s string) string {
	return "\"" + strings.ReplaceAll(strings.ReplaceAll(s, "\\", "\\\\"), "\"", "\\\"") + "\""
}

func leanStrList(xs []string) string {
	q := make([]string, len(xs))
	for i, x := range xs {
		q[i] = leanStr(x)
	}
	return "[" + strings.Join(q, ", ") + "]"
}

func main() {
	repo := flag.String("repo", "", "pilosa tree (uses <repo>/api.go and <repo>/http/handler.go)")
	apiPath := flag.String("api", "", "api.go (overrides --repo)")
	handlerPath := flag.String("handler", "", "http/handler.go (overrides --repo; optional)")
	out := flag.String("out", "", "Lean file to write")
	flag.Parse()
	if *apiPath == "" && *repo != "" {
		*apiPath = filepath.Join(*repo, "api.go")
	}
	if *handlerPath == "" && *repo != "" {
		*handlerPath = filepath.Join(*repo, "http", "handler.go")
	}
	if *apiPath == "" || *out == "" {
		die("need --repo or --api, and --out")
	}
	fset := token.NewFileSet()
	f, err := parser.ParseFile(fset, *apiPath, nil, 0)
	if err != nil {
		die("parse %s: %v", *apiPath, err)
	}

	var consts []string
	sets := map[string][]string{}
	var setOrder []string
	type row struct {
		state string
		sets  []string
	}
	var table []row
	tableFound := false
	var fns []apiFn
	validateOK, appendOK := false, false
	known := map[string]bool{}

	for _, d := range f.Decls {
		switch x := d.(type) {
		case *ast.GenDecl:
			if x.Tok == token.CONST && len(x.Specs) > 0 {
				first := x.Specs[0].(*ast.ValueSpec)
				if id, ok := first.Type.(*ast.Ident); ok && id.Name == "apiMethod" {
					for _, s := range x.Specs {
						for _, n := range s.(*ast.ValueSpec).Names {
							consts = append(consts, n.Name)
							known[n.Name] = true
						}
					}
				}
			}
			if x.Tok == token.VAR {
				for _, s := range x.Specs {
					vs := s.(*ast.ValueSpec)
					if len(vs.Names) != 1 || len(vs.Values) != 1 {
						continue
					}
					name := vs.Names[0].Name
					cl, ok := vs.Values[0].(*ast.CompositeLit)
					if !ok {
						continue
					}
					mt, ok := cl.Type.(*ast.MapType)
					if !ok {
						continue
					}
					if exprName(mt.Key) == "apiMethod" {
						var ms []string
						for _, el := range cl.Elts {
							kv, ok := el.(*ast.KeyValueExpr)
							if !ok {
								die("%s: unexpected element", name)
							}
							ms = append(ms, exprName(kv.Key))
						}
						sets[name] = ms
						setOrder = append(setOrder, name)
					} else if name == "validAPIMethods" {
						tableFound = true
						for _, el := range cl.Elts {
							kv, ok := el.(*ast.KeyValueExpr)
							if !ok {
								die("validAPIMethods: unexpected element")
							}
							r := row{state: exprName(kv.Key)}
							switch v := kv.Value.(type) {
							case *ast.Ident:
								r.sets = []string{v.Name}
							case *ast.CallExpr:
								if exprName(v.Fun) != "appendMap" {
									die("validAPIMethods[%s]: unknown constructor %s", r.state, exprName(v.Fun))
								}
								for _, a := range v.Args {
									id, ok := a.(*ast.Ident)
									if !ok {
										die("validAPIMethods[%s]: non-identifier argument", r.state)
									}
									r.sets = append(r.sets, id.Name)
								}
							default:
								die("validAPIMethods[%s]: unknown value form", r.state)
							}
							table = append(table, r)
						}
					}
				}
			}
		case *ast.FuncDecl:
			typ, recv := recvOf(x)
			if x.Recv == nil && x.Name.Name == "appendMap" {
				appendOK = checkAppendMap(x)
			}
			if typ != "API" {
				continue
			}
			if x.Name.Name == "validate" {
				validateOK = checkValidate(x, recv)
				continue
			}
			if !x.Name.IsExported() {
				continue
			}
			fns = append(fns, analyseFn(fset, filepath.Base(*apiPath), x, recv))
		}
	}
	if len(consts) == 0 {
		die("no apiMethod constants found in %s", *apiPath)
	}
	if !tableFound {
		die("validAPIMethods not found in %s", *apiPath)
	}
	for _, n := range []string{"methodsCommon", "methodsResizing", "methodsNormal"} {
		if _, ok := sets[n]; !ok {
			die("method set %s not found", n)
		}
	}
	for _, n := range setOrder {
		for _, m := range sets[n] {
			if !known[m] {
				die("set %s holds %s which is not an apiMethod constant", n, m)
			}
		}
	}
	for _, r := range table {
		for _, s := range r.sets {
			if _, ok := sets[s]; !ok {
				die("validAPIMethods[%s] uses unknown set %s", r.state, s)
			}
		}
	}
	sort.Slice(fns, func(i, j int) bool { return fns[i].name < fns[j].name })
	for i := range fns {
		if fns[i].gate != "" && !known[fns[i].gate] {
			fns[i].note = "gate-argument-" + fns[i].gate + "-is-not-an-apiMethod-constant"
			fns[i].gate = ""
		}
	}

	// handler.go: which API methods the HTTP layer calls (h.api.X).
	var handlerCalls []string
	if *handlerPath != "" {
		if hf, err := parser.ParseFile(fset, *handlerPath, nil, 0); err == nil {
			seen := map[string]bool{}
			ast.Inspect(hf, func(n ast.Node) bool {
				if c, ok := n.(*ast.CallExpr); ok {
					if s, ok := c.Fun.(*ast.SelectorExpr); ok {
						if in, ok := s.X.(*ast.SelectorExpr); ok && in.Sel.Name == "api" {
							if !seen[s.Sel.Name] {
								seen[s.Sel.Name] = true
								handlerCalls = append(handlerCalls, s.Sel.Name)
							}
						}
					}
				}
				return true
			})
			sort.Strings(handlerCalls)
		} else if !os.IsNotExist(err) {
			die("parse %s: %v", *handlerPath, err)
		}
	}

	var b strings.Builder
	b.WriteString("/-\nGENERATED by harness/extract/gate from api.go (and http/handler.go) — do not edit.\n")
	b.WriteString("Regenerated by bin/check C23 on every run; the theorems in Props.lean are re-checked against it.\n-/\n")
	b.WriteString("namespace PV.C23\n\n")
	b.WriteString("/-- The `apiMethod` constants of api.go, in declaration order. -/\ninductive ApiMethod where\n")
	for _, c := range consts {
		b.WriteString("  | " + c + "\n")
	}
	b.WriteString("  deriving DecidableEq, Repr\n\n")
	b.WriteString("def ApiMethod.all : List ApiMethod := [" + strings.Join(prefixAll(consts), ", ") + "]\n\n")
	b.WriteString("def ApiMethod.name : ApiMethod → String\n")
	for _, c := range consts {
		b.WriteString("  | ." + c + " => " + leanStr(c) + "\n")
	}
	b.WriteString("\n")
	for _, n := range setOrder {
		b.WriteString("def " + n + " : List ApiMethod := [" + strings.Join(prefixAll(sets[n]), ", ") + "]\n")
	}
	b.WriteString("\n/-- `validAPIMethods`: cluster-state identifier ↦ the method sets whose union is allowed. -/\n")
	b.WriteString("def validTable : List (String × List (List ApiMethod)) := [\n")
	for i, r := range table {
		sep := ","
		if i == len(table)-1 {
			sep = ""
		}
		b.WriteString("  (" + leanStr(r.state) + ", [" + strings.Join(r.sets, ", ") + "])" + sep + "\n")
	}
	b.WriteString("]\n\n")
	b.WriteString("/-- `API.validate` has the expected statement-by-statement shape (lookup in validAPIMethods[state]). -/\n")
	b.WriteString(fmt.Sprintf("def validateShapeOk : Bool := %v\n", validateOK))
	b.WriteString("/-- `appendMap` is the two-loop union. -/\n")
	b.WriteString(fmt.Sprintf("def appendMapShapeOk : Bool := %v\n\n", appendOK))
	b.WriteString("structure ApiFn where\n  name : String\n  gate : Option ApiMethod\n  before : List String\n  note : String\n  deriving Repr\n\n")
	b.WriteString("/-- Every exported method of `API`, sorted by name. -/\ndef apiFns : List ApiFn := [\n")
	for i, fn := range fns {
		g := "none"
		if fn.gate != "" {
			g = "some ." + fn.gate
		}
		sep := ","
		if i == len(fns)-1 {
			sep = ""
		}
		b.WriteString("  ⟨" + leanStr(fn.name) + ", " + g + ", " + leanStrList(fn.before) + ", " + leanStr(fn.note) + "⟩" + sep + "\n")
	}
	b.WriteString("]\n\n")
	var offences []string
	for _, fn := range fns {
		if fn.gate != "" || fn.note != "" {
			offences = append(offences, fn.offences...)
		}
	}
	if !validateOK {
		offences = append(offences, filepath.Base(*apiPath)+" API.validate: body is not `state := api.cluster.State(); if _, ok := validAPIMethods[state][f]; ok { return nil }; return newAPIMethodNotAllowedError(..)`")
	}
	if !appendOK {
		offences = append(offences, filepath.Base(*apiPath)+" appendMap: body is not the two-loop union of its arguments")
	}
	b.WriteString("/-- Site-precise list of everything around a state gate that is not span/tracing set-up followed by a\nchecked top-level `validate` (empty for a conforming source). -/\n")
	b.WriteString("def gateOffences : List String := " + leanStrList(offences) + "\n\n")
	b.WriteString("/-- API methods called from http/handler.go (`h.api.X`). -/\n")
	b.WriteString("def handlerCalls : List String := " + leanStrList(handlerCalls) + "\n\n")
	b.WriteString("end PV.C23\n")

	// write only when changed, so an unchanged source does not trigger a Lean rebuild
	if old, err := os.ReadFile(*out); err == nil && string(old) == b.String() {
		fmt.Printf("gate: %s unchanged (%d constants, %d entry points)\n", *out, len(consts), len(fns))
		return
	}
	tmp := *out + ".tmp"
	if err := os.WriteFile(tmp, []byte(b.String()), 0o644); err != nil {
		die("write: %v", err)
	}
	if err := os.Rename(tmp, *out); err != nil {
		die("rename: %v", err)
	}
	fmt.Printf("gate: wrote %s (%d constants, %d entry points)\n", *out, len(consts), len(fns))
}

func prefixAll(xs []string) []string {
	o := make([]string, len(xs))
	for i, x := range xs {
		o[i] = "." + x
	}
	return o
}
