// Command peg translates pql/pql.peg into the Lean rule table lean/PV/C26/Gen.lean.
//
//	go run ./extract/peg --peg <repo>/pql/pql.peg --gen <repo>/pql/pql.peg.go --out <Gen.lean> [--print <GenPrint.lean>]
//
// The .peg syntax handled is exactly the subset the grammar uses: rules `Name <- expr`, sequence,
// ordered choice `/`, grouping, `* + ?`, predicates `& !`, literals '..' (escapes \\ \' \" \n \t \r),
// classes [..] (ranges, negation), case-insensitive classes [[..]], `.`, captures `<..>` and actions
// `{ p.method(args) }` whose arguments are string literals, `text`, `nil`, `true`, `false` or
// `p.endCall()`.  Anything else makes the translator FAIL (exit 1): it never guesses.
//
// Besides the table it checks that pql.peg.go was generated from this grammar: the `peg` tool
// prints every rule in its normal form in a comment (`/* 12 item <- <(...)> */`) and the actions in
// the Execute switch; both are re-derived from pql.peg and compared.
//
// With --print it also writes the table of printable code points of strconv.IsPrint of the Go
// toolchain in use (strconv.Quote is what Call.String uses for string values).
package main

import (
	"flag"
	"fmt"
	"go/ast"
	"go/parser"
	"go/token"
	"os"
	"regexp"
	"strconv"
	"strings"
)

func die(format string, a ...interface{}) {
	fmt.Fprintf(os.Stderr, "extract/peg: "+format+"\n", a...)
	os.Exit(1)
}

// ---------- expression tree ----------

type kind int

const (
	kEps kind = iota
	kChr
	kRng
	kAny
	kSeq
	kAlt
	kStar
	kPlus
	kOpt
	kNot
	kAnd
	kCap
	kAct
	kRef
)

type expr struct {
	k      kind
	c, hi  rune    // chr / rng
	kids   []*expr // seq, alt (n-ary); star.. (1)
	name   string  // ref
	action string  // act: Go source
	actNo  int
	flat   bool // a multi-character literal (seq) or a class (alt): flattened into a parent of the same kind
}

type rule struct {
	name string
	e    *expr
}

// ---------- .peg parser ----------

type pp struct {
	src []rune
	i   int
}

func (p *pp) eof() bool { return p.i >= len(p.src) }
func (p *pp) peek() rune {
	if p.eof() {
		return 0
	}
	return p.src[p.i]
}

func (p *pp) ws() {
	for !p.eof() {
		c := p.peek()
		if c == ' ' || c == '\t' || c == '\n' || c == '\r' {
			p.i++
		} else if c == '#' {
			for !p.eof() && p.peek() != '\n' {
				p.i++
			}
		} else {
			return
		}
	}
}

func isIdentStart(c rune) bool {
	return c == '_' || (c >= 'a' && c <= 'z') || (c >= 'A' && c <= 'Z')
}
func isIdent(c rune) bool { return isIdentStart(c) || (c >= '0' && c <= '9') }

func (p *pp) ident() string {
	j := p.i
	for j < len(p.src) && isIdent(p.src[j]) {
		j++
	}
	s := string(p.src[p.i:j])
	p.i = j
	return s
}

// atRuleStart reports whether an identifier followed by `<-` starts here.
func (p *pp) atRuleStart() bool {
	j := p.i
	if j >= len(p.src) || !isIdentStart(p.src[j]) {
		return false
	}
	for j < len(p.src) && isIdent(p.src[j]) {
		j++
	}
	for j < len(p.src) && (p.src[j] == ' ' || p.src[j] == '\t') {
		j++
	}
	return j+1 < len(p.src) && p.src[j] == '<' && p.src[j+1] == '-'
}

func (p *pp) escape() rune {
	// after a backslash
	c := p.peek()
	p.i++
	switch c {
	case 'n':
		return '\n'
	case 't':
		return '\t'
	case 'r':
		return '\r'
	case '\\', '\'', '"', '[', ']', '-':
		return c
	}
	die("unknown escape \\%c at offset %d", c, p.i)
	return 0
}

func (p *pp) alt() *expr {
	first := p.seq()
	var kids []*expr
	add := func(k *expr) {
		if k.k == kAlt && k.flat {
			kids = append(kids, k.kids...)
		} else {
			kids = append(kids, k)
		}
	}
	add(first)
	n := 1
	for {
		p.ws()
		if p.peek() == '/' {
			p.i++
			add(p.seq())
			n++
		} else {
			break
		}
	}
	if n == 1 {
		return first
	}
	if len(kids) == 1 {
		return first
	}
	return &expr{k: kAlt, kids: kids}
}

func (p *pp) seq() *expr {
	var kids []*expr
	for {
		p.ws()
		if p.eof() || p.peek() == '/' || p.peek() == ')' || p.peek() == '>' || p.atRuleStart() {
			break
		}
		k := p.prefix()
		if k.k == kSeq && k.flat {
			kids = append(kids, k.kids...)
		} else {
			kids = append(kids, k)
		}
	}
	if len(kids) == 0 {
		return &expr{k: kEps}
	}
	if len(kids) == 1 {
		return kids[0]
	}
	return &expr{k: kSeq, kids: kids}
}

func (p *pp) prefix() *expr {
	p.ws()
	switch p.peek() {
	case '&':
		p.i++
		return &expr{k: kAnd, kids: []*expr{p.suffix()}}
	case '!':
		p.i++
		return &expr{k: kNot, kids: []*expr{p.suffix()}}
	}
	return p.suffix()
}

func (p *pp) suffix() *expr {
	e := p.primary()
	for {
		// no white space is skipped across a rule boundary: `x\nName <-`
		save := p.i
		p.ws()
		switch p.peek() {
		case '*':
			p.i++
			e = &expr{k: kStar, kids: []*expr{e}}
		case '+':
			p.i++
			e = &expr{k: kPlus, kids: []*expr{e}}
		case '?':
			p.i++
			e = &expr{k: kOpt, kids: []*expr{e}}
		default:
			p.i = save
			return e
		}
	}
}

func (p *pp) primary() *expr {
	p.ws()
	c := p.peek()
	switch {
	case c == '(':
		p.i++
		e := p.alt()
		p.ws()
		if p.peek() != ')' {
			die("expected ) at offset %d", p.i)
		}
		p.i++
		return e
	case c == '<':
		p.i++
		e := p.alt()
		p.ws()
		if p.peek() != '>' {
			die("expected > at offset %d", p.i)
		}
		p.i++
		return &expr{k: kCap, kids: []*expr{e}}
	case c == '.':
		p.i++
		return &expr{k: kAny}
	case c == '\'':
		p.i++
		var cs []rune
		for {
			if p.eof() {
				die("unterminated literal")
			}
			c := p.peek()
			p.i++
			if c == '\'' {
				break
			}
			if c == '\\' {
				c = p.escape()
			}
			cs = append(cs, c)
		}
		if len(cs) == 0 {
			die("empty literal at offset %d", p.i)
		}
		var kids []*expr
		for _, c := range cs {
			kids = append(kids, &expr{k: kChr, c: c})
		}
		if len(kids) == 1 {
			return kids[0]
		}
		return &expr{k: kSeq, kids: kids, flat: true}
	case c == '"':
		die("double-quoted (case-insensitive) literals are not handled (offset %d)", p.i)
	case c == '[':
		return p.class()
	case c == '{':
		return p.actionExpr()
	case isIdentStart(c):
		return &expr{k: kRef, name: p.ident()}
	}
	die("unexpected %q at offset %d", string(c), p.i)
	return nil
}

func (p *pp) class() *expr {
	// [..] or [[..]]
	p.i++
	insens := false
	if p.peek() == '[' {
		insens = true
		p.i++
	}
	neg := false
	if p.peek() == '^' {
		neg = true
		p.i++
	}
	var items []*expr
	for {
		if p.eof() {
			die("unterminated class")
		}
		c := p.peek()
		p.i++
		if c == ']' {
			break
		}
		if c == '\\' {
			c = p.escape()
		}
		if p.peek() == '-' && p.i+1 < len(p.src) && p.src[p.i+1] != ']' {
			p.i++
			hi := p.peek()
			p.i++
			if hi == '\\' {
				hi = p.escape()
			}
			if insens {
				lo2, hi2 := c, hi
				if c >= 'A' && hi <= 'Z' {
					lo2, hi2 = c+32, hi+32
				} else if c >= 'a' && hi <= 'z' {
					c, hi, lo2, hi2 = c-32, hi-32, c, hi
				} else {
					die("case-insensitive range %c-%c is not alphabetic", c, hi)
				}
				// the peg tool prints ([a-z] / [A-Z])
				items = append(items, &expr{k: kRng, c: lo2, hi: hi2}, &expr{k: kRng, c: c, hi: hi})
			} else {
				items = append(items, &expr{k: kRng, c: c, hi: hi})
			}
		} else {
			if insens {
				die("case-insensitive single characters are not handled")
			}
			items = append(items, &expr{k: kChr, c: c})
		}
	}
	if insens {
		if p.peek() != ']' {
			die("expected ]] at offset %d", p.i)
		}
		p.i++
	}
	if len(items) == 0 {
		die("empty class")
	}
	var e *expr
	if len(items) == 1 {
		e = items[0]
	} else {
		e = &expr{k: kAlt, kids: items, flat: !neg}
	}
	if neg {
		return &expr{k: kSeq, kids: []*expr{{k: kNot, kids: []*expr{e}}, {k: kAny}}}
	}
	return e
}

func (p *pp) actionExpr() *expr {
	// { go code } with balanced braces; string literals may not contain braces in this grammar
	depth := 0
	j := p.i
	for ; j < len(p.src); j++ {
		if p.src[j] == '{' {
			depth++
		} else if p.src[j] == '}' {
			depth--
			if depth == 0 {
				break
			}
		}
	}
	if j >= len(p.src) {
		die("unterminated action")
	}
	code := string(p.src[p.i+1 : j])
	p.i = j + 1
	return &expr{k: kAct, action: code}
}

func parsePeg(src string) []rule {
	p := &pp{src: []rune(src)}
	// header: package X ; type T Peg { ... }
	p.ws()
	if p.ident() != "package" {
		die("expected package clause")
	}
	p.ws()
	p.ident()
	p.ws()
	if p.ident() != "type" {
		die("expected type clause")
	}
	p.ws()
	p.ident()
	p.ws()
	if p.ident() != "Peg" {
		die("expected Peg")
	}
	p.ws()
	if p.peek() != '{' {
		die("expected { after Peg")
	}
	for !p.eof() && p.peek() != '}' {
		p.i++
	}
	p.i++
	var rules []rule
	for {
		p.ws()
		if p.eof() {
			break
		}
		if !p.atRuleStart() {
			die("expected a rule at offset %d: %q", p.i, string(p.src[p.i:min(p.i+30, len(p.src))]))
		}
		name := p.ident()
		p.ws()
		p.i += 2 // <-
		e := p.alt()
		rules = append(rules, rule{name, e})
	}
	return rules
}

// ---------- actions ----------

var ops = map[string]string{"addBTWN": "BETWEEN", "addLTE": "LTE", "addGTE": "GTE", "addEQ": "EQ", "addNEQ": "NEQ", "addLT": "LT", "addGT": "GT"}

func leanChar(c rune) string {
	switch {
	case c == '\'':
		return `'\''`
	case c == '\\':
		return `'\\'`
	case c == '\n':
		return `'\n'`
	case c == '\t':
		return `'\t'`
	case c >= 0x20 && c < 0x7f:
		return "'" + string(c) + "'"
	}
	return fmt.Sprintf("(Char.ofNat %d)", c)
}

func leanChars(s string) string {
	var parts []string
	for _, c := range s {
		parts = append(parts, leanChar(c))
	}
	return "[" + strings.Join(parts, ", ") + "]"
}

// leanAction translates `p.method(args)`; fails on anything else.
func leanAction(code string) string {
	code = strings.TrimSpace(code)
	e, err := parser.ParseExpr(code)
	if err != nil {
		die("action %q is not a single Go expression: %v", code, err)
	}
	call, ok := e.(*ast.CallExpr)
	if !ok {
		die("action %q is not a call", code)
	}
	sel, ok := call.Fun.(*ast.SelectorExpr)
	if !ok {
		die("action %q is not a method call", code)
	}
	if id, ok := sel.X.(*ast.Ident); !ok || id.Name != "p" {
		die("action %q is not a call on p", code)
	}
	m := sel.Sel.Name
	strArg := func(a ast.Expr) (string, bool) { // string literal
		if bl, ok := a.(*ast.BasicLit); ok && bl.Kind == token.STRING {
			s, err := strconv.Unquote(bl.Value)
			if err != nil {
				die("bad string literal in action %q", code)
			}
			return s, true
		}
		return "", false
	}
	isText := func(a ast.Expr) bool {
		id, ok := a.(*ast.Ident)
		return ok && id.Name == "text"
	}
	sarg := func(a ast.Expr) string {
		if s, ok := strArg(a); ok {
			return "(.lit " + leanChars(s) + ")"
		}
		if isText(a) {
			return ".text"
		}
		die("action %q: argument is neither a string literal nor `text`", code)
		return ""
	}
	n := len(call.Args)
	need := func(k int) {
		if n != k {
			die("action %q: %d arguments, expected %d", code, n, k)
		}
	}
	needText := func(a ast.Expr) {
		if !isText(a) {
			die("action %q: expected the argument `text`", code)
		}
	}
	switch m {
	case "startCall":
		need(1)
		return ".startCall " + sarg(call.Args[0])
	case "endCall":
		need(0)
		return ".endCall"
	case "addField":
		need(1)
		return ".addField " + sarg(call.Args[0])
	case "addVal":
		need(1)
		a := call.Args[0]
		if isText(a) {
			return ".addVal .text"
		}
		if id, ok := a.(*ast.Ident); ok {
			switch id.Name {
			case "nil":
				return ".addVal .null"
			case "true":
				return ".addVal (.bool true)"
			case "false":
				return ".addVal (.bool false)"
			}
		}
		if c2, ok := a.(*ast.CallExpr); ok && len(c2.Args) == 0 {
			if s2, ok := c2.Fun.(*ast.SelectorExpr); ok && s2.Sel.Name == "endCall" {
				if id, ok := s2.X.(*ast.Ident); ok && id.Name == "p" {
					return ".addVal .endCall"
				}
			}
		}
		die("action %q: unknown addVal argument", code)
	case "addNumVal":
		need(1)
		needText(call.Args[0])
		return ".addNumVal"
	case "addQuotedVal":
		need(1)
		needText(call.Args[0])
		return ".addQuotedVal"
	case "addPosStr", "addPosNum":
		need(2)
		k, ok := strArg(call.Args[0])
		if !ok {
			die("action %q: key must be a string literal", code)
		}
		needText(call.Args[1])
		return "." + m + " " + leanChars(k)
	case "condAdd":
		need(1)
		needText(call.Args[0])
		return ".condAdd"
	case "startConditional", "endConditional", "startList", "endList":
		need(0)
		return "." + m
	default:
		if op, ok := ops[m]; ok {
			need(0)
			return ".setCond ." + op
		}
	}
	die("action %q: method %s is not known to the model (lean/PV/C26/Peg.lean Act)", code, m)
	return ""
}

// ---------- Lean output ----------

var leanKeywords = map[string]bool{"open": true, "end": true, "at": true, "from": true, "in": true, "have": true, "show": true,
	"do": true, "then": true, "else": true, "if": true, "let": true, "fun": true, "match": true, "with": true, "where": true,
	"by": true, "section": true, "namespace": true, "import": true, "def": true, "theorem": true, "example": true, "instance": true,
	"structure": true, "inductive": true, "class": true, "mutual": true, "variable": true, "universe": true, "export": true,
	"private": true, "protected": true, "partial": true, "unsafe": true, "macro": true, "syntax": true, "notation": true,
	"infix": true, "prefix": true, "postfix": true, "attribute": true, "deriving": true, "extends": true, "for": true, "return": true,
	"Type": true, "Prop": true, "Sort": true, "using": true, "from_": false}

// leanName makes a rule name usable as a Lean identifier (keywords get a trailing prime).
func leanName(n string) string {
	if leanKeywords[n] {
		return n + "'"
	}
	return n
}

func (e *expr) lean(idx map[string]int) string {
	one := func() string { return e.kids[0].lean(idx) }
	switch e.k {
	case kEps:
		return ".eps"
	case kChr:
		return "(.chr " + leanChar(e.c) + ")"
	case kRng:
		return "(.rng " + leanChar(e.c) + " " + leanChar(e.hi) + ")"
	case kAny:
		return ".any"
	case kSeq:
		// a run of single characters is printed as a literal
		allChr := true
		for _, k := range e.kids {
			if k.k != kChr {
				allChr = false
			}
		}
		if allChr {
			var s []rune
			for _, k := range e.kids {
				s = append(s, k.c)
			}
			return "(lit " + leanChars(string(s)) + ")"
		}
		var parts []string
		for i := 0; i < len(e.kids); {
			if e.kids[i].k == kChr {
				j := i
				var s []rune
				for j < len(e.kids) && e.kids[j].k == kChr {
					s = append(s, e.kids[j].c)
					j++
				}
				parts = append(parts, "lit "+leanChars(string(s)))
				i = j
				continue
			}
			parts = append(parts, e.kids[i].lean(idx))
			i++
		}
		return "(seqs [" + strings.Join(parts, ", ") + "])"
	case kAlt:
		var parts []string
		for _, k := range e.kids {
			parts = append(parts, k.lean(idx))
		}
		return "(alts [" + strings.Join(parts, ",\n      ") + "])"
	case kStar:
		return "(.star " + one() + ")"
	case kPlus:
		return "(plus " + one() + ")"
	case kOpt:
		return "(.opt " + one() + ")"
	case kNot:
		return "(.notP " + one() + ")"
	case kAnd:
		return "(.andP " + one() + ")"
	case kCap:
		return "(.cap " + one() + ")"
	case kAct:
		return "(.act (" + leanAction(e.action) + "))"
	case kRef:
		if _, ok := idx[e.name]; !ok {
			die("reference to unknown rule %s", e.name)
		}
		return "(.ref R." + leanName(e.name) + ")"
	}
	die("internal: kind %d", e.k)
	return ""
}

// ---------- normal form of the peg tool (for the comparison with pql.peg.go) ----------

func pegChar(c rune) string {
	switch c {
	case '\'':
		return `'\''`
	case '\\':
		return `'\\'`
	case '\n':
		return `'\n'`
	case '\t':
		return `'\t'`
	case '\r':
		return `'\r'`
	}
	return "'" + string(c) + "'"
}

func pegClassChar(c rune) string {
	return string(c)
}

func (e *expr) norm(top bool, actNo *int, acts *[]string) string {
	switch e.k {
	case kEps:
		return ""
	case kChr:
		return pegChar(e.c)
	case kRng:
		return "[" + pegClassChar(e.c) + "-" + pegClassChar(e.hi) + "]"
	case kAny:
		return "."
	case kSeq:
		var parts []string
		for _, k := range e.kids {
			parts = append(parts, k.norm(false, actNo, acts))
		}
		return "(" + strings.Join(parts, " ") + ")"
	case kAlt:
		var parts []string
		for _, k := range e.kids {
			parts = append(parts, k.norm(false, actNo, acts))
		}
		return "(" + strings.Join(parts, " / ") + ")"
	case kStar:
		return e.kids[0].norm(false, actNo, acts) + "*"
	case kPlus:
		return e.kids[0].norm(false, actNo, acts) + "+"
	case kOpt:
		return e.kids[0].norm(false, actNo, acts) + "?"
	case kNot:
		return "!" + e.kids[0].norm(false, actNo, acts)
	case kAnd:
		return "&" + e.kids[0].norm(false, actNo, acts)
	case kCap:
		return "<" + e.kids[0].norm(false, actNo, acts) + ">"
	case kAct:
		s := fmt.Sprintf("Action%d", *actNo)
		*actNo++
		*acts = append(*acts, e.action)
		return s
	case kRef:
		return e.name
	}
	return "?"
}

var wsRE = regexp.MustCompile(`\s+`)

func squash(s string) string { return wsRE.ReplaceAllString(strings.TrimSpace(s), "") }

func checkGenerated(rules []rule, genPath string) (int, int) {
	b, err := os.ReadFile(genPath)
	if err != nil {
		die("%v", err)
	}
	gen := string(b)
	// rule comments
	cre := regexp.MustCompile(`(?m)^\s*/\* (\d+) ([A-Za-z_][A-Za-z0-9_]*) <- <(.*)> \*/$`)
	comments := map[string]string{}
	for _, m := range cre.FindAllStringSubmatch(gen, -1) {
		comments[m[2]] = m[3]
	}
	actNo := 0
	var acts []string
	for _, r := range rules {
		want := r.e.norm(true, &actNo, &acts)
		got, ok := comments[r.name]
		if !ok {
			die("pql.peg.go has no rule %s: the generated parser does not belong to this grammar", r.name)
		}
		if squash(got) != squash(want) {
			die("rule %s differs between pql.peg and pql.peg.go\n  .peg    : %s\n  .peg.go : %s", r.name, want, got)
		}
	}
	nRuleComments := 0
	for name := range comments {
		if !strings.HasPrefix(name, "Action") && name != "PegText" {
			nRuleComments++
		}
	}
	if nRuleComments != len(rules) {
		die("pql.peg.go has %d rules, pql.peg has %d", nRuleComments, len(rules))
	}
	// actions: comment table and Execute switch
	for i, code := range acts {
		name := fmt.Sprintf("Action%d", i)
		got, ok := comments[name]
		if !ok {
			die("pql.peg.go has no %s", name)
		}
		if squash(got) != squash("{"+code+"}") {
			die("%s differs: .peg {%s} vs .peg.go %s", name, code, got)
		}
	}
	if _, ok := comments[fmt.Sprintf("Action%d", len(acts))]; ok {
		die("pql.peg.go has more actions than pql.peg")
	}
	// Execute switch bodies
	sre := regexp.MustCompile(`(?s)case ruleAction(\d+):\n(.*?)\n\t\t(?:case |\})`)
	found := 0
	rest := gen
	for {
		loc := sre.FindStringSubmatchIndex(rest)
		if loc == nil {
			break
		}
		no, _ := strconv.Atoi(rest[loc[2]:loc[3]])
		body := rest[loc[4]:loc[5]]
		if no >= len(acts) {
			die("Execute has case ruleAction%d, grammar has %d actions", no, len(acts))
		}
		if squash(body) != squash(acts[no]) {
			die("Execute case ruleAction%d is %q, grammar action is %q", no, squash(body), squash(acts[no]))
		}
		found++
		rest = rest[loc[5]:]
	}
	if found != len(acts) {
		die("Execute handles %d actions, grammar has %d", found, len(acts))
	}
	// the text register: Execute must take the captured text by rune offsets
	if !strings.Contains(gen, "text = string(_buffer[begin:end])") {
		die("Execute no longer computes `text = string(_buffer[begin:end])`")
	}
	return len(comments), len(acts)
}

func main() {
	pegPath := flag.String("peg", "", "pql.peg")
	genPath := flag.String("gen", "", "pql.peg.go (optional: consistency check)")
	out := flag.String("out", "", "Gen.lean")
	printOut := flag.String("print", "", "GenPrint.lean (optional)")
	flag.Parse()
	if *pegPath == "" || *out == "" {
		die("--peg and --out required")
	}
	b, err := os.ReadFile(*pegPath)
	if err != nil {
		die("%v", err)
	}
	rules := parsePeg(string(b))
	if len(rules) == 0 {
		die("no rules")
	}
	idx := map[string]int{}
	for i, r := range rules {
		if _, dup := idx[r.name]; dup {
			die("rule %s defined twice", r.name)
		}
		idx[r.name] = i
	}
	nActs := 0
	if *genPath != "" {
		_, nActs = checkGenerated(rules, *genPath)
	}
	var sb strings.Builder
	sb.WriteString("/-\nGENERATED by harness/extract/peg from pql/pql.peg — do not edit.\n")
	sb.WriteString("Rule table of the PQL grammar as data for the PEG interpreter (PV/C26/Peg.lean).\n-/\n")
	sb.WriteString("import PV.C26.Peg\nnamespace PV.C26.Gen\nopen PV.C26\n\n")
	sb.WriteString("namespace R\n")
	for i, r := range rules {
		fmt.Fprintf(&sb, "abbrev %s : Nat := %d\n", leanName(r.name), i)
	}
	sb.WriteString("end R\n\n")
	fmt.Fprintf(&sb, "def nRules : Nat := %d\n", len(rules))
	fmt.Fprintf(&sb, "def nActions : Nat := %d\n", nActs)
	fmt.Fprintf(&sb, "def start : Nat := R.%s\n\n", leanName(rules[0].name))
	sb.WriteString("def ruleNames : List String := [")
	for i, r := range rules {
		if i > 0 {
			sb.WriteString(", ")
		}
		fmt.Fprintf(&sb, "%q", r.name)
	}
	sb.WriteString("]\n\n")
	for _, r := range rules {
		fmt.Fprintf(&sb, "def e_%s : PExpr :=\n  %s\n\n", r.name, r.e.lean(idx))
	}
	sb.WriteString("def rule : Nat → PExpr\n")
	for i, r := range rules {
		fmt.Fprintf(&sb, "  | %d => e_%s\n", i, r.name)
	}
	sb.WriteString("  | _ => .notP .eps\n\n")
	sb.WriteString("end PV.C26.Gen\n")
	if err := os.WriteFile(*out, []byte(sb.String()), 0o644); err != nil {
		die("%v", err)
	}
	if *printOut != "" {
		writeIsPrint(*printOut)
	}
	fmt.Printf("extract/peg: %d rules, %d actions -> %s\n", len(rules), nActs, *out)
}

func writeIsPrint(path string) {
	var sb strings.Builder
	sb.WriteString("/-\nGENERATED by harness/extract/peg from strconv.IsPrint of the Go toolchain — do not edit.\n")
	sb.WriteString("Maximal ranges of code points that strconv.Quote leaves unescaped (besides \" and \\).\n")
	sb.WriteString("Only the model driver uses this table; the theorems hold for every `isPrint`.\n-/\n")
	sb.WriteString("namespace PV.C26.GenPrint\n\ndef ranges : Array (Nat × Nat) := #[\n")
	first := true
	n := 0
	for lo := rune(0); lo <= 0x10FFFF; {
		if !strconv.IsPrint(lo) {
			lo++
			continue
		}
		hi := lo
		for hi+1 <= 0x10FFFF && strconv.IsPrint(hi+1) {
			hi++
		}
		if !first {
			sb.WriteString(",\n")
		}
		first = false
		fmt.Fprintf(&sb, "  (%d, %d)", lo, hi)
		n++
		lo = hi + 1
	}
	sb.WriteString("]\n\n")
	sb.WriteString(`/-- Binary search in the sorted, disjoint range table. -/
def isPrintNat (c : Nat) : Bool :=
  let rec go (fuel lo hi : Nat) : Bool :=
    match fuel with
    | 0 => false
    | fuel + 1 =>
      if lo < hi then
        let mid := (lo + hi) / 2
        let (a, b) := ranges[mid]!
        if c < a then go fuel lo mid
        else if b < c then go fuel (mid + 1) hi
        else true
      else false
  go 32 0 ranges.size

def isPrint (c : Char) : Bool := isPrintNat c.toNat

end PV.C26.GenPrint
`)
	if err := os.WriteFile(path, []byte(sb.String()), 0o644); err != nil {
		die("%v", err)
	}
	_ = n
}
