#!/usr/bin/env python3
"""Self-test of the C26 translator (extra check of props/C26.json).

Mutates a scratch copy of pql/pql.peg (outside the repo and outside lean/) and checks that every
mutation is noticed: either the translator fails (the generated parser no longer belongs to the
grammar / an action is unknown) or, when the translator is told to skip the comparison with
pql.peg.go, the regenerated table differs from the one the theorems were checked against.
Last stdout line: JSON verdict."""
import json, os, shutil, subprocess, sys, tempfile

repo = os.path.abspath(sys.argv[1])
root = os.path.dirname(os.path.dirname(os.path.dirname(os.path.dirname(os.path.dirname(os.path.abspath(__file__))))))
harn = os.path.join(root, "harness")
env = dict(os.environ, GOFLAGS="-mod=mod", GOPROXY="off", GOSUMDB="off", GOTOOLCHAIN="local")
peg = open(os.path.join(repo, "pql/pql.peg")).read()
gen_ref = open(os.path.join(root, "lean/PV/C26/Gen.lean")).read()

MUTATIONS = [
    ("lookahead of null widened", "'null' &(comma / sp close)", "'null' &(comma / sp close / rbrack)"),
    ("alternative order: bare word before numbers", "/ < '-'? [0-9]+ ('.'[0-9]*)? > { p.addNumVal(text) }\n", "/ < '-'? [0-9]+ > { p.addNumVal(text) }\n"),
    ("action changed to byte slicing", "{ p.addQuotedVal(text) }", "{ p.addQuotedVal(buffer[begin:end]) }"),
    ("unknown action", "{ p.startList() }", "{ p.startListX() }"),
    ("class narrowed", "IDENT <- [[A-Z]] ([[A-Z]] / [0-9])*", "IDENT <- [[A-Z]] ([[A-Z]])*"),
    ("escape alternative dropped", "doublequotedstring <- ( '\\\\\"' / '\\\\\\\\' / [^\"] )*", "doublequotedstring <- ( '\\\\\\\\' / [^\"] )*"),
    ("COND order", "COND <- ( '><' { p.addBTWN() }\n        / '<=' { p.addLTE() }", "COND <- ( '<=' { p.addLTE() }\n        / '><' { p.addBTWN() }"),
]

tmp = tempfile.mkdtemp(prefix="c26-selftest-")
caught, missed, details = 0, [], []
try:
    binp = os.path.join(tmp, "peg.bin")
    p = subprocess.run(["go", "build", "-o", binp, "./extract/peg"], cwd=harn, env=env, stdout=subprocess.PIPE, stderr=subprocess.STDOUT, text=True)
    if p.returncode != 0:
        print(json.dumps({"ok": False, "found": False, "what": "translator does not build: " + p.stdout[-300:]}))
        sys.exit(0)
    for name, old, new in MUTATIONS:
        if old not in peg:
            missed.append(name + " (pattern not found in pql.peg: update the self-test)")
            continue
        mpeg = os.path.join(tmp, "pql.peg")
        open(mpeg, "w").write(peg.replace(old, new, 1))
        out = os.path.join(tmp, "Gen.lean")
        # 1. with the comparison against the real generated parser: must fail
        p1 = subprocess.run([binp, "--peg", mpeg, "--gen", os.path.join(repo, "pql/pql.peg.go"), "--out", out], stdout=subprocess.PIPE, stderr=subprocess.STDOUT, text=True)
        # 2. without it: the table must differ from the checked one (or the translator fails loudly)
        p2 = subprocess.run([binp, "--peg", mpeg, "--out", out], stdout=subprocess.PIPE, stderr=subprocess.STDOUT, text=True)
        differs = p2.returncode != 0 or open(out).read().replace("def nActions : Nat := 0", "") != gen_ref.replace("def nActions : Nat := 58", "")
        if p1.returncode != 0 and differs:
            caught += 1
            details.append(name + ": " + (p1.stdout.strip().split("\n")[0][:120]))
        else:
            missed.append(name)
finally:
    shutil.rmtree(tmp, ignore_errors=True)
ok = not missed
print(json.dumps({"ok": ok, "evaluations": len(MUTATIONS), "distinct_nontrivial": caught, "found": False,
                  "what": ("translator self-test: %d/%d grammar mutations noticed" % (caught, len(MUTATIONS))) +
                          ("" if ok else "; MISSED: " + "; ".join(missed)),
                  "counters": {"mutations": len(MUTATIONS), "caught": caught}, "replay_lines": []}))
