// Harness for C29 (correspondence part): small concurrent histories replayed on the real server
// under an explicit schedule.
//
// Line format and semantics: lean/PV/C29/Main.lean.  Each thread of a history is a goroutine
// issuing its PQL requests through API.Query; a gate installed as tracing.GlobalTracer stops a
// request at the start of Executor.executeSet / executeClearBit / executeRowShard — i.e. right
// before the fragment critical section (fragment.setBit / clearBit / row) — and the scheduler
// releases exactly the thread named by the next schedule entry and waits until it reaches its next
// gate or finishes its operation.  No existing line of pilosa is touched: the tracer is an exported
// extension point.  The output is the result of every operation; the Lean driver computes the same
// from the model in which an operation is a sequence of atomic sections, and the specification
// column says what a linearizable execution may return.
package main

import (
	"context"
	"fmt"
	"net/http"
	"sort"
	"strconv"
	"strings"
	"sync"
	"time"

	"github.com/pilosa/pilosa"
	"github.com/pilosa/pilosa/tracing"
	"verifharness/vh"
	"verifharness/vh/srv"
)

// ---------------------------------------------------------------- gate

type threadKey struct{}

type ctl struct {
	mu      sync.Mutex
	release []chan struct{}
	arrived []chan string // "gate" or "done"
}

var gated = map[string]bool{
	"Executor.executeSet": true, "Executor.executeClearBit": true, "Executor.executeRowShard": true,
}

var current *ctl // the history being replayed (nil outside)
var curMu sync.Mutex

type gateTracer struct{}

type nopSpan struct{}

func (nopSpan) Finish()                            {}
func (nopSpan) LogKV(...interface{})               {}
func (gateTracer) InjectHTTPHeaders(*http.Request) {}
func (gateTracer) ExtractHTTPHeaders(r *http.Request) (tracing.Span, context.Context) {
	return nopSpan{}, r.Context()
}

func (gateTracer) StartSpanFromContext(ctx context.Context, name string) (tracing.Span, context.Context) {
	if gated[name] {
		if id, ok := ctx.Value(threadKey{}).(int); ok {
			curMu.Lock()
			c := current
			curMu.Unlock()
			if c != nil {
				c.gate(id)
			}
		}
	}
	return nopSpan{}, ctx
}

func (c *ctl) gate(id int) {
	c.arrived[id] <- "gate"
	<-c.release[id]
}

// ---------------------------------------------------------------- prop

type prop struct {
	s   *srv.Server
	seq int
}

func (p *prop) Rule() string {
	return "2-3 threads with 1-3 operations each (at most 6) on one set or mutex field, rows {1,2}, columns {0,1}: Set, Clear, Row and the " +
		"two-section reads Intersect/Union of two rows; a random schedule prefix decides which thread takes its next action (invoke, or run its next " +
		"critical section), the rest drains in thread order; a history is non-trivial when it has a write and a read on different threads"
}

type op struct {
	kind   byte
	r1, r2 uint64
	c      uint64
}

func parseOps(s string) ([]op, bool) {
	var out []op
	for _, t := range strings.Split(s, ";") {
		if len(t) < 2 {
			return nil, false
		}
		o := op{kind: t[0]}
		body := t[1:]
		switch t[0] {
		case 'S', 'C':
			rc := strings.Split(body, ":")
			if len(rc) != 2 {
				return nil, false
			}
			r, e1 := strconv.ParseUint(rc[0], 10, 64)
			c, e2 := strconv.ParseUint(rc[1], 10, 64)
			if e1 != nil || e2 != nil || c >= 8 {
				return nil, false
			}
			o.r1, o.c = r, c
		case 'R':
			r, e := strconv.ParseUint(body, 10, 64)
			if e != nil {
				return nil, false
			}
			o.r1 = r
		case 'I', 'U':
			ab := strings.Split(body, "&")
			if len(ab) != 2 {
				return nil, false
			}
			a, e1 := strconv.ParseUint(ab[0], 10, 64)
			b, e2 := strconv.ParseUint(ab[1], 10, 64)
			if e1 != nil || e2 != nil {
				return nil, false
			}
			o.r1, o.r2 = a, b
		default:
			return nil, false
		}
		out = append(out, o)
	}
	return out, true
}

func (o op) pql() string {
	switch o.kind {
	case 'S':
		return fmt.Sprintf("Set(%d, f=%d)", o.c, o.r1)
	case 'C':
		return fmt.Sprintf("Clear(%d, f=%d)", o.c, o.r1)
	case 'R':
		return fmt.Sprintf("Row(f=%d)", o.r1)
	case 'I':
		return fmt.Sprintf("Intersect(Row(f=%d), Row(f=%d))", o.r1, o.r2)
	}
	return fmt.Sprintf("Union(Row(f=%d), Row(f=%d))", o.r1, o.r2)
}

func (p *prop) Exec(lines []string) []string {
	outs := make([]string, len(lines))
	for i, l := range lines {
		l := l
		outs[i] = vh.Guard("exec", func() string { return p.execLine(l) })
	}
	return outs
}

func (p *prop) execLine(l string) string {
	ws := strings.Fields(l)
	if len(ws) < 5 || ws[0] != "h" || (ws[1] != "set" && ws[1] != "mutex") {
		return "bad-op"
	}
	// init
	var init [][2]uint64
	if ws[2] != "-" {
		for _, t := range strings.Split(ws[2], ",") {
			rc := strings.Split(t, ":")
			if len(rc) != 2 {
				return "bad-op"
			}
			r, e1 := strconv.ParseUint(rc[0], 10, 64)
			c, e2 := strconv.ParseUint(rc[1], 10, 64)
			if e1 != nil || e2 != nil || c >= 8 {
				return "bad-op"
			}
			init = append(init, [2]uint64{r, c})
		}
	}
	progs := ws[3 : len(ws)-1]
	if len(progs) == 0 || len(progs) > 4 {
		return "bad-op"
	}
	sc := ws[len(ws)-1]
	if !strings.HasPrefix(sc, "s=") || strings.Count(sc, "=") != 1 {
		return "bad-op"
	}
	var sched []int
	if sc != "s=" && sc != "s=-" {
		for _, t := range strings.Split(sc[2:], ",") {
			v, err := strconv.ParseUint(t, 10, 32)
			if err != nil {
				return "bad-op"
			}
			sched = append(sched, int(v))
		}
	}
	var threads [][]op
	total := 0
	for k, pr := range progs {
		pre := fmt.Sprintf("t%d=", k)
		if !strings.HasPrefix(pr, pre) || strings.Count(pr, "=") != 1 {
			return "bad-op"
		}
		ops, ok := parseOps(pr[len(pre):])
		if !ok || len(ops) == 0 {
			return "bad-op"
		}
		threads = append(threads, ops)
		total += len(ops)
	}
	if total > 6 {
		return "bad-op"
	}
	return p.run(ws[1] == "mutex", init, threads, sched)
}

func showResult(res interface{}) string {
	switch v := res.(type) {
	case bool:
		if v {
			return "true"
		}
		return "false"
	case *pilosa.Row:
		cols := v.Columns()
		sort.Slice(cols, func(i, j int) bool { return cols[i] < cols[j] })
		return vh.U64s(cols)
	}
	return fmt.Sprintf("?%T", res)
}

func (p *prop) run(mutex bool, init [][2]uint64, threads [][]op, sched []int) string {
	if p.s == nil {
		p.s = srv.Start(8)
		tracing.GlobalTracer = gateTracer{}
	}
	p.seq++
	index := fmt.Sprintf("h%d", p.seq)
	ctx := context.Background()
	api := p.s.API
	if _, err := api.CreateIndex(ctx, index, pilosa.IndexOptions{TrackExistence: false}); err != nil {
		return "err:create-index"
	}
	defer api.DeleteIndex(ctx, index)
	opt := pilosa.OptFieldTypeSet("ranked", 100)
	if mutex {
		opt = pilosa.OptFieldTypeMutex("ranked", 100)
	}
	if _, err := api.CreateField(ctx, index, "f", opt); err != nil {
		return "err:create-field"
	}
	// a sentinel bit makes shard 0 exist, so that every Row leaf is exactly one executeRowShard
	setup := []string{"Set(7, f=99)"}
	for _, b := range init {
		setup = append(setup, fmt.Sprintf("Set(%d, f=%d)", b[1], b[0]))
	}
	if _, err := p.s.Query(index, strings.Join(setup, "\n"), nil); err != nil {
		return "err:init"
	}

	n := len(threads)
	c := &ctl{release: make([]chan struct{}, n), arrived: make([]chan string, n)}
	for i := range c.release {
		c.release[i] = make(chan struct{})
		c.arrived[i] = make(chan string, 1)
	}
	results := make([][]string, n)
	curMu.Lock()
	current = c
	curMu.Unlock()
	defer func() {
		curMu.Lock()
		current = nil
		curMu.Unlock()
	}()
	for k := range threads {
		k := k
		results[k] = make([]string, len(threads[k]))
		go func() {
			tctx := context.WithValue(context.Background(), threadKey{}, k)
			for i, o := range threads[k] {
				c.gate(k) // invocation gate
				resp, err := api.Query(tctx, &pilosa.QueryRequest{Index: index, Query: o.pql()})
				switch {
				case err != nil:
					results[k][i] = "err:" + strings.ReplaceAll(err.Error(), " ", "_")
				case resp.Err != nil:
					results[k][i] = "err:" + strings.ReplaceAll(resp.Err.Error(), " ", "_")
				case len(resp.Results) != 1:
					results[k][i] = "err:result-count"
				default:
					results[k][i] = showResult(resp.Results[0])
				}
			}
			c.arrived[k] <- "done"
		}()
	}
	done := make([]bool, n)
	wait := func(k int) bool {
		select {
		case st := <-c.arrived[k]:
			if st == "done" {
				done[k] = true
			}
			return true
		case <-time.After(120 * time.Second):
			return false
		}
	}
	hang := func() string {
		// release everything so the goroutines end; the line is reported as a hang
		for k := range threads {
			go func(k int) {
				for {
					select {
					case c.release[k] <- struct{}{}:
					case <-time.After(2 * time.Second):
						return
					}
				}
			}(k)
		}
		return "err:hang"
	}
	for k := range threads {
		if !wait(k) {
			return hang()
		}
	}
	stepT := func(k int) bool {
		c.release[k] <- struct{}{}
		return wait(k)
	}
	for _, t := range sched {
		if t >= n || done[t] {
			continue
		}
		if !stepT(t) {
			return hang()
		}
	}
	for k := range threads {
		for !done[k] {
			if !stepT(k) {
				return hang()
			}
		}
	}
	var parts []string
	id := 0
	for k := range threads {
		for i := range threads[k] {
			parts = append(parts, fmt.Sprintf("%d=%s", id, results[k][i]))
			id++
		}
	}
	return strings.Join(parts, ";")
}

// ---------------------------------------------------------------- generation

func (p *prop) Gen(r *vh.Rng, tier string, n int) []vh.Case {
	r = vh.NewRng(r.U64() ^ 0xC29)
	var cases []vh.Case
	for k := 0; k < n; k++ {
		cr := r.Fork()
		ft := cr.PickS("set", "mutex", "mutex")
		var initS []string
		for _, row := range []int{1, 2} {
			for _, col := range []int{0, 1} {
				if cr.Chance(1, 3) && !(ft == "mutex" && row == 2 && contains(initS, fmt.Sprintf("1:%d", col))) {
					initS = append(initS, fmt.Sprintf("%d:%d", row, col))
				}
			}
		}
		init := "-"
		if len(initS) > 0 {
			init = strings.Join(initS, ",")
		}
		nt := cr.Range(2, 3)
		budget := 6
		var progs []string
		actions := 0
		hasW, hasR := false, false
		for t := 0; t < nt; t++ {
			no := cr.Range(1, 2)
			if no > budget-(nt-1-t) {
				no = budget - (nt - 1 - t)
			}
			budget -= no
			var ops []string
			for i := 0; i < no; i++ {
				row, col := cr.Range(1, 2), cr.Range(0, 1)
				switch cr.Intn(10) {
				case 0, 1, 2:
					ops = append(ops, fmt.Sprintf("S%d:%d", row, col))
					actions += 2
					hasW = true
				case 3:
					ops = append(ops, fmt.Sprintf("C%d:%d", row, col))
					actions += 2
					hasW = true
				case 4, 5:
					ops = append(ops, fmt.Sprintf("R%d", row))
					actions += 2
					hasR = true
				case 6, 7, 8:
					ops = append(ops, "I1&2")
					actions += 3
					hasR = true
				default:
					ops = append(ops, "U1&2")
					actions += 3
					hasR = true
				}
			}
			progs = append(progs, fmt.Sprintf("t%d=%s", t, strings.Join(ops, ";")))
		}
		ns := cr.Range(0, actions)
		var ss []string
		for i := 0; i < ns; i++ {
			ss = append(ss, strconv.Itoa(cr.Intn(nt)))
		}
		sched := "s=-"
		if len(ss) > 0 {
			sched = "s=" + strings.Join(ss, ",")
		}
		line := fmt.Sprintf("h %s %s %s %s", ft, init, strings.Join(progs, " "), sched)
		vh.Count("field:" + ft)
		cases = append(cases, vh.Case{Lines: []string{line}, Nontrivial: hasW && hasR})
	}
	return cases
}

func contains(xs []string, x string) bool {
	for _, y := range xs {
		if y == x {
			return true
		}
	}
	return false
}

func main() {
	p := &prop{}
	defer func() {
		if p.s != nil {
			p.s.Stop()
		}
	}()
	vh.Main(p)
}
