// Harness for C02: histories of mutations and reads on one roaring.Bitmap, for both container
// collections. Line formats are documented in lean/PV/C02/Main.lean.
//
// After every mutation the whole observation (Count, Any, Slice through the value iterator,
// per-container views decoded from raw container storage) is printed; none of these goes through
// the collection's last-container lookaside, so the explicit `contains` / `probe` / `add` lines
// of the history decide what the lookaside holds.
package main

import (
	"bytes"
	"fmt"
	"strconv"
	"strings"

	"github.com/pilosa/pilosa/roaring"
	"verifharness/cmd/c04/codec"
	"verifharness/vh"
)

type prop struct{}

func (p *prop) Rule() string {
	return "histories of 6-40 lines on one bitmap (slice or B-tree collection chosen per case); values drawn from <=3 container keys " +
		"(0,1,2,3 and rarely 2^48-1) x 10 low values, so every lookup re-hits recently touched containers; all mutation paths " +
		"(Add, DirectAdd, Remove, AddN, DirectAddN, RemoveN, DirectRemoveN with duplicates and absent values, ImportRoaringBits set/clear, " +
		"Optimize, Containers.Remove, Freeze, UnmarshalBinary(WriteTo) on the same object) interleaved with Contains/probe/iterator reads and lookaside peeks; " +
		"2% of cases fill a container to the 4096 array/bitmap threshold. Non-trivial: a replacing mutation (import, optimize, reload, ctrremove, remove) " +
		"is later followed by a lookaside user (contains/probe/add/remove/addn/removen) in the same case"
}

// ---------- generation ----------

const maxKey = (1 << 48) - 1

var lows = []uint64{0, 1, 2, 3, 4, 5, 6, 7, 65534, 65535}

type gen struct {
	r    *vh.Rng
	keys []uint64
}

func (g *gen) val() uint64 {
	k := g.keys[g.r.Intn(len(g.keys))]
	return k<<16 | lows[g.r.Intn(len(lows))]
}

func (g *gen) vals(lo, hi int) []uint64 {
	n := g.r.Range(lo, hi)
	out := make([]uint64, n)
	for i := range out {
		out[i] = g.val()
	}
	return out
}

func spaced(vs []uint64) string {
	ss := make([]string, len(vs))
	for i, v := range vs {
		ss[i] = strconv.FormatUint(v, 10)
	}
	return strings.Join(ss, " ")
}

var replacing = map[string]bool{"freeze": true, "import": true, "importo": true, "fill": true, "fillstep": true, "optimize": true, "reload": true, "ctrremove": true, "remove": true, "removen": true, "dremoven": true}
var lookUsers = map[string]bool{"contains": true, "probe": true, "add": true, "dadd": true, "remove": true, "addn": true, "daddn": true, "removen": true, "dremoven": true}

func nontrivial(lines []string) bool {
	seenRepl := false
	for _, l := range lines {
		op := strings.Fields(l)[0]
		if seenRepl && lookUsers[op] {
			return true
		}
		if replacing[op] {
			seenRepl = true
		}
	}
	return false
}

// importLine: Pilosa-format payload, or (keys permitting) an official-format one in one of the
// reference encoder's run modes (0 arrays/bitmaps only, 1 runs where smaller, 2 runs everywhere).
func (g *gen) importLine(mode string) string {
	vs := g.vals(1, 6)
	if g.r.Chance(1, 3) {
		ok := true
		for _, v := range vs {
			if v>>16 >= 65536 {
				ok = false
			}
		}
		if ok {
			return fmt.Sprintf("importo %s %s %d", mode, vh.CSV(vs), g.r.Intn(3))
		}
	}
	return "import " + mode + " " + vh.CSV(vs)
}

// nearFull: a container holding all, or all but one, of its 65536 bits, then point operations and
// imports (array / run / bitmap payloads, both formats) that carry exactly the missing or a
// present bit, so the "already full" / "becomes empty" shortcuts of the import updaters and the
// kernels' boundary cases are hit.
func (g *gen) nearFull() []string {
	r := g.r
	key := g.keys[0]
	if key >= 65536 {
		key = 1
	}
	base := key << 16
	hole := uint64(r.Pick(0, 1, 7, 4096, 32767, 65534, 65535))
	var lines []string
	switch r.Intn(4) {
	case 0:
		lines = append(lines, fmt.Sprintf("fill set %d 0 65535", key), fmt.Sprintf("remove %d", base|hole))
	case 1:
		lines = append(lines, fmt.Sprintf("fill set %d 0 65534", key))
		hole = 65535
	case 2:
		lines = append(lines, fmt.Sprintf("fill set %d 1 65535", key))
		hole = 0
	default:
		lines = append(lines, fmt.Sprintf("fill set %d 0 65535", key))
	}
	big := 0
	n := r.Range(4, 8)
	for i := 0; i < n; i++ {
		lo, hi := hole, hole
		if lo > 0 {
			lo--
		}
		if hi < 65535 {
			hi++
		}
		switch r.Intn(16) {
		case 0:
			lines = append(lines, fmt.Sprintf("import set %d", base|hole))
		case 1:
			lines = append(lines, fmt.Sprintf("importo set %d %d", base|hole, r.Intn(3)))
		case 2:
			lines = append(lines, fmt.Sprintf("fill set %d %d %d", key, lo, hi))
		case 3:
			lines = append(lines, fmt.Sprintf("importo set %d,%d,%d 2", base|lo, base|hole, base|hi))
		case 4:
			lines = append(lines, fmt.Sprintf("add %d", base|hole))
		case 5:
			lines = append(lines, fmt.Sprintf("addn %d %d %d", base|hole, base|hole, base|lo))
		case 6:
			lines = append(lines, fmt.Sprintf("remove %d", base|hole))
		case 7:
			lines = append(lines, fmt.Sprintf("import clear %d", base|hole))
		case 8:
			lines = append(lines, fmt.Sprintf("importo clear %d,%d 2", base|hole, base|hi))
		case 9:
			lines = append(lines, fmt.Sprintf("removen %d %d", base|hole, base|hole))
		case 10:
			lines = append(lines, fmt.Sprintf("contains %d", base|hole), "look")
		case 11:
			lines = append(lines, r.PickS("optimize", "reload", "freeze"))
		case 12:
			if big < 2 {
				big++
				// bitmap payload: every second value, the half that holds the hole
				lines = append(lines, fmt.Sprintf("fillstep %s %d %d 65535 2", r.PickS("set", "set", "clear"), key, hole%2))
			}
		case 13:
			if big < 2 {
				big++
				lines = append(lines, fmt.Sprintf("fill %s %d 0 65535", r.PickS("set", "clear"), key))
			}
		case 14:
			hole = uint64(r.Pick(0, 1, 7, 4096, 32767, 65534, 65535))
			lines = append(lines, fmt.Sprintf("remove %d", base|hole))
		case 15:
			lines = append(lines, fmt.Sprintf("probe %d %d %d", base|lo, base|hole, base|hi))
		}
	}
	return lines
}

func (g *gen) line() string {
	r := g.r
	switch w := r.Intn(124); {
	case w < 12:
		return "add " + spaced(g.vals(1, 3))
	case w < 16:
		return fmt.Sprintf("dadd %d", g.val())
	case w < 27:
		return "remove " + spaced(g.vals(1, 3))
	case w < 35:
		return "addn " + spaced(g.vals(1, 6))
	case w < 38:
		return "daddn " + spaced(g.vals(0, 5))
	case w < 46:
		return "removen " + spaced(g.vals(1, 6))
	case w < 49:
		return "dremoven " + spaced(g.vals(0, 5))
	case w < 60:
		return g.importLine("set")
	case w < 71:
		return g.importLine("clear")
	case w < 78:
		return "optimize"
	case w < 80:
		return fmt.Sprintf("ctrremove %d", g.keys[r.Intn(len(g.keys))])
	case w < 84:
		return "reload"
	case w < 98:
		return fmt.Sprintf("contains %d", g.val())
	case w < 102:
		return "probe " + spaced(g.vals(2, 5))
	case w < 106:
		return fmt.Sprintf("iter %d", g.val())
	case w < 113:
		return "look"
	case w < 118:
		return "keys"
	case w < 122:
		return "freeze"
	default:
		return "obs"
	}
}

func (p *prop) Gen(r *vh.Rng, tier string, n int) []vh.Case {
	var cases []vh.Case
	for k := 0; k < n; k++ {
		cr := r.Fork()
		g := &gen{r: cr}
		pool := []uint64{0, 0, 1, 1, 2, 3}
		if cr.Chance(1, 8) {
			pool = append(pool, maxKey)
		}
		nk := cr.Range(1, 3)
		for len(g.keys) < nk {
			g.keys = append(g.keys, pool[cr.Intn(len(pool))])
		}
		lines := []string{"kind " + cr.PickS("slice", "btree")}
		if cr.Chance(1, 50) {
			// threshold scenario: an array container right below ArrayMaxSize, then adds across
			// the array -> bitmap conversion, removes across the bitmap -> array one.
			key := g.keys[0]
			lines = append(lines, fmt.Sprintf("fill set %d 10 %d", key, 10+cr.Range(4093, 4095)))
			for i := 0; i < 6; i++ {
				v := key<<16 | uint64(cr.Range(4100, 4110))
				switch cr.Intn(5) {
				case 0:
					lines = append(lines, fmt.Sprintf("add %d", v))
				case 1:
					lines = append(lines, fmt.Sprintf("addn %d %d", v, v+1))
				case 2:
					lines = append(lines, fmt.Sprintf("remove %d", key<<16|uint64(cr.Range(10, 20))))
				case 3:
					lines = append(lines, fmt.Sprintf("contains %d", v))
				case 4:
					lines = append(lines, fmt.Sprintf("fill %s %d %d %d", cr.PickS("set", "clear"), key, cr.Range(0, 30), cr.Range(30, 5000)))
				}
				if cr.Chance(1, 3) {
					lines = append(lines, cr.PickS("look", "optimize", "reload", "keys"))
				}
			}
			vh.Count("scenario:threshold")
		} else if cr.Chance(1, 40) {
			lines = append(lines, g.nearFull()...)
			vh.Count("scenario:nearfull")
		}
		nl := cr.Range(6, 40)
		if tier == "thorough" && cr.Chance(1, 10) {
			nl = cr.Range(40, 120)
		}
		for i := 0; i < nl; i++ {
			lines = append(lines, g.line())
		}
		cases = append(cases, vh.Case{Lines: lines, Nontrivial: nontrivial(lines)})
	}
	return cases
}

// ---------- execution ----------

func showC(xs []uint64) string {
	if len(xs) <= 48 {
		return vh.U64s(xs)
	}
	var sum uint64
	for _, x := range xs {
		sum += x % 1000003
	}
	return fmt.Sprintf("<n=%d,sum=%d,lo=%d,hi=%d>", len(xs), sum, xs[0], xs[len(xs)-1])
}

func showBool(b bool) string {
	if b {
		return "true"
	}
	return "false"
}

func obs(b *roaring.Bitmap) string {
	var views []string
	it, _ := b.Containers.Iterator(0)
	for it.Next() {
		k, c := it.Value()
		raw := roaring.VerifC02ContainerValues(c)
		if len(raw) == 0 && c.N() == 0 {
			continue
		}
		vs := make([]uint64, len(raw))
		for i, x := range raw {
			vs[i] = uint64(x)
		}
		views = append(views, fmt.Sprintf("%d:%d:%s", k, c.N(), showC(vs)))
	}
	return fmt.Sprintf("count=%d any=%s slice=%s views=%s", b.Count(), showBool(b.Any()), showC(b.Slice()), strings.Join(views, ";"))
}

func parseVals(ws []string) ([]uint64, bool) {
	out := make([]uint64, len(ws))
	for i, w := range ws {
		v, err := strconv.ParseUint(w, 10, 64)
		if err != nil {
			return nil, false
		}
		out[i] = v
	}
	return out, true
}

// payload encodes vals as a roaring file with the code under test's own writer and checks that
// it decodes to exactly the listed values (so the line says what the payload holds).
func payload(vals []uint64) ([]byte, bool) {
	pb := roaring.NewBTreeBitmap()
	for _, v := range vals {
		pb.DirectAdd(v)
	}
	var buf bytes.Buffer
	if _, err := pb.WriteTo(&buf); err != nil {
		return nil, false
	}
	chk := roaring.NewBTreeBitmap()
	if err := chk.UnmarshalBinary(buf.Bytes()); err != nil {
		return nil, false
	}
	want := vh.SortedU64(vals)
	j := 0
	for i, v := range want {
		if i == 0 || v != want[i-1] {
			want[j] = v
			j++
		}
	}
	want = want[:j]
	got := chk.Slice()
	if len(got) != len(want) {
		return nil, false
	}
	for i := range got {
		if got[i] != want[i] {
			return nil, false
		}
	}
	return buf.Bytes(), true
}

// officialPayload encodes vals (keys < 65536) with the reference encoder of the official format
// and checks with the real decoder that it holds exactly vals.
func officialPayload(mode int, vals []uint64) ([]byte, bool) {
	want := sortedSet(vals)
	var es []codec.Entry
	for _, v := range want {
		k := v >> 16
		if k >= 65536 {
			return nil, false
		}
		if len(es) == 0 || es[len(es)-1].Key != k {
			es = append(es, codec.Entry{Key: k, Typ: 'a'})
		}
		es[len(es)-1].Vals = append(es[len(es)-1].Vals, uint16(v))
	}
	data := codec.OfficialEncode(mode, es)
	chk := roaring.NewBTreeBitmap()
	if err := chk.UnmarshalBinary(append([]byte(nil), data...)); err != nil {
		return nil, false
	}
	if vh.U64s(chk.Slice()) != vh.U64s(want) {
		return nil, false
	}
	return data, true
}

func sortedSet(vals []uint64) []uint64 {
	want := vh.SortedU64(vals)
	j := 0
	for i, v := range want {
		if i == 0 || v != want[i-1] {
			want[j] = v
			j++
		}
	}
	return want[:j]
}

// payloadKinds names the container encodings a payload holds (by decoding it), e.g. "pilosa:run".
func payloadKinds(data []byte) string {
	chk := roaring.NewBTreeBitmap()
	if err := chk.UnmarshalBinary(append([]byte(nil), data...)); err != nil {
		return "undecodable"
	}
	kinds := map[string]bool{}
	for _, ci := range chk.Info().Containers {
		kinds[ci.Type] = true
	}
	var ks []string
	for _, k := range []string{"array", "bitmap", "run"} {
		if kinds[k] {
			ks = append(ks, k)
		}
	}
	f := "official"
	if len(data) >= 2 && data[0] == 0x3c && data[1] == 0x30 {
		f = "pilosa"
	}
	return f + ":" + strings.Join(ks, "+")
}

type state struct {
	b    *roaring.Bitmap
	kind string
	keep [][]byte // buffers that mapped containers may point into
}

func (s *state) exec(l string) string {
	ws := strings.Fields(l)
	if len(ws) == 0 {
		return "bad-op"
	}
	if ws[0] == "kind" && len(ws) == 2 {
		switch ws[1] {
		case "btree":
			s.b, s.kind = roaring.NewBTreeBitmap(), "btree"
		case "slice":
			s.b, s.kind = roaring.NewBitmap(), "slice"
		default:
			return "bad-op"
		}
		return "ok"
	}
	if s.b == nil {
		return "bad-op:no-kind"
	}
	b := s.b
	switch ws[0] {
	case "add", "remove", "addn", "daddn", "removen", "dremoven", "probe":
		vals, ok := parseVals(ws[1:])
		if !ok {
			return "bad-op"
		}
		switch ws[0] {
		case "add":
			ch, err := b.Add(vals...)
			if err != nil {
				return "err:add"
			}
			return "b=" + showBool(ch) + " | " + obs(b)
		case "remove":
			ch, err := b.Remove(vals...)
			if err != nil {
				return "err:remove"
			}
			return "b=" + showBool(ch) + " | " + obs(b)
		case "addn":
			n, err := b.AddN(vals...)
			if err != nil {
				return "err:addn"
			}
			return fmt.Sprintf("n=%d a=%s | %s", n, showC(vals), obs(b))
		case "daddn":
			n := b.DirectAddN(vals...)
			return fmt.Sprintf("n=%d a=%s | %s", n, showC(vals), obs(b))
		case "removen":
			n, err := b.RemoveN(vals...)
			if err != nil {
				return "err:removen"
			}
			return fmt.Sprintf("n=%d a=%s | %s", n, showC(vals), obs(b))
		case "dremoven":
			n := b.DirectRemoveN(vals...)
			return fmt.Sprintf("n=%d a=%s | %s", n, showC(vals), obs(b))
		case "probe":
			var sb strings.Builder
			for _, v := range vals {
				if b.Contains(v) {
					sb.WriteByte('1')
				} else {
					sb.WriteByte('0')
				}
			}
			return sb.String()
		}
	case "dadd":
		if len(ws) != 2 {
			return "bad-op"
		}
		vals, ok := parseVals(ws[1:])
		if !ok {
			return "bad-op"
		}
		return "b=" + showBool(b.DirectAdd(vals[0])) + " | " + obs(b)
	case "import", "importo", "fill", "fillstep":
		var vals []uint64
		var clear bool
		official := -1
		if ws[0] == "import" || ws[0] == "importo" {
			if ws[0] == "importo" {
				// official roaring format; trailing token = run mode of the reference encoder
				if len(ws) != 4 {
					return "bad-op"
				}
				m, err := strconv.Atoi(ws[3])
				if err != nil || m < 0 || m > 2 {
					return "bad-op"
				}
				official = m
				ws = ws[:3]
			}
			if len(ws) != 3 || (ws[1] != "set" && ws[1] != "clear") {
				return "bad-op"
			}
			for _, x := range strings.Split(ws[2], ",") {
				v, err := strconv.ParseUint(x, 10, 64)
				if err != nil {
					return "bad-op"
				}
				vals = append(vals, v)
			}
			clear = ws[1] == "clear"
		} else {
			want := 5
			if ws[0] == "fillstep" {
				want = 6
			}
			if len(ws) != want || (ws[1] != "set" && ws[1] != "clear") {
				return "bad-op"
			}
			a, ok := parseVals(ws[2:])
			if !ok {
				return "bad-op"
			}
			step := uint64(1)
			if ws[0] == "fillstep" {
				step = a[3]
				if step == 0 || a[1] > a[2] {
					return "bad-op"
				}
			}
			for x := a[1]; x <= a[2] && x < 65536; x += step {
				vals = append(vals, a[0]<<16|x)
			}
			clear = ws[1] == "clear"
			if len(vals) == 0 {
				// an empty payload holds no container: nothing is updated
				return "n=0 | " + obs(b)
			}
		}
		var data []byte
		ok := false
		if official >= 0 {
			data, ok = officialPayload(official, vals)
		} else {
			data, ok = payload(vals)
		}
		if !ok {
			return "err:payload"
		}
		vh.Count("payload:" + payloadKinds(data))
		orig := append([]byte(nil), data...)
		s.keep = append(s.keep, data)
		n, _, err := b.ImportRoaringBits(data, clear, false, 0)
		if err != nil {
			return "err:import"
		}
		if !bytes.Equal(orig, data) {
			return "err:payload-buffer-modified"
		}
		return fmt.Sprintf("n=%d | %s", n, obs(b))
	case "optimize":
		b.Optimize()
		return "| " + obs(b)
	case "ctrremove":
		if len(ws) != 2 {
			return "bad-op"
		}
		k, err := strconv.ParseUint(ws[1], 10, 64)
		if err != nil {
			return "bad-op"
		}
		b.Containers.Remove(k)
		return "| " + obs(b)
	case "reload":
		var buf bytes.Buffer
		if _, err := b.WriteTo(&buf); err != nil {
			return "err:writeto"
		}
		data := buf.Bytes()
		s.keep = append(s.keep, data)
		if err := b.UnmarshalBinary(data); err != nil {
			return "err:unmarshal"
		}
		return "| " + obs(b)
	case "freeze":
		_ = b.Freeze()
		return "| " + obs(b)
	case "obs":
		return "| " + obs(b)
	case "contains":
		if len(ws) != 2 {
			return "bad-op"
		}
		v, err := strconv.ParseUint(ws[1], 10, 64)
		if err != nil {
			return "bad-op"
		}
		return showBool(b.Contains(v))
	case "iter":
		if len(ws) != 2 {
			return "bad-op"
		}
		k, err := strconv.ParseUint(ws[1], 10, 64)
		if err != nil {
			return "bad-op"
		}
		itr := b.Iterator()
		itr.Seek(k)
		var out []uint64
		for v, eof := itr.Next(); !eof; v, eof = itr.Next() {
			out = append(out, v)
			if len(out) > 1<<20 {
				return "err:iterator-runaway"
			}
		}
		return showC(out)
	case "look":
		// the Coherent invariant observed on the real collection
		_, lk, has, stored := roaring.VerifC02Lookaside(b)
		keyS := "key"
		if lk == ^uint64(0) {
			keyS = "inv"
		}
		setS := "nil"
		if has {
			setS = "set"
		}
		coh := "stale"
		if (s.kind == "btree" && stored) || (s.kind == "slice" && (!has || stored)) {
			coh = "ok"
		}
		vh.Count("look:" + s.kind + ":" + keyS + ":" + setS + ":" + coh)
		return coh
	case "keys":
		// keys of the non-empty containers as the container iterator yields them; the walk itself
		// is checked: ascending keys, and Size() covers every container yielded.
		var keys []uint64
		var last uint64
		n := 0
		it, _ := b.Containers.Iterator(0)
		for it.Next() {
			k, c := it.Value()
			if n > 0 && k <= last {
				return "err:keys-unsorted"
			}
			last = k
			n++
			if c.N() > 0 {
				keys = append(keys, k)
			} else {
				vh.Count("empty-container-seen")
			}
		}
		if b.Containers.Size() < n {
			return "err:size-smaller-than-iterated"
		}
		return "keys=" + vh.U64s(keys)
	}
	return "bad-op"
}

func (p *prop) Exec(lines []string) []string {
	s := &state{}
	outs := make([]string, len(lines))
	for i, l := range lines {
		l := l
		outs[i] = vh.Guard(strings.Fields(l + " ?")[0], func() string { return s.exec(l) })
	}
	return outs
}

func main() { vh.Main(&prop{}) }
