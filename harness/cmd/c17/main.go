// Harness for C17: reducers and map-reduce arrival order / grouping.
//
// Line formats are documented in lean/PV/C17/Main.lean. Three kinds of line:
//
//   - plain (`vc add <groups>`, `rowids 3 <groups>`, `rows <groups>` …): folds the REAL reduce
//     functions over the given groups exactly as mapperLocal / mapReduce do (each group from nil,
//     then the group results from nil, in the listed arrival order);
//   - `e2e <op> … <one group>`: builds a dataset whose per-shard results are the listed ones on an
//     in-process server with a one-worker pool (arrival order = order of QueryRequest.Shards), runs
//     the real query with the shards in the listed arrival order and prints the query result;
//   - `cl <nodes> <replicas> <op> … <one group>`: the same dataset on a real in-process multi-node
//     cluster (gossip-joined server.Commands, shards placed by the cluster's own hashing, remote
//     nodes reached through the real HTTP internal client); the query is run through EVERY node as
//     coordinator; the answers must all be equal (else `disagree:a/b/c` is printed) and equal the
//     model's;
//   - `clf <nodes> <replicas> <failing node> <op> … <one group>`: as `cl`, with replicas >= 2 and
//     one non-coordinator node that stays in the ring but whose remote queries all fail (hook
//     VerifC17FailRemoteQueries on every coordinator's executor client): mapReduce's failover path
//     regroups the failed node's shards onto the other replicas; the query is run through every
//     other node as coordinator. The model answer is computed by the failover transition system.
package main

import (
	"context"
	"crypto/sha1"
	"fmt"
	"os"
	"sort"
	"strconv"
	"strings"
	"time"

	"github.com/pilosa/pilosa"
	"verifharness/vh"
	"verifharness/vh/srv"
	"verifharness/vh/srv2"
)

type prop struct {
	s   *srv.Server
	cl  *srv2.Cluster
	clN int
	clR int
	try int
}

func (p *prop) Rule() string {
	return "groups of per-shard partial results (values and ids drawn from tiny ranges so ties and shared extremes are frequent; " +
		"empty shards included) folded in the listed arrival order; a case is non-trivial when it has >= 2 partial results; " +
		"e2e lines run the real executor (one worker, chosen arrival order) on a dataset realising the partial results; " +
		"cl lines run it on a real 2-3 node in-process cluster through every node as coordinator (TopN(n) lines: 5-8 shards, per-shard and total counts without ties); " +
		"clf lines do so while one node answers every remote query with an error (map-reduce failover)"
}

func splitNE(s, sep string) []string {
	if s == "" || s == "-" {
		return nil
	}
	return strings.Split(s, sep)
}

// ---------- generation ----------

func genVC(r *vh.Rng) string {
	c := r.Pick(0, 1, 1, 2, 3)
	if c == 0 {
		return "0:0"
	}
	return fmt.Sprintf("%d:%d", r.Range(-2, 2), c)
}

func genPair(r *vh.Rng) string {
	c := r.Pick(0, 1, 2, 3)
	if c == 0 {
		return "0:0"
	}
	return fmt.Sprintf("%d:%d", r.Range(0, 3), c)
}

func genSortedSet(r *vh.Rng, max, pnum int) []uint64 {
	var out []uint64
	for v := 0; v <= max; v++ {
		if r.Chance(pnum, 10) {
			out = append(out, uint64(v))
		}
	}
	return out
}

func csvOrEmpty(xs []uint64) string {
	ss := make([]string, len(xs))
	for i, x := range xs {
		ss[i] = strconv.FormatUint(x, 10)
	}
	return strings.Join(ss, ",")
}

// genRow: a row with 0..3 segments over shards 0..3 (ascending), columns from 0..5, empty
// segments allowed (fragments return a segment even for an empty row).
func genRow(r *vh.Rng) string {
	var segs []string
	for sh := 0; sh < 4; sh++ {
		if r.Chance(4, 10) {
			segs = append(segs, fmt.Sprintf("%d:%s", sh, csvOrEmpty(genSortedSet(r, 5, r.Pick(0, 3, 5)))))
		}
	}
	if len(segs) == 0 {
		return "_"
	}
	return strings.Join(segs, "+")
}

// bigSingle: executor lines over more shards (failover lines: the failing node should own some).
var bigSingle bool

// genTopnShards: the full row counts of nShards shards over row ids 1..5. Inside a shard all counts
// differ and over all shards all totals differ, so neither a per-shard top list nor the final
// answer has a tie at its cut (the order and the selection among equal counts are unspecified).
func genTopnShards(r *vh.Rng, nShards int) string {
	for {
		total := map[int]int{}
		var items []string
		for sh := 0; sh < nShards; sh++ {
			perm := r.Perm(5)
			var ps []string
			for id := 1; id <= 5; id++ {
				if r.Chance(7, 10) {
					c := perm[id-1] + 1
					ps = append(ps, fmt.Sprintf("%d:%d", id, c))
					total[id] += c
				}
			}
			if len(ps) == 0 {
				items = append(items, "-")
			} else {
				items = append(items, strings.Join(ps, ","))
			}
		}
		seen := map[int]bool{}
		ok := true
		for _, t := range total {
			if seen[t] {
				ok = false
			}
			seen[t] = true
		}
		if ok {
			return strings.Join(items, ";")
		}
	}
}

func genGroups(r *vh.Rng, single bool, item func(*vh.Rng, int) string) (string, int) {
	ng := r.Range(1, 3)
	if single {
		ng = 1
	}
	var gs []string
	total := 0
	for g := 0; g < ng; g++ {
		n := r.Range(0, 4)
		if single {
			n = r.Range(1, 4)
			if bigSingle {
				n = r.Range(3, 8)
			}
		}
		var items []string
		for i := 0; i < n; i++ {
			// the second argument is the shard an e2e/cl line will use for this item
			items = append(items, item(r, n-1-i))
		}
		total += n
		if n == 0 {
			gs = append(gs, "-")
		} else {
			gs = append(gs, strings.Join(items, ";"))
		}
	}
	return strings.Join(gs, "|"), total
}

func (p *prop) Gen(r *vh.Rng, tier string, n int) []vh.Case {
	var cases []vh.Case
	// one cluster shape per stream, so a stream starts at most one cluster
	clN := r.Pick(2, 3, 3)
	clR := r.Pick(1, 1, 2)
	for k := 0; k < n; k++ {
		cr := r.Fork()
		// Lines that run the real executor cost ~0.1-0.2 s each (index + fragments on disk), a
		// reducer-level line costs microseconds: the quick tier keeps the former to a few dozen per
		// stream and cluster lines to a handful; the thorough tier runs many more of both.
		e2eDen, clDen, clfDen := 12, 60, 60
		if tier == "thorough" {
			e2eDen, clDen, clfDen = 12, 40, 40
		}
		mode := ""
		switch {
		case cr.Chance(1, e2eDen):
			mode = "e2e"
		case cr.Chance(1, clDen):
			mode = "cl"
		case clR >= 2 && cr.Chance(1, clfDen):
			// failover lines only in streams whose cluster has replicas (no second cluster shape)
			mode = "clf"
		}
		real := mode != ""
		bigSingle = mode == "clf"
		var line string
		var total int
		// the MinRow/MaxRow and bool reducers are closures inside the executor, so `pair` and `bool`
		// lines always run the real executor: they are only generated in the executor modes
		op := cr.Pick(0, 0, 0, 2, 2, 3, 3, 3, 3, 4, 4, 4, 4, 5, 5, 5, 6, 6, 6, 6, 6)
		if real {
			op = cr.Pick(0, 0, 1, 1, 1, 2, 3, 3, 4, 4, 5, 5, 6, 6, 6, 7, 8, 8)
			if mode == "cl" && cr.Chance(1, 3) {
				op = 8 // TopN(n) needs a cluster to show a dependence on the grouping
			}
		}
		switch op {
		case 0:
			var g string
			g, total = genGroups(cr, real, func(r *vh.Rng, _ int) string { return genVC(r) })
			line = "vc " + cr.PickS("add", "smaller", "larger") + " " + g
		case 1:
			var g string
			g, total = genGroups(cr, real, func(r *vh.Rng, _ int) string { return genPair(r) })
			line = "pair " + cr.PickS("minrow", "maxrow") + " " + g
		case 2:
			var g string
			g, total = genGroups(cr, real, func(r *vh.Rng, _ int) string { return strconv.Itoa(r.Range(0, 3)) })
			line = "count " + g
		case 3:
			lim := cr.Range(1, 6)
			var g string
			g, total = genGroups(cr, real, func(r *vh.Rng, _ int) string { return vh.CSV(genSortedSet(r, 7, 4)) })
			line = fmt.Sprintf("rowids %d %s", lim, g)
		case 4:
			lim := cr.Range(1, 6)
			var g string
			g, total = genGroups(cr, real, func(r *vh.Rng, _ int) string {
				var gcs []string
				for a := 0; a < 3; a++ {
					for b := 0; b < 3; b++ {
						// reducer level: every shard result is the first `lim` groups of the shard
						// (a prefix of its full list); e2e/cl: the FULL list — the executor truncates
						if r.Chance(3, 10) && (real || len(gcs) < lim) {
							gcs = append(gcs, fmt.Sprintf("%d.%d:%d", a, b, r.Range(1, 3)))
						}
					}
				}
				if len(gcs) == 0 {
					return "-"
				}
				return strings.Join(gcs, ",")
			})
			line = fmt.Sprintf("groupcounts %d %s", lim, g)
		case 5:
			var g string
			g, total = genGroups(cr, real, func(r *vh.Rng, _ int) string {
				var ps []string
				for id := 0; id < 4; id++ {
					if r.Chance(5, 10) {
						ps = append(ps, fmt.Sprintf("%d:%d", id, r.Range(1, 3)))
					}
				}
				if len(ps) == 0 {
					return "-"
				}
				return strings.Join(ps, ",")
			})
			line = "pairs " + g
		case 6:
			var g string
			if real {
				// one single-segment row per shard, the shard being the one the dataset uses
				g, total = genGroups(cr, true, func(r *vh.Rng, shard int) string {
					return fmt.Sprintf("%d:%s", shard, csvOrEmpty(genSortedSet(r, 5, r.Pick(0, 3, 5))))
				})
				line = cr.PickS("rows", "rowsu") + " " + g
			} else {
				g, total = genGroups(cr, false, func(r *vh.Rng, _ int) string { return genRow(r) })
				line = "rows " + g
			}
		case 8:
			nsh := cr.Range(2, 4)
			if mode == "cl" || mode == "clf" {
				nsh = cr.Range(5, 8) // more shards than nodes: a node owns several
			}
			total = nsh
			line = fmt.Sprintf("topn %d %s", cr.Range(1, 3), genTopnShards(cr, nsh))
		case 7:
			if mode == "cl" || mode == "clf" {
				mode = "e2e" // ClearRow is a write: one coordinator only
			}
			var g string
			g, total = genGroups(cr, real, func(r *vh.Rng, _ int) string { return r.PickS("t", "f", "f") })
			line = "bool " + g
		}
		switch mode {
		case "e2e":
			if (op != 1 && op != 7) || cr.Bool() { // `pair`/`bool` lines run the executor with or without the prefix
				line = "e2e " + line
			}
		case "cl":
			line = fmt.Sprintf("cl %d %d %s", clN, clR, line)
		case "clf":
			line = fmt.Sprintf("clf %d %d %d %s", clN, clR, cr.Range(1, clN-1), line)
		}
		cases = append(cases, vh.Case{Lines: []string{line}, Nontrivial: total >= 2})
	}
	return cases
}

// ---------- execution ----------

func parseVC(s string) pilosa.ValCount {
	p := strings.Split(s, ":")
	v, _ := strconv.ParseInt(p[0], 10, 64)
	c, _ := strconv.ParseInt(p[1], 10, 64)
	return pilosa.ValCount{Val: v, Count: c}
}

func parsePair(s string) pilosa.Pair {
	p := strings.Split(s, ":")
	v, _ := strconv.ParseUint(p[0], 10, 64)
	c, _ := strconv.ParseUint(p[1], 10, 64)
	return pilosa.Pair{ID: v, Count: c}
}

func parseGCs(s string) []pilosa.GroupCount {
	var out []pilosa.GroupCount
	for _, g := range splitNE(s, ",") {
		p := strings.Split(g, ":")
		c, _ := strconv.ParseUint(p[1], 10, 64)
		var frs []pilosa.FieldRow
		for i, rs := range strings.Split(p[0], ".") {
			rid, _ := strconv.ParseUint(rs, 10, 64)
			frs = append(frs, pilosa.FieldRow{Field: fmt.Sprintf("f%d", i), RowID: rid})
		}
		out = append(out, pilosa.GroupCount{Group: frs, Count: c})
	}
	return out
}

const sw = pilosa.ShardWidth

// parseRowSegs parses `_` or `shard:c,c+shard:c` into shards and ABSOLUTE column ids.
func parseRowSegs(s string) (shards []uint64, cols [][]uint64) {
	if s == "_" {
		return nil, nil
	}
	for _, seg := range strings.Split(s, "+") {
		p := strings.SplitN(seg, ":", 2)
		sh, err := strconv.ParseUint(p[0], 10, 64)
		if err != nil || len(p) != 2 {
			panic("bad segment " + seg)
		}
		var cs []uint64
		for _, c := range vh.ParseCSV(p[1]) {
			cs = append(cs, sh*sw+c)
		}
		shards = append(shards, sh)
		cols = append(cols, cs)
	}
	return shards, cols
}

func showVC(v pilosa.ValCount) string { return fmt.Sprintf("%d:%d", v.Val, v.Count) }
func showPair(p pilosa.Pair) string   { return fmt.Sprintf("%d:%d", p.ID, p.Count) }
func showPairs(ps []pilosa.Pair) string {
	ps = append([]pilosa.Pair(nil), ps...)
	sort.Slice(ps, func(i, j int) bool { return ps[i].ID < ps[j].ID })
	ss := make([]string, len(ps))
	for i, p := range ps {
		ss[i] = showPair(p)
	}
	return strings.Join(ss, " ")
}
// showPairsRanked prints a TopN(n) answer in count order (ties by ascending id, like the model).
func showPairsRanked(ps []pilosa.Pair) string {
	ps = append([]pilosa.Pair(nil), ps...)
	sort.SliceStable(ps, func(i, j int) bool {
		if ps[i].Count != ps[j].Count {
			return ps[i].Count > ps[j].Count
		}
		return ps[i].ID < ps[j].ID
	})
	ss := make([]string, len(ps))
	for i, p := range ps {
		ss[i] = showPair(p)
	}
	return strings.Join(ss, " ")
}

func showGCs(gs []pilosa.GroupCount) string {
	ss := make([]string, len(gs))
	for i, g := range gs {
		rs := make([]string, len(g.Group))
		for j, fr := range g.Group {
			rs[j] = strconv.FormatUint(fr.RowID, 10)
		}
		ss[i] = strings.Join(rs, ".") + ":" + strconv.FormatUint(g.Count, 10)
	}
	return strings.Join(ss, " ")
}

// showRow prints the segments of a row exactly as they are (order, duplicates, empties).
// With colsOnly, empty segments are skipped: a segment without bits is kept by a local reduce
// and dropped by the protobuf transport of a remote node's result; it is not part of any API
// encoding of a row (Columns()).
func showRow(r *pilosa.Row, colsOnly bool) string {
	if r == nil {
		return "nil-row"
	}
	shards, cols := pilosa.VerifC17RowSegments(r)
	if colsOnly {
		var s2 []uint64
		var c2 [][]uint64
		for i := range shards {
			if len(cols[i]) > 0 {
				s2, c2 = append(s2, shards[i]), append(c2, cols[i])
			} else {
				vh.Count("empty-segment-in-result")
			}
		}
		shards, cols = s2, c2
	}
	if len(shards) == 0 {
		return "_"
	}
	ss := make([]string, len(shards))
	for i, sh := range shards {
		cs := make([]string, len(cols[i]))
		for j, c := range cols[i] {
			if c/sw != sh {
				cs[j] = fmt.Sprintf("foreign%d", c)
			} else {
				cs[j] = strconv.FormatUint(c%sw, 10)
			}
		}
		ss[i] = fmt.Sprintf("%d:%s", sh, strings.Join(cs, ","))
	}
	return strings.Join(ss, "+")
}

func fold[T any](groups [][]T, zero T, f func(a, b T) T) T {
	res := zero
	for _, g := range groups {
		gr := zero
		for _, x := range g {
			gr = f(gr, x)
		}
		res = f(res, gr)
	}
	return res
}

func parseGroups[T any](s string, item func(string) T) [][]T {
	var out [][]T
	for _, g := range splitNE(s, "|") {
		var xs []T
		for _, it := range splitNE(g, ";") {
			xs = append(xs, item(it))
		}
		out = append(out, xs)
	}
	return out
}

func (p *prop) Exec(lines []string) []string {
	outs := make([]string, len(lines))
	for i, l := range lines {
		l := l
		outs[i] = vh.Guard("exec", func() string { return p.execLine(l) })
	}
	return outs
}

func flattenGroups(gspec string) []string {
	var flat []string
	for _, g := range parseGroups(gspec, func(s string) string { return s }) {
		flat = append(flat, g...)
	}
	return flat
}

func (p *prop) single() backend {
	if p.s == nil {
		p.s = srv.Start(1)
	}
	return singleBE{p.s}
}

func (p *prop) cluster(n, r int) (backend, error) {
	if p.cl != nil && (p.clN != n || p.clR != r) {
		p.cl.Stop()
		p.cl = nil
	}
	if p.cl == nil {
		c, err := srv2.Start(n, r, 2)
		if err != nil {
			return nil, err
		}
		p.cl, p.clN, p.clR = c, n, r
		vh.Count(fmt.Sprintf("cluster-start-%dx%d", n, r))
	}
	if !p.cl.WaitNormal(30 * time.Second) {
		// a node was declared dead (overloaded machine): start afresh
		vh.Count("cluster-restart")
		p.cl.Stop()
		p.cl = nil
		return p.cluster(n, r)
	}
	return clusterBE{c: p.cl}, nil
}

func (p *prop) execLine(l string) string {
	ws := strings.Fields(l)
	if len(ws) == 0 {
		return "bad-op"
	}
	if ws[0] == "e2e" {
		if len(ws) > 1 && (ws[1] == "e2e" || ws[1] == "cl" || ws[1] == "clf") {
			return "bad-op"
		}
		return p.execE2E(ws[1:], p.single())
	}
	if ws[0] == "cl" {
		if len(ws) < 4 || ws[3] == "e2e" || ws[3] == "cl" || ws[3] == "clf" {
			return "bad-op"
		}
		n, err1 := strconv.Atoi(ws[1])
		r, err2 := strconv.Atoi(ws[2])
		if err1 != nil || err2 != nil || n < 1 || n > 5 || r < 1 || r > n {
			return "bad-op"
		}
		be, err := p.cluster(n, r)
		if err != nil {
			return "err:cluster-start"
		}
		return p.execE2E(ws[3:], be)
	}
	if ws[0] == "clf" {
		if len(ws) < 5 || ws[4] == "e2e" || ws[4] == "cl" || ws[4] == "clf" || ws[4] == "bool" {
			return "bad-op"
		}
		n, err1 := strconv.Atoi(ws[1])
		r, err2 := strconv.Atoi(ws[2])
		fl, err3 := strconv.Atoi(ws[3])
		if err1 != nil || err2 != nil || err3 != nil || n < 2 || n > 5 || r < 2 || r > n || fl < 1 || fl >= n {
			return "bad-op"
		}
		be, err := p.cluster(n, r)
		if err != nil {
			return "err:cluster-start"
		}
		cb := be.(clusterBE)
		cb.fail = fl
		return p.execE2E(ws[4:], cb)
	}
	switch {
	case ws[0] == "vc" && len(ws) == 3:
		op := ws[1]
		if op != "add" && op != "smaller" && op != "larger" {
			return "bad-op"
		}
		gs := parseGroups(ws[2], parseVC)
		return showVC(fold(gs, pilosa.ValCount{}, func(a, b pilosa.ValCount) pilosa.ValCount {
			return pilosa.VerifValCountReduce(op, a, b)
		}))
	case ws[0] == "pair" && len(ws) == 3:
		// reducer closures live inside the executor: run flattened through the executor.
		flat := flattenGroups(ws[2])
		if len(flat) == 0 {
			return "0:0"
		}
		return p.execE2E([]string{"pair", ws[1], strings.Join(flat, ";")}, p.single())
	case ws[0] == "topn" && len(ws) == 3:
		flat := flattenGroups(ws[2])
		if len(flat) == 0 {
			return ""
		}
		return p.execE2E([]string{"topn", ws[1], strings.Join(flat, ";")}, p.single())
	case ws[0] == "bool" && len(ws) == 2:
		flat := flattenGroups(ws[1])
		if len(flat) == 0 {
			return "nil"
		}
		return p.execE2E([]string{"bool", strings.Join(flat, ";")}, p.single())
	case ws[0] == "count" && len(ws) == 2:
		gs := parseGroups(ws[1], func(s string) uint64 { v, _ := strconv.ParseUint(s, 10, 64); return v })
		return strconv.FormatUint(fold(gs, 0, func(a, b uint64) uint64 { return a + b }), 10)
	case ws[0] == "rowids" && len(ws) == 3:
		lim, _ := strconv.Atoi(ws[1])
		gs := parseGroups(ws[2], func(s string) pilosa.RowIDs { return pilosa.RowIDs(vh.ParseCSV(s)) })
		res := fold(gs, pilosa.RowIDs(nil), func(a, b pilosa.RowIDs) pilosa.RowIDs {
			return pilosa.VerifRowIDsMerge(a, b, lim)
		})
		return vh.U64s(res)
	case ws[0] == "groupcounts" && len(ws) == 3:
		lim, _ := strconv.Atoi(ws[1])
		gs := parseGroups(ws[2], parseGCs)
		res := fold(gs, []pilosa.GroupCount(nil), func(a, b []pilosa.GroupCount) []pilosa.GroupCount {
			// mergeGroupCounts may modify its arguments: hand it copies like the executor's
			// freshly decoded shard results.
			a2 := append([]pilosa.GroupCount(nil), a...)
			b2 := append([]pilosa.GroupCount(nil), b...)
			return pilosa.VerifMergeGroupCounts(a2, b2, lim)
		})
		return showGCs(res)
	case ws[0] == "pairs" && len(ws) == 2:
		gs := parseGroups(ws[1], func(s string) []pilosa.Pair {
			var ps []pilosa.Pair
			for _, x := range splitNE(s, ",") {
				ps = append(ps, parsePair(x))
			}
			return ps
		})
		res := fold(gs, []pilosa.Pair(nil), func(a, b []pilosa.Pair) []pilosa.Pair {
			return pilosa.Pairs(a).Add(b)
		})
		return showPairs(res)
	case (ws[0] == "rows" || ws[0] == "rowsu") && len(ws) == 2:
		// the reduceFn of executeBitmapCall: prev == nil -> NewRow(); prev.Merge(v); return prev
		gs := parseGroups(ws[1], func(s string) *pilosa.Row {
			return pilosa.VerifC17NewRow(parseRowSegs(s))
		})
		res := fold(gs, (*pilosa.Row)(nil), func(a, b *pilosa.Row) *pilosa.Row {
			if a == nil {
				a = pilosa.NewRow()
			}
			if b == nil { // an empty group: the node result of no shards
				b = pilosa.NewRow()
			}
			a.Merge(b)
			return a
		})
		if res == nil {
			return "_"
		}
		return showRow(res, false)
	}
	return "bad-op"
}

// ---------- real executor: one node or a cluster ----------

type backend interface {
	API() *pilosa.API
	N() int
	// Coords lists the nodes a query is asked through.
	Coords() []int
	// Begin is called after the data is loaded and before the queries are asked; the returned
	// function is called after the last query.
	Begin() (end func())
	Query(i int, index, q string, shards []uint64) ([]interface{}, error)
	Recalc() error
}

type singleBE struct{ s *srv.Server }

func (b singleBE) API() *pilosa.API { return b.s.Command.API }
func (b singleBE) N() int           { return 1 }
func (b singleBE) Coords() []int    { return []int{0} }
func (b singleBE) Begin() func()    { return func() {} }
func (b singleBE) Query(_ int, index, q string, shards []uint64) ([]interface{}, error) {
	return b.s.Query(index, q, shards)
}
func (b singleBE) Recalc() error { return b.s.Command.API.RecalculateCaches(context.Background()) }

// clusterBE: fail > 0 makes every remote query to node `fail` fail while queries are asked.
type clusterBE struct {
	c    *srv2.Cluster
	fail int
}

func (b clusterBE) Coords() []int {
	var cs []int
	for i := range b.c.Nodes {
		if b.fail == 0 || i != b.fail {
			cs = append(cs, i)
		}
	}
	return cs
}

func (b clusterBE) Begin() func() {
	if b.fail == 0 {
		return func() {}
	}
	id := b.c.Nodes[b.fail].API.Node().ID
	var restores []func() int
	for _, i := range b.Coords() {
		restores = append(restores, pilosa.VerifC17FailRemoteQueries(b.c.Nodes[i].API, id))
	}
	return func() {
		failed := 0
		for _, r := range restores {
			failed += r()
		}
		if failed > 0 {
			vh.Count("clf-case-with-failed-remote-query")
		} else {
			vh.Count("clf-case-failing-node-not-asked")
		}
		for k := 0; k < failed; k++ {
			vh.Count("clf-failed-remote-queries")
		}
	}
}

func (b clusterBE) API() *pilosa.API { return b.c.Nodes[0].API }
func (b clusterBE) N() int           { return len(b.c.Nodes) }
func (b clusterBE) Query(i int, index, q string, shards []uint64) ([]interface{}, error) {
	return b.c.Query(i, index, q, shards)
}
func (b clusterBE) Recalc() error {
	for _, m := range b.c.Nodes {
		if err := m.API.RecalculateCaches(context.Background()); err != nil {
			return err
		}
	}
	return nil
}

// execE2E runs one executor line. On a cluster, a failing schema broadcast or data load (an
// infrastructure error of the in-process cluster on a loaded machine, before any query is
// asked) is retried on a fresh index; a query answer is never retried.
func (p *prop) execE2E(ws []string, be backend) string {
	p.try = 0
	out := p.execE2EOnce(ws, be)
	for try := 0; try < 3 && be.N() > 1 && (out == "err:create-index" || out == "err:create-field" || out == "err:load"); try++ {
		vh.Count("cluster-setup-retry")
		time.Sleep(200 * time.Millisecond)
		p.cl.WaitNormal(30 * time.Second)
		p.try++
		out = p.execE2EOnce(ws, be)
	}
	return out
}

type loadError struct{ err error }

func (p *prop) execE2EOnce(ws []string, be backend) (out string) {
	defer func() {
		if e := recover(); e != nil {
			le, ok := e.(loadError)
			if !ok {
				panic(e)
			}
			fmt.Fprintln(os.Stderr, "c17: load:", le.err)
			out = "err:load"
		}
	}()
	if len(ws) < 2 {
		return "bad-op"
	}
	gspec := ws[len(ws)-1]
	if strings.Contains(gspec, "|") {
		return "bad-op"
	}
	items := splitNE(gspec, ";")
	// The index name is a function of the line (not of its position in the stream), so the
	// cluster's shard placement — hashed from the index name — is the same when the line is
	// replayed on its own.
	h := sha1.Sum([]byte(strings.Join(ws, " ")))
	index := fmt.Sprintf("i%x", h[:6])
	if p.try > 0 {
		index += fmt.Sprintf("r%d", p.try)
	}
	ctx := context.Background()
	api := be.API()
	if _, err := api.CreateIndex(ctx, index, pilosa.IndexOptions{TrackExistence: true}); err != nil {
		fmt.Fprintln(os.Stderr, "c17: create index:", err)
		return "err:create-index"
	}
	defer api.DeleteIndex(ctx, index)
	n := len(items)
	// arrival j is shard n-1-j, so the arrival order is never the sorted order for n > 1.
	order := make([]uint64, n)
	for j := range order {
		order[j] = uint64(n - 1 - j)
	}
	var sets []string
	col := func(shard uint64, k int) uint64 { return shard*sw + uint64(k)*70000%sw }
	load := func() {
		if len(sets) > 0 {
			if _, err := be.Query(0, index, strings.Join(sets, "\n"), nil); err != nil {
				panic(loadError{err})
			}
		}
	}
	// ask runs the query through every coordinator; all answers must agree.
	ask := func(q string, shards []uint64, render func(res []interface{}) string) string {
		coords := be.Coords()
		outs := make([]string, len(coords))
		same := true
		end := be.Begin()
		defer end()
		for i, co := range coords {
			res, err := be.Query(co, index, q, shards)
			if err != nil {
				fmt.Fprintln(os.Stderr, "c17: query via node", co, ":", err)
				outs[i] = "err:query"
			} else {
				outs[i] = vh.Guard("render", func() string { return render(res) })
			}
			if outs[i] != outs[0] {
				same = false
			}
		}
		if be.N() > 1 {
			vh.Count("cluster-query")
		}
		if !same {
			return "disagree:" + strings.Join(outs, "/")
		}
		return outs[0]
	}
	mkField := func(name string, opts ...pilosa.FieldOption) bool {
		_, err := api.CreateField(ctx, index, name, opts...)
		if err != nil {
			fmt.Fprintln(os.Stderr, "c17: create field:", err)
		}
		return err == nil
	}
	switch ws[0] {
	case "vc":
		if len(ws) != 3 {
			return "bad-op"
		}
		if !mkField("v", pilosa.OptFieldTypeInt(-1000, 1000)) {
			return "err:create-field"
		}
		for j, it := range items {
			vc := parseVC(it)
			sh := order[j]
			for k := 0; k < int(vc.Count); k++ {
				val := vc.Val
				switch ws[1] {
				case "add":
					if k > 0 {
						val = 0
					}
				}
				sets = append(sets, fmt.Sprintf("Set(%d, v=%d)", col(sh, k), val))
			}
			if vc.Count > 0 && ws[1] != "add" {
				noise := vc.Val + 5
				if ws[1] == "larger" {
					noise = vc.Val - 5
				}
				sets = append(sets, fmt.Sprintf("Set(%d, v=%d)", col(sh, 9), noise))
			}
		}
		load()
		q := map[string]string{"add": "Sum(field=v)", "smaller": "Min(field=v)", "larger": "Max(field=v)"}[ws[1]]
		if q == "" {
			return "bad-op"
		}
		return ask(q, order, func(res []interface{}) string { return showVC(res[0].(pilosa.ValCount)) })
	case "pair":
		if len(ws) != 3 {
			return "bad-op"
		}
		if !mkField("f", pilosa.OptFieldTypeSet("ranked", 100)) || !mkField("g", pilosa.OptFieldTypeSet("ranked", 100)) {
			return "err:create-field"
		}
		for j, it := range items {
			pr := parsePair(it)
			sh := order[j]
			for k := 0; k < int(pr.Count); k++ {
				sets = append(sets, fmt.Sprintf("Set(%d, f=%d)", col(sh, k), pr.ID+1))
				sets = append(sets, fmt.Sprintf("Set(%d, g=0)", col(sh, k)))
			}
			if pr.Count > 0 {
				// noise rows on the far side of the extreme, inside the filter
				noise := pr.ID + 1 + 3
				if ws[1] == "maxrow" {
					noise = 0
				}
				sets = append(sets, fmt.Sprintf("Set(%d, f=%d)", col(sh, 9), noise))
				sets = append(sets, fmt.Sprintf("Set(%d, g=0)", col(sh, 9)))
				// and a row beyond the extreme outside the filter
				out := uint64(0)
				if ws[1] == "maxrow" {
					out = 20
				}
				sets = append(sets, fmt.Sprintf("Set(%d, f=%d)", col(sh, 11), out))
			}
		}
		load()
		q := map[string]string{"minrow": "MinRow(Row(g=0), field=f)", "maxrow": "MaxRow(Row(g=0), field=f)"}[ws[1]]
		if q == "" {
			return "bad-op"
		}
		return ask(q, order, func(res []interface{}) string {
			pr, _ := res[0].(pilosa.Pair)
			if pr.Count > 0 {
				// rows are stored shifted by one (row 0 is a noise row)
				if pr.ID == 0 {
					return "err:noise-row-returned"
				}
				pr.ID--
			}
			return showPair(pr)
		})
	case "count":
		if !mkField("f", pilosa.OptFieldTypeSet("ranked", 100)) {
			return "err:create-field"
		}
		for j, it := range items {
			c, _ := strconv.Atoi(it)
			for k := 0; k < c; k++ {
				sets = append(sets, fmt.Sprintf("Set(%d, f=1)", col(order[j], k)))
			}
			sets = append(sets, fmt.Sprintf("Set(%d, f=2)", col(order[j], 9)))
		}
		load()
		return ask("Count(Row(f=1))", order, func(res []interface{}) string {
			return strconv.FormatUint(res[0].(uint64), 10)
		})
	case "bool":
		if !mkField("f", pilosa.OptFieldTypeSet("ranked", 100)) {
			return "err:create-field"
		}
		for j, it := range items {
			if it == "t" {
				sets = append(sets, fmt.Sprintf("Set(%d, f=1)", col(order[j], 1)))
			} else if it != "f" {
				return "bad-op"
			}
			sets = append(sets, fmt.Sprintf("Set(%d, f=2)", col(order[j], 9)))
		}
		load()
		// a write: one coordinator only
		res, err := be.Query(0, index, "ClearRow(f=1)", order)
		if err != nil {
			return "err:query"
		}
		if res[0].(bool) {
			return "t"
		}
		return "f"
	case "rowids":
		if len(ws) != 3 {
			return "bad-op"
		}
		if !mkField("f", pilosa.OptFieldTypeSet("ranked", 100)) {
			return "err:create-field"
		}
		for j, it := range items {
			for k, row := range vh.ParseCSV(it) {
				sets = append(sets, fmt.Sprintf("Set(%d, f=%d)", col(order[j], k), row))
			}
		}
		load()
		return ask(fmt.Sprintf("Rows(field=f, limit=%s)", ws[1]), order, func(res []interface{}) string {
			return vh.U64s(res[0].(pilosa.RowIdentifiers).Rows)
		})
	case "groupcounts":
		if len(ws) != 3 {
			return "bad-op"
		}
		if !mkField("a", pilosa.OptFieldTypeSet("ranked", 100)) || !mkField("b", pilosa.OptFieldTypeSet("ranked", 100)) {
			return "err:create-field"
		}
		for j, it := range items {
			k := 0
			for _, gc := range parseGCs(it) {
				if len(gc.Group) != 2 {
					return "bad-op"
				}
				for c := 0; c < int(gc.Count); c++ {
					sets = append(sets, fmt.Sprintf("Set(%d, a=%d)", col(order[j], k), gc.Group[0].RowID))
					sets = append(sets, fmt.Sprintf("Set(%d, b=%d)", col(order[j], k), gc.Group[1].RowID))
					k++
				}
			}
		}
		load()
		return ask(fmt.Sprintf("GroupBy(Rows(field=a), Rows(field=b), limit=%s)", ws[1]), order, func(res []interface{}) string {
			return showGCs(res[0].([]pilosa.GroupCount))
		})
	case "pairs":
		if !mkField("f", pilosa.OptFieldTypeSet("ranked", 100)) {
			return "err:create-field"
		}
		for j, it := range items {
			k := 0
			for _, ps := range splitNE(it, ",") {
				pr := parsePair(ps)
				for c := 0; c < int(pr.Count); c++ {
					sets = append(sets, fmt.Sprintf("Set(%d, f=%d)", col(order[j], k), pr.ID))
					k++
				}
			}
		}
		load()
		if err := be.Recalc(); err != nil {
			return "err:recalculate"
		}
		return ask("TopN(f)", order, func(res []interface{}) string { return showPairs(res[0].([]pilosa.Pair)) })
	case "topn":
		// every item is the full list id:count of one shard; TopN(f, n=N) runs the two-pass protocol
		if len(ws) != 3 {
			return "bad-op"
		}
		if _, err := strconv.ParseUint(ws[1], 10, 32); err != nil {
			return "bad-op"
		}
		if !mkField("f", pilosa.OptFieldTypeSet("ranked", 100)) {
			return "err:create-field"
		}
		for j, it := range items {
			k := 0
			for _, ps := range splitNE(it, ",") {
				pr := parsePair(ps)
				for c := 0; c < int(pr.Count); c++ {
					sets = append(sets, fmt.Sprintf("Set(%d, f=%d)", order[j]*sw+uint64(k), pr.ID))
					k++
				}
			}
		}
		load()
		if err := be.Recalc(); err != nil {
			return "err:recalculate"
		}
		return ask(fmt.Sprintf("TopN(f, n=%s)", ws[1]), order, func(res []interface{}) string {
			return showPairsRanked(res[0].([]pilosa.Pair))
		})
	case "rows", "rowsu":
		// one single-segment row per listed shard: `shard:c,c`; the arrival order is the listed one
		if !mkField("f", pilosa.OptFieldTypeSet("ranked", 100)) {
			return "err:create-field"
		}
		var shards []uint64
		seen := map[uint64]bool{}
		for k, it := range items {
			shs, cols := parseRowSegs(it)
			if len(shs) != 1 || seen[shs[0]] {
				return "bad-op"
			}
			seen[shs[0]] = true
			shards = append(shards, shs[0])
			for i, c := range cols[0] {
				switch {
				case ws[0] == "rows":
					sets = append(sets, fmt.Sprintf("Set(%d, f=1)", c))
				case (i+k)%3 == 0:
					sets = append(sets, fmt.Sprintf("Set(%d, f=1)", c))
				case (i+k)%3 == 1:
					sets = append(sets, fmt.Sprintf("Set(%d, f=2)", c))
				default:
					sets = append(sets, fmt.Sprintf("Set(%d, f=1)", c), fmt.Sprintf("Set(%d, f=2)", c))
				}
			}
			// another row in every listed shard, so the fragment exists and returns a segment
			sets = append(sets, fmt.Sprintf("Set(%d, f=9)", shs[0]*sw+77))
		}
		load()
		q := "Row(f=1)"
		if ws[0] == "rowsu" {
			q = "Union(Row(f=1), Row(f=2))"
		}
		return ask(q, shards, func(res []interface{}) string { return showRow(res[0].(*pilosa.Row), true) })
	}
	return "bad-op"
}

func main() {
	p := &prop{}
	defer func() {
		if p.s != nil {
			p.s.Stop()
		}
		if p.cl != nil {
			p.cl.Stop()
		}
	}()
	vh.Main(p)
}
