// Harness for C17: reducers and map-reduce arrival order / grouping.
//
// Line formats are documented in lean/PV/C17/Main.lean. A line without the `e2e` prefix folds
// the real reduce functions over the given groups exactly as mapperLocal / mapReduce do (each
// group from nil, then the group results from nil). A line with the `e2e` prefix (exactly one
// group) builds a dataset whose per-shard results are the listed ones on an in-process server
// with a one-worker pool, runs the real query with QueryRequest.Shards in the listed arrival
// order and prints the query result.
package main

import (
	"context"
	"fmt"
	"sort"
	"strconv"
	"strings"

	"github.com/pilosa/pilosa"
	"verifharness/vh"
	"verifharness/vh/srv"
)

type prop struct {
	s   *srv.Server
	idx int
}

func (p *prop) Rule() string {
	return "groups of per-shard partial results (values and ids drawn from tiny ranges so ties and shared extremes are frequent; " +
		"empty shards included) folded in the listed arrival order; a case is non-trivial when it has >= 2 partial results and " +
		"at least two of them share a value/id or the op has a limit smaller than the union; e2e lines run the real executor on a dataset realising the partial results"
}

func splitNE(s, sep string) []string {
	if s == "" || s == "-" {
		return nil
	}
	return strings.Split(s, sep)
}

// ---------- generation ----------

func genVC(r *vh.Rng) string {
	c := r.Pick(0, 1, 1, 2, 3)
	if c == 0 {
		return "0:0"
	}
	return fmt.Sprintf("%d:%d", r.Range(-2, 2), c)
}

func genPair(r *vh.Rng) string {
	c := r.Pick(0, 1, 2, 3)
	if c == 0 {
		return "0:0"
	}
	return fmt.Sprintf("%d:%d", r.Range(0, 3), c)
}

func genSortedSet(r *vh.Rng, max, pnum int) []uint64 {
	var out []uint64
	for v := 0; v <= max; v++ {
		if r.Chance(pnum, 10) {
			out = append(out, uint64(v))
		}
	}
	return out
}

func genGroups(r *vh.Rng, single bool, item func(*vh.Rng) string) (string, int) {
	ng := r.Range(1, 3)
	if single {
		ng = 1
	}
	var gs []string
	total := 0
	for g := 0; g < ng; g++ {
		n := r.Range(0, 4)
		if single {
			n = r.Range(1, 4)
		}
		var items []string
		for i := 0; i < n; i++ {
			items = append(items, item(r))
		}
		total += n
		if n == 0 {
			gs = append(gs, "-")
		} else {
			gs = append(gs, strings.Join(items, ";"))
		}
	}
	return strings.Join(gs, "|"), total
}

func (p *prop) Gen(r *vh.Rng, tier string, n int) []vh.Case {
	var cases []vh.Case
	for k := 0; k < n; k++ {
		cr := r.Fork()
		e2e := cr.Chance(1, 8)
		var line string
		var total int
		switch cr.Intn(6) {
		case 0:
			var g string
			g, total = genGroups(cr, e2e, genVC)
			line = "vc " + cr.PickS("add", "smaller", "larger") + " " + g
		case 1:
			var g string
			g, total = genGroups(cr, e2e, genPair)
			line = "pair " + cr.PickS("minrow", "maxrow") + " " + g
		case 2:
			var g string
			g, total = genGroups(cr, e2e, func(r *vh.Rng) string { return strconv.Itoa(r.Range(0, 3)) })
			line = "count " + g
		case 3:
			lim := cr.Range(1, 6)
			var g string
			g, total = genGroups(cr, e2e, func(r *vh.Rng) string { return vh.CSV(genSortedSet(r, 7, 4)) })
			line = fmt.Sprintf("rowids %d %s", lim, g)
		case 4:
			e2e = false
			lim := cr.Range(1, 6)
			var g string
			g, total = genGroups(cr, false, func(r *vh.Rng) string {
				var gcs []string
				for a := 0; a < 3; a++ {
					for b := 0; b < 3; b++ {
						if r.Chance(3, 10) && len(gcs) < lim {
							gcs = append(gcs, fmt.Sprintf("%d.%d:%d", a, b, r.Range(1, 3)))
						}
					}
				}
				if len(gcs) == 0 {
					return "-"
				}
				return strings.Join(gcs, ",")
			})
			line = fmt.Sprintf("groupcounts %d %s", lim, g)
		case 5:
			var g string
			g, total = genGroups(cr, e2e, func(r *vh.Rng) string {
				var ps []string
				for id := 0; id < 4; id++ {
					if r.Chance(5, 10) {
						ps = append(ps, fmt.Sprintf("%d:%d", id, r.Range(1, 3)))
					}
				}
				if len(ps) == 0 {
					return "-"
				}
				return strings.Join(ps, ",")
			})
			line = "pairs " + g
		}
		if e2e {
			line = "e2e " + line
		}
		cases = append(cases, vh.Case{Lines: []string{line}, Nontrivial: total >= 2})
	}
	return cases
}

// ---------- execution ----------

func parseVC(s string) pilosa.ValCount {
	p := strings.Split(s, ":")
	v, _ := strconv.ParseInt(p[0], 10, 64)
	c, _ := strconv.ParseInt(p[1], 10, 64)
	return pilosa.ValCount{Val: v, Count: c}
}

func parsePair(s string) pilosa.Pair {
	p := strings.Split(s, ":")
	v, _ := strconv.ParseUint(p[0], 10, 64)
	c, _ := strconv.ParseUint(p[1], 10, 64)
	return pilosa.Pair{ID: v, Count: c}
}

func parseGCs(s string) []pilosa.GroupCount {
	var out []pilosa.GroupCount
	for _, g := range splitNE(s, ",") {
		p := strings.Split(g, ":")
		c, _ := strconv.ParseUint(p[1], 10, 64)
		var frs []pilosa.FieldRow
		for i, rs := range strings.Split(p[0], ".") {
			rid, _ := strconv.ParseUint(rs, 10, 64)
			frs = append(frs, pilosa.FieldRow{Field: fmt.Sprintf("f%d", i), RowID: rid})
		}
		out = append(out, pilosa.GroupCount{Group: frs, Count: c})
	}
	return out
}

func showVC(v pilosa.ValCount) string { return fmt.Sprintf("%d:%d", v.Val, v.Count) }
func showPair(p pilosa.Pair) string   { return fmt.Sprintf("%d:%d", p.ID, p.Count) }
func showPairs(ps []pilosa.Pair) string {
	ps = append([]pilosa.Pair(nil), ps...)
	sort.Slice(ps, func(i, j int) bool { return ps[i].ID < ps[j].ID })
	ss := make([]string, len(ps))
	for i, p := range ps {
		ss[i] = showPair(p)
	}
	return strings.Join(ss, " ")
}
func showGCs(gs []pilosa.GroupCount) string {
	ss := make([]string, len(gs))
	for i, g := range gs {
		rs := make([]string, len(g.Group))
		for j, fr := range g.Group {
			rs[j] = strconv.FormatUint(fr.RowID, 10)
		}
		ss[i] = strings.Join(rs, ".") + ":" + strconv.FormatUint(g.Count, 10)
	}
	return strings.Join(ss, " ")
}

// pairReduce reproduces the closure in executeMinRow/executeMaxRow? No: closures cannot be
// called from outside, so reducer-level `pair` lines go through the executor as well (one node,
// one worker): each listed group becomes one query over its shards and the group results are
// combined by a second query over all shards in group-major arrival order. See execPairGroups.

func fold[T any](groups [][]T, zero T, f func(a, b T) T) T {
	res := zero
	for _, g := range groups {
		gr := zero
		for _, x := range g {
			gr = f(gr, x)
		}
		res = f(res, gr)
	}
	return res
}

func parseGroups[T any](s string, item func(string) T) [][]T {
	var out [][]T
	for _, g := range splitNE(s, "|") {
		var xs []T
		for _, it := range splitNE(g, ";") {
			xs = append(xs, item(it))
		}
		out = append(out, xs)
	}
	return out
}

func (p *prop) Exec(lines []string) []string {
	outs := make([]string, len(lines))
	for i, l := range lines {
		l := l
		outs[i] = vh.Guard("exec", func() string { return p.execLine(l) })
	}
	return outs
}

func (p *prop) execLine(l string) string {
	ws := strings.Fields(l)
	if len(ws) == 0 {
		return "bad-op"
	}
	if ws[0] == "e2e" {
		return p.execE2E(ws[1:])
	}
	switch {
	case ws[0] == "vc" && len(ws) == 3:
		op := ws[1]
		if op != "add" && op != "smaller" && op != "larger" {
			return "bad-op"
		}
		gs := parseGroups(ws[2], parseVC)
		return showVC(fold(gs, pilosa.ValCount{}, func(a, b pilosa.ValCount) pilosa.ValCount {
			return pilosa.VerifValCountReduce(op, a, b)
		}))
	case ws[0] == "pair" && len(ws) == 3:
		// reducer closures live inside the executor: run flattened through the executor.
		gs := parseGroups(ws[2], func(s string) string { return s })
		var flat []string
		for _, g := range gs {
			flat = append(flat, g...)
		}
		if len(flat) == 0 {
			return "0:0"
		}
		return p.execE2E([]string{"pair", ws[1], strings.Join(flat, ";")})
	case ws[0] == "count" && len(ws) == 2:
		gs := parseGroups(ws[1], func(s string) uint64 { v, _ := strconv.ParseUint(s, 10, 64); return v })
		return strconv.FormatUint(fold(gs, 0, func(a, b uint64) uint64 { return a + b }), 10)
	case ws[0] == "rowids" && len(ws) == 3:
		lim, _ := strconv.Atoi(ws[1])
		gs := parseGroups(ws[2], func(s string) pilosa.RowIDs { return pilosa.RowIDs(vh.ParseCSV(s)) })
		res := fold(gs, pilosa.RowIDs(nil), func(a, b pilosa.RowIDs) pilosa.RowIDs {
			return pilosa.VerifRowIDsMerge(a, b, lim)
		})
		return vh.U64s(res)
	case ws[0] == "groupcounts" && len(ws) == 3:
		lim, _ := strconv.Atoi(ws[1])
		gs := parseGroups(ws[2], parseGCs)
		res := fold(gs, []pilosa.GroupCount(nil), func(a, b []pilosa.GroupCount) []pilosa.GroupCount {
			// mergeGroupCounts may modify its arguments: hand it copies like the executor's
			// freshly decoded shard results.
			a2 := append([]pilosa.GroupCount(nil), a...)
			b2 := append([]pilosa.GroupCount(nil), b...)
			return pilosa.VerifMergeGroupCounts(a2, b2, lim)
		})
		return showGCs(res)
	case ws[0] == "pairs" && len(ws) == 2:
		gs := parseGroups(ws[1], func(s string) []pilosa.Pair {
			var ps []pilosa.Pair
			for _, x := range splitNE(s, ",") {
				ps = append(ps, parsePair(x))
			}
			return ps
		})
		res := fold(gs, []pilosa.Pair(nil), func(a, b []pilosa.Pair) []pilosa.Pair {
			return pilosa.Pairs(a).Add(b)
		})
		return showPairs(res)
	}
	return "bad-op"
}

const sw = pilosa.ShardWidth

func (p *prop) execE2E(ws []string) string {
	if len(ws) < 2 {
		return "bad-op"
	}
	gspec := ws[len(ws)-1]
	if strings.Contains(gspec, "|") {
		return "bad-op"
	}
	items := splitNE(gspec, ";")
	if p.s == nil {
		p.s = srv.Start(1)
	}
	p.idx++
	index := fmt.Sprintf("i%d", p.idx)
	ctx := context.Background()
	api := p.s.API
	if _, err := api.CreateIndex(ctx, index, pilosa.IndexOptions{TrackExistence: true}); err != nil {
		return "err:create-index"
	}
	defer api.DeleteIndex(ctx, index)
	n := len(items)
	// arrival j is shard n-1-j, so the arrival order is never the sorted order for n > 1.
	order := make([]uint64, n)
	for j := range order {
		order[j] = uint64(n - 1 - j)
	}
	var sets []string
	col := func(shard uint64, k int) uint64 { return shard*sw + uint64(k)*70000%sw }
	mustQ := func(q string, shards []uint64) []interface{} {
		res, err := p.s.Query(index, q, shards)
		if err != nil {
			panic(err)
		}
		return res
	}
	switch ws[0] {
	case "vc":
		if len(ws) != 3 {
			return "bad-op"
		}
		if _, err := api.CreateField(ctx, index, "v", pilosa.OptFieldTypeInt(-1000, 1000)); err != nil {
			return "err:create-field"
		}
		for j, it := range items {
			vc := parseVC(it)
			sh := order[j]
			for k := 0; k < int(vc.Count); k++ {
				val := vc.Val
				switch ws[1] {
				case "add":
					if k > 0 {
						val = 0
					}
				}
				sets = append(sets, fmt.Sprintf("Set(%d, v=%d)", col(sh, k), val))
			}
			if vc.Count > 0 && ws[1] != "add" {
				noise := vc.Val + 5
				if ws[1] == "larger" {
					noise = vc.Val - 5
				}
				sets = append(sets, fmt.Sprintf("Set(%d, v=%d)", col(sh, 9), noise))
			}
		}
		if len(sets) > 0 {
			mustQ(strings.Join(sets, "\n"), nil)
		}
		q := map[string]string{"add": "Sum(field=v)", "smaller": "Min(field=v)", "larger": "Max(field=v)"}[ws[1]]
		if q == "" {
			return "bad-op"
		}
		res := mustQ(q, order)
		return showVC(res[0].(pilosa.ValCount))
	case "pair":
		if len(ws) != 3 {
			return "bad-op"
		}
		if _, err := api.CreateField(ctx, index, "f", pilosa.OptFieldTypeSet("ranked", 100)); err != nil {
			return "err:create-field"
		}
		if _, err := api.CreateField(ctx, index, "g", pilosa.OptFieldTypeSet("ranked", 100)); err != nil {
			return "err:create-field"
		}
		for j, it := range items {
			pr := parsePair(it)
			sh := order[j]
			for k := 0; k < int(pr.Count); k++ {
				sets = append(sets, fmt.Sprintf("Set(%d, f=%d)", col(sh, k), pr.ID+1))
				sets = append(sets, fmt.Sprintf("Set(%d, g=0)", col(sh, k)))
			}
			if pr.Count > 0 {
				// noise rows on the far side of the extreme, inside the filter
				noise := pr.ID + 1 + 3
				if ws[1] == "maxrow" {
					noise = 0
				}
				sets = append(sets, fmt.Sprintf("Set(%d, f=%d)", col(sh, 9), noise))
				sets = append(sets, fmt.Sprintf("Set(%d, g=0)", col(sh, 9)))
				// and a row beyond the extreme outside the filter
				out := uint64(0)
				if ws[1] == "maxrow" {
					out = 20
				}
				sets = append(sets, fmt.Sprintf("Set(%d, f=%d)", col(sh, 11), out))
			}
		}
		if len(sets) > 0 {
			mustQ(strings.Join(sets, "\n"), nil)
		}
		q := map[string]string{"minrow": "MinRow(Row(g=0), field=f)", "maxrow": "MaxRow(Row(g=0), field=f)"}[ws[1]]
		if q == "" {
			return "bad-op"
		}
		res := mustQ(q, order)
		pr, _ := res[0].(pilosa.Pair)
		if pr.Count > 0 {
			// rows are stored shifted by one (row 0 is the minrow noise row outside... see above)
			if pr.ID == 0 {
				return "err:noise-row-returned"
			}
			pr.ID--
		}
		return showPair(pr)
	case "count":
		if _, err := api.CreateField(ctx, index, "f", pilosa.OptFieldTypeSet("ranked", 100)); err != nil {
			return "err:create-field"
		}
		for j, it := range items {
			c, _ := strconv.Atoi(it)
			for k := 0; k < c; k++ {
				sets = append(sets, fmt.Sprintf("Set(%d, f=1)", col(order[j], k)))
			}
			sets = append(sets, fmt.Sprintf("Set(%d, f=2)", col(order[j], 9)))
		}
		mustQ(strings.Join(sets, "\n"), nil)
		res := mustQ("Count(Row(f=1))", order)
		return strconv.FormatUint(res[0].(uint64), 10)
	case "rowids":
		if len(ws) != 3 {
			return "bad-op"
		}
		if _, err := api.CreateField(ctx, index, "f", pilosa.OptFieldTypeSet("ranked", 100)); err != nil {
			return "err:create-field"
		}
		for j, it := range items {
			for k, row := range vh.ParseCSV(it) {
				sets = append(sets, fmt.Sprintf("Set(%d, f=%d)", col(order[j], k), row))
			}
		}
		if len(sets) > 0 {
			mustQ(strings.Join(sets, "\n"), nil)
		}
		res := mustQ(fmt.Sprintf("Rows(field=f, limit=%s)", ws[1]), order)
		ids := res[0].(pilosa.RowIdentifiers)
		return vh.U64s(ids.Rows)
	case "pairs":
		if _, err := api.CreateField(ctx, index, "f", pilosa.OptFieldTypeSet("ranked", 100)); err != nil {
			return "err:create-field"
		}
		for j, it := range items {
			k := 0
			for _, ps := range splitNE(it, ",") {
				pr := parsePair(ps)
				for c := 0; c < int(pr.Count); c++ {
					sets = append(sets, fmt.Sprintf("Set(%d, f=%d)", col(order[j], k), pr.ID))
					k++
				}
			}
		}
		if len(sets) > 0 {
			mustQ(strings.Join(sets, "\n"), nil)
		}
		if err := api.RecalculateCaches(ctx); err != nil {
			return "err:recalculate"
		}
		res := mustQ("TopN(f)", order)
		return showPairs(res[0].([]pilosa.Pair))
	}
	return "bad-op"
}

func main() {
	p := &prop{}
	defer func() {
		if p.s != nil {
			p.s.Stop()
		}
	}()
	vh.Main(p)
}
