#!/usr/bin/env python3
"""Build and run the C27 arbitrary-bytes check against the tree given as argv[1] (tier argv[2], seed argv[3])."""
import hashlib, os, shutil, subprocess, sys
repo, tier, seed = os.path.abspath(sys.argv[1]), sys.argv[2], sys.argv[3]
harn = os.path.dirname(os.path.dirname(os.path.dirname(os.path.abspath(__file__))))
work = os.path.join(os.path.dirname(harn), ".work")
os.makedirs(work, exist_ok=True)
tag = hashlib.sha1(repo.encode()).hexdigest()[:8]
mod = os.path.join(work, f"go.{tag}.c27b.mod")
open(mod, "w").write(open(os.path.join(harn, "go.mod")).read().replace("=> /repo", "=> " + repo))
shutil.copyfile(os.path.join(repo, "go.sum"), os.path.join(work, f"go.{tag}.c27b.sum"))
binp = os.path.join(work, f"c27bytes_{tag}.bin")
env = dict(os.environ, GOFLAGS="-mod=mod", GOPROXY="off", GOSUMDB="off", GOTOOLCHAIN="local")
p = subprocess.run(["go", "build", "-tags", "verif", "-modfile", mod, "-o", binp, "./cmd/c27bytes"], cwd=harn, env=env,
                   stdout=subprocess.PIPE, stderr=subprocess.STDOUT, text=True)
if p.returncode != 0:
    print('{"ok": false, "found": false, "what": "c27bytes does not build against the tree: %s"}' % p.stdout[-300:].replace('"', "'").replace("\n", " "))
    sys.exit(0)
n = "400000" if tier == "thorough" else "12000"
sys.exit(subprocess.run([binp, "--seed", seed, "--n", n]).returncode)
