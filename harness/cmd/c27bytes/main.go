// Extra check for C27: proto.Serializer.Unmarshal on arbitrary bytes returns an error or a value,
// it never panics, for every message type.
//
// The parent generates batches of inputs (random bytes, truncations / bit flips / spliced field
// headers of valid encodings) and runs each batch in a child process (this binary with --child) with
// a timeout, so that a crash, a runaway allocation or a hang is contained and attributed to an input.
// Last stdout line: the JSON verdict bin/check expects.
package main

import (
	"bufio"
	"encoding/hex"
	"encoding/json"
	"flag"
	"fmt"
	"os"
	"os/exec"
	"reflect"
	"strings"
	"time"

	gproto "github.com/gogo/protobuf/proto"
	"github.com/pilosa/pilosa"
	"github.com/pilosa/pilosa/encoding/proto"
	"verifharness/vh"
)

var names = []string{"CreateShardMessage", "CreateIndexMessage", "DeleteIndexMessage", "CreateFieldMessage", "DeleteFieldMessage",
	"DeleteAvailableShardMessage", "CreateViewMessage", "DeleteViewMessage", "ClusterStatus", "ResizeInstruction",
	"ResizeInstructionComplete", "SetCoordinatorMessage", "UpdateCoordinatorMessage", "NodeStateMessage", "RecalculateCaches",
	"NodeEvent", "NodeStatus", "Node", "QueryRequest", "QueryResponse", "ImportRequest", "ImportValueRequest", "ImportRoaringRequest",
	"ImportResponse", "BlockDataRequest", "BlockDataResponse", "TranslateKeysRequest", "TranslateKeysResponse"}

func fresh(name string) pilosa.Message {
	switch name {
	case "CreateShardMessage":
		return &pilosa.CreateShardMessage{}
	case "CreateIndexMessage":
		return &pilosa.CreateIndexMessage{}
	case "DeleteIndexMessage":
		return &pilosa.DeleteIndexMessage{}
	case "CreateFieldMessage":
		return &pilosa.CreateFieldMessage{}
	case "DeleteFieldMessage":
		return &pilosa.DeleteFieldMessage{}
	case "DeleteAvailableShardMessage":
		return &pilosa.DeleteAvailableShardMessage{}
	case "CreateViewMessage":
		return &pilosa.CreateViewMessage{}
	case "DeleteViewMessage":
		return &pilosa.DeleteViewMessage{}
	case "ClusterStatus":
		return &pilosa.ClusterStatus{}
	case "ResizeInstruction":
		return &pilosa.ResizeInstruction{}
	case "ResizeInstructionComplete":
		return &pilosa.ResizeInstructionComplete{}
	case "SetCoordinatorMessage":
		return &pilosa.SetCoordinatorMessage{}
	case "UpdateCoordinatorMessage":
		return &pilosa.UpdateCoordinatorMessage{}
	case "NodeStateMessage":
		return &pilosa.NodeStateMessage{}
	case "RecalculateCaches":
		return &pilosa.RecalculateCaches{}
	case "NodeEvent":
		return &pilosa.NodeEvent{}
	case "NodeStatus":
		return &pilosa.NodeStatus{}
	case "Node":
		return &pilosa.Node{}
	case "QueryRequest":
		return &pilosa.QueryRequest{}
	case "QueryResponse":
		return &pilosa.QueryResponse{}
	case "ImportRequest":
		return &pilosa.ImportRequest{}
	case "ImportValueRequest":
		return &pilosa.ImportValueRequest{}
	case "ImportRoaringRequest":
		return &pilosa.ImportRoaringRequest{}
	case "ImportResponse":
		return &pilosa.ImportResponse{}
	case "BlockDataRequest":
		return &pilosa.BlockDataRequest{}
	case "BlockDataResponse":
		return &pilosa.BlockDataResponse{}
	case "TranslateKeysRequest":
		return &pilosa.TranslateKeysRequest{}
	case "TranslateKeysResponse":
		return &pilosa.TranslateKeysResponse{}
	}
	return nil
}

// child: reads "name hex" lines, prints one of ok / err / panic:<text> per line
func child() {
	var s proto.Serializer
	sc := bufio.NewScanner(os.Stdin)
	sc.Buffer(make([]byte, 1<<20), 1<<26)
	w := bufio.NewWriter(os.Stdout)
	defer w.Flush()
	for sc.Scan() {
		parts := strings.Fields(sc.Text())
		buf := []byte{}
		if len(parts) > 1 {
			buf, _ = hex.DecodeString(parts[1])
		}
		func() {
			defer func() {
				if e := recover(); e != nil {
					fmt.Fprintf(w, "panic:%s\n", strings.ReplaceAll(fmt.Sprint(e), "\n", " "))
				}
			}()
			if err := s.Unmarshal(buf, fresh(parts[0])); err != nil {
				fmt.Fprintln(w, "err")
			} else {
				fmt.Fprintln(w, "ok")
			}
		}()
		w.Flush()
	}
}

// randomInternal fills the protobuf-side message of a type by reflection (all pointers set, short lists).
func fillValue(r *vh.Rng, v reflect.Value, depth int) {
	switch v.Kind() {
	case reflect.String:
		v.SetString([]string{"", "a", "idx", "é"}[r.Intn(4)])
	case reflect.Bool:
		v.SetBool(r.Bool())
	case reflect.Uint32, reflect.Uint64:
		v.SetUint(uint64(r.Intn(12)))
	case reflect.Int64:
		v.SetInt(int64(r.Range(-3, 3)))
	case reflect.Float64:
		v.SetFloat(1.5)
	case reflect.Slice:
		if v.Type().Elem().Kind() == reflect.Uint8 {
			v.SetBytes([]byte{1, 2})
			return
		}
		n := r.Intn(3)
		if depth > 3 {
			n = r.Intn(2)
		}
		s := reflect.MakeSlice(v.Type(), n, n)
		for i := 0; i < n; i++ {
			el := s.Index(i)
			if el.Kind() == reflect.Ptr {
				el.Set(reflect.New(v.Type().Elem().Elem()))
				el = el.Elem()
			}
			fillValue(r, el, depth+1)
		}
		v.Set(s)
	case reflect.Ptr:
		if r.Chance(1, 4) {
			return
		}
		p := reflect.New(v.Type().Elem())
		fillValue(r, p.Elem(), depth+1)
		v.Set(p)
	case reflect.Struct:
		for i := 0; i < v.NumField(); i++ {
			if v.Type().Field(i).PkgPath == "" && !strings.HasPrefix(v.Type().Field(i).Name, "XXX_") {
				fillValue(r, v.Field(i), depth)
			}
		}
	}
}

func genInput(r *vh.Rng, name string) []byte {
	switch r.Intn(10) {
	case 0:
		return nil
	case 1, 2:
		n := r.Pick(1, 2, 3, 5, 8, 16, 40)
		b := make([]byte, n)
		for i := range b {
			b[i] = byte(r.Intn(256))
		}
		return b
	}
	msg := proto.VerifC27NewInternal(name)
	fillValue(r, reflect.ValueOf(msg).Elem(), 0)
	b, err := gproto.Marshal(msg.(gproto.Message))
	if err != nil {
		return nil
	}
	if len(b) == 0 {
		return b
	}
	switch r.Intn(6) {
	case 0: // truncate
		return b[:r.Intn(len(b))]
	case 1: // bit flip
		i := r.Intn(len(b))
		b[i] ^= 1 << uint(r.Intn(8))
	case 2: // overwrite a byte (often a tag or a length)
		b[r.Intn(len(b))] = byte(r.Pick(0, 1, 0x7f, 0x80, 0xff, 0x0a, 0x12, 0x30))
	case 3: // append a field header with a huge length
		b = append(b, 0x12, 0xff, 0xff, 0xff, 0xff, 0x0f)
	case 4: // duplicate a chunk
		i := r.Intn(len(b))
		b = append(b[:i:i], append(append([]byte{}, b[i:]...), b[i:]...)...)
	}
	return b
}

type verdict struct {
	Ok          bool     `json:"ok"`
	Evaluations int      `json:"evaluations"`
	Distinct    int      `json:"distinct_nontrivial"`
	What        string   `json:"what"`
	Found       bool     `json:"found"`
	ReplayLines []string `json:"replay_lines"`
	Counters    map[string]int `json:"counters"`
}

func runBatch(lines []string) ([]string, error) {
	cmd := exec.Command(os.Args[0], "--child")
	cmd.Stdin = strings.NewReader(strings.Join(lines, "\n") + "\n")
	cmd.Env = append(os.Environ(), "GOMEMLIMIT=2GiB")
	done := make(chan struct{})
	var out []byte
	var err error
	go func() { out, err = cmd.Output(); close(done) }()
	select {
	case <-done:
	case <-time.After(60 * time.Second):
		_ = cmd.Process.Kill()
		<-done
		return strings.Split(strings.TrimSpace(string(out)), "\n"), fmt.Errorf("timeout")
	}
	res := strings.Split(strings.TrimSpace(string(out)), "\n")
	if strings.TrimSpace(string(out)) == "" {
		res = nil
	}
	return res, err
}

func main() {
	isChild := flag.Bool("child", false, "")
	seed := flag.Uint64("seed", 1, "")
	n := flag.Int("n", 20000, "")
	flag.Parse()
	if *isChild {
		child()
		return
	}
	r := vh.NewRng(*seed*7919 + 13)
	v := verdict{Ok: true, Counters: map[string]int{}}
	seen := map[string]bool{}
	const batch = 2000
	for done := 0; done < *n && v.Ok; done += batch {
		var lines []string
		for i := 0; i < batch; i++ {
			name := names[r.Intn(len(names))]
			lines = append(lines, name+" "+hex.EncodeToString(genInput(r, name)))
		}
		outs, err := runBatch(lines)
		for i, l := range lines {
			if !seen[l] {
				seen[l] = true
				v.Distinct++
			}
			v.Evaluations++
			if i >= len(outs) {
				v.Ok, v.Found = false, true
				v.What = fmt.Sprintf("Unmarshal crashed or hung the process (%v) on: %s", err, l)
				v.ReplayLines = []string{"bytes " + l}
				break
			}
			switch {
			case outs[i] == "ok":
				v.Counters["decoded"]++
			case outs[i] == "err":
				v.Counters["error"]++
			default:
				v.Ok, v.Found = false, true
				v.What = fmt.Sprintf("proto.Serializer.Unmarshal panicked (%s) on bytes a peer can send: %s", outs[i], l)
				v.ReplayLines = []string{"bytes " + l}
			}
			if !v.Ok {
				break
			}
		}
	}
	if v.Ok {
		v.What = fmt.Sprintf("Unmarshal of %d byte strings over %d message types: %d decoded, %d errors, no panic",
			v.Evaluations, len(names), v.Counters["decoded"], v.Counters["error"])
	}
	b, _ := json.Marshal(v)
	fmt.Println(string(b))
}
