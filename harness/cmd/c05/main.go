// Harness for C05: logged histories on a roaring.Bitmap whose OpWriter is a bytes.Buffer, then
// UnmarshalBinary(snapshot ++ log) into a fresh bitmap. Line formats: lean/PV/C05/Main.lean.
package main

import (
	"bytes"
	"encoding/hex"
	"errors"
	"fmt"
	"strconv"
	"strings"

	"github.com/pilosa/pilosa/roaring"
	"verifharness/cmd/c04/codec"
	"verifharness/vh"
)

type prop struct{}

func (p *prop) Rule() string {
	return "logged histories of 4-30 lines on one bitmap (slice or B-tree) with a bytes.Buffer as OpWriter: Add/Remove (one op per value), " +
		"AddN/RemoveN (batches with duplicates and values already present/absent, so a[:changed] differs from a), ImportRoaringBits set/clear " +
		"(Pilosa-format payloads from the real writer and official-format payloads from the C04 reference encoder, with and without run containers, including ones that change nothing; the caller's buffer must stay untouched), re-encoding (snap) in between, decoding snapshot++log into a fresh " +
		"bitmap of either collection (check) and continuing on the decoded bitmap (reopen); in one case out of six the OpWriter fails on a chosen Write (cleanly, or after taking some bytes) of an Add/Remove value, an AddN/RemoveN batch mixing new, duplicate and already-set values, or an import; values from <=3 container keys x 10 low values. " +
		"Non-trivial: at least one batch or import line and a later check/reopen"
}

const maxKey = (1 << 48) - 1

var lows = []uint64{0, 1, 2, 3, 4, 5, 6, 7, 65534, 65535}

type gen struct {
	r    *vh.Rng
	keys []uint64
}

func (g *gen) val() uint64 {
	k := g.keys[g.r.Intn(len(g.keys))]
	return k<<16 | lows[g.r.Intn(len(lows))]
}

func (g *gen) vals(lo, hi int) []uint64 {
	n := g.r.Range(lo, hi)
	out := make([]uint64, n)
	for i := range out {
		out[i] = g.val()
	}
	return out
}

func spaced(vs []uint64) string {
	ss := make([]string, len(vs))
	for i, v := range vs {
		ss[i] = strconv.FormatUint(v, 10)
	}
	return strings.Join(ss, " ")
}

// payload encodes vals with the real writer. official=true produces the standard roaring format
// (keys < 2^16 only), which ImportRoaringBits accepts as well.
func payload(vals []uint64) []byte {
	pb := roaring.NewBTreeBitmap()
	for _, v := range vals {
		pb.DirectAdd(v)
	}
	var buf bytes.Buffer
	if _, err := pb.WriteTo(&buf); err != nil {
		panic(err)
	}
	return buf.Bytes()
}

// officialPayload encodes vals (container keys < 65536) in the official Roaring format with the
// C04 reference encoder; mode 0 = arrays/bitmaps only, 1 = run containers where smaller, 2 = run
// containers everywhere.
func officialPayload(mode int, vals []uint64) ([]byte, bool) {
	want := sortedSet(vals)
	var es []codec.Entry
	for _, v := range want {
		k := v >> 16
		if k >= 65536 {
			return nil, false
		}
		if len(es) == 0 || es[len(es)-1].Key != k {
			es = append(es, codec.Entry{Key: k, Typ: 'a'})
		}
		es[len(es)-1].Vals = append(es[len(es)-1].Vals, uint16(v))
	}
	return codec.OfficialEncode(mode, es), true
}

// importLine: half of the payloads are official-format (with and without run containers) when
// the keys allow it, the rest Pilosa-format; some are dense ranges (run containers in either format).
func (g *gen) importLine(mode string) string {
	vs := g.vals(1, 6)
	if g.r.Chance(1, 4) {
		// a range: becomes a run container
		v := g.val()
		n := uint64(g.r.Range(2, 9))
		vs = nil
		for x := uint64(0); x < n && (v&0xFFFF)+x < 65536; x++ {
			vs = append(vs, v+x)
		}
	}
	if g.r.Chance(1, 2) {
		if data, ok := officialPayload(g.r.Intn(3), vs); ok {
			return "import " + mode + " " + vh.CSV(vs) + " " + hex.EncodeToString(data)
		}
	}
	return "import " + mode + " " + vh.CSV(vs) + " " + hex.EncodeToString(payload(vs))
}

func (g *gen) line() string {
	r := g.r
	switch w := r.Intn(100); {
	case w < 14:
		return "add " + spaced(g.vals(1, 3))
	case w < 26:
		return "remove " + spaced(g.vals(1, 3))
	case w < 40:
		return "addn " + spaced(g.vals(1, 7))
	case w < 42:
		return "addn"
	case w < 54:
		return "removen " + spaced(g.vals(1, 7))
	case w < 63:
		return g.importLine("set")
	case w < 72:
		return g.importLine("clear")
	case w < 80:
		return "snap"
	case w < 93:
		return "check " + r.PickS("slice", "btree")
	default:
		return "reopen " + r.PickS("slice", "btree")
	}
}

func (p *prop) Gen(r *vh.Rng, tier string, n int) []vh.Case {
	var cases []vh.Case
	for k := 0; k < n; k++ {
		cr := r.Fork()
		g := &gen{r: cr}
		pool := []uint64{0, 0, 1, 1, 2, 3}
		if cr.Chance(1, 8) {
			pool = append(pool, maxKey)
		}
		nk := cr.Range(1, 3)
		for len(g.keys) < nk {
			g.keys = append(g.keys, pool[cr.Intn(len(pool))])
		}
		lines := []string{"kind " + cr.PickS("slice", "btree")}
		nl := cr.Range(4, 30)
		if tier == "thorough" && cr.Chance(1, 10) {
			nl = cr.Range(30, 90)
		}
		// one case in six arms a writer failure before one of its mutations: clean failures (k = 0)
		// anywhere, then the history goes on; short writes and failing imports (the two known
		// deviations) end the case with checks.
		failPos := -1
		if cr.Chance(1, 6) {
			failPos = cr.Intn(nl)
		}
		for i := 0; i < nl; i++ {
			if i == failPos {
				k := 0
				if cr.Chance(1, 4) {
					k = cr.Pick(1, 5, 12, 13, 20, 40)
				}
				var mut string
				for {
					mut = g.line()
					op := strings.Fields(mut)[0]
					if op == "add" || op == "remove" || op == "addn" && len(strings.Fields(mut)) > 1 || op == "removen" || op == "import" {
						break
					}
				}
				at := 0
				if op := strings.Fields(mut)[0]; op == "add" || op == "remove" {
					at = cr.Intn(len(strings.Fields(mut)) - 1)
				}
				lines = append(lines, fmt.Sprintf("failat %d %d", at, k), mut, "check "+cr.PickS("slice", "btree"))
				vh.Count("scenario:write-failure")
				if k > 0 || strings.HasPrefix(mut, "import") {
					lines = append(lines, "check "+cr.PickS("slice", "btree"))
					break
				}
				continue
			}
			lines = append(lines, g.line())
		}
		lines = append(lines, "check "+cr.PickS("slice", "btree"))
		nt := false
		seen := false
		for _, l := range lines {
			op := strings.Fields(l)[0]
			if op == "addn" || op == "removen" || op == "import" {
				seen = true
			}
			if seen && (op == "check" || op == "reopen") {
				nt = true
			}
		}
		cases = append(cases, vh.Case{Lines: lines, Nontrivial: nt})
	}
	return cases
}

// ---------- execution ----------

// flaky is the OpWriter: a buffer whose at-th next Write (0 = the next one) takes only k bytes and
// returns an error; all other writes succeed.
type flaky struct {
	buf   bytes.Buffer
	armed bool
	at, k int
}

var errFlaky = errors.New("verif: injected write failure")

func (w *flaky) Write(p []byte) (int, error) {
	if w.armed {
		if w.at == 0 {
			w.armed = false
			k := w.k
			if k > len(p) {
				k = len(p)
			}
			w.buf.Write(p[:k])
			return k, errFlaky
		}
		w.at--
	}
	return w.buf.Write(p)
}

func (w *flaky) Len() int      { return w.buf.Len() }
func (w *flaky) Bytes() []byte { return w.buf.Bytes() }
func (w *flaky) Reset()        { w.buf.Reset() }

type state struct {
	b    *roaring.Bitmap
	log  *flaky
	snap []byte
	keep [][]byte
}

func showBool(b bool) string {
	if b {
		return "true"
	}
	return "false"
}

func hexOrDash(b []byte) string {
	if len(b) == 0 {
		return "-"
	}
	return hex.EncodeToString(b)
}

func newBitmap(kind string) *roaring.Bitmap {
	if kind == "btree" {
		return roaring.NewBTreeBitmap()
	}
	return roaring.NewBitmap()
}

func parseVals(ws []string) ([]uint64, bool) {
	out := make([]uint64, len(ws))
	for i, w := range ws {
		v, err := strconv.ParseUint(w, 10, 64)
		if err != nil {
			return nil, false
		}
		out[i] = v
	}
	return out, true
}

func sortedSet(vals []uint64) []uint64 {
	want := vh.SortedU64(vals)
	j := 0
	for i, v := range want {
		if i == 0 || v != want[i-1] {
			want[j] = v
			j++
		}
	}
	return want[:j]
}

func stateStr(b *roaring.Bitmap) string {
	ops, opN := b.Ops()
	return fmt.Sprintf("%s %d %d", vh.U64s(b.Slice()), ops, opN)
}

func (s *state) tail(before int) string {
	ops, opN := s.b.Ops()
	vh.Count(fmt.Sprintf("logged-bytes:%d", (s.log.Len()-before+15)/16*16))
	return fmt.Sprintf("log=%s ops=%d opN=%d live=%s", hexOrDash(s.log.Bytes()[before:]), ops, opN, vh.U64s(s.b.Slice()))
}

func (s *state) decode(kind string) (*roaring.Bitmap, string) {
	data := append(append([]byte(nil), s.snap...), s.log.Bytes()...)
	s.keep = append(s.keep, data)
	nb := newBitmap(kind)
	if err := nb.UnmarshalBinary(data); err != nil {
		return nil, "dec=err | live=" + stateStr(s.b)
	}
	return nb, "dec=" + stateStr(nb) + " | live=" + stateStr(s.b)
}

func (s *state) exec(l string) string {
	ws := strings.Fields(l)
	if len(ws) == 0 {
		return "bad-op"
	}
	if ws[0] == "kind" && len(ws) == 2 && (ws[1] == "btree" || ws[1] == "slice") {
		s.b = newBitmap(ws[1])
		s.log = &flaky{}
		s.b.OpWriter = s.log
		var sb bytes.Buffer
		if _, err := s.b.WriteTo(&sb); err != nil {
			return "err:writeto"
		}
		s.snap = sb.Bytes()
		return "ok"
	}
	if s.b == nil {
		return "bad-op:no-kind"
	}
	b := s.b
	before := s.log.Len()
	errS := func(err error) string {
		if err == nil {
			return ""
		}
		if errors.Is(err, errFlaky) || strings.Contains(err.Error(), errFlaky.Error()) {
			vh.Count("write-failure:" + ws[0])
			return " err=write"
		}
		return " err=other"
	}
	switch ws[0] {
	case "failat":
		if len(ws) != 3 {
			return "bad-op"
		}
		j, e1 := strconv.Atoi(ws[1])
		k, e2 := strconv.Atoi(ws[2])
		if e1 != nil || e2 != nil || j < 0 || k < 0 {
			return "bad-op"
		}
		s.log.armed, s.log.at, s.log.k = true, j, k
		return "ok"
	case "add", "remove", "addn", "removen":
		vals, ok := parseVals(ws[1:])
		if !ok {
			return "bad-op"
		}
		switch ws[0] {
		case "add":
			ch, err := b.Add(vals...)
			return "b=" + showBool(ch) + errS(err) + " " + s.tail(before)
		case "remove":
			ch, err := b.Remove(vals...)
			return "b=" + showBool(ch) + errS(err) + " " + s.tail(before)
		case "addn":
			n, err := b.AddN(vals...)
			return fmt.Sprintf("n=%d%s a=%s %s", n, errS(err), vh.U64s(vals), s.tail(before))
		case "removen":
			n, err := b.RemoveN(vals...)
			return fmt.Sprintf("n=%d%s a=%s %s", n, errS(err), vh.U64s(vals), s.tail(before))
		}
	case "import":
		if len(ws) != 4 || (ws[1] != "set" && ws[1] != "clear") {
			return "bad-op"
		}
		var vals []uint64
		for _, x := range strings.Split(ws[2], ",") {
			v, err := strconv.ParseUint(x, 10, 64)
			if err != nil {
				return "bad-op"
			}
			vals = append(vals, v)
		}
		data, err := hex.DecodeString(ws[3])
		if err != nil {
			return "bad-op"
		}
		// the line claims what the payload holds: check it with the real decoder
		chk := roaring.NewBTreeBitmap()
		if err := chk.UnmarshalBinary(append([]byte(nil), data...)); err != nil {
			return "err:payload"
		}
		if vh.U64s(chk.Slice()) != vh.U64s(sortedSet(vals)) {
			return "err:payload-mismatch"
		}
		s.keep = append(s.keep, data)
		orig := append([]byte(nil), data...)
		format := "official"
		if len(data) >= 2 && data[0] == 0x3c && data[1] == 0x30 {
			format = "pilosa"
		}
		runs := false
		for _, ci := range chk.Info().Containers {
			if ci.Type == "run" {
				runs = true
			}
		}
		vh.Count(fmt.Sprintf("payload:%s:runs=%v", format, runs))
		n, _, err := b.ImportRoaringBits(data, ws[1] == "clear", true, 0)
		if err != nil && errS(err) != " err=write" {
			return "err:import"
		}
		// the caller's buffer is also what the op log received: it must not have been touched
		if !bytes.Equal(orig, data) {
			return "err:payload-buffer-modified " + s.tail(before)
		}
		if n == 0 {
			vh.Count("import-changes-nothing")
		}
		return fmt.Sprintf("n=%d%s %s", n, errS(err), s.tail(before))
	case "snap":
		var sb bytes.Buffer
		if _, err := b.WriteTo(&sb); err != nil {
			return "err:writeto"
		}
		s.snap = sb.Bytes()
		s.log.Reset()
		b.SetOps(0, 0)
		return "ops=0 opN=0"
	case "check", "reopen":
		if len(ws) != 2 || (ws[1] != "btree" && ws[1] != "slice") {
			return "bad-op"
		}
		nb, out := s.decode(ws[1])
		if ws[0] == "reopen" && nb != nil {
			nb.OpWriter = s.log
			s.b = nb
		}
		return out
	}
	return "bad-op"
}

func (p *prop) Exec(lines []string) []string {
	s := &state{}
	outs := make([]string, len(lines))
	for i, l := range lines {
		l := l
		outs[i] = vh.Guard(strings.Fields(l + " ?")[0], func() string { return s.exec(l) })
	}
	return outs
}

func main() { vh.Main(&prop{}) }
