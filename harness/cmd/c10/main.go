// Harness for C10: block checksums always reflect current block contents.
//
// A case runs two real fragments `a` and `b` (two replicas of a shard). Writes of every write
// path go to both (equal contents) or to one only (different contents); checksum requests
// (`blocks a`, `blocks b`, `cmpblocks`) are interleaved with every write so that a checksum is
// cached before the next write path runs. A reported checksum is printed as the block content
// it is the hash of (looked up among all contents the block has had in this case), so a stale
// checksum shows the stale content. Line formats: lean/PV/C07/Driver.lean; real-code side:
// cmd/c07/fragx.
package main

import (
	"fmt"
	"strings"

	"verifharness/cmd/c07/fragx"
	"verifharness/vh"
)

type prop struct{ fragx.Engine }

func (p *prop) Rule() string {
	return "pairs of fragments a/b (replicas) of kind set (1/2), mutex (1/3: rows from {0,1,5,99,100,101,205}, always >= 2 blocks; writes setbit+handleMutex, clearbit, " +
		"bulkImportMutex batches of 1-4 pairs that move columns between rows of different blocks, clear imports, clearrow, snapshot, reopen, invalidate) or bool (1/6); " +
		"for set fragments: 8-20 writes drawn from all write paths (setbit, clearbit, setrow, clearrow, import set/clear, " +
		"importvalue small and large path (MaxOpN 1..8 forces the large path), importroaring set/clear, setvalue, clearvalue, snapshot, invalidate), " +
		"each applied to both replicas (60%) or to one; rows from {0,1,2,99,100,101,199,200} so that blocks 0,1,2 and their edges are hit; " +
		"after every write one of blocks a / blocks b / cmpblocks / blockdata; a case is non-trivial when a checksum was requested " +
		"before and after at least 3 different write paths"
}

var rowPool = []uint64{0, 1, 2, 99, 100, 101, 199, 200}

// mutex fragments: few rows, always from at least two different 100-row blocks
var mutexRowPool = []uint64{0, 1, 5, 99, 100, 101, 205}
var colPool = []uint64{0, 1, 65535, 65536, fragx.SW - 1}

type universe struct {
	rows, cols []uint64
	depth      int
	kind       string // set | mutex | bool
}

func pickSome(r *vh.Rng, pool []uint64, n int) []uint64 {
	p := r.Perm(len(pool))
	out := make([]uint64, 0, n)
	for _, i := range p[:n] {
		out = append(out, pool[i])
	}
	return out
}

func (u *universe) row(r *vh.Rng) uint64 {
	if u.kind == "bool" {
		return uint64(r.Intn(2))
	}
	return u.rows[r.Intn(len(u.rows))]
}

// mutexWrite: the write paths that reach a mutex / bool fragment. Import batches name 1-4
// (row, column) pairs over <= 3 columns and rows of >= 2 blocks, so a batch regularly moves a
// column out of a row it does not name, into a row of another block.
func (u *universe) mutexWrite(r *vh.Rng) (string, string) {
	switch r.Intn(12) {
	case 0, 1:
		return fmt.Sprintf("setbit %%s %d %d", u.row(r), u.col(r)), "setbit-mutex"
	case 2:
		return fmt.Sprintf("clearbit %%s %d %d", u.row(r), u.col(r)), "clearbit"
	case 3, 4, 5, 6:
		return "import %s 0 " + u.pairs(r, 4), "import-mutex"
	case 7:
		return "import %s 1 " + u.pairs(r, 3), "import-clear"
	case 8:
		return fmt.Sprintf("clearrow %%s %d", u.row(r)), "clearrow"
	case 9:
		return "snapshot %s", "snapshot"
	case 10:
		return "reopen %s", "reopen"
	default:
		return "invalidate %s", "invalidate"
	}
}
func (u *universe) col(r *vh.Rng) uint64 { return u.cols[r.Intn(len(u.cols))] }

func (u *universe) pairs(r *vh.Rng, max int) string {
	n := r.Range(1, max)
	ss := make([]string, n)
	for i := range ss {
		ss[i] = fmt.Sprintf("%d:%d", u.row(r), u.col(r))
	}
	return strings.Join(ss, ",")
}

func (u *universe) cvs(r *vh.Rng, max int) string {
	n := r.Range(1, max)
	ss := make([]string, n)
	lim := 1<<uint(u.depth) - 1
	for i := range ss {
		ss[i] = fmt.Sprintf("%d:%d", u.col(r), r.Range(-lim, lim))
	}
	return strings.Join(ss, ",")
}

func (u *universe) subset(r *vh.Rng) string {
	var cs []uint64
	for _, c := range u.cols {
		if r.Bool() {
			cs = append(cs, c)
		}
	}
	return vh.CSV(vh.SortedU64(cs))
}

// write returns the operation with a %s placeholder for the fragment id, and its path name.
func (u *universe) write(r *vh.Rng) (string, string) {
	if u.kind != "set" {
		return u.mutexWrite(r)
	}
	lim := 1<<uint(u.depth) - 1
	switch r.Intn(15) {
	case 14:
		return "reopen %s", "reopen"
	case 0:
		return fmt.Sprintf("setbit %%s %d %d", u.row(r), u.col(r)), "setbit"
	case 1:
		return fmt.Sprintf("clearbit %%s %d %d", u.row(r), u.col(r)), "clearbit"
	case 2:
		return fmt.Sprintf("setrow %%s %d %s", u.row(r), u.subset(r)), "setrow"
	case 3:
		return fmt.Sprintf("clearrow %%s %d", u.row(r)), "clearrow"
	case 4:
		return "import %s 0 " + u.pairs(r, 4), "import-set"
	case 5:
		return "import %s 1 " + u.pairs(r, 4), "import-clear"
	case 6:
		return fmt.Sprintf("importvalue %%s 0 %d %s", u.depth, u.cvs(r, 4)), "importvalue"
	case 7:
		return fmt.Sprintf("importvalue %%s 1 %d %s", u.depth, u.cvs(r, 3)), "importvalue-clear"
	case 8:
		return "importroaring %s 0 " + u.pairs(r, 4), "importroaring-set"
	case 9:
		return "importroaring %s 1 " + u.pairs(r, 4), "importroaring-clear"
	case 10:
		return fmt.Sprintf("setvalue %%s %d %d %d", u.col(r), u.depth, r.Range(-lim, lim)), "setvalue"
	case 11:
		return fmt.Sprintf("clearvalue %%s %d %d %d", u.col(r), u.depth, r.Range(-lim, lim)), "clearvalue"
	case 12:
		return "snapshot %s", "snapshot"
	default:
		return "invalidate %s", "invalidate"
	}
}

func (p *prop) Gen(r *vh.Rng, tier string, n int) []vh.Case {
	var cases []vh.Case
	for k := 0; k < n; k++ {
		cr := r.Fork()
		u := &universe{rows: pickSome(cr, rowPool, cr.Range(2, 4)), cols: pickSome(cr, colPool, cr.Range(1, 3)), depth: cr.Range(1, 3),
			kind: cr.PickS("set", "set", "set", "mutex", "mutex", "bool")}
		if u.kind == "mutex" {
			for {
				u.rows = pickSome(cr, mutexRowPool, cr.Range(2, 4))
				blocks := map[uint64]bool{}
				for _, row := range u.rows {
					blocks[row/100] = true
				}
				if len(blocks) >= 2 {
					break
				}
			}
		}
		cache := cr.PickS("ranked", "lru", "none")
		shard := cr.Pick(0, 0, 1)
		lines := []string{
			fmt.Sprintf("open a %s %d %s %d 0", u.kind, shard, cache, cr.Pick(0, 0, 1, 2, 4, 8)),
			fmt.Sprintf("open b %s %d %s %d 0", u.kind, shard, cache, cr.Pick(0, 0, 1, 2, 4, 8)),
		}
		paths := map[string]bool{}
		steps := cr.Range(8, 20)
		if tier == "thorough" {
			steps = cr.Range(8, 32)
		}
		asked := false
		for i := 0; i < steps; i++ {
			w, path := u.write(cr)
			switch cr.Intn(10) {
			case 0, 1:
				lines = append(lines, fmt.Sprintf(w, "a"))
			case 2, 3:
				lines = append(lines, fmt.Sprintf(w, "b"))
			default:
				lines = append(lines, fmt.Sprintf(w, "a"), fmt.Sprintf(w, "b"))
			}
			if asked {
				paths[path] = true
			}
			switch cr.Intn(8) {
			case 0, 1:
				lines = append(lines, "blocks a")
				asked = true
			case 2, 3:
				lines = append(lines, "blocks b")
				asked = true
			case 4, 5, 6:
				lines = append(lines, "cmpblocks")
				asked = true
			default:
				lines = append(lines, fmt.Sprintf("blockdata %s %d", cr.PickS("a", "b"), cr.Intn(3)))
			}
		}
		lines = append(lines, "blocks a", "blocks b", "cmpblocks", "bits a", "bits b")
		cases = append(cases, vh.Case{Lines: lines, Nontrivial: len(paths) >= 3})
	}
	return cases
}

func main() { vh.Main(&prop{}) }
