// Harness for C11: anti-entropy block repair.
//
// Line formats are documented in lean/PV/C11/Main.lean.
//
//	merge    real fragments in scratch files: the remotes answer blockData(id), the local fragment
//	         runs mergeBlock, the returned diffs are applied to the remote fragments the way syncBlock's
//	         requests are (bitsToRoaringData + fragment.importRoaring).
//	mergeraw mergeBlock on arbitrary ascending pair sets.
//	clean    cleanViewName.
//	e2e      2-4 in-process replicas (real Holder, real API, real http.Handler on a loopback listener,
//	         real http.InternalClient), divergent contents written straight into each replica's
//	         fragments, then holderSyncer.SyncHolder on the listed nodes; every replica's views and
//	         fresh block checksums are read back.
package main

import (
	"context"
	"flag"
	"fmt"
	"net"
	gohttp "net/http"
	"os"
	"path/filepath"
	"reflect"
	"sort"
	"strconv"
	"strings"

	"github.com/pilosa/pilosa"
	"github.com/pilosa/pilosa/encoding/proto"
	"github.com/pilosa/pilosa/http"
	"verifharness/vh"
)

const sw = pilosa.ShardWidth

type pair struct{ r, c uint64 }

type node struct {
	n  *pilosa.VerifC11Node
	h  *http.Handler
	ln net.Listener
}

type clusterT struct {
	dir   string
	nodes []*node
}

type prop struct {
	clusters map[int]*clusterT
	seq      int
	scratch  string
	open     []openFrag
}

type openFrag struct {
	f    *pilosa.VerifC11Frag
	path string
}

func (p *prop) Rule() string {
	return "2-4 replicas with contents drawn from a few bit positions around block edges (rows 0,1,99,100,101,199,200; columns 0,1,65535,65536,ShardWidth-1), " +
		"standard and time views, any replica as the local one; thorough tier adds the exhaustive sweep of all contents over 3 bit positions for 2-4 replicas. " +
		"A case is non-trivial when at least two replicas differ inside the synced block (views)"
}

// ---------- text helpers ----------

func parsePairs(s string) []pair {
	if s == "-" || s == "" {
		return nil
	}
	var out []pair
	for _, t := range strings.Split(s, ",") {
		rc := strings.Split(t, ".")
		if len(rc) != 2 {
			panic("bad pair " + t)
		}
		r, err1 := strconv.ParseUint(rc[0], 10, 64)
		c, err2 := strconv.ParseUint(rc[1], 10, 64)
		if err1 != nil || err2 != nil {
			panic("bad pair " + t)
		}
		out = append(out, pair{r, c})
	}
	return out
}

func showPairs(rows, cols []uint64) string {
	if len(rows) == 0 {
		return "-"
	}
	ss := make([]string, len(rows))
	for i := range rows {
		ss[i] = fmt.Sprintf("%d.%d", rows[i], cols[i])
	}
	return strings.Join(ss, ",")
}

func split(ps []pair) (rows, cols []uint64) {
	for _, p := range ps {
		rows = append(rows, p.r)
		cols = append(cols, p.c)
	}
	return
}

func sortPairs(ps []pair) []pair {
	sort.Slice(ps, func(i, j int) bool { return ps[i].r < ps[j].r || (ps[i].r == ps[j].r && ps[i].c < ps[j].c) })
	var out []pair
	for i, p := range ps {
		if i == 0 || p != ps[i-1] {
			out = append(out, p)
		}
	}
	return out
}

func pairsText(ps []pair) string {
	r, c := split(sortPairs(ps))
	return showPairs(r, c)
}

// ---------- generation ----------

var edgeRows = []uint64{0, 1, 99, 100, 101, 199, 200}
var edgeCols = []uint64{0, 1, 65535, 65536, sw - 1}

func genUniverse(r *vh.Rng, k int) []pair {
	var u []pair
	for len(u) < k {
		p := pair{edgeRows[r.Intn(len(edgeRows))], edgeCols[r.Intn(len(edgeCols))]}
		dup := false
		for _, q := range u {
			if q == p {
				dup = true
			}
		}
		if !dup {
			u = append(u, p)
		}
	}
	return u
}

func genSubset(r *vh.Rng, u []pair) []pair {
	var out []pair
	for _, p := range u {
		if r.Chance(1, 2) {
			out = append(out, p)
		}
	}
	return out
}

func differ(reps [][]pair) bool {
	for i := 1; i < len(reps); i++ {
		if pairsText(reps[i]) != pairsText(reps[0]) {
			return true
		}
	}
	return false
}

var timeViews = []string{"standard", "standard_2019", "standard_201901", "standard_20190102"}

func genE2E(r *vh.Rng, n int, u []pair) (string, bool) {
	shard := r.Pick(0, 0, 1, 3)
	nviews := r.Pick(1, 1, 2, 3)
	views := []string{"standard"}
	if r.Chance(1, 2) {
		views = nil
	}
	for len(views) < nviews {
		v := timeViews[r.Intn(len(timeViews))]
		dup := false
		for _, w := range views {
			if w == v {
				dup = true
			}
		}
		if !dup {
			views = append(views, v)
		}
	}
	nontrivial := false
	reps := make([]string, n)
	perView := map[string][][]pair{}
	for i := 0; i < n; i++ {
		var parts []string
		for _, v := range views {
			if r.Chance(1, 6) {
				perView[v] = append(perView[v], nil)
				continue // replica without this view
			}
			ps := genSubset(r, u)
			perView[v] = append(perView[v], ps)
			parts = append(parts, v+"="+pairsText(ps))
		}
		if len(parts) == 0 {
			reps[i] = "-"
		} else {
			reps[i] = strings.Join(parts, ";")
		}
	}
	for _, v := range views {
		if differ(perView[v]) {
			nontrivial = true
		}
	}
	// order: one node, or all nodes in a random order
	var order []string
	if r.Chance(1, 2) {
		order = []string{strconv.Itoa(r.Intn(n))}
	} else {
		for _, i := range r.Perm(n) {
			order = append(order, strconv.Itoa(i))
		}
	}
	return fmt.Sprintf("e2e %d %s %s", shard, strings.Join(order, ","), strings.Join(reps, " ")), nontrivial
}

func genMerge(r *vh.Rng, n int, u []pair, raw bool) (string, bool) {
	shard := r.Pick(0, 0, 1, 3)
	id := r.Pick(0, 0, 1, 1, 2)
	reps := make([][]pair, n)
	ss := make([]string, n)
	for i := range reps {
		reps[i] = genSubset(r, u)
		ss[i] = pairsText(reps[i])
	}
	op := "merge"
	if raw {
		op = "mergeraw"
	}
	return fmt.Sprintf("%s %d %d %s", op, shard, id, strings.Join(ss, " ")), differ(reps)
}

func (p *prop) Gen(r *vh.Rng, tier string, n int) []vh.Case {
	var cases []vh.Case
	if tier == "thorough" {
		// the sweep is split over the workers (worker id = seed % 1000, see bin/check)
		w, workers := 0, 8
		if f := flag.Lookup("seed"); f != nil {
			if sd, err := strconv.ParseUint(f.Value.String(), 10, 64); err == nil {
				w = int(sd % 1000)
			}
		}
		for i, c := range exhaustive() {
			if i%workers == w%workers {
				cases = append(cases, c)
			}
		}
	}
	for k := 0; k < n; k++ {
		cr := r.Fork()
		nrep := cr.Pick(2, 2, 3, 3, 4, 5)
		u := genUniverse(cr, cr.Pick(2, 3, 4, 6))
		var line string
		var nt bool
		switch x := cr.Intn(20); {
		case x < 5:
			if nrep > 4 {
				nrep = 4
			}
			line, nt = genE2E(cr, nrep, u)
		case x < 14:
			line, nt = genMerge(cr, nrep, u, false)
		case x < 19:
			line, nt = genMerge(cr, nrep, u, true)
		default:
			line = "clean " + cr.PickS("standard", "standard_2019", "standard_", "standardx", "bsig_f", "standard_standard_1", "x")
			nt = true
		}
		cases = append(cases, vh.Case{Lines: []string{line}, Nontrivial: nt})
	}
	return cases
}

// exhaustive: 2-4 replicas x all contents over 3 bit positions, fragment level for every
// combination; end-to-end for 2 and 3 replicas (standard and one time view).
func exhaustive() []vh.Case {
	u := []pair{{0, 1}, {99, sw - 1}, {100, 0}}
	sub := func(m int) []pair {
		var out []pair
		for b := 0; b < 3; b++ {
			if m>>uint(b)&1 == 1 {
				out = append(out, u[b])
			}
		}
		return out
	}
	var cases []vh.Case
	for n := 2; n <= 4; n++ {
		total := 1
		for i := 0; i < n; i++ {
			total *= 8
		}
		for code := 0; code < total; code++ {
			reps := make([][]pair, n)
			ss := make([]string, n)
			c := code
			for i := 0; i < n; i++ {
				reps[i] = sub(c % 8)
				ss[i] = pairsText(reps[i])
				c /= 8
			}
			nt := differ(reps)
			cases = append(cases, vh.Case{Lines: []string{"merge 0 0 " + strings.Join(ss, " ")}, Nontrivial: nt})
			if n <= 3 {
				view := "standard"
				if code%2 == 1 {
					view = "standard_2019"
				}
				es := make([]string, n)
				for i := range es {
					es[i] = view + "=" + ss[i]
				}
				cases = append(cases, vh.Case{Lines: []string{fmt.Sprintf("e2e 0 %d %s", code%n, strings.Join(es, " "))}, Nontrivial: nt})
			}
		}
	}
	return cases
}

// ---------- execution ----------

func (p *prop) Exec(lines []string) []string {
	outs := make([]string, len(lines))
	for i, l := range lines {
		l := l
		outs[i] = vh.Guard("exec", func() string { return p.execLine(l) })
	}
	return outs
}

func (p *prop) execLine(l string) string {
	ws := strings.Fields(l)
	if len(ws) == 0 {
		return "bad-op"
	}
	switch ws[0] {
	case "merge", "mergeraw":
		if len(ws) < 4 {
			return "bad-op"
		}
		shard, e1 := strconv.ParseUint(ws[1], 10, 64)
		id, e2 := strconv.Atoi(ws[2])
		if e1 != nil || e2 != nil {
			return "bad-op"
		}
		return p.execMerge(ws[0] == "mergeraw", shard, id, ws[3:])
	case "clean":
		if len(ws) != 2 {
			return "bad-op"
		}
		c := pilosa.VerifC11CleanViewName(ws[1])
		if c == "" {
			return "-"
		}
		return c
	case "e2e":
		if len(ws) < 4 {
			return "bad-op"
		}
		shard, e1 := strconv.ParseUint(ws[1], 10, 64)
		if e1 != nil {
			return "bad-op"
		}
		return p.execE2E(shard, ws[2], ws[3:])
	}
	return "bad-op"
}

// frag opens a fresh scratch fragment (fresh per case: a fragment that already went through
// importRoaring is exposed to the container-lookaside defect of C02/C07, which is not C11's).
func (p *prop) frag(view string, shard uint64, i int) (*pilosa.VerifC11Frag, error) {
	if p.scratch == "" {
		d, err := os.MkdirTemp("", "verif-c11-frag-")
		if err != nil {
			panic(err)
		}
		p.scratch = d
	}
	path := filepath.Join(p.scratch, fmt.Sprintf("m%d_%d", p.seq, i))
	f, err := pilosa.VerifC11OpenFragment(path, "i", "f", view, shard)
	if err != nil {
		return nil, err
	}
	p.open = append(p.open, openFrag{f, path})
	return f, nil
}

func (p *prop) closeFrags() {
	for _, o := range p.open {
		_ = o.f.Close()
		_ = os.Remove(o.path)
		_ = os.Remove(o.path + ".cache")
	}
	p.open = nil
}

func (p *prop) execMerge(raw bool, shard uint64, id int, reps []string) string {
	p.seq++
	view := "standard"
	if p.seq%2 == 0 {
		view = "standard_2019"
	}
	defer p.closeFrags()
	var frags []*pilosa.VerifC11Frag
	var contents [][]pair
	for i, rs := range reps {
		ps := parsePairs(rs)
		contents = append(contents, ps)
		if raw && i > 0 {
			continue // raw remote data is handed over as slices
		}
		f, err := p.frag(view, shard, i)
		if err != nil {
			return "err:open"
		}
		frags = append(frags, f)
		r, c := split(ps)
		if err := f.SetBits(r, c); err != nil {
			return "err:setbits"
		}
	}
	var dr, dc [][]uint64
	for i := 1; i < len(reps); i++ {
		var r, c []uint64
		if raw {
			r, c = split(contents[i])
		} else {
			r, c = frags[i].BlockData(id)
		}
		dr = append(dr, r)
		dc = append(dc, c)
	}
	sr, sc, cr, cc, err := frags[0].MergeBlock(id, dr, dc)
	if err != nil {
		return "err:merge"
	}
	var sets, clears []string
	for i := range sr {
		sets = append(sets, showPairs(sr[i], sc[i]))
		clears = append(clears, showPairs(cr[i], cc[i]))
		if len(sr[i]) > 0 && len(cr[i]) > 0 {
			vh.Count("replica-needs-sets-and-clears")
		}
		if len(cr[i]) > 1 {
			vh.Count("replica-needs-several-clears")
		}
	}
	lr, lc := frags[0].Pairs()
	if raw {
		return fmt.Sprintf("sets=%s clears=%s local=%s", strings.Join(sets, "/"), strings.Join(clears, "/"), showPairs(lr, lc))
	}
	after := []string{showPairs(lr, lc)}
	for i := 1; i < len(frags); i++ {
		if err := frags[i].ApplyDiff(sr[i-1], sc[i-1], false); err != nil {
			return "err:apply-set"
		}
		if err := frags[i].ApplyDiff(cr[i-1], cc[i-1], true); err != nil {
			return "err:apply-clear"
		}
		r, c := frags[i].Pairs()
		after = append(after, showPairs(r, c))
	}
	// all replicas must also report identical fresh block checksums for the repaired block
	return fmt.Sprintf("sets=%s clears=%s after=%s", strings.Join(sets, "/"), strings.Join(clears, "/"), strings.Join(after, "/"))
}

// ---------- end to end ----------

func (p *prop) cluster(n int) *clusterT {
	if c := p.clusters[n]; c != nil {
		return c
	}
	dir, err := os.MkdirTemp("", "verif-c11-cluster-")
	if err != nil {
		panic(err)
	}
	c := &clusterT{dir: dir}
	var vnodes []*pilosa.VerifC11Node
	for i := 0; i < n; i++ {
		ln, err := net.Listen("tcp", "127.0.0.1:0")
		if err != nil {
			panic(err)
		}
		uri, err := pilosa.NewURIFromAddress(ln.Addr().String())
		if err != nil {
			panic(err)
		}
		vn, err := pilosa.VerifC11NewNode(filepath.Join(dir, fmt.Sprintf("n%d", i)), fmt.Sprintf("n%d", i), *uri)
		if err != nil {
			panic(err)
		}
		vn.API.Serializer = proto.Serializer{}
		h, err := http.NewHandler(http.OptHandlerAPI(vn.API), http.OptHandlerListener(ln))
		if err != nil {
			panic(err)
		}
		go func() { _ = h.Serve() }()
		if _, err := vn.Holder.CreateIndex("i", pilosa.IndexOptions{}); err != nil {
			panic(err)
		}
		c.nodes = append(c.nodes, &node{n: vn, h: h, ln: ln})
		vnodes = append(vnodes, vn)
	}
	client := http.NewInternalClientFromURI(&vnodes[0].Node.URI, &gohttp.Client{})
	pilosa.VerifC11Join(vnodes, client)
	if p.clusters == nil {
		p.clusters = map[int]*clusterT{}
	}
	p.clusters[n] = c
	return c
}

func (p *prop) close() {
	for _, c := range p.clusters {
		for _, nd := range c.nodes {
			_ = nd.h.Close()
			_ = nd.n.Close()
		}
		_ = os.RemoveAll(c.dir)
	}
	if p.scratch != "" {
		_ = os.RemoveAll(p.scratch)
	}
}

func (p *prop) execE2E(shard uint64, orderS string, reps []string) string {
	n := len(reps)
	if n < 2 || n > 4 {
		return "bad-op"
	}
	var order []int
	for _, s := range strings.Split(orderS, ",") {
		k, err := strconv.Atoi(s)
		if err != nil || k < 0 || k >= n {
			return "bad-op"
		}
		order = append(order, k)
	}
	type ent struct {
		view string
		ps   []pair
	}
	contents := make([][]ent, n)
	onlyStandard := true
	for i, rs := range reps {
		if rs == "-" {
			continue
		}
		for _, e := range strings.Split(rs, ";") {
			kv := strings.Split(e, "=")
			if len(kv) != 2 {
				return "bad-op"
			}
			contents[i] = append(contents[i], ent{kv[0], parsePairs(kv[1])})
			if kv[0] != "standard" {
				onlyStandard = false
			}
		}
	}
	c := p.cluster(n)
	p.seq++
	field := fmt.Sprintf("f%d", p.seq)
	opt := pilosa.OptFieldTypeTime(pilosa.TimeQuantum("YMD"))
	if onlyStandard && p.seq%2 == 0 {
		opt = pilosa.OptFieldTypeSet(pilosa.CacheTypeRanked, 100)
		vh.Count("e2e-set-field")
	} else {
		vh.Count("e2e-time-field")
	}
	for _, nd := range c.nodes {
		if _, err := nd.n.Holder.Index("i").CreateField(field, opt); err != nil {
			return "err:create-field"
		}
	}
	defer func() {
		for _, nd := range c.nodes {
			_ = nd.n.Holder.Index("i").DeleteField(field)
		}
	}()
	for i, nd := range c.nodes {
		for _, e := range contents[i] {
			r, cc := split(e.ps)
			if err := nd.n.SetBits("i", field, e.view, shard, r, cc); err != nil {
				return "err:setbits"
			}
		}
	}
	for _, k := range order {
		if err := c.nodes[k].n.SyncHolder(); err != nil {
			vh.Count("sync-error")
			return "err:sync"
		}
	}
	// read back
	viewSet := map[string]bool{}
	for _, nd := range c.nodes {
		for _, v := range nd.n.Views("i", field) {
			viewSet[v] = true
		}
	}
	var views []string
	for v := range viewSet {
		views = append(views, v)
	}
	sort.Strings(views)
	blocksEq := true
	outs := make([]string, n)
	partsPer := make([][]string, n)
	for _, v := range views {
		var first []pilosa.FragmentBlock
		for i, nd := range c.nodes {
			stale := nd.n.Blocks("i", field, v, shard, false)
			fresh := nd.n.Blocks("i", field, v, shard, true)
			if !reflect.DeepEqual(stale, fresh) {
				vh.Count("stale-checksum-cache-after-repair(C10)")
			}
			if i == 0 {
				first = fresh
			} else if !reflect.DeepEqual(first, fresh) {
				blocksEq = false
			}
			r, cc, _ := nd.n.Pairs("i", field, v, shard)
			if len(r) > 0 {
				partsPer[i] = append(partsPer[i], v+"="+showPairs(r, cc))
			}
		}
	}
	for i := range outs {
		outs[i] = fmt.Sprintf("n%d{%s}", i, strings.Join(partsPer[i], ";"))
	}
	res := strings.Join(outs, " ")
	if blocksEq {
		return res + " blocks=eq"
	}
	return res + " blocks=ne"
}

var _ = context.Background

func main() {
	p := &prop{}
	defer p.close()
	vh.Main(p)
}
