// Harness for C01: roaring container kernels and Bitmap reads / set operations.
//
// Line formats are documented in lean/PV/C01/Main.lean. Kernel lines (`k ...`) build containers of
// the requested encodings through the verif hooks (roaring/verif_c01.go) and run one kernel;
// bitmap lines drive the exported roaring.Bitmap API on named registers. Results are printed as
// value sets (maximal ranges) plus the stored cardinality, never as the chosen encoding.
package main

import (
	"bytes"
	"fmt"
	"sort"
	"strconv"
	"strings"

	"github.com/pilosa/pilosa/roaring"
	"verifharness/vh"
)

type prop struct{}

func (p *prop) Rule() string {
	return "containers: value sets built from runs/singles whose starts and lasts sit at 0/1/63/64/65/4095/4096/4097/65534/65535 or +-1 around " +
		"another operand's run boundaries, cardinalities 4095/4096/4097 (array/bitmap threshold), 2047/2048/2049 runs, full and empty containers, " +
		"each in every encoding (array, bitmap, run with optionally split adjacent runs) and every encoding pairing; ranges [s,e) on and next to run " +
		"boundaries; bitmaps over keys 0,1,2,65535,65536,2^48-2,2^48-1 built fresh (slice and B-tree), from explicit containers (incl. empty and nil ones), " +
		"Optimize()d and decoded (UnmarshalBinary); histories mix every read with every set operation on the results; plus the wide B-tree family: " +
		"3 cases per stream with 509..1300 containers (more than one B-tree leaf page) built by ascending/descending/random inserts, block and scattered " +
		"removals and re-adds, then CountRange/Seek+Next/SliceRange/OffsetRange/Contains aimed at every container key in turn. A kernel case is non-trivial when " +
		"both operands are non-empty; a bitmap case when some register is non-empty and it has >= 3 reads/operations"
}

// ---------- value sets as items ----------

type iv struct{ s, l uint64 }

func parseItems(s string) ([]iv, bool) {
	if s == "-" || s == "" {
		return nil, true
	}
	var out []iv
	for _, it := range strings.Split(s, ",") {
		ps := strings.Split(it, "-")
		switch len(ps) {
		case 1:
			v, err := strconv.ParseUint(ps[0], 10, 64)
			if err != nil {
				return nil, false
			}
			out = append(out, iv{v, v})
		case 2:
			a, err1 := strconv.ParseUint(ps[0], 10, 64)
			b, err2 := strconv.ParseUint(ps[1], 10, 64)
			if err1 != nil || err2 != nil {
				return nil, false
			}
			out = append(out, iv{a, b})
		default:
			return nil, false
		}
	}
	return out, true
}

func expand(ivs []iv) []uint64 {
	var out []uint64
	for _, r := range ivs {
		for v := r.s; v <= r.l; v++ {
			out = append(out, v)
			if v == ^uint64(0) {
				break
			}
		}
	}
	return out
}

func showItems(vs []uint64) string {
	if len(vs) == 0 {
		return "-"
	}
	var sb strings.Builder
	s, p := vs[0], vs[0]
	flush := func() {
		if sb.Len() > 0 {
			sb.WriteByte(',')
		}
		if s == p {
			sb.WriteString(strconv.FormatUint(s, 10))
		} else {
			sb.WriteString(strconv.FormatUint(s, 10))
			sb.WriteByte('-')
			sb.WriteString(strconv.FormatUint(p, 10))
		}
	}
	for _, v := range vs[1:] {
		if v == p+1 {
			p = v
			continue
		}
		flush()
		s, p = v, v
	}
	flush()
	return sb.String()
}

func showIvs(ivs []iv) string {
	if len(ivs) == 0 {
		return "-"
	}
	ss := make([]string, len(ivs))
	for i, r := range ivs {
		if r.s == r.l {
			ss[i] = strconv.FormatUint(r.s, 10)
		} else {
			ss[i] = fmt.Sprintf("%d-%d", r.s, r.l)
		}
	}
	return strings.Join(ss, ",")
}

func u16s(c *roaring.Container) []uint64 {
	vs := roaring.VerifC01Values(c)
	out := make([]uint64, len(vs))
	for i, v := range vs {
		out[i] = uint64(v)
	}
	return out
}

func showC(c *roaring.Container) string {
	return fmt.Sprintf("%s n=%d", showItems(u16s(c)), c.N())
}

func parseContainer(s string) (*roaring.Container, bool) {
	ps := strings.SplitN(s, ":", 2)
	if len(ps) != 2 {
		return nil, false
	}
	ivs, ok := parseItems(ps[1])
	if !ok {
		return nil, false
	}
	for _, r := range ivs {
		if r.l > 65535 || r.s > r.l {
			return nil, false
		}
	}
	switch ps[0] {
	case "a", "b":
		vs := expand(ivs)
		v16 := make([]uint16, len(vs))
		for i, v := range vs {
			v16[i] = uint16(v)
		}
		if ps[0] == "a" {
			return roaring.VerifC01Array(v16), true
		}
		return roaring.VerifC01Bitmap(v16), true
	case "r":
		rs := make([][2]uint16, len(ivs))
		for i, r := range ivs {
			rs[i] = [2]uint16{uint16(r.s), uint16(r.l)}
		}
		return roaring.VerifC01Run(rs), true
	}
	return nil, false
}

// ---------- generation ----------

var edges = []uint64{0, 1, 63, 64, 65, 4095, 4096, 4097, 65534, 65535}

func near(r *vh.Rng, base uint64) uint64 {
	d := uint64(r.Intn(3)) // 0,1,2 -> -1,0,+1
	v := base + d
	if v == 0 {
		return 0
	}
	v--
	if v > 65535 {
		return 65535
	}
	return v
}

// normalize sorts and merges overlapping/adjacent intervals into maximal runs.
func normalize(ivs []iv) []iv {
	if len(ivs) == 0 {
		return nil
	}
	sort.Slice(ivs, func(i, j int) bool { return ivs[i].s < ivs[j].s })
	out := []iv{ivs[0]}
	for _, r := range ivs[1:] {
		last := &out[len(out)-1]
		if last.l == ^uint64(0) || r.s <= last.l+1 {
			if r.l > last.l {
				last.l = r.l
			}
		} else {
			out = append(out, r)
		}
	}
	return out
}

// genSet produces a container-sized value set (maximal runs), aimed at kernel branch boundaries.
// `other` (possibly nil) is the first operand: boundaries of its runs are reused +-1.
func genSet(r *vh.Rng, other []iv, big bool) []iv {
	shape := r.Intn(14)
	if !big && shape >= 9 {
		shape = r.Intn(9)
	}
	var ivs []iv
	pick := func() uint64 {
		if len(other) > 0 && r.Chance(1, 2) {
			o := other[r.Intn(len(other))]
			if r.Bool() {
				return near(r, o.s)
			}
			return near(r, o.l)
		}
		if r.Chance(2, 3) {
			return near(r, edges[r.Intn(len(edges))])
		}
		return uint64(r.Intn(200))
	}
	switch shape {
	case 0:
		return nil
	case 1: // single value
		v := pick()
		ivs = append(ivs, iv{v, v})
	case 2, 3: // a few singles
		for i, n := 0, r.Range(1, 6); i < n; i++ {
			v := pick()
			ivs = append(ivs, iv{v, v})
		}
	case 4, 5, 6: // a few runs
		for i, n := 0, r.Range(1, 5); i < n; i++ {
			a, b := pick(), pick()
			if a > b {
				a, b = b, a
			}
			if b-a > 300 && r.Chance(2, 3) {
				b = a + uint64(r.Intn(70))
			}
			ivs = append(ivs, iv{a, b})
		}
	case 7: // subset / perturbation of the other operand
		for _, o := range other {
			switch r.Intn(4) {
			case 0:
				ivs = append(ivs, o)
			case 1:
				ivs = append(ivs, iv{o.s, o.s})
			case 2:
				ivs = append(ivs, iv{o.l, o.l})
			}
		}
		if len(ivs) == 0 {
			v := pick()
			ivs = append(ivs, iv{v, v})
		}
	case 8: // one long run with holes
		a := near(r, edges[r.Intn(4)])
		b := a + uint64(r.Range(100, 400))
		ivs = append(ivs, iv{a, b})
		out := normalize(ivs)
		var cut []iv
		for _, o := range out {
			h := o.s + uint64(r.Intn(int(o.l-o.s+1)))
			if h > o.s {
				cut = append(cut, iv{o.s, h - 1})
			}
			if h < o.l {
				cut = append(cut, iv{h + 1, o.l})
			}
		}
		return cut
	case 9: // full, or full minus a value / an edge
		switch r.Intn(4) {
		case 0:
			return []iv{{0, 65535}}
		case 1:
			return []iv{{1, 65535}}
		case 2:
			return []iv{{0, 65534}}
		default:
			h := pick()
			var out []iv
			if h > 0 {
				out = append(out, iv{0, h - 1})
			}
			if h < 65535 {
				out = append(out, iv{h + 1, 65535})
			}
			return out
		}
	case 10: // cardinality around the array/bitmap threshold, contiguous
		n := uint64(r.Pick(4095, 4096, 4097))
		a := uint64(r.Pick(0, 1, 64, 61000))
		if a+n-1 > 65535 {
			a = 65536 - n
		}
		ivs = append(ivs, iv{a, a + n - 1})
		if r.Bool() {
			ivs = append(ivs, iv{65535, 65535})
		}
	case 11: // cardinality around 4096 with stride 2 (also > 2048 runs)
		n := r.Pick(4095, 4096, 4097)
		a := uint64(r.Pick(0, 1, 57000))
		for i := 0; i < n; i++ {
			v := a + 2*uint64(i)
			if v > 65535 {
				break
			}
			ivs = append(ivs, iv{v, v})
		}
	case 12: // run count around runMaxSize: runs of length 2 with stride 3, or of length 3 stride 5
		n := r.Pick(2047, 2048, 2049)
		ln, st := uint64(2), uint64(3)
		if r.Bool() {
			ln, st = 3, 5
		}
		a := uint64(r.Pick(0, 1, 100))
		for i := 0; i < n; i++ {
			s := a + st*uint64(i)
			if s+ln-1 > 65535 {
				break
			}
			ivs = append(ivs, iv{s, s + ln - 1})
		}
	case 13: // dense: long runs separated by single holes, > 4096 values
		a := uint64(r.Pick(0, 1, 30000))
		for i := 0; i < r.Range(3, 12); i++ {
			ln := uint64(r.Range(300, 1500))
			if a+ln > 65535 {
				break
			}
			ivs = append(ivs, iv{a, a + ln - 1})
			a += ln + uint64(r.Range(1, 2))
		}
		if r.Bool() {
			ivs = append(ivs, iv{65000, 65535})
		}
	}
	return normalize(ivs)
}

// splitRuns optionally cuts maximal runs into adjacent pieces (a valid run container need not
// have maximal runs, e.g. after decoding).
func splitRuns(r *vh.Rng, ivs []iv) []iv {
	if !r.Chance(1, 4) {
		return ivs
	}
	var out []iv
	for _, o := range ivs {
		if o.l > o.s && r.Bool() {
			m := o.s + uint64(r.Intn(int(o.l-o.s)))
			out = append(out, iv{o.s, m}, iv{m + 1, o.l})
		} else {
			out = append(out, o)
		}
	}
	return out
}

func encode(r *vh.Rng, enc string, set []iv) string {
	if enc == "r" {
		return "r:" + showIvs(splitRuns(r, set))
	}
	return enc + ":" + showIvs(set)
}

func card(set []iv) uint64 {
	n := uint64(0)
	for _, o := range set {
		n += o.l - o.s + 1
	}
	return n
}

func genRange(r *vh.Rng, set []iv) (uint64, uint64) {
	pick := func() uint64 {
		if len(set) > 0 && r.Chance(3, 4) {
			o := set[r.Intn(len(set))]
			b := o.s
			if r.Bool() {
				b = o.l
			}
			d := uint64(r.Intn(4)) // -1..+2
			v := b + d
			if v == 0 {
				return 0
			}
			return v - 1
		}
		return edges[r.Intn(len(edges))] + uint64(r.Intn(2))
	}
	a, b := pick(), pick()
	if a > b {
		a, b = b, a
	}
	if b > 65536 {
		b = 65536
	}
	// Container.countRange is only called with start <= 65535 (lowbits of a value)
	if a > 65535 {
		a = 65535
	}
	if a > b {
		a = b
	}
	return a, b
}

var encs = []string{"a", "b", "r"}

func genKernelCase(r *vh.Rng) vh.Case {
	big := r.Chance(1, 8)
	a := genSet(r, nil, big)
	ea := encs[r.Intn(3)]
	switch r.Intn(16) {
	case 0, 1, 2:
		s, e := genRange(r, a)
		vh.Count("k-cr-" + ea)
		return vh.Case{Lines: []string{fmt.Sprintf("k cr %s %d %d", encode(r, ea, a), s, e)}, Nontrivial: len(a) > 0}
	case 3:
		op := r.PickS("shift", "flip", "max", "runs", "opt")
		vh.Count("k-" + op + "-" + ea)
		return vh.Case{Lines: []string{fmt.Sprintf("k %s %s", op, encode(r, ea, a))}, Nontrivial: len(a) > 0}
	case 4:
		var conv string
		switch ea {
		case "a":
			conv = r.PickS("arrayToBitmap", "arrayToRun")
		case "b":
			conv = r.PickS("bitmapToArray", "bitmapToRun")
		default:
			conv = r.PickS("runToArray", "runToBitmap")
		}
		vh.Count("k-conv-" + conv)
		return vh.Case{Lines: []string{fmt.Sprintf("k conv %s %s", conv, encode(r, ea, a))}, Nontrivial: len(a) > 0}
	case 5:
		v := uint64(0)
		if len(a) > 0 {
			o := a[r.Intn(len(a))]
			v = near(r, r.PickU(o.s, o.l))
		}
		return vh.Case{Lines: []string{fmt.Sprintf("k has %s %d", encode(r, ea, a), v)}, Nontrivial: len(a) > 0}
	}
	b := genSet(r, a, big || r.Chance(1, 10))
	eb := encs[r.Intn(3)]
	op := r.PickS("and", "or", "andnot", "xor", "ic", "and", "or", "andnot", "xor")
	vh.Count("k-" + op + "-" + ea + eb)
	return vh.Case{Lines: []string{fmt.Sprintf("k %s %s %s", op, encode(r, ea, a), encode(r, eb, b))},
		Nontrivial: len(a) > 0 && len(b) > 0}
}

var keys = []uint64{0, 1, 2, 3, 65535, 65536, (1 << 48) - 2, (1 << 48) - 1}

// genBitmapSet: a set of uint64 as maximal runs, spread over a few container keys.
func genBitmapSet(r *vh.Rng, big bool) []iv {
	var out []iv
	nk := r.Range(0, 3)
	base := r.Intn(len(keys))
	for i := 0; i < nk; i++ {
		k := keys[(base+r.Intn(3))%len(keys)]
		if r.Chance(3, 4) {
			k = keys[r.Intn(4)]
		}
		for _, o := range genSet(r, nil, big && r.Chance(1, 3)) {
			out = append(out, iv{k<<16 + o.s, k<<16 + o.l})
		}
	}
	return normalize(out)
}

func genEntries(r *vh.Rng) (string, bool) {
	n := r.Range(1, 4)
	ks := map[uint64]bool{}
	var order []uint64
	for len(order) < n {
		k := keys[r.Intn(len(keys))]
		if r.Chance(2, 3) {
			k = keys[r.Intn(4)]
		}
		if !ks[k] {
			ks[k] = true
			order = append(order, k)
		}
	}
	var es []string
	nonempty := false
	for _, k := range order {
		switch r.Intn(8) {
		case 0:
			es = append(es, fmt.Sprintf("%d=nil", k))
		case 1:
			es = append(es, fmt.Sprintf("%d=%s:-", k, encs[r.Intn(3)]))
		default:
			set := genSet(r, nil, r.Chance(1, 12))
			if len(set) > 0 {
				nonempty = true
			}
			es = append(es, fmt.Sprintf("%d=%s", k, encode(r, encs[r.Intn(3)], set)))
		}
	}
	return strings.Join(es, ";"), nonempty
}

func genBitmapCase(r *vh.Rng, tier string) vh.Case {
	var lines []string
	regs := []string{}
	sets := map[string][]iv{} // approximate knowledge used only to aim reads
	nonempty := false
	nreg := r.Range(2, 4)
	big := r.Chance(1, 10)
	for i := 0; i < nreg; i++ {
		name := fmt.Sprintf("r%d", i)
		kind := r.PickS("s", "s", "t")
		if r.Chance(2, 5) {
			es, ne := genEntries(r)
			nonempty = nonempty || ne
			lines = append(lines, fmt.Sprintf("mk %s %s %s", name, kind, es))
			vh.Count("bm-mk-" + kind)
		} else {
			set := genBitmapSet(r, big)
			if len(set) > 0 {
				nonempty = true
			}
			sets[name] = set
			lines = append(lines, fmt.Sprintf("new %s %s %s", name, kind, showIvs(set)))
			vh.Count("bm-new-" + kind)
		}
		regs = append(regs, name)
		if r.Chance(1, 4) {
			lines = append(lines, "opt "+name)
			vh.Count("bm-optimize")
		} else if r.Chance(1, 5) {
			lines = append(lines, fmt.Sprintf("rt %s %s %s", name, name, r.PickS("s", "t")))
			vh.Count("bm-decoded")
		}
	}
	pickReg := func() string { return regs[r.Intn(len(regs))] }
	pickVal := func(reg string) uint64 {
		if set := sets[reg]; len(set) > 0 && r.Chance(3, 4) {
			o := set[r.Intn(len(set))]
			b := r.PickU(o.s, o.l)
			d := uint64(r.Intn(4))
			if b+d == 0 {
				return 0
			}
			if b+d < b { // overflow
				return b
			}
			return b + d - 1
		}
		k := keys[r.Intn(len(keys))]
		if r.Chance(2, 3) {
			k = keys[r.Intn(4)]
		}
		return k<<16 + edges[r.Intn(len(edges))]
	}
	nops := r.Range(4, 10)
	nextReg := nreg
	newReg := func() string {
		name := fmt.Sprintf("r%d", nextReg)
		nextReg++
		regs = append(regs, name)
		return name
	}
	for i := 0; i < nops; i++ {
		a := pickReg()
		switch r.Intn(20) {
		case 0:
			lines = append(lines, fmt.Sprintf("has %s %d", a, pickVal(a)))
		case 1:
			lines = append(lines, "count "+a)
		case 2, 3, 4:
			s, e := pickVal(a), pickVal(a)
			if s > e {
				s, e = e, s
			}
			lines = append(lines, fmt.Sprintf("cr %s %d %d", a, s, e))
		case 5:
			lines = append(lines, "min "+a, "max "+a)
		case 6:
			lines = append(lines, "slice "+a)
		case 7:
			s, e := pickVal(a), pickVal(a)
			if s > e {
				s, e = e, s
			}
			lines = append(lines, fmt.Sprintf("sr %s %d %d", a, s, e))
		case 8, 9:
			lines = append(lines, fmt.Sprintf("seek %s %d %d", a, pickVal(a), r.Range(1, 6)))
		case 10:
			hi0 := keys[r.Intn(4)]
			hi1 := hi0 + uint64(r.Range(0, 3))
			off := keys[r.Intn(6)]
			lines = append(lines, fmt.Sprintf("offr %s %s %d %d %d", newReg(), a, off<<16, hi0<<16, hi1<<16))
		case 11:
			lines = append(lines, fmt.Sprintf("ic %s %s", a, pickReg()))
		case 12, 13:
			lines = append(lines, fmt.Sprintf("and %s %s %s", newReg(), a, pickReg()))
		case 14:
			lines = append(lines, fmt.Sprintf("andnot %s %s %s", newReg(), a, pickReg()))
		case 15:
			lines = append(lines, fmt.Sprintf("xor %s %s %s", newReg(), a, pickReg()))
		case 16:
			n := r.Range(0, 3)
			l := fmt.Sprintf("or %s %s", newReg(), a)
			for j := 0; j < n; j++ {
				l += " " + pickReg()
			}
			lines = append(lines, l)
			vh.Count(fmt.Sprintf("bm-union-%d", n))
		case 17:
			var others []string
			for _, o := range regs {
				if o != a && r.Bool() {
					others = append(others, o)
				}
			}
			lines = append(lines, strings.TrimSpace("orin "+a+" "+strings.Join(others, " ")))
			delete(sets, a)
		case 18:
			lines = append(lines, fmt.Sprintf("shift %s %s", newReg(), a))
		case 19:
			s := pickVal(a)
			w := uint64(r.Range(0, 40))
			if tier == "thorough" && r.Chance(1, 20) {
				w = uint64(r.Range(4000, 70000))
			}
			e := s + w
			if e < s {
				e = s // no wrap-around (and Flip never terminates for end = 2^64-1)
			}
			if e == ^uint64(0) {
				e--
				if s > e {
					s = e
				}
			}
			lines = append(lines, fmt.Sprintf("flip %s %s %d %d", newReg(), a, s, e))
		}
	}
	// always finish by re-reading every register: results must not have disturbed their inputs
	for _, g := range regs {
		if r.Chance(1, 2) {
			lines = append(lines, "slice "+g)
		} else {
			lines = append(lines, "count "+g)
		}
	}
	return vh.Case{Lines: lines, Nontrivial: nonempty && nops >= 3}
}

// ---------- wide B-tree family ----------
//
// One leaf page of roaring/btree.go holds 2*kd = 508 containers, so a collection with more than
// 508 containers has an index page and every read that seeks a key (CountRange, Iterator.Seek,
// SliceRange, OffsetRange) descends through it; a key equal to an index separator (the first key of
// a right-hand leaf) takes a different branch of (*tree).Seek. The family builds 509..1300
// containers by ascending / descending / random-order inserts, optionally empties blocks of
// consecutive containers (leaf underflow, concat, catenation of the root) and re-adds some, and then
// aims seeking reads at EVERY container key in turn, and at keys before the first / after the last.

func singles(vs []uint64) string {
	ss := make([]string, len(vs))
	for i, v := range vs {
		ss[i] = strconv.FormatUint(v, 10)
	}
	if len(ss) == 0 {
		return "-"
	}
	return strings.Join(ss, ",")
}

var wideLows = []uint64{3, 700, 65535}

func genWideCase(r *vh.Rng, variant int) vh.Case {
	kind := "t"
	if variant%4 == 3 {
		kind = "s" // the slice collection, for comparison
	}
	vh.Count("wide-" + kind)
	n := r.Range(640, 1300)
	base := uint64(r.Pick(0, 1, 7, 65000, 1<<32))
	stride := uint64(1)
	if r.Chance(1, 4) {
		stride = uint64(r.Range(2, 3))
	}
	keys := make([]uint64, n)
	for i := range keys {
		keys[i] = base + uint64(i)*stride
	}
	// two or three values per container so that "count to the end of the container" is visible
	var vals []uint64
	for _, k := range keys {
		vals = append(vals, k<<16|3, k<<16|700)
		if r.Chance(1, 3) {
			vals = append(vals, k<<16|65535)
		}
	}
	order := r.Intn(3)
	switch order {
	case 1: // descending
		for i, j := 0, len(vals)-1; i < j; i, j = i+1, j-1 {
			vals[i], vals[j] = vals[j], vals[i]
		}
		vh.Count("wide-insert-desc")
	case 2: // random
		pm := r.Perm(len(vals))
		sh := make([]uint64, len(vals))
		for i, j := range pm {
			sh[i] = vals[j]
		}
		vals = sh
		vh.Count("wide-insert-random")
	default:
		vh.Count("wide-insert-asc")
	}
	lines := []string{fmt.Sprintf("new w %s -", kind), "addv w " + singles(vals)}
	present := map[uint64]bool{}
	for _, k := range keys {
		present[k] = true
	}
	if variant%2 == 1 {
		// empty blocks of consecutive containers and scattered single containers, keep >= 509
		var rm []uint64
		drop := func(k uint64) {
			if present[k] && len(present) > 509 {
				delete(present, k)
				rm = append(rm, k<<16|3, k<<16|700, k<<16|65535)
			}
		}
		for b := 0; b < r.Range(1, 3); b++ {
			at := r.Intn(n)
			ln := r.Range(40, 320)
			for i := at; i < at+ln && i < n; i++ {
				drop(keys[i])
			}
		}
		for i := 0; i < n; i++ {
			if r.Chance(1, 9) {
				drop(keys[i])
			}
		}
		if r.Bool() { // removals in descending order too
			for i, j := 0, len(rm)-1; i < j; i, j = i+1, j-1 {
				rm[i], rm[j] = rm[j], rm[i]
			}
		}
		lines = append(lines, "rm w "+singles(rm))
		vh.Count("wide-removals")
		// re-add a few of the removed containers with one value
		var back []uint64
		for _, k := range keys {
			if !present[k] && r.Chance(1, 6) {
				present[k] = true
				back = append(back, k<<16|700)
			}
		}
		if len(back) > 0 {
			lines = append(lines, "addv w "+singles(back))
		}
	}
	lines = append(lines, "count w", "min w", "max w", "slice w")
	first, last := keys[0], keys[n-1]
	// below the first and above the last key
	lines = append(lines, "seek w 0 2", fmt.Sprintf("cr w 0 %d", first<<16|4),
		fmt.Sprintf("seek w %d 2", (last+1)<<16), fmt.Sprintf("cr w %d %d", last<<16|701, (last+2)<<16),
		fmt.Sprintf("sr w %d %d", (last+1)<<16, (last+3)<<16))
	for i, k := range keys {
		lo := k << 16
		// inside one container: only the first value(s) are in range
		lines = append(lines, fmt.Sprintf("cr w %d %d", lo, lo|100))
		lines = append(lines, fmt.Sprintf("seek w %d 2", lo|uint64(r.Pick(0, 3, 4))))
		lines = append(lines, fmt.Sprintf("sr w %d %d", lo, lo|701))
		// a range starting exactly at this key and ending in a later container
		lines = append(lines, fmt.Sprintf("cr w %d %d", lo, (k+uint64(r.Range(1, 3))*stride)<<16|4))
		switch i % 4 {
		case 0:
			lines = append(lines, fmt.Sprintf("has w %d", lo|700))
		case 1:
			lines = append(lines, fmt.Sprintf("offr o w %d %d %d", uint64(r.Pick(0, 5))<<16, lo, (k+2*stride)<<16))
		case 2: // a range ending exactly at this key
			s := first << 16
			if i > 3 {
				s = keys[i-3]<<16 | 4
			}
			lines = append(lines, fmt.Sprintf("cr w %d %d", s, lo))
		case 3:
			lines = append(lines, fmt.Sprintf("cr w %d %d", lo|4, lo|65535))
		}
	}
	return vh.Case{Lines: lines, Nontrivial: true}
}

func (p *prop) Gen(r *vh.Rng, tier string, n int) []vh.Case {
	var cases []vh.Case
	// the wide B-tree family: a fixed number of cases in every stream (they are long)
	nWide := 3
	if tier == "thorough" {
		nWide = 4 + n/2500
	}
	off := r.Intn(4) // consecutive variants: always one with and one without removals
	for k := 0; k < nWide; k++ {
		cases = append(cases, genWideCase(r.Fork(), k+off))
	}
	for k := 0; k < n; k++ {
		cr := r.Fork()
		if cr.Chance(1, 5) {
			cases = append(cases, genBitmapCase(cr, tier))
		} else {
			cases = append(cases, genKernelCase(cr))
		}
	}
	return cases
}

// ---------- execution ----------

type state struct {
	regs map[string]*roaring.Bitmap
	keep [][]byte // buffers decoded bitmaps point into
}

func (p *prop) Exec(lines []string) []string {
	st := &state{regs: map[string]*roaring.Bitmap{}}
	outs := make([]string, len(lines))
	for i, l := range lines {
		l := l
		outs[i] = vh.Guard(opName(l), func() string { return st.execLine(l) })
	}
	return outs
}

func opName(l string) string {
	ws := strings.Fields(l)
	if len(ws) == 0 {
		return "empty"
	}
	if ws[0] == "k" && len(ws) > 1 {
		return "k-" + ws[1]
	}
	return ws[0]
}

func kernel(ws []string) string {
	switch {
	case len(ws) == 4 && ws[0] == "cr":
		c, ok := parseContainer(ws[1])
		s, err1 := strconv.ParseInt(ws[2], 10, 32)
		e, err2 := strconv.ParseInt(ws[3], 10, 32)
		if !ok || err1 != nil || err2 != nil {
			return "bad-op"
		}
		return strconv.Itoa(int(roaring.VerifC01CountRange(c, int32(s), int32(e))))
	case len(ws) == 3 && ws[0] == "ic":
		a, ok1 := parseContainer(ws[1])
		b, ok2 := parseContainer(ws[2])
		if !ok1 || !ok2 {
			return "bad-op"
		}
		return strconv.Itoa(int(roaring.VerifC01IntersectionCount(a, b)))
	case len(ws) == 3 && ws[0] == "conv":
		c, ok := parseContainer(ws[2])
		if !ok {
			return "bad-op"
		}
		want := map[string]string{"arrayToBitmap": "array", "arrayToRun": "array", "bitmapToArray": "bitmap",
			"bitmapToRun": "bitmap", "runToArray": "run", "runToBitmap": "run"}[ws[1]]
		if want == "" || roaring.VerifC01Type(c) != want {
			return "bad-op"
		}
		return showC(roaring.VerifC01Convert(c, ws[1]))
	case len(ws) == 3 && ws[0] == "has":
		c, ok := parseContainer(ws[1])
		v, err := strconv.ParseUint(ws[2], 10, 16)
		if !ok || err != nil {
			return "bad-op"
		}
		return strconv.FormatBool(c.Contains(uint16(v)))
	case len(ws) == 3:
		a, ok1 := parseContainer(ws[1])
		b, ok2 := parseContainer(ws[2])
		if !ok1 || !ok2 {
			return "bad-op"
		}
		op := map[string]string{"and": "intersect", "or": "union", "andnot": "difference", "xor": "xor"}[ws[0]]
		if op == "" {
			return "bad-op"
		}
		return showC(roaring.VerifC01Binary(op, a, b))
	case len(ws) == 2:
		c, ok := parseContainer(ws[1])
		if !ok {
			return "bad-op"
		}
		switch ws[0] {
		case "shift":
			o, carry := roaring.VerifC01Shift(c)
			return fmt.Sprintf("%s carry=%v", showC(o), carry)
		case "flip":
			return showC(roaring.VerifC01Flip(c))
		case "max":
			return strconv.Itoa(int(roaring.VerifC01Max(c)))
		case "runs":
			return strconv.Itoa(int(roaring.VerifC01CountRuns(c)))
		case "opt":
			return showC(roaring.VerifC01Optimize(c))
		}
	}
	return "bad-op"
}

func newBitmap(kind string) *roaring.Bitmap {
	if kind == "t" {
		return roaring.NewBTreeBitmap()
	}
	return roaring.NewBitmap()
}

func showB(b *roaring.Bitmap) string {
	return fmt.Sprintf("%s c=%d", showItems(b.Slice()), b.Count())
}

func u64(s string) (uint64, bool) {
	v, err := strconv.ParseUint(s, 10, 64)
	return v, err == nil
}

func (st *state) execLine(l string) string {
	ws := strings.Fields(l)
	if len(ws) == 0 {
		return "bad-op"
	}
	if ws[0] == "k" {
		return kernel(ws[1:])
	}
	get := func(name string) *roaring.Bitmap { return st.regs[name] }
	switch {
	case ws[0] == "new" && len(ws) == 4:
		ivs, ok := parseItems(ws[3])
		if !ok || (ws[2] != "s" && ws[2] != "t") {
			return "bad-op"
		}
		vals := expand(ivs)
		var b *roaring.Bitmap
		if ws[2] == "t" {
			b = roaring.NewBTreeBitmap(vals...)
		} else {
			b = roaring.NewBitmap(vals...)
		}
		st.regs[ws[1]] = b
		return fmt.Sprintf("c=%d", b.Count())
	case ws[0] == "mk" && len(ws) == 4:
		if ws[2] != "s" && ws[2] != "t" {
			return "bad-op"
		}
		b := newBitmap(ws[2])
		if ws[3] != "-" {
			for _, e := range strings.Split(ws[3], ";") {
				kv := strings.SplitN(e, "=", 2)
				if len(kv) != 2 {
					return "bad-op"
				}
				key, ok := u64(kv[0])
				if !ok {
					return "bad-op"
				}
				if kv[1] == "nil" {
					b.Containers.Put(key, nil)
					continue
				}
				c, ok := parseContainer(kv[1])
				if !ok {
					return "bad-op"
				}
				b.Containers.Put(key, c)
			}
		}
		st.regs[ws[1]] = b
		return fmt.Sprintf("c=%d", b.Count())
	case (ws[0] == "addv" || ws[0] == "rm") && len(ws) == 3:
		b := get(ws[1])
		ivs, ok := parseItems(ws[2])
		if b == nil || !ok {
			return "bad-op"
		}
		for _, v := range expand(ivs) {
			var err error
			if ws[0] == "addv" {
				_, err = b.Add(v)
			} else {
				_, err = b.Remove(v)
			}
			if err != nil {
				return "err:" + ws[0]
			}
		}
		return fmt.Sprintf("c=%d", b.Count())
	case ws[0] == "opt" && len(ws) == 2:
		b := get(ws[1])
		if b == nil {
			return "bad-op"
		}
		b.Optimize()
		return fmt.Sprintf("c=%d", b.Count())
	case ws[0] == "rt" && len(ws) == 4:
		src := get(ws[2])
		if src == nil || (ws[3] != "s" && ws[3] != "t") {
			return "bad-op"
		}
		tmp := roaring.NewBitmap(src.Slice()...)
		var buf bytes.Buffer
		if _, err := tmp.WriteTo(&buf); err != nil {
			return "err:write"
		}
		data := buf.Bytes()
		st.keep = append(st.keep, data)
		dst := newBitmap(ws[3])
		if err := dst.UnmarshalBinary(data); err != nil {
			return "err:unmarshal"
		}
		st.regs[ws[1]] = dst
		return fmt.Sprintf("c=%d", dst.Count())
	case ws[0] == "has" && len(ws) == 3:
		b := get(ws[1])
		v, ok := u64(ws[2])
		if b == nil || !ok {
			return "bad-op"
		}
		return strconv.FormatBool(b.Contains(v))
	case ws[0] == "count" && len(ws) == 2:
		b := get(ws[1])
		if b == nil {
			return "bad-op"
		}
		return strconv.FormatUint(b.Count(), 10)
	case ws[0] == "cr" && len(ws) == 4:
		b := get(ws[1])
		s, ok1 := u64(ws[2])
		e, ok2 := u64(ws[3])
		if b == nil || !ok1 || !ok2 {
			return "bad-op"
		}
		return strconv.FormatUint(b.CountRange(s, e), 10)
	case ws[0] == "min" && len(ws) == 2:
		b := get(ws[1])
		if b == nil {
			return "bad-op"
		}
		v, ok := b.Min()
		return fmt.Sprintf("%d %v", v, ok)
	case ws[0] == "max" && len(ws) == 2:
		b := get(ws[1])
		if b == nil {
			return "bad-op"
		}
		return strconv.FormatUint(b.Max(), 10)
	case ws[0] == "slice" && len(ws) == 2:
		b := get(ws[1])
		if b == nil {
			return "bad-op"
		}
		return showItems(b.Slice())
	case ws[0] == "sr" && len(ws) == 4:
		b := get(ws[1])
		s, ok1 := u64(ws[2])
		e, ok2 := u64(ws[3])
		if b == nil || !ok1 || !ok2 {
			return "bad-op"
		}
		return showItems(b.SliceRange(s, e))
	case ws[0] == "seek" && len(ws) == 4:
		b := get(ws[1])
		k, ok1 := u64(ws[2])
		n, err := strconv.Atoi(ws[3])
		if b == nil || !ok1 || err != nil {
			return "bad-op"
		}
		itr := b.Iterator()
		itr.Seek(k)
		var vs []uint64
		tail := "more"
		for i := 0; i < n; i++ {
			v, eof := itr.Next()
			if eof {
				tail = "eof"
				break
			}
			vs = append(vs, v)
		}
		return showItems(vs) + " " + tail
	case ws[0] == "offr" && len(ws) == 6:
		b := get(ws[2])
		off, ok1 := u64(ws[3])
		s, ok2 := u64(ws[4])
		e, ok3 := u64(ws[5])
		if b == nil || !ok1 || !ok2 || !ok3 {
			return "bad-op"
		}
		if off&0xFFFF != 0 || s&0xFFFF != 0 || e&0xFFFF != 0 {
			return vh.Guard("offsetRange", func() string { b.OffsetRange(off, s, e); return "no-panic" })
		}
		o := b.OffsetRange(off, s, e)
		st.regs[ws[1]] = o
		return showB(o)
	case ws[0] == "ic" && len(ws) == 3:
		a, b := get(ws[1]), get(ws[2])
		if a == nil || b == nil {
			return "bad-op"
		}
		return strconv.FormatUint(a.IntersectionCount(b), 10)
	case ws[0] == "shift" && len(ws) == 3:
		a := get(ws[2])
		if a == nil {
			return "bad-op"
		}
		o, err := a.Shift(1)
		if err != nil {
			return "err:shift"
		}
		st.regs[ws[1]] = o
		return showB(o)
	case ws[0] == "flip" && len(ws) == 5:
		a := get(ws[2])
		s, ok1 := u64(ws[3])
		e, ok2 := u64(ws[4])
		if a == nil || !ok1 || !ok2 || e == ^uint64(0) || s > e || e-s > 200000 {
			return "bad-op"
		}
		o := a.Flip(s, e)
		st.regs[ws[1]] = o
		return showB(o)
	case ws[0] == "or" && len(ws) >= 3:
		a := get(ws[2])
		if a == nil {
			return "bad-op"
		}
		var others []*roaring.Bitmap
		for _, n := range ws[3:] {
			o := get(n)
			if o == nil {
				return "bad-op"
			}
			others = append(others, o)
		}
		o := a.Union(others...)
		st.regs[ws[1]] = o
		return showB(o)
	case ws[0] == "orin" && len(ws) >= 2:
		a := get(ws[1])
		if a == nil {
			return "bad-op"
		}
		var others []*roaring.Bitmap
		for _, n := range ws[2:] {
			o := get(n)
			if o == nil || n == ws[1] {
				return "bad-op"
			}
			others = append(others, o)
		}
		a.UnionInPlace(others...)
		return showB(a)
	case len(ws) == 4 && (ws[0] == "and" || ws[0] == "andnot" || ws[0] == "xor"):
		a, b := get(ws[2]), get(ws[3])
		if a == nil || b == nil {
			return "bad-op"
		}
		var o *roaring.Bitmap
		switch ws[0] {
		case "and":
			o = a.Intersect(b)
		case "andnot":
			o = a.Difference(b)
		default:
			o = a.Xor(b)
		}
		st.regs[ws[1]] = o
		return showB(o)
	}
	return "bad-op"
}

func main() { vh.Main(&prop{}) }
