// Harness for C20: shard placement (node list, partition, jump hash, owners, ownership helpers).
//
// Line formats are documented in lean/PV/C20/Main.lean. Every line is executed against a real
// pilosa `cluster` value (newCluster: jmphasher, 256 partitions) through the verif_c20.go shims:
// join/leave call addNodeBasicSorted/removeNodeBasicSorted, the queries call partition,
// partitionNodes, ShardNodes, ownsShard, containsShards, executor.shardsByNode and
// API.validateShardOwnership.
package main

import (
	"fmt"
	"os"
	"sort"
	"strconv"
	"strings"

	"github.com/pilosa/pilosa"
	"verifharness/vh"
)

type prop struct{}

func (p *prop) Rule() string {
	return "one cluster value per case: a set of 0..8 node ids (drawn from a pool whose Go string order differs from numeric/length order) " +
		"joined in a chosen order with re-joins (changed URI/state) and leaves mixed in, replica count 0..9, then placement queries: " +
		"all 256 partitions (sweep cases), shard/index pairs over several index names incl. shards >= 2^32, ownership helpers for every member and a non-member; " +
		"thorough enumerates every subset of the 8-id pool x replicas 0..9 x 256 partitions and every join order of every subset of size <= 6; " +
		"a case is non-trivial when the cluster has >= 2 nodes or replicas exceed the node count at some query"
}

var pool = []string{"node1", "node10", "node2", "a", "B", "n", "na", "z-9"}
var extraIDs = []string{"node3", "0", "node", "zz"}
var indexes = []string{"i", "idx", "users", "a-b_c", "z"}

const exhaustW = 8 // exhaustive items are split over the 8 worker streams of props/C20.json

func idsOf(mask int) []string {
	var out []string
	for i, id := range pool {
		if mask&(1<<i) != 0 {
			out = append(out, id)
		}
	}
	return out
}

func pickShard(r *vh.Rng) uint64 {
	switch r.Intn(10) {
	case 0:
		return r.PickU(1<<32, 1<<32+1, 1<<63, 1<<64-1, 1<<40+255, 255, 256, 65535, 65536)
	case 1:
		return r.U64()
	default:
		return uint64(r.Intn(3000))
	}
}

func ascShards(r *vh.Rng, n int) []uint64 {
	set := map[uint64]bool{}
	for i := 0; i < n; i++ {
		set[pickShard(r)] = true
	}
	var out []uint64
	for s := range set {
		out = append(out, s)
	}
	return vh.SortedU64(out)
}

func queries(r *vh.Rng, ids []string, n int) []string {
	var lines []string
	anyID := func() string {
		if len(ids) > 0 && r.Chance(4, 5) {
			return ids[r.Intn(len(ids))]
		}
		return extraIDs[r.Intn(len(extraIDs))]
	}
	for q := 0; q < n; q++ {
		ix := indexes[r.Intn(len(indexes))]
		switch r.Intn(9) {
		case 0:
			lines = append(lines, fmt.Sprintf("pnodes %d", r.Intn(256)))
		case 1:
			lines = append(lines, fmt.Sprintf("snodes %s %d", ix, pickShard(r)))
		case 2:
			lines = append(lines, fmt.Sprintf("part %s %d", ix, pickShard(r)))
		case 3:
			// ask every member and one non-member about the same shard
			sh := pickShard(r)
			for _, id := range ids {
				lines = append(lines, fmt.Sprintf("owns %s %s %d", id, ix, sh))
			}
			lines = append(lines, fmt.Sprintf("owns %s %s %d", extraIDs[r.Intn(len(extraIDs))], ix, sh))
			lines = append(lines, fmt.Sprintf("snodes %s %d", ix, sh))
		case 4:
			lines = append(lines, fmt.Sprintf("contains %s %s %s", anyID(), ix, vh.CSV(ascShards(r, r.Range(0, 12)))))
		case 5:
			// available nodes: all, a random subset, or none
			var avail []string
			for _, id := range ids {
				if r.Chance(3, 4) {
					avail = append(avail, id)
				}
			}
			if r.Chance(1, 6) {
				avail = append(avail, extraIDs[0])
			}
			a := "-"
			if len(avail) > 0 {
				a = strings.Join(avail, ",")
			}
			var shs []uint64
			for i, k := 0, r.Range(0, 10); i < k; i++ {
				shs = append(shs, pickShard(r))
			}
			lines = append(lines, fmt.Sprintf("sbn %s %s %s", a, ix, vh.CSV(shs)))
		case 6:
			lines = append(lines, fmt.Sprintf("validate %s %s %d", anyID(), ix, pickShard(r)))
		case 7:
			lines = append(lines, fmt.Sprintf("jh %d %d", r.PickU(uint64(r.Intn(256)), r.U64(), 0, 255), r.Pick(0, 1, 2, 3, 5, 8, 9, 16, 100, r.Range(1, 64))))
		case 8:
			lines = append(lines, "nodes")
		}
	}
	return lines
}

func sweep(ids []string, order []int, rep int) vh.Case {
	lines := []string{fmt.Sprintf("r %d", rep)}
	for _, k := range order {
		lines = append(lines, "join "+ids[k])
	}
	for p := 0; p < 256; p++ {
		lines = append(lines, fmt.Sprintf("pnodes %d", p))
	}
	return vh.Case{Lines: lines, Nontrivial: len(ids) >= 2 || rep > len(ids)}
}

func permutations(n int, f func([]int)) {
	p := make([]int, n)
	for i := range p {
		p[i] = i
	}
	var rec func(k int)
	rec = func(k int) {
		if k == n {
			f(p)
			return
		}
		for i := k; i < n; i++ {
			p[k], p[i] = p[i], p[k]
			rec(k + 1)
			p[k], p[i] = p[i], p[k]
		}
	}
	rec(0)
}

func (p *prop) Gen(r *vh.Rng, tier string, n int) []vh.Case {
	var cases []vh.Case
	for k := 0; k < n; k++ {
		cr := r.Fork()
		size := cr.Pick(0, 1, 2, 2, 3, 3, 4, 5, 6, 7, 8)
		perm := cr.Perm(len(pool))[:size]
		ids := make([]string, size)
		for i, x := range perm {
			ids[i] = pool[x]
		}
		rep := cr.Range(0, 9)
		switch cr.Intn(6) {
		case 0: // every partition for this configuration
			order := make([]int, size)
			for i := range order {
				order[i] = i
			}
			cases = append(cases, sweep(ids, order, rep))
		case 1: // two join orders of the same set, a handful of partitions each, in two consecutive cases
			var qs []string
			for i := 0; i < 12; i++ {
				qs = append(qs, fmt.Sprintf("pnodes %d", cr.Intn(256)))
			}
			qs = append(qs, queries(cr.Fork(), ids, 6)...)
			for rep2 := 0; rep2 < 2; rep2++ {
				lines := []string{fmt.Sprintf("r %d", rep)}
				for _, j := range cr.Perm(size) {
					lines = append(lines, "join "+ids[j])
				}
				lines = append(lines, "nodes")
				lines = append(lines, qs...)
				cases = append(cases, vh.Case{Lines: lines, Nontrivial: size >= 2})
			}
		default: // history: joins, re-joins, leaves, replica changes interleaved with queries
			var lines []string
			cur := map[string]bool{}
			members := func() []string {
				var m []string
				for id := range cur {
					m = append(m, id)
				}
				sort.Strings(m)
				return m
			}
			lines = append(lines, fmt.Sprintf("r %d", rep))
			steps := cr.Range(3, 14)
			nt := false
			for s := 0; s < steps; s++ {
				switch {
				case cr.Chance(5, 10):
					id := pool[cr.Intn(len(pool))]
					if size > 0 && cr.Chance(4, 5) {
						id = ids[cr.Intn(size)]
					}
					lines = append(lines, "join "+id)
					cur[id] = true
				case cr.Chance(1, 4):
					id := pool[cr.Intn(len(pool))]
					if m := members(); len(m) > 0 && cr.Chance(3, 4) {
						id = m[cr.Intn(len(m))]
					}
					lines = append(lines, "leave "+id)
					delete(cur, id)
				case cr.Chance(1, 5):
					rep = cr.Range(0, 9)
					lines = append(lines, fmt.Sprintf("r %d", rep))
				default:
					lines = append(lines, queries(cr, members(), cr.Range(1, 4))...)
				}
				if len(cur) >= 2 || rep > len(cur) {
					nt = true
				}
			}
			lines = append(lines, queries(cr, members(), cr.Range(2, 6))...)
			cases = append(cases, vh.Case{Lines: lines, Nontrivial: nt})
		}
	}
	if tier == "thorough" {
		// exhaustive part, split over the worker streams by item number
		wk := workerOf
		item := 0
		mine := func() bool { item++; return item%exhaustW == wk%exhaustW }
		for mask := 0; mask < 1<<len(pool); mask++ {
			ids := idsOf(mask)
			order := make([]int, len(ids))
			for i := range order {
				order[i] = len(ids) - 1 - i
			}
			for rep := 0; rep <= 9; rep++ {
				if mine() {
					cases = append(cases, sweep(ids, order, rep))
				}
			}
			if len(ids) <= 6 {
				rr := r.Fork()
				permutations(len(ids), func(pm []int) {
					if !mine() {
						return
					}
					lines := []string{fmt.Sprintf("r %d", rr.Range(0, 9))}
					for _, j := range pm {
						lines = append(lines, "join "+ids[j])
					}
					lines = append(lines, "nodes")
					for i := 0; i < 6; i++ {
						lines = append(lines, fmt.Sprintf("pnodes %d", rr.Intn(256)))
					}
					lines = append(lines, fmt.Sprintf("snodes %s %d", indexes[rr.Intn(len(indexes))], pickShard(rr)))
					cases = append(cases, vh.Case{Lines: lines, Nontrivial: len(ids) >= 2})
				})
			}
		}
	}
	return cases
}

// workerOf is the worker stream number (seed % 1000), set in main before Gen runs.
var workerOf int

// ---------- execution ----------

func showIDs(ids []string) string { return "[" + strings.Join(ids, " ") + "]" }

func guard(f func() string) (out string) {
	defer func() {
		if e := recover(); e != nil {
			msg := fmt.Sprint(e)
			switch {
			case strings.Contains(msg, "divide by zero"):
				out = "panic:divide-by-zero"
			case strings.Contains(msg, "index out of range"):
				out = "panic:index"
			default:
				out = "panic:other"
			}
			vh.Count(out)
		}
	}()
	return f()
}

var partsHit = map[int]bool{}

func (p *prop) Exec(lines []string) []string {
	c := pilosa.VerifC20NewCluster(1)
	outs := make([]string, len(lines))
	u64 := func(s string) uint64 { v, _ := strconv.ParseUint(s, 10, 64); return v }
	for i, l := range lines {
		ws := strings.Fields(l)
		outs[i] = guard(func() string {
			switch {
			case len(ws) == 2 && ws[0] == "r":
				n, _ := strconv.Atoi(ws[1])
				c.SetReplicaN(n)
				return "ok"
			case len(ws) == 2 && ws[0] == "join":
				// every join of a case carries a different URI and state, so a re-join takes the update-in-place path
				if c.NodeHost(ws[1]) != "" {
					vh.Count("rejoin-update")
				}
				c.Join(ws[1], fmt.Sprintf("h%d", i), []string{"READY", "DOWN"}[i%2])
				return showIDs(c.NodeIDs())
			case len(ws) == 2 && ws[0] == "leave":
				if c.Leave(ws[1]) {
					vh.Count("leave-member")
				} else {
					vh.Count("leave-absent")
				}
				return showIDs(c.NodeIDs())
			case len(ws) == 1 && ws[0] == "nodes":
				return showIDs(c.NodeIDs())
			case len(ws) == 3 && ws[0] == "jh":
				n, _ := strconv.Atoi(ws[2])
				return strconv.Itoa(pilosa.VerifC20JumpHash(u64(ws[1]), n))
			case len(ws) == 3 && ws[0] == "part":
				pt := c.Partition(ws[1], u64(ws[2]))
				partsHit[pt] = true
				return strconv.Itoa(pt)
			case len(ws) == 2 && ws[0] == "pnodes":
				pt, _ := strconv.Atoi(ws[1])
				ns := c.PartitionNodes(pt)
				vh.Count(fmt.Sprintf("owners=%d", len(ns)))
				return showIDs(ns)
			case len(ws) == 3 && ws[0] == "snodes":
				partsHit[c.Partition(ws[1], u64(ws[2]))] = true
				return showIDs(c.ShardNodes(ws[1], u64(ws[2])))
			case len(ws) == 4 && ws[0] == "owns":
				partsHit[c.Partition(ws[2], u64(ws[3]))] = true
				if c.OwnsShard(ws[1], ws[2], u64(ws[3])) {
					vh.Count("owns-true")
					return "true"
				}
				vh.Count("owns-false")
				return "false"
			case len(ws) == 4 && ws[0] == "validate":
				err := c.ValidateShardOwnership(ws[1], ws[2], u64(ws[3]))
				switch {
				case err == nil:
					return "ok"
				case pilosa.VerifC20IsNotOwner(err):
					return "err:not-owner"
				}
				return "err:other"
			case len(ws) == 4 && ws[0] == "contains":
				return vh.U64s(c.ContainsShards(ws[2], vh.ParseCSV(ws[3]), ws[1]))
			case len(ws) == 4 && ws[0] == "sbn":
				var avail []string
				if ws[1] != "-" {
					avail = strings.Split(ws[1], ",")
				}
				m, err := c.ShardsByNode(avail, ws[2], vh.ParseCSV(ws[3]))
				if err != nil {
					if pilosa.VerifC20IsShardUnavailable(err) {
						vh.Count("sbn-unavailable")
						return "err:unavailable"
					}
					return "err:other"
				}
				if len(m) == 0 {
					return "-"
				}
				var ids []string
				for id := range m {
					ids = append(ids, id)
				}
				sort.Strings(ids)
				var parts []string
				for _, id := range ids {
					parts = append(parts, id+":"+vh.CSV(m[id]))
				}
				return strings.Join(parts, ";")
			}
			return "bad-op"
		})
	}
	vh.Extra["partitions-hit-by-shards"] = len(partsHit)
	return outs
}

func main() {
	// the worker stream number is the low part of the seed bin/check passes (seed*1000 + w)
	for i, a := range os.Args {
		v := ""
		if (a == "--seed" || a == "-seed") && i+1 < len(os.Args) {
			v = os.Args[i+1]
		} else if strings.HasPrefix(a, "--seed=") {
			v = a[len("--seed="):]
		}
		if s, err := strconv.ParseUint(v, 10, 64); err == nil && v != "" {
			workerOf = int(s % 1000)
		}
	}
	vh.Main(&prop{})
}
