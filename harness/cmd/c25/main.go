// Harness for C25: the bolt attribute store and attrBlocks.Diff against pm_c25.
//
// Line formats are documented in lean/PV/C25/Main.lean. Two real boltdb attribute stores per case
// in scratch directories; `get` keeps the returned map so that a later `mut` can write into it
// like a careless caller would.
package main

import (
	"context"
	"encoding/binary"
	"encoding/hex"
	"fmt"
	"math"
	"os"
	"path/filepath"
	"sort"
	"strconv"
	"strings"

	"github.com/pilosa/pilosa"
	"github.com/pilosa/pilosa/boltdb"
	"verifharness/vh"
	"verifharness/vh/srv"
)

type prop struct {
	dir     string
	st      [4]pilosa.AttrStore // 0,1: bare bolt stores; 2,3: row / column attribute store of the e2e index
	handles []map[string]interface{}
	s       *srv.Server // in-process pilosa for the e2e lines, started on first use
	nidx    int
	index   string // e2e index of the current case ("" = not created yet)
}

func (p *prop) Rule() string {
	return "histories over two attribute stores: SetAttrs / SetBulkAttrs with all value kinds (string, int64, int, uint, uint64 incl. >= 2^63, bool, float bit patterns, " +
		"nil deletes, unsupported types), few keys (incl. the empty key and a Unicode key) and ids around the block edges 0,1,99,100,101,199,200, repeated and already-present " +
		"values (early-return path), deleting every key of an id, reads of present and absent ids with and without a warm cache, writes by the caller into any map returned earlier, " +
		"reopen, Blocks / BlockData / checksum comparison between the two stores (often fed the same updates in a different order) and Diff on real and on literal block lists; " +
		"e2e cases drive SetRowAttrs (bulk and single path), SetColumnAttrs, Row() attributes and the attribute-diff API of an in-process server through PQL, mixed with direct access to the same stores; " +
		"a case is non-trivial when an id is read after at least two updates, a caller mutation or a reopen touched it, or two non-empty stores are compared"
}

// ---------- tokens ----------

func parseKey(s string) (string, bool) {
	if len(s) < 1 || s[0] != 'k' || strings.ToLower(s) != s {
		return "", false
	}
	b, err := hex.DecodeString(s[1:])
	if err != nil || len(b) > 16 {
		return "", false
	}
	return string(b), true
}

type unsupported []int

func parseVal(s string) (interface{}, bool) {
	if s == "~" {
		return nil, true
	}
	if s == "!" {
		return unsupported{1}, true
	}
	if len(s) < 1 {
		return nil, false
	}
	switch s[0] {
	case 's':
		b, err := hex.DecodeString(s[1:])
		if err != nil || strings.ToLower(s) != s {
			return nil, false
		}
		return string(b), true
	case 'i':
		v, err := strconv.ParseInt(s[1:], 10, 64)
		return v, err == nil
	case 'n':
		v, err := strconv.ParseInt(s[1:], 10, 64)
		return int(v), err == nil
	case 'w':
		v, err := strconv.ParseUint(s[1:], 10, 64)
		return uint(v), err == nil
	case 'u':
		v, err := strconv.ParseUint(s[1:], 10, 64)
		return v, err == nil
	case 'b':
		if s == "b0" {
			return false, true
		}
		if s == "b1" {
			return true, true
		}
	case 'f':
		if len(s) < 2 || len(s) > 17 {
			return nil, false
		}
		v, err := strconv.ParseUint(s[1:], 16, 64)
		if err != nil || strings.ToLower(s) != s {
			return nil, false
		}
		return math.Float64frombits(v), true
	}
	return nil, false
}

func parseAttrs(s string) (map[string]interface{}, bool) {
	m := map[string]interface{}{}
	if s == "_" {
		return m, true
	}
	for _, kv := range strings.Split(s, ";") {
		parts := strings.Split(kv, "=")
		if len(parts) != 2 {
			return nil, false
		}
		k, ok1 := parseKey(parts[0])
		v, ok2 := parseVal(parts[1])
		if !ok1 || !ok2 {
			return nil, false
		}
		if _, dup := m[k]; dup {
			return nil, false
		}
		m[k] = v
	}
	return m, true
}

func showVal(v interface{}) string {
	switch v := v.(type) {
	case string:
		return "s" + hex.EncodeToString([]byte(v))
	case int64:
		return "i" + strconv.FormatInt(v, 10)
	case bool:
		if v {
			return "b1"
		}
		return "b0"
	case float64:
		return fmt.Sprintf("f%016x", math.Float64bits(v))
	case nil:
		return "?nil"
	}
	return fmt.Sprintf("?%T", v)
}

func showAttrs(m map[string]interface{}) string {
	if len(m) == 0 {
		return "_"
	}
	keys := make([]string, 0, len(m))
	for k := range m {
		keys = append(keys, k)
	}
	sort.Strings(keys)
	ss := make([]string, len(keys))
	for i, k := range keys {
		ss[i] = "k" + hex.EncodeToString([]byte(k)) + "=" + showVal(m[k])
	}
	return strings.Join(ss, ";")
}

func showCSV(xs []uint64) string {
	if len(xs) == 0 {
		return "-"
	}
	ss := make([]string, len(xs))
	for i, x := range xs {
		ss[i] = strconv.FormatUint(x, 10)
	}
	return strings.Join(ss, ",")
}

// ---------- execution ----------

func (p *prop) path(i int) string { return filepath.Join(p.dir, fmt.Sprintf("attrs%d", i)) }

func (p *prop) open(i int) error {
	s := boltdb.NewAttrStore(p.path(i))
	if err := s.Open(); err != nil {
		return err
	}
	p.st[i] = s
	return nil
}

func (p *prop) reset() {
	for i := 0; i < 2; i++ {
		if p.st[i] != nil {
			p.st[i].Close()
			p.st[i] = nil
		}
	}
	p.st[2], p.st[3] = nil, nil
	if p.index != "" {
		_ = p.s.API.DeleteIndex(context.Background(), p.index)
		p.index = ""
	}
	if p.dir != "" {
		os.RemoveAll(p.dir)
		p.dir = ""
	}
	p.handles = nil
}

// scrub empties whatever map a fresh store returns for an absent id. If that map is shared
// process-wide state, a previous case may have written into it; every case must start clean so
// that each replay file is self-contained.
func (p *prop) scrub() {
	s := boltdb.NewAttrStore(filepath.Join(p.dir, "scrub"))
	if err := s.Open(); err != nil {
		return
	}
	defer s.Close()
	if m, err := s.Attrs(0); err == nil {
		for k := range m {
			delete(m, k)
		}
	}
}

func (p *prop) Exec(lines []string) []string {
	p.reset()
	defer p.reset()
	outs := make([]string, len(lines))
	fail := func(msg string) []string {
		for i := range outs {
			outs[i] = msg
		}
		return outs
	}
	dir, err := os.MkdirTemp("", "verif-c25-")
	if err != nil {
		return fail("err:tmpdir")
	}
	p.dir = dir
	p.scrub()
	if p.open(0) != nil || p.open(1) != nil {
		return fail("err:open")
	}
	for i, l := range lines {
		l := l
		outs[i] = vh.Guard("exec", func() string { return p.execLine(l) })
	}
	return outs
}

// ensureE2E creates the e2e index of this case (field "f") and wires stores 2 and 3 to the
// attribute stores the executor uses.
func (p *prop) ensureE2E() bool {
	if p.index != "" {
		return true
	}
	if p.s == nil {
		p.s = srv.Start(2)
	}
	p.nidx++
	index := fmt.Sprintf("c%d", p.nidx)
	ctx := context.Background()
	if _, err := p.s.API.CreateIndex(ctx, index, pilosa.IndexOptions{}); err != nil {
		return false
	}
	if _, err := p.s.API.CreateField(ctx, index, "f", pilosa.OptFieldTypeSet("ranked", 100)); err != nil {
		return false
	}
	if _, err := p.s.Query(index, "Set(0, f=7) Set(1, f=7) Set(99, f=7) Set(100, f=7) Set(101, f=7) Set(250, f=7)", nil); err != nil {
		return false
	}
	h := p.s.Server.Holder()
	p.index = index
	p.st[2] = h.Field(index, "f").RowAttrStore()
	p.st[3] = h.Index(index).ColumnAttrStore()
	return true
}

func (p *prop) storeIdx(s string) (int, bool) {
	switch s {
	case "0":
		return 0, true
	case "1":
		return 1, true
	case "2":
		return 2, p.ensureE2E()
	case "3":
		return 3, p.ensureE2E()
	}
	return 0, false
}

// e2eAttrs renders an attrs token as PQL arguments; only what PQL can express and re-read
// unambiguously is accepted (keys [a-z]+, int64, strings [a-z0-9]+, bool, two float literals, null).
func e2eAttrs(s string) (string, bool) {
	if s == "_" {
		return "", false // PQL wants at least one attribute
	}
	var out []string
	seen := map[string]bool{}
	for _, kv := range strings.Split(s, ";") {
		parts := strings.Split(kv, "=")
		if len(parts) != 2 {
			return "", false
		}
		k, ok := parseKey(parts[0])
		if !ok || k == "" || seen[k] {
			return "", false
		}
		seen[k] = true
		for _, c := range k {
			if c < 'a' || c > 'z' {
				return "", false
			}
		}
		v := parts[1]
		var lit string
		switch {
		case v == "~":
			lit = "null"
		case v == "b0":
			lit = "false"
		case v == "b1":
			lit = "true"
		case v == "f3ff8000000000000":
			lit = "1.5"
		case v == "fc002000000000000":
			lit = "-2.25"
		case strings.HasPrefix(v, "i"):
			n, err := strconv.ParseInt(v[1:], 10, 64)
			if err != nil {
				return "", false
			}
			lit = strconv.FormatInt(n, 10)
		case strings.HasPrefix(v, "s"):
			b, err := hex.DecodeString(v[1:])
			if err != nil || len(b) == 0 || strings.ToLower(v) != v {
				return "", false
			}
			for _, c := range b {
				if !(c >= 'a' && c <= 'z' || c >= '0' && c <= '9') {
					return "", false
				}
			}
			lit = `"` + string(b) + `"`
		default:
			return "", false
		}
		out = append(out, k+"="+lit)
	}
	return ", " + strings.Join(out, ", "), true
}

func (p *prop) pql(q string) ([]interface{}, string) {
	res, err := p.s.Query(p.index, q, nil)
	if err != nil {
		if strings.Contains(err.Error(), "invalid attr type") {
			return nil, "err:type"
		}
		return nil, "err:other"
	}
	return res, "ok"
}

func okOrType(err error) string {
	if err == nil {
		return "ok"
	}
	if strings.Contains(err.Error(), "invalid attr type") {
		vh.Count("invalid-type-refused")
		return "err:type"
	}
	return "err:other"
}

func parseRaw(s string) ([]pilosa.AttrBlock, bool) {
	if s == "_" {
		return nil, true
	}
	var out []pilosa.AttrBlock
	for _, t := range strings.Split(s, ",") {
		parts := strings.Split(t, ":")
		if len(parts) != 2 {
			return nil, false
		}
		id, e1 := strconv.ParseUint(parts[0], 10, 64)
		cs, e2 := strconv.ParseUint(parts[1], 10, 64)
		if e1 != nil || e2 != nil {
			return nil, false
		}
		b := make([]byte, 8)
		binary.BigEndian.PutUint64(b, cs)
		out = append(out, pilosa.AttrBlock{ID: id, Checksum: b})
	}
	return out, true
}

func (p *prop) execLine(l string) string {
	ws := strings.Fields(l)
	if len(ws) == 0 {
		return "bad-op"
	}
	switch {
	case ws[0] == "set" && len(ws) == 4:
		i, ok0 := p.storeIdx(ws[1])
		id, err := strconv.ParseUint(ws[2], 10, 64)
		m, ok1 := parseAttrs(ws[3])
		if !ok0 || err != nil || !ok1 {
			return "bad-op"
		}
		return okOrType(p.st[i].SetAttrs(id, m))
	case ws[0] == "bulk" && len(ws) == 3:
		i, ok0 := p.storeIdx(ws[1])
		if !ok0 {
			return "bad-op"
		}
		bm := map[uint64]map[string]interface{}{}
		if ws[2] != "_" {
			for _, part := range strings.Split(ws[2], "|") {
				ia := strings.Split(part, ":")
				if len(ia) != 2 {
					return "bad-op"
				}
				id, err := strconv.ParseUint(ia[0], 10, 64)
				m, ok := parseAttrs(ia[1])
				if err != nil || !ok {
					return "bad-op"
				}
				if _, dup := bm[id]; dup {
					return "bad-op"
				}
				bm[id] = m
			}
		}
		return okOrType(p.st[i].SetBulkAttrs(bm))
	case ws[0] == "get" && len(ws) == 3:
		i, ok0 := p.storeIdx(ws[1])
		id, err := strconv.ParseUint(ws[2], 10, 64)
		if !ok0 || err != nil {
			return "bad-op"
		}
		m, err := p.st[i].Attrs(id)
		if err != nil {
			return "err:other"
		}
		p.handles = append(p.handles, m)
		if len(m) == 0 {
			vh.Count("get-empty")
		} else {
			vh.Count("get-nonempty")
		}
		return showAttrs(m)
	case ws[0] == "mut" && len(ws) == 3:
		k, err := strconv.ParseUint(ws[1], 10, 31)
		kv := strings.Split(ws[2], "=")
		if err != nil || len(kv) != 2 {
			return "bad-op"
		}
		key, ok1 := parseKey(kv[0])
		v, ok2 := parseVal(kv[1])
		if !ok1 || !ok2 {
			return "bad-op"
		}
		if _, isBad := v.(unsupported); isBad {
			return "bad-op"
		}
		if int(k) >= len(p.handles) {
			return "err:handle"
		}
		m := p.handles[k]
		if m == nil {
			return "ok" // writing into a nil map would be the caller's own crash
		}
		switch x := v.(type) {
		case nil:
			delete(m, key)
		case int:
			m[key] = int64(x)
		case uint:
			m[key] = int64(x)
		case uint64:
			m[key] = int64(x)
		default:
			m[key] = v
		}
		vh.Count("caller-mutations")
		return "ok"
	case ws[0] == "reopen" && len(ws) == 2:
		if ws[1] != "0" && ws[1] != "1" {
			return "bad-op"
		}
		i, ok0 := p.storeIdx(ws[1])
		if !ok0 {
			return "bad-op"
		}
		p.st[i].Close()
		if err := p.open(i); err != nil {
			return "err:open"
		}
		return "ok"
	case ws[0] == "blocks" && len(ws) == 2:
		i, ok0 := p.storeIdx(ws[1])
		if !ok0 {
			return "bad-op"
		}
		bs, err := p.st[i].Blocks()
		if err != nil {
			return "err:other"
		}
		ids := make([]uint64, len(bs))
		for j, b := range bs {
			ids[j] = b.ID
		}
		return showCSV(ids)
	case ws[0] == "bdata" && len(ws) == 3:
		i, ok0 := p.storeIdx(ws[1])
		blk, err := strconv.ParseUint(ws[2], 10, 50)
		if !ok0 || err != nil {
			return "bad-op"
		}
		m, err := p.st[i].BlockData(blk)
		if err != nil {
			return "err:other"
		}
		if len(m) == 0 {
			return "-"
		}
		ids := make([]uint64, 0, len(m))
		for id := range m {
			ids = append(ids, id)
		}
		sort.Slice(ids, func(a, b int) bool { return ids[a] < ids[b] })
		ss := make([]string, len(ids))
		for j, id := range ids {
			ss[j] = fmt.Sprintf("%d{%s}", id, showAttrs(m[id]))
		}
		return strings.Join(ss, " ")
	case ws[0] == "cmp" && len(ws) == 1:
		a, err1 := p.st[0].Blocks()
		b, err2 := p.st[1].Blocks()
		if err1 != nil || err2 != nil {
			return "err:other"
		}
		am, bm := map[uint64]string{}, map[uint64]string{}
		idset := map[uint64]bool{}
		for _, x := range a {
			am[x.ID] = string(x.Checksum)
			idset[x.ID] = true
		}
		for _, x := range b {
			bm[x.ID] = string(x.Checksum)
			idset[x.ID] = true
		}
		if len(idset) == 0 {
			return "-"
		}
		ids := make([]uint64, 0, len(idset))
		for id := range idset {
			ids = append(ids, id)
		}
		sort.Slice(ids, func(x, y int) bool { return ids[x] < ids[y] })
		ss := make([]string, len(ids))
		for j, id := range ids {
			ca, ina := am[id]
			cb, inb := bm[id]
			switch {
			case ina && inb && ca == cb:
				ss[j] = fmt.Sprintf("%d:eq", id)
				vh.Count("cmp-eq")
			case ina && inb:
				ss[j] = fmt.Sprintf("%d:ne", id)
				vh.Count("cmp-ne")
			case ina:
				ss[j] = fmt.Sprintf("%d:only0", id)
				vh.Count("cmp-only")
			default:
				ss[j] = fmt.Sprintf("%d:only1", id)
				vh.Count("cmp-only")
			}
		}
		return strings.Join(ss, " ")
	case ws[0] == "diff" && len(ws) == 3:
		i, ok0 := p.storeIdx(ws[1])
		j, ok1 := p.storeIdx(ws[2])
		if !ok0 || !ok1 {
			return "bad-op"
		}
		a, err1 := p.st[i].Blocks()
		b, err2 := p.st[j].Blocks()
		if err1 != nil || err2 != nil {
			return "err:other"
		}
		return showCSV(pilosa.VerifC25AttrBlocksDiff(a, b))
	case ws[0] == "erow" && len(ws) == 3, ws[0] == "ecol" && len(ws) == 3:
		id, err := strconv.ParseUint(ws[1], 10, 62)
		args, ok := e2eAttrs(ws[2])
		if err != nil || !ok || !p.ensureE2E() {
			return "bad-op"
		}
		var q string
		if ws[0] == "erow" {
			// a second call of another kind keeps the query off the bulk path
			q = fmt.Sprintf("SetRowAttrs(f, %d%s) Count(Row(f=0))", id, args)
		} else {
			q = fmt.Sprintf("SetColumnAttrs(%d%s)", id, args)
		}
		_, verdict := p.pql(q)
		vh.Count("e2e-" + ws[0])
		return verdict
	case ws[0] == "ebulk" && len(ws) == 2:
		if !p.ensureE2E() {
			return "bad-op"
		}
		var calls []string
		seen := map[uint64]bool{}
		if ws[1] != "_" {
			for _, part := range strings.Split(ws[1], "|") {
				ia := strings.Split(part, ":")
				if len(ia) != 2 {
					return "bad-op"
				}
				id, err := strconv.ParseUint(ia[0], 10, 62)
				args, ok := e2eAttrs(ia[1])
				if err != nil || !ok || seen[id] {
					return "bad-op"
				}
				seen[id] = true
				calls = append(calls, fmt.Sprintf("SetRowAttrs(f, %d%s)", id, args))
			}
		}
		if len(calls) == 0 {
			return "ok"
		}
		_, verdict := p.pql(strings.Join(calls, " "))
		vh.Count("e2e-ebulk")
		return verdict
	case ws[0] == "equery" && len(ws) == 2:
		// 2-5 SetRowAttrs / SetColumnAttrs calls in ONE query, in the given order; rows and columns
		// may repeat. A query of SetRowAttrs calls only goes through executeBulkSetRowAttrs.
		if !p.ensureE2E() {
			return "bad-op"
		}
		parts := strings.Split(ws[1], "|")
		if len(parts) < 1 || len(parts) > 8 {
			return "bad-op"
		}
		var calls []string
		allRows := true
		for _, part := range parts {
			ia := strings.Split(part, ":")
			if len(ia) != 2 || len(ia[0]) < 2 || (ia[0][0] != 'r' && ia[0][0] != 'c') {
				return "bad-op"
			}
			id, err := strconv.ParseUint(ia[0][1:], 10, 62)
			args, ok := e2eAttrs(ia[1])
			if err != nil || !ok {
				return "bad-op"
			}
			if ia[0][0] == 'r' {
				calls = append(calls, fmt.Sprintf("SetRowAttrs(f, %d%s)", id, args))
			} else {
				allRows = false
				calls = append(calls, fmt.Sprintf("SetColumnAttrs(%d%s)", id, args))
			}
		}
		_, verdict := p.pql(strings.Join(calls, " "))
		if allRows {
			vh.Count("e2e-equery-bulk-path")
		} else {
			vh.Count("e2e-equery-mixed")
		}
		return verdict
	case ws[0] == "ecolget" && len(ws) == 1:
		// Row(f=7) with columnAttrs=true: the row's attributes and the attribute sets of its columns
		// 0,1,99,100,101,250 (those without attributes are left out by the executor).
		if !p.ensureE2E() {
			return "bad-op"
		}
		resp, err := p.s.API.Query(context.Background(), &pilosa.QueryRequest{Index: p.index, Query: "Row(f=7)", ColumnAttrs: true})
		if err != nil || resp.Err != nil || len(resp.Results) != 1 {
			return "err:other"
		}
		row, ok := resp.Results[0].(*pilosa.Row)
		if !ok {
			return "err:other"
		}
		p.handles = append(p.handles, row.Attrs)
		var ss []string
		for _, set := range resp.ColumnAttrSets {
			p.handles = append(p.handles, set.Attrs)
			ss = append(ss, fmt.Sprintf("%d{%s}", set.ID, showAttrs(set.Attrs)))
		}
		vh.Count("e2e-ecolget")
		if len(ss) == 0 {
			return showAttrs(row.Attrs) + " -"
		}
		return showAttrs(row.Attrs) + " " + strings.Join(ss, " ")
	case ws[0] == "erowget" && len(ws) == 2:
		id, err := strconv.ParseUint(ws[1], 10, 62)
		if err != nil || !p.ensureE2E() {
			return "bad-op"
		}
		res, verdict := p.pql(fmt.Sprintf("Row(f=%d)", id))
		if verdict != "ok" || len(res) != 1 {
			return "err:other"
		}
		row, ok := res[0].(*pilosa.Row)
		if !ok {
			return "err:other"
		}
		p.handles = append(p.handles, row.Attrs)
		vh.Count("e2e-erowget")
		return showAttrs(row.Attrs)
	case ws[0] == "ediff" && len(ws) == 3:
		if ws[1] != "2" && ws[1] != "3" {
			return "bad-op"
		}
		i, ok0 := p.storeIdx(ws[1])
		j, ok1 := p.storeIdx(ws[2])
		if !ok0 || !ok1 {
			return "bad-op"
		}
		remote, err := p.st[j].Blocks()
		if err != nil {
			return "err:other"
		}
		var m map[uint64]map[string]interface{}
		if i == 2 {
			m, err = p.s.API.FieldAttrDiff(context.Background(), p.index, "f", remote)
		} else {
			m, err = p.s.API.IndexAttrDiff(context.Background(), p.index, remote)
		}
		if err != nil {
			return "err:other"
		}
		vh.Count("e2e-ediff")
		if len(m) == 0 {
			return "-"
		}
		ids := make([]uint64, 0, len(m))
		for id := range m {
			ids = append(ids, id)
		}
		sort.Slice(ids, func(a, b int) bool { return ids[a] < ids[b] })
		ss := make([]string, len(ids))
		for k, id := range ids {
			ss[k] = fmt.Sprintf("%d{%s}", id, showAttrs(m[id]))
		}
		return strings.Join(ss, " ")
	case ws[0] == "rawdiff" && len(ws) == 3:
		a, ok0 := parseRaw(ws[1])
		b, ok1 := parseRaw(ws[2])
		if !ok0 || !ok1 {
			return "bad-op"
		}
		return showCSV(pilosa.VerifC25AttrBlocksDiff(a, b))
	}
	return "bad-op"
}

// ---------- generation ----------

var keyPool = []string{"k61", "k62", "k63", "k", "k6162", "kc3a9", "k00"}
var idPool = []int{0, 1, 2, 99, 100, 101, 199, 200, 250, 1000000}
var floatPool = []string{"f3ff8000000000000", "fc002000000000000", "f0000000000000000", "f7ff0000000000000", "f4202a05f20000000"}

func genVal(r *vh.Rng) string {
	switch x := r.Intn(100); {
	case x < 18:
		return r.PickS("s", "s61", "s6162", "sc3a9", "s00", "s31")
	case x < 36:
		return "i" + strconv.Itoa(r.Pick(0, 1, 2, -1, 5, 9223372036854775807, -9223372036854775808))
	case x < 44:
		return "n" + strconv.Itoa(r.Pick(0, 1, 2, -1, 5))
	case x < 50:
		return "w" + r.PickS("0", "1", "2", "5", "9223372036854775808", "18446744073709551615")
	case x < 56:
		return "u" + r.PickS("0", "1", "2", "5", "9223372036854775807", "9223372036854775808", "18446744073709551615")
	case x < 66:
		return r.PickS("b0", "b1")
	case x < 76:
		return floatPool[r.Intn(len(floatPool))]
	case x < 96:
		return "~"
	default:
		return "!"
	}
}

func genAttrs(r *vh.Rng, keys []string, allowEmpty bool) string {
	var parts []string
	for _, k := range keys {
		if r.Chance(2, 5) {
			parts = append(parts, k+"="+genVal(r))
		}
	}
	if len(parts) == 0 {
		if allowEmpty && r.Chance(1, 2) {
			return "_"
		}
		return keys[r.Intn(len(keys))] + "=" + genVal(r)
	}
	return strings.Join(parts, ";")
}

// delAll builds an update that deletes every key of the case.
func delAll(keys []string) string {
	parts := make([]string, len(keys))
	for i, k := range keys {
		parts[i] = k + "=~"
	}
	return strings.Join(parts, ";")
}

func (p *prop) Gen(r *vh.Rng, tier string, n int) []vh.Case {
	var cases []vh.Case
	for k := 0; k < n; k++ {
		cr := r.Fork()
		if cr.Chance(1, 12) {
			cases = append(cases, genRawDiff(cr))
		} else if cr.Chance(1, 6) {
			if cr.Chance(1, 2) {
				cases = append(cases, genEQuery(cr))
			} else {
				cases = append(cases, genE2E(cr))
			}
		} else {
			cases = append(cases, genHistory(cr, tier))
		}
	}
	return cases
}

func genE2EVal(r *vh.Rng) string {
	switch x := r.Intn(100); {
	case x < 25:
		return r.PickS("s61", "s6162", "s7a39", "s31")
	case x < 50:
		return "i" + strconv.Itoa(r.Pick(0, 1, 2, -1, 5, 9223372036854775807, -9223372036854775808))
	case x < 62:
		return r.PickS("b0", "b1")
	case x < 74:
		return r.PickS("f3ff8000000000000", "fc002000000000000")
	default:
		return "~"
	}
}

func genE2EAttrs(r *vh.Rng, keys []string) string {
	var parts []string
	for _, k := range keys {
		if r.Chance(1, 2) {
			parts = append(parts, k+"="+genE2EVal(r))
		}
	}
	if len(parts) == 0 {
		return keys[r.Intn(len(keys))] + "=" + genE2EVal(r)
	}
	return strings.Join(parts, ";")
}

// genEQuery: one query of 2-5 SetRowAttrs / SetColumnAttrs calls that keep hitting the same one or
// two rows / columns with overlapping keys, type changes and nulls in every order (two queries out
// of three consist of SetRowAttrs only = the bulk path of the executor), then the reads.
func genEQuery(r *vh.Rng) vh.Case {
	keys := []string{"k61", "k62"}[:r.Range(1, 2)]
	ids := []int{r.Pick(0, 1, 99), r.Pick(100, 101, 250)}
	var lines []string
	if r.Chance(1, 2) {
		lines = append(lines, fmt.Sprintf("erow %d %s", ids[0], genE2EAttrs(r, keys)))
	}
	for q := 0; q < r.Range(1, 3); q++ {
		rowsOnly := r.Chance(2, 3)
		var calls []string
		for c := 0; c < r.Range(2, 5); c++ {
			kind := "r"
			if !rowsOnly && r.Chance(1, 2) {
				kind = "c"
			}
			id := ids[0]
			if r.Chance(1, 4) {
				id = ids[1]
			}
			calls = append(calls, fmt.Sprintf("%s%d:%s", kind, id, genE2EAttrs(r, keys)))
		}
		lines = append(lines, "equery "+strings.Join(calls, "|"))
		lines = append(lines, fmt.Sprintf("erowget %d", ids[0]), fmt.Sprintf("erowget %d", ids[1]), "ecolget")
		if r.Chance(1, 3) {
			lines = append(lines, fmt.Sprintf("get 2 %d", ids[0]), fmt.Sprintf("bdata 2 %d", ids[0]/100))
		}
	}
	lines = append(lines, "ediff 2 3", "ediff 3 2")
	return vh.Case{Lines: lines, Nontrivial: true}
}

// genE2E: attribute calls through PQL and the executor (SetRowAttrs on and off the bulk path,
// SetColumnAttrs, Row() attributes, the attribute-diff API), mixed with direct store access.
func genE2E(r *vh.Rng) vh.Case {
	keys := []string{"k61", "k62", "k6162"}[:r.Range(1, 3)]
	ids := []int{0, 1, 99, 100, 101, 250}
	pick := func() int { return ids[r.Intn(len(ids))] }
	var lines []string
	gets := 0
	for i := 0; i < r.Range(8, 24); i++ {
		switch x := r.Intn(100); {
		case x < 18:
			lines = append(lines, fmt.Sprintf("erow %d %s", pick(), genE2EAttrs(r, keys)))
		case x < 30:
			var parts []string
			for _, id := range ids {
				if r.Chance(2, 5) {
					parts = append(parts, fmt.Sprintf("%d:%s", id, genE2EAttrs(r, keys)))
				}
			}
			b := "_"
			if len(parts) > 0 {
				b = strings.Join(parts, "|")
			}
			lines = append(lines, "ebulk "+b)
		case x < 36:
			lines = append(lines, fmt.Sprintf("ecol %d %s", pick(), genE2EAttrs(r, keys)))
		case x < 42:
			lines = append(lines, "ecolget")
			gets += 1 // at least the row's map; column sets follow
		case x < 58:
			lines = append(lines, fmt.Sprintf("erowget %d", pick()))
			gets++
		case x < 66:
			lines = append(lines, fmt.Sprintf("get %d %d", r.Range(2, 3), pick()))
			gets++
		case x < 76:
			if gets > 0 {
				v := genE2EVal(r)
				lines = append(lines, fmt.Sprintf("mut %d %s=%s", r.Intn(gets), keys[r.Intn(len(keys))], v))
			}
		case x < 82:
			lines = append(lines, fmt.Sprintf("set %d %d %s", r.Range(0, 3), pick(), genE2EAttrs(r, keys)))
		case x < 88:
			lines = append(lines, fmt.Sprintf("bdata %d %d", r.Range(2, 3), r.Pick(0, 1, 2)))
		case x < 92:
			lines = append(lines, fmt.Sprintf("blocks %d", r.Range(2, 3)))
		default:
			lines = append(lines, fmt.Sprintf("ediff %d %d", r.Range(2, 3), r.Range(0, 3)))
		}
	}
	for _, id := range ids {
		lines = append(lines, fmt.Sprintf("erowget %d", id), fmt.Sprintf("get 3 %d", id))
	}
	lines = append(lines, "ediff 2 3", "ediff 3 2", "ediff 2 0")
	return vh.Case{Lines: lines, Nontrivial: true}
}

func genRawDiff(r *vh.Rng) vh.Case {
	var lines []string
	for i := 0; i < r.Range(3, 8); i++ {
		mk := func() string {
			var ss []string
			for id := 0; id < 7; id++ {
				if r.Chance(2, 5) {
					ss = append(ss, fmt.Sprintf("%d:%d", id, r.Range(0, 2)))
				}
			}
			if len(ss) == 0 {
				return "_"
			}
			return strings.Join(ss, ",")
		}
		lines = append(lines, "rawdiff "+mk()+" "+mk())
	}
	return vh.Case{Lines: lines, Nontrivial: true}
}

func genHistory(r *vh.Rng, tier string) vh.Case {
	nk := r.Range(1, 3)
	keys := make([]string, 0, nk)
	for _, i := range r.Perm(len(keyPool))[:nk] {
		keys = append(keys, keyPool[i])
	}
	nid := r.Range(1, 4)
	ids := make([]int, 0, nid)
	for _, i := range r.Perm(len(idPool))[:nid] {
		ids = append(ids, idPool[i])
	}
	sort.Ints(ids)
	pickID := func() int { return ids[r.Intn(len(ids))] }
	mirror := r.Chance(1, 2) // feed both stores the same updates (possibly reordered)
	var lines, pending []string
	gets, sets := 0, 0
	special := false
	nlines := r.Range(8, 30)
	if tier == "thorough" {
		nlines = r.Range(8, 60)
	}
	for i := 0; i < nlines; i++ {
		s := r.Intn(2)
		switch x := r.Intn(100); {
		case x < 30:
			id := pickID()
			a := genAttrs(r, keys, true)
			if r.Chance(1, 8) {
				a = delAll(keys)
			}
			lines = append(lines, fmt.Sprintf("set %d %d %s", s, id, a))
			if mirror {
				pending = append(pending, fmt.Sprintf("set %d %d %s", 1-s, id, a))
			}
			sets++
		case x < 40:
			var parts []string
			for _, id := range ids {
				if r.Chance(1, 2) {
					parts = append(parts, fmt.Sprintf("%d:%s", id, genAttrs(r, keys, true)))
				}
			}
			b := "_"
			if len(parts) > 0 {
				b = strings.Join(parts, "|")
			}
			lines = append(lines, fmt.Sprintf("bulk %d %s", s, b))
			if mirror {
				pending = append(pending, fmt.Sprintf("bulk %d %s", 1-s, b))
			}
			sets++
		case x < 60:
			id := pickID()
			if r.Chance(1, 6) {
				id = r.Pick(3, 150, 777) // never written
			}
			lines = append(lines, fmt.Sprintf("get %d %d", s, id))
			gets++
		case x < 72:
			if gets > 0 {
				v := genVal(r)
				for v == "!" {
					v = genVal(r)
				}
				lines = append(lines, fmt.Sprintf("mut %d %s=%s", r.Intn(gets), keys[r.Intn(len(keys))], v))
				special = true
			}
		case x < 77:
			lines = append(lines, fmt.Sprintf("reopen %d", s))
			special = true
		case x < 81:
			lines = append(lines, fmt.Sprintf("blocks %d", s))
		case x < 87:
			lines = append(lines, fmt.Sprintf("bdata %d %d", s, r.Pick(0, 1, 2, pickID()/100)))
		case x < 93:
			lines = append(lines, "cmp")
		default:
			lines = append(lines, fmt.Sprintf("diff %d %d", s, 1-s))
		}
		// flush mirrored updates now and then, in a shuffled order
		if len(pending) > 0 && r.Chance(1, 3) {
			order := r.Perm(len(pending))
			if r.Chance(2, 3) {
				sort.Ints(order) // same order: the stores must end up equal
			}
			for _, j := range order {
				lines = append(lines, pending[j])
			}
			pending = nil
			lines = append(lines, "cmp", fmt.Sprintf("diff %d %d", s, 1-s))
		}
	}
	for _, id := range ids {
		lines = append(lines, fmt.Sprintf("get 0 %d", id), fmt.Sprintf("get 1 %d", id))
	}
	lines = append(lines, "blocks 0", "blocks 1", "cmp", "diff 0 1", "diff 1 0")
	return vh.Case{Lines: lines, Nontrivial: sets >= 2 && (special || mirror)}
}

func main() {
	p := &prop{}
	defer func() {
		p.reset()
		if p.s != nil {
			p.s.Stop()
		}
	}()
	vh.Main(p)
}
