// Harness for C03: derived bitmaps, rows and fragment rows are isolated values.
//
// Line formats are documented in lean/PV/C03/Main.lean. Every case (one history) runs in a CHILD
// process (this binary with --child): a use of unmapped memory is a real SIGSEGV there, reported
// as `panic:useAfterUnmap` for the line that hit it and `dead` for the rest of the case, never a
// harness crash. mmap regions of the roaring-level histories are real anonymous mappings made
// read-only like a file mapping; the fragment lives in a scratch directory.
//
// After every operation the child prints the value of every handle and `iso=ok|bad`: a check of
// the proof's invariant on the REAL heap (container objects, data pointers, flags through the
// verif hooks): a container object reachable from two places is frozen, frozen data is never
// inside a mapping, data inside a mapping belongs to the bitmap owning that mapping and the
// mapping is live, a bitmap shared by two row segments is writable through neither.
package main

import (
	"bufio"
	"bytes"
	"fmt"
	"os"
	"os/exec"
	"path/filepath"
	"runtime"
	"runtime/debug"
	"strconv"
	"strings"
	"syscall"
	"time"
	"unsafe"

	"github.com/pilosa/pilosa"
	"github.com/pilosa/pilosa/roaring"
	"verifharness/vh"
)

const sw = 1 << 20

// ---------------------------------------------------------------- parent side

type prop struct{ ch *childProc }

func (p *prop) Rule() string {
	return "histories of 6-16 operations over few values in 2-3 containers/shards: create, derive (clone, freeze, union, intersect, " +
		"difference, xor, offset range, decode from a mapping, fragment row, row set-operations, merge), values spread over the " +
		"NON-adjacent containers 0,1,3,7 so that later writes insert container keys in the middle of a key table, fragment " +
		"importRoaring (set/clear) with array/run/bitmap payload containers (up to 15000 bits) against array/run/bitmap stored " +
		"containers after rows have been handed out; containers of 3-6 runs turned into run containers by Optimize / snapshot, " +
		"derived, then edited on either side at run boundaries (last+1, start-1, last, start, middle, gap); then mutate / snapshot / remap / " +
		"unmap / close / reopen either side, every handle re-read after every step; a case is non-trivial when it derives a value and " +
		"later mutates, remaps or closes one of the two sides"
}

var binNames = []string{"union", "intersect", "difference", "xor"}

func genBitmapCase(r *vh.Rng) vh.Case {
	var lines []string
	n := 0            // handles
	mapped := []int{} // handles created by bmap (own a mapping)
	derived, later := false, false
	val := func() int {
		// containers 0,1,3,7 are populated early; 2, 4 and 5 are the missing middle ones a later add inserts
		return r.Pick(0, 1, 2, 3, 5, 6, 65535, 65536, 65537, 65540, 70000, 131072, 131073, 196608, 196613, 262144, 327685, 458752, 458759)
	}
	csv := func() string {
		k := r.Pick(0, 1, 2, 3, 4, 7)
		var s []string
		for i := 0; i < k; i++ {
			s = append(s, strconv.Itoa(val()))
		}
		if len(s) == 0 {
			return "-"
		}
		return strings.Join(s, ",")
	}
	if r.Chance(1, 2) {
		// a bitmap spread over the non-adjacent containers 0, 1, 3 (and 7): three or four keys
		lines = append(lines, "bnew "+r.PickS("0,65536,196608", "1,65537,196613,458752", "5,70000,196608,458759", "0,65536,196608,458752"))
	} else {
		lines = append(lines, "bnew "+csv())
	}
	n++
	if r.Chance(2, 3) {
		lines = append(lines, "bnew "+csv())
		n++
	}
	steps := r.Range(5, 14)
	for i := 0; i < steps; i++ {
		h := r.Intn(n)
		switch x := r.Intn(100); {
		case x < 30:
			lines = append(lines, fmt.Sprintf("badd %d %d", h, val()))
			later = later || derived
		case x < 42:
			lines = append(lines, fmt.Sprintf("bremove %d %d", h, val()))
			later = later || derived
		case x < 50:
			lines = append(lines, fmt.Sprintf("bclone %d", h))
			n++
			derived = true
		case x < 60:
			lines = append(lines, fmt.Sprintf("bfreeze %d", h))
			n++
			derived = true
		case x < 76:
			lines = append(lines, fmt.Sprintf("b%s %d %d", binNames[r.Intn(4)], h, r.Intn(n)))
			n++
			derived = true
		case x < 83:
			start := r.Pick(0, 0, 1)
			lines = append(lines, fmt.Sprintf("boffset %d %d %d %d", h, r.Pick(0, 1, 5, 16), start, start+r.Pick(1, 2, 3, 4, 8)))
			n++
			derived = true
		case x < 90:
			lines = append(lines, fmt.Sprintf("bmap %d", h))
			mapped = append(mapped, n)
			n++
			derived = true
		case x < 96:
			if len(mapped) > 0 && r.Chance(2, 3) {
				h = mapped[r.Intn(len(mapped))]
			}
			lines = append(lines, fmt.Sprintf("bremap %d", h))
			later = later || derived
		default:
			if len(mapped) > 0 && r.Chance(2, 3) {
				h = mapped[r.Intn(len(mapped))]
			}
			lines = append(lines, fmt.Sprintf("bunmap %d", h))
			later = later || derived
		}
	}
	return vh.Case{Lines: lines, Nontrivial: derived && later}
}

func genRowCase(r *vh.Rng) vh.Case {
	var lines []string
	rows := 0
	fragState := 0 // 0 none, 1 open, 2 closed
	shard := r.Pick(0, 0, 1)
	derived, later := false, false
	col := func() int {
		return r.Pick(0, 1, 2, 3, 5, 65536, 65537, 70000, 131077, 196608, 196609, 262144, 458752, sw, sw+1, sw+2, sw+65536, sw+196608, 2*sw+1)
	}
	csv := func() string {
		k := r.Pick(0, 1, 2, 3, 5)
		var s []string
		for i := 0; i < k; i++ {
			s = append(s, strconv.Itoa(col()))
		}
		if len(s) == 0 {
			return "-"
		}
		return strings.Join(s, ",")
	}
	frow := func() int { return r.Pick(0, 1, 1, 2, 5) }
	fcol := func() int { return r.Pick(0, 1, 2, 3, 65536, 70000, 131072, 196608, 196610, 458752) }
	lines = append(lines, "rnew "+csv())
	rows++
	if r.Chance(3, 4) {
		lines = append(lines, fmt.Sprintf("fopen %d", shard))
		fragState = 1
		for i := r.Range(0, 4); i > 0; i-- {
			lines = append(lines, fmt.Sprintf("fset %d %d", frow(), fcol()))
		}
	}
	steps := r.Range(5, 14)
	for i := 0; i < steps; i++ {
		x := r.Intn(100)
		switch {
		case x < 8:
			lines = append(lines, "rnew "+csv())
			rows++
		case x < 30:
			lines = append(lines, fmt.Sprintf("rset %d %d", r.Intn(rows), col()))
			later = later || derived
		case x < 42:
			lines = append(lines, fmt.Sprintf("r%s %d %d", binNames[r.Intn(4)], r.Intn(rows), r.Intn(rows)))
			rows++
			derived = true
		case x < 48:
			lines = append(lines, fmt.Sprintf("rmerge %d %d", r.Intn(rows), r.Intn(rows)))
			derived = true
		default:
			switch fragState {
			case 0:
				lines = append(lines, fmt.Sprintf("fopen %d", shard))
				fragState = 1
			case 2:
				lines = append(lines, "freopen")
				fragState = 1
				later = later || derived
			case 1:
				y := (x - 48)
				switch {
				case y < 12:
					lines = append(lines, fmt.Sprintf("fset %d %d", frow(), fcol()))
					later = later || derived
				case y < 17:
					lines = append(lines, fmt.Sprintf("fclear %d %d", frow(), fcol()))
					later = later || derived
				case y < 30:
					lines = append(lines, fmt.Sprintf("frow %d", frow()))
					rows++
					derived = true
				case y < 38:
					lines = append(lines, fmt.Sprintf("fsetrow %d %d", frow(), r.Intn(rows)))
					derived = true
					later = true
				case y < 41:
					lines = append(lines, fmt.Sprintf("fclearrow %d", frow()))
					later = later || derived
				case y < 47:
					lines = append(lines, "fsnap")
					later = later || derived
				default:
					lines = append(lines, "fclose")
					fragState = 2
					later = later || derived
				}
			}
		}
	}
	return vh.Case{Lines: lines, Nontrivial: derived && later}
}

// runSet returns 3-6 runs inside container key (ascending, separated by gaps) as range items, and
// the run boundaries as (start, last) pairs.
func runSet(r *vh.Rng, key int) (string, [][2]int) {
	base := key * 65536
	n := r.Range(3, 6)
	pos := base + r.Pick(0, 1, 10)
	var items []string
	var runs [][2]int
	for i := 0; i < n; i++ {
		l := r.Pick(1, 2, 5, 9)
		items = append(items, fmt.Sprintf("%d-%d", pos, pos+l))
		runs = append(runs, [2]int{pos, pos + l})
		pos += l + r.Pick(2, 3, 10, 100)
	}
	return strings.Join(items, ","), runs
}

// edge returns a value at a run boundary: last+1 (extend), start-1, last (shrink), start, a middle
// value (split), or the gap value that merges two runs.
func edge(r *vh.Rng, runs [][2]int) int {
	ru := runs[r.Intn(len(runs))]
	switch r.Intn(6) {
	case 0:
		return ru[1] + 1
	case 1:
		if ru[0] > 0 {
			return ru[0] - 1
		}
		return ru[0]
	case 2:
		return ru[1]
	case 3:
		return ru[0]
	case 4:
		return (ru[0] + ru[1]) / 2
	default:
		return ru[1] + 2
	}
}

// genRunCase: containers holding 3-6 runs (run containers after Optimize / decode), derived by
// clone / freeze / union / offset range / decode, then either side edited at run boundaries (runs are
// edited in place when the container is writable), everything re-read.
func genRunCase(r *vh.Rng) vh.Case {
	var lines []string
	var allRuns [][2]int
	var items []string
	for _, k := range []int{0, r.Pick(1, 3)}[:r.Pick(1, 2)] {
		it, runs := runSet(r, k)
		items = append(items, it)
		allRuns = append(allRuns, runs...)
	}
	lines = append(lines, "bnew "+strings.Join(items, ","))
	lines = append(lines, "boptimize 0")
	n := 1
	derived, later := false, false
	for i := r.Range(5, 12); i > 0; i-- {
		h := r.Intn(n)
		switch x := r.Intn(100); {
		case x < 12:
			lines = append(lines, fmt.Sprintf("bclone %d", h))
			n++
			derived = true
		case x < 24:
			lines = append(lines, fmt.Sprintf("bfreeze %d", h))
			n++
			derived = true
		case x < 30:
			lines = append(lines, fmt.Sprintf("boffset %d 0 0 4", h))
			n++
			derived = true
		case x < 36:
			lines = append(lines, fmt.Sprintf("b%s %d %d", binNames[r.Intn(4)], h, r.Intn(n)))
			n++
			derived = true
		case x < 41:
			lines = append(lines, fmt.Sprintf("bmap %d", h))
			n++
			derived = true
		case x < 48:
			lines = append(lines, fmt.Sprintf("boptimize %d", h))
		case x < 78:
			lines = append(lines, fmt.Sprintf("badd %d %d", h, edge(r, allRuns)))
			later = later || derived
		default:
			lines = append(lines, fmt.Sprintf("bremove %d %d", h, edge(r, allRuns)))
			later = later || derived
		}
	}
	return vh.Case{Lines: lines, Nontrivial: derived && later}
}

// genRunRowCase: the same on a fragment: rows of 3-6 runs are imported and snapshotted (stored as run
// containers, mapped), read, and then the fragment and the rows are edited at run boundaries.
func genRunRowCase(r *vh.Rng) vh.Case {
	shard := r.Pick(0, 0, 1)
	lines := []string{fmt.Sprintf("fopen %d", shard)}
	row := r.Pick(0, 1)
	it, runs := runSet(r, row*16+r.Pick(0, 1))
	lines = append(lines, "fimport 0 "+it)
	if r.Chance(3, 4) {
		lines = append(lines, "fsnap")
	}
	rows := 0
	derived, later := false, false
	colOf := func(p int) int { return shard*sw + p%sw }
	for i := r.Range(5, 11); i > 0; i-- {
		switch x := r.Intn(100); {
		case x < 25:
			lines = append(lines, fmt.Sprintf("frow %d", row))
			rows++
			derived = true
		case x < 50 && rows > 0:
			lines = append(lines, fmt.Sprintf("rset %d %d", r.Intn(rows), colOf(edge(r, runs))))
			later = later || derived
		case x < 65:
			lines = append(lines, fmt.Sprintf("fset %d %d", row, edge(r, runs)%sw))
			later = later || derived
		case x < 80:
			lines = append(lines, fmt.Sprintf("fclear %d %d", row, edge(r, runs)%sw))
			later = later || derived
		case x < 86 && rows > 1:
			lines = append(lines, fmt.Sprintf("r%s %d %d", binNames[r.Intn(4)], r.Intn(rows), r.Intn(rows)))
			rows++
		case x < 93:
			lines = append(lines, "fsnap")
			later = later || derived
		default:
			e := edge(r, runs)
			lines = append(lines, fmt.Sprintf("fimport %d %d-%d", r.Pick(0, 1), e, e+r.Pick(0, 1, 3)))
			later = later || derived
		}
	}
	lines = append(lines, fmt.Sprintf("frow %d", row))
	return vh.Case{Lines: lines, Nontrivial: derived && later}
}

// genImportCase: rows are handed out, then importRoaring (set and clear) hits their containers with
// array / run / bitmap payload containers against array / run / bitmap stored containers (the stored
// encodings come from earlier imports and from snapshots), then everything is re-read.
func genImportCase(r *vh.Rng) vh.Case {
	shard := r.Pick(0, 0, 1)
	lines := []string{fmt.Sprintf("fopen %d", shard)}
	rows := 0
	payload := func(row int) string {
		b := row * sw
		switch r.Intn(7) {
		case 0: // bitmap container: 5000 bits, no runs
			return fmt.Sprintf("%d-%d/2", b, b+9998)
		case 1: // long run
			return fmt.Sprintf("%d-%d", b+r.Pick(0, 4000, 5000), b+r.Pick(5999, 6999, 9000))
		case 2: // run crossing a container edge
			return fmt.Sprintf("%d-%d", b+65000, b+66000)
		case 3: // bitmap container in the second container
			return fmt.Sprintf("%d-%d/3", b+65536, b+65536+14997)
		case 4: // few values: array
			return fmt.Sprintf("%d,%d,%d", b+r.Pick(1, 3, 5001), b+70000, b+196608)
		case 5: // several short runs
			return fmt.Sprintf("%d-%d,%d-%d,%d-%d", b+10, b+20, b+4990, b+5010, b+9990, b+10010)
		default: // dense array-sized
			return fmt.Sprintf("%d-%d/5", b+2, b+9997)
		}
	}
	row := func() int { return r.Pick(0, 1, 1) }
	// stored data first
	for i := r.Range(1, 3); i > 0; i-- {
		lines = append(lines, fmt.Sprintf("fimport 0 %s", payload(row())))
	}
	if r.Chance(1, 2) {
		lines = append(lines, "fsnap")
	}
	derived, later := false, false
	for i := r.Range(4, 9); i > 0; i-- {
		switch x := r.Intn(100); {
		case x < 30:
			lines = append(lines, fmt.Sprintf("frow %d", row()))
			rows++
			derived = true
		case x < 65:
			lines = append(lines, fmt.Sprintf("fimport %d %s", r.Pick(0, 0, 1), payload(row())))
			later = later || derived
		case x < 75 && rows > 0:
			lines = append(lines, fmt.Sprintf("rset %d %d", r.Intn(rows), shard*sw+r.Pick(1, 5001, 65999, 131072, 196610)))
			later = later || derived
		case x < 85 && rows > 1:
			lines = append(lines, fmt.Sprintf("r%s %d %d", binNames[r.Intn(4)], r.Intn(rows), r.Intn(rows)))
			rows++
		case x < 92:
			lines = append(lines, "fsnap")
			later = later || derived
		default:
			lines = append(lines, fmt.Sprintf("fset %d %d", row(), r.Pick(1, 5001, 70000)))
			later = later || derived
		}
	}
	if rows > 0 {
		lines = append(lines, fmt.Sprintf("frow %d", row()))
	}
	return vh.Case{Lines: lines, Nontrivial: derived && later}
}

// genSpreadRowCase: a fragment row spanning the non-adjacent containers 0, 1, 3 is read, the reader
// writes into the missing container 2 (an insertion in the middle of the key table), the row is read
// again; the same for three-way unions of rows of one shard.
func genSpreadRowCase(r *vh.Rng) vh.Case {
	shard := r.Pick(0, 0, 1)
	lines := []string{fmt.Sprintf("fopen %d", shard)}
	rw := r.Pick(0, 1, 2)
	for _, c := range []int{0, 65536, 196608} {
		lines = append(lines, fmt.Sprintf("fset %d %d", rw, c+r.Pick(0, 1, 7)))
	}
	if r.Chance(1, 2) {
		lines = append(lines, fmt.Sprintf("fset %d %d", rw, 458752))
	}
	if r.Chance(1, 3) {
		lines = append(lines, "fsnap")
	}
	rows := 0
	for i := r.Range(3, 8); i > 0; i-- {
		switch x := r.Intn(100); {
		case x < 35:
			lines = append(lines, fmt.Sprintf("frow %d", rw))
			rows++
		case x < 70 && rows > 0:
			lines = append(lines, fmt.Sprintf("rset %d %d", r.Intn(rows), shard*sw+r.Pick(131072, 131077, 262144, 327680, 3)))
		case x < 85 && rows > 1:
			lines = append(lines, fmt.Sprintf("r%s %d %d", binNames[r.Intn(4)], r.Intn(rows), r.Intn(rows)))
			rows++
		case x < 92:
			lines = append(lines, fmt.Sprintf("rnew %d,%d,%d", shard*sw+2, shard*sw+65540, shard*sw+196700))
			rows++
		default:
			lines = append(lines, fmt.Sprintf("fset %d %d", rw, r.Pick(131072, 5, 262150)))
		}
	}
	lines = append(lines, fmt.Sprintf("frow %d", rw))
	return vh.Case{Lines: lines, Nontrivial: rows > 0}
}

func (p *prop) Gen(r *vh.Rng, tier string, n int) []vh.Case {
	var cases []vh.Case
	for k := 0; k < n; k++ {
		cr := r.Fork()
		switch x := cr.Intn(100); {
		case x < 22:
			cases = append(cases, genBitmapCase(cr))
		case x < 50:
			cases = append(cases, genRowCase(cr))
		case x < 62:
			cases = append(cases, genSpreadRowCase(cr))
		case x < 74:
			cases = append(cases, genImportCase(cr))
		case x < 88:
			cases = append(cases, genRunCase(cr))
		default:
			cases = append(cases, genRunRowCase(cr))
		}
	}
	return cases
}

// childProc is a running child (this binary with --child). One child serves many cases; it is
// replaced after a case in which it died, timed out or reported a panic.
type childProc struct {
	cmd   *exec.Cmd
	errb  *bytes.Buffer
	in    *bufio.Writer
	lines chan string
}

func startChild() *childProc {
	self, _ := os.Executable()
	cmd := exec.Command(self, "--child")
	stdin, err := cmd.StdinPipe()
	if err != nil {
		panic(err)
	}
	stdout, err := cmd.StdoutPipe()
	if err != nil {
		panic(err)
	}
	errb := &bytes.Buffer{}
	cmd.Stderr = errb
	if os.Getenv("C03_DEBUG") != "" {
		cmd.Stderr = os.Stderr
	}
	if err := cmd.Start(); err != nil {
		panic(err)
	}
	cp := &childProc{cmd: cmd, errb: errb, in: bufio.NewWriter(stdin), lines: make(chan string, 64)}
	go func() {
		sc := bufio.NewScanner(stdout)
		sc.Buffer(make([]byte, 1<<20), 1<<26)
		for sc.Scan() {
			cp.lines <- sc.Text()
		}
		close(cp.lines)
	}()
	return cp
}

func (cp *childProc) kill() {
	_ = cp.cmd.Process.Kill()
	_, _ = cp.cmd.Process.Wait()
}

// ask sends one line and waits for the answer. ok=false: the child is gone (died or timed out).
func (cp *childProc) ask(line string, timeout time.Duration) (ans string, ok bool, timedOut bool) {
	if _, err := cp.in.WriteString(line + "\n"); err != nil {
		return "", false, false
	}
	if err := cp.in.Flush(); err != nil {
		return "", false, false
	}
	select {
	case a, open := <-cp.lines:
		return a, open, false
	case <-time.After(timeout):
		return "", false, true
	}
}

// Exec runs one case in the child process.
func (p *prop) Exec(lines []string) []string {
	outs := make([]string, len(lines))
	dir, err := os.MkdirTemp("", "c03-")
	if err != nil {
		panic(err)
	}
	defer os.RemoveAll(dir)
	if p.ch == nil {
		p.ch = startChild()
	}
	gone := false
	if _, ok, _ := p.ch.ask("case "+dir, 30*time.Second); !ok {
		// could not even reset: start over once
		p.ch.kill()
		p.ch = startChild()
		if _, ok, _ := p.ch.ask("case "+dir, 30*time.Second); !ok {
			panic("c03: child does not start")
		}
	}
	sawPanic := false
	for i, l := range lines {
		if gone {
			outs[i] = "dead"
			continue
		}
		a, ok, timedOut := p.ch.ask(l, 30*time.Second)
		switch {
		case ok:
			outs[i] = a
			if strings.HasPrefix(a, "panic:") {
				sawPanic = true
			}
		case timedOut:
			outs[i] = "panic:timeout"
			vh.Count("child-timeout")
			gone = true
		default:
			// the child died while executing this line (a fault the runtime could not turn into a panic)
			outs[i] = "panic:useAfterUnmap"
			vh.Count("child-killed")
			gone = true
			p.ch.kill()
			if os.Getenv("C03_DEBUG") != "" {
				e := p.ch.errb.String()
				if len(e) > 1500 {
					e = e[:1500]
				}
				fmt.Fprintf(os.Stderr, "c03: child died at %q: %s\n", l, e)
			}
		}
	}
	if gone || sawPanic {
		p.ch.kill()
		p.ch = nil
	}
	for _, o := range outs {
		if strings.HasPrefix(o, "panic:") {
			vh.Count(o)
		} else if strings.HasSuffix(o, "iso=bad") {
			vh.Count("iso=bad")
		}
	}
	for _, l := range lines {
		if i := strings.IndexByte(l, ' '); i > 0 {
			vh.Count("op:" + l[:i])
		} else {
			vh.Count("op:" + l)
		}
	}
	return outs
}

// ---------------------------------------------------------------- child side

type region struct {
	mem   []byte
	live  bool
	owner *roaring.Bitmap
}

type child struct {
	dir     string
	bs      []*roaring.Bitmap
	rows    []*pilosa.Row
	frag    *pilosa.VerifC03Frag
	fopen   bool
	shard   uint64
	files   map[int]bool // handles made by bmap
	regions []*region
	// fragment mappings seen so far: start,size,live
	fmaps []*region
}

func newRegion(data []byte, owner *roaring.Bitmap) *region {
	n := len(data)
	if n == 0 {
		n = 1
	}
	mem, err := syscall.Mmap(-1, 0, n, syscall.PROT_READ|syscall.PROT_WRITE, syscall.MAP_ANON|syscall.MAP_PRIVATE)
	if err != nil {
		panic(err)
	}
	copy(mem, data)
	if err := syscall.Mprotect(mem, syscall.PROT_READ); err != nil {
		panic(err)
	}
	return &region{mem: mem[:len(data)], live: true, owner: owner}
}

func (r *region) contains(p uintptr) bool {
	if len(r.mem) == 0 || p == 0 {
		return false
	}
	s := uintptr(unsafe.Pointer(&r.mem[0]))
	return p >= s && p < s+uintptr(len(r.mem))
}

func (r *region) unmap() {
	if r.live {
		r.live = false
		m := r.mem[:cap(r.mem)]
		_ = syscall.Munmap(m)
	}
}

func serialise(b *roaring.Bitmap) []byte {
	var buf bytes.Buffer
	if _, err := b.WriteTo(&buf); err != nil {
		panic(err)
	}
	return buf.Bytes()
}

func (c *child) killRegionsOf(b *roaring.Bitmap, keep *region) {
	for _, r := range c.regions {
		if r.owner == b && r != keep {
			r.unmap()
		}
	}
}

// csvVals parses items `a`, `a-b`, `a-b/step` separated by commas (`-` = nothing).
func csvVals(s string) []uint64 {
	if s == "-" || s == "" {
		return nil
	}
	var out []uint64
	for _, it := range strings.Split(s, ",") {
		step := uint64(1)
		if i := strings.IndexByte(it, '/'); i >= 0 {
			v, err := strconv.ParseUint(it[i+1:], 10, 64)
			if err != nil || v == 0 {
				panic("bad number " + it)
			}
			step, it = v, it[:i]
		}
		lo, hi := it, it
		if i := strings.IndexByte(it, '-'); i > 0 {
			lo, hi = it[:i], it[i+1:]
		}
		a, err1 := strconv.ParseUint(lo, 10, 64)
		b, err2 := strconv.ParseUint(hi, 10, 64)
		if err1 != nil || err2 != nil {
			panic("bad number " + it)
		}
		for v := a; v <= b; v += step {
			out = append(out, v)
		}
	}
	return out
}

// showVals prints a list like the model driver: arithmetic runs of length >= 4 as a-b or a-b/step.
func showVals(xs []uint64) string {
	var parts []string
	for i := 0; i < len(xs); {
		if i+1 < len(xs) && xs[i+1] > xs[i] {
			step := xs[i+1] - xs[i]
			j := i + 1
			for j+1 < len(xs) && xs[j+1] == xs[j]+step {
				j++
			}
			if j-i+1 >= 4 {
				p := fmt.Sprintf("%d-%d", xs[i], xs[j])
				if step != 1 {
					p += fmt.Sprintf("/%d", step)
				}
				parts = append(parts, p)
				i = j + 1
				continue
			}
		}
		parts = append(parts, strconv.FormatUint(xs[i], 10))
		i++
	}
	return "[" + strings.Join(parts, " ") + "]"
}

func atoi(s string) int {
	v, err := strconv.Atoi(s)
	if err != nil {
		panic("bad number " + s)
	}
	return v
}

const badRef = "bad-ref"

func (c *child) bm(s string) *roaring.Bitmap {
	i := atoi(s)
	if i < 0 || i >= len(c.bs) {
		return nil
	}
	return c.bs[i]
}
func (c *child) row(s string) *pilosa.Row {
	i := atoi(s)
	if i < 0 || i >= len(c.rows) {
		return nil
	}
	return c.rows[i]
}

func binBitmap(op string, a, b *roaring.Bitmap) *roaring.Bitmap {
	switch op {
	case "union":
		return a.Union(b)
	case "intersect":
		return a.Intersect(b)
	case "difference":
		return a.Difference(b)
	case "xor":
		return a.Xor(b)
	}
	return nil
}

func binRow(op string, a, b *pilosa.Row) *pilosa.Row {
	switch op {
	case "union":
		return a.Union(b)
	case "intersect":
		return a.Intersect(b)
	case "difference":
		return a.Difference(b)
	case "xor":
		return a.Xor(b)
	}
	return nil
}

// noteFragMapping records the fragment's current mapping; earlier ones are no longer mapped.
func (c *child) noteFragMapping() {
	start, size := uintptr(0), uintptr(0)
	if c.fopen {
		start, size = c.frag.Mapping()
	}
	if n := len(c.fmaps); n > 0 && c.fmaps[n-1].live {
		last := c.fmaps[n-1]
		if size != 0 && uintptr(unsafe.Pointer(&last.mem[0])) == start && uintptr(len(last.mem)) == size {
			return // same mapping
		}
		last.live = false
	}
	if size != 0 {
		var mem []byte
		sh := (*[3]uintptr)(unsafe.Pointer(&mem))
		sh[0], sh[1], sh[2] = start, size, size
		c.fmaps = append(c.fmaps, &region{mem: mem, live: true})
	}
}

func (c *child) exec(ws []string) string {
	switch ws[0] {
	case "bnew":
		c.bs = append(c.bs, roaring.NewBitmap(csvVals(ws[1])...))
	case "badd", "bremove":
		b := c.bm(ws[1])
		if b == nil {
			return badRef
		}
		if ws[0] == "badd" {
			_, _ = b.Add(uint64(atoi(ws[2])))
		} else {
			_, _ = b.Remove(uint64(atoi(ws[2])))
		}
	case "boptimize":
		b := c.bm(ws[1])
		if b == nil {
			return badRef
		}
		b.Optimize()
	case "bclone", "bfreeze", "bmap", "bremap", "bunmap":
		b := c.bm(ws[1])
		if b == nil {
			return badRef
		}
		if (ws[0] == "bremap" || ws[0] == "bunmap") && !c.files[atoi(ws[1])] {
			return badRef // RemapRoaringStorage is for file bitmaps (what fragment storage is)
		}
		switch ws[0] {
		case "bclone":
			c.bs = append(c.bs, b.Clone())
		case "bfreeze":
			c.bs = append(c.bs, b.Freeze())
		case "bmap":
			// the file image is built from the value of b (test scaffolding: how the bytes got
			// on disk is C04's subject); decoding them into a file bitmap is the step under test
			d := roaring.NewFileBitmap()
			r := newRegion(serialise(roaring.NewBitmap(b.Slice()...)), d)
			c.regions = append(c.regions, r)
			if err := d.UnmarshalBinary(r.mem); err != nil {
				return "err:unmarshal"
			}
			c.files[len(c.bs)] = true
			c.bs = append(c.bs, d)
		case "bremap":
			r := newRegion(serialise(b), b)
			c.regions = append(c.regions, r)
			if _, err := b.RemapRoaringStorage(r.mem); err != nil {
				return "err:remap"
			}
			c.killRegionsOf(b, r)
		case "bunmap":
			if _, err := b.RemapRoaringStorage(nil); err != nil {
				return "err:remap"
			}
			c.killRegionsOf(b, nil)
		}
	case "bunion", "bintersect", "bdifference", "bxor":
		a, b := c.bm(ws[1]), c.bm(ws[2])
		if a == nil || b == nil {
			return badRef
		}
		c.bs = append(c.bs, binBitmap(ws[0][1:], a, b))
	case "boffset":
		b := c.bm(ws[1])
		if b == nil {
			return badRef
		}
		c.bs = append(c.bs, b.OffsetRange(uint64(atoi(ws[2]))<<16, uint64(atoi(ws[3]))<<16, uint64(atoi(ws[4]))<<16))
	case "rnew":
		c.rows = append(c.rows, pilosa.NewRow(csvVals(ws[1])...))
	case "rset":
		r := c.row(ws[1])
		if r == nil {
			return badRef
		}
		r.SetBit(uint64(atoi(ws[2])))
	case "runion", "rintersect", "rdifference", "rxor":
		a, b := c.row(ws[1]), c.row(ws[2])
		if a == nil || b == nil {
			return badRef
		}
		c.rows = append(c.rows, binRow(ws[0][1:], a, b))
	case "rmerge":
		a, b := c.row(ws[1]), c.row(ws[2])
		if a == nil || b == nil {
			return badRef
		}
		a.Merge(b)
	case "fopen":
		if c.frag != nil {
			return badRef
		}
		f, err := pilosa.VerifC03OpenFragment(filepath.Join(c.dir, "frag"), uint64(atoi(ws[1])))
		if err != nil {
			return "err:open"
		}
		c.frag, c.fopen = f, true
		c.shard = uint64(atoi(ws[1]))
	case "fset", "fclear", "frow", "fsetrow", "fclearrow", "fsnap", "fclose", "fimport":
		if c.frag == nil || !c.fopen {
			return badRef
		}
		var err error
		switch ws[0] {
		case "fset":
			_, err = c.frag.SetBit(uint64(atoi(ws[1])), c.shard*sw+uint64(atoi(ws[2]))%sw)
		case "fclear":
			_, err = c.frag.ClearBit(uint64(atoi(ws[1])), c.shard*sw+uint64(atoi(ws[2]))%sw)
		case "frow":
			c.rows = append(c.rows, c.frag.Row(uint64(atoi(ws[1]))))
		case "fsetrow":
			y := c.row(ws[2])
			if y == nil {
				return badRef
			}
			_, err = c.frag.SetRow(y, uint64(atoi(ws[1])))
		case "fclearrow":
			_, err = c.frag.ClearRow(uint64(atoi(ws[1])))
		case "fimport":
			// the payload is a serialised roaring bitmap; WriteTo optimises it, so ranges arrive as
			// run containers, dense non-ranges as bitmap containers, the rest as arrays
			err = c.frag.ImportRoaring(serialise(roaring.NewBitmap(csvVals(ws[2])...)), ws[1] == "1")
		case "fsnap":
			err = c.frag.Snapshot()
		case "fclose":
			err = c.frag.Close()
			c.fopen = false
		}
		if err != nil {
			return "err:" + ws[0]
		}
		if c.fopen {
			// the snapshot a row operation asked for runs on the queue worker: let it finish
			// before the heap is inspected (the harness is single-threaded by design)
			c.frag.Quiesce()
		}
	case "freopen":
		if c.frag == nil || c.fopen {
			return badRef
		}
		if err := c.frag.Reopen(); err != nil {
			return "err:reopen"
		}
		c.fopen = true
	default:
		return "bad-op"
	}
	c.noteFragMapping()
	return c.dump()
}

type ref struct {
	root *roaring.Bitmap
	c    roaring.VerifC03Cont
}

func (c *child) dump() string {
	var parts []string
	for i, b := range c.bs {
		parts = append(parts, fmt.Sprintf("B%d=%s", i, showVals(b.Slice())))
	}
	for i, r := range c.rows {
		parts = append(parts, fmt.Sprintf("R%d=%s", i, showVals(r.Columns())))
	}
	switch {
	case c.frag == nil:
		parts = append(parts, "F=-")
	case !c.fopen:
		parts = append(parts, "F=closed")
	default:
		parts = append(parts, "F="+showVals(c.frag.Positions()))
	}
	if c.iso() {
		parts = append(parts, "iso=ok")
	} else {
		parts = append(parts, "iso=bad")
	}
	return strings.Join(parts, " ")
}

// iso checks the proof's invariant on the real heap.
func (c *child) iso() bool {
	var refs []ref
	seenBm := map[*roaring.Bitmap]bool{}
	add := func(b *roaring.Bitmap) {
		if b == nil || seenBm[b] {
			return
		}
		seenBm[b] = true
		for _, ct := range roaring.VerifC03Conts(b) {
			refs = append(refs, ref{b, ct})
		}
	}
	for _, b := range c.bs {
		add(b)
	}
	// row segments: a bitmap shared by two segments must be writable through neither
	segUsers := map[*roaring.Bitmap]int{}
	segWritable := map[*roaring.Bitmap]bool{}
	for _, r := range c.rows {
		bms, _, wr := pilosa.VerifC03RowSegments(r)
		for i, b := range bms {
			add(b)
			segUsers[b]++
			if wr[i] {
				segWritable[b] = true
			}
		}
	}
	ok := true
	dbg := os.Getenv("C03_DEBUG") != ""
	// a bitmap owns its key table: no two slice bitmaps share the backing array of their key slice
	// or of their container slice
	tabK, tabC := map[uintptr]*roaring.Bitmap{}, map[uintptr]*roaring.Bitmap{}
	for b := range seenBm {
		k, cs := roaring.VerifC03Table(b)
		if k != 0 {
			if o, dup := tabK[k]; dup && o != b {
				ok = false
				if dbg {
					fmt.Fprintf(os.Stderr, "iso: key slice shared by %p and %p\n", o, b)
				}
			}
			tabK[k] = b
		}
		if cs != 0 {
			if o, dup := tabC[cs]; dup && o != b {
				ok = false
				if dbg {
					fmt.Fprintf(os.Stderr, "iso: container slice shared by %p and %p\n", o, b)
				}
			}
			tabC[cs] = b
		}
	}
	bad := func(why string, r ref) {
		ok = false
		if dbg {
			fmt.Fprintf(os.Stderr, "iso: %s root=%p cont=%+v\n", why, r.root, r.c)
		}
	}
	for b, n := range segUsers {
		if n > 1 && segWritable[b] {
			ok = false
		}
	}
	var storage *roaring.Bitmap
	if c.frag != nil && c.fopen {
		storage = c.frag.Storage()
		if segUsers[storage] > 0 {
			ok = false
		}
		add(storage)
	}
	byObj := map[uintptr]ref{}
	// stores are never shared: two different container objects never point at the same data (array
	// values, bitmap words or run intervals; the inline stash lives inside the object)
	byData := map[uintptr]uintptr{}
	for _, r := range refs {
		if r.c.N == 0 || r.c.Data == 0 || r.c.Bytes == 0 {
			continue
		}
		if o, dup := byData[r.c.Data]; dup && o != r.c.Obj {
			bad("data shared by two container objects", r)
		}
		byData[r.c.Data] = r.c.Obj
	}
	for _, r := range refs {
		if prev, dup := byObj[r.c.Obj]; dup {
			if !(r.c.Frozen && prev.c.Frozen) {
				bad("shared object not frozen", r)
			}
		} else {
			byObj[r.c.Obj] = r
		}
		if r.c.N == 0 || r.c.Data == 0 {
			continue
		}
		// which mapping holds the data? a live one wins over dead ones that used to occupy the
		// same addresses
		inRegion, liveHit, ownerOK := false, false, false
		for _, rg := range c.regions {
			if rg.contains(r.c.Data) {
				inRegion = true
				if rg.live {
					liveHit, ownerOK = true, rg.owner == r.root
				}
			}
		}
		for _, rg := range c.fmaps {
			if rg.contains(r.c.Data) {
				inRegion = true
				if rg.live {
					liveHit, ownerOK = true, r.root == storage
				}
			}
		}
		if inRegion && !liveHit {
			bad("data inside an unmapped region", r)
		} else if inRegion && !ownerOK {
			bad("data inside a mapping owned by another bitmap", r)
		}
		if r.c.Frozen && inRegion {
			bad("frozen data inside a mapping", r)
		}
	}
	return ok
}

func (c *child) reset(dir string) *child {
	// leave the previous case behind: close the fragment, unmap what is still mapped
	if c != nil {
		if c.frag != nil && c.fopen {
			_ = c.frag.Close()
		}
		// drop every handle and collect before unmapping, so that no (garbage) container still
		// points into a range the Go heap might be given next
		regions := c.regions
		*c = child{}
		runtime.GC()
		for _, r := range regions {
			r.unmap()
		}
	}
	return &child{dir: dir, files: map[int]bool{}}
}

func childMain() {
	debug.SetPanicOnFault(true)
	var c *child
	in := bufio.NewScanner(os.Stdin)
	in.Buffer(make([]byte, 1<<20), 1<<26)
	out := bufio.NewWriter(os.Stdout)
	dead := false
	for in.Scan() {
		ws := strings.Fields(in.Text())
		var res string
		switch {
		case len(ws) == 2 && ws[0] == "case":
			c = c.reset(ws[1])
			dead = false
			res = "-"
		case dead:
			res = "dead"
		case len(ws) == 0 || c == nil:
			res = "bad-op"
		default:
			res = func() (s string) {
				defer func() {
					if e := recover(); e != nil {
						msg := fmt.Sprint(e)
						if strings.Contains(msg, "unexpected fault address") {
							s = "panic:useAfterUnmap"
						} else if strings.Contains(msg, "nil pointer dereference") {
							s = "panic:nil-deref"
						} else if strings.HasPrefix(msg, "bad number") || strings.HasPrefix(msg, "bad csv") {
							s = "bad-op"
						} else {
							s = "panic:" + strings.ReplaceAll(strings.ReplaceAll(msg, "\n", " "), "\t", " ")
						}
					}
				}()
				return c.exec(ws)
			}()
			if strings.HasPrefix(res, "panic:") {
				dead = true
			}
		}
		fmt.Fprintln(out, res)
		out.Flush()
	}
}

func main() {
	if len(os.Args) >= 2 && os.Args[1] == "--child" {
		childMain()
		return
	}
	vh.Main(&prop{})
}
