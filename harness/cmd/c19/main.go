// Harness for C19: clearing a bit removes it from every time range.
//
// Line formats: lean/PV/C18/Step.lean and lean/PV/C19/Main.lean. A case opens a time field (hooked
// Field API in a scratch directory, or PQL on an in-process server), applies a history of
// timestamped sets (several columns, so that sibling views exist) interleaved with clears, and
// after every clear scans every view of the field for the bit and queries wide time ranges.
package main

import (
	"fmt"
	"os"
	"strings"
	"time"

	"verifharness/cmd/c18/tf"
	"verifharness/vh"
)

type prop struct{ tf.Runner }

func (p *prop) Rule() string {
	return "histories on a time field of every valid quantum (noStandardView in 1 of 6): 3-12 sets of 1-2 rows x 1-4 columns with " +
		"timestamps drawn from a pool spreading over 2-3 years, 2-3 months, 2-3 days and hours {0,1,12,13,23} (so that views share " +
		"prefixes and sibling views exist), sets without timestamp, 1-3 clears each followed by a scan of every view, a views dump, " +
		"and (PQL cases) Row over the whole span and over sub-ranges; sets after a clear and a second clear; 1 in 4 writes goes through " +
		"Field.Import/API.Import (bits with and without timestamps), 1 in 3 clears is preceded by a clear-import (which only reaches the " +
		"standard view), a refused clear-import with timestamp; after half of the clears the views of another period are created through " +
		"the peer path (CreateViewMessage -> Server.receiveMessage / createViewIfNotExistsBase), the bit is set there and cleared again. " +
		"A case is non-trivial when a clear hits a bit that was set with at least one timestamp"
}

func pool(r *vh.Rng) []time.Time {
	y0 := r.Pick(1999, 2000, 2001, 2003)
	years := []int{y0, y0 + 1, y0 + r.Range(1, 2)}
	months := []int{r.Range(1, 12), r.Range(1, 12), r.Pick(1, 2, 12)}
	days := []int{r.Range(1, 28), r.Range(1, 28), r.Pick(1, 2, 28)}
	hours := []int{0, 1, 12, 13, 23}
	var ts []time.Time
	n := r.Range(2, 8)
	for i := 0; i < n; i++ {
		ts = append(ts, tf.T(years[r.Intn(3)], months[r.Intn(3)], days[r.Intn(3)], hours[r.Intn(5)]))
	}
	return ts
}

func viewName(t time.Time, u byte) string {
	switch u {
	case 'Y':
		return "standard_" + t.Format("2006")
	case 'M':
		return "standard_" + t.Format("200601")
	case 'D':
		return "standard_" + t.Format("20060102")
	}
	return "standard_" + t.Format("2006010215")
}

func (p *prop) Gen(r *vh.Rng, tier string, n int) []vh.Case {
	old := os.Getenv("VERIF_C19_OLD") == "1"
	var cases []vh.Case
	for k := 0; k < n; k++ {
		cr := r.Fork()
		q := tf.Quanta[cr.Intn(len(tf.Quanta))]
		nostd := 0
		if cr.Chance(1, 6) {
			nostd = 1
		}
		e2e := cr.Chance(1, 8) && !old
		var lines []string
		switch {
		case e2e:
			lines = append(lines, fmt.Sprintf("efield %s %d", q, nostd))
		case old:
			lines = append(lines, fmt.Sprintf("field %s 0 old", q))
			nostd = 0
		default:
			lines = append(lines, fmt.Sprintf("field %s %d", q, nostd))
		}
		ts := pool(cr)
		lo, hi := ts[0], ts[0]
		for _, t := range ts {
			if t.Before(lo) {
				lo = t
			}
			if t.After(hi) {
				hi = t
			}
		}
		fin := tf.Finest(q)
		spanA := tf.AddUnits(tf.Floor(lo, fin), fin, -1)
		spanB := tf.AddUnits(tf.Floor(hi, fin), fin, 2)
		if fin == 'H' {
			// keep hour walks short: whole days around the pool
			spanA, spanB = tf.Floor(lo, 'Y'), tf.AddUnits(tf.Floor(hi, 'Y'), 'Y', 1)
		}
		rows, cols := cr.Range(1, 2), cr.Range(1, 4)
		stamped := map[[2]int]bool{}
		nontrivial := false
		set := func() {
			rr, cc := cr.Range(1, rows), cr.Range(1, cols)
			if cr.Chance(1, 4) {
				// the same writes through Field.Import / API.Import: 1-3 bits, with and without timestamps
				var bits []string
				for n := cr.Range(1, 3); n > 0; n-- {
					br, bc := cr.Range(1, rows), cr.Range(1, cols)
					if cr.Chance(1, 4) {
						bits = append(bits, fmt.Sprintf("%d:%d:-", br, bc))
					} else {
						stamped[[2]int{br, bc}] = true
						bits = append(bits, fmt.Sprintf("%d:%d:%s", br, bc, tf.Show(ts[cr.Intn(len(ts))])))
					}
				}
				lines = append(lines, "import 0 "+strings.Join(bits, ";"))
				return
			}
			if cr.Chance(1, 10) {
				lines = append(lines, fmt.Sprintf("set %d %d -", rr, cc))
				return
			}
			stamped[[2]int{rr, cc}] = true
			lines = append(lines, fmt.Sprintf("set %d %d %s", rr, cc, tf.Show(ts[cr.Intn(len(ts))])))
		}
		// views of a timestamp for the quantum, created the way a peer's CreateViewMessage does
		peerViews := func(t time.Time, all bool) {
			for i := 0; i < len(q); i++ {
				if !all && cr.Chance(1, 2) {
					continue
				}
				lines = append(lines, "mkview "+viewName(t, q[i]))
			}
		}
		queries := func(rr, cc int) {
			lines = append(lines, fmt.Sprintf("scan %d %d", rr, cc))
			if e2e {
				lines = append(lines, fmt.Sprintf("row %d %s %s", rr, tf.Show(spanA), tf.Show(spanB)))
				if cr.Chance(1, 2) {
					t := tf.Floor(ts[cr.Intn(len(ts))], fin)
					lines = append(lines, fmt.Sprintf("row %d %s %s", rr, tf.Show(t), tf.Show(tf.AddUnits(t, fin, cr.Range(1, 3)))))
				}
				if nostd == 0 {
					lines = append(lines, fmt.Sprintf("row %d - -", rr))
				}
			}
		}
		for i := cr.Range(3, 12); i > 0; i-- {
			set()
		}
		for c := cr.Range(1, 3); c > 0; c-- {
			rr, cc := cr.Range(1, rows), cr.Range(1, cols)
			if stamped[[2]int{rr, cc}] {
				nontrivial = true
			}
			switch cr.Intn(6) {
			case 0, 1:
				// a clear-import (no timestamps: it only reaches the standard view) before the clear
				bits := fmt.Sprintf("%d:%d:-", rr, cc)
				if cr.Chance(1, 3) {
					bits += fmt.Sprintf(";%d:%d:-", cr.Range(1, rows), cr.Range(1, cols))
				}
				lines = append(lines, "import 1 "+bits)
				if cr.Chance(1, 2) {
					lines = append(lines, fmt.Sprintf("scan %d %d", rr, cc))
				}
			case 2:
				if cr.Chance(1, 3) {
					// refused: clear with a timestamp (one bit, so one shard)
					lines = append(lines, fmt.Sprintf("import 1 %d:%d:%s", rr, cc, tf.Show(ts[cr.Intn(len(ts))])))
				}
			}
			lines = append(lines, fmt.Sprintf("clear %d %d", rr, cc))
			delete(stamped, [2]int{rr, cc})
			queries(rr, cc)
			if cr.Chance(1, 2) {
				// views for another period arrive from a peer, then the bit is set there and cleared again
				t := ts[cr.Intn(len(ts))]
				if cr.Chance(1, 2) {
					t = t.AddDate(cr.Range(0, 1), cr.Range(0, 2), cr.Range(0, 3)).Add(time.Duration(cr.Intn(24)) * time.Hour)
				}
				peerViews(t, cr.Chance(3, 4))
				if cr.Chance(1, 3) {
					lines = append(lines, "views")
				}
				lines = append(lines, fmt.Sprintf("set %d %d %s", rr, cc, tf.Show(t)))
				nontrivial = true
				lines = append(lines, fmt.Sprintf("clear %d %d", rr, cc))
				queries(rr, cc)
			}
			if cr.Chance(1, 3) {
				lines = append(lines, "views")
			}
			if cr.Chance(1, 4) {
				lines = append(lines, fmt.Sprintf("clear %d %d", rr, cc)) // second clear: nothing left
			}
			for i := cr.Range(0, 3); i > 0; i-- {
				set()
			}
		}
		// final state of every bit
		for rr := 1; rr <= rows; rr++ {
			for cc := 1; cc <= cols; cc++ {
				lines = append(lines, fmt.Sprintf("scan %d %d", rr, cc))
			}
		}
		if e2e {
			lines = append(lines, fmt.Sprintf("row 1 %s %s", tf.Show(spanA), tf.Show(spanB)))
		}
		cases = append(cases, vh.Case{Lines: lines, Nontrivial: nontrivial})
	}
	return cases
}

func main() {
	p := &prop{}
	defer p.Close()
	vh.Main(p)
}
