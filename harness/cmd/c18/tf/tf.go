// Package tf is the code shared by the C18 and C19 harnesses: the text forms of times, quanta and
// view names, the execution of every operation line of lean/PV/C18/Step.lean (+ `clear` of
// lean/PV/C19/Main.lean) against the real pilosa code, and the generators' calendar helpers.
package tf

import (
	"context"
	"fmt"
	"os"
	"sort"
	"strconv"
	"strings"
	"time"

	"github.com/pilosa/pilosa"
	"verifharness/vh"
	"verifharness/vh/srv"
)

// Quanta are the ten valid non-empty time quanta.
var Quanta = []string{"Y", "YM", "YMD", "YMDH", "M", "MD", "MDH", "D", "DH", "H"}

// T builds a UTC time.
func T(y, m, d, h int) time.Time { return time.Date(y, time.Month(m), d, h, 0, 0, 0, time.UTC) }

// Show renders a time as Y-M-D-H.
func Show(t time.Time) string {
	return fmt.Sprintf("%d-%d-%d-%d", t.Year(), int(t.Month()), t.Day(), t.Hour())
}

// Parse parses Y-M-D-H.
func Parse(s string) (time.Time, bool) {
	p := strings.Split(s, "-")
	if len(p) != 4 {
		return time.Time{}, false
	}
	var v [4]int
	for i := range p {
		n, err := strconv.Atoi(p[i])
		if err != nil || n < 0 {
			return time.Time{}, false
		}
		v[i] = n
	}
	return T(v[0], v[1], v[2], v[3]), true
}

// Finest returns the finest unit of a quantum.
func Finest(q string) byte { return q[len(q)-1] }

// Floor returns the start of t's period of the given unit.
func Floor(t time.Time, unit byte) time.Time {
	switch unit {
	case 'Y':
		return T(t.Year(), 1, 1, 0)
	case 'M':
		return T(t.Year(), int(t.Month()), 1, 0)
	case 'D':
		return T(t.Year(), int(t.Month()), t.Day(), 0)
	}
	return T(t.Year(), int(t.Month()), t.Day(), t.Hour())
}

// AddUnits moves an aligned time by n periods of the unit.
func AddUnits(t time.Time, unit byte, n int) time.Time {
	switch unit {
	case 'Y':
		return t.AddDate(n, 0, 0)
	case 'M':
		return t.AddDate(0, n, 0)
	case 'D':
		return t.AddDate(0, 0, n)
	}
	return t.Add(time.Duration(n) * time.Hour)
}

func names(vs []string) string {
	if len(vs) == 0 {
		return "-"
	}
	return strings.Join(vs, ",")
}

// CoverOK is the harness' own reading of "the views cover exactly [s,e)": every name is
// standard_YYYY[MM[DD[HH]]], and the periods they denote are consecutive from s to e.
func CoverOK(vs []string, s, e time.Time) bool {
	if !e.After(s) {
		return len(vs) == 0
	}
	cur := s
	for _, v := range vs {
		if !strings.HasPrefix(v, "standard_") {
			return false
		}
		tp := v[len("standard_"):]
		var lo, hi time.Time
		var err error
		switch len(tp) {
		case 4:
			lo, err = time.Parse("2006", tp)
			hi = lo.AddDate(1, 0, 0)
		case 6:
			lo, err = time.Parse("200601", tp)
			hi = lo.AddDate(0, 1, 0)
		case 8:
			lo, err = time.Parse("20060102", tp)
			hi = lo.AddDate(0, 0, 1)
		case 10:
			lo, err = time.Parse("2006010215", tp)
			hi = lo.Add(time.Hour)
		default:
			return false
		}
		if err != nil || !lo.Equal(cur) || !hi.After(lo) {
			return false
		}
		cur = hi
	}
	return cur.Equal(e)
}

// Runner executes the operation lines of one process; the field state lives for one case.
type Runner struct {
	s   *srv.Server
	idx int
	// per case
	mode  int // 0 none, 1 hooked field, 2 PQL
	f     *pilosa.Field
	dir   string
	fname string
}

// one index per process; every PQL case gets its own field in it.
const index = "i"

// Close stops the in-process server, if any.
func (p *Runner) Close() {
	p.endCase()
	if p.s != nil {
		p.s.Stop()
		p.s = nil
	}
}

func (p *Runner) endCase() {
	switch p.mode {
	case 1:
		if p.f != nil {
			_ = p.f.Close()
		}
		if p.dir != "" {
			_ = os.RemoveAll(p.dir)
		}
	case 2:
		if p.s != nil && p.fname != "" {
			_ = p.s.API.DeleteField(context.Background(), index, p.fname)
		}
	}
	p.mode, p.f, p.dir, p.fname = 0, nil, "", ""
}

// Exec runs the lines of one case.
func (p *Runner) Exec(lines []string) []string {
	defer p.endCase()
	outs := make([]string, len(lines))
	for i, l := range lines {
		l := l
		outs[i] = vh.Guard("exec", func() string { return p.line(l) })
	}
	return outs
}

const sw = pilosa.ShardWidth

// protocol column k lives in shard k%2.
func realCol(k uint64) uint64 { return (k%2)*sw + k }
func protoCol(c uint64) uint64 {
	if c >= sw {
		return c - sw
	}
	return c
}

func boolS(b bool) string {
	if b {
		return "true"
	}
	return "false"
}

func validQuantum(q string) bool {
	for _, v := range Quanta {
		if v == q {
			return true
		}
	}
	return false
}

func parseQ(s string) (string, bool) {
	if s == "-" {
		return "", true
	}
	for _, c := range s {
		if !strings.ContainsRune("YMDH", c) {
			return "", false
		}
	}
	return s, true
}

func (p *Runner) line(l string) string {
	ws := strings.Fields(l)
	if len(ws) == 0 {
		return "bad-op"
	}
	switch {
	case ws[0] == "vbtr" && len(ws) == 4:
		q, ok := parseQ(ws[1])
		s, ok1 := Parse(ws[2])
		e, ok2 := Parse(ws[3])
		if !ok || !ok1 || !ok2 {
			return "bad-op"
		}
		vs := pilosa.VerifC18ViewsByTimeRange("standard", s, e, pilosa.TimeQuantum(q))
		vh.Count("vbtr-views-" + strconv.Itoa(bucket(len(vs))))
		return names(vs) + " cover=" + boolS(CoverOK(vs, s, e))
	case ws[0] == "vbt" && len(ws) == 3:
		q, ok := parseQ(ws[1])
		t, ok1 := Parse(ws[2])
		if !ok || !ok1 {
			return "bad-op"
		}
		return names(pilosa.VerifC18ViewsByTime("standard", t, pilosa.TimeQuantum(q)))
	case ws[0] == "name" && len(ws) == 3:
		t, ok := Parse(ws[2])
		if !ok || len(ws[1]) != 1 || !strings.Contains("YMDH", ws[1]) {
			return "bad-op"
		}
		return pilosa.VerifC18ViewByTimeUnit("standard", t, rune(ws[1][0]))
	case ws[0] == "tov" && len(ws) == 3:
		if !goodName(ws[1]) {
			return "bad-op"
		}
		t, err := pilosa.VerifC18TimeOfView(ws[1], ws[2] == "1")
		if err != nil {
			vh.Count("tov-err")
			return "err"
		}
		return Show(t)
	case ws[0] == "rt" && len(ws) == 3:
		t, ok := Parse(ws[2])
		if !ok || len(ws[1]) != 1 || !strings.Contains("YMDH", ws[1]) {
			return "bad-op"
		}
		v := pilosa.VerifC18ViewByTimeUnit("standard", t, rune(ws[1][0]))
		sh := func(adj bool) string {
			r, err := pilosa.VerifC18TimeOfView(v, adj)
			if err != nil {
				return "err"
			}
			return Show(r)
		}
		return sh(false) + " " + sh(true)
	case ws[0] == "mm" && len(ws) == 3:
		q, ok := parseQ(ws[1])
		if !ok {
			return "bad-op"
		}
		var vs []string
		if ws[2] != "-" {
			vs = strings.Split(ws[2], ",")
			for _, v := range vs {
				if !goodName(v) {
					return "bad-op"
				}
			}
		}
		mn, mx := pilosa.VerifC18MinMaxViews(vs, pilosa.TimeQuantum(q))
		d := func(s string) string {
			if s == "" {
				return "-"
			}
			return s
		}
		return d(mn) + " " + d(mx)
	case ws[0] == "next" && len(ws) == 4:
		t, ok := Parse(ws[2])
		e, ok1 := Parse(ws[3])
		if !ok || !ok1 || len(ws[1]) != 1 || !strings.Contains("YMD", ws[1]) {
			return "bad-op"
		}
		return boolS(pilosa.VerifC18NextGTE(rune(ws[1][0]), t, e))
	case ws[0] == "addmonth" && len(ws) == 2:
		t, ok := Parse(ws[1])
		if !ok {
			return "bad-op"
		}
		return Show(pilosa.VerifC18AddMonth(t))
	}
	return p.fieldLine(ws)
}

// importBits runs Field.Import (hooked field) or API.Import (one request per shard, PQL field).
func (p *Runner) importBits(spec string, clear bool) string {
	var rows, cols []uint64
	var stamps []*time.Time
	if spec != "-" {
		for _, b := range strings.Split(spec, ";") {
			f := strings.Split(b, ":")
			if len(f) != 3 {
				return "bad-op"
			}
			r, err1 := strconv.ParseUint(f[0], 10, 64)
			c, err2 := strconv.ParseUint(f[1], 10, 64)
			if err1 != nil || err2 != nil {
				return "bad-op"
			}
			var tp *time.Time
			if f[2] != "-" {
				t, ok := Parse(f[2])
				if !ok {
					return "bad-op"
				}
				tp = &t
			}
			rows, cols, stamps = append(rows, r), append(cols, realCol(c)), append(stamps, tp)
		}
	}
	if clear {
		vh.Count("import-clear")
	} else {
		vh.Count("import-set")
	}
	if p.mode == 1 {
		if err := p.f.Import(rows, cols, stamps, pilosa.OptImportOptionsClear(clear)); err != nil {
			vh.Count("import-err")
			return "err"
		}
		return "ok"
	}
	failed := false
	for shard := uint64(0); shard < 2; shard++ {
		req := &pilosa.ImportRequest{Index: index, Field: p.fname, Shard: shard}
		hasTime := false
		for i := range cols {
			if cols[i]/sw != shard {
				continue
			}
			req.RowIDs = append(req.RowIDs, rows[i])
			req.ColumnIDs = append(req.ColumnIDs, cols[i])
			ts := int64(0)
			if stamps[i] != nil {
				ts, hasTime = stamps[i].UnixNano(), true
			}
			req.Timestamps = append(req.Timestamps, ts)
		}
		if len(req.ColumnIDs) == 0 {
			continue
		}
		if !hasTime {
			req.Timestamps = nil
		}
		if err := p.s.API.Import(context.Background(), req, pilosa.OptImportOptionsClear(clear)); err != nil {
			failed = true
		}
	}
	if failed {
		vh.Count("import-err")
		return "err"
	}
	return "ok"
}

func bucket(n int) int {
	switch {
	case n == 0:
		return 0
	case n <= 3:
		return 3
	case n <= 10:
		return 10
	case n <= 40:
		return 40
	}
	return 99
}

func goodName(s string) bool {
	if s == "standard" {
		return true
	}
	if !strings.HasPrefix(s, "standard_") {
		return false
	}
	for _, c := range s[len("standard_"):] {
		if c < '0' || c > '9' {
			return false
		}
	}
	return true
}

func (p *Runner) fieldLine(ws []string) string {
	ctx := context.Background()
	switch {
	case ws[0] == "field" && (len(ws) == 3 || (len(ws) == 4 && ws[3] == "old")):
		q, ok := parseQ(ws[1])
		if !ok || (ws[2] != "0" && ws[2] != "1") {
			return "bad-op"
		}
		p.endCase()
		dir, err := os.MkdirTemp("", "verif-c18-")
		if err != nil {
			return "err:tempdir"
		}
		f, err := pilosa.NewField(dir, "i", "f", pilosa.OptFieldTypeTime(pilosa.TimeQuantum(q), ws[2] == "1"))
		if err != nil {
			os.RemoveAll(dir)
			return "err:new-field"
		}
		if err := f.Open(); err != nil {
			os.RemoveAll(dir)
			return "err:open-field"
		}
		p.mode, p.f, p.dir = 1, f, dir
		return "ok"
	case ws[0] == "efield" && len(ws) == 3:
		q, ok := parseQ(ws[1])
		if !ok || (ws[2] != "0" && ws[2] != "1") {
			return "bad-op"
		}
		p.endCase()
		if p.s == nil {
			p.s = srv.Start(2)
			if _, err := p.s.API.CreateIndex(ctx, index, pilosa.IndexOptions{}); err != nil {
				return "err:create-index"
			}
		}
		p.idx++
		fname := fmt.Sprintf("f%d", p.idx)
		if _, err := p.s.API.CreateField(ctx, index, fname, pilosa.OptFieldTypeTime(pilosa.TimeQuantum(q), ws[2] == "1")); err != nil {
			return "err:create-field"
		}
		p.mode, p.fname = 2, fname
		p.f = p.s.Server.Holder().Field(index, fname)
		return "ok"
	}
	if p.mode == 0 {
		return "bad-op"
	}
	switch {
	case ws[0] == "set" && len(ws) == 4:
		r, err1 := strconv.ParseUint(ws[1], 10, 64)
		c, err2 := strconv.ParseUint(ws[2], 10, 64)
		if err1 != nil || err2 != nil {
			return "bad-op"
		}
		var tp *time.Time
		if ws[3] != "-" {
			t, ok := Parse(ws[3])
			if !ok {
				return "bad-op"
			}
			tp = &t
		}
		if p.mode == 1 {
			ch, err := p.f.SetBit(r, realCol(c), tp)
			if err != nil {
				return "err:set"
			}
			return boolS(ch)
		}
		q := fmt.Sprintf("Set(%d, %s=%d)", realCol(c), p.fname, r)
		if tp != nil {
			q = fmt.Sprintf("Set(%d, %s=%d, %s)", realCol(c), p.fname, r, tp.Format("2006-01-02T15:04"))
		}
		res, err := p.s.Query(index, q, nil)
		if err != nil {
			return "err:set"
		}
		return boolS(res[0].(bool))
	case ws[0] == "clear" && len(ws) == 3:
		r, err1 := strconv.ParseUint(ws[1], 10, 64)
		c, err2 := strconv.ParseUint(ws[2], 10, 64)
		if err1 != nil || err2 != nil {
			return "bad-op"
		}
		if p.mode == 1 {
			ch, err := p.f.ClearBit(r, realCol(c))
			if err != nil {
				return "err:clear"
			}
			return boolS(ch)
		}
		res, err := p.s.Query(index, fmt.Sprintf("Clear(%d, %s=%d)", realCol(c), p.fname, r), nil)
		if err != nil {
			return "err:clear"
		}
		return boolS(res[0].(bool))
	case ws[0] == "import" && len(ws) == 3:
		if ws[1] != "0" && ws[1] != "1" {
			return "bad-op"
		}
		return p.importBits(ws[2], ws[1] == "1")
	case ws[0] == "mkview" && len(ws) == 2:
		if !goodName(ws[1]) {
			return "bad-op"
		}
		if p.mode == 1 {
			if err := pilosa.VerifC19PeerCreateView(p.f, ws[1]); err != nil {
				return "err:mkview"
			}
			return "ok"
		}
		msg := &pilosa.CreateViewMessage{Index: index, Field: p.fname, View: ws[1]}
		if err := pilosa.VerifC19ReceiveMessage(p.s.Server, msg); err != nil {
			return "err:mkview"
		}
		return "ok"
	case ws[0] == "scan" && len(ws) == 3:
		r, err1 := strconv.ParseUint(ws[1], 10, 64)
		c, err2 := strconv.ParseUint(ws[2], 10, 64)
		if err1 != nil || err2 != nil {
			return "bad-op"
		}
		vs := pilosa.VerifC19ViewsWithBit(p.f, r, realCol(c))
		if len(vs) > 0 {
			vh.Count("scan-nonempty")
		} else {
			vh.Count("scan-empty")
		}
		return names(vs)
	case ws[0] == "views" && len(ws) == 1:
		return names(pilosa.VerifC19ViewNames(p.f))
	}
	if p.mode != 2 {
		return "bad-op"
	}
	pq := func(t time.Time) string { return t.Format("2006-01-02T15:04") }
	switch {
	case ws[0] == "row" && len(ws) == 4:
		r, err := strconv.ParseUint(ws[1], 10, 64)
		if err != nil {
			return "bad-op"
		}
		q := fmt.Sprintf("Row(%s=%d)", p.fname, r)
		if ws[2] != "-" || ws[3] != "-" {
			a, ok1 := Parse(ws[2])
			b, ok2 := Parse(ws[3])
			if !ok1 || !ok2 {
				return "bad-op"
			}
			q = fmt.Sprintf("Row(%s=%d, from=%s, to=%s)", p.fname, r, pq(a), pq(b))
		}
		res, err := p.s.Query(index, q, nil)
		if err != nil {
			return "err:row"
		}
		cols := res[0].(*pilosa.Row).Columns()
		out := make([]uint64, len(cols))
		for i, c := range cols {
			out[i] = protoCol(c)
		}
		out = vh.SortedU64(out)
		if len(out) > 0 {
			vh.Count("row-nonempty")
		} else {
			vh.Count("row-empty")
		}
		return vh.U64s(out)
	case ws[0] == "rows" && len(ws) == 3:
		q := "Rows(" + p.fname
		if ws[1] != "-" {
			a, ok := Parse(ws[1])
			if !ok {
				return "bad-op"
			}
			q += ", from=" + pq(a)
		}
		if ws[2] != "-" {
			b, ok := Parse(ws[2])
			if !ok {
				return "bad-op"
			}
			q += ", to=" + pq(b)
		}
		q += ")"
		res, err := p.s.Query(index, q, nil)
		if err != nil {
			vh.Count("rows-err")
			return "err"
		}
		ids := append([]uint64(nil), res[0].(pilosa.RowIdentifiers).Rows...)
		sort.Slice(ids, func(i, j int) bool { return ids[i] < ids[j] })
		return vh.U64s(ids)
	}
	return "bad-op"
}
