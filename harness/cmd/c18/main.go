// Harness for C18: time-range queries read exactly the views covering the range.
//
// Line formats are documented in lean/PV/C18/Step.lean. Pure lines call the hooked functions of
// time.go (viewsByTimeRange, viewsByTime, viewByTimeUnit, timeOfView, minMaxViews, next*GTE,
// addMonth); `efield` cases create a time field on an in-process server, set timestamped bits
// through PQL and run Row/Rows with from/to through the real executor.
package main

import (
	"fmt"
	"strings"
	"time"

	"verifharness/cmd/c18/tf"
	"verifharness/vh"
)

type prop struct{ tf.Runner }

func (p *prop) Rule() string {
	return "vbtr: every valid quantum; starts in the window 1999-01-01..2001-12-31 (leap day 2000-02-29 inside) and around " +
		"2100-02-28 (non-leap century), aligned to the quantum's finest unit, lengths 0..400 days (day-aligned), 0..72 h " +
		"(hour-aligned), 0..40 months, 0..6 years, biased to month/year ends, plus long and unaligned ranges (model = code only); " +
		"rt: every unit x all 24 hours x first/last days of every month of leap and non-leap years; tov on malformed names; " +
		"mm/next/addmonth on random inputs incl. days 29-31; efield: set-only histories through PQL (Set and API.Import) then Row/Rows with aligned from/to, " +
		"and for 2 of 3 datasets a sequence of wide and narrow ranges starting in the same first view (wide-narrow-wide-narrow, narrow first, shrinking), repeated. " +
		"A case is non-trivial when it holds a vbtr line with start < end, an rt line, or a row/rows query after at least one timestamped set"
}

var window0 = tf.T(1999, 1, 1, 0)

const windowDays = 1096 // 1999, 2000 (leap), 2001

// edgeDay picks a day offset in the window close to a month or year end.
func edgeDay(r *vh.Rng) time.Time {
	y := r.Pick(1999, 2000, 2001, 2100, 2000)
	m := r.Range(1, 12)
	if r.Chance(1, 3) {
		m = r.Pick(1, 2, 3, 12)
	}
	first := tf.T(y, m, 1, 0)
	return first.AddDate(0, 0, r.Range(-3, 2))
}

func anyDay(r *vh.Rng) time.Time {
	if r.Chance(1, 2) {
		return edgeDay(r)
	}
	return window0.AddDate(0, 0, r.Intn(windowDays))
}

func anyHour(r *vh.Rng) time.Time {
	h := r.Pick(0, 0, 1, 12, 13, 22, 23, r.Intn(24))
	return anyDay(r).Add(time.Duration(h) * time.Hour)
}

// alignedStart returns a start aligned to the finest unit of q.
func alignedStart(r *vh.Rng, q string) time.Time {
	switch tf.Finest(q) {
	case 'H':
		return anyHour(r)
	case 'D':
		return anyDay(r)
	case 'M':
		return tf.Floor(anyDay(r), 'M')
	}
	return tf.Floor(anyDay(r), 'Y')
}

func maxLen(q string, long bool) int {
	switch tf.Finest(q) {
	case 'H':
		if long {
			return 24 * 800
		}
		return 72
	case 'D':
		if long {
			return 1500
		}
		return 400
	case 'M':
		if long {
			return 150
		}
		return 40
	}
	if long {
		return 30
	}
	return 6
}

func vbtrLines(r *vh.Rng, k int) []string {
	q := tf.Quanta[r.Intn(len(tf.Quanta))]
	s := alignedStart(r, q)
	var lines []string
	for i := 0; i < k; i++ {
		long := r.Chance(1, 12)
		ml := maxLen(q, long)
		n := r.Intn(ml + 1)
		if r.Chance(1, 4) {
			n = r.Pick(0, 1, 2, ml, ml-1, 24, 25, 28, 29, 30, 31, 32, 365, 366, 12, 13)
			if n > ml {
				n = ml
			}
		}
		e := tf.AddUnits(s, tf.Finest(q), n)
		if r.Chance(1, 10) && tf.Finest(q) == 'H' {
			// end at a day/month/year boundary after the start
			e = tf.Floor(e, "DMY"[r.Intn(3)])
			if e.Before(s) {
				e = s
			}
		}
		switch {
		case r.Chance(1, 25):
			// unaligned (hour granular) range: the model must still equal the code
			s2 := s.Add(time.Duration(r.Range(0, 30)) * time.Hour)
			e2 := e.Add(time.Duration(r.Range(0, 30)) * time.Hour)
			lines = append(lines, fmt.Sprintf("vbtr %s %s %s", q, tf.Show(s2), tf.Show(e2)))
		case r.Chance(1, 40):
			lines = append(lines, fmt.Sprintf("vbtr %s %s %s", q, tf.Show(e), tf.Show(s))) // reversed
		default:
			lines = append(lines, fmt.Sprintf("vbtr %s %s %s", q, tf.Show(s), tf.Show(e)))
		}
	}
	return lines
}

func rtLines(r *vh.Rng, k int) []string {
	var lines []string
	for i := 0; i < k; i++ {
		y := r.Pick(1999, 2000, 2001, 2004, 2100, 1900, 999, 9998, 1, 2000)
		m := r.Range(1, 12)
		first := tf.T(y, m, 1, 0)
		d := first
		switch r.Intn(4) {
		case 0: // last day of the month
			d = first.AddDate(0, 1, -1)
		case 1:
			d = first.AddDate(0, 0, r.Intn(28))
		case 2:
			d = first.AddDate(0, 1, -r.Range(1, 3))
		}
		t := d.Add(time.Duration(i%24) * time.Hour) // all 24 hours in turn
		u := "YMDH"[r.Intn(4)]
		if r.Chance(1, 2) {
			u = 'H'
		}
		lines = append(lines, fmt.Sprintf("rt %c %s", u, tf.Show(t)))
	}
	return lines
}

func viewName(t time.Time, u byte) string {
	switch u {
	case 'Y':
		return "standard_" + t.Format("2006")
	case 'M':
		return "standard_" + t.Format("200601")
	case 'D':
		return "standard_" + t.Format("20060102")
	}
	return "standard_" + t.Format("2006010215")
}

func miscLines(r *vh.Rng, k int) []string {
	var lines []string
	for i := 0; i < k; i++ {
		switch r.Intn(6) {
		case 0: // timeOfView on well-formed and malformed names
			y, m, d, h := r.Pick(1999, 2000, 2001, 2100), r.Range(0, 13), r.Range(0, 32), r.Range(0, 25)
			if r.Chance(1, 2) {
				m, d = r.Pick(1, 2, 2, 4, 12), r.Pick(1, 28, 29, 30, 31)
			}
			var n string
			switch r.Intn(6) {
			case 0:
				n = fmt.Sprintf("standard_%04d", y)
			case 1:
				n = fmt.Sprintf("standard_%04d%02d", y, m)
			case 2:
				n = fmt.Sprintf("standard_%04d%02d%02d", y, m, d)
			case 3, 4:
				n = fmt.Sprintf("standard_%04d%02d%02d%02d", y, m, d, h)
			default:
				n = "standard_" + strings.Repeat("1", r.Range(0, 12))
				if r.Chance(1, 4) {
					n = "standard"
				}
			}
			lines = append(lines, fmt.Sprintf("tov %s %d", n, r.Intn(2)))
		case 1: // minMaxViews
			q := tf.Quanta[r.Intn(len(tf.Quanta))]
			var ns []string
			if r.Chance(2, 3) {
				ns = append(ns, "standard")
			}
			for j := r.Range(0, 6); j > 0; j-- {
				ns = append(ns, viewName(anyHour(r), "YMDH"[r.Intn(4)]))
			}
			perm := r.Perm(len(ns))
			sh := make([]string, len(ns))
			for a, b := range perm {
				sh[a] = ns[b]
			}
			arg := "-"
			if len(sh) > 0 {
				arg = strings.Join(sh, ",")
			}
			lines = append(lines, fmt.Sprintf("mm %s %s", q, arg))
		case 2, 3: // next*GTE around the boundary
			u := "YMD"[r.Intn(3)]
			t := anyHour(r)
			var e time.Time
			switch r.Intn(3) {
			case 0:
				e = anyHour(r)
			case 1:
				e = tf.AddUnits(t, u, 1).Add(time.Duration(r.Range(-30, 30)) * time.Hour)
			default:
				e = tf.AddUnits(tf.Floor(t, u), u, r.Range(0, 2)).Add(time.Duration(r.Range(-2, 2)) * time.Hour)
			}
			lines = append(lines, fmt.Sprintf("next %c %s %s", u, tf.Show(t), tf.Show(e)))
		case 4:
			t := anyHour(r)
			if r.Chance(1, 2) {
				t = tf.T(r.Pick(1999, 2000, 2001), r.Range(1, 12), 1, r.Intn(24)).AddDate(0, 1, -r.Range(1, 4))
			}
			lines = append(lines, "addmonth "+tf.Show(t))
		default:
			q := tf.Quanta[r.Intn(len(tf.Quanta))]
			lines = append(lines, fmt.Sprintf("vbt %s %s", q, tf.Show(anyHour(r))))
		}
	}
	return lines
}

// e2eCase: a set-only history on a PQL time field and Row/Rows queries with aligned from/to.
func e2eCase(r *vh.Rng) vh.Case {
	q := tf.Quanta[r.Intn(len(tf.Quanta))]
	nostd := 0
	if r.Chance(1, 5) {
		nostd = 1
	}
	lines := []string{fmt.Sprintf("efield %s %d", q, nostd)}
	base := alignedStart(r, q)
	fin := tf.Finest(q)
	var stamps []time.Time
	nsets := r.Range(1, 7)
	for i := 0; i < nsets; i++ {
		t := base
		switch r.Intn(4) {
		case 0:
			t = base.Add(time.Duration(r.Range(-50, 50)) * time.Hour)
		case 1:
			t = base.AddDate(0, 0, r.Range(-40, 40)).Add(time.Duration(r.Intn(24)) * time.Hour)
		case 2:
			t = base.AddDate(r.Range(-1, 1), r.Range(-2, 2), 0).Add(time.Duration(r.Pick(0, 13, 23)) * time.Hour)
		}
		stamps = append(stamps, t)
		ts := tf.Show(t)
		if r.Chance(1, 12) {
			ts = "-"
		}
		if r.Chance(1, 5) {
			lines = append(lines, fmt.Sprintf("import 0 %d:%d:%s", r.Range(1, 3), r.Range(1, 4), ts))
		} else {
			lines = append(lines, fmt.Sprintf("set %d %d %s", r.Range(1, 3), r.Range(1, 4), ts))
		}
	}
	nq := r.Range(2, 6)
	for i := 0; i < nq; i++ {
		a := tf.Floor(stamps[r.Intn(len(stamps))], fin)
		b := tf.Floor(stamps[r.Intn(len(stamps))], fin)
		a = tf.AddUnits(a, fin, r.Range(-2, 1))
		b = tf.AddUnits(b, fin, r.Range(0, 3))
		if fin == 'H' && r.Chance(1, 3) {
			b = tf.Floor(b, "DM"[r.Intn(2)])
		}
		if b.Before(a) {
			a, b = b, a
		}
		if fin == 'H' && b.Sub(a) > 24*90*time.Hour {
			b = a.Add(24 * 90 * time.Hour)
		}
		switch r.Intn(5) {
		case 0:
			lines = append(lines, fmt.Sprintf("rows %s %s", tf.Show(a), tf.Show(b)))
		case 1:
			lines = append(lines, fmt.Sprintf("rows %s -", tf.Show(a)))
		case 2:
			if r.Chance(1, 2) {
				lines = append(lines, fmt.Sprintf("rows - %s", tf.Show(b)))
			} else {
				lines = append(lines, "rows - -")
			}
		default:
			lines = append(lines, fmt.Sprintf("row %d %s %s", r.Range(1, 3), tf.Show(a), tf.Show(b)))
		}
	}
	if r.Chance(1, 3) {
		lines = append(lines, fmt.Sprintf("scan %d %d", r.Range(1, 3), r.Range(1, 4)))
	}
	// Several ranges over the same dataset, each compared with the model: one row with columns in
	// different periods, then wide / narrow ranges that start in the same first view, in both
	// orders and repeated (a query must not leave anything behind for the next one).
	if r.Chance(2, 3) {
		row := r.Range(1, 3)
		n := r.Range(2, 4)
		var ts []time.Time
		t := tf.Floor(base, fin)
		for i := 0; i < n; i++ {
			ts = append(ts, t)
			ts2 := t
			if r.Chance(1, 4) {
				ts2 = t.Add(time.Duration(r.Intn(24)) * time.Hour) // anywhere inside a coarser period
				if tf.Floor(ts2, fin) != t {
					ts2 = t
				}
			}
			if r.Chance(1, 4) {
				lines = append(lines, fmt.Sprintf("import 0 %d:%d:%s", row, 1+2*i+r.Intn(2), tf.Show(ts2)))
			} else {
				lines = append(lines, fmt.Sprintf("set %d %d %s", row, 1+2*i+r.Intn(2), tf.Show(ts2)))
			}
			t = tf.AddUnits(t, fin, r.Pick(1, 1, 2, 3, 30))
		}
		wide := func() string {
			return fmt.Sprintf("row %d %s %s", row, tf.Show(ts[0]), tf.Show(tf.AddUnits(ts[n-1], fin, 1)))
		}
		narrow := func(i int) string {
			return fmt.Sprintf("row %d %s %s", row, tf.Show(ts[i]), tf.Show(tf.AddUnits(ts[i], fin, 1)))
		}
		upto := func(i int) string {
			return fmt.Sprintf("row %d %s %s", row, tf.Show(ts[0]), tf.Show(tf.AddUnits(ts[i], fin, 1)))
		}
		switch r.Intn(3) {
		case 0:
			lines = append(lines, wide(), narrow(0), wide(), narrow(0))
		case 1:
			lines = append(lines, narrow(0), wide(), narrow(0), narrow(n-1), wide())
		default:
			for i := n - 1; i >= 0; i-- {
				lines = append(lines, upto(i))
			}
			lines = append(lines, wide())
		}
		for k := r.Range(0, 2); k > 0; k-- {
			i := r.Intn(n)
			lines = append(lines, narrow(i), upto(i))
		}
		lines = append(lines, fmt.Sprintf("row %d - -", row))
	}
	return vh.Case{Lines: lines, Nontrivial: true}
}

func (p *prop) Gen(r *vh.Rng, tier string, n int) []vh.Case {
	var cases []vh.Case
	for k := 0; k < n; k++ {
		cr := r.Fork()
		switch x := cr.Intn(20); {
		case x < 12:
			ls := vbtrLines(cr, 8)
			cases = append(cases, vh.Case{Lines: ls, Nontrivial: true})
		case x < 15:
			cases = append(cases, vh.Case{Lines: rtLines(cr, 24), Nontrivial: true})
		case x < 18:
			cases = append(cases, vh.Case{Lines: miscLines(cr, 10), Nontrivial: false})
		default:
			cases = append(cases, e2eCase(cr))
		}
	}
	return cases
}

func main() {
	p := &prop{}
	defer p.Close()
	vh.Main(p)
}
