// Harness for C30: export a set field as CSV with ctl.ExportCommand, import the output into an empty
// field of the same type with ctl.ImportCommand, compare bits and keys; plus the stdlib CSV
// writer/reader against the Lean model of them. Line formats: lean/PV/C30/Main.lean.
//
// The commands talk HTTP to an in-process single-node server listening on a real localhost port
// (address from API.Node().URI like test.Command.URL()). The source field is filled through
// API.Import (one request, bits in the listed order, so key ids are allocated in order of first
// appearance); the destination is read back through the verif hook VerifC30Contents, which does not
// use the export path.
package main

import (
	"bytes"
	"context"
	"encoding/csv"
	"fmt"
	"io"
	"io/ioutil"
	"os"
	"runtime/pprof"
	"sort"
	"strconv"
	"strings"
	"time"

	"github.com/pilosa/pilosa"
	"github.com/pilosa/pilosa/ctl"
	"github.com/pilosa/pilosa/server"
	"github.com/pkg/errors"
	"verifharness/vh"
	"verifharness/vh/srv2"
)

const sw = pilosa.ShardWidth

type prop struct {
	m   *server.Command
	cl  *srv2.Cluster // 3 nodes, replicas 2 (rtc lines), started on first use
	idx int
}

func (p *prop) Rule() string {
	return "rt: generated set-field contents (0-8 bits; row/column keys on or off independently; keys drawn around every character that is special for some encoding/csv setting or CSV dialect " +
		"({, ; tab # \" ' \\ space CR LF BOM . - = | %} at the start, end or inside a key, `\\.`, number-, negative-number- and timestamp-like keys, empty keys, keys of 300-4097 code points, Unicode); " +
		"unkeyed columns at shard edges of shards 0-3, another field raising the index's max shard; BufferSize 0-4 or 1000) exported by " +
		"ctl.ExportCommand and imported by ctl.ImportCommand into an empty field of the same type; non-trivial = at least one bit. " +
		"csvw/csvr/csvrt: records / arbitrary text over the CSV-significant alphabet through encoding/csv; non-trivial = contains a quote, comma, CR or LF. " +
		"rtc: the rt round trip for keyed fields on an in-process 3-node cluster with 2 replicas (export through node 1, import through node 2 -> coordinator), " +
		"every node's fragments read separately: each owner of each destination shard must hold the shard's pairs, no other node any (a few per quick run, 1 in 40 cases in thorough). " +
		"pu: decimal id strings at the uint64 boundary through strconv.ParseUint. imp: generated and mutated CSV text (blank first fields, short records, bad ids, overflow ids, third columns, stray quotes) imported into an empty field; non-trivial = at least one record"
}

// ---------- wire encoding ----------

func encStr(s string) string {
	rs := []rune(s)
	if len(rs) == 0 {
		return "e"
	}
	ss := make([]string, len(rs))
	for i, r := range rs {
		ss[i] = strconv.Itoa(int(r))
	}
	return strings.Join(ss, ".")
}

func decStr(s string) (string, bool) {
	if s == "e" {
		return "", true
	}
	var rs []rune
	for _, t := range strings.Split(s, ".") {
		n, err := strconv.Atoi(t)
		if err != nil || n < 0 || n > 0x10FFFF || (n >= 0xD800 && n <= 0xDFFF) {
			return "", false
		}
		rs = append(rs, rune(n))
	}
	return string(rs), true
}

func encRecs(recs [][]string) string {
	if len(recs) == 0 {
		return "-"
	}
	rr := make([]string, len(recs))
	for i, r := range recs {
		ff := make([]string, len(r))
		for j, f := range r {
			ff[j] = encStr(f)
		}
		rr[i] = strings.Join(ff, ";")
	}
	return strings.Join(rr, "|")
}

func decRecs(s string) ([][]string, bool) {
	if s == "-" {
		return nil, true
	}
	var recs [][]string
	for _, r := range strings.Split(s, "|") {
		var rec []string
		for _, f := range strings.Split(r, ";") {
			v, ok := decStr(f)
			if !ok {
				return nil, false
			}
			rec = append(rec, v)
		}
		recs = append(recs, rec)
	}
	return recs, true
}

func runeLess(a, b string) bool {
	ra, rb := []rune(a), []rune(b)
	for i := 0; i < len(ra) && i < len(rb); i++ {
		if ra[i] != rb[i] {
			return ra[i] < rb[i]
		}
	}
	return len(ra) < len(rb)
}

func encPairs(ps [][2]string) string {
	ps = append([][2]string(nil), ps...)
	sort.Slice(ps, func(i, j int) bool {
		if ps[i][0] != ps[j][0] {
			return runeLess(ps[i][0], ps[j][0])
		}
		return runeLess(ps[i][1], ps[j][1])
	})
	var ss []string
	for i, p := range ps {
		if i > 0 && p == ps[i-1] {
			continue
		}
		ss = append(ss, encStr(p[0])+":"+encStr(p[1]))
	}
	if len(ss) == 0 {
		return "-"
	}
	return strings.Join(ss, ";")
}

// ---------- generation ----------

// keyAlphabet covers every character that is special for SOME setting of encoding/csv's reader or
// writer (Comma ',' or ';' or tab, Comment '#', quote, CR, LF, leading space for TrimLeadingSpace and
// the writer's quoting rule, `\.`), for shells and other CSV dialects (backslash, single quote, BOM),
// plus plain and non-ASCII characters - not only the ones the current settings react to.
var keyAlphabet = []rune{'a', 'b', ',', '"', ' ', '\t', '\n', '\r', '\\', '.', '0', 0xE9, 0x2603, 0xA0, 0x3000,
	'#', ';', '\'', 0xFEFF, '-', '=', '|', '%', '1'}

// keyShapes: keys whose special character sits at the start, at the end or inside, keys that look like
// numbers, negative numbers, timestamps (the optional third CSV column!), and the writer's `\.` case.
var keyShapes = []string{`\.`, " a", "a ", " a ", " ", "  ", "\"", "\"\"", "\"a", "a\"", ",", ",a", "a,", "a,b", "\r", "\n", "a\r", "\n\r",
	"#", "#a", "a#", "a#b", "# a", "##", ";", ";a", "a;", "a;b", "\t", "\ta", "a\t", "a\tb", "\\", "\\a", "a\\", "\\n", "'", "'a'", "a'b",
	"\ufeff", "\ufeffa", "a\ufeff", "123", "-5", "007", "+1", "1e3", "0x10", "1_0", "18446744073709551616", "2019-01-01T00:00", "2019-01-01T00:00:00Z",
	"　", "\u00a0a", "=1+1", "%s", "a|b", "NULL", "true"}

func genKey(r *vh.Rng) string {
	switch r.Intn(24) {
	case 0:
		vh.Count("key:empty")
		return ""
	case 1:
		vh.Count("key:crlf")
		return r.PickS("\r\n", "a\r\nb", "\r\n\r\n", "x\r\n")
	case 2, 3, 4, 5:
		k := keyShapes[r.Intn(len(keyShapes))]
		if strings.HasPrefix(k, "#") {
			vh.Count("key:leading-hash")
		}
		return k
	case 6:
		// very long key with a special character somewhere
		vh.Count("key:long")
		n := r.Pick(300, 600, 4097)
		rs := make([]rune, n)
		for i := range rs {
			rs[i] = 'k'
		}
		rs[r.Intn(n)] = keyAlphabet[r.Intn(len(keyAlphabet))]
		if rs[0] == '\r' && n > 1 && rs[1] == '\n' {
			rs[0] = 'k'
		}
		s := string(rs)
		if strings.Contains(s, "\r\n") {
			vh.Count("key:crlf")
		}
		return s
	case 7, 8, 9, 10:
		return r.PickS("a", "b", "c", "k1", "k2")
	case 11, 12, 13:
		// one special character at the start, at the end or in the middle of a plain key
		c := string(keyAlphabet[r.Intn(len(keyAlphabet))])
		k := r.PickS(c+"a", "a"+c, "a"+c+"b", c)
		if strings.HasPrefix(k, "#") {
			vh.Count("key:leading-hash")
		}
		return k
	}
	n := r.Range(1, 4)
	rs := make([]rune, n)
	for i := range rs {
		rs[i] = keyAlphabet[r.Intn(len(keyAlphabet))]
	}
	s := string(rs)
	if strings.Contains(s, "\r\n") {
		vh.Count("key:crlf")
	}
	if strings.HasPrefix(s, "#") {
		vh.Count("key:leading-hash")
	}
	return s
}

func genText(r *vh.Rng, n int) string {
	alpha := []rune{'a', 'b', ',', ',', '"', '"', '\n', '\n', '\r', ' ', 0xE9, '1', '#', '#', ';', '\t', '\'', '\\'}
	rs := make([]rune, n)
	for i := range rs {
		rs[i] = alpha[r.Intn(len(alpha))]
	}
	return string(rs)
}

func special(s string) bool { return strings.ContainsAny(s, "\",\r\n") }

func (p *prop) genRT(r *vh.Rng) (string, bool) {
	rk, ck := r.Chance(6, 10), r.Chance(5, 10)
	nb := r.Pick(0, 1, 2, 3, 3, 4, 5, 6, 8)
	var rowPool, colPool []string
	for i := 0; i < r.Range(1, 4); i++ {
		if rk {
			rowPool = append(rowPool, "k"+encStr(genKey(r)))
		} else {
			rowPool = append(rowPool, "n"+strconv.Itoa(r.Pick(0, 1, 2, 3, 7, 1000)))
		}
	}
	for i := 0; i < r.Range(1, 5); i++ {
		if ck {
			colPool = append(colPool, "k"+encStr(genKey(r)))
		} else {
			colPool = append(colPool, "n"+strconv.FormatUint(r.PickU(0, 1, 2, sw-1, sw, sw+1, 2*sw+3, 3*sw, 3*sw+sw-1), 10))
		}
	}
	var bits []string
	for i := 0; i < nb; i++ {
		bits = append(bits, rowPool[r.Intn(len(rowPool))]+":"+colPool[r.Intn(len(colPool))])
	}
	other := uint64(0)
	if !ck && r.Chance(1, 3) {
		other = r.PickU(2*sw+5, 5*sw, 1)
	}
	buf := r.Pick(0, 1, 2, 3, 4, 1000)
	b := "-"
	if len(bits) > 0 {
		b = strings.Join(bits, ";")
	}
	bi := func(x bool) int {
		if x {
			return 1
		}
		return 0
	}
	vh.Count(fmt.Sprintf("rt:rk%d-ck%d", bi(rk), bi(ck)))
	return fmt.Sprintf("rt %d %d %d %d %s", bi(rk), bi(ck), buf, other, b), nb > 0
}

func (p *prop) genImp(r *vh.Rng) (string, bool) {
	rk, ck := r.Chance(4, 10), r.Chance(4, 10)
	atomsNum := []string{"0", "1", "2", "7", "007", "1048576", "2097153", "", "x", "-1", "+1", "4294967296", "18446744073709551616", "1_0", " 1", "99999999999999999999999"}
	atomsKey := []string{"a", "b", "", "a,b", "q\"q", " x", "é", "n\nl", "c\r\nd", "5", "#x", "x#", "#", ";", "a;b", "\tq", "'s'", "\ufeffb", "-5", "b\\"}
	nrec := r.Range(0, 5)
	var recs [][]string
	for i := 0; i < nrec; i++ {
		nf := r.Pick(1, 2, 2, 2, 2, 2, 3)
		var rec []string
		for j := 0; j < nf; j++ {
			keyed := (j == 0 && rk) || (j == 1 && ck)
			switch {
			case j == 2:
				rec = append(rec, r.PickS("", "", "x", "zz")) // never a valid timestamp (timestamps are outside the model)
			case keyed:
				rec = append(rec, atomsKey[r.Intn(len(atomsKey))])
			default:
				if r.Chance(7, 10) {
					rec = append(rec, atomsNum[r.Intn(7)])
				} else {
					rec = append(rec, atomsNum[r.Intn(len(atomsNum))])
				}
			}
		}
		recs = append(recs, rec)
	}
	var buf bytes.Buffer
	w := csv.NewWriter(&buf)
	_ = w.WriteAll(recs)
	w.Flush()
	text := buf.String()
	// mutations: stray characters, missing final newline, CR LF line ends
	switch r.Intn(8) {
	case 0:
		text = strings.TrimSuffix(text, "\n")
	case 1:
		text = strings.Replace(text, "\n", "\r\n", -1)
	case 2:
		if len(text) > 0 {
			i := r.Intn(len(text))
			text = text[:i] + r.PickS("\"", ",", "\n", "\r", "\n\n", "#", "\n#", ";", " ") + text[i:]
		}
	case 3:
		text = text + r.PickS("\r", "\n\n", "1,", "\"1", "1,2", "#c\n", "#")
	}
	// keep valid UTF-8 (insertions may split a multi-byte rune)
	text = strings.ToValidUTF8(text, "?")
	return fmt.Sprintf("imp %d %d %d %s", b2i(rk), b2i(ck), r.Pick(0, 1, 2, 3, 1000), encStr(text)), nrec > 0
}

func b2i(b bool) int {
	if b {
		return 1
	}
	return 0
}

// genRTC: a keyed round trip on the cluster; clean keys only (the recorded single-node findings are
// exercised by rt lines), several bits so that more than one owner pair is hit when columns are ids.
func (p *prop) genRTC(r *vh.Rng) string {
	rk, ck := true, r.Bool()
	if r.Chance(1, 4) {
		rk, ck = false, true
	}
	clean := func() string {
		for {
			k := genKey(r)
			if k != "" && !strings.Contains(k, "\r\n") && len([]rune(k)) < 50 {
				return k
			}
		}
	}
	var rowPool, colPool []string
	for i := 0; i < r.Range(1, 3); i++ {
		if rk {
			rowPool = append(rowPool, "k"+encStr(clean()))
		} else {
			rowPool = append(rowPool, "n"+strconv.Itoa(r.Pick(0, 1, 2, 7)))
		}
	}
	for i := 0; i < r.Range(2, 6); i++ {
		if ck {
			colPool = append(colPool, "k"+encStr(clean()))
		} else {
			colPool = append(colPool, "n"+strconv.FormatUint(r.PickU(0, 1, sw-1, sw, sw+1, 2*sw+3, 3*sw, 4*sw+5, 5*sw, 6*sw+1, 7*sw), 10))
		}
	}
	var bits []string
	for i := 0; i < r.Range(3, 8); i++ {
		bits = append(bits, rowPool[r.Intn(len(rowPool))]+":"+colPool[r.Intn(len(colPool))])
	}
	vh.Count(fmt.Sprintf("rtc:rk%d-ck%d", b2i(rk), b2i(ck)))
	return fmt.Sprintf("rtc %d %d %d 2 %s", b2i(rk), b2i(ck), r.Pick(0, 2, 3, 1000), strings.Join(bits, ";"))
}

func (p *prop) Gen(r *vh.Rng, tier string, n int) []vh.Case {
	var cases []vh.Case
	for k := 0; k < n; k++ {
		cr := r.Fork()
		var line string
		var nt bool
		if k < 2 || (tier == "thorough" && cr.Chance(1, 40)) {
			// clustered round trips: slower (a 3-node cluster is started once per stream)
			cases = append(cases, vh.Case{Lines: []string{p.genRTC(cr)}, Nontrivial: true})
			continue
		}
		switch x := cr.Intn(100); {
		case x < 3:
			line = "pu " + encStr(cr.PickS("0", "7", "007", "", "x", "-1", "+1", "1_0", " 1", "1 ", "18446744073709551615", "18446744073709551616",
				"018446744073709551615", "18446744073709551625", "184467440737095516150", "99999999999999999999999", "1a", "١", "4294967296"))
			nt = true
		case x < 12:
			recs := genRecs(cr)
			line = "csvw " + encRecs(recs)
			nt = anySpecial(recs)
		case x < 35:
			t := genText(cr, cr.Range(0, 12))
			line = "csvr " + encStr(t)
			nt = special(t)
		case x < 45:
			recs := genRecs(cr)
			line = "csvrt " + encRecs(recs)
			nt = anySpecial(recs)
		case x < 65:
			line, nt = p.genImp(cr)
		default:
			line, nt = p.genRT(cr)
		}
		cases = append(cases, vh.Case{Lines: []string{line}, Nontrivial: nt})
	}
	return cases
}

func genRecs(r *vh.Rng) [][]string {
	var recs [][]string
	for i := 0; i < r.Range(0, 3); i++ {
		var rec []string
		for j := 0; j < r.Pick(1, 1, 2, 2, 3); j++ {
			rec = append(rec, genKey(r))
		}
		recs = append(recs, rec)
	}
	return recs
}

func anySpecial(recs [][]string) bool {
	for _, r := range recs {
		for _, f := range r {
			if special(f) {
				return true
			}
		}
	}
	return false
}

// ---------- execution ----------

func (p *prop) server() *server.Command {
	if p.m != nil {
		return p.m
	}
	// The data dir goes to tmpfs when there is one: every index/field creation and key allocation
	// fsyncs, which dominates the run on a loaded disk and is irrelevant to this property.
	base := ""
	if st, err := os.Stat("/dev/shm"); err == nil && st.IsDir() {
		base = "/dev/shm"
	}
	dir, err := ioutil.TempDir(base, "verif-c30-")
	if err != nil {
		dir, err = ioutil.TempDir("", "verif-c30-")
		if err != nil {
			panic(err)
		}
	}
	m := server.NewCommand(bytes.NewReader(nil), ioutil.Discard, ioutil.Discard,
		server.OptCommandCloseTimeout(2*time.Millisecond))
	m.Config.DataDir = dir
	m.Config.Bind = "http://localhost:0"
	m.Config.Cluster.Disabled = true
	m.Config.Translation.MapSize = 1 << 27 // the key log is mmapped with a fixed size
	m.Config.WorkerPoolSize = 2
	m.Config.Metric.Diagnostics = false
	if err := m.Start(); err != nil {
		panic(err)
	}
	p.m = m
	return m
}

func (p *prop) Exec(lines []string) []string {
	outs := make([]string, len(lines))
	for i, l := range lines {
		l := l
		outs[i] = vh.Guard("exec", func() string { return p.execLine(l) })
	}
	return outs
}

func csvWrite(recs [][]string) string {
	var buf bytes.Buffer
	w := csv.NewWriter(&buf)
	for _, r := range recs {
		if err := w.Write(r); err != nil {
			return "err:write"
		}
	}
	w.Flush()
	return buf.String()
}

func csvRead(text string) string {
	r := csv.NewReader(strings.NewReader(text))
	r.FieldsPerRecord = -1
	var recs [][]string
	for {
		rec, err := r.Read()
		if err == io.EOF {
			return "ok " + encRecs(recs)
		}
		if err != nil {
			return "err:" + csvErrKind(err) + " " + encRecs(recs)
		}
		recs = append(recs, rec)
	}
}

func csvErrKind(err error) string {
	if pe, ok := errors.Cause(err).(*csv.ParseError); ok {
		switch pe.Err {
		case csv.ErrBareQuote:
			return "bare-quote"
		case csv.ErrQuote:
			return "quote"
		}
	}
	return "other"
}

func impErr(err error) string {
	if err == nil {
		return "ok"
	}
	msg := err.Error()
	switch {
	case strings.HasPrefix(msg, "reading: "):
		return "err:csv-" + csvErrKind(err)
	case strings.HasPrefix(msg, "bad column count"):
		return "err:column-count"
	case strings.HasPrefix(msg, "invalid row id"):
		return "err:row-id"
	case strings.HasPrefix(msg, "invalid column id"):
		return "err:col-id"
	case strings.HasPrefix(msg, "invalid timestamp"):
		return "err:timestamp-unmodelled"
	case strings.HasPrefix(msg, "importing"):
		return "err:server"
	}
	return "err:other:" + strings.Map(func(r rune) rune {
		if r == ' ' || r == '\n' || r == '\t' || r == '\r' {
			return '_'
		}
		return r
	}, msg)
}

type lab struct {
	key   bool
	s     string
	n     uint64
	valid bool
}

func decLab(s string) lab {
	if len(s) == 0 {
		return lab{}
	}
	switch s[0] {
	case 'k':
		v, ok := decStr(s[1:])
		return lab{key: true, s: v, valid: ok}
	case 'n':
		n, err := strconv.ParseUint(s[1:], 10, 64)
		return lab{n: n, valid: err == nil}
	}
	return lab{}
}

func (p *prop) mkIndex(name string, rk, ck bool) error {
	ctx := context.Background()
	api := p.server().API
	if _, err := api.CreateIndex(ctx, name, pilosa.IndexOptions{Keys: ck}); err != nil {
		return err
	}
	opts := []pilosa.FieldOption{pilosa.OptFieldTypeSet(pilosa.CacheTypeNone, 0)}
	if rk {
		opts = append(opts, pilosa.OptFieldKeys())
	}
	_, err := api.CreateField(ctx, name, "f", opts...)
	return err
}

func (p *prop) runImport(index string, buf int, text string) error {
	f, err := ioutil.TempFile("", "verif-c30-csv-")
	if err != nil {
		panic(err)
	}
	defer os.Remove(f.Name())
	if _, err := f.WriteString(text); err != nil {
		panic(err)
	}
	f.Close()
	im := ctl.NewImportCommand(strings.NewReader(""), ioutil.Discard, ioutil.Discard)
	im.Host = p.server().API.Node().URI.HostPort()
	im.Index, im.Field, im.Paths, im.BufferSize = index, "f", []string{f.Name()}, buf
	return im.Run(context.Background())
}

func (p *prop) contents(index string) string {
	ps, err := pilosa.VerifC30Contents(p.server().API, index, "f")
	if err != nil {
		return "err:contents"
	}
	return encPairs(ps)
}

func (p *prop) execLine(l string) string {
	ws := strings.Fields(l)
	switch {
	case len(ws) == 2 && ws[0] == "csvw":
		recs, ok := decRecs(ws[1])
		if !ok {
			return "bad-op"
		}
		return encStr(csvWrite(recs))
	case len(ws) == 2 && ws[0] == "csvr":
		t, ok := decStr(ws[1])
		if !ok {
			return "bad-op"
		}
		return csvRead(t)
	case len(ws) == 2 && ws[0] == "pu":
		t, ok := decStr(ws[1])
		if !ok {
			return "bad-op"
		}
		n, err := strconv.ParseUint(t, 10, 64)
		if err != nil {
			return "err"
		}
		return "ok " + strconv.FormatUint(n, 10)
	case len(ws) == 2 && ws[0] == "csvrt":
		recs, ok := decRecs(ws[1])
		if !ok {
			return "bad-op"
		}
		return csvRead(csvWrite(recs))
	case len(ws) == 5 && ws[0] == "imp":
		t, ok := decStr(ws[4])
		buf, err := strconv.Atoi(ws[3])
		if !ok || err != nil || (ws[1] != "0" && ws[1] != "1") || (ws[2] != "0" && ws[2] != "1") {
			return "bad-op"
		}
		p.idx++
		di := fmt.Sprintf("d%d", p.idx)
		if err := p.mkIndex(di, ws[1] == "1", ws[2] == "1"); err != nil {
			return "err:schema"
		}
		defer p.server().API.DeleteIndex(context.Background(), di)
		ierr := p.runImport(di, buf, t)
		vh.Count("imp:" + impErr(ierr))
		return "imp=" + impErr(ierr) + " dst=" + p.contents(di)
	case len(ws) == 6 && ws[0] == "rt":
		return p.execRT(ws)
	case len(ws) == 6 && ws[0] == "rtc":
		return p.execRTC(ws)
	}
	return "bad-op"
}

func (p *prop) execRT(ws []string) string {
	if (ws[1] != "0" && ws[1] != "1") || (ws[2] != "0" && ws[2] != "1") {
		return "bad-op"
	}
	rk, ck := ws[1] == "1", ws[2] == "1"
	buf, err1 := strconv.Atoi(ws[3])
	other, err2 := strconv.ParseUint(ws[4], 10, 64)
	if err1 != nil || err2 != nil {
		return "bad-op"
	}
	req := &pilosa.ImportRequest{Field: "f"}
	n := 0
	if ws[5] != "-" {
		for _, b := range strings.Split(ws[5], ";") {
			rc := strings.Split(b, ":")
			if len(rc) != 2 {
				return "bad-op"
			}
			r, c := decLab(rc[0]), decLab(rc[1])
			if !r.valid || !c.valid || r.key != rk || c.key != ck {
				return "bad-op"
			}
			if rk {
				req.RowKeys = append(req.RowKeys, r.s)
			} else {
				req.RowIDs = append(req.RowIDs, r.n)
			}
			if ck {
				req.ColumnKeys = append(req.ColumnKeys, c.s)
			} else {
				req.ColumnIDs = append(req.ColumnIDs, c.n)
				if c.n/sw > 0 {
					vh.Count("rt:multi-shard-bit")
				}
			}
			n++
		}
	}
	ctx := context.Background()
	api := p.server().API
	p.idx++
	si, di := fmt.Sprintf("s%d", p.idx), fmt.Sprintf("d%d", p.idx)
	for _, ix := range []string{si, di} {
		if err := p.mkIndex(ix, rk, ck); err != nil {
			return "err:schema"
		}
		defer api.DeleteIndex(ctx, ix)
	}
	if n > 0 {
		req.Index = si
		if err := api.Import(ctx, req); err != nil {
			return "err:fill-source"
		}
	}
	if other > 0 {
		if _, err := api.CreateField(ctx, si, "g", pilosa.OptFieldTypeSet(pilosa.CacheTypeNone, 0)); err != nil {
			return "err:schema"
		}
		if err := api.Import(ctx, &pilosa.ImportRequest{Index: si, Field: "g", RowIDs: []uint64{0}, ColumnIDs: []uint64{other}}); err != nil {
			return "err:fill-source"
		}
	}
	host := api.Node().URI.HostPort()
	var out bytes.Buffer
	ex := ctl.NewExportCommand(strings.NewReader(""), &out, ioutil.Discard)
	ex.Host, ex.Index, ex.Field = host, si, "f"
	if err := ex.Run(ctx); err != nil {
		return "csv=err:export imp=- dst=-"
	}
	ierr := p.runImport(di, buf, out.String())
	vh.Count("rt:imp=" + impErr(ierr))
	return "csv=" + encStr(out.String()) + " imp=" + impErr(ierr) + " dst=" + p.contents(di)
}

func (p *prop) cluster() *srv2.Cluster {
	if p.cl == nil {
		c, err := srv2.Start(3, 2, 2)
		if err != nil {
			panic(err)
		}
		p.cl = c
	}
	return p.cl
}

func shardPairs(ps [][2]string) string { return strings.Replace(encPairs(ps), ";", "+", -1) }

// execRTC: rt on the 3-node / 2-replica cluster, reading every node's own fragments.
func (p *prop) execRTC(ws []string) string {
	if (ws[1] != "0" && ws[1] != "1") || (ws[2] != "0" && ws[2] != "1") || (ws[1] == "0" && ws[2] == "0") || ws[4] != "2" {
		return "bad-op"
	}
	rk, ck := ws[1] == "1", ws[2] == "1"
	buf, err1 := strconv.Atoi(ws[3])
	if err1 != nil || ws[5] == "-" {
		return "bad-op"
	}
	req := &pilosa.ImportRequest{Field: "f"}
	for _, b := range strings.Split(ws[5], ";") {
		rc := strings.Split(b, ":")
		if len(rc) != 2 {
			return "bad-op"
		}
		r, c := decLab(rc[0]), decLab(rc[1])
		if !r.valid || !c.valid || r.key != rk || c.key != ck {
			return "bad-op"
		}
		if rk {
			req.RowKeys = append(req.RowKeys, r.s)
		} else {
			req.RowIDs = append(req.RowIDs, r.n)
		}
		if ck {
			req.ColumnKeys = append(req.ColumnKeys, c.s)
		} else {
			req.ColumnIDs = append(req.ColumnIDs, c.n)
		}
	}
	cl := p.cluster()
	ctx := context.Background()
	coord := cl.Nodes[0].API
	// Schema changes need cluster state NORMAL on every node; on a loaded machine gossip can flap for a
	// moment, so wait and retry with fresh index names (counted) instead of reporting a harness artefact.
	var si, di string
	mk := func() error {
		p.idx++
		si, di = fmt.Sprintf("cs%d", p.idx), fmt.Sprintf("cd%d", p.idx)
		for _, ix := range []string{si, di} {
			if _, err := coord.CreateIndex(ctx, ix, pilosa.IndexOptions{Keys: ck}); err != nil {
				return err
			}
			opts := []pilosa.FieldOption{pilosa.OptFieldTypeSet(pilosa.CacheTypeNone, 0)}
			if rk {
				opts = append(opts, pilosa.OptFieldKeys())
			}
			if _, err := coord.CreateField(ctx, ix, "f", opts...); err != nil {
				return err
			}
		}
		return nil
	}
	var serr error
	for attempt := 0; attempt < 6; attempt++ {
		cl.WaitNormal(30 * time.Second)
		if serr = mk(); serr == nil {
			break
		}
		vh.Count("rtc:schema-retry")
		_ = coord.DeleteIndex(ctx, si)
		_ = coord.DeleteIndex(ctx, di)
		time.Sleep(300 * time.Millisecond)
	}
	if serr != nil {
		return "err:schema"
	}
	defer coord.DeleteIndex(ctx, si)
	defer coord.DeleteIndex(ctx, di)
	req.Index = si
	if err := coord.Import(ctx, req); err != nil {
		return "err:fill-source"
	}
	// Replicas receive the coordinator's key log asynchronously; an export served by a replica before the
	// keys have arrived writes EMPTY keys (observed, timing dependent - see design/C30.md). The tie is
	// about the import path, so wait until every node can translate every bit it holds.
	deadline := time.Now().Add(20 * time.Second)
	for {
		ready := true
		for _, n := range cl.Nodes {
			m, err := pilosa.VerifC30ShardContents(n.API, n.API, si, "f")
			if err != nil {
				return "err:contents"
			}
			for _, ps := range m {
				for _, pr := range ps {
					if pr[0] == "" || pr[1] == "" {
						ready = false
					}
				}
			}
		}
		if ready {
			break
		}
		if time.Now().After(deadline) {
			return "err:key-replication-timeout"
		}
		vh.Count("rtc:waited-for-key-replication")
		time.Sleep(10 * time.Millisecond)
	}
	var out bytes.Buffer
	ex := ctl.NewExportCommand(strings.NewReader(""), &out, ioutil.Discard)
	ex.Host, ex.Index, ex.Field = cl.Nodes[1].API.Node().URI.HostPort(), si, "f"
	if err := ex.Run(ctx); err != nil {
		return "csv=err:export imp=- rep=- stray=0"
	}
	f, err := ioutil.TempFile("", "verif-c30-csv-")
	if err != nil {
		panic(err)
	}
	defer os.Remove(f.Name())
	_, _ = f.WriteString(out.String())
	f.Close()
	im := ctl.NewImportCommand(strings.NewReader(""), ioutil.Discard, ioutil.Discard)
	im.Host = cl.Nodes[2].API.Node().URI.HostPort()
	im.Index, im.Field, im.Paths, im.BufferSize = di, "f", []string{f.Name()}, buf
	ierr := im.Run(ctx)
	// every node's own fragments, keys through the coordinator's translate store
	held := make([]map[uint64][][2]string, len(cl.Nodes))
	shardSet := map[uint64]bool{}
	for i, n := range cl.Nodes {
		m, err := pilosa.VerifC30ShardContents(n.API, coord, di, "f")
		if err != nil {
			return "err:contents"
		}
		held[i] = m
		for s := range m {
			shardSet[s] = true
		}
	}
	var shards []uint64
	for s := range shardSet {
		shards = append(shards, s)
	}
	sort.Slice(shards, func(i, j int) bool { return shards[i] < shards[j] })
	stray := 0
	var parts []string
	for _, s := range shards {
		owners, err := coord.ShardNodes(ctx, di, s)
		if err != nil {
			return "err:shard-nodes"
		}
		isOwner := map[string]bool{}
		for _, o := range owners {
			isOwner[o.ID] = true
		}
		var copies []string
		for i, n := range cl.Nodes { // node ids node0 < node1 < node2
			if isOwner[n.API.Node().ID] {
				copies = append(copies, shardPairs(held[i][s]))
			} else {
				stray += len(held[i][s])
			}
		}
		parts = append(parts, strconv.FormatUint(s, 10)+":"+strings.Join(copies, "|"))
	}
	rep := "-"
	if len(parts) > 0 {
		rep = strings.Join(parts, ";")
	}
	vh.Count("rtc:imp=" + impErr(ierr))
	vh.Count(fmt.Sprintf("rtc:dst-shards=%d", len(shards)))
	return "csv=" + encStr(out.String()) + " imp=" + impErr(ierr) + " rep=" + rep + " stray=" + strconv.Itoa(stray)
}

func main() {
	if pf := os.Getenv("VERIF_C30_PROF"); pf != "" {
		f, _ := os.Create(pf)
		_ = pprof.StartCPUProfile(f)
		defer pprof.StopCPUProfile()
	}
	p := &prop{}
	defer func() {
		if p.m != nil {
			_ = p.m.Close()
			_ = os.RemoveAll(p.m.Config.DataDir)
		}
		if p.cl != nil {
			p.cl.Stop()
		}
	}()
	vh.Main(p)
}
