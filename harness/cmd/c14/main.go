// Harness for C14: integer (BSI) fields — values, range queries, Sum/Min/Max.
//
// Line formats are documented in lean/PV/C14/Main.lean. Two levels:
//   - fragment level: a hooked BSI fragment (verif_c14.go) driven with base-relative values and an
//     explicit bit depth: setValue / clearValue / importValue (small and large path) / value /
//     rangeOp / rangeBetween / notNull / sum / min / max;
//   - field level: an in-process server; PQL Set / Row(v op p) / Row(v >< [a,b]) / Row(v != null) /
//     Sum / Min / Max, API.ImportValue and Field.Value / Sum / Min / Max, on int fields with any
//     (min, max) and — forced through a hook — any (base, bit depth), values over 3 shards with ties.
package main

import (
	"context"
	"fmt"
	"os"
	"path/filepath"
	"sort"
	"strconv"
	"strings"
	"time"

	"github.com/pilosa/pilosa"
	"verifharness/vh"
	"verifharness/vh/srv"
)

const sw = pilosa.ShardWidth

type prop struct {
	s   *srv.Server
	idx int
}

func (p *prop) Rule() string {
	return "four case kinds: (1) per-depth fragment sweep (d<=6: one column per value in (-2^d,2^d) plus a cleared column, every " +
		"predicate in the depth range x all six comparisons, between pairs, not-null, Sum/Min/Max with filters); (2) random fragment " +
		"histories for d<=63 (set/clear/import small+large path/growth interleaved with every read, values and predicates at 0, +-1, +-(2^d-1) and next to stored values); " +
		"(3) per-depth field sweep through PQL (every (base,depth) combination forced by a hook, one column per value over 3 shards, every predicate in " +
		"[base-2^(d+1), base+2^(d+1)] x six comparisons + between + not-null, Sum/Min/Max through PQL and the Field API); (4) random field histories " +
		"(Set/ImportValue with clears, out-of-range values, growth from depth 1, ties across shards). A case is non-trivial when it stores >= 2 values and issues >= 1 range or aggregate read"
}

// ---------- generation ----------

var ops6 = []string{"==", "!=", "<", "<=", ">", ">="}

func pow2(d int) int64 { return int64(1) << uint(d) }

// interesting base-relative values for depth d (|v| < 2^d)
func genVal(r *vh.Rng, d int) int64 {
	if d == 0 {
		return 0
	}
	lim := pow2(d) - 1
	switch r.Intn(8) {
	case 0:
		return 0
	case 1:
		return int64(r.Pick(-1, 1))
	case 2:
		return lim
	case 3:
		return -lim
	case 4:
		return lim - int64(r.Intn(2))
	case 5:
		return -(lim - int64(r.Intn(2)))
	}
	v := int64(r.U64() % uint64(lim+1))
	if r.Bool() {
		v = -v
	}
	return v
}

func genFilter(r *vh.Rng, cols []uint64) string {
	switch r.Intn(4) {
	case 0:
		return "*"
	case 1:
		if r.Chance(1, 3) {
			return "-"
		}
	}
	var out []uint64
	for _, c := range cols {
		if r.Bool() {
			out = append(out, c)
		}
	}
	if r.Chance(1, 4) {
		out = append(out, 999) // a column that holds nothing
	}
	return vh.CSV(vh.SortedU64(out))
}

func fragSweep(r *vh.Rng, d int) vh.Case {
	var ls []string
	ls = append(ls, fmt.Sprintf("frag %d", d))
	lim := pow2(d) - 1
	off := lim + 10
	var cols []uint64
	var pairs []string
	for v := -lim; v <= lim; v++ {
		c := uint64(v + off)
		cols = append(cols, c)
		pairs = append(pairs, fmt.Sprintf("%d:%d", c, v))
	}
	// load: half through import, half through set, in a shuffled order
	perm := r.Perm(len(pairs))
	var imp []string
	for _, k := range perm {
		if r.Bool() {
			imp = append(imp, pairs[k])
		} else {
			cv := strings.Split(pairs[k], ":")
			ls = append(ls, "set "+cv[0]+" "+cv[1])
		}
	}
	if len(imp) > 0 {
		ls = append(ls, "imp "+r.PickS("small", "large")+" 0 "+strings.Join(imp, ","))
	}
	// a column set then cleared (leaves its value bits behind) and a tie
	ls = append(ls, fmt.Sprintf("set 3 %d", lim), fmt.Sprintf("clr 3 %d", lim))
	ls = append(ls, fmt.Sprintf("set 5 %d", -lim))
	cols = append(cols, 5)
	for p := -lim; p <= lim; p++ {
		for _, op := range ops6 {
			ls = append(ls, fmt.Sprintf("rng %s %d", op, p))
		}
	}
	if d <= 3 {
		for a := -lim; a <= lim; a++ {
			for b := -lim; b <= lim; b++ {
				ls = append(ls, fmt.Sprintf("btw %d %d", a, b))
			}
		}
	} else {
		for k := 0; k < 150; k++ {
			ls = append(ls, fmt.Sprintf("btw %d %d", genVal(r, d), genVal(r, d)))
		}
	}
	ls = append(ls, "nn", "val 3", "val 5")
	for k := 0; k < 12; k++ {
		ls = append(ls, r.PickS("sum", "min", "max")+" "+genFilter(r, cols))
	}
	ls = append(ls, "sum *", "min *", "max *")
	vh.Count(fmt.Sprintf("frag-sweep-d%d", d))
	return vh.Case{Lines: ls, Nontrivial: d >= 1}
}

func fragRandom(r *vh.Rng) vh.Case {
	d := r.Pick(0, 1, 1, 2, 2, 3, 3, 4, 5, 7, 8, 16, 31, 32, 33, 62, 63, r.Range(0, 63))
	var ls []string
	ls = append(ls, fmt.Sprintf("frag %d", d))
	cols := []uint64{0, 1, 2, 65535, 65536, sw - 1}
	ncol := r.Range(2, len(cols))
	cols = cols[:ncol]
	stored, reads := 0, 0
	n := r.Range(6, 30)
	var recent []int64
	pred := func() int64 {
		if len(recent) > 0 && r.Chance(2, 3) {
			return recent[r.Intn(len(recent))] + int64(r.Pick(-1, 0, 0, 1))
		}
		return genVal(r, d)
	}
	clampP := func(p int64) int64 {
		lim := pow2(d) - 1
		if d >= 63 {
			lim = 1<<63 - 1
		}
		if p > lim {
			return lim
		}
		if p < -lim {
			return -lim
		}
		return p
	}
	for k := 0; k < n; k++ {
		c := cols[r.Intn(len(cols))]
		switch r.Intn(13) {
		case 0, 1, 2:
			v := genVal(r, d)
			recent = append(recent, v)
			ls = append(ls, fmt.Sprintf("set %d %d", c, v))
			stored++
		case 3:
			ls = append(ls, fmt.Sprintf("clr %d %d", c, genVal(r, d)))
		case 4, 5:
			m := r.Range(1, 4)
			var ps []string
			for j := 0; j < m; j++ {
				v := genVal(r, d)
				recent = append(recent, v)
				ps = append(ps, fmt.Sprintf("%d:%d", cols[r.Intn(len(cols))], v))
			}
			clear := 0
			if r.Chance(1, 4) {
				clear = 1
			}
			ls = append(ls, fmt.Sprintf("imp %s %d %s", r.PickS("small", "large"), clear, strings.Join(ps, ",")))
			stored += m
		case 6:
			ls = append(ls, fmt.Sprintf("val %d", c))
		case 7, 8:
			ls = append(ls, fmt.Sprintf("rng %s %d", r.PickS(ops6...), clampP(pred())))
			reads++
		case 9:
			ls = append(ls, fmt.Sprintf("btw %d %d", clampP(pred()), clampP(pred())))
			reads++
		case 10:
			ls = append(ls, r.PickS("sum", "min", "max")+" "+genFilter(r, cols))
			reads++
		case 11:
			ls = append(ls, "nn")
		case 12:
			if d < 63 && r.Chance(1, 2) {
				d += r.Range(1, 3)
				if d > 63 {
					d = 63
				}
				ls = append(ls, fmt.Sprintf("depth %d", d))
				vh.Count("frag-growth")
			}
		}
	}
	for _, c := range cols {
		ls = append(ls, fmt.Sprintf("val %d", c))
	}
	ls = append(ls, "min *", "max *", "sum *", fmt.Sprintf("rng < %d", clampP(pred())), fmt.Sprintf("rng >= %d", clampP(pred())))
	vh.Count("frag-random")
	return vh.Case{Lines: ls, Nontrivial: stored >= 2}
}

// column k of the field-level cases: spread over 3 shards
func fcol(k int) uint64 { return uint64(k%3)*sw + uint64(k/3)*7 + 1 }

func fieldSweep(r *vh.Rng, d int) vh.Case {
	lim := pow2(d) - 1
	base := int64(r.Pick(0, 0, 0, -10, 100, -1, 1, r.Range(-300, 300)))
	// bounds: sometimes tight around the stored values, sometimes wide, sometimes cutting into them
	lo, hi := base-lim, base+lim
	switch r.Intn(4) {
	case 0:
	case 1:
		lo -= int64(r.Range(0, 500))
		hi += int64(r.Range(0, 500))
	case 2:
		lo, hi = base-lim-1, base+lim+1
	case 3:
		lo += int64(r.Range(0, int(lim)))
		hi -= int64(r.Range(0, int(lim)))
		if lo > hi {
			lo, hi = hi, lo
		}
	}
	var ls []string
	ls = append(ls, fmt.Sprintf("field %d %d %d %d", lo, hi, base, d))
	var cols []uint64
	k := 0
	var pairs []string
	for bv := -lim; bv <= lim; bv++ {
		v := base + bv
		if v < lo || v > hi {
			continue
		}
		c := fcol(k)
		k++
		cols = append(cols, c)
		if r.Chance(1, 3) {
			pairs = append(pairs, fmt.Sprintf("%d:%d", c, v))
		} else {
			ls = append(ls, fmt.Sprintf("pset %d %d", c, v))
		}
	}
	if len(pairs) > 0 {
		ls = append(ls, "pimp 0 "+strings.Join(pairs, ","))
	}
	// ties of both extremes in another shard
	if len(cols) > 0 {
		ls = append(ls, fmt.Sprintf("pset %d %d", 2*sw+500, maxI(lo, base-lim)), fmt.Sprintf("pset %d %d", sw+501, minI(hi, base+lim)))
		cols = append(cols, 2*sw+500, sw+501)
	}
	ls = append(ls, "opts")
	span := 2 * pow2(d)
	for p := base - span; p <= base+span; p++ {
		for _, op := range ops6 {
			ls = append(ls, fmt.Sprintf("prow %s %d", op, p))
		}
	}
	for _, p := range []int64{lo, lo - 1, hi, hi + 1, base, -1 << 40, 1 << 40} {
		ls = append(ls, fmt.Sprintf("prow %s %d", r.PickS(ops6...), p))
	}
	nb := 120
	if d <= 2 {
		nb = 60
	}
	for j := 0; j < nb; j++ {
		a := base + int64(r.Range(int(-span), int(span)))
		b := base + int64(r.Range(int(-span), int(span)))
		ls = append(ls, fmt.Sprintf("pbtw %d %d", a, b))
	}
	ls = append(ls, fmt.Sprintf("pbtw %d %d", lo, hi), fmt.Sprintf("pbtw %d %d", lo-5, hi+5), fmt.Sprintf("pbtw %d %d", lo+1, hi))
	ls = append(ls, "pnn")
	for j := 0; j < 10; j++ {
		ls = append(ls, r.PickS("psum", "pmin", "pmax", "gsum", "gmin", "gmax")+" "+genFilter(r, cols))
	}
	ls = append(ls, "psum *", "pmin *", "pmax *", "gsum *", "gmin *", "gmax *")
	for j := 0; j < 4 && len(cols) > 0; j++ {
		ls = append(ls, fmt.Sprintf("fval %d", cols[r.Intn(len(cols))]))
	}
	vh.Count(fmt.Sprintf("field-sweep-d%d", d))
	if base != 0 {
		vh.Count("field-sweep-base-nonzero")
	}
	return vh.Case{Lines: ls, Nontrivial: len(cols) >= 2}
}

func minI(a, b int64) int64 {
	if a < b {
		return a
	}
	return b
}
func maxI(a, b int64) int64 {
	if a > b {
		return a
	}
	return b
}

func fieldRandom(r *vh.Rng) vh.Case {
	var lo, hi, base int64
	d := 1
	switch r.Intn(6) {
	case 0:
		lo, hi = -100, 1000
	case 1:
		lo, hi = -10, 1000
	case 2:
		lo, hi = int64(r.Range(-50, 0)), int64(r.Range(0, 50))
	case 3: // bounds excluding zero
		lo = int64(r.Range(5, 40))
		hi = lo + int64(r.Range(0, 60))
		if r.Bool() {
			lo, hi = -hi, -lo
		}
	case 4: // deep: depth up to 63
		lo, hi = -(1 << 62), 1<<62
	case 5: // forced base and depth (what a v1 upgrade produces: base = min, depth covering max-min)
		lo = int64(r.Range(-40, 40))
		hi = lo + int64(r.Range(0, 100))
		base = lo
		d = 0
		for pow2(d) <= hi-lo {
			d++
		}
		if d == 0 {
			d = 1
		}
		vh.Count("field-random-v1-like")
	}
	var ls []string
	ls = append(ls, fmt.Sprintf("field %d %d %d %d", lo, hi, base, d))
	colsAll := []uint64{1, 2, 3, sw + 1, sw + 2, 2*sw + 1, 2*sw + 2}
	cols := colsAll[:r.Range(2, len(colsAll))]
	var recent []int64
	val := func() int64 {
		switch r.Intn(10) {
		case 0:
			return lo
		case 1:
			return hi
		case 2:
			return lo - 1
		case 3:
			return hi + 1
		case 4:
			return 0
		case 5:
			if len(recent) > 0 {
				return recent[r.Intn(len(recent))] // tie
			}
		}
		span := hi - lo
		if span <= 0 {
			return lo
		}
		if span > 1<<40 {
			// deep case: values of every magnitude
			sh := uint(r.Range(0, 61))
			v := int64(r.U64()>>1) >> (62 - sh)
			if r.Bool() {
				v = -v
			}
			return v
		}
		return lo + int64(r.U64()%uint64(span+1))
	}
	pred := func() int64 {
		switch r.Intn(6) {
		case 0:
			if len(recent) > 0 {
				return recent[r.Intn(len(recent))] + int64(r.Pick(-1, 0, 1))
			}
		case 1:
			return int64(r.Pick(-1, 0, 1))
		case 2:
			return val() + int64(r.Pick(-2000, -1, 1, 2000))
		}
		return val()
	}
	stored, reads := 0, 0
	n := r.Range(8, 30)
	for k := 0; k < n; k++ {
		c := cols[r.Intn(len(cols))]
		switch r.Intn(14) {
		case 0, 1, 2, 3:
			v := val()
			if v >= lo && v <= hi {
				recent = append(recent, v)
				stored++
			}
			ls = append(ls, fmt.Sprintf("pset %d %d", c, v))
		case 4, 5:
			m := r.Range(1, 4)
			var ps []string
			for j := 0; j < m; j++ {
				v := val()
				if r.Chance(9, 10) && (v < lo || v > hi) {
					v = lo
				}
				recent = append(recent, v)
				ps = append(ps, fmt.Sprintf("%d:%d", cols[r.Intn(len(cols))], v))
			}
			clear := 0
			if r.Chance(1, 4) {
				clear = 1
			}
			ls = append(ls, fmt.Sprintf("pimp %d %s", clear, strings.Join(ps, ",")))
			stored += m
		case 6:
			ls = append(ls, fmt.Sprintf("fval %d", c))
		case 7, 8, 9:
			ls = append(ls, fmt.Sprintf("prow %s %d", r.PickS(ops6...), pred()))
			reads++
		case 10:
			ls = append(ls, fmt.Sprintf("pbtw %d %d", pred(), pred()))
			reads++
		case 11, 12:
			ls = append(ls, r.PickS("psum", "pmin", "pmax", "gsum", "gmin", "gmax")+" "+genFilter(r, cols))
			reads++
		case 13:
			ls = append(ls, r.PickS("pnn", "opts"))
		}
	}
	for _, c := range cols {
		ls = append(ls, fmt.Sprintf("fval %d", c))
	}
	ls = append(ls, "opts", "pmin *", "pmax *", "gmin *", "gmax *", "psum *", "gsum *",
		fmt.Sprintf("prow < %d", pred()), fmt.Sprintf("prow > %d", pred()), fmt.Sprintf("prow <= %d", pred()), fmt.Sprintf("prow >= %d", pred()))
	vh.Count("field-random")
	return vh.Case{Lines: ls, Nontrivial: stored >= 2}
}

// Gen: n is a budget of operation lines.
func (p *prop) Gen(r *vh.Rng, tier string, n int) []vh.Case {
	var cases []vh.Case
	lines := 0
	maxD := 4
	if tier == "thorough" {
		maxD = 6
	}
	add := func(c vh.Case) {
		cases = append(cases, c)
		lines += len(c.Lines)
	}
	// sweeps of both kinds for three of the small depths first (the eight worker streams of a run
	// cover every depth between them), then a random mix until the budget is used
	for _, d := range r.Perm(maxD + 1)[:3] {
		add(fragSweep(r.Fork(), d))
		add(fieldSweep(r.Fork(), d))
	}
	for lines < n {
		cr := r.Fork()
		switch cr.Intn(10) {
		case 0:
			add(fragSweep(cr, cr.Range(0, maxD+1)))
		case 1, 2:
			add(fieldSweep(cr, cr.Range(0, maxD+1)))
		case 3, 4, 5:
			add(fragRandom(cr))
		default:
			add(fieldRandom(cr))
		}
	}
	return cases
}

// ---------- execution ----------

type fragState struct {
	f     *pilosa.VerifC14Frag
	dir   string
	depth uint
}

type fieldState struct {
	index   string
	fld     *pilosa.Field
	filters map[string]uint64
	lo, hi  int64
}

func (p *prop) Exec(lines []string) []string {
	outs := make([]string, len(lines))
	var fs *fragState
	var fl *fieldState
	defer func() {
		if fs != nil {
			fs.f.Close()
			os.RemoveAll(fs.dir)
		}
		if fl != nil {
			p.s.API.DeleteIndex(context.Background(), fl.index)
		}
	}()
	i := 0
	for i < len(lines) {
		t0 := time.Now()
		op := ""
		if f := strings.Fields(lines[i]); len(f) > 0 {
			op = f[0]
		}
		// consecutive PQL calls go into one query (one parse), at most 200 per query
		if fl != nil && fl.fld != nil {
			j := i
			var calls []pqlCall
			for j < len(lines) && j-i < 200 {
				// a query fixes its shard list before it runs: never mix writes and reads
				if strings.HasPrefix(lines[j], "pset ") != strings.HasPrefix(lines[i], "pset ") {
					break
				}
				c, ok := p.pqlFor(fl, strings.Fields(lines[j]))
				if !ok {
					break
				}
				calls = append(calls, c)
				j++
			}
			if len(calls) >= 2 {
				if res := p.runBatch(fl, calls); res != nil {
					copy(outs[i:j], res)
					if prof != nil {
						prof["batch:"+op] += time.Since(t0)
					}
					i = j
					continue
				}
			}
		}
		l := lines[i]
		outs[i] = vh.Guard("exec", func() string { return p.execLine(l, &fs, &fl) })
		if prof != nil {
			prof[op] += time.Since(t0)
		}
		i++
	}
	return outs
}

// pqlCall is one PQL call of a batch and the decoder of its result.
type pqlCall struct {
	q      string
	decode func(interface{}) string
}

func decodeRow(r interface{}) string {
	row, ok := r.(*pilosa.Row)
	if !ok {
		return "err:not-a-row"
	}
	cols := row.Columns()
	sort.Slice(cols, func(i, j int) bool { return cols[i] < cols[j] })
	return vh.U64s(cols)
}

// pqlFor translates a field-level line into a PQL call; ok=false for lines that are not PQL calls
// or that may fail (a failing call would abort the whole batch).
func (p *prop) pqlFor(fl *fieldState, ws []string) (pqlCall, bool) {
	if len(ws) == 0 {
		return pqlCall{}, false
	}
	switch {
	case ws[0] == "pset" && len(ws) == 3:
		v, err := strconv.ParseInt(ws[2], 10, 64)
		if err != nil || v < fl.lo || v > fl.hi {
			return pqlCall{}, false
		}
		return pqlCall{fmt.Sprintf("Set(%s, v=%s)", ws[1], ws[2]), func(r interface{}) string {
			b, ok := r.(bool)
			if !ok {
				return "err:not-a-bool"
			}
			return strconv.FormatBool(b)
		}}, true
	case ws[0] == "prow" && len(ws) == 3:
		vh.Count("prow " + ws[1])
		return pqlCall{fmt.Sprintf("Row(v %s %s)", ws[1], ws[2]), decodeRow}, true
	case ws[0] == "pbtw" && len(ws) == 3:
		return pqlCall{fmt.Sprintf("Row(v >< [%s,%s])", ws[1], ws[2]), decodeRow}, true
	case ws[0] == "pnn" && len(ws) == 1:
		return pqlCall{"Row(v != null)", decodeRow}, true
	case (ws[0] == "psum" || ws[0] == "pmin" || ws[0] == "pmax") && len(ws) == 2:
		child := ""
		if ws[1] != "*" {
			c, err := p.filterRow(fl, ws[1])
			if err != nil {
				return pqlCall{}, false
			}
			child = c + ", "
		}
		name := map[string]string{"psum": "Sum", "pmin": "Min", "pmax": "Max"}[ws[0]]
		isSum := ws[0] == "psum"
		return pqlCall{fmt.Sprintf("%s(%sfield=v)", name, child), func(r interface{}) string {
			vc, ok := r.(pilosa.ValCount)
			if !ok {
				return "err:not-a-valcount"
			}
			if isSum {
				return fmt.Sprintf("%d:%d", vc.Val, vc.Count)
			}
			return showExt(vc.Val, vc.Count)
		}}, true
	}
	return pqlCall{}, false
}

// runBatch executes the calls as one query; nil when the query fails (the caller then runs the
// lines one by one).
func (p *prop) runBatch(fl *fieldState, calls []pqlCall) []string {
	qs := make([]string, len(calls))
	for i, c := range calls {
		qs[i] = c.q
	}
	res, err := p.query(fl.index, strings.Join(qs, "\n"))
	if err != nil || len(res) != len(calls) {
		return nil
	}
	vh.Count("pql-batches")
	out := make([]string, len(calls))
	for i, c := range calls {
		c := c
		r := res[i]
		out[i] = vh.Guard("decode", func() string { return c.decode(r) })
	}
	return out
}

var prof map[string]time.Duration

func errClass(err error) string {
	s := err.Error()
	switch {
	case strings.Contains(s, "too low"):
		return "err:too-low"
	case strings.Contains(s, "too high"):
		return "err:too-high"
	}
	return "err:other:" + strings.ReplaceAll(strings.ReplaceAll(s, " ", "_"), "\n", "_")
}

func parsePairs(s string) ([]uint64, []int64) {
	if s == "-" || s == "" {
		return nil, nil
	}
	var cs []uint64
	var vs []int64
	for _, it := range strings.Split(s, ",") {
		cv := strings.Split(it, ":")
		c, _ := strconv.ParseUint(cv[0], 10, 64)
		v, _ := strconv.ParseInt(cv[1], 10, 64)
		cs = append(cs, c)
		vs = append(vs, v)
	}
	return cs, vs
}

func parseFilter(s string) ([]uint64, bool) {
	if s == "*" {
		return nil, false
	}
	return vh.ParseCSV(s), true
}

func showOpt(v int64, ok bool) string {
	if !ok {
		return "null"
	}
	return strconv.FormatInt(v, 10)
}

func showExt(v, c int64) string {
	if c == 0 {
		return "-:0"
	}
	return fmt.Sprintf("%d:%d", v, c)
}

func (p *prop) execLine(l string, fsp **fragState, flp **fieldState) string {
	ws := strings.Fields(l)
	if len(ws) == 0 {
		return "bad-op"
	}
	atoi := func(s string) int64 { v, _ := strconv.ParseInt(s, 10, 64); return v }
	atou := func(s string) uint64 { v, _ := strconv.ParseUint(s, 10, 64); return v }
	switch ws[0] {
	case "frag":
		if len(ws) != 2 {
			return "bad-op"
		}
		if *fsp != nil {
			(*fsp).f.Close()
			os.RemoveAll((*fsp).dir)
			*fsp = nil
		}
		dir, err := os.MkdirTemp("", "verif-c14-")
		if err != nil {
			return "err:tempdir"
		}
		f, err := pilosa.VerifC14OpenFragment(filepath.Join(dir, "0"), 0, 0)
		if err != nil {
			os.RemoveAll(dir)
			return "err:open"
		}
		*fsp = &fragState{f: f, dir: dir, depth: uint(atou(ws[1]))}
		return "ok"
	case "depth", "set", "clr", "imp", "val", "rng", "btw", "nn", "sum", "min", "max":
		fs := *fsp
		if fs == nil {
			return "bad-op"
		}
		return execFrag(fs, ws)
	case "field":
		if len(ws) != 5 {
			return "bad-op"
		}
		if p.s == nil {
			p.s = srv.Start(2)
		}
		ctx := context.Background()
		if *flp != nil {
			p.s.API.DeleteIndex(ctx, (*flp).index)
			*flp = nil
		}
		p.idx++
		index := fmt.Sprintf("i%d", p.idx)
		if _, err := p.s.API.CreateIndex(ctx, index, pilosa.IndexOptions{TrackExistence: p.idx%2 == 0}); err != nil {
			return "err:create-index"
		}
		st := &fieldState{index: index, filters: map[string]uint64{}, lo: atoi(ws[1]), hi: atoi(ws[2])}
		*flp = st
		fld, err := p.s.API.CreateField(ctx, index, "v", pilosa.OptFieldTypeInt(atoi(ws[1]), atoi(ws[2])))
		if err != nil {
			return "err:create-field"
		}
		if _, err := p.s.API.CreateField(ctx, index, "g", pilosa.OptFieldTypeSet("none", 0)); err != nil {
			return "err:create-field-g"
		}
		st.fld = fld
		base, depth := atoi(ws[3]), uint(atou(ws[4]))
		if base != 0 || depth != 1 {
			if err := pilosa.VerifC14ForceBSI(fld, base, depth); err != nil {
				return "err:force"
			}
		}
		return "ok"
	case "pset", "pimp", "fval", "prow", "pbtw", "pnn", "psum", "pmin", "pmax", "gsum", "gmin", "gmax", "opts":
		fl := *flp
		if fl == nil || fl.fld == nil {
			return "bad-op"
		}
		return p.execField(fl, ws)
	}
	return "bad-op"
}

func execFrag(fs *fragState, ws []string) string {
	atoi := func(s string) int64 { v, _ := strconv.ParseInt(s, 10, 64); return v }
	atou := func(s string) uint64 { v, _ := strconv.ParseUint(s, 10, 64); return v }
	switch {
	case ws[0] == "depth" && len(ws) == 2:
		fs.depth = uint(atou(ws[1]))
		return "ok"
	case ws[0] == "set" && len(ws) == 3:
		ch, err := fs.f.SetValue(atou(ws[1]), fs.depth, atoi(ws[2]))
		if err != nil {
			return errClass(err)
		}
		return strconv.FormatBool(ch)
	case ws[0] == "clr" && len(ws) == 3:
		if _, err := fs.f.ClearValue(atou(ws[1]), fs.depth, atoi(ws[2])); err != nil {
			return errClass(err)
		}
		return "ok"
	case ws[0] == "imp" && len(ws) == 4:
		if ws[1] == "large" {
			fs.f.SetMaxOpN(0)
			vh.Count("import-large-path")
		} else {
			fs.f.SetMaxOpN(1 << 40)
			vh.Count("import-small-path")
		}
		cs, vs := parsePairs(ws[3])
		err := fs.f.ImportValue(cs, vs, fs.depth, ws[2] == "1")
		fs.f.SetMaxOpN(10000)
		if err != nil {
			return errClass(err)
		}
		return "ok"
	case ws[0] == "val" && len(ws) == 2:
		v, ok, err := fs.f.Value(atou(ws[1]), fs.depth)
		if err != nil {
			return errClass(err)
		}
		return showOpt(v, ok)
	case ws[0] == "rng" && len(ws) == 3:
		cols, err := fs.f.Range(ws[1], fs.depth, atoi(ws[2]))
		if err != nil {
			return errClass(err)
		}
		return vh.U64s(cols)
	case ws[0] == "btw" && len(ws) == 3:
		cols, err := fs.f.Between(fs.depth, atoi(ws[1]), atoi(ws[2]))
		if err != nil {
			return errClass(err)
		}
		return vh.U64s(cols)
	case ws[0] == "nn":
		cols, err := fs.f.NotNull()
		if err != nil {
			return errClass(err)
		}
		return vh.U64s(cols)
	case (ws[0] == "sum" || ws[0] == "min" || ws[0] == "max") && len(ws) == 2:
		flt, use := parseFilter(ws[1])
		var v int64
		var c uint64
		var err error
		switch ws[0] {
		case "sum":
			v, c, err = fs.f.Sum(flt, use, fs.depth)
		case "min":
			v, c, err = fs.f.Min(flt, use, fs.depth)
		case "max":
			v, c, err = fs.f.Max(flt, use, fs.depth)
		}
		if err != nil {
			return errClass(err)
		}
		return fmt.Sprintf("%d:%d", v, c)
	}
	return "bad-op"
}

func (p *prop) query(index, q string) ([]interface{}, error) { return p.s.Query(index, q, nil) }

// filterRow returns the PQL child selecting the filter columns (loaded into field g on first use).
func (p *prop) filterRow(fl *fieldState, spec string) (string, error) {
	row, ok := fl.filters[spec]
	if !ok {
		row = uint64(len(fl.filters) + 1)
		fl.filters[spec] = row
		cols, _ := parseFilter(spec)
		var sets []string
		for _, c := range cols {
			sets = append(sets, fmt.Sprintf("Set(%d, g=%d)", c, row))
		}
		if len(sets) > 0 {
			if _, err := p.query(fl.index, strings.Join(sets, "\n")); err != nil {
				return "", err
			}
		}
	}
	return fmt.Sprintf("Row(g=%d)", row), nil
}

func (p *prop) execField(fl *fieldState, ws []string) string {
	atou := func(s string) uint64 { v, _ := strconv.ParseUint(s, 10, 64); return v }
	ctx := context.Background()
	switch {
	case ws[0] == "pset" && len(ws) == 3:
		res, err := p.query(fl.index, fmt.Sprintf("Set(%s, v=%s)", ws[1], ws[2]))
		if err != nil {
			return errClass(err)
		}
		return strconv.FormatBool(res[0].(bool))
	case ws[0] == "pimp" && len(ws) == 3:
		cs, vs := parsePairs(ws[2])
		req := &pilosa.ImportValueRequest{Index: fl.index, Field: "v", Shard: 0, ColumnIDs: cs, Values: vs}
		var opts []pilosa.ImportOption
		if ws[1] == "1" {
			opts = append(opts, pilosa.OptImportOptionsClear(true))
		}
		if err := p.s.API.ImportValue(ctx, req, opts...); err != nil {
			return errClass(err)
		}
		return "ok"
	case ws[0] == "fval" && len(ws) == 2:
		v, ok, err := fl.fld.Value(atou(ws[1]))
		if err != nil {
			return errClass(err)
		}
		return showOpt(v, ok)
	case ws[0] == "prow" || ws[0] == "pbtw" || ws[0] == "pnn" || ws[0] == "psum" || ws[0] == "pmin" || ws[0] == "pmax":
		c, ok := p.pqlFor(fl, ws)
		if !ok {
			return "bad-op"
		}
		res, err := p.query(fl.index, c.q)
		if err != nil {
			return errClass(err)
		}
		return c.decode(res[0])
	case (ws[0] == "gsum" || ws[0] == "gmin" || ws[0] == "gmax") && len(ws) == 2:
		var flt *pilosa.Row
		if cols, use := parseFilter(ws[1]); use {
			flt = pilosa.NewRow(cols...)
		}
		var v, c int64
		var err error
		switch ws[0] {
		case "gsum":
			v, c, err = fl.fld.Sum(flt, "v")
		case "gmin":
			v, c, err = fl.fld.Min(flt, "v")
		case "gmax":
			v, c, err = fl.fld.Max(flt, "v")
		}
		if err != nil {
			return errClass(err)
		}
		if ws[0] == "gsum" {
			return fmt.Sprintf("%d:%d", v, c)
		}
		return showExt(v, c)
	case ws[0] == "opts":
		o := fl.fld.Options()
		return fmt.Sprintf("%d %d", o.Base, o.BitDepth)
	}
	return "bad-op"
}

func main() {
	p := &prop{}
	if os.Getenv("VERIF_C14_PROF") != "" {
		prof = map[string]time.Duration{}
		defer func() {
			for k, v := range prof {
				fmt.Fprintf(os.Stderr, "prof %s %v\n", k, v)
			}
		}()
	}
	defer func() {
		if p.s != nil {
			p.s.Stop()
		}
	}()
	vh.Main(p)
}
