// Harness for C07: every shard read reflects all completed writes, whatever the write path.
//
// A case is one history on a real fragment (scratch file, real op log / mmap / snapshots):
// every write path of fragment.go interleaved with every read and with snapshots at random
// positions, over a universe of <= 3 rows x <= 3 columns drawn from container / block edges.
// Line formats: lean/PV/C07/Driver.lean.  The real-code side is cmd/c07/fragx.
package main

import (
	"fmt"
	"strings"

	"verifharness/cmd/c07/fragx"
	"verifharness/vh"
)

type prop struct{ fragx.Engine }

func (p *prop) Rule() string {
	return "histories of 12-40 operations on one fragment (kind set 70% / mutex / bool; cache ranked|lru|none; shard 0|1; " +
		"MaxOpN default or 1..8 so that snapshots fire inside operations; 1 case in 8 with the real background snapshot queue), " +
		"rows drawn from {0,1,2,3,99,100,101} (<=3 per case), columns from container edges {0,1,65535,65536,65537,131071,SW-65536,SW-1} (<=3 per case); " +
		"every write (setbit, clearbit, setrow, clearrow, import set/clear, importvalue small/large set/clear, importroaring set/clear, setvalue, clearvalue, snapshot) " +
		"is followed by 1-3 random reads (row, bit, value, rows, rowscol, bits, blockdata, blocks, stat); a case is non-trivial when it uses >= 3 different write paths"
}

var rowPool = []uint64{0, 1, 2, 3, 99, 100, 101}
var colPool = []uint64{0, 1, 65535, 65536, 65537, 131071, fragx.SW - 65536, fragx.SW - 1}

type universe struct {
	rows, cols []uint64
	kind       string
	queue      bool
	depth      int
}

func pickSome(r *vh.Rng, pool []uint64, n int) []uint64 {
	p := r.Perm(len(pool))
	out := make([]uint64, 0, n)
	for _, i := range p[:n] {
		out = append(out, pool[i])
	}
	return out
}

func (u *universe) row(r *vh.Rng) uint64 {
	if u.kind == "bool" {
		return uint64(r.Intn(2))
	}
	return u.rows[r.Intn(len(u.rows))]
}
func (u *universe) col(r *vh.Rng) uint64 { return u.cols[r.Intn(len(u.cols))] }

func (u *universe) pairs(r *vh.Rng, max int) string {
	n := r.Range(0, max)
	if n == 0 {
		return "-"
	}
	ss := make([]string, n)
	for i := range ss {
		ss[i] = fmt.Sprintf("%d:%d", u.row(r), u.col(r))
	}
	return strings.Join(ss, ",")
}

func (u *universe) cvs(r *vh.Rng, max int) string {
	n := r.Range(0, max)
	if n == 0 {
		return "-"
	}
	ss := make([]string, n)
	lim := 1<<uint(u.depth) - 1
	for i := range ss {
		v := r.Range(-lim, lim)
		if r.Chance(1, 10) {
			v = r.Range(-2*lim-1, 2*lim+1) // does not fit in depth bits: truncated identically by every path
		}
		ss[i] = fmt.Sprintf("%d:%d", u.col(r), v)
	}
	return strings.Join(ss, ",")
}

func (u *universe) subset(r *vh.Rng) string {
	var cs []uint64
	for _, c := range u.cols {
		if r.Bool() {
			cs = append(cs, c)
		}
	}
	return vh.CSV(vh.SortedU64(cs))
}

// write returns one write line and the name of its path.
func (u *universe) write(r *vh.Rng) (string, string) {
	if u.kind != "set" {
		switch r.Intn(7) {
		case 0, 1:
			return fmt.Sprintf("setbit a %d %d", u.row(r), u.col(r)), "setbit"
		case 2:
			return fmt.Sprintf("clearbit a %d %d", u.row(r), u.col(r)), "clearbit"
		case 3, 4:
			return "import a 0 " + u.pairs(r, 5), "import-mutex"
		case 5:
			return "import a 1 " + u.pairs(r, 4), "import-clear"
		default:
			if r.Bool() {
				return "snapshot a", "snapshot"
			}
			return fmt.Sprintf("clearrow a %d", u.row(r)), "clearrow"
		}
	}
	switch r.Intn(14) {
	case 0:
		return fmt.Sprintf("setbit a %d %d", u.row(r), u.col(r)), "setbit"
	case 1:
		return fmt.Sprintf("clearbit a %d %d", u.row(r), u.col(r)), "clearbit"
	case 2:
		return fmt.Sprintf("setrow a %d %s", u.row(r), u.subset(r)), "setrow"
	case 3:
		return fmt.Sprintf("clearrow a %d", u.row(r)), "clearrow"
	case 4:
		return "import a 0 " + u.pairs(r, 5), "import-set"
	case 5:
		return "import a 1 " + u.pairs(r, 5), "import-clear"
	case 6:
		return fmt.Sprintf("importvalue a 0 %d %s", u.depth, u.cvs(r, 4)), "importvalue"
	case 7:
		return fmt.Sprintf("importvalue a 1 %d %s", u.depth, u.cvs(r, 3)), "importvalue-clear"
	case 8:
		return "importroaring a 0 " + u.pairs(r, 5), "importroaring-set"
	case 9:
		return "importroaring a 1 " + u.pairs(r, 5), "importroaring-clear"
	case 10:
		lim := 1<<uint(u.depth) - 1
		return fmt.Sprintf("setvalue a %d %d %d", u.col(r), u.depth, r.Range(-lim, lim)), "setvalue"
	case 11:
		lim := 1<<uint(u.depth) - 1
		return fmt.Sprintf("clearvalue a %d %d %d", u.col(r), u.depth, r.Range(-lim, lim)), "clearvalue"
	default:
		return "snapshot a", "snapshot"
	}
}

func (u *universe) read(r *vh.Rng) string {
	n := 10
	if u.queue {
		n = 9 // stat (opN / snapshot count) depends on background timing: not compared
	}
	switch r.Intn(n) {
	case 0, 1:
		row := u.row(r)
		if r.Chance(1, 3) {
			row = uint64(r.Intn(u.depth + 2)) // BSI rows
		}
		return fmt.Sprintf("row a %d", row)
	case 2:
		return fmt.Sprintf("bit a %d %d", u.row(r), u.col(r))
	case 3:
		return fmt.Sprintf("value a %d %d", u.col(r), u.depth)
	case 4:
		return "rows a"
	case 5:
		if u.kind != "set" && r.Bool() {
			return fmt.Sprintf("mget a %d", u.col(r))
		}
		return fmt.Sprintf("rowscol a %d", u.col(r))
	case 6:
		return "bits a"
	case 7:
		return fmt.Sprintf("blockdata a %d", r.Intn(2))
	case 8:
		return "blocks a"
	default:
		return "stat a"
	}
}

func (p *prop) Gen(r *vh.Rng, tier string, n int) []vh.Case {
	var cases []vh.Case
	for k := 0; k < n; k++ {
		cr := r.Fork()
		u := &universe{
			rows:  pickSome(cr, rowPool, cr.Range(1, 3)),
			cols:  pickSome(cr, colPool, cr.Range(1, 3)),
			kind:  "set",
			depth: cr.Range(1, 3),
		}
		switch cr.Intn(10) {
		case 0, 1:
			u.kind = "mutex"
		case 2:
			u.kind = "bool"
		}
		u.queue = cr.Chance(1, 8)
		maxOpN := cr.Pick(0, 0, 1, 2, 3, 5, 8, 20)
		q := 0
		if u.queue {
			q = 1
		}
		lines := []string{fmt.Sprintf("open a %s %d %s %d %d", u.kind, cr.Pick(0, 0, 1), cr.PickS("ranked", "lru", "none"), maxOpN, q)}
		paths := map[string]bool{}
		steps := cr.Range(6, 14)
		if tier == "thorough" {
			steps = cr.Range(6, 24)
		}
		for i := 0; i < steps; i++ {
			w, path := u.write(cr)
			paths[path] = true
			lines = append(lines, w)
			for j := cr.Range(1, 3); j > 0; j-- {
				lines = append(lines, u.read(cr))
			}
		}
		// final full comparison
		lines = append(lines, "bits a", "rows a", "blocks a")
		for _, row := range u.rows {
			lines = append(lines, fmt.Sprintf("row a %d", row))
		}
		for _, c := range u.cols {
			lines = append(lines, fmt.Sprintf("value a %d %d", c, u.depth))
		}
		cases = append(cases, vh.Case{Lines: lines, Nontrivial: len(paths) >= 3})
	}
	return cases
}

func main() { vh.Main(&prop{}) }
