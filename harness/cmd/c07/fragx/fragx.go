// Package fragx is the real-code side shared by the C07, C10 and C13 harnesses: it executes the
// line protocol documented in lean/PV/C07/Driver.lean against real pilosa fragments opened on
// scratch files (through the verif hooks in verif_c07.go) and prints canonical answers.
package fragx

import (
	"bytes"
	"context"
	"encoding/hex"
	"fmt"
	"os"
	"path/filepath"
	"sort"
	"strconv"
	"strings"

	"github.com/pilosa/pilosa"
	"github.com/pilosa/pilosa/roaring"
	"verifharness/vh"
	"verifharness/vh/srv"
)

const SW = pilosa.ShardWidth
const HBS = pilosa.HashBlockSize

type slot struct {
	f   *pilosa.VerifC07Fragment
	fld *pilosa.Field
	// field owned by a real Holder (hdir = its data dir) or by an in-process server: the fragment
	// is whatever the holder opened (view.openFragments after a reopen) and is never created
	// through the hook.
	holder *pilosa.Holder
	hdir   string
	server *srv.Server
	own    bool // fragment opened by us (not owned by a Field)
	shard  uint64
	kind   string
	// every content each block has had at an operation boundary of this case: hex(hash) -> "[p p ..]"
	hist map[int]map[string]string
}

// Engine runs one case at a time.
type Engine struct {
	slots map[string]*slot
	dir   string
	n     int
}

func (e *Engine) reset() {
	for _, s := range e.slots {
		s.close()
	}
	e.slots = map[string]*slot{}
	if e.dir != "" {
		os.RemoveAll(e.dir)
		e.dir = ""
	}
}

func (s *slot) close() {
	if s.server != nil {
		s.server.Stop()
		return
	}
	if s.holder != nil {
		s.holder.Close()
		return
	}
	if s.fld != nil {
		s.fld.Close()
	} else if s.f != nil && s.own {
		s.f.Close()
	}
}

func scratchRoot() string {
	if d := os.Getenv("VERIF_SCRATCH"); d != "" {
		return d
	}
	if fi, err := os.Stat("/dev/shm"); err == nil && fi.IsDir() {
		return "/dev/shm"
	}
	return ""
}

func (e *Engine) tmp() string {
	if e.dir == "" {
		// Scratch files are real files (open, append, flock, mmap, rename) but nothing here depends
		// on the medium: prefer tmpfs so that a loaded disk does not dominate the run time; fall
		// back to TMPDIR (inside /verif/.work). The directory is removed at the end of every case.
		d, err := os.MkdirTemp(scratchRoot(), "c07-")
		if err != nil {
			d, err = os.MkdirTemp("", "c07-")
		}
		if err != nil {
			panic(err)
		}
		e.dir = d
	}
	e.n++
	return filepath.Join(e.dir, "f"+strconv.Itoa(e.n))
}

// Exec implements vh.Prop.Exec for all three properties.
func (e *Engine) Exec(lines []string) []string {
	e.reset()
	defer e.reset()
	outs := make([]string, len(lines))
	for i, l := range lines {
		l := l
		outs[i] = vh.Guard("exec", func() string { return e.line(l) })
	}
	return outs
}

func u(s string) uint64 {
	v, err := strconv.ParseUint(s, 10, 64)
	if err != nil {
		panic("bad number " + s)
	}
	return v
}

func isNum(s string) bool {
	_, err := strconv.ParseUint(s, 10, 64)
	return err == nil
}

func parsePairs(s string) (rows, cols []uint64, ok bool) {
	if s == "-" || s == "" {
		return nil, nil, true
	}
	for _, p := range strings.Split(s, ",") {
		rc := strings.Split(p, ":")
		if len(rc) != 2 || !isNum(rc[0]) || !isNum(rc[1]) {
			return nil, nil, false
		}
		rows = append(rows, u(rc[0]))
		cols = append(cols, u(rc[1]))
	}
	return rows, cols, true
}

func parseCVs(s string) (cols []uint64, vals []int64, ok bool) {
	if s == "-" || s == "" {
		return nil, nil, true
	}
	for _, p := range strings.Split(s, ",") {
		cv := strings.Split(p, ":")
		if len(cv) != 2 || !isNum(cv[0]) {
			return nil, nil, false
		}
		v, err := strconv.ParseInt(cv[1], 10, 64)
		if err != nil {
			return nil, nil, false
		}
		cols = append(cols, u(cv[0]))
		vals = append(vals, v)
	}
	return cols, vals, true
}

func showErr(err error) string {
	msg := err.Error()
	switch {
	case strings.Contains(msg, "multiple row values"), strings.Contains(msg, "non-boolean"):
		return "err:mutex"
	case strings.Contains(msg, "bool field imports only support"):
		return "err:boolrow"
	case strings.Contains(msg, "out of bounds"):
		return "err:bounds"
	}
	return "err:other"
}

func showChanged(ch bool, err error) string {
	if err != nil {
		return showErr(err)
	}
	return strconv.FormatBool(ch)
}

func showOK(err error) string {
	if err != nil {
		return showErr(err)
	}
	return "ok"
}

func showPairs(rows, cols []uint64) string {
	ss := make([]string, len(rows))
	for i := range rows {
		ss[i] = fmt.Sprintf("%d:%d", rows[i], cols[i])
	}
	return strings.Join(ss, " ")
}

func (s *slot) abs(cols []uint64) []uint64 {
	out := make([]uint64, len(cols))
	for i, c := range cols {
		out[i] = s.shard*SW + c
	}
	return out
}

func (s *slot) rel(cols []uint64) []uint64 {
	out := make([]uint64, len(cols))
	for i, c := range cols {
		out[i] = c - s.shard*SW
	}
	return out
}

func showPositions(ps []uint64) string { return vh.U64s(ps) }

// record remembers the current content of every block (by hash) so that a checksum reported by
// Blocks() can be printed as the content it is the hash of.
func (s *slot) record() {
	byBlock := map[int][]uint64{}
	_ = s.f.ForEachBit(func(row, col uint64) error {
		b := int(row / HBS)
		byBlock[b] = append(byBlock[b], row*SW+col%SW)
		return nil
	})
	for b, ps := range byBlock {
		if s.hist[b] == nil {
			s.hist[b] = map[string]string{}
		}
		s.hist[b][hex.EncodeToString(pilosa.VerifC10HashPositions(ps))] = showPositions(ps)
	}
}

func (s *slot) blocks() ([]pilosa.FragmentBlock, string) {
	s.record()
	bl := s.f.Blocks()
	ss := make([]string, len(bl))
	for i, b := range bl {
		content, ok := s.hist[b.ID][hex.EncodeToString(b.Checksum)]
		if !ok {
			content = "?"
		}
		ss[i] = fmt.Sprintf("%d=%s", b.ID, content)
	}
	return bl, strings.Join(ss, " ")
}

func roaringData(rows, cols []uint64) []byte {
	b := roaring.NewBitmap()
	for i := range rows {
		_, _ = b.Add(rows[i]*SW + cols[i]%SW)
	}
	var buf bytes.Buffer
	if _, err := b.WriteTo(&buf); err != nil {
		panic(err)
	}
	return buf.Bytes()
}

func fieldOption(kind string) (pilosa.FieldOption, bool) {
	switch kind {
	case "mutex":
		return pilosa.OptFieldTypeMutex(pilosa.CacheTypeRanked, 1000), true
	case "bool":
		return pilosa.OptFieldTypeBool(), true
	case "set":
		return pilosa.OptFieldTypeSet(pilosa.CacheTypeRanked, 1000), true
	}
	return nil, false
}

func openHolder(dir string) (*pilosa.Holder, error) {
	h := pilosa.NewHolder()
	h.Path = dir
	if err := h.Open(); err != nil {
		return nil, err
	}
	return h, nil
}

// owned reports whether the slot's fragment belongs to a holder / server.
func (s *slot) owned() bool { return s.holder != nil || s.server != nil }

// resolve looks the field and its standard-view fragment up again (after a reopen they are new
// objects; before the first write the fragment does not exist).
func (s *slot) resolve() {
	if !s.owned() {
		return
	}
	h := s.holder
	if s.server != nil {
		h = s.server.Server.Holder()
	}
	s.fld = h.Field("i", "f")
	s.f = nil
	if s.fld != nil {
		s.f = pilosa.VerifC07FieldFragment(s.fld, 0)
	}
}

// reopen closes and reopens whatever owns the fragment.
func (s *slot) reopen() error {
	switch {
	case s.server != nil:
		dir := s.server.Dir
		if err := s.server.Command.Close(); err != nil {
			return err
		}
		s.server = srv.StartAt(dir, 1)
	case s.holder != nil:
		if err := s.holder.Close(); err != nil {
			return err
		}
		h, err := openHolder(s.hdir)
		if err != nil {
			return err
		}
		s.holder = h
	case s.fld != nil:
		if err := s.fld.Close(); err != nil {
			return err
		}
		if err := s.fld.Open(); err != nil {
			return err
		}
		s.f = pilosa.VerifC07FieldFragment(s.fld, 0)
		if s.f == nil {
			f, err := pilosa.VerifC07FieldStandardFragment(s.fld, 0)
			if err != nil {
				return err
			}
			s.f = f
		}
	default:
		return s.f.Reopen()
	}
	s.resolve()
	return nil
}

func pqlRow(kind string, row uint64) string {
	if kind == "bool" {
		if row == 1 {
			return "true"
		}
		return "false"
	}
	return strconv.FormatUint(row, 10)
}

func (s *slot) pqlBool(q string) string {
	res, err := s.server.Query("i", q, nil)
	if err != nil {
		return showErr(err)
	}
	b, ok := res[0].(bool)
	if !ok {
		return "err:other"
	}
	return strconv.FormatBool(b)
}

// emptyRead is the answer of a read on a field that has no fragment yet.
func emptyRead(op string) (string, bool) {
	switch op {
	case "row", "rows", "rowscol":
		return "[]", true
	case "bit", "clearrow", "fclearrow":
		return "false", true
	case "bits", "blockdata", "blocks":
		return "", true
	case "mget":
		return "none", true
	case "value":
		return "0 false", true
	}
	return "", false
}

func (e *Engine) line(l string) string {
	ws := strings.Fields(l)
	if len(ws) == 0 {
		return "bad-op"
	}
	switch ws[0] {
	case "cmpblocks":
		if len(ws) != 1 {
			return "bad-op"
		}
		a, b := e.slots["a"], e.slots["b"]
		if a == nil || b == nil {
			return "err:closed"
		}
		ba, _ := a.blocks()
		bb, _ := b.blocks()
		ma, mb := map[int][]byte{}, map[int][]byte{}
		ids := map[int]bool{}
		for _, x := range ba {
			ma[x.ID] = x.Checksum
			ids[x.ID] = true
		}
		for _, x := range bb {
			mb[x.ID] = x.Checksum
			ids[x.ID] = true
		}
		var sorted []int
		for id := range ids {
			sorted = append(sorted, id)
		}
		sort.Ints(sorted)
		ss := make([]string, len(sorted))
		for i, id := range sorted {
			eq := ma[id] != nil && mb[id] != nil && bytes.Equal(ma[id], mb[id])
			if eq {
				ss[i] = fmt.Sprintf("%d:eq", id)
			} else {
				ss[i] = fmt.Sprintf("%d:ne", id)
			}
		}
		return strings.Join(ss, " ")
	case "open":
		if len(ws) != 7 || (ws[1] != "a" && ws[1] != "b") || !isNum(ws[3]) || !isNum(ws[5]) {
			return "bad-op"
		}
		if ws[2] != "set" && ws[2] != "mutex" && ws[2] != "bool" {
			return "bad-op"
		}
		if old := e.slots[ws[1]]; old != nil {
			old.close()
		}
		f, err := pilosa.VerifC07OpenFragment(e.tmp(), u(ws[3]), ws[4], ws[2], int(u(ws[5])), ws[6] == "1")
		if err != nil {
			return "err:open"
		}
		e.slots[ws[1]] = &slot{f: f, own: true, shard: u(ws[3]), kind: ws[2], hist: map[int]map[string]string{}}
		vh.Count("open-" + ws[2])
		if ws[6] == "1" {
			vh.Count("open-queue")
		}
		return "ok"
	case "openfield":
		if len(ws) != 3 || (ws[1] != "a" && ws[1] != "b") {
			return "bad-op"
		}
		var opt pilosa.FieldOption
		switch ws[2] {
		case "mutex":
			opt = pilosa.OptFieldTypeMutex(pilosa.CacheTypeRanked, 1000)
		case "bool":
			opt = pilosa.OptFieldTypeBool()
		case "set":
			opt = pilosa.OptFieldTypeSet(pilosa.CacheTypeRanked, 1000)
		default:
			return "bad-op"
		}
		if old := e.slots[ws[1]]; old != nil {
			old.close()
		}
		fld, err := pilosa.NewField(e.tmp(), "i", "f", opt)
		if err != nil {
			return "err:open"
		}
		if err := fld.Open(); err != nil {
			return "err:open"
		}
		f, err := pilosa.VerifC07FieldStandardFragment(fld, 0)
		if err != nil {
			return "err:open"
		}
		e.slots[ws[1]] = &slot{f: f, fld: fld, shard: 0, kind: ws[2], hist: map[int]map[string]string{}}
		vh.Count("openfield-" + ws[2])
		return "ok"
	}
	if (ws[0] == "openholder" || ws[0] == "openserver") && len(ws) == 3 && (ws[1] == "a" || ws[1] == "b") {
		opt, ok := fieldOption(ws[2])
		if !ok {
			return "bad-op"
		}
		if old := e.slots[ws[1]]; old != nil {
			old.close()
		}
		sl := &slot{shard: 0, kind: ws[2], hist: map[int]map[string]string{}}
		var h *pilosa.Holder
		if ws[0] == "openholder" {
			sl.hdir = e.tmp()
			var err error
			if h, err = openHolder(sl.hdir); err != nil {
				return "err:open"
			}
			sl.holder = h
		} else {
			dir := e.tmp()
			if err := os.MkdirAll(dir, 0o755); err != nil {
				return "err:open"
			}
			sl.server = srv.StartAt(dir, 1)
			h = sl.server.Server.Holder()
		}
		e.slots[ws[1]] = sl
		idx, err := h.CreateIndex("i", pilosa.IndexOptions{})
		if err != nil {
			return "err:open"
		}
		if _, err := idx.CreateField("f", opt); err != nil {
			return "err:open"
		}
		sl.resolve()
		vh.Count(ws[0] + "-" + ws[2])
		return "ok"
	}
	if len(ws) < 2 || (ws[1] != "a" && ws[1] != "b") {
		return "bad-op"
	}
	s := e.slots[ws[1]]
	if s == nil {
		// the model answers bad-op for unknown operations before looking at the slot only when the
		// fragment id is wrong; an unopened slot is err:closed.
		return "err:closed"
	}
	op, a := ws[0], ws[2:]
	if op == "reopen" && len(a) == 0 {
		vh.Count("reopen")
		return showOK(s.reopen())
	}
	if s.owned() {
		s.resolve()
		if s.fld == nil {
			return "err:nofield"
		}
		if s.f == nil {
			if out, ok := emptyRead(op); ok {
				return out
			}
			switch op {
			case "fset", "fclear", "fimport":
			default:
				return "err:nofrag"
			}
		}
	}
	nums := func(n int) bool {
		if len(a) != n {
			return false
		}
		for _, x := range a {
			if !isNum(x) {
				return false
			}
		}
		return true
	}
	out := "bad-op"
	write := false
	switch op {
	case "stat":
		if len(a) == 0 {
			opn, snaps := s.f.OpN()
			out = fmt.Sprintf("%d %d", opn, snaps)
		}
	case "setbit":
		if nums(2) {
			out, write = showChanged(s.f.SetBit(u(a[0]), s.shard*SW+u(a[1]))), true
		}
	case "clearbit":
		if nums(2) {
			out, write = showChanged(s.f.ClearBit(u(a[0]), s.shard*SW+u(a[1]))), true
		}
	case "setrow":
		if len(a) == 2 && isNum(a[0]) {
			out, write = showChanged(s.f.SetRow(u(a[0]), s.abs(vh.ParseCSV(a[1])))), true
		}
	case "clearrow":
		if nums(1) {
			out, write = showChanged(s.f.ClearRow(u(a[0]))), true
		}
	case "import":
		if len(a) == 2 && (a[0] == "0" || a[0] == "1") {
			if rows, cols, ok := parsePairs(a[1]); ok {
				out, write = showOK(s.f.BulkImport(rows, s.abs(cols), a[0] == "1")), true
			}
		}
	case "importvalue":
		if len(a) == 3 && (a[0] == "0" || a[0] == "1") && isNum(a[1]) {
			if cols, vals, ok := parseCVs(a[2]); ok {
				out, write = showOK(s.f.ImportValue(s.abs(cols), vals, uint(u(a[1])), a[0] == "1")), true
			}
		}
	case "importroaring":
		if len(a) == 2 && (a[0] == "0" || a[0] == "1") {
			if rows, cols, ok := parsePairs(a[1]); ok {
				out, write = showOK(s.f.ImportRoaring(roaringData(rows, cols), a[0] == "1")), true
			}
		}
	case "setvalue", "clearvalue":
		if len(a) == 3 && isNum(a[0]) && isNum(a[1]) {
			if v, err := strconv.ParseInt(a[2], 10, 64); err == nil {
				if op == "setvalue" {
					out = showChanged(s.f.SetValue(s.shard*SW+u(a[0]), uint(u(a[1])), v))
				} else {
					out = showChanged(s.f.ClearValue(s.shard*SW+u(a[0]), uint(u(a[1])), v))
				}
				write = true
			}
		}
	case "snapshot":
		if len(a) == 0 {
			out, write = showOK(s.f.Snapshot()), true
		}
	case "invalidate":
		if len(a) == 0 {
			s.f.InvalidateChecksums()
			out = "ok"
		}
	case "row":
		if nums(1) {
			out = vh.U64s(s.rel(s.f.Row(u(a[0]))))
		}
	case "bit":
		if nums(2) {
			b, err := s.f.Bit(u(a[0]), s.shard*SW+u(a[1]))
			out = showChanged(b, err)
		}
	case "value":
		if nums(2) {
			v, ex, err := s.f.Value(s.shard*SW+u(a[0]), uint(u(a[1])))
			if err != nil {
				out = showErr(err)
			} else {
				out = fmt.Sprintf("%d %t", v, ex)
			}
		}
	case "rows":
		if len(a) == 0 {
			out = vh.U64s(s.f.Rows(0))
		}
	case "rowscol":
		if nums(1) {
			out = vh.U64s(s.f.RowsForColumn(s.shard*SW + u(a[0])))
		}
	case "bits":
		if len(a) == 0 {
			var rows, cols []uint64
			_ = s.f.ForEachBit(func(r, c uint64) error {
				rows = append(rows, r)
				cols = append(cols, c-s.shard*SW)
				return nil
			})
			out = showPairs(rows, cols)
		}
	case "blockdata":
		if nums(1) {
			rows, cols := s.f.BlockData(int(u(a[0])))
			out = showPairs(rows, cols)
		}
	case "blocks":
		if len(a) == 0 {
			_, out = s.blocks()
		}
	case "mget":
		if nums(1) {
			row, found, err, ok := s.f.MutexGet(s.shard*SW + u(a[0]))
			switch {
			case !ok:
				// no vector on a set fragment: the model's rowsVector semantics do not apply
				out = "err:novector"
			case err != nil:
				out = showErr(err)
			case !found:
				out = "none"
			default:
				out = strconv.FormatUint(row, 10)
			}
		}
	case "fset", "fclear", "frow", "fimport", "fclearrow":
		if s.fld == nil {
			return "err:nofield"
		}
		switch op {
		case "fset":
			if nums(2) {
				if s.server != nil {
					out, write = s.pqlBool(fmt.Sprintf("Set(%d, f=%s)", u(a[1]), pqlRow(s.kind, u(a[0])))), true
				} else {
					out, write = showChanged(s.fld.SetBit(u(a[0]), u(a[1]), nil)), true
				}
			}
		case "fclear":
			if nums(2) {
				if s.server != nil {
					out, write = s.pqlBool(fmt.Sprintf("Clear(%d, f=%s)", u(a[1]), pqlRow(s.kind, u(a[0])))), true
				} else {
					out, write = showChanged(s.fld.ClearBit(u(a[0]), u(a[1]))), true
				}
			}
		case "fclearrow":
			if nums(1) {
				if s.server != nil {
					out, write = s.pqlBool(fmt.Sprintf("ClearRow(f=%s)", pqlRow(s.kind, u(a[0])))), true
				} else {
					out, write = showChanged(s.f.ClearRow(u(a[0]))), true
				}
			}
		case "frow":
			if nums(1) {
				r, err := s.fld.Row(u(a[0]))
				if err != nil {
					out = showErr(err)
				} else {
					out = vh.U64s(r.Columns())
				}
			}
		case "fimport":
			if len(a) == 2 && (a[0] == "0" || a[0] == "1") {
				if rows, cols, ok := parsePairs(a[1]); ok {
					var opts []pilosa.ImportOption
					if a[0] == "1" {
						opts = append(opts, pilosa.OptImportOptionsClear(true))
					}
					if s.server != nil {
						out = showOK(s.server.API.Import(context.Background(), &pilosa.ImportRequest{
							Index: "i", Field: "f", Shard: 0, RowIDs: rows, ColumnIDs: cols}, opts...))
					} else {
						out = showOK(s.fld.Import(rows, cols, nil, opts...))
					}
					write = true
				}
			}
		}
	}
	if write {
		if s.owned() {
			s.resolve()
		}
		if s.f != nil {
			s.record()
		}
	}
	return out
}
