// Harness for C27: internal messages and responses survive encoding unchanged.
//
//	rt  <Type> <tree>   build the pilosa value from the tree, proto.Serializer.Marshal, Unmarshal into a
//	                    fresh value, print the tree of the result (or err:decode / panic:decode)
//	bc  <Type> <tree>   the same through the broadcast framing (type byte of getMessageType, getMessage on receipt)
//	dec <Type> <tree>   build the protobuf-side message (internal.*) from the tree, gogo-marshal it,
//	                    proto.Serializer.Unmarshal into a fresh pilosa value, print its tree
//
// Trees mirror the Lean structures generated from the Go struct definitions (lean/PV/C27/GenTypes.lean):
// a struct is the node of its exported fields in declaration order.
package main

import (
	"encoding/hex"
	"errors"
	"fmt"
	"math"
	"reflect"
	"sort"
	"strconv"
	"strings"

	gproto "github.com/gogo/protobuf/proto"
	"github.com/pilosa/pilosa"
	"github.com/pilosa/pilosa/encoding/proto"
	"github.com/pilosa/pilosa/roaring"
	"verifharness/vh"
)

type prop struct{}

func (p *prop) Rule() string {
	return "rt: a random value of one of the 28 message types of Serializer.Marshal built by reflection over the struct definitions " +
		"(strings from a pool with empty/ASCII/multi-byte/control characters, integers from {0,1,small,max of the type}, lists of length 0-3, " +
		"optional pointers nil or set, every query result kind incl. nil rows and empty pair lists, attribute maps with every value kind, " +
		"FieldRow with key/id/both, index options set or default); dec: a random value of the protobuf-side message type with sub-messages " +
		"missing, unknown Type numbers and empty lists, sent through the wire codec. Non-trivial = the value has at least one non-default " +
		"field below the top level or a result/attr/list with >= 1 element"
}

// ---------- trees ----------

type tree struct {
	atom string
	kids []*tree
	leaf bool
}

func atom(s string) *tree   { return &tree{atom: s, leaf: true} }
func node(k ...*tree) *tree { return &tree{kids: k} }

func (t *tree) String() string {
	if t.leaf {
		return t.atom
	}
	parts := make([]string, len(t.kids))
	for i, k := range t.kids {
		parts[i] = k.String()
	}
	return "(" + strings.Join(parts, " ") + ")"
}

// tokens: "(" and ")" as separate tokens
func (t *tree) tokens() string {
	if t.leaf {
		return t.atom
	}
	parts := []string{"("}
	for _, k := range t.kids {
		parts = append(parts, k.tokens())
	}
	parts = append(parts, ")")
	return strings.Join(parts, " ")
}

func parseTree(toks []string) *tree {
	var stack []*tree
	for i, t := range toks {
		switch t {
		case "(":
			stack = append(stack, node())
		case ")":
			if len(stack) == 0 {
				panic("unbalanced tree")
			}
			top := stack[len(stack)-1]
			stack = stack[:len(stack)-1]
			if len(stack) == 0 {
				if i != len(toks)-1 {
					panic("trailing tokens")
				}
				return top
			}
			p := stack[len(stack)-1]
			p.kids = append(p.kids, top)
		default:
			if len(stack) == 0 {
				return atom(t)
			}
			p := stack[len(stack)-1]
			p.kids = append(p.kids, atom(t))
		}
	}
	panic("unterminated tree")
}

func strAtom(s string) *tree { return atom("s" + hex.EncodeToString([]byte(s))) }
func atomStr(t *tree) string {
	if !t.leaf || !strings.HasPrefix(t.atom, "s") {
		panic("not a string atom: " + t.String())
	}
	b, err := hex.DecodeString(t.atom[1:])
	if err != nil {
		panic(err)
	}
	return string(b)
}
func boolAtom(b bool) *tree {
	if b {
		return atom("T")
	}
	return atom("F")
}

// pilosa-side pointer types that are optional in the model (their encoder accepts nil)
var optionalP = map[string]bool{"FieldOptions": true, "Row": true}

var (
	rowType    = reflect.TypeOf(pilosa.Row{})
	bitmapType = reflect.TypeOf(roaring.Bitmap{})
	errorType  = reflect.TypeOf((*error)(nil)).Elem()
)

func isInternal(t reflect.Type) bool { return strings.HasSuffix(t.PkgPath(), "/internal") }

// ---------- value -> tree ----------

func attrValTree(v interface{}) *tree {
	switch x := v.(type) {
	case string:
		return node(atom("str"), strAtom(x))
	case int64:
		return node(atom("int"), atom(strconv.FormatInt(x, 10)))
	case uint64:
		return node(atom("uint"), atom(strconv.FormatUint(x, 10)))
	case bool:
		return node(atom("bool"), boolAtom(x))
	case float64:
		return node(atom("float"), atom("f"+strconv.FormatUint(math.Float64bits(x), 10)))
	case nil:
		return node(atom("null"))
	}
	return node(atom("?" + fmt.Sprintf("%T", v)))
}

func attrsTree(m map[string]interface{}) *tree {
	keys := make([]string, 0, len(m))
	for k := range m {
		keys = append(keys, k)
	}
	sort.Strings(keys)
	n := node()
	for _, k := range keys {
		n.kids = append(n.kids, node(strAtom(k), attrValTree(m[k])))
	}
	return n
}

func u64sTree(xs []uint64) *tree {
	n := node()
	for _, x := range xs {
		n.kids = append(n.kids, atom(strconv.FormatUint(x, 10)))
	}
	return n
}

func rowTree(r *pilosa.Row) *tree {
	keys := node()
	for _, k := range r.Keys {
		keys.kids = append(keys.kids, strAtom(k))
	}
	return node(u64sTree(r.Columns()), keys, attrsTree(r.Attrs))
}

func resultTree(v interface{}) *tree {
	switch x := v.(type) {
	case *pilosa.Row:
		if x == nil {
			return node(atom("row"), node())
		}
		return node(atom("row"), node(rowTree(x)))
	case []pilosa.Pair:
		return node(atom("pairs"), toTree(reflect.ValueOf(x)))
	case pilosa.ValCount:
		return node(atom("valCount"), toTree(reflect.ValueOf(x)))
	case uint64:
		return node(atom("uint64"), atom(strconv.FormatUint(x, 10)))
	case bool:
		return node(atom("bool"), boolAtom(x))
	case pilosa.RowIDs:
		return node(atom("rowIDs"), u64sTree(x))
	case []pilosa.GroupCount:
		return node(atom("groupCounts"), toTree(reflect.ValueOf(x)))
	case pilosa.RowIdentifiers:
		return node(atom("rowIdentifiers"), toTree(reflect.ValueOf(x)))
	case *pilosa.RowIdentifiers:
		if x == nil {
			return node(atom("?nilRowIdentifiers"))
		}
		return node(atom("rowIdentifiersPtr"), toTree(reflect.ValueOf(*x)))
	case pilosa.Pair:
		return node(atom("pair"), toTree(reflect.ValueOf(x)))
	case nil:
		return node(atom("nil"))
	}
	return node(atom("?" + fmt.Sprintf("%T", v)))
}

func toTree(v reflect.Value) *tree {
	t := v.Type()
	switch t.Kind() {
	case reflect.String:
		return strAtom(v.String())
	case reflect.Bool:
		return boolAtom(v.Bool())
	case reflect.Uint, reflect.Uint16, reflect.Uint32, reflect.Uint64:
		return atom(strconv.FormatUint(v.Uint(), 10))
	case reflect.Int, reflect.Int64, reflect.Int32:
		return atom(strconv.FormatInt(v.Int(), 10))
	case reflect.Float64:
		return atom("f" + strconv.FormatUint(math.Float64bits(v.Float()), 10))
	case reflect.Interface:
		if t == errorType {
			if v.IsNil() {
				return node()
			}
			return node(strAtom(v.Interface().(error).Error()))
		}
		if v.IsNil() {
			return resultTree(nil)
		}
		return resultTree(v.Interface())
	case reflect.Slice:
		if t.Elem().Kind() == reflect.Uint8 {
			return atom("x" + hex.EncodeToString(v.Bytes()))
		}
		n := node()
		for i := 0; i < v.Len(); i++ {
			el := v.Index(i)
			if el.Kind() == reflect.Ptr {
				if el.IsNil() {
					n.kids = append(n.kids, atom("?nil"))
					continue
				}
				el = el.Elem()
			}
			n.kids = append(n.kids, toTree(el))
		}
		return n
	case reflect.Map:
		if t.Elem().Kind() == reflect.Interface {
			return attrsTree(v.Interface().(map[string]interface{}))
		}
		m := v.Interface().(map[string][]byte)
		keys := make([]string, 0, len(m))
		for k := range m {
			keys = append(keys, k)
		}
		sort.Strings(keys)
		n := node()
		for _, k := range keys {
			n.kids = append(n.kids, node(strAtom(k), atom("x"+hex.EncodeToString(m[k]))))
		}
		return n
	case reflect.Ptr:
		et := t.Elem()
		if et == bitmapType {
			if v.IsNil() {
				return node()
			}
			return u64sTree(v.Interface().(*roaring.Bitmap).Slice())
		}
		optional := isInternal(et) || optionalP[et.Name()]
		if et == rowType {
			if v.IsNil() {
				return node()
			}
			return node(rowTree(v.Interface().(*pilosa.Row)))
		}
		if optional {
			if v.IsNil() {
				return node()
			}
			return node(toTree(v.Elem()))
		}
		if v.IsNil() {
			return toTree(reflect.Zero(et)) // a nil pointer of a non-optional type prints as the zero value
		}
		return toTree(v.Elem())
	case reflect.Struct:
		n := node()
		for i := 0; i < t.NumField(); i++ {
			f := t.Field(i)
			if f.PkgPath != "" || strings.HasPrefix(f.Name, "XXX_") {
				continue
			}
			n.kids = append(n.kids, toTree(v.Field(i)))
		}
		return n
	}
	panic("toTree: kind " + t.Kind().String())
}

// ---------- tree -> value ----------

func attrValOf(t *tree) interface{} {
	switch t.kids[0].atom {
	case "str":
		return atomStr(t.kids[1])
	case "int":
		v, _ := strconv.ParseInt(t.kids[1].atom, 10, 64)
		return v
	case "uint":
		v, _ := strconv.ParseUint(t.kids[1].atom, 10, 64)
		return v
	case "bool":
		return t.kids[1].atom == "T"
	case "float":
		b, _ := strconv.ParseUint(t.kids[1].atom[1:], 10, 64)
		return math.Float64frombits(b)
	case "null":
		return nil
	}
	panic("bad attr value " + t.String())
}

func attrsOf(t *tree) map[string]interface{} {
	m := map[string]interface{}{}
	for _, kv := range t.kids {
		m[atomStr(kv.kids[0])] = attrValOf(kv.kids[1])
	}
	return m
}

func u64sOf(t *tree) []uint64 {
	var out []uint64
	for _, k := range t.kids {
		v, err := strconv.ParseUint(k.atom, 10, 64)
		if err != nil {
			panic(err)
		}
		out = append(out, v)
	}
	return out
}

func rowOf(t *tree) *pilosa.Row {
	r := pilosa.NewRow(u64sOf(t.kids[0])...)
	for _, k := range t.kids[1].kids {
		r.Keys = append(r.Keys, atomStr(k))
	}
	r.Attrs = attrsOf(t.kids[2])
	return r
}

func resultOf(t *tree) interface{} {
	kind := t.kids[0].atom
	mk := func(proto interface{}) reflect.Value {
		v := reflect.New(reflect.TypeOf(proto)).Elem()
		fromTree(t.kids[1], v)
		return v
	}
	switch kind {
	case "row":
		if len(t.kids[1].kids) == 0 {
			return (*pilosa.Row)(nil)
		}
		return rowOf(t.kids[1].kids[0])
	case "pairs":
		return mk([]pilosa.Pair{}).Interface()
	case "valCount":
		return mk(pilosa.ValCount{}).Interface()
	case "uint64":
		v, _ := strconv.ParseUint(t.kids[1].atom, 10, 64)
		return v
	case "bool":
		return t.kids[1].atom == "T"
	case "rowIDs":
		return pilosa.RowIDs(u64sOf(t.kids[1]))
	case "groupCounts":
		return mk([]pilosa.GroupCount{}).Interface()
	case "rowIdentifiers":
		return mk(pilosa.RowIdentifiers{}).Interface()
	case "rowIdentifiersPtr":
		v := mk(pilosa.RowIdentifiers{}).Interface().(pilosa.RowIdentifiers)
		return &v
	case "pair":
		return mk(pilosa.Pair{}).Interface()
	case "nil":
		return nil
	}
	panic("bad result " + t.String())
}

func fromTree(t *tree, v reflect.Value) {
	ty := v.Type()
	switch ty.Kind() {
	case reflect.String:
		v.SetString(atomStr(t))
	case reflect.Bool:
		v.SetBool(t.atom == "T")
	case reflect.Uint, reflect.Uint16, reflect.Uint32, reflect.Uint64:
		x, err := strconv.ParseUint(t.atom, 10, 64)
		if err != nil {
			panic(err)
		}
		v.SetUint(x)
	case reflect.Int, reflect.Int64, reflect.Int32:
		x, err := strconv.ParseInt(t.atom, 10, 64)
		if err != nil {
			panic(err)
		}
		v.SetInt(x)
	case reflect.Float64:
		b, _ := strconv.ParseUint(t.atom[1:], 10, 64)
		v.SetFloat(math.Float64frombits(b))
	case reflect.Interface:
		if ty == errorType {
			if len(t.kids) == 1 {
				v.Set(reflect.ValueOf(errors.New(atomStr(t.kids[0]))))
			}
			return
		}
		r := resultOf(t)
		if r != nil {
			v.Set(reflect.ValueOf(r))
		}
	case reflect.Slice:
		if ty.Elem().Kind() == reflect.Uint8 {
			b, err := hex.DecodeString(t.atom[1:])
			if err != nil {
				panic(err)
			}
			v.SetBytes(b)
			return
		}
		if len(t.kids) == 0 {
			return // nil slice
		}
		s := reflect.MakeSlice(ty, len(t.kids), len(t.kids))
		for i, k := range t.kids {
			el := s.Index(i)
			if el.Kind() == reflect.Ptr {
				el.Set(reflect.New(ty.Elem().Elem()))
				el = el.Elem()
			}
			fromTree(k, el)
		}
		v.Set(s)
	case reflect.Map:
		if ty.Elem().Kind() == reflect.Interface {
			v.Set(reflect.ValueOf(attrsOf(t)))
			return
		}
		m := map[string][]byte{}
		for _, kv := range t.kids {
			b, _ := hex.DecodeString(kv.kids[1].atom[1:])
			m[atomStr(kv.kids[0])] = b
		}
		v.Set(reflect.ValueOf(m))
	case reflect.Ptr:
		et := ty.Elem()
		if et == bitmapType {
			v.Set(reflect.ValueOf(roaring.NewBitmap(u64sOf(t)...)))
			return
		}
		if et == rowType {
			if len(t.kids) == 1 {
				v.Set(reflect.ValueOf(rowOf(t.kids[0])))
			}
			return
		}
		optional := isInternal(et) || optionalP[et.Name()]
		if optional {
			if len(t.kids) == 0 {
				return
			}
			t = t.kids[0]
		}
		p := reflect.New(et)
		fromTree(t, p.Elem())
		v.Set(p)
	case reflect.Struct:
		j := 0
		for i := 0; i < ty.NumField(); i++ {
			f := ty.Field(i)
			if f.PkgPath != "" || strings.HasPrefix(f.Name, "XXX_") {
				continue
			}
			if j >= len(t.kids) {
				panic("tree too short for " + ty.Name())
			}
			fromTree(t.kids[j], v.Field(i))
			j++
		}
		if j != len(t.kids) {
			panic("tree too long for " + ty.Name())
		}
	default:
		panic("fromTree: kind " + ty.Kind().String())
	}
}

// ---------- message types ----------

type msgType struct {
	name string
	p    reflect.Type // pilosa struct
}

// internalType: the protobuf-side struct of a message type (through the verif hook: package internal
// cannot be imported from outside the pilosa module; reflection on its values is fine)
func (m *msgType) i() reflect.Type {
	return reflect.TypeOf(proto.VerifC27NewInternal(m.name)).Elem()
}

var msgTypes = []msgType{
	{"CreateShardMessage", reflect.TypeOf(pilosa.CreateShardMessage{})},
	{"CreateIndexMessage", reflect.TypeOf(pilosa.CreateIndexMessage{})},
	{"DeleteIndexMessage", reflect.TypeOf(pilosa.DeleteIndexMessage{})},
	{"CreateFieldMessage", reflect.TypeOf(pilosa.CreateFieldMessage{})},
	{"DeleteFieldMessage", reflect.TypeOf(pilosa.DeleteFieldMessage{})},
	{"DeleteAvailableShardMessage", reflect.TypeOf(pilosa.DeleteAvailableShardMessage{})},
	{"CreateViewMessage", reflect.TypeOf(pilosa.CreateViewMessage{})},
	{"DeleteViewMessage", reflect.TypeOf(pilosa.DeleteViewMessage{})},
	{"ClusterStatus", reflect.TypeOf(pilosa.ClusterStatus{})},
	{"ResizeInstruction", reflect.TypeOf(pilosa.ResizeInstruction{})},
	{"ResizeInstructionComplete", reflect.TypeOf(pilosa.ResizeInstructionComplete{})},
	{"SetCoordinatorMessage", reflect.TypeOf(pilosa.SetCoordinatorMessage{})},
	{"UpdateCoordinatorMessage", reflect.TypeOf(pilosa.UpdateCoordinatorMessage{})},
	{"NodeStateMessage", reflect.TypeOf(pilosa.NodeStateMessage{})},
	{"RecalculateCaches", reflect.TypeOf(pilosa.RecalculateCaches{})},
	{"NodeEvent", reflect.TypeOf(pilosa.NodeEvent{})},
	{"NodeStatus", reflect.TypeOf(pilosa.NodeStatus{})},
	{"Node", reflect.TypeOf(pilosa.Node{})},
	{"QueryRequest", reflect.TypeOf(pilosa.QueryRequest{})},
	{"QueryResponse", reflect.TypeOf(pilosa.QueryResponse{})},
	{"ImportRequest", reflect.TypeOf(pilosa.ImportRequest{})},
	{"ImportValueRequest", reflect.TypeOf(pilosa.ImportValueRequest{})},
	{"ImportRoaringRequest", reflect.TypeOf(pilosa.ImportRoaringRequest{})},
	{"ImportResponse", reflect.TypeOf(pilosa.ImportResponse{})},
	{"BlockDataRequest", reflect.TypeOf(pilosa.BlockDataRequest{})},
	{"BlockDataResponse", reflect.TypeOf(pilosa.BlockDataResponse{})},
	{"TranslateKeysRequest", reflect.TypeOf(pilosa.TranslateKeysRequest{})},
	{"TranslateKeysResponse", reflect.TypeOf(pilosa.TranslateKeysResponse{})},
}

// broadcastTypes: the cases of Server.receiveMessage (what nodes send each other with a type byte)
var broadcastTypes = []string{"CreateShardMessage", "CreateIndexMessage", "DeleteIndexMessage", "CreateFieldMessage",
	"DeleteFieldMessage", "DeleteAvailableShardMessage", "CreateViewMessage", "DeleteViewMessage", "ClusterStatus",
	"ResizeInstruction", "ResizeInstructionComplete", "SetCoordinatorMessage", "UpdateCoordinatorMessage",
	"NodeStateMessage", "RecalculateCaches", "NodeEvent", "NodeStatus"}

func msgByName(n string) *msgType {
	for i := range msgTypes {
		if msgTypes[i].name == n {
			return &msgTypes[i]
		}
	}
	return nil
}

// ---------- Exec ----------

func (p *prop) Exec(lines []string) []string {
	outs := make([]string, len(lines))
	for i, l := range lines {
		outs[i] = vh.Guard("decode", func() string { return execLine(l) })
	}
	return outs
}

var ser proto.Serializer

func execLine(l string) string {
	ws := strings.Fields(l)
	if len(ws) < 3 {
		return "bad-op"
	}
	mt := msgByName(ws[1])
	if mt == nil {
		return "bad-op"
	}
	t := parseTree(ws[2:])
	switch ws[0] {
	case "rt":
		v := reflect.New(mt.p)
		fromTree(t, v.Elem())
		buf, err := ser.Marshal(v.Interface())
		if err != nil {
			return "err:encode"
		}
		out := reflect.New(mt.p)
		if err := ser.Unmarshal(buf, out.Interface()); err != nil {
			vh.Count("rt-decode-error")
			return "err:decode"
		}
		return toTree(out.Elem()).String()
	case "bc":
		v := reflect.New(mt.p)
		fromTree(t, v.Elem())
		out, err := pilosa.VerifC27Broadcast(v.Interface(), ser)
		if err != nil {
			return "err:decode"
		}
		ov := reflect.ValueOf(out)
		if ov.Type() != v.Type() {
			return "type-confusion:" + mt.name + "->" + ov.Type().Elem().Name()
		}
		return toTree(ov.Elem()).String()
	case "dec":
		v := reflect.New(mt.i())
		fromTree(t, v.Elem())
		buf, err := gproto.Marshal(v.Interface().(gproto.Message))
		if err != nil {
			return "bad-op"
		}
		out := reflect.New(mt.p)
		if err := ser.Unmarshal(buf, out.Interface()); err != nil {
			vh.Count("dec-error")
			return "err:decode"
		}
		return toTree(out.Elem()).String()
	}
	return "bad-op"
}

// ---------- generation ----------

var strPool = []string{"", "", "a", "i", "f", "idx", "field-1", "standard", "é", "日本", "😀x", "a b", "\x01\t", "x\"y\\z", "READY", "NORMAL", "http", "localhost"}

type gen struct {
	r       *vh.Rng
	nontriv bool
	depth   int
}

func (g *gen) str() string { return strPool[g.r.Intn(len(strPool))] }

func (g *gen) u64(bits int) uint64 {
	max := uint64(math.MaxUint64)
	if bits < 64 {
		max = (uint64(1) << uint(bits)) - 1
	}
	switch g.r.Intn(6) {
	case 0:
		return 0
	case 1:
		return 1
	case 2:
		return max
	case 3:
		return uint64(g.r.Intn(1 << 20))
	}
	return uint64(g.r.Intn(10))
}

func (g *gen) i64() int64 {
	switch g.r.Intn(6) {
	case 0:
		return 0
	case 1:
		return -1
	case 2:
		return math.MaxInt64
	case 3:
		return math.MinInt64
	}
	return int64(g.r.Range(-100, 100))
}

func (g *gen) attrs() map[string]interface{} {
	n := g.r.Pick(0, 0, 1, 2, 3)
	if n == 0 {
		if g.r.Bool() {
			return nil
		}
		return map[string]interface{}{}
	}
	g.nontriv = true
	m := map[string]interface{}{}
	for i := 0; i < n; i++ {
		var v interface{}
		switch g.r.Intn(7) {
		case 0, 1:
			v = g.str()
		case 2:
			v = g.i64()
		case 3:
			v = g.r.Bool()
		case 4:
			v = []float64{0, 1.5, -2.25, math.Inf(1), 1e300, 5e-324}[g.r.Intn(6)]
		case 5:
			v = g.u64(63) // uint64 attribute: arrives as int64 (canonical form)
		case 6:
			v = nil
		}
		m[[]string{"a", "b", "k", "é", "", "zz"}[g.r.Intn(6)]] = v
	}
	return m
}

func (g *gen) u64s() []uint64 {
	n := g.r.Pick(0, 0, 1, 2, 3)
	if n == 0 {
		if g.r.Bool() {
			return nil
		}
		return []uint64{}
	}
	out := make([]uint64, n)
	for i := range out {
		out[i] = g.u64(64)
	}
	return out
}

func (g *gen) row() *pilosa.Row {
	if g.r.Chance(1, 5) {
		return nil
	}
	g.nontriv = true
	cols := g.u64s()
	r := pilosa.NewRow(cols...)
	for i := g.r.Intn(3); i > 0; i-- {
		r.Keys = append(r.Keys, g.str())
	}
	r.Attrs = g.attrs()
	return r
}

func (g *gen) result() interface{} {
	g.nontriv = true
	switch g.r.Intn(11) {
	case 0:
		return g.row()
	case 1:
		v := reflect.New(reflect.TypeOf([]pilosa.Pair{})).Elem()
		g.fill(v, false)
		return v.Interface()
	case 2:
		return pilosa.ValCount{Val: g.i64(), Count: g.i64()}
	case 3:
		return g.u64(64)
	case 4:
		return g.r.Bool()
	case 5:
		return pilosa.RowIDs(g.u64s())
	case 6:
		v := reflect.New(reflect.TypeOf([]pilosa.GroupCount{})).Elem()
		g.fill(v, false)
		return v.Interface()
	case 7:
		v := reflect.New(reflect.TypeOf(pilosa.RowIdentifiers{})).Elem()
		g.fill(v, false)
		return v.Interface()
	case 8:
		return pilosa.Pair{ID: g.u64(64), Key: g.str(), Count: g.u64(64)}
	}
	return nil
}

// fill sets v to a random value. internalSide: pointers may be nil everywhere.
func (g *gen) fill(v reflect.Value, internalSide bool) {
	t := v.Type()
	switch t.Kind() {
	case reflect.String:
		s := g.str()
		if t.Name() == "TimeQuantum" {
			s = g.r.PickS("", "Y", "YMD", "YMDH")
		}
		v.SetString(s)
	case reflect.Bool:
		v.SetBool(g.r.Bool())
	case reflect.Uint16:
		v.SetUint(g.u64(16))
	case reflect.Uint32:
		v.SetUint(g.u64(32))
	case reflect.Uint, reflect.Uint64:
		v.SetUint(g.u64(64))
	case reflect.Int, reflect.Int64:
		if t.Name() == "NodeEventType" {
			v.SetInt(int64(g.r.Intn(3)))
			return
		}
		v.SetInt(g.i64())
	case reflect.Float64:
		v.SetFloat([]float64{0, 1.5, -2.25, 1e300}[g.r.Intn(4)])
	case reflect.Interface:
		if t == errorType {
			switch g.r.Intn(4) {
			case 0:
				v.Set(reflect.ValueOf(errors.New(g.str())))
			}
			return
		}
		if r := g.result(); r != nil {
			v.Set(reflect.ValueOf(r))
		}
	case reflect.Slice:
		if t.Elem().Kind() == reflect.Uint8 {
			n := g.r.Pick(0, 0, 1, 3)
			b := make([]byte, n)
			for i := range b {
				b[i] = byte(g.r.Intn(256))
			}
			if n == 0 && g.r.Bool() {
				b = nil
			}
			v.SetBytes(b)
			return
		}
		n := g.r.Pick(0, 0, 1, 1, 2, 3)
		if g.depth > 3 {
			n = g.r.Pick(0, 1)
		}
		if n == 0 {
			if g.r.Bool() {
				v.Set(reflect.MakeSlice(t, 0, 0))
			}
			return
		}
		g.nontriv = true
		s := reflect.MakeSlice(t, n, n)
		for i := 0; i < n; i++ {
			el := s.Index(i)
			if el.Kind() == reflect.Ptr {
				el.Set(reflect.New(t.Elem().Elem()))
				el = el.Elem()
			}
			g.depth++
			g.fill(el, internalSide)
			g.depth--
		}
		v.Set(s)
	case reflect.Map:
		if t.Elem().Kind() == reflect.Interface {
			if m := g.attrs(); m != nil {
				v.Set(reflect.ValueOf(m))
			}
			return
		}
		m := map[string][]byte{}
		for i := g.r.Pick(0, 1, 2); i > 0; i-- {
			g.nontriv = true
			b := make([]byte, g.r.Pick(0, 1, 4))
			for j := range b {
				b[j] = byte(g.r.Intn(256))
			}
			m[g.r.PickS("standard", "standard_2019", "", "é")] = b
		}
		v.Set(reflect.ValueOf(m))
	case reflect.Ptr:
		et := t.Elem()
		if et == bitmapType {
			v.Set(reflect.ValueOf(roaring.NewBitmap(g.u64s()...)))
			return
		}
		if et == rowType {
			if r := g.row(); r != nil {
				v.Set(reflect.ValueOf(r))
			}
			return
		}
		optional := internalSide || optionalP[et.Name()]
		if optional && g.r.Chance(1, 3) {
			return
		}
		p := reflect.New(et)
		g.depth++
		g.fill(p.Elem(), internalSide)
		g.depth--
		v.Set(p)
	case reflect.Struct:
		for i := 0; i < t.NumField(); i++ {
			f := t.Field(i)
			if f.PkgPath != "" || strings.HasPrefix(f.Name, "XXX_") {
				continue
			}
			// mostly default index options so that the known finding stays a minority
			if t.Name() == "IndexInfo" && (f.Name == "Options" || f.Name == "ShardWidth") && !g.r.Chance(1, 4) {
				continue
			}
			if t.Name() == "FieldRow" && f.Name == "RowID" {
				continue
			}
			if t.Name() == "QueryResult" && f.Name == "Type" {
				v.Field(i).SetUint(uint64(g.r.Intn(12)))
				continue
			}
			if t.Name() == "Attr" && f.Name == "Type" {
				v.Field(i).SetUint(uint64(g.r.Intn(6)))
				continue
			}
			g.fill(v.Field(i), internalSide)
		}
		if t.Name() == "FieldRow" {
			// row by key, by id, or (rarely) both
			k := v.FieldByName("RowKey").String()
			if k == "" || g.r.Chance(1, 6) {
				v.FieldByName("RowID").SetUint(g.u64(64))
			}
		}
	default:
		panic("fill: kind " + t.Kind().String())
	}
}

func (p *prop) Gen(r *vh.Rng, tier string, n int) []vh.Case {
	var cases []vh.Case
	for k := 0; k < n; k++ {
		cr := r.Fork()
		mt := msgTypes[cr.Intn(len(msgTypes))]
		// weight the rich types
		if cr.Chance(1, 3) {
			mt = *msgByName(cr.PickS("QueryResponse", "QueryResponse", "ResizeInstruction", "NodeStatus", "ClusterStatus", "CreateFieldMessage", "ImportRoaringRequest"))
		}
		g := &gen{r: cr}
		var line string
		if cr.Chance(1, 8) {
			// broadcast framing: only the message types the server sends to its peers
			bt := *msgByName(broadcastTypes[cr.Intn(len(broadcastTypes))])
			v := reflect.New(bt.p).Elem()
			g.fill(v, false)
			line = "bc " + bt.name + " " + toTree(v).tokens()
		} else if cr.Chance(2, 3) {
			v := reflect.New(mt.p).Elem()
			g.fill(v, false)
			line = "rt " + mt.name + " " + toTree(v).tokens()
		} else {
			v := reflect.New(mt.i()).Elem()
			g.fill(v, true)
			line = "dec " + mt.name + " " + toTree(v).tokens()
		}
		cases = append(cases, vh.Case{Lines: []string{line}, Nontrivial: g.nontriv})
	}
	return cases
}

func main() { vh.Main(&prop{}) }
