// Harness for C16: Rows, GroupBy, MinRow, MaxRow exact and consistently paged.
//
// Line formats are documented in lean/PV/C16/Main.lean. An `fopen` case drives one real fragment
// on a scratch file (every write path, then fragment.rows with the real filter chain and
// minRow/maxRow); an `srv` case builds an index on an in-process server (set fields a b c, time
// field t with quantum D, filter field g, shards 0-2) and reads through PQL Rows / GroupBy /
// MinRow / MaxRow, including paging loops (previous+limit, offset+limit) run to exhaustion.
package main

import (
	"context"
	"fmt"
	"os"
	"strconv"
	"strings"
	"time"

	"github.com/pilosa/pilosa"
	"verifharness/vh"
	"verifharness/vh/srv"
)

const sw = pilosa.ShardWidth

type prop struct {
	s     *srv.Server
	idx   int
	hangs int
}

func (p *prop) Rule() string {
	return "fopen cases: 8-20 writes (setBit, clearBit, bulk import set/clear, roaring import set/clear, clearRow) over rows {0,1,2,3,5,9} and columns at container " +
		"edges {0,1,2,65535,65536,65537,131072,1048575}, interleaved with fragment.rows(start, column?, ids?, limit?) and minRow/maxRow(filter?); " +
		"srv cases: 8-22 writes (PQL Set/Clear, timestamped Set on a time field over days 0-4, API Import, roaring import) on fields a b c t over rows 0-3, columns 0-4, shards 0-2, " +
		"then Rows(previous, limit, column, from, to), GroupBy over 1-3 fields (previous tuple, limit, offset, filter, child limit/column), MinRow/MaxRow(filter) " +
		"and paging loops to exhaustion; group cases (1 in 5): GroupBy over 3-4 fields a b c d on 2-3 shards where every row of a middle field lives on one or two shards only, " +
		"read unpaged, by previous-driven paging loops with limit 1-3, with arbitrary previous tuples (values up to two past the last row) and by offset loops. A case is non-trivial when it has at least 3 rows with bits in some field/fragment and at least one read"
}

var fragRowsPool = []int{0, 1, 2, 3, 5, 9}
var fragCols = []uint64{0, 1, 2, 65535, 65536, 65537, 131072, 1048575}

func genFragBits(r *vh.Rng, max int) string {
	n := r.Range(1, max)
	seen := map[string]bool{}
	var bs []string
	for i := 0; i < n; i++ {
		b := fmt.Sprintf("%d:%d", fragRowsPool[r.Intn(len(fragRowsPool))], fragCols[r.Intn(len(fragCols))])
		if !seen[b] {
			seen[b] = true
			bs = append(bs, b)
		}
	}
	return strings.Join(bs, ",")
}

func optS(r *vh.Rng, num, den int, f func() string) string {
	if r.Chance(num, den) {
		return f()
	}
	return "-"
}

func genFragCase(r *vh.Rng) vh.Case {
	lines := []string{"fopen"}
	rowsSeen := map[int]bool{}
	reads := 0
	nops := r.Range(10, 26)
	for i := 0; i < nops; i++ {
		row := fragRowsPool[r.Intn(len(fragRowsPool))]
		col := fragCols[r.Intn(len(fragCols))]
		switch x := r.Intn(100); {
		case x < 28:
			lines = append(lines, fmt.Sprintf("fset %d %d", row, col))
			rowsSeen[row] = true
		case x < 42:
			lines = append(lines, fmt.Sprintf("fclear %d %d", row, col))
		case x < 49:
			lines = append(lines, "fimport "+genFragBits(r, 5))
			rowsSeen[row] = true
		case x < 53:
			lines = append(lines, "fimportclear "+genFragBits(r, 4))
		case x < 60:
			lines = append(lines, "froaring "+genFragBits(r, 5))
			rowsSeen[row] = true
		case x < 67:
			lines = append(lines, "froaringclear "+genFragBits(r, 4))
		case x < 70:
			lines = append(lines, fmt.Sprintf("fclearrow %d", row))
		case x < 86:
			start := r.Pick(0, 0, 0, 1, 2, 4, 10)
			if r.Chance(1, 4) {
				var ids []uint64
				for _, q := range []uint64{0, 1, 2, 3, 4, 5, 9, 11} {
					if r.Chance(1, 2) {
						ids = append(ids, q)
					}
				}
				lines = append(lines, fmt.Sprintf("frows start=%d col=- limit=%s ids=%s", start,
					optS(r, 1, 4, func() string { return strconv.Itoa(r.Range(0, 3)) }), vh.CSV(ids)))
			} else {
				lines = append(lines, fmt.Sprintf("frows start=%d col=%s limit=%s ids=-", start,
					optS(r, 2, 5, func() string { return strconv.FormatUint(fragCols[r.Intn(len(fragCols))], 10) }),
					optS(r, 1, 2, func() string { return strconv.Itoa(r.Range(0, 3)) })))
			}
			reads++
		default:
			flt := "none"
			if r.Chance(3, 5) {
				var cs []uint64
				for _, c := range fragCols {
					if r.Chance(2, 5) {
						cs = append(cs, c)
					}
				}
				flt = vh.CSV(cs)
			}
			lines = append(lines, fmt.Sprintf("%s filter=%s", r.PickS("fminrow", "fmaxrow"), flt))
			reads++
		}
	}
	lines = append(lines, "frows start=0 col=- limit=- ids=-", "fminrow filter=none", "fmaxrow filter=none")
	return vh.Case{Lines: lines, Nontrivial: len(rowsSeen) >= 3}
}

func genSrvBits(r *vh.Rng, max int) string {
	n := r.Range(1, max)
	seen := map[string]bool{}
	var bs []string
	for i := 0; i < n; i++ {
		b := fmt.Sprintf("%d:%d", r.Intn(4), r.Intn(5))
		if !seen[b] {
			seen[b] = true
			bs = append(bs, b)
		}
	}
	return strings.Join(bs, ",")
}

func pickShard(r *vh.Rng) int { return r.Pick(0, 0, 0, 1, 1, 2) }

func genSrvCase(r *vh.Rng) vh.Case {
	lines := []string{"srv"}
	nw := r.Range(8, 22)
	useTime := r.Chance(1, 3)
	threeFields := r.Chance(1, 4)
	fields := []string{"a", "b"}
	if threeFields {
		fields = append(fields, "c")
	}
	for i := 0; i < nw; i++ {
		f := fields[r.Intn(len(fields))]
		switch x := r.Intn(100); {
		case x < 50:
			if useTime && r.Chance(1, 2) {
				lines = append(lines, fmt.Sprintf("tset %d %d %d %d", pickShard(r), r.Intn(5), r.Intn(4), r.Intn(5)))
			} else {
				lines = append(lines, fmt.Sprintf("set %s %d %d %d", f, pickShard(r), r.Intn(4), r.Intn(5)))
			}
		case x < 60:
			lines = append(lines, fmt.Sprintf("clear %s %d %d %d", f, pickShard(r), r.Intn(4), r.Intn(5)))
		case x < 72:
			lines = append(lines, fmt.Sprintf("imp %s %d %s", f, pickShard(r), genSrvBits(r, 6)))
		case x < 76:
			lines = append(lines, fmt.Sprintf("impclear %s %d %s", f, pickShard(r), genSrvBits(r, 3)))
		case x < 86:
			lines = append(lines, fmt.Sprintf("roar %s %d %s", f, pickShard(r), genSrvBits(r, 6)))
		case x < 90:
			lines = append(lines, fmt.Sprintf("roarclear %s %d %s", f, pickShard(r), genSrvBits(r, 3)))
		default:
			lines = append(lines, fmt.Sprintf("gset %d %d", pickShard(r), r.Intn(5)))
		}
	}
	flt := func() string { return r.PickS("-", "-", "g") }
	colS := func() string {
		return optS(r, 1, 5, func() string { return fmt.Sprintf("%d:%d", pickShard(r), r.Intn(5)) })
	}
	gbFields := func() string {
		switch {
		case threeFields && r.Chance(1, 2):
			return "a,b,c"
		case r.Chance(1, 5):
			return r.PickS("a", "b")
		case r.Chance(1, 6):
			return "b,a"
		}
		return "a,b"
	}
	nr := r.Range(4, 9)
	for i := 0; i < nr; i++ {
		switch x := r.Intn(100); {
		case x < 20:
			f := r.PickS("a", "b")
			from, to := "-", "-"
			if useTime && r.Chance(2, 3) {
				f = "t"
				from = optS(r, 2, 3, func() string { return strconv.Itoa(r.Intn(5)) })
				to = optS(r, 2, 3, func() string { return strconv.Itoa(r.Range(1, 6)) })
			}
			lines = append(lines, fmt.Sprintf("rows %s prev=%s limit=%s col=%s from=%s to=%s", f,
				optS(r, 1, 3, func() string { return strconv.Itoa(r.Intn(4)) }),
				optS(r, 1, 2, func() string { return strconv.Itoa(r.Range(0, 3)) }), colS(), from, to))
		case x < 32:
			f := r.PickS("a", "b")
			from, to := "-", "-"
			if useTime && r.Chance(2, 3) {
				f = "t"
				from = optS(r, 2, 3, func() string { return strconv.Itoa(r.Intn(5)) })
				to = optS(r, 2, 3, func() string { return strconv.Itoa(r.Range(1, 6)) })
			}
			lines = append(lines, fmt.Sprintf("pagerows %s limit=%d col=%s from=%s to=%s", f, r.Range(1, 3), colS(), from, to))
		case x < 60:
			fs := gbFields()
			k := len(strings.Split(fs, ","))
			prev := "-"
			if r.Chance(1, 3) {
				ps := make([]string, k)
				for j := range ps {
					ps[j] = strconv.Itoa(r.Intn(4))
				}
				prev = strings.Join(ps, ".")
			}
			climit, ccol := "-", "-"
			if r.Chance(1, 6) {
				climit = fmt.Sprintf("%d:%d", r.Intn(k), r.Range(1, 3))
			} else if r.Chance(1, 8) {
				ccol = fmt.Sprintf("%d:%d:%d", r.Intn(k), pickShard(r), r.Intn(5))
			}
			lines = append(lines, fmt.Sprintf("groupby %s prev=%s limit=%s offset=%s filter=%s climit=%s ccol=%s", fs, prev,
				optS(r, 1, 2, func() string { return strconv.Itoa(r.Range(0, 4)) }),
				optS(r, 1, 3, func() string { return strconv.Itoa(r.Range(0, 5)) }), flt(), climit, ccol))
		case x < 72:
			lines = append(lines, fmt.Sprintf("pagegroup %s limit=%d filter=%s", gbFields(), r.Range(1, 3), flt()))
		case x < 84:
			lines = append(lines, fmt.Sprintf("pageoffset %s limit=%d filter=%s", gbFields(), r.Range(1, 3), flt()))
		default:
			lines = append(lines, fmt.Sprintf("%s %s filter=%s", r.PickS("minrow", "maxrow"), r.PickS("a", "b"), flt()))
		}
	}
	return vh.Case{Lines: lines, Nontrivial: nw >= 10}
}

// genGroupCase aims at the group iterator: GroupBy over 3-4 fields on 2-3 shards where the rows
// of the middle fields exist on only some shards, so that a page ends on a group whose middle row
// is missing (or beyond the last row) on another shard: there Seek runs off the end, Next wraps to a
// smaller row and the deeper fields must restart. Read with previous-driven paging loops (limit 1-3)
// and with arbitrary previous tuples (past-the-end and non-existing rows included).
func genGroupCase(r *vh.Rng) vh.Case {
	lines := []string{"srv"}
	k := r.Pick(3, 3, 3, 4)
	nrows := r.Pick(3, 4)
	if k == 4 {
		nrows = r.Pick(2, 3)
	}
	all := []string{"a", "b", "c", "d"}[:k]
	nsh := r.Pick(2, 3, 3)
	for fi, f := range all {
		middle := fi > 0 && fi < k-1
		bits := make([][]string, nsh)
		for row := 0; row < nrows; row++ {
			if !middle && r.Chance(1, 6) {
				continue // a hole in the first / last field
			}
			var shs []int
			switch {
			case middle && r.Chance(3, 4):
				shs = []int{r.Intn(nsh)} // the row lives on one shard only
			case middle:
				shs = []int{r.Intn(nsh), r.Intn(nsh)}
			default:
				for sh := 0; sh < nsh; sh++ {
					if r.Chance(3, 4) {
						shs = append(shs, sh)
					}
				}
			}
			for _, sh := range shs {
				for c := 0; c < 3; c++ {
					if r.Chance(2, 3) {
						bits[sh] = append(bits[sh], fmt.Sprintf("%d:%d", row, c))
					}
				}
			}
		}
		for sh := range bits {
			if len(bits[sh]) > 0 {
				lines = append(lines, fmt.Sprintf("%s %s %d %s", r.PickS("imp", "imp", "roar"), f, sh, strings.Join(bits[sh], ",")))
			}
		}
	}
	flt := "-"
	if r.Chance(1, 4) {
		flt = "g"
		for sh := 0; sh < nsh; sh++ {
			lines = append(lines, fmt.Sprintf("gset %d %d", sh, r.Intn(3)), fmt.Sprintf("gset %d %d", sh, r.Intn(3)))
		}
	}
	fields := strings.Join(all, ",")
	if r.Chance(1, 5) {
		perm := r.Perm(k)
		fs := make([]string, k)
		for i, j := range perm {
			fs[i] = all[j]
		}
		fields = strings.Join(fs, ",")
	}
	lines = append(lines, fmt.Sprintf("groupby %s prev=- limit=- offset=- filter=%s climit=- ccol=-", fields, flt))
	lines = append(lines, fmt.Sprintf("pagegroup %s limit=%d filter=%s", fields, r.Range(1, 3), flt))
	nr := r.Range(2, 4)
	for i := 0; i < nr; i++ {
		ps := make([]string, k)
		for j := range ps {
			ps[j] = strconv.Itoa(r.Intn(nrows + 2)) // nrows and nrows+1 are past the end
		}
		lines = append(lines, fmt.Sprintf("groupby %s prev=%s limit=%s offset=- filter=%s climit=- ccol=-", fields,
			strings.Join(ps, "."), optS(r, 1, 2, func() string { return strconv.Itoa(r.Range(1, 4)) }), flt))
	}
	if r.Chance(1, 2) {
		lines = append(lines, fmt.Sprintf("pageoffset %s limit=%d filter=%s", fields, r.Range(2, 4), flt))
	}
	return vh.Case{Lines: lines, Nontrivial: true}
}

func (p *prop) Gen(r *vh.Rng, tier string, n int) []vh.Case {
	var cases []vh.Case
	for k := 0; k < n; k++ {
		cr := r.Fork()
		if cr.Chance(1, 5) {
			cases = append(cases, genGroupCase(cr))
			continue
		}
		if cr.Chance(1, 3) {
			cases = append(cases, genSrvCase(cr))
		} else {
			cases = append(cases, genFragCase(cr))
		}
	}
	return cases
}

// ---------- execution ----------

type caseState struct {
	frag   *pilosa.VerifC16Frag
	dir    string
	index  string
	needed map[string]bool
}

// neededFields lists the fields a case mentions.
func neededFields(lines []string) map[string]bool {
	isF := func(w string) bool { return w == "a" || w == "b" || w == "c" || w == "d" || w == "t" }
	m := map[string]bool{}
	for _, l := range lines {
		ws := strings.Fields(l)
		for i, w := range ws {
			switch {
			case i == 0 && w == "tset":
				m["t"] = true
			case i == 0 && w == "gset", w == "filter=g":
				m["g"] = true
			case i == 1 && isF(w):
				m[w] = true
			case i == 1 && strings.Contains(w, ","):
				for _, q := range strings.Split(w, ",") {
					if isF(q) {
						m[q] = true
					}
				}
			}
		}
	}
	return m
}

func parseBits(s string) (rows, cols []uint64) {
	if s == "-" || s == "" {
		return
	}
	for _, b := range strings.Split(s, ",") {
		p := strings.Split(b, ":")
		r, _ := strconv.ParseUint(p[0], 10, 64)
		c, _ := strconv.ParseUint(p[1], 10, 64)
		rows = append(rows, r)
		cols = append(cols, c)
	}
	return
}

func kv(w, key string) string { return strings.TrimPrefix(w, key+"=") }

func optU(s string) *uint64 {
	if s == "-" {
		return nil
	}
	v, err := strconv.ParseUint(s, 10, 64)
	if err != nil {
		panic("bad number " + s)
	}
	return &v
}

func showGCs(gs []pilosa.GroupCount) string {
	if len(gs) == 0 {
		return "-"
	}
	ss := make([]string, len(gs))
	for i, g := range gs {
		rs := make([]string, len(g.Group))
		for j, fr := range g.Group {
			rs[j] = strconv.FormatUint(fr.RowID, 10)
		}
		ss[i] = strings.Join(rs, ".") + ":" + strconv.FormatUint(g.Count, 10)
	}
	return strings.Join(ss, " ")
}

func (p *prop) Exec(lines []string) []string {
	outs := make([]string, len(lines))
	st := &caseState{needed: neededFields(lines)}
	t0 := time.Now()
	defer func() {
		if st.dir != "" {
			if st.frag != nil {
				func() {
					defer func() { _ = recover() }()
					_ = st.frag.Close()
				}()
			}
			_ = os.RemoveAll(st.dir)
			vh.Extra["ms-frag-cases"] += int(time.Since(t0) / time.Millisecond)
		}
		if st.index != "" {
			_ = p.s.API.DeleteIndex(context.Background(), st.index)
			vh.Extra["ms-srv-cases"] += int(time.Since(t0) / time.Millisecond)
		}
	}()
	for i, l := range lines {
		l := l
		outs[i] = vh.Guard("exec", func() string { return p.execLine(st, l) })
	}
	return outs
}

// queryTimeout guards against a query that never returns (GroupBy used to spin forever).
func (p *prop) query(st *caseState, q string) ([]interface{}, string) {
	type res struct {
		r   []interface{}
		err error
	}
	if p.hangs >= 3 {
		return nil, "hang:skipped" // enough lost goroutines for one process
	}
	ch := make(chan res, 1)
	go func() {
		r, err := p.s.Query(st.index, q, []uint64{0, 1, 2})
		ch <- res{r, err}
	}()
	select {
	case x := <-ch:
		if x.err != nil {
			if os.Getenv("VERIF_DEBUG") != "" {
				fmt.Fprintln(os.Stderr, "query error:", q, x.err)
			}
			return nil, "err:query"
		}
		return x.r, ""
	case <-time.After(20 * time.Second):
		// The executor goroutine is lost (it may spin forever). Leave that server alone — stopping
		// it makes the lost goroutine panic the whole process — and continue on a fresh one.
		p.hangs++
		p.s = srv.Start(1)
		st.index = ""
		return nil, "hang:query"
	}
}

func dayS(d uint64) string { return fmt.Sprintf("2001-01-%02dT00:00", d+1) }

func (p *prop) execLine(st *caseState, l string) string {
	ws := strings.Fields(l)
	if len(ws) == 0 {
		return "bad-op"
	}
	switch ws[0] {
	case "fopen":
		if st.frag != nil || st.index != "" {
			return "bad-op"
		}
		dir, err := os.MkdirTemp("", "verif-c16-")
		if err != nil {
			return "err:tempdir"
		}
		st.dir = dir
		f, err := pilosa.VerifC16OpenFragment(dir)
		if err != nil {
			return "err:open"
		}
		st.frag = f
		vh.Count("case-frag")
		return "ok"
	case "srv":
		if st.frag != nil || st.index != "" {
			return "bad-op"
		}
		if p.s == nil {
			p.s = srv.Start(1)
		}
		p.idx++
		st.index = fmt.Sprintf("i%d", p.idx)
		ctx := context.Background()
		if _, err := p.s.API.CreateIndex(ctx, st.index, pilosa.IndexOptions{}); err != nil {
			return "err:create-index"
		}
		// only the fields the case mentions are created (field creation dominates the cost of a case)
		for _, f := range []string{"a", "b", "c", "d", "g"} {
			if !st.needed[f] {
				continue
			}
			if _, err := p.s.API.CreateField(ctx, st.index, f, pilosa.OptFieldTypeSet("ranked", 100)); err != nil {
				return "err:create-field"
			}
		}
		if st.needed["t"] {
			if _, err := p.s.API.CreateField(ctx, st.index, "t", pilosa.OptFieldTypeTime("D")); err != nil {
				return "err:create-field"
			}
		}
		vh.Count("case-srv")
		return "ok"
	}
	if st.frag != nil {
		return p.fragLine(st, ws)
	}
	if st.index != "" {
		return p.srvLine(st, ws)
	}
	return "bad-op"
}

func (p *prop) fragLine(st *caseState, ws []string) string {
	f := st.frag
	u := func(s string) uint64 {
		v, err := strconv.ParseUint(s, 10, 64)
		if err != nil {
			panic("bad number")
		}
		return v
	}
	switch {
	case (ws[0] == "fset" || ws[0] == "fclear") && len(ws) == 3:
		var ch bool
		var err error
		if ws[0] == "fset" {
			ch, err = f.SetBit(u(ws[1]), u(ws[2]))
		} else {
			ch, err = f.ClearBit(u(ws[1]), u(ws[2]))
		}
		if err != nil {
			return "err:" + ws[0]
		}
		return strconv.FormatBool(ch)
	case ws[0] == "fclearrow" && len(ws) == 2:
		if _, err := f.ClearRow(u(ws[1])); err != nil {
			return "err:clearrow"
		}
		return "ok"
	case (ws[0] == "fimport" || ws[0] == "fimportclear" || ws[0] == "froaring" || ws[0] == "froaringclear") && len(ws) == 2:
		rows, cols := parseBits(ws[1])
		var err error
		if strings.HasPrefix(ws[0], "fimport") {
			err = f.Import(rows, cols, ws[0] == "fimportclear")
		} else {
			err = f.ImportRoaring(rows, cols, ws[0] == "froaringclear")
		}
		if err != nil {
			return "err:" + ws[0]
		}
		vh.Count(ws[0])
		return "ok"
	case ws[0] == "frows" && len(ws) == 5:
		start := u(kv(ws[1], "start"))
		col := optU(kv(ws[2], "col"))
		lim := optU(kv(ws[3], "limit"))
		ids := vh.ParseCSV(kv(ws[4], "ids"))
		vh.Count("frows")
		return vh.U64s(f.Rows(start, col, ids, lim))
	case (ws[0] == "fminrow" || ws[0] == "fmaxrow") && len(ws) == 2:
		fs := kv(ws[1], "filter")
		var flt []uint64
		if fs != "none" {
			flt = vh.ParseCSV(fs)
		}
		var id, n uint64
		if ws[0] == "fminrow" {
			id, n = f.MinRow(fs != "none", flt)
		} else {
			id, n = f.MaxRow(fs != "none", flt)
		}
		vh.Count(ws[0])
		return fmt.Sprintf("%d:%d", id, n)
	}
	return "bad-op"
}

func rowsCall(field string, prev, limit, col, from, to string) string {
	args := []string{field}
	if prev != "-" {
		args = append(args, "previous="+prev)
	}
	if limit != "-" {
		args = append(args, "limit="+limit)
	}
	if col != "-" {
		p := strings.Split(col, ":")
		sh, _ := strconv.ParseUint(p[0], 10, 64)
		c, _ := strconv.ParseUint(p[1], 10, 64)
		args = append(args, fmt.Sprintf("column=%d", sh*sw+c))
	}
	if from != "-" {
		d, _ := strconv.ParseUint(from, 10, 64)
		args = append(args, "from="+dayS(d))
	}
	if to != "-" {
		d, _ := strconv.ParseUint(to, 10, 64)
		args = append(args, "to="+dayS(d))
	}
	return "Rows(" + strings.Join(args, ", ") + ")"
}

func groupByCall(fields []string, prev []string, limit, offset, flt string, climit, ccol string) string {
	var args []string
	for i, f := range fields {
		p, l, c := "-", "-", "-"
		if prev != nil {
			p = prev[i]
		}
		if climit != "-" {
			q := strings.Split(climit, ":")
			if q[0] == strconv.Itoa(i) {
				l = q[1]
			}
		}
		if ccol != "-" {
			q := strings.SplitN(ccol, ":", 2)
			if q[0] == strconv.Itoa(i) {
				c = q[1]
			}
		}
		args = append(args, rowsCall(f, p, l, c, "-", "-"))
	}
	if limit != "-" {
		args = append(args, "limit="+limit)
	}
	if offset != "-" {
		args = append(args, "offset="+offset)
	}
	if flt == "g" {
		args = append(args, "filter=Row(g=0)")
	}
	return "GroupBy(" + strings.Join(args, ", ") + ")"
}

func (p *prop) srvLine(st *caseState, ws []string) string {
	u := func(s string) uint64 {
		v, err := strconv.ParseUint(s, 10, 64)
		if err != nil {
			panic("bad number")
		}
		return v
	}
	isField := func(s string) bool { return s == "a" || s == "b" || s == "c" || s == "d" || s == "t" }
	switch {
	case (ws[0] == "set" || ws[0] == "clear") && len(ws) == 5 && isField(ws[1]) && ws[1] != "t":
		name := "Set"
		if ws[0] == "clear" {
			name = "Clear"
		}
		res, e := p.query(st, fmt.Sprintf("%s(%d, %s=%d)", name, u(ws[2])*sw+u(ws[4]), ws[1], u(ws[3])))
		if e != "" {
			return e
		}
		b, _ := res[0].(bool)
		return strconv.FormatBool(b)
	case ws[0] == "tset" && len(ws) == 5:
		res, e := p.query(st, fmt.Sprintf("Set(%d, t=%d, %s)", u(ws[1])*sw+u(ws[3]), u(ws[2]), dayS(u(ws[4]))))
		if e != "" {
			return e
		}
		b, _ := res[0].(bool)
		vh.Count("tset")
		return strconv.FormatBool(b)
	case (ws[0] == "imp" || ws[0] == "impclear") && len(ws) == 4 && isField(ws[1]):
		rows, cols := parseBits(ws[3])
		sh := u(ws[2])
		for i := range cols {
			cols[i] += sh * sw
		}
		err := p.s.API.Import(context.Background(), &pilosa.ImportRequest{Index: st.index, Field: ws[1], Shard: sh, RowIDs: rows, ColumnIDs: cols},
			pilosa.OptImportOptionsClear(ws[0] == "impclear"))
		if err != nil {
			return "err:import"
		}
		vh.Count(ws[0])
		return "ok"
	case (ws[0] == "roar" || ws[0] == "roarclear") && len(ws) == 4 && isField(ws[1]):
		rows, cols := parseBits(ws[3])
		f, err := pilosa.VerifC16HolderFragment(p.s.Server.Holder(), st.index, ws[1], u(ws[2]))
		if err != nil {
			return "err:fragment"
		}
		if err := f.ImportRoaring(rows, cols, ws[0] == "roarclear"); err != nil {
			return "err:roaring"
		}
		vh.Count(ws[0])
		return "ok"
	case ws[0] == "gset" && len(ws) == 3:
		if _, e := p.query(st, fmt.Sprintf("Set(%d, g=0)", u(ws[1])*sw+u(ws[2]))); e != "" {
			return e
		}
		return "ok"
	case ws[0] == "rows" && len(ws) == 7 && isField(ws[1]):
		res, e := p.query(st, rowsCall(ws[1], kv(ws[2], "prev"), kv(ws[3], "limit"), kv(ws[4], "col"), kv(ws[5], "from"), kv(ws[6], "to")))
		if e != "" {
			return e
		}
		vh.Count("rows")
		return vh.U64s(res[0].(pilosa.RowIdentifiers).Rows)
	case ws[0] == "pagerows" && len(ws) == 6 && isField(ws[1]):
		var all []uint64
		prev := "-"
		pages := 0
		for {
			res, e := p.query(st, rowsCall(ws[1], prev, kv(ws[2], "limit"), kv(ws[3], "col"), kv(ws[4], "from"), kv(ws[5], "to")))
			if e != "" {
				return e
			}
			page := res[0].(pilosa.RowIdentifiers).Rows
			if len(page) == 0 {
				break
			}
			pages++
			all = append(all, page...)
			prev = strconv.FormatUint(page[len(page)-1], 10)
			if pages > 300 {
				return "err:fuel"
			}
		}
		vh.Count("pagerows")
		return fmt.Sprintf("%s pages=%d", vh.U64s(all), pages)
	case ws[0] == "groupby" && len(ws) == 8:
		fields := strings.Split(ws[1], ",")
		var prev []string
		if ps := kv(ws[2], "prev"); ps != "-" {
			prev = strings.Split(ps, ".")
			if len(prev) != len(fields) {
				return "bad-op"
			}
		}
		res, e := p.query(st, groupByCall(fields, prev, kv(ws[3], "limit"), kv(ws[4], "offset"), kv(ws[5], "filter"), kv(ws[6], "climit"), kv(ws[7], "ccol")))
		if e != "" {
			return e
		}
		vh.Count(fmt.Sprintf("groupby-%d", len(fields)))
		return showGCs(res[0].([]pilosa.GroupCount))
	case (ws[0] == "pagegroup" || ws[0] == "pageoffset") && len(ws) == 4:
		fields := strings.Split(ws[1], ",")
		limit := kv(ws[2], "limit")
		lim, _ := strconv.Atoi(limit)
		var all []pilosa.GroupCount
		var prev []string
		pages, off := 0, 0
		for {
			var q string
			if ws[0] == "pagegroup" {
				q = groupByCall(fields, prev, limit, "-", kv(ws[3], "filter"), "-", "-")
			} else {
				q = groupByCall(fields, nil, limit, strconv.Itoa(off), kv(ws[3], "filter"), "-", "-")
			}
			res, e := p.query(st, q)
			if e != "" {
				return e
			}
			page := res[0].([]pilosa.GroupCount)
			if len(page) == 0 {
				break
			}
			pages++
			all = append(all, page...)
			last := page[len(page)-1]
			prev = make([]string, len(last.Group))
			for i, fr := range last.Group {
				prev[i] = strconv.FormatUint(fr.RowID, 10)
			}
			off += lim
			if pages > 300 {
				return "err:fuel"
			}
		}
		vh.Count(ws[0])
		return fmt.Sprintf("%s pages=%d", showGCs(all), pages)
	case (ws[0] == "minrow" || ws[0] == "maxrow") && len(ws) == 3 && isField(ws[1]):
		name := "MinRow"
		if ws[0] == "maxrow" {
			name = "MaxRow"
		}
		q := fmt.Sprintf("%s(field=%s)", name, ws[1])
		if kv(ws[2], "filter") == "g" {
			q = fmt.Sprintf("%s(Row(g=0), field=%s)", name, ws[1])
		}
		res, e := p.query(st, q)
		if e != "" {
			return e
		}
		pr, _ := res[0].(pilosa.Pair)
		vh.Count(ws[0])
		return fmt.Sprintf("%d:%d", pr.ID, pr.Count)
	}
	return "bad-op"
}

func main() {
	p := &prop{}
	defer func() {
		if p.s != nil {
			p.s.Stop()
		}
	}()
	vh.Main(p)
}
