// Harness for C13: mutex and bool fields hold at most one value per column, the last one written.
//
// A case is a history on a real mutex or bool fragment — opened directly (as view.newFragment
// does) or as the standard-view fragment of a real Field, in which case sets, clears and imports
// go through Field.SetBit / Field.ClearBit / Field.Import (bool row check included). Batches
// repeat columns with conflicting rows over columns that already hold a value. After every
// write the value of every column of the universe is read back (mget, rowscol) plus the whole
// storage. Line formats: lean/PV/C07/Driver.lean; real-code side: cmd/c07/fragx.
package main

import (
	"fmt"
	"strings"

	"verifharness/cmd/c07/fragx"
	"verifharness/vh"
)

type prop struct{ fragx.Engine }

func (p *prop) Rule() string {
	return "histories of 6-16 writes on a mutex (rows from {0,1,2,3,99,100}) or bool (rows 0,1; row 2 only in Field.Import batches, which must be refused) " +
		"fragment owned by the harness hook (3/11), a real Field (2/11), a real Holder with index+field (4/11: Field.SetBit/ClearBit/Import, ClearRow on the fragment the holder opened) " +
		"or an in-process server (2/11: PQL Set/Clear/ClearRow, API.Import); close+reopen of the owner (fragment, field, holder, server restart) after ~1 write in 4, so that " +
		"fragments are the ones view.openFragments builds from disk; columns: 1-3 drawn from {0,1,7,65535,65536,SW-1}; writes: set, clear, import of 1-6 entries " +
		"with repeated and conflicting columns (often the column's current value is among them), clear-import, clearrow, snapshot; after each write " +
		"mget / rowscol of every column and the storage; a case is non-trivial when it contains an import batch that repeats a column with two different rows or a reopen"
}

var mutexRows = []uint64{0, 1, 2, 3, 99, 100}
var colPool = []uint64{0, 1, 7, 65535, 65536, fragx.SW - 1}

func (p *prop) Gen(r *vh.Rng, tier string, n int) []vh.Case {
	var cases []vh.Case
	for k := 0; k < n; k++ {
		cr := r.Fork()
		kind := cr.PickS("mutex", "mutex", "bool")
		// who owns the fragment: the harness (hook), a real Field, a real Holder, an in-process server
		mode := cr.PickS("frag", "frag", "frag", "field", "field", "holder", "holder", "holder", "holder", "server", "server")
		field := mode != "frag"
		owned := mode == "holder" || mode == "server"
		perm := cr.Perm(len(colPool))
		var cols []uint64
		for _, i := range perm[:cr.Range(1, 3)] {
			cols = append(cols, colPool[i])
		}
		rows := []uint64{0, 1}
		if kind == "mutex" {
			rows = nil
			for _, i := range cr.Perm(len(mutexRows))[:cr.Range(2, 4)] {
				rows = append(rows, mutexRows[i])
			}
		}
		row := func() uint64 { return rows[cr.Intn(len(rows))] }
		col := func() uint64 { return cols[cr.Intn(len(cols))] }
		var lines []string
		if mode == "holder" {
			lines = append(lines, "openholder a "+kind)
		} else if mode == "server" {
			lines = append(lines, "openserver a "+kind)
		} else if field {
			lines = append(lines, "openfield a "+kind)
		} else {
			lines = append(lines, fmt.Sprintf("open a %s %d %s %d %d", kind, cr.Pick(0, 0, 1), cr.PickS("ranked", "lru", "none"), cr.Pick(0, 0, 1, 2, 5), cr.Pick(0, 0, 0, 1)))
		}
		// current value per column as the generator believes it (only to aim batches; not trusted)
		cur := map[uint64]uint64{}
		has := map[uint64]bool{}
		conflict := false
		reopens := 0
		batch := func(max int, allowBad bool) string {
			m := cr.Range(1, max)
			ss := make([]string, m)
			seen := map[uint64]uint64{}
			seenOK := map[uint64]bool{}
			for i := range ss {
				c, rw := col(), row()
				if has[c] && cr.Chance(1, 3) {
					rw = cur[c] // the value already stored appears inside the batch
				}
				if allowBad && cr.Chance(1, 12) {
					rw = 2
				}
				if seenOK[c] && seen[c] != rw {
					conflict = true
				}
				seen[c], seenOK[c] = rw, true
				ss[i] = fmt.Sprintf("%d:%d", rw, c)
			}
			return strings.Join(ss, ",")
		}
		steps := cr.Range(6, 16)
		if tier == "thorough" {
			steps = cr.Range(6, 28)
		}
		for i := 0; i < steps; i++ {
			switch cr.Intn(10) {
			case 0, 1:
				rw, c := row(), col()
				if owned || (field && cr.Bool()) {
					lines = append(lines, fmt.Sprintf("fset a %d %d", rw, c))
				} else {
					lines = append(lines, fmt.Sprintf("setbit a %d %d", rw, c))
				}
				cur[c], has[c] = rw, true
			case 2:
				rw, c := row(), col()
				if has[c] && cr.Bool() {
					rw = cur[c]
				}
				if owned || (field && cr.Bool()) {
					lines = append(lines, fmt.Sprintf("fclear a %d %d", rw, c))
				} else {
					lines = append(lines, fmt.Sprintf("clearbit a %d %d", rw, c))
				}
				if has[c] && cur[c] == rw {
					has[c] = false
				}
			case 3, 4, 5, 6:
				if owned || (field && cr.Chance(2, 3)) {
					lines = append(lines, "fimport a 0 "+batch(6, kind == "bool"))
				} else {
					lines = append(lines, "import a 0 "+batch(6, false))
				}
				// believed values are refreshed lazily: unknown after a batch
				for _, c := range cols {
					delete(has, c)
				}
			case 7:
				if owned || (field && cr.Bool()) {
					lines = append(lines, "fimport a 1 "+batch(4, false))
				} else {
					lines = append(lines, "import a 1 "+batch(4, false))
				}
				for _, c := range cols {
					delete(has, c)
				}
			case 8:
				if owned {
					lines = append(lines, fmt.Sprintf("fclearrow a %d", row()))
				} else {
					lines = append(lines, fmt.Sprintf("clearrow a %d", row()))
				}
				for _, c := range cols {
					delete(has, c)
				}
			default:
				if owned || cr.Bool() {
					lines = append(lines, "reopen a")
					reopens++
				} else {
					lines = append(lines, "snapshot a")
				}
			}
			// a restart between two writes of the same column is what loses a mutex vector
			if cr.Chance(1, 6) {
				lines = append(lines, "reopen a")
				reopens++
			}
			for _, c := range cols {
				if cr.Bool() {
					lines = append(lines, fmt.Sprintf("mget a %d", c))
				} else {
					lines = append(lines, fmt.Sprintf("rowscol a %d", c))
				}
			}
			if cr.Chance(1, 3) {
				lines = append(lines, "bits a")
			}
			if cr.Chance(1, 4) {
				lines = append(lines, fmt.Sprintf("row a %d", row()))
			}
		}
		lines = append(lines, "bits a", "rows a")
		cases = append(cases, vh.Case{Lines: lines, Nontrivial: conflict || reopens > 0})
	}
	return cases
}

func main() { vh.Main(&prop{}) }
