// Harness for C26: PQL text is parsed faithfully; forwarded calls re-parse to the same call.
//
// Line formats are documented in lean/PV/C26/Main.lean.
//
//	parse <hex>              pql.ParseString on the text; dump of the calls (dynamic types shown)
//	lit <hex> NAME N WARG..  the same, for a flat call written from structurally described literals
//	fwd N CALL..             build the calls as pql.Call values, Query.String() (what remoteExec sends),
//	                         pql.ParseString on that text; output hex(text)|dump
//
// The model side (pm_c26) interprets the PEG grammar regenerated from pql/pql.peg, runs the model of
// the action machine of ast.go and of Call.String and prints the same canonical text.
package main

import (
	"encoding/hex"
	"fmt"
	"sort"
	"strconv"
	"strings"
	"unicode/utf8"

	"github.com/pilosa/pilosa/pql"
	"verifharness/vh"
)

type prop struct{}

func (p *prop) Rule() string {
	return "three kinds of lines: (parse) queries generated from the grammar - every call form incl. the special forms Set/Clear/SetRowAttrs/SetColumnAttrs/ClearRow/Store/TopN/Rows/Range, " +
		"nested calls, call-valued arguments, conditions, between-ranges, lists, timestamps in all three quote styles, numbers in every written form, both string quote styles with " +
		"escapes and characters drawn from ASCII punctuation, 2/3/4-byte code points, unprintable and format characters, random white space - one in five mutated by a character edit or a " +
		"duplicated argument; (lit) flat calls whose arguments are described structurally (value known by construction) and written in a fixed style; (fwd) random calls of the forwardable " +
		"domain (uint64 keys, []int64/[]uint64 id lists, nil, floats, arbitrary byte strings incl. invalid UTF-8, conditions, nested and call-valued arguments) printed with Query.String and " +
		"re-parsed. Non-trivial = contains a non-ASCII or escaped string, a float, a list, a condition, a nested call or a typed integer value"
}

// ---------- dump (mirror of dumpVal/dumpCall in lean/PV/C26/Model.lean) ----------

var opNames = map[pql.Token]string{pql.ILLEGAL: "ILLEGAL", pql.ASSIGN: "ASSIGN", pql.EQ: "EQ", pql.NEQ: "NEQ", pql.LT: "LT",
	pql.LTE: "LTE", pql.GT: "GT", pql.GTE: "GTE", pql.BETWEEN: "BETWEEN"}

func dumpVal(v interface{}) string {
	switch v := v.(type) {
	case nil:
		return "n"
	case bool:
		if v {
			return "b1"
		}
		return "b0"
	case int64:
		return "i" + strconv.FormatInt(v, 10)
	case uint64:
		return "u" + strconv.FormatUint(v, 10)
	case float64:
		return "f" + strconv.FormatFloat(v, 'f', -1, 64)
	case string:
		return "s" + hex.EncodeToString([]byte(v))
	case []interface{}:
		parts := make([]string, len(v))
		for i := range v {
			parts[i] = dumpVal(v[i])
		}
		return "l[" + strings.Join(parts, ",") + "]"
	case []int64:
		parts := make([]string, len(v))
		for i := range v {
			parts[i] = strconv.FormatInt(v[i], 10)
		}
		return "I[" + strings.Join(parts, ",") + "]"
	case []uint64:
		parts := make([]string, len(v))
		for i := range v {
			parts[i] = strconv.FormatUint(v[i], 10)
		}
		return "U[" + strings.Join(parts, ",") + "]"
	case *pql.Condition:
		if v == nil {
			return "?nilcond"
		}
		return "c" + opNames[v.Op] + "(" + dumpVal(v.Value) + ")"
	case *pql.Call:
		if v == nil {
			return "?nilcall"
		}
		return "C" + dumpCall(v)
	}
	return fmt.Sprintf("?%T", v)
}

func dumpCall(c *pql.Call) string {
	kids := make([]string, len(c.Children))
	for i, k := range c.Children {
		kids[i] = dumpCall(k)
	}
	keys := make([]string, 0, len(c.Args))
	for k := range c.Args {
		keys = append(keys, k)
	}
	sort.Strings(keys)
	args := make([]string, len(keys))
	for i, k := range keys {
		args[i] = k + "=" + dumpVal(c.Args[k])
	}
	return c.Name + "(" + strings.Join(kids, ",") + ";" + strings.Join(args, ",") + ")"
}

func dumpQuery(q *pql.Query) string {
	parts := make([]string, len(q.Calls))
	for i, c := range q.Calls {
		parts[i] = dumpCall(c)
	}
	return strings.Join(parts, "|")
}

func parseDump(text string) (out string) {
	defer func() {
		if e := recover(); e != nil {
			out = "panic:parse"
		}
	}()
	q, err := pql.ParseString(text)
	if err != nil {
		msg := err.Error()
		switch {
		case strings.Contains(msg, "duplicate argument provided"):
			vh.Count("err-dup")
			return "err:dup"
		case strings.Contains(msg, "integer is not in signed 64-bit range"):
			vh.Count("err-range")
			return "err:range"
		case strings.Contains(msg, "invalid string literal"):
			vh.Count("err-badstr")
			return "err:badstr"
		case strings.Contains(msg, "unexpected parser error"):
			vh.Count("err-internal")
			return "err:internal"
		case strings.HasPrefix(msg, "parsing"):
			vh.Count("err-syntax")
			return "err:syntax"
		}
		return "err:other"
	}
	return dumpQuery(q)
}

// ---------- AST tokens -> pql.Call ----------

type toks struct {
	t []string
	i int
}

func (t *toks) next() string {
	if t.i >= len(t.t) {
		panic("token underflow")
	}
	s := t.t[t.i]
	t.i++
	return s
}

var opByName = map[string]pql.Token{"ILLEGAL": pql.ILLEGAL, "ASSIGN": pql.ASSIGN, "EQ": pql.EQ, "NEQ": pql.NEQ, "LT": pql.LT,
	"LTE": pql.LTE, "GT": pql.GT, "GTE": pql.GTE, "BETWEEN": pql.BETWEEN}

func atoi(s string) int {
	n, err := strconv.Atoi(s)
	if err != nil {
		panic("bad count " + s)
	}
	return n
}

func (t *toks) val() interface{} {
	s := t.next()
	switch {
	case s == "n":
		return nil
	case s == "b0":
		return false
	case s == "b1":
		return true
	case s == "C":
		return t.call()
	}
	switch s[0] {
	case 'i':
		v, err := strconv.ParseInt(s[1:], 10, 64)
		if err != nil {
			panic(err)
		}
		return v
	case 'u':
		v, err := strconv.ParseUint(s[1:], 10, 64)
		if err != nil {
			panic(err)
		}
		return v
	case 'f':
		v, err := strconv.ParseFloat(s[1:], 64)
		if err != nil {
			panic(err)
		}
		return v
	case 's':
		b, err := hex.DecodeString(s[1:])
		if err != nil {
			panic(err)
		}
		return string(b)
	case 'l':
		k := atoi(s[1:])
		l := make([]interface{}, k)
		for i := range l {
			l[i] = t.val()
		}
		return l
	case 'I':
		l := []int64{}
		if s != "I" {
			for _, p := range strings.Split(s[1:], ",") {
				v, err := strconv.ParseInt(p, 10, 64)
				if err != nil {
					panic(err)
				}
				l = append(l, v)
			}
		}
		return l
	case 'U':
		l := []uint64{}
		if s != "U" {
			for _, p := range strings.Split(s[1:], ",") {
				v, err := strconv.ParseUint(p, 10, 64)
				if err != nil {
					panic(err)
				}
				l = append(l, v)
			}
		}
		return l
	case 'c':
		op, ok := opByName[s[1:]]
		if !ok {
			panic("bad op " + s)
		}
		return &pql.Condition{Op: op, Value: t.val()}
	}
	panic("bad value token " + s)
}

func (t *toks) call() *pql.Call {
	name := t.next()
	if name == "-" {
		name = ""
	}
	na, nc := atoi(t.next()), atoi(t.next())
	c := &pql.Call{Name: name}
	for i := 0; i < na; i++ {
		k := t.next()
		if c.Args == nil {
			c.Args = map[string]interface{}{}
		}
		c.Args[k] = t.val()
	}
	for i := 0; i < nc; i++ {
		c.Children = append(c.Children, t.call())
	}
	return c
}

// ---------- Exec ----------

func (p *prop) Exec(lines []string) []string {
	outs := make([]string, len(lines))
	for i, l := range lines {
		outs[i] = vh.Guard("exec", func() string { return execLine(l) })
	}
	return outs
}

func execLine(l string) string {
	ws := strings.Fields(l)
	if len(ws) == 0 {
		return "bad-op"
	}
	switch ws[0] {
	case "parse":
		text := ""
		if len(ws) > 1 {
			b, err := hex.DecodeString(ws[1])
			if err != nil || !utf8.Valid(b) {
				return "bad-op"
			}
			text = string(b)
		}
		return parseDump(text)
	case "lit":
		if len(ws) < 4 {
			return "bad-op"
		}
		b, err := hex.DecodeString(ws[1])
		if err != nil || !utf8.Valid(b) {
			return "bad-op"
		}
		return parseDump(string(b))
	case "fwd":
		if len(ws) < 2 {
			return "bad-op"
		}
		t := &toks{t: ws[2:]}
		n := atoi(ws[1])
		q := &pql.Query{}
		for i := 0; i < n; i++ {
			q.Calls = append(q.Calls, t.call())
		}
		if t.i != len(t.t) {
			return "bad-op"
		}
		text := q.String()
		if !utf8.ValidString(text) {
			// Query.String of a valid call is valid UTF-8 (%q escapes invalid bytes); names/keys are ASCII
			return "bad-op"
		}
		return hex.EncodeToString([]byte(text)) + "|" + parseDump(text)
	}
	return "bad-op"
}

// ---------- generation ----------

// characters for string contents: ASCII incl. both quotes and backslash, multi-byte, unprintable, format
var charPool = []rune{'a', 'b', 'z', 'A', 'Z', '0', '9', ' ', '_', '-', ':', '.', ',', '(', ')', '[', ']', '=', '<', '>', '!',
	'"', '\'', '\\', '/', '#', 'T',
	0xe9, 0xdf, 0x3a3, 0x20ac, 0x4e2d, 0x1f600, 0x10348, 0xfffd, 0xad, 0x200b, 0x2028, 0xfeff, 0xe000, 0x10ffff, 0x7f, 0x80, 0x9f, 0xa0,
	0x01, 0x07, 0x08, 0x09, 0x0a, 0x0b, 0x0c, 0x0d, 0x1b, 0x00}

func genIdent(r *vh.Rng) string {
	names := []string{"f", "g", "h", "fld", "a1", "Zz", "x9y", "n"}
	return r.PickS(names...)
}

func genFieldName(r *vh.Rng) string {
	if r.Chance(1, 6) {
		return r.PickS("_row", "_col", "_start", "_end", "_timestamp", "_field")
	}
	names := []string{"f", "g", "h", "k", "a-b", "a_b", "x1", "Fld", "from", "to", "ids", "n", "true", "null", "limit", "previous", "field", "row", "col", "Set", "Row"}
	return r.PickS(names...)
}

func genCallName(r *vh.Rng) string {
	return r.PickS("Row", "Union", "Intersect", "Count", "Not", "Xor", "Difference", "Sum", "Min", "Max", "GroupBy", "Options",
		"MinRow", "MaxRow", "Shift", "Bitmap", "X", "a1", "Settings", "TopNx", "Rowsy", "Clearing", "null1", "trueish",
		"Set", "Clear", "ClearRow", "Store", "TopN", "Rows", "Range", "SetRowAttrs", "SetColumnAttrs")
}

func ws(r *vh.Rng) string {
	switch r.Intn(12) {
	case 0:
		return " "
	case 1:
		return "  "
	case 2:
		return "\t"
	case 3:
		return "\n"
	}
	return ""
}

func genTimestamp(r *vh.Rng) string {
	return fmt.Sprintf("%04d-%s-%s%dT%02d:%02d", r.Range(0, 9999), r.PickS("01", "12", "09", "19"), r.PickS("0", "1", "2", "3"), r.Range(0, 9), r.Range(0, 99), r.Range(0, 99))
}

func genDigits(r *vh.Rng, lo, hi int) string {
	n := r.Range(lo, hi)
	var sb strings.Builder
	for i := 0; i < n; i++ {
		sb.WriteByte(byte('0' + r.Intn(10)))
	}
	return sb.String()
}

func genIntText(r *vh.Rng) string {
	switch r.Intn(12) {
	case 0:
		return "9223372036854775807"
	case 1:
		return "-9223372036854775808"
	case 2:
		return "9223372036854775808"
	case 3:
		return "-9223372036854775809"
	case 4:
		return "0"
	case 5:
		return "-0"
	case 6:
		return "00" + genDigits(r, 1, 3)
	case 7:
		return "99999999999999999999" + genDigits(r, 0, 3)
	}
	s := genDigits(r, 1, 5)
	if r.Chance(1, 3) {
		s = "-" + s
	}
	return s
}

// genFloatText: at most 15 significant digits so that float64 round-trips the decimal exactly.
func genFloatText(r *vh.Rng) string {
	neg := ""
	if r.Chance(1, 3) {
		neg = "-"
	}
	switch r.Intn(6) {
	case 0:
		return neg + "." + genDigits(r, 1, 6)
	case 1:
		return neg + genDigits(r, 1, 6) + "."
	case 2:
		return neg + "0.0"
	case 3:
		return neg + "1000000.0"
	}
	return neg + genDigits(r, 1, 6) + "." + genDigits(r, 0, 6)
}

func genRunes(r *vh.Rng, maxLen int) []rune {
	n := r.Range(0, maxLen)
	out := make([]rune, n)
	for i := range out {
		out[i] = charPool[r.Intn(len(charPool))]
	}
	return out
}

// dq string literal text for arbitrary content, with a random mix of raw characters and escapes.
func genDqText(r *vh.Rng) string {
	var sb strings.Builder
	sb.WriteByte('"')
	for _, c := range genRunes(r, 6) {
		switch {
		case c == '"':
			sb.WriteString(`\"`)
		case c == '\\':
			sb.WriteString(`\\`)
		case c == '\n':
			if r.Chance(1, 4) {
				sb.WriteRune(c) // raw newline: the literal is rejected
			} else {
				sb.WriteString(`\n`)
			}
		default:
			switch r.Intn(8) {
			case 0:
				if c < 0x10000 {
					fmt.Fprintf(&sb, `\u%04x`, c)
				} else {
					fmt.Fprintf(&sb, `\U%08x`, c)
				}
			case 1:
				if c < 0x100 {
					fmt.Fprintf(&sb, `\x%02X`, c)
				} else {
					sb.WriteRune(c)
				}
			case 2:
				if c < 0x100 {
					fmt.Fprintf(&sb, `\%03o`, c)
				} else {
					sb.WriteRune(c)
				}
			default:
				sb.WriteRune(c)
			}
		}
	}
	if r.Chance(1, 10) {
		sb.WriteString(r.PickS(`\q`, `\'`, `\x4`, `\u12`, `\400`, `\ud800`, `\U00110000`, `\xff`, `\a\b\f\r\t\v`, `\8`, `\xZZ`))
	}
	sb.WriteByte('"')
	return sb.String()
}

func genSqText(r *vh.Rng) string {
	var sb strings.Builder
	sb.WriteByte('\'')
	for _, c := range genRunes(r, 6) {
		switch c {
		case '\'':
			sb.WriteString(`\'`)
		case '\\':
			if r.Bool() {
				sb.WriteString(`\\`)
			} else {
				sb.WriteString(`\x`)
			}
		default:
			sb.WriteRune(c)
		}
	}
	sb.WriteByte('\'')
	return sb.String()
}

func genItemText(r *vh.Rng, depth int, nontrivial *bool) string {
	switch r.Intn(14) {
	case 0:
		return "null"
	case 1:
		return r.PickS("true", "false")
	case 2:
		*nontrivial = true
		ts := genTimestamp(r)
		switch r.Intn(3) {
		case 0:
			return ts
		case 1:
			return `"` + ts + `"`
		}
		return "'" + ts + "'"
	case 3, 4:
		return genIntText(r)
	case 5:
		*nontrivial = true
		return genFloatText(r)
	case 6:
		if depth > 0 {
			*nontrivial = true
			return genCallText(r, depth-1, nontrivial)
		}
		return "7"
	case 7:
		return r.PickS("abc", "ag-bee", "a:b", "_x", "-", "truex", "nullify", "12ab", "x-1", "T", "2017-01-01T00:0")
	case 8, 9, 10:
		*nontrivial = true
		return genDqText(r)
	}
	*nontrivial = true
	return genSqText(r)
}

func genValueText(r *vh.Rng, depth int, nontrivial *bool) string {
	if r.Chance(1, 6) {
		*nontrivial = true
		n := r.Range(1, 4)
		var parts []string
		for i := 0; i < n; i++ {
			parts = append(parts, genItemText(r, depth, nontrivial))
		}
		return "[" + ws(r) + strings.Join(parts, ws(r)+","+ws(r)) + ws(r) + "]"
	}
	return genItemText(r, depth, nontrivial)
}

func genArgText(r *vh.Rng, depth int, nontrivial *bool) string {
	switch r.Intn(10) {
	case 0:
		*nontrivial = true
		op := r.PickS("><", "<=", ">=", "==", "!=", "<", ">")
		var v string
		if op == "><" || r.Chance(1, 4) {
			v = "[" + genIntText(r) + "," + ws(r) + r.PickS(genIntText(r), genFloatText(r), `"x"`, "true") + "]"
		} else {
			v = genValueText(r, depth, nontrivial)
		}
		return genFieldName(r) + ws(r) + op + ws(r) + v
	case 1:
		*nontrivial = true
		return genIntText(r) + ws(r) + r.PickS("<", "<=") + ws(r) + r.PickS("f", "g", "a-b", "x1") + ws(r) + r.PickS("<", "<=") + ws(r) + genIntText(r)
	}
	return genFieldName(r) + ws(r) + "=" + ws(r) + genValueText(r, depth, nontrivial)
}

func genArgsText(r *vh.Rng, depth int, nontrivial *bool, min int) string {
	n := r.Range(min, 3)
	var parts []string
	for i := 0; i < n; i++ {
		parts = append(parts, genArgText(r, depth, nontrivial))
	}
	return strings.Join(parts, ws(r)+","+ws(r))
}

func genColText(r *vh.Rng, nontrivial *bool) string {
	switch r.Intn(4) {
	case 0:
		*nontrivial = true
		return genSqText(r)
	case 1:
		*nontrivial = true
		s := genDqText(r)
		return s
	}
	return r.PickS("0", "10", "7", "01", "18446744073709551615")
}

func genCallText(r *vh.Rng, depth int, nontrivial *bool) string {
	name := genCallName(r)
	open := "(" + ws(r)
	cl := ws(r) + ")"
	if r.Chance(2, 3) {
		switch name {
		case "Set":
			s := "Set" + open + genColText(r, nontrivial) + ws(r) + "," + ws(r) + genArgsText(r, depth, nontrivial, 1)
			if r.Chance(1, 3) {
				s += ws(r) + "," + ws(r) + genItemTS(r)
			}
			return s + cl
		case "Clear", "SetColumnAttrs":
			return name + open + genColText(r, nontrivial) + "," + ws(r) + genArgsText(r, depth, nontrivial, 1) + cl
		case "SetRowAttrs":
			return name + open + genIdent(r) + "," + ws(r) + genColText(r, nontrivial) + "," + genArgsText(r, depth, nontrivial, 1) + cl
		case "ClearRow":
			return name + open + genArgText(r, depth, nontrivial) + cl
		case "Store":
			return name + open + genCallText(r, depth-1, nontrivial) + "," + ws(r) + genArgText(r, depth, nontrivial) + cl
		case "TopN", "Rows":
			s := name + open + genIdent(r)
			if r.Bool() {
				s += "," + ws(r) + genAllArgsText(r, depth, nontrivial)
			}
			return s + cl
		case "Range":
			return name + open + genFieldName(r) + "=" + genValueText(r, 0, nontrivial) + "," + ws(r) + r.PickS("from=", "") + genItemTS(r) + "," + r.PickS("to=", "") + ws(r) + genItemTS(r) + cl
		}
	}
	s := name + open + genAllArgsText(r, depth, nontrivial)
	if r.Chance(1, 10) {
		s += ","
	}
	return s + cl
}

func genItemTS(r *vh.Rng) string {
	ts := genTimestamp(r)
	switch r.Intn(3) {
	case 0:
		return ts
	case 1:
		return `"` + ts + `"`
	}
	return "'" + ts + "'"
}

func genAllArgsText(r *vh.Rng, depth int, nontrivial *bool) string {
	var parts []string
	if depth > 0 {
		nc := r.Pick(0, 0, 1, 1, 2, 3)
		for i := 0; i < nc; i++ {
			*nontrivial = true
			parts = append(parts, genCallText(r, depth-1, nontrivial))
		}
	}
	if r.Chance(3, 4) || len(parts) == 0 {
		if a := genArgsText(r, depth, nontrivial, 0); a != "" {
			parts = append(parts, a)
		}
	}
	return strings.Join(parts, ws(r)+","+ws(r))
}

func mutate(r *vh.Rng, s string) string {
	rs := []rune(s)
	if len(rs) == 0 {
		return s
	}
	i := r.Intn(len(rs))
	switch r.Intn(4) {
	case 0:
		return string(rs[:i]) + string(rs[i+1:])
	case 1:
		ins := []rune{'(', ')', ',', '=', '"', '\'', '[', ']', ' ', '<', '>', '\\', 'x', '1', '.', '-', 0xe9}
		return string(rs[:i]) + string(ins[r.Intn(len(ins))]) + string(rs[i:])
	case 2:
		rs[i] = []rune{'(', ')', ',', '=', '"', '\'', '[', ']', ' ', 'a', '0', 0x4e2d}[r.Intn(12)]
		return string(rs)
	}
	// duplicate a chunk
	j := i + r.Intn(len(rs)-i)
	return string(rs[:j]) + string(rs[i:j]) + string(rs[j:])
}

func hx(s string) string { return hex.EncodeToString([]byte(s)) }

// hasLongFloat: a numeral with a '.' and more than 15 digits; float64 does not hold such a decimal
// exactly and the model (floats as decimal text) is only claimed for <= 15 significant digits.
func hasLongFloat(s string) bool {
	digits, dot := 0, false
	for i := 0; i <= len(s); i++ {
		if i < len(s) && (s[i] == '.' || (s[i] >= '0' && s[i] <= '9')) {
			if s[i] == '.' {
				dot = true
			} else {
				digits++
			}
			continue
		}
		if dot && digits > 15 {
			return true
		}
		digits, dot = 0, false
	}
	return false
}

// ----- lit lines -----

type litGen struct {
	text, tok string
}

func genLit(r *vh.Rng, depth int, nontrivial *bool) litGen {
	switch r.Intn(12) {
	case 0:
		return litGen{"null", "null"}
	case 1:
		b := r.PickS("true", "false")
		return litGen{b, b}
	case 2, 3:
		t := genIntText(r)
		return litGen{t, "int" + t}
	case 4:
		*nontrivial = true
		t := genFloatText(r)
		return litGen{t, "flt" + t}
	case 5, 6:
		*nontrivial = true
		var text strings.Builder
		var items []string
		text.WriteByte('"')
		for _, c := range genRunes(r, 6) {
			switch {
			case c == '"' || c == '\\':
				fmt.Fprintf(&text, `\%c`, c)
				items = append(items, fmt.Sprintf("e%x", c))
			case c == '\n':
				text.WriteString(`\n`)
				items = append(items, fmt.Sprintf("e%x", 'n'))
			case c == 7 || c == 8 || c == 12 || c == 13 || c == 9 || c == 11:
				letter := map[rune]rune{7: 'a', 8: 'b', 12: 'f', 13: 'r', 9: 't', 11: 'v'}[c]
				if r.Bool() {
					fmt.Fprintf(&text, `\%c`, letter)
					items = append(items, fmt.Sprintf("e%x", letter))
				} else {
					text.WriteRune(c)
					items = append(items, fmt.Sprintf("c%x", c))
				}
			default:
				switch r.Intn(8) {
				case 0:
					if c < 0x10000 {
						fmt.Fprintf(&text, `\u%04x`, c)
						items = append(items, fmt.Sprintf("u%d", c))
					} else {
						fmt.Fprintf(&text, `\U%08x`, c)
						items = append(items, fmt.Sprintf("U%d", c))
					}
				case 1:
					b := r.Intn(256)
					fmt.Fprintf(&text, `\x%02x`, b)
					items = append(items, fmt.Sprintf("x%d", b))
				case 2:
					b := r.Intn(256)
					fmt.Fprintf(&text, `\%03o`, b)
					items = append(items, fmt.Sprintf("o%d", b))
				default:
					text.WriteRune(c)
					items = append(items, fmt.Sprintf("c%x", c))
				}
			}
		}
		text.WriteByte('"')
		return litGen{text.String(), "dq" + strings.Join(items, ";")}
	case 7:
		*nontrivial = true
		var text strings.Builder
		var items []string
		text.WriteByte('\'')
		for _, c := range genRunes(r, 5) {
			switch c {
			case '\'':
				text.WriteString(`\'`)
				items = append(items, "q")
			case '\\':
				text.WriteString(`\\`)
				items = append(items, "b")
			default:
				text.WriteRune(c)
				items = append(items, fmt.Sprintf("c%x", c))
			}
		}
		text.WriteByte('\'')
		return litGen{text.String(), "sq" + strings.Join(items, ";")}
	case 8:
		t := r.PickS("abc", "ag-bee", "a:b", "_x", "-", "truex", "nullify", "x-1", "T", "falsey", "a1")
		return litGen{t, "bare" + t}
	case 9:
		*nontrivial = true
		ts := genTimestamp(r)
		switch r.Intn(3) {
		case 0:
			return litGen{ts, "ts0" + ts}
		case 1:
			return litGen{`"` + ts + `"`, "ts1" + ts}
		}
		return litGen{"'" + ts + "'", "ts2" + ts}
	}
	if depth > 0 {
		*nontrivial = true
		n := r.Range(1, 4)
		var texts, toks []string
		for i := 0; i < n; i++ {
			l := genLit(r, 0, nontrivial)
			texts = append(texts, l.text)
			toks = append(toks, l.tok)
		}
		return litGen{"[" + strings.Join(texts, ",") + "]", fmt.Sprintf("list%d ", n) + strings.Join(toks, " ")}
	}
	return litGen{"7", "int7"}
}

var opSyms = map[string]string{"EQ": "==", "NEQ": "!=", "LT": "<", "LTE": "<=", "GT": ">", "GTE": ">=", "BETWEEN": "><"}

func genLitLine(r *vh.Rng, nontrivial *bool) string {
	name := r.PickS("Row", "Count", "X", "Union", "Bitmap", "a1")
	keys := []string{"f", "g", "h", "a-b", "x1", "_row", "from", "k"}
	perm := r.Perm(len(keys))
	n := r.Range(1, 3)
	var texts, toks []string
	for i := 0; i < n; i++ {
		key := keys[perm[i]]
		switch r.Intn(8) {
		case 0:
			*nontrivial = true
			op := r.PickS("EQ", "NEQ", "LT", "LTE", "GT", "GTE")
			l := genLit(r, 0, nontrivial)
			texts = append(texts, key+" "+opSyms[op]+" "+l.text)
			toks = append(toks, "kc "+key+" "+op+" "+l.tok)
		case 1:
			*nontrivial = true
			op := r.PickS("BETWEEN", "EQ")
			a, b := r.Range(-50, 50), r.Range(-50, 50)
			texts = append(texts, fmt.Sprintf("%s %s [%d,%d]", key, opSyms[op], a, b))
			toks = append(toks, fmt.Sprintf("kc %s %s list2 int%d int%d", key, op, a, b))
		case 2:
			*nontrivial = true
			if strings.HasPrefix(key, "_") {
				key = "c" + key
			}
			lo, hi := int64(r.Range(-100, 100)), int64(r.Range(-100, 100))
			if r.Chance(1, 8) {
				hi = 9223372036854775807
			}
			if r.Chance(1, 8) {
				lo = -9223372036854775808
			}
			sl, sh := r.PickS("lt", "le"), r.PickS("lt", "le")
			sym := map[string]string{"lt": "<", "le": "<="}
			if (sl == "lt" && lo == 9223372036854775807) || (sh == "lt" && hi == -9223372036854775808) {
				sl, sh = "le", "le"
			}
			texts = append(texts, fmt.Sprintf("%d %s %s %s %d", lo, sym[sl], key, sym[sh], hi))
			toks = append(toks, fmt.Sprintf("bt %d %s %s %s %d", lo, sl, key, sh, hi))
		default:
			l := genLit(r, 1, nontrivial)
			texts = append(texts, key+"="+l.text)
			toks = append(toks, "kv "+key+" "+l.tok)
		}
	}
	text := name + "(" + strings.Join(texts, ", ") + ")"
	return fmt.Sprintf("lit %s %s %d %s", hx(text), name, n, strings.Join(toks, " "))
}

// ----- fwd lines -----

func genBytes(r *vh.Rng) []byte {
	var b []byte
	n := r.Range(0, 5)
	for i := 0; i < n; i++ {
		switch r.Intn(10) {
		case 0:
			b = append(b, []byte{0xff, 0xc3, 0xed, 0xa0, 0x80, 0xc0, 0xf4, 0x90, 0xe2, 0x82, 0xf0, 0x9f, 0x98, 0xfe, 0xbf, 0x8f}[r.Intn(16)])
		default:
			b = append(b, []byte(string(charPool[r.Intn(len(charPool))]))...)
		}
	}
	return b
}

func genFwdFloat(r *vh.Rng) string {
	// canonical text of a float with <= 15 significant digits
	f, _ := strconv.ParseFloat(genFloatText(r), 64)
	if r.Chance(1, 6) {
		f = []float64{1e6, 1e21, 1e-7, 2.5e10, 123456789012345, 0.000001, 1e15}[r.Intn(7)]
	}
	return strconv.FormatFloat(f, 'f', -1, 64)
}

// feature: at most one known-deviation feature per case so that tags stay narrow
type fwdCtx struct {
	r       *vh.Rng
	feature int // 0 none, 1 uint64, 2 typed id lists, 3 list ending in a keyword
	nontriv bool
}

func (c *fwdCtx) scalar() string {
	r := c.r
	switch r.Intn(9) {
	case 0:
		return "n"
	case 1:
		return r.PickS("b0", "b1")
	case 2, 3:
		return "i" + strconv.FormatInt(int64(r.Pick(0, 1, -1, 7, 42, -300, 65536)), 10)
	case 4:
		return "i" + r.PickS("9223372036854775807", "-9223372036854775808")
	case 5:
		c.nontriv = true
		return "f" + genFwdFloat(r)
	case 6:
		if c.feature == 1 {
			c.nontriv = true
			return "u" + strconv.FormatUint(uint64(r.Pick(0, 1, 5, 1048576)), 10)
		}
		return "i5"
	}
	c.nontriv = true
	return "s" + hex.EncodeToString(genBytes(r))
}

func (c *fwdCtx) val(depth int) string {
	r := c.r
	switch r.Intn(10) {
	case 0:
		c.nontriv = true
		n := r.Range(1, 4)
		parts := make([]string, n)
		for i := range parts {
			parts[i] = c.scalar()
			if depth > 0 && r.Chance(1, 6) {
				parts[i] = "C " + c.call(depth-1)
			}
		}
		last := parts[n-1]
		if last == "n" || last == "b0" || last == "b1" {
			if c.feature != 3 {
				parts[n-1] = "i0"
			}
		}
		return fmt.Sprintf("l%d %s", n, strings.Join(parts, " "))
	case 1:
		if c.feature == 2 {
			c.nontriv = true
			n := r.Range(1, 4)
			parts := make([]string, n)
			for i := range parts {
				parts[i] = strconv.Itoa(r.Range(0, 50))
			}
			return r.PickS("I", "U") + strings.Join(parts, ",")
		}
		return "i1"
	case 2:
		c.nontriv = true
		op := r.PickS("EQ", "NEQ", "LT", "LTE", "GT", "GTE")
		if r.Chance(1, 4) {
			return fmt.Sprintf("c%s l2 i%d f%s", op, r.Range(-5, 5), genFwdFloat(r))
		}
		return "c" + op + " " + c.scalar()
	case 3:
		c.nontriv = true
		return fmt.Sprintf("cBETWEEN l2 i%d i%d", r.Range(-9, 9), r.Range(-9, 9))
	case 4:
		if depth > 0 {
			c.nontriv = true
			return "C " + c.call(depth-1)
		}
	}
	return c.scalar()
}

func (c *fwdCtx) call(depth int) string {
	r := c.r
	name := genCallName(r)
	keys := []string{"f", "g", "h", "a-b", "x1", "_row", "_col", "_field", "_timestamp", "from", "to", "ids", "n", "k_2", "true", "Set"}
	perm := r.Perm(len(keys))
	na := r.Range(0, 3)
	nc := 0
	if depth > 0 {
		nc = r.Pick(0, 0, 1, 2)
	}
	var sb strings.Builder
	fmt.Fprintf(&sb, "%s %d %d", name, na, nc)
	for i := 0; i < na; i++ {
		sb.WriteString(" " + keys[perm[i]] + " " + c.val(depth))
	}
	for i := 0; i < nc; i++ {
		c.nontriv = true
		sb.WriteString(" " + c.call(depth-1))
	}
	return sb.String()
}

func (p *prop) Gen(r *vh.Rng, tier string, n int) []vh.Case {
	var cases []vh.Case
	for k := 0; k < n; k++ {
		cr := r.Fork()
		nontrivial := false
		var line string
		switch cr.Intn(10) {
		case 0, 1, 2, 3:
			nq := cr.Pick(1, 1, 1, 2)
			var parts []string
			for i := 0; i < nq; i++ {
				parts = append(parts, genCallText(cr, 2, &nontrivial))
			}
			text := ws(cr) + strings.Join(parts, ws(cr)) + ws(cr)
			if cr.Chance(1, 5) {
				if m := mutate(cr, text); !hasLongFloat(m) {
					text = m
					vh.Count("parse-mutated")
				}
			}
			line = "parse " + hx(text)
		case 4, 5, 6:
			line = genLitLine(cr, &nontrivial)
		default:
			c := &fwdCtx{r: cr, feature: cr.Pick(0, 0, 0, 0, 1, 2, 3)}
			nq := cr.Pick(1, 1, 1, 2)
			var parts []string
			for i := 0; i < nq; i++ {
				parts = append(parts, c.call(2))
			}
			nontrivial = c.nontriv
			line = fmt.Sprintf("fwd %d %s", nq, strings.Join(parts, " "))
		}
		cases = append(cases, vh.Case{Lines: []string{line}, Nontrivial: nontrivial})
	}
	return cases
}

func main() { vh.Main(&prop{}) }
