// Harness for C23: the state gate of every API entry point, on a real in-process server.
//
// Line format (lean/PV/C23/Main.lean):
//
//	call <STARTING|NORMAL|DEGRADED|RESIZING> <EntryPointName> [<request shape>]
//
// Entry points whose body takes different paths BEFORE acting, depending on the request, are invoked
// with every such request shape (`variants`): Query local/remote, with/without Shards, read/write,
// with keys; Import/ImportValue by ids, by column keys, by row keys, with the clear and
// IgnoreKeyCheck options; ImportRoaring and ApplySchema with remote true/false.
//
// The server is put into the named cluster state through the verif hook, the entry point (an
// exported method of *pilosa.API, found by reflection so that a method added to the source is
// exercised without touching this file) is invoked with small valid arguments, and the answer is
//
//	admitted            the call got past API.validate (whatever it returned afterwards)
//	refused unchanged   it returned the method-not-allowed error and schema, fragment bit counts,
//	                    available shards and the key-translation log are what they were before
//	refused changed     it returned the method-not-allowed error but something was modified
package main

import (
	"bytes"
	"context"
	"fmt"
	"io"
	"io/ioutil"
	"reflect"
	"sort"
	"strings"

	"github.com/pilosa/pilosa"
	"github.com/pilosa/pilosa/roaring"
	"verifharness/vh"
	"verifharness/vh/srv"
)

var states = []string{"STARTING", "NORMAL", "DEGRADED", "RESIZING"}

// never invoked: API.Close shuts the import workers down (class lifecycle, not a request).
var skip = map[string]bool{"Close": true}

type prop struct {
	s   *srv.Server
	seq int
}

func (p *prop) Rule() string {
	return "every (cluster state, exported *API method, request shape) triple is enumerated first (shuffled), then random triples; request shapes cover every path an entry point " +
		"can take before acting (Query local/remote/with shards/read/write/keyed, Import and ImportValue by ids/column keys/row keys/clear/IgnoreKeyCheck, ImportRoaring and ApplySchema remote/local); the state is forced through a verif hook on a " +
		"single-node in-process server holding a small dataset (set, int and keyed fields); a case is non-trivial when it contains a call in STARTING or RESIZING " +
		"(where refusal and untouched data are checked) and one in NORMAL or DEGRADED"
}

func apiMethods() []string {
	t := reflect.TypeOf(&pilosa.API{})
	var out []string
	for i := 0; i < t.NumMethod(); i++ {
		if n := t.Method(i).Name; !skip[n] {
			out = append(out, n)
		}
	}
	sort.Strings(out)
	return out
}

// request shapes per entry point ("-" = the only shape)
var variants = map[string][]string{
	"Query":         {"write", "read", "remote-write", "remote-read", "shards-read", "remote-noshards-write", "keyed-write", "remote-keyed-write"},
	"Import":        {"ids", "ids-clear", "ids-ignorekeycheck", "colkeys", "rowkeys", "colkeys-clear", "colkeys-ignorekeycheck"},
	"ImportValue":   {"ids", "ids-ignorekeycheck", "colkeys"},
	"ImportRoaring": {"remote", "local", "remote-clear"},
	"ApplySchema":   {"remote", "local"},
}

func shapesOf(m string) []string {
	if v, ok := variants[m]; ok {
		return v
	}
	return []string{"-"}
}

func (p *prop) Gen(r *vh.Rng, tier string, n int) []vh.Case {
	ms := apiMethods()
	var pairs []string
	for _, st := range states {
		for _, m := range ms {
			for _, v := range shapesOf(m) {
				pairs = append(pairs, st+" "+m+" "+v)
			}
		}
	}
	perm := r.Perm(len(pairs))
	next := 0
	var cases []vh.Case
	for k := 0; k < n; k++ {
		cr := r.Fork()
		var lines []string
		hasRef, hasServ := false, false
		for i := 0; i < 8; i++ {
			var pr string
			if next < len(perm) {
				pr = pairs[perm[next]]
				next++
			} else {
				// half of the random lines go to the entry points with several request shapes
				m := ms[cr.Intn(len(ms))]
				if cr.Bool() {
					m = cr.PickS("Query", "Import", "ImportValue", "ImportRoaring", "ApplySchema")
				}
				sh := shapesOf(m)
				pr = states[cr.Intn(len(states))] + " " + m + " " + sh[cr.Intn(len(sh))]
			}
			if strings.HasPrefix(pr, "STARTING") || strings.HasPrefix(pr, "RESIZING") {
				hasRef = true
			} else {
				hasServ = true
			}
			lines = append(lines, "call "+pr)
		}
		cases = append(cases, vh.Case{Lines: lines, Nontrivial: hasRef && hasServ})
	}
	return cases
}

// ---------- execution ----------

var ctxType = reflect.TypeOf((*context.Context)(nil)).Elem()
var readerType = reflect.TypeOf((*io.Reader)(nil)).Elem()
var writerType = reflect.TypeOf((*io.Writer)(nil)).Elem()
var errorType = reflect.TypeOf((*error)(nil)).Elem()
var readCloserType = reflect.TypeOf((*io.ReadCloser)(nil)).Elem()

// string arguments per method, in order; default: index, field, view.
var stringArgs = map[string][]string{
	"CreateIndex":    {"sx"},
	"DeleteIndex":    {"sx"},
	"CreateField":    {"i", "sf"},
	"DeleteField":    {"i", "sf"},
	"DeleteView":     {"i", "f", "no-such-view"},
	"RemoveNode":     {"no-such-node"},
	"SetCoordinator": {"<self>"},
}

func (p *prop) ensureBaseline() error {
	api := p.s.API
	ctx := context.Background()
	pilosa.VerifC23SetState(api, "NORMAL")
	if _, err := api.Index(ctx, "i"); err != nil {
		if _, err := api.CreateIndex(ctx, "i", pilosa.IndexOptions{TrackExistence: true}); err != nil {
			return err
		}
	}
	if _, err := api.Field(ctx, "i", "f"); err != nil {
		if _, err := api.CreateField(ctx, "i", "f", pilosa.OptFieldTypeSet("ranked", 100)); err != nil {
			return err
		}
		if _, err := p.s.Query("i", "Set(1, f=1) Set(1048577, f=1)", nil); err != nil {
			return err
		}
	}
	if _, err := api.Field(ctx, "i", "v"); err != nil {
		if _, err := api.CreateField(ctx, "i", "v", pilosa.OptFieldTypeInt(-10, 100)); err != nil {
			return err
		}
		if _, err := p.s.Query("i", "Set(2, v=5)", nil); err != nil {
			return err
		}
	}
	if _, err := api.Index(ctx, "k"); err != nil {
		if _, err := api.CreateIndex(ctx, "k", pilosa.IndexOptions{Keys: true}); err != nil {
			return err
		}
	}
	if _, err := api.Field(ctx, "k", "kf"); err != nil {
		if _, err := api.CreateField(ctx, "k", "kf", pilosa.OptFieldTypeSet("ranked", 100), pilosa.OptFieldKeys()); err != nil {
			return err
		}
		if _, err := p.s.Query("k", `Set("a", kf="x")`, nil); err != nil {
			return err
		}
	}
	if _, err := api.Field(ctx, "k", "kv"); err != nil {
		if _, err := api.CreateField(ctx, "k", "kv", pilosa.OptFieldTypeInt(-10, 100)); err != nil {
			return err
		}
	}
	if _, err := api.Field(ctx, "i", "fk"); err != nil { // keyed field in an unkeyed index
		if _, err := api.CreateField(ctx, "i", "fk", pilosa.OptFieldTypeSet("ranked", 100), pilosa.OptFieldKeys()); err != nil {
			return err
		}
	}
	return nil
}

// shapedArgs builds the arguments of the entry points that have several request shapes.
func (p *prop) shapedArgs(name, shape string, ctx context.Context) ([]reflect.Value, bool) {
	has := func(x string) bool { return strings.Contains(shape, x) }
	n := p.seq
	vals := func(xs ...interface{}) []reflect.Value {
		out := make([]reflect.Value, len(xs))
		for i, x := range xs {
			out[i] = reflect.ValueOf(x)
		}
		return out
	}
	switch name {
	case "Query":
		req := &pilosa.QueryRequest{Index: "i", Query: fmt.Sprintf("Set(%d, f=3)", 10+n%50)}
		if has("read") {
			req.Query = "Count(Row(f=1))"
		}
		if has("keyed") {
			req.Index = "k"
			req.Query = fmt.Sprintf(`Set("qc%d", kf="qr%d")`, n, n)
		}
		if has("remote") {
			req.Remote = true
			req.Shards = []uint64{0}
		}
		if has("shards") {
			req.Shards = []uint64{0, 1}
		}
		if has("noshards") {
			req.Shards = nil
		}
		return vals(ctx, req), true
	case "Import":
		req := &pilosa.ImportRequest{Index: "i", Field: "f", Shard: 0, RowIDs: []uint64{5}, ColumnIDs: []uint64{uint64(100 + n%50)}}
		if has("colkeys") {
			req = &pilosa.ImportRequest{Index: "k", Field: "kf", Shard: 0, RowKeys: []string{fmt.Sprintf("ir%d", n)}, ColumnKeys: []string{fmt.Sprintf("ic%d", n)}}
		}
		if has("rowkeys") {
			req = &pilosa.ImportRequest{Index: "i", Field: "fk", Shard: 0, RowKeys: []string{fmt.Sprintf("fr%d", n)}, ColumnIDs: []uint64{uint64(100 + n%50)}}
		}
		args := vals(ctx, req)
		if has("clear") {
			args = append(args, reflect.ValueOf(pilosa.OptImportOptionsClear(true)))
		}
		if has("ignorekeycheck") {
			if has("colkeys") { // what a forwarding node sends: ids already translated
				req.RowKeys, req.ColumnKeys = nil, nil
				req.RowIDs, req.ColumnIDs = []uint64{1}, []uint64{uint64(100 + n%50)}
			}
			args = append(args, reflect.ValueOf(pilosa.OptImportOptionsIgnoreKeyCheck(true)))
		}
		return args, true
	case "ImportValue":
		req := &pilosa.ImportValueRequest{Index: "i", Field: "v", Shard: 0, ColumnIDs: []uint64{uint64(100 + n%50)}, Values: []int64{7}}
		if has("colkeys") {
			req = &pilosa.ImportValueRequest{Index: "k", Field: "kv", Shard: 0, ColumnKeys: []string{fmt.Sprintf("vc%d", n)}, Values: []int64{7}}
		}
		args := vals(ctx, req)
		if has("ignorekeycheck") {
			args = append(args, reflect.ValueOf(pilosa.OptImportOptionsIgnoreKeyCheck(true)))
		}
		return args, true
	case "ImportRoaring":
		req := &pilosa.ImportRoaringRequest{Clear: has("clear"), Views: map[string][]byte{"": roaringBytes()}}
		return vals(ctx, "i", "f", uint64(0), has("remote"), req), true
	case "ApplySchema":
		return vals(ctx, &pilosa.Schema{Indexes: []*pilosa.IndexInfo{{Name: "sy"}}}, has("remote")), true
	}
	return nil, false
}

func roaringBytes() []byte {
	bm := roaring.NewBitmap(3, 4, 1<<20+5)
	var buf bytes.Buffer
	if _, err := bm.WriteTo(&buf); err != nil {
		panic(err)
	}
	return buf.Bytes()
}

// buildArgs synthesises arguments for method m.
func (p *prop) buildArgs(name, shape string, mt reflect.Type, cancel *context.CancelFunc) []reflect.Value {
	api := p.s.API
	p.seq++
	if _, ok := variants[name]; ok {
		if shape == "-" {
			shape = variants[name][0]
		}
		ctx, c := context.WithCancel(context.Background())
		*cancel = c
		if args, ok := p.shapedArgs(name, shape, ctx); ok {
			return args
		}
	}
	strs := stringArgs[name]
	if strs == nil {
		strs = []string{"i", "f", "standard"}
	}
	si := 0
	n := mt.NumIn()
	var args []reflect.Value
	for a := 0; a < n; a++ {
		t := mt.In(a)
		if mt.IsVariadic() && a == n-1 {
			break // no optional arguments
		}
		switch {
		case t == ctxType:
			ctx, c := context.WithCancel(context.Background())
			*cancel = c
			args = append(args, reflect.ValueOf(ctx))
		case t == readerType:
			var body []byte
			switch name {
			case "ClusterMessage":
				body = pilosa.VerifC23RecalcMessage()
			case "FragmentBlockData":
				body, _ = api.Serializer.Marshal(&pilosa.BlockDataRequest{Index: "i", Field: "f", View: "standard", Shard: 0, Block: 0})
			case "TranslateKeys":
				body, _ = api.Serializer.Marshal(&pilosa.TranslateKeysRequest{Index: "k", Keys: []string{fmt.Sprintf("key-%d", p.seq)}})
			}
			args = append(args, reflect.ValueOf(bytes.NewReader(body)))
		case t == writerType:
			args = append(args, reflect.ValueOf(ioutil.Discard))
		case t.Kind() == reflect.String:
			s := "x"
			if si < len(strs) {
				s = strs[si]
			}
			si++
			if s == "<self>" {
				s = api.Node().ID
			}
			args = append(args, reflect.ValueOf(s).Convert(t))
		case t.Kind() == reflect.Bool:
			args = append(args, reflect.ValueOf(true)) // remote=true: never forward to other nodes
		case t == reflect.TypeOf(&pilosa.QueryRequest{}):
			args = append(args, reflect.ValueOf(&pilosa.QueryRequest{Index: "i", Query: fmt.Sprintf("Set(%d, f=3)", 10+p.seq%50)}))
		case t == reflect.TypeOf(&pilosa.ImportRequest{}):
			args = append(args, reflect.ValueOf(&pilosa.ImportRequest{Index: "i", Field: "f", Shard: 0, RowIDs: []uint64{5}, ColumnIDs: []uint64{uint64(100 + p.seq%50)}}))
		case t == reflect.TypeOf(&pilosa.ImportValueRequest{}):
			args = append(args, reflect.ValueOf(&pilosa.ImportValueRequest{Index: "i", Field: "v", Shard: 0, ColumnIDs: []uint64{uint64(100 + p.seq%50)}, Values: []int64{7}}))
		case t == reflect.TypeOf(&pilosa.ImportRoaringRequest{}):
			args = append(args, reflect.ValueOf(&pilosa.ImportRoaringRequest{Views: map[string][]byte{"": roaringBytes()}}))
		case t == reflect.TypeOf(&pilosa.Schema{}):
			args = append(args, reflect.ValueOf(&pilosa.Schema{Indexes: []*pilosa.IndexInfo{{Name: "sy"}}}))
		case t.Kind() == reflect.Ptr:
			args = append(args, reflect.New(t.Elem()))
		default:
			args = append(args, reflect.Zero(t))
		}
	}
	return args
}

func (p *prop) call(state, name, shape string) (out string) {
	if p.s == nil {
		p.s = srv.Start(2)
	}
	api := p.s.API
	mv := reflect.ValueOf(api).MethodByName(name)
	if !mv.IsValid() || skip[name] {
		return "no-such-entry-point"
	}
	if err := p.ensureBaseline(); err != nil {
		return "err:baseline"
	}
	defer pilosa.VerifC23SetState(api, "NORMAL")
	before := pilosa.VerifC23Fingerprint(api)
	pilosa.VerifC23SetState(api, state)
	var cancel context.CancelFunc
	args := p.buildArgs(name, shape, mv.Type(), &cancel)
	var res []reflect.Value
	func() {
		defer func() {
			if e := recover(); e != nil {
				// API.validate itself cannot panic: a panic means the gate was passed and the body
				// failed (e.g. DeleteAvailableShard: getMessageType has no case for its message; outside C23)
				vh.Count("admitted-then-panic-" + name)
				out = "admitted"
			}
		}()
		res = mv.Call(args)
	}()
	if out != "" {
		if cancel != nil {
			cancel()
		}
		vh.Count("admitted-" + state)
		return out
	}
	var err error
	for _, rv := range res {
		if rv.Type() == errorType && !rv.IsNil() {
			err = rv.Interface().(error)
		}
		// only stream results are closed (never *Index / *Field, which also have Close methods)
		if rv.Type() == readCloserType && !rv.IsNil() {
			_ = rv.Interface().(io.ReadCloser).Close()
		}
	}
	if cancel != nil {
		cancel()
	}
	pilosa.VerifC23SetState(api, "NORMAL")
	if pilosa.VerifC23IsNotAllowed(err) {
		vh.Count("refused-" + state)
		if pilosa.VerifC23Fingerprint(api) == before {
			return "refused unchanged"
		}
		return "refused changed"
	}
	vh.Count("admitted-" + state)
	if err != nil {
		vh.Count("admitted-then-error")
	}
	return "admitted"
}

func (p *prop) Exec(lines []string) []string {
	outs := make([]string, len(lines))
	for i, l := range lines {
		ws := strings.Fields(l)
		ok := (len(ws) == 3 || len(ws) == 4) && ws[0] == "call"
		if ok {
			ok = false
			for _, s := range states {
				if s == ws[1] {
					ok = true
				}
			}
		}
		if !ok {
			outs[i] = "bad-op"
			continue
		}
		st, nm, sh := ws[1], ws[2], "-"
		if len(ws) == 4 {
			sh = ws[3]
		}
		outs[i] = vh.Guard("call", func() string { return p.call(st, nm, sh) })
	}
	return outs
}

func main() {
	p := &prop{}
	defer func() {
		if p.s != nil {
			p.s.Stop()
		}
	}()
	vh.Main(p)
}
