// Translator self-test for C31 (extra check): the extractor + the table theorems must reject
// mutated sources. Scratch copies of the five source directories the extractor reads are made
// outside the repository, one textual mutation is applied to each copy, extract/config is run on it
// and the statements of C31_table and C31_rule are re-checked (`decide`) against the regenerated
// table with `lake env lean`. ok = the unmutated copy is accepted and every mutant is rejected.
//
//	c31selftest <repo> <verif root>
package main

import (
	"encoding/json"
	"fmt"
	"io/ioutil"
	"os"
	"os/exec"
	"path/filepath"
	"strings"
	"sync"
)

type mutation struct {
	name, file, old, new string
}

var mutations = []mutation{
	{"none", "", "", ""},
	{"toml-tag-renamed", "server/config.go", "`toml:\"bind\"`", "`toml:\"bind-addr\"`"},
	{"toml-tag-dropped", "server/config.go", "LogPath string `toml:\"log-path\"`", "LogPath string"},
	{"field-without-flag", "server/config.go", "\tBind string `toml:\"bind\"`", "\tBind string `toml:\"bind\"`\n\tNewOpt string `toml:\"new-opt\"`"},
	{"flag-renamed", "ctl/server.go", "\"max-map-count\"", "\"max-mapcount\""},
	{"flag-retargeted", "ctl/server.go", "flags.IntVarP(&srv.Config.Cluster.ReplicaN,", "flags.IntVarP(&srv.Config.Translation.MapSize,"},
	{"flag-kind-changed", "ctl/server.go", "flags.BoolVar(&srv.Config.Verbose,", "flags.StringVar(&srv.Config.Verbose,"},
	{"env-replacer-changed", "cmd/root.go", "strings.NewReplacer(\"-\", \"_\", \".\", \"_\")", "strings.NewReplacer(\"-\", \"_\", \".\", \"-\")"},
	{"automatic-env-dropped", "cmd/root.go", "\tv.AutomaticEnv()\n", ""},
	{"env-collision", "ctl/server.go", "\"gossip.advertise-host\"", "\"gossip.advertise.host\""},
}

const tail = `
example : PV.C31.tableOK PV.C31.Gen.fields PV.C31.Gen.flags = true := by decide
example : PV.C31.Gen.envPrefix = "PILOSA" ∧ PV.C31.Gen.replacer = [("-", "_"), (".", "_")] ∧
    PV.C31.Gen.bindPFlags = true ∧ PV.C31.Gen.automaticEnv = true ∧ PV.C31.Gen.keyValidation = true ∧
    PV.C31.Gen.sliceSpecialCase = true ∧ PV.C31.Gen.changedShortCircuit = true := by decide
`

func copyGo(src, dst string) error {
	if err := os.MkdirAll(dst, 0o755); err != nil {
		return err
	}
	ents, err := ioutil.ReadDir(src)
	if err != nil {
		return err
	}
	for _, e := range ents {
		if e.IsDir() || !strings.HasSuffix(e.Name(), ".go") || strings.HasSuffix(e.Name(), "_test.go") {
			continue
		}
		b, err := ioutil.ReadFile(filepath.Join(src, e.Name()))
		if err != nil {
			return err
		}
		if err := ioutil.WriteFile(filepath.Join(dst, e.Name()), b, 0o644); err != nil {
			return err
		}
	}
	return nil
}

func main() {
	verdict := func(ok bool, n int, what string) {
		b, _ := json.Marshal(map[string]interface{}{"ok": ok, "evaluations": n, "distinct_nontrivial": n, "what": what, "found": false})
		fmt.Println(string(b))
		if !ok {
			os.Exit(1)
		}
		os.Exit(0)
	}
	if len(os.Args) != 3 {
		verdict(false, 0, "usage: c31selftest <repo> <root>")
	}
	repo, root := os.Args[1], os.Args[2]
	if os.Getenv("VERIF_TIER") != "thorough" {
		// quick tier: the unmutated copy and one mutant per source file (the rest run in the thorough tier)
		var sel []mutation
		for _, m := range mutations {
			switch m.name {
			case "none", "toml-tag-dropped", "flag-renamed", "env-replacer-changed":
				sel = append(sel, m)
			}
		}
		mutations = sel
	}
	base, err := ioutil.TempDir("", "verif-c31-self-")
	if err != nil {
		verdict(false, 0, err.Error())
	}
	defer os.RemoveAll(base)
	extractor := filepath.Join(base, "extract.bin")
	if out, err := exec.Command("go", "build", "-o", extractor, "./extract/config").CombinedOutput(); err != nil {
		verdict(false, 0, "building the extractor: "+string(out))
	}
	results := make([]string, len(mutations))
	var wg sync.WaitGroup
	sem := make(chan struct{}, 4)
	for i, m := range mutations {
		wg.Add(1)
		go func(i int, m mutation) {
			defer wg.Done()
			sem <- struct{}{}
			defer func() { <-sem }()
			dir := filepath.Join(base, m.name)
			for _, d := range []string{"server", "gossip", "ctl", "cmd"} {
				if err := copyGo(filepath.Join(repo, d), filepath.Join(dir, d)); err != nil {
					results[i] = "error: " + err.Error()
					return
				}
			}
			if m.file != "" {
				p := filepath.Join(dir, m.file)
				b, _ := ioutil.ReadFile(p)
				if !strings.Contains(string(b), m.old) {
					results[i] = "error: mutation site not found (update the self-test)"
					return
				}
				_ = ioutil.WriteFile(p, []byte(strings.Replace(string(b), m.old, m.new, 1)), 0o644)
			}
			gen := filepath.Join(dir, "GenCheck.lean")
			if out, err := exec.Command(extractor, dir, gen).CombinedOutput(); err != nil {
				results[i] = "rejected-by-extractor: " + strings.TrimSpace(string(out))
				return
			}
			b, _ := ioutil.ReadFile(gen)
			_ = ioutil.WriteFile(gen, append(b, []byte(tail)...), 0o644)
			c := exec.Command("lake", "env", "lean", gen)
			c.Dir = filepath.Join(root, "lean")
			if out, err := c.CombinedOutput(); err != nil {
				s := string(out)
				if len(s) > 160 {
					s = s[:160]
				}
				results[i] = "rejected-by-proof: " + strings.Replace(s, "\n", " ", -1)
			} else {
				results[i] = "accepted"
			}
		}(i, m)
	}
	wg.Wait()
	ok := true
	var bad []string
	for i, m := range mutations {
		fmt.Fprintf(os.Stderr, "c31selftest: %-24s %s\n", m.name, results[i])
		want := "rejected"
		if m.name == "none" {
			want = "accepted"
		}
		if !strings.HasPrefix(results[i], want) {
			ok = false
			bad = append(bad, m.name+": "+results[i])
		}
	}
	if ok {
		verdict(true, len(mutations), fmt.Sprintf("translator self-test: unmutated source accepted, %d mutated copies of config.go / ctl/server.go / cmd/root.go all rejected", len(mutations)-1))
	}
	verdict(false, len(mutations), "translator self-test failed: "+strings.Join(bad, "; "))
}
