// Harness for C31: configuration precedence and render/parse round trip, on the real command tree
// in-process (cmd.NewRootCommand; `server --dry-run` stops in PersistentPreRunE right after
// setAllConfig, the parsed configuration is read from cmd.Server.Config by toml path).
// Line formats: lean/PV/C31/Main.lean.
//
//   prec: the option's value is supplied by any subset of {flag, env, file}; files are written by this
//         harness' own small TOML writer (not go-toml), env names are PILOSA_ + upper(flag, -. -> _).
//   rp:   `pilosa config --<every flag>=<value>` renders the configuration, the text is compared with
//         the model's rendering, then `pilosa server --dry-run --config <text>` reads it back.
//   gen:  the same with `pilosa generate-config` (the default configuration).
package main

import (
	"bytes"
	"fmt"
	"io/ioutil"
	"os"
	"reflect"
	"sort"
	"strconv"
	"strings"
	"time"

	"github.com/pilosa/pilosa/cmd"
	"github.com/pilosa/pilosa/server"
	"github.com/pilosa/pilosa/toml"
	"github.com/spf13/cobra"
	"github.com/spf13/pflag"
	"verifharness/vh"
)

type prop struct {
	opts []option
}

type option struct {
	name string // flag name = toml path
	kind string // str int uint bool float dur strs
}

func (p *prop) Rule() string {
	return "prec: every server option x every subset of {flag, env, file} with distinct values of the option's kind (exhaustive block first, " +
		"then random options/subsets with edge values: strings with quotes, backslashes, newlines, Unicode, leading space, '#', '='; negative and large " +
		"integers; durations in nanoseconds with h/m/s/ms/us/ns parts mixed, below and above 1 s, zero, negative, int64 extremes; floats; string lists incl. empty list, empty element, element containing a comma or a space); non-trivial = at least one source supplied. " +
		"rp: complete configurations = defaults with 0-6 random overrides of any kind (incl. U+001F / astral runes, uint64 above int64, floats with more " +
		"than float32 precision, lists with commas) rendered by `pilosa config`, compared textually with the model, read back by `server --config`; " +
		"non-trivial = at least one override. gen: generate-config -> server --config. ds/pd: time.Duration.String and time.ParseDuration (incl. malformed text) against the model"
}

// ---------- wire encoding ----------

func encStr(s string) string {
	rs := []rune(s)
	if len(rs) == 0 {
		return "e"
	}
	ss := make([]string, len(rs))
	for i, r := range rs {
		ss[i] = strconv.Itoa(int(r))
	}
	return strings.Join(ss, ".")
}

func decStr(s string) (string, bool) {
	if s == "e" {
		return "", true
	}
	var rs []rune
	for _, t := range strings.Split(s, ".") {
		n, err := strconv.Atoi(t)
		if err != nil || n < 0 || n > 0x10FFFF || (n >= 0xD800 && n <= 0xDFFF) {
			return "", false
		}
		rs = append(rs, rune(n))
	}
	return string(rs), true
}

// wval is a typed value on the wire.
type wval struct {
	kind     byte // s d i b f l
	s        string
	i        string // decimal
	b        bool
	t64, t32 string
	l        []string
}

func decVal(s string) (wval, bool) {
	if s == "" {
		return wval{}, false
	}
	switch s[0] {
	case 's':
		v, ok := decStr(s[1:])
		return wval{kind: 's', s: v}, ok
	case 'd':
		if _, err := strconv.ParseInt(s[1:], 10, 64); err != nil {
			return wval{}, false
		}
		return wval{kind: 'd', i: s[1:]}, true
	case 'i':
		if _, err := strconv.ParseInt(s[1:], 10, 64); err != nil {
			if _, err2 := strconv.ParseUint(s[1:], 10, 64); err2 != nil {
				return wval{}, false
			}
		}
		return wval{kind: 'i', i: s[1:]}, true
	case 'b':
		return wval{kind: 'b', b: s == "b1"}, s == "b0" || s == "b1"
	case 'f':
		p := strings.Split(s[1:], "/")
		if len(p) != 2 {
			return wval{}, false
		}
		a, ok1 := decStr(p[0])
		b, ok2 := decStr(p[1])
		return wval{kind: 'f', t64: a, t32: b}, ok1 && ok2
	case 'l':
		if s == "l-" {
			return wval{kind: 'l'}, true
		}
		var xs []string
		for _, e := range strings.Split(s[1:], ";") {
			v, ok := decStr(e)
			if !ok {
				return wval{}, false
			}
			xs = append(xs, v)
		}
		return wval{kind: 'l', l: xs}, true
	}
	return wval{}, false
}

func encVal(w wval) string {
	switch w.kind {
	case 's':
		return "s" + encStr(w.s)
	case 'd':
		return "d" + w.i
	case 'i':
		return "i" + w.i
	case 'b':
		if w.b {
			return "b1"
		}
		return "b0"
	case 'f':
		return "f" + encStr(w.t64) + "/" + encStr(w.t32)
	case 'l':
		if len(w.l) == 0 {
			return "l-"
		}
		ss := make([]string, len(w.l))
		for i, x := range w.l {
			ss[i] = encStr(x)
		}
		return "l" + strings.Join(ss, ";")
	}
	return "?"
}

// argText is the command-line / environment text of a value.
// durText renders nanoseconds with the STANDARD LIBRARY's Duration.String (not pilosa's toml.Duration).
func durText(w wval) string {
	n, _ := strconv.ParseInt(w.i, 10, 64)
	return time.Duration(n).String()
}

func argText(w wval, env bool) string {
	switch w.kind {
	case 's':
		return w.s
	case 'd':
		return durText(w)
	case 'i':
		return w.i
	case 'b':
		return strconv.FormatBool(w.b)
	case 'f':
		return w.t64
	case 'l':
		if env {
			return strings.Join(w.l, ",")
		}
		// one CSV record with every element quoted, so that [""] and elements with commas are expressible
		qs := make([]string, len(w.l))
		for i, x := range w.l {
			qs[i] = `"` + strings.Replace(x, `"`, `""`, -1) + `"`
		}
		return strings.Join(qs, ",")
	}
	return ""
}

// tomlQuote is this harness' own TOML basic-string writer (independent of go-toml's).
func tomlQuote(s string) string {
	var b strings.Builder
	b.WriteByte('"')
	for _, r := range s {
		switch {
		case r == '"':
			b.WriteString(`\"`)
		case r == '\\':
			b.WriteString(`\\`)
		case r < 0x20 || r == 0x7f:
			fmt.Fprintf(&b, `\u%04X`, r)
		default:
			b.WriteRune(r)
		}
	}
	b.WriteByte('"')
	return b.String()
}

func tomlText(w wval) string {
	switch w.kind {
	case 's':
		return tomlQuote(w.s)
	case 'd':
		return tomlQuote(durText(w))
	case 'i':
		return w.i
	case 'b':
		return strconv.FormatBool(w.b)
	case 'f':
		if !strings.ContainsAny(w.t64, ".eE") {
			return w.t64 + ".0"
		}
		return w.t64
	case 'l':
		ss := make([]string, len(w.l))
		for i, x := range w.l {
			ss[i] = tomlQuote(x)
		}
		return "[" + strings.Join(ss, ", ") + "]"
	}
	return ""
}

func fileFor(name string, w wval) string {
	if i := strings.Index(name, "."); i >= 0 {
		return "[" + name[:i] + "]\n  " + name[i+1:] + " = " + tomlText(w) + "\n"
	}
	return name + " = " + tomlText(w) + "\n"
}

func envName(flag string) string {
	return "PILOSA_" + strings.NewReplacer("-", "_", ".", "_").Replace(strings.ToUpper(flag))
}

// ---------- the real command tree ----------

func newRoot() *cobra.Command {
	return cmd.NewRootCommand(strings.NewReader(""), ioutil.Discard, ioutil.Discard)
}

func subCommand(rc *cobra.Command, name string) *cobra.Command {
	for _, c := range rc.Commands() {
		if c.Name() == name {
			return c
		}
	}
	return nil
}

func kindOf(f *pflag.Flag) string {
	switch f.Value.Type() {
	case "string":
		return "str"
	case "int":
		return "int"
	case "uint64":
		return "uint"
	case "bool":
		return "bool"
	case "float64":
		return "float"
	case "duration":
		return "dur"
	case "stringSlice":
		return "strs"
	}
	return "?" + f.Value.Type()
}

func (p *prop) options() []option {
	if p.opts != nil {
		return p.opts
	}
	sc := subCommand(newRoot(), "server")
	sc.LocalFlags().VisitAll(func(f *pflag.Flag) {
		if f.Name == "help" {
			return
		}
		p.opts = append(p.opts, option{f.Name, kindOf(f)})
	})
	sort.Slice(p.opts, func(i, j int) bool { return p.opts[i].name < p.opts[j].name })
	return p.opts
}

// byTomlPath finds the Config field whose toml tags spell the path.
func byTomlPath(cfg *server.Config, path string) (reflect.Value, bool) {
	v := reflect.ValueOf(cfg).Elem()
	for _, seg := range strings.Split(path, ".") {
		if v.Kind() != reflect.Struct {
			return reflect.Value{}, false
		}
		found := false
		for i := 0; i < v.NumField(); i++ {
			tag := strings.Split(v.Type().Field(i).Tag.Get("toml"), ",")[0]
			if tag == seg {
				v, found = v.Field(i), true
				break
			}
		}
		if !found {
			return reflect.Value{}, false
		}
	}
	return v, true
}

func fmtFloat(f float64) string { return strconv.FormatFloat(f, 'f', -1, 64) }

// tomlFloat is what go-toml v1.2.0 prints for a float64 (the model's float formatter parameter).
func tomlFloat(f float64) string {
	if f == float64(int64(f)) {
		return strings.ToLower(strconv.FormatFloat(f, 'f', 1, 32))
	}
	return strings.ToLower(strconv.FormatFloat(f, 'f', -1, 32))
}

// wireOf renders a Config field as a wire value.
func wireOf(v reflect.Value) wval {
	if v.Type() == reflect.TypeOf(toml.Duration(0)) {
		return wval{kind: 'd', i: strconv.FormatInt(v.Int(), 10)}
	}
	switch v.Kind() {
	case reflect.String:
		return wval{kind: 's', s: v.String()}
	case reflect.Int, reflect.Int64:
		return wval{kind: 'i', i: strconv.FormatInt(v.Int(), 10)}
	case reflect.Uint64:
		return wval{kind: 'i', i: strconv.FormatUint(v.Uint(), 10)}
	case reflect.Bool:
		return wval{kind: 'b', b: v.Bool()}
	case reflect.Float64:
		return wval{kind: 'f', t64: fmtFloat(v.Float()), t32: tomlFloat(v.Float())}
	case reflect.Slice:
		var xs []string
		for i := 0; i < v.Len(); i++ {
			xs = append(xs, v.Index(i).String())
		}
		return wval{kind: 'l', l: xs}
	}
	return wval{}
}

// showVal prints a value the way the model's showVal does: canonical scalar text or list.
func showVal(w wval) string {
	switch w.kind {
	case 's':
		return "s" + encStr(w.s)
	case 'd':
		return "s" + encStr(durText(w))
	case 'i':
		return "s" + encStr(w.i)
	case 'b':
		return "s" + encStr(strconv.FormatBool(w.b))
	case 'f':
		return "s" + encStr(w.t64)
	case 'l':
		return encVal(w)
	}
	return "?"
}

func withTempFile(content string, f func(path string)) {
	tf, err := ioutil.TempFile("", "verif-c31-")
	if err != nil {
		panic(err)
	}
	defer os.Remove(tf.Name())
	if _, err := tf.WriteString(content); err != nil {
		panic(err)
	}
	tf.Close()
	f(tf.Name())
}

// dryRun executes `pilosa server --dry-run <args>` and returns the parsed configuration.
func dryRun(args []string) (*server.Config, bool) {
	rc := newRoot()
	rc.SetArgs(append([]string{"server", "--dry-run"}, args...))
	err := rc.Execute()
	if err == nil || err.Error() != "dry run" {
		return nil, false
	}
	return cmd.Server.Config, true
}

// ---------- generation ----------

var strPool = []string{"a", "/tmp/x y", "é☃", "q\"uo\\te", "line\nbreak", "tab\there", "#hash", "k=v", " lead", "a,b", "$HOME", "%s", "[x]", "'sq'", "h:1"}
// genDur draws durations in nanoseconds with every unit component mixed (h, m, s, ms, µs, ns), below and
// above one second, zero, negative, and the int64 extremes.
func genDur(r *vh.Rng, salt int) int64 {
	const ns, us, ms, sec, min, hour = int64(1), int64(1000), int64(1000000), int64(1000000000), int64(60000000000), int64(3600000000000)
	fixed := []int64{0, 1, 999, 1000, 1500, 999999, ms, 500 * ms, sec - 1, sec, sec + 1, 2*sec + 500*us, 10*min + 213, min, hour, hour + min + sec + 1,
		90 * sec, 9 * min, 70 * sec, 1<<63 - 1, -1 << 63, -5, -1500 * ms, -(10*min + 7)}
	var d int64
	switch x := (r.Intn(10) + salt) % 10; {
	case x < 4:
		d = fixed[(r.Intn(len(fixed))+salt)%len(fixed)]
	default:
		comps := []int64{hour, min, sec, ms, us, ns}
		for _, c := range comps {
			if r.Chance(1, 2) {
				d += int64(r.Pick(1, 2, 7, 59, 213, 999)) * c
			}
		}
		if r.Chance(1, 8) {
			d = -d
		}
	}
	return d
}
var floatPool = []float64{0.5, 0.25, 2, 0.001, 10, 1e-7, 0.75}
var listPool = [][]string{nil, {"a"}, {"h1:1", "h2:2"}, {"x", "", "y"}, {"p", "q", "r"}, {"http://o.example"}}

func genVal(r *vh.Rng, kind string, for_ string, salt int) wval {
	switch kind {
	case "str":
		s := strPool[(r.Intn(len(strPool))+salt)%len(strPool)]
		if for_ == "rp" && r.Chance(1, 12) {
			s = r.PickS("x\x1fy", "a\U0001000Ab", "\x01\x1e", "\U0001F600", "\x7f")
		}
		return wval{kind: 's', s: s}
	case "dur":
		d := genDur(r, salt)
		if d%1000000 != 0 && (d >= 1000000000 || d <= -1000000000) {
			vh.Count("dur:submilli-above-1s")
		}
		return wval{kind: 'd', i: strconv.FormatInt(d, 10)}
	case "int":
		return wval{kind: 'i', i: []string{"-3", "0", "7", "3000", "2147483648", "41", "12"}[(r.Intn(7)+salt)%7]}
	case "uint":
		if for_ == "rp" && r.Chance(1, 10) {
			return wval{kind: 'i', i: r.PickS("9223372036854775808", "18446744073709551615")}
		}
		return wval{kind: 'i', i: []string{"0", "5", "1000000", "9223372036854775807", "77", "123"}[(r.Intn(6)+salt)%6]}
	case "bool":
		return wval{kind: 'b', b: (r.Intn(2)+salt)%2 == 0}
	case "float":
		f := floatPool[(r.Intn(len(floatPool))+salt)%len(floatPool)]
		if for_ == "rp" && r.Chance(1, 6) {
			f = []float64{0.123456789012, 1.0000001, 123456.789}[r.Intn(3)]
		}
		return wval{kind: 'f', t64: fmtFloat(f), t32: tomlFloat(f)}
	case "strs":
		l := listPool[(r.Intn(len(listPool))+salt)%len(listPool)]
		if for_ != "env" && r.Chance(1, 6) {
			l = [][]string{{"a,b"}, {""}, {"a,b", "c"}, {"x y"}, {" z"}}[r.Intn(5)]
		}
		return wval{kind: 'l', l: append([]string(nil), l...)}
	}
	return wval{}
}

// envOK: values the environment can carry unambiguously (non-empty text, no whitespace inside lists).
func envOK(w wval) bool {
	t := argText(w, true)
	if t == "" || strings.ContainsRune(t, 0) {
		return false
	}
	if w.kind == 'l' {
		for _, x := range w.l {
			if x == "" || strings.ContainsAny(x, " \t\n,") {
				return false
			}
		}
	}
	return true
}

func (p *prop) defaults() map[string]wval {
	cfg := server.NewConfig()
	m := map[string]wval{}
	for _, o := range p.options() {
		v, ok := byTomlPath(cfg, o.name)
		if !ok {
			panic("no Config field with toml path " + o.name)
		}
		m[o.name] = wireOf(v)
	}
	return m
}

func (p *prop) precLine(r *vh.Rng, o option, subset int, dflt wval) (string, bool) {
	part := func(bit int, who string, salt int) string {
		if subset&bit == 0 {
			return "-"
		}
		for try := 0; try < 20; try++ {
			w := genVal(r, o.kind, who, salt)
			if who != "env" || envOK(w) {
				return encVal(w)
			}
		}
		return "-"
	}
	f, e, i := part(4, "flag", 0), part(2, "env", 1), part(1, "file", 2)
	vh.Count(fmt.Sprintf("prec:subset%d", subset))
	vh.Count("prec:kind-" + o.kind)
	return fmt.Sprintf("prec %s %s %s %s %s", o.name, f, e, i, encVal(dflt)), f != "-" || e != "-" || i != "-"
}

func cfgLine(op string, opts []option, vals map[string]wval) string {
	ss := make([]string, len(opts))
	for i, o := range opts {
		ss[i] = o.name + "=" + encVal(vals[o.name])
	}
	return op + " " + strings.Join(ss, ",")
}

func (p *prop) Gen(r *vh.Rng, tier string, n int) []vh.Case {
	opts := p.options()
	dfl := p.defaults()
	var cases []vh.Case
	// exhaustive block: every option x every subset of sources
	for _, o := range opts {
		for subset := 0; subset < 8; subset++ {
			cr := r.Fork()
			l, nt := p.precLine(cr, o, subset, dfl[o.name])
			cases = append(cases, vh.Case{Lines: []string{l}, Nontrivial: nt})
		}
	}
	cases = append(cases, vh.Case{Lines: []string{cfgLine("gen", opts, dfl)}, Nontrivial: true})
	for k := 0; k < n; k++ {
		cr := r.Fork()
		if cr.Chance(1, 10) {
			// stdlib tie of the duration model
			if cr.Bool() {
				cases = append(cases, vh.Case{Lines: []string{"ds " + strconv.FormatInt(genDur(cr, 0), 10)}, Nontrivial: true})
			} else {
				t := time.Duration(genDur(cr, 0)).String()
				switch cr.Intn(6) {
				case 0:
					t = cr.PickS("1h", "1.5h", "0", "", "s", ".5s", "1.s", "1u", "1us2ms", "+3m", "1x", "9223372036854775808ns", "-9223372036854775808ns",
						"1.0000000001s", "1μs", "1µs", "--1s", "1 s", "3m2", ".s", "1e3s", "00001.500s", "9223372036854775807ns1ns")
				case 1:
					if len(t) > 1 {
						i := cr.Intn(len(t))
						t = strings.ToValidUTF8(t[:i]+cr.PickS(".", "0", "s", "m", "-", "9")+t[i:], "?")
					}
				}
				cases = append(cases, vh.Case{Lines: []string{"pd " + encStr(t)}, Nontrivial: true})
			}
			continue
		}
		if cr.Chance(6, 10) {
			o := opts[cr.Intn(len(opts))]
			l, nt := p.precLine(cr, o, cr.Intn(8), dfl[o.name])
			cases = append(cases, vh.Case{Lines: []string{l}, Nontrivial: nt})
			continue
		}
		vals := map[string]wval{}
		for k, v := range dfl {
			vals[k] = v
		}
		nov := cr.Pick(0, 1, 1, 2, 3, 4, 6)
		for j := 0; j < nov; j++ {
			o := opts[cr.Intn(len(opts))]
			vals[o.name] = genVal(cr, o.kind, "rp", 0)
			vh.Count("rp:override-" + o.kind)
		}
		cases = append(cases, vh.Case{Lines: []string{cfgLine("rp", opts, vals)}, Nontrivial: nov > 0})
	}
	return cases
}

// ---------- execution ----------

func (p *prop) Exec(lines []string) []string {
	outs := make([]string, len(lines))
	for i, l := range lines {
		l := l
		outs[i] = vh.Guard("exec", func() string { return p.execLine(l) })
	}
	return outs
}

func (p *prop) kind(name string) (string, bool) {
	for _, o := range p.options() {
		if o.name == name {
			return o.kind, true
		}
	}
	return "", false
}

func (p *prop) execLine(l string) string {
	ws := strings.Fields(l)
	switch {
	case len(ws) == 6 && ws[0] == "prec":
		return p.execPrec(ws)
	case len(ws) == 2 && ws[0] == "ds":
		n, err := strconv.ParseInt(ws[1], 10, 64)
		if err != nil {
			return "bad-op"
		}
		return encStr(time.Duration(n).String())
	case len(ws) == 2 && ws[0] == "pd":
		t, ok := decStr(ws[1])
		if !ok {
			return "bad-op"
		}
		d, err := time.ParseDuration(t)
		if err != nil {
			return "err"
		}
		return "ok " + strconv.FormatInt(int64(d), 10)
	case len(ws) == 2 && (ws[0] == "rp" || ws[0] == "gen"):
		return p.execRP(ws[0], ws[1])
	}
	return "bad-op"
}

func (p *prop) execPrec(ws []string) string {
	name := ws[1]
	if _, ok := p.kind(name); !ok {
		return "bad-op"
	}
	var src [3]*wval
	for i := 0; i < 3; i++ {
		if ws[2+i] == "-" {
			continue
		}
		w, ok := decVal(ws[2+i])
		if !ok {
			return "bad-op"
		}
		src[i] = &w
	}
	if _, ok := decVal(ws[5]); !ok {
		return "bad-op"
	}
	var args []string
	if src[0] != nil {
		args = append(args, "--"+name+"="+argText(*src[0], false))
	}
	if src[1] != nil {
		en := envName(name)
		os.Setenv(en, argText(*src[1], true))
		defer os.Unsetenv(en)
	}
	out := "err"
	run := func() {
		cfg, ok := dryRun(args)
		if !ok {
			return
		}
		v, ok := byTomlPath(cfg, name)
		if !ok {
			out = "err:no-field"
			return
		}
		out = showVal(wireOf(v))
	}
	if src[2] != nil {
		withTempFile(fileFor(name, *src[2]), func(path string) {
			args = append(args, "--config", path)
			run()
		})
	} else {
		run()
	}
	return out
}

func (p *prop) execRP(op, spec string) string {
	opts := p.options()
	vals := map[string]wval{}
	for _, kv := range strings.Split(spec, ",") {
		i := strings.Index(kv, "=")
		if i < 0 {
			return "bad-op"
		}
		w, ok := decVal(kv[i+1:])
		if _, known := p.kind(kv[:i]); !ok || !known {
			return "bad-op"
		}
		vals[kv[:i]] = w
	}
	if len(vals) != len(opts) {
		return "bad-op"
	}
	var out bytes.Buffer
	rc := cmd.NewRootCommand(strings.NewReader(""), &out, ioutil.Discard)
	if op == "gen" {
		rc.SetArgs([]string{"generate-config"})
	} else {
		args := []string{"config"}
		for _, o := range opts {
			args = append(args, "--"+o.name+"="+argText(vals[o.name], false))
		}
		rc.SetArgs(args)
	}
	if err := rc.Execute(); err != nil {
		return "text=err back=err"
	}
	text := out.String()
	back := "err"
	withTempFile(text, func(path string) {
		cfg, ok := dryRun([]string{"--config", path})
		if !ok {
			return
		}
		ss := make([]string, len(opts))
		for i, o := range opts {
			v, ok := byTomlPath(cfg, o.name)
			if !ok {
				return
			}
			ss[i] = o.name + "=" + showVal(wireOf(v))
		}
		back = strings.Join(ss, ",")
	})
	if back == "err" {
		vh.Count(op + ":readback-error")
	} else {
		vh.Count(op + ":readback-ok")
	}
	return "text=" + encStr(text) + " back=" + back
}

func main() {
	vh.Main(&prop{})
}
