// Translator self-test for C23 (extra_check of props/C23.json).
//
// The trusted part of a translator-tied proof is the translator.  This program copies api.go and
// http/handler.go of the checked tree into a scratch directory (outside the repository, removed
// afterwards), applies one small source mutation at a time to the COPY, runs the gate extractor on
// it and re-checks the C23 theorems against the regenerated table (Gen + Model + Spec + Props
// concatenated into one scratch Lean file).  Every mutation must make the expected theorem fail,
// and the unmutated copy must prove (control).
//
//	c23selftest --repo /repo --root /verif [--tier quick|thorough] [--seed n]
//
// quick tier: the control and two of the mutations (rotating with the seed); thorough: all.
//
// Last stdout line: the JSON verdict bin/check expects.
package main

import (
	"encoding/json"
	"flag"
	"fmt"
	"os"
	"os/exec"
	"path/filepath"
	"regexp"
	"sort"
	"strings"
	"sync"
)

type mutation struct {
	name   string
	apply  func(src string) (string, bool)
	expect []string // at least one of these theorems must fail
}

func replaceOnce(old, new string) func(string) (string, bool) {
	return func(s string) (string, bool) {
		if strings.Count(s, old) != 1 {
			return s, false
		}
		return strings.Replace(s, old, new, 1), true
	}
}

const queryGate = "\tif err := api.validate(apiQuery); err != nil {\n\t\treturn QueryResponse{}, errors.Wrap(err, \"validating api method\")\n\t}\n"
const importGate = "\tif err := api.validate(apiImport); err != nil {\n\t\treturn errors.Wrap(err, \"validating api method\")\n\t}\n"
const deleteIndexGate = "\tif err := api.validate(apiDeleteIndex); err != nil {\n"

var mutations = []mutation{
	{"ungate-Query", replaceOnce(queryGate, ""), []string{"C23_refused"}},
	{"unchecked-validate-Import", replaceOnce(importGate, "\t_ = api.validate(apiImport)\n"), []string{"C23_refused", "C23_before_data"}},
	{"Import-gated-under-transfer-class", replaceOnce("api.validate(apiImport)", "api.validate(apiFragmentData)"), []string{"C23_admitted", "C23_resizing_only"}},
	{"apiQuery-added-to-methodsResizing", replaceOnce("var methodsResizing = map[apiMethod]struct{}{\n", "var methodsResizing = map[apiMethod]struct{}{\n\tapiQuery: {},\n"), []string{"C23_refused", "C23_resizing_only"}},
	{"new-unclassified-entry-point", func(s string) (string, bool) {
		return s + "\n// Frobnicate is new.\nfunc (api *API) Frobnicate() error { return api.holder.DeleteIndex(\"i\") }\n", true
	}, []string{"C23_classified"}},
	{"data-touched-before-gate-DeleteIndex", replaceOnce(deleteIndexGate, "\t_ = api.holder.DeleteIndex(indexName)\n"+deleteIndexGate), []string{"C23_before_data"}},
	{"validate-admits-everything-while-STARTING", replaceOnce("if _, ok := validAPIMethods[state][f]; ok {", "if _, ok := validAPIMethods[state][f]; ok || state == ClusterStateStarting {"), []string{"C23_validate_shape"}},
	{"STARTING-row-gets-methodsNormal", replaceOnce("ClusterStateStarting: methodsCommon,", "ClusterStateStarting: appendMap(methodsCommon, methodsNormal),"), []string{"C23_refused"}},
	{"gate-only-for-local-queries", replaceOnce(queryGate, "\tif !req.Remote {\n\t\tif err := api.validate(apiQuery); err != nil {\n\t\t\treturn QueryResponse{}, err\n\t\t}\n\t}\n"), []string{"C23_refused", "C23_before_data"}},
	{"apiFragmentData-removed-from-methodsResizing", replaceOnce("\tapiFragmentData: {},\n", ""), []string{"C23_resizing_only", "C23_resizing_served"}},
}

type result struct {
	name    string
	failed  []string
	ok      bool
	problem string
}

var importRe = regexp.MustCompile(`(?m)^import PV\.C23\.\w+\s*$`)
var errRe = regexp.MustCompile(`(?m)^(\S+\.lean):(\d+):\d+: error`)
var thmRe = regexp.MustCompile(`^\s*theorem\s+(\S+)`)

// leanCheck concatenates Gen (given) + Model + Spec + Props and elaborates the result.
func leanCheck(root, dir, gen string) (failed []string, exitOK bool, out string) {
	var b strings.Builder
	for _, f := range []string{gen, filepath.Join(root, "lean/PV/C23/Model.lean"), filepath.Join(root, "lean/PV/C23/Spec.lean"), filepath.Join(root, "lean/PV/C23/Props.lean")} {
		src, err := os.ReadFile(f)
		if err != nil {
			return nil, false, err.Error()
		}
		b.WriteString(importRe.ReplaceAllString(string(src), ""))
		b.WriteString("\n")
	}
	all := filepath.Join(dir, "All.lean")
	if err := os.WriteFile(all, []byte(b.String()), 0o644); err != nil {
		return nil, false, err.Error()
	}
	cmd := exec.Command("lake", "env", "lean", all)
	cmd.Dir = filepath.Join(root, "lean")
	o, err := cmd.CombinedOutput()
	out = string(o)
	lines := strings.Split(b.String(), "\n")
	seen := map[string]bool{}
	for _, m := range errRe.FindAllStringSubmatch(out, -1) {
		var ln int
		fmt.Sscanf(m[2], "%d", &ln)
		name := fmt.Sprintf("line-%d", ln)
		for i := ln - 1; i >= 0 && i < len(lines); i-- {
			if tm := thmRe.FindStringSubmatch(lines[i]); tm != nil {
				name = tm[1]
				break
			}
		}
		if !seen[name] {
			seen[name] = true
			failed = append(failed, name)
		}
	}
	sort.Strings(failed)
	return failed, err == nil, out
}

func main() {
	repo := flag.String("repo", "/repo", "pilosa tree")
	root := flag.String("root", "/verif", "verification root")
	tier := flag.String("tier", "quick", "quick: control + 2 mutations chosen by --seed; thorough: all")
	seed := flag.Int("seed", 1, "rotates the quick-tier subset")
	flag.Parse()
	if *tier != "thorough" {
		var sub []mutation
		for k := 0; k < 2; k++ {
			sub = append(sub, mutations[((*seed%len(mutations))+len(mutations)+k*3)%len(mutations)])
		}
		mutations = sub
	}
	verdict := func(ok bool, n int, what string) {
		b, _ := json.Marshal(map[string]interface{}{"ok": ok, "evaluations": n, "distinct_nontrivial": n, "what": what, "found": false, "replay_lines": []string{}})
		fmt.Println(string(b))
	}
	tmpRoot := filepath.Join(*root, ".work", "tmp")
	_ = os.MkdirAll(tmpRoot, 0o755)
	scratch, err := os.MkdirTemp(tmpRoot, "c23-selftest-")
	if err != nil {
		verdict(false, 0, "cannot create scratch dir: "+err.Error())
		return
	}
	defer os.RemoveAll(scratch)
	apiSrc, err := os.ReadFile(filepath.Join(*repo, "api.go"))
	if err != nil {
		verdict(false, 0, err.Error())
		return
	}
	handlerSrc, _ := os.ReadFile(filepath.Join(*repo, "http", "handler.go"))
	gate := filepath.Join(scratch, "gate.bin")
	if o, err := exec.Command("go", "build", "-o", gate, "./extract/gate").CombinedOutput(); err != nil {
		verdict(false, 0, "cannot build extractor: "+string(o))
		return
	}

	run := func(name, src string) ([]string, bool, string) {
		d := filepath.Join(scratch, name)
		_ = os.MkdirAll(d, 0o755)
		_ = os.WriteFile(filepath.Join(d, "api.go"), []byte(src), 0o644)
		_ = os.WriteFile(filepath.Join(d, "handler.go"), handlerSrc, 0o644)
		gen := filepath.Join(d, "Gen.lean")
		if o, err := exec.Command(gate, "--api", filepath.Join(d, "api.go"), "--handler", filepath.Join(d, "handler.go"), "--out", gen).CombinedOutput(); err != nil {
			return []string{"extractor-refused"}, false, string(o)
		}
		return leanCheck(*root, d, gen)
	}

	results := make([]result, len(mutations)+1)
	var wg sync.WaitGroup
	sem := make(chan struct{}, 4)
	wg.Add(1)
	go func() {
		defer wg.Done()
		sem <- struct{}{}
		defer func() { <-sem }()
		failed, ok, out := run("control", string(apiSrc))
		r := result{name: "control", failed: failed, ok: ok && len(failed) == 0}
		if !r.ok {
			r.problem = "the unmutated copy does not prove: " + strings.Join(failed, ",") + " " + tail(out)
		}
		results[0] = r
	}()
	for i, m := range mutations {
		i, m := i, m
		wg.Add(1)
		go func() {
			defer wg.Done()
			sem <- struct{}{}
			defer func() { <-sem }()
			src, applied := m.apply(string(apiSrc))
			if !applied {
				results[i+1] = result{name: m.name, problem: "mutation does not apply to this api.go (anchor text missing)"}
				return
			}
			failed, exitOK, _ := run(m.name, src)
			r := result{name: m.name, failed: failed}
			hit := false
			for _, f := range failed {
				for _, e := range m.expect {
					if f == e || f == "extractor-refused" {
						hit = true
					}
				}
			}
			r.ok = !exitOK && hit
			if !r.ok {
				r.problem = fmt.Sprintf("expected one of %v to fail, failing: %v", m.expect, failed)
			}
			results[i+1] = r
		}()
	}
	wg.Wait()
	allOK := true
	var bad []string
	for _, r := range results {
		st := "caught"
		if r.name == "control" {
			st = "proves"
		}
		if !r.ok {
			st = "NOT OK: " + r.problem
			allOK = false
			bad = append(bad, r.name+": "+r.problem)
		}
		fmt.Printf("c23selftest %-46s %s  failing=%v\n", r.name, st, r.failed)
	}
	what := fmt.Sprintf("translator self-test: %d source mutations of a scratch copy of api.go each break the expected C23 theorem; the unmutated copy proves", len(mutations))
	if !allOK {
		what = "translator self-test failed: " + strings.Join(bad, "; ")
		if len(what) > 560 {
			what = what[:560]
		}
	}
	verdict(allOK, len(mutations)+1, what)
}

func tail(s string) string {
	if len(s) > 300 {
		return s[len(s)-300:]
	}
	return s
}
