// Translator self-test for C23 (extra_check of props/C23.json).
//
// The trusted part of a translator-tied proof is the translator.  This program copies api.go and
// http/handler.go of the checked tree into a scratch directory (outside the repository, removed
// afterwards), applies one small source mutation at a time to the COPY, runs the gate extractor on
// it and re-checks the C23 theorems against the regenerated table (Gen + Model + Spec + Props
// concatenated into one scratch Lean file).  Every mutation must make the expected theorem fail,
// and the unmutated copy must prove (control).
//
//	c23selftest --repo /repo --root /verif [--tier quick|thorough] [--seed n]
//
// quick tier: three of the mutations (rotating with the seed), each checked against the theorems it is
// expected to break only (the unmutated tree is proved by the main build); thorough: control + all, whole Props.
//
// Last stdout line: the JSON verdict bin/check expects.
package main

import (
	"encoding/json"
	"flag"
	"fmt"
	"os"
	"os/exec"
	"path/filepath"
	"regexp"
	"sort"
	"strings"
	"sync"
)

type mutation struct {
	name   string
	apply  func(src string) (string, bool)
	expect []string // at least one of these theorems must fail
}

func replaceOnce(old, new string) func(string) (string, bool) {
	return func(s string) (string, bool) {
		if strings.Count(s, old) != 1 {
			return s, false
		}
		return strings.Replace(s, old, new, 1), true
	}
}

const queryGate = "\tif err := api.validate(apiQuery); err != nil {\n\t\treturn QueryResponse{}, errors.Wrap(err, \"validating api method\")\n\t}\n"
const importGate = "\tif err := api.validate(apiImport); err != nil {\n\t\treturn errors.Wrap(err, \"validating api method\")\n\t}\n"
const deleteIndexGate = "\tif err := api.validate(apiDeleteIndex); err != nil {\n"

var mutations = []mutation{
	{"ungate-Query", replaceOnce(queryGate, ""), []string{"C23_refused"}},
	{"unchecked-validate-Import", replaceOnce(importGate, "\t_ = api.validate(apiImport)\n"), []string{"C23_refused", "C23_before_data", "C23_before_data_sites"}},
	{"Import-gated-under-transfer-class", replaceOnce("api.validate(apiImport)", "api.validate(apiFragmentData)"), []string{"C23_admitted", "C23_resizing_only"}},
	{"apiQuery-added-to-methodsResizing", replaceOnce("var methodsResizing = map[apiMethod]struct{}{\n", "var methodsResizing = map[apiMethod]struct{}{\n\tapiQuery: {},\n"), []string{"C23_refused", "C23_resizing_only"}},
	{"new-unclassified-entry-point", func(s string) (string, bool) {
		return s + "\n// Frobnicate is new.\nfunc (api *API) Frobnicate() error { return api.holder.DeleteIndex(\"i\") }\n", true
	}, []string{"C23_classified"}},
	{"data-touched-before-gate-DeleteIndex", replaceOnce(deleteIndexGate, "\t_ = api.holder.DeleteIndex(indexName)\n"+deleteIndexGate), []string{"C23_before_data", "C23_before_data_sites"}},
	{"validate-admits-everything-while-STARTING", replaceOnce("if _, ok := validAPIMethods[state][f]; ok {", "if _, ok := validAPIMethods[state][f]; ok || state == ClusterStateStarting {"), []string{"C23_validate_shape"}},
	{"STARTING-row-gets-methodsNormal", replaceOnce("ClusterStateStarting: methodsCommon,", "ClusterStateStarting: appendMap(methodsCommon, methodsNormal),"), []string{"C23_refused"}},
	{"gate-only-for-local-queries", replaceOnce(queryGate, "\tif !req.Remote {\n\t\tif err := api.validate(apiQuery); err != nil {\n\t\t\treturn QueryResponse{}, err\n\t\t}\n\t}\n"), []string{"C23_refused", "C23_before_data", "C23_before_data_sites"}},
	{"Import-gate-moved-behind-key-translation", func(src string) (string, bool) {
		if strings.Count(src, importGate) != 1 || strings.Count(src, "\t// Validate shard ownership.\n\tif err := api.validateShardOwnership(req.Index, req.Shard); err != nil {") < 1 {
			return src, false
		}
		src = strings.Replace(src, importGate, "", 1)
		return strings.Replace(src, "\t// Validate shard ownership.\n\tif err := api.validateShardOwnership(req.Index, req.Shard); err != nil {",
			importGate+"\t// Validate shard ownership.\n\tif err := api.validateShardOwnership(req.Index, req.Shard); err != nil {", 1), true
	}, []string{"C23_before_data", "C23_before_data_sites"}},
	{"apiFragmentData-removed-from-methodsResizing", replaceOnce("\tapiFragmentData: {},\n", ""), []string{"C23_resizing_only", "C23_resizing_served"}},
}

type result struct {
	name    string
	failed  []string
	ok      bool
	problem string
}

var importRe = regexp.MustCompile(`(?m)^import PV\.C23\.\w+\s*$`)
var errRe = regexp.MustCompile(`(?m)^(\S+\.lean):(\d+):\d+: error`)
var thmRe = regexp.MustCompile(`^\s*theorem\s+(\S+)`)

// leanCheck concatenates Gen (given) + Model + Spec + Props and elaborates the result.
// keepTheorems drops every `theorem` / `example` block (with its doc comment) of a Props source whose
// name is not in keep; nil keeps everything.
func keepTheorems(src string, keep []string) string {
	if keep == nil {
		return src
	}
	want := map[string]bool{}
	for _, k := range keep {
		want[k] = true
	}
	var out, doc, cur []string
	curKeep := true
	flush := func() {
		if curKeep {
			out = append(out, cur...)
		}
		cur, curKeep = nil, true
	}
	inDoc := false
	for _, line := range strings.Split(src, "\n") {
		switch {
		case inDoc:
			doc = append(doc, line)
			if strings.Contains(line, "-/") {
				inDoc = false
			}
		case strings.HasPrefix(line, "/--"):
			flush()
			doc = []string{line}
			inDoc = !strings.Contains(line, "-/")
		case strings.HasPrefix(line, "theorem ") || strings.HasPrefix(line, "example"):
			flush()
			name := ""
			if m := thmRe.FindStringSubmatch(line); m != nil {
				name = m[1]
			}
			curKeep = want[name]
			cur = append(doc, line)
			doc = nil
		case strings.HasPrefix(line, "def ") || strings.HasPrefix(line, "end ") || strings.HasPrefix(line, "/-!") || strings.HasPrefix(line, "namespace "):
			flush()
			cur = append(doc, line)
			doc = nil
		default:
			if doc != nil && !inDoc && cur == nil {
				cur, doc = doc, nil
			}
			cur = append(cur, line)
		}
	}
	flush()
	return strings.Join(out, "\n")
}

func leanCheck(root, dir, gen string, keep []string) (failed []string, exitOK bool, out string) {
	var b strings.Builder
	for _, f := range []string{gen, filepath.Join(root, "lean/PV/C23/Model.lean"), filepath.Join(root, "lean/PV/C23/Spec.lean"), filepath.Join(root, "lean/PV/C23/Props.lean")} {
		src, err := os.ReadFile(f)
		if err != nil {
			return nil, false, err.Error()
		}
		text := importRe.ReplaceAllString(string(src), "")
		if strings.HasSuffix(f, "Props.lean") {
			text = keepTheorems(text, keep)
		}
		b.WriteString(text)
		b.WriteString("\n")
	}
	all := filepath.Join(dir, "All.lean")
	if err := os.WriteFile(all, []byte(b.String()), 0o644); err != nil {
		return nil, false, err.Error()
	}
	cmd := exec.Command("lake", "env", "lean", all)
	cmd.Dir = filepath.Join(root, "lean")
	o, err := cmd.CombinedOutput()
	out = string(o)
	lines := strings.Split(b.String(), "\n")
	seen := map[string]bool{}
	for _, m := range errRe.FindAllStringSubmatch(out, -1) {
		var ln int
		fmt.Sscanf(m[2], "%d", &ln)
		name := fmt.Sprintf("line-%d", ln)
		for i := ln - 1; i >= 0 && i < len(lines); i-- {
			if tm := thmRe.FindStringSubmatch(lines[i]); tm != nil {
				name = tm[1]
				break
			}
		}
		if !seen[name] {
			seen[name] = true
			failed = append(failed, name)
		}
	}
	sort.Strings(failed)
	return failed, err == nil, out
}

func main() {
	repo := flag.String("repo", "/repo", "pilosa tree")
	root := flag.String("root", "/verif", "verification root")
	tier := flag.String("tier", "quick", "quick: control + 2 mutations chosen by --seed; thorough: all")
	seed := flag.Int("seed", 1, "rotates the quick-tier subset")
	flag.Parse()
	thorough := *tier == "thorough"
	if !thorough {
		var sub []mutation
		for k := 0; k < 3; k++ {
			sub = append(sub, mutations[((*seed%len(mutations))+len(mutations)+k*3)%len(mutations)])
		}
		mutations = sub
	}
	verdict := func(ok bool, n int, what string) {
		b, _ := json.Marshal(map[string]interface{}{"ok": ok, "evaluations": n, "distinct_nontrivial": n, "what": what, "found": false, "replay_lines": []string{}})
		fmt.Println(string(b))
	}
	tmpRoot := filepath.Join(*root, ".work", "tmp")
	_ = os.MkdirAll(tmpRoot, 0o755)
	scratch, err := os.MkdirTemp(tmpRoot, "c23-selftest-")
	if err != nil {
		verdict(false, 0, "cannot create scratch dir: "+err.Error())
		return
	}
	defer os.RemoveAll(scratch)
	apiSrc, err := os.ReadFile(filepath.Join(*repo, "api.go"))
	if err != nil {
		verdict(false, 0, err.Error())
		return
	}
	handlerSrc, _ := os.ReadFile(filepath.Join(*repo, "http", "handler.go"))
	gate := filepath.Join(scratch, "gate.bin")
	if o, err := exec.Command("go", "build", "-o", gate, "./extract/gate").CombinedOutput(); err != nil {
		verdict(false, 0, "cannot build extractor: "+string(o))
		return
	}

	run := func(name, src string, keep []string) ([]string, bool, string) {
		d := filepath.Join(scratch, name)
		_ = os.MkdirAll(d, 0o755)
		_ = os.WriteFile(filepath.Join(d, "api.go"), []byte(src), 0o644)
		_ = os.WriteFile(filepath.Join(d, "handler.go"), handlerSrc, 0o644)
		gen := filepath.Join(d, "Gen.lean")
		if o, err := exec.Command(gate, "--api", filepath.Join(d, "api.go"), "--handler", filepath.Join(d, "handler.go"), "--out", gen).CombinedOutput(); err != nil {
			return []string{"extractor-refused"}, false, string(o)
		}
		return leanCheck(*root, d, gen, keep)
	}

	results := make([]result, len(mutations)+1)
	var wg sync.WaitGroup
	sem := make(chan struct{}, 4)
	wg.Add(1)
	go func() {
		defer wg.Done()
		sem <- struct{}{}
		defer func() { <-sem }()
		if !thorough {
			// quick tier: the unmutated tree is what step 1 of bin/check (lake build of Props) has just proved
			results[0] = result{name: "control", ok: true}
			return
		}
		failed, ok, out := run("control", string(apiSrc), nil)
		r := result{name: "control", failed: failed, ok: ok && len(failed) == 0}
		if !r.ok {
			r.problem = "the unmutated copy does not prove: " + strings.Join(failed, ",") + " " + tail(out)
		}
		results[0] = r
	}()
	for i, m := range mutations {
		i, m := i, m
		wg.Add(1)
		go func() {
			defer wg.Done()
			sem <- struct{}{}
			defer func() { <-sem }()
			src, applied := m.apply(string(apiSrc))
			if !applied {
				results[i+1] = result{name: m.name, problem: "mutation does not apply to this api.go (anchor text missing)"}
				return
			}
			keep := m.expect // quick tier: elaborate only the theorems expected to break
			if thorough {
				keep = nil
			}
			failed, exitOK, _ := run(m.name, src, keep)
			r := result{name: m.name, failed: failed}
			hit := false
			for _, f := range failed {
				for _, e := range m.expect {
					if f == e || f == "extractor-refused" {
						hit = true
					}
				}
			}
			r.ok = !exitOK && hit
			if !r.ok {
				r.problem = fmt.Sprintf("expected one of %v to fail, failing: %v", m.expect, failed)
			}
			results[i+1] = r
		}()
	}
	wg.Wait()
	allOK := true
	var bad []string
	for _, r := range results {
		st := "caught"
		if r.name == "control" {
			st = "proves"
			if !thorough {
				st = "(proved by the main build)"
			}
		}
		if !r.ok {
			st = "NOT OK: " + r.problem
			allOK = false
			bad = append(bad, r.name+": "+r.problem)
		}
		fmt.Printf("c23selftest %-46s %s  failing=%v\n", r.name, st, r.failed)
	}
	what := fmt.Sprintf("translator self-test: %d source mutations of a scratch copy of api.go each break the expected C23 theorem; the unmutated copy proves", len(mutations))
	if !allOK {
		what = "translator self-test failed: " + strings.Join(bad, "; ")
		if len(what) > 560 {
			what = what[:560]
		}
	}
	verdict(allOK, len(mutations)+1, what)
}

func tail(s string) string {
	if len(s) > 300 {
		return s[len(s)-300:]
	}
	return s
}
