// Harness for C21: resize plan (diff, fragsByHost, fragsDiff, fragSources, job generation) and
// holder cleanup.
//
// Line formats are documented in lean/PV/C21/Main.lean. Every case owns a real pilosa Holder in a
// scratch directory (indexes, fields, views, fragments created through the normal constructors)
// and a real `cluster` value; the verif_c21.go shims call the unexported functions.
//
// fragSources chooses among several possible source nodes by Go map iteration order. The plan is
// therefore printed with the *set* of sources observed per frag over repeated runs of the real
// function (until every set is as large as the number of surviving previous owners reported by the
// real shardNodes, at most maxRuns); the model prints the set of nodes the code can name.
package main

import (
	"fmt"
	"os"
	"reflect"
	"sort"
	"strconv"
	"strings"

	"github.com/pilosa/pilosa"
	"verifharness/vh"
)

type prop struct{}

func (p *prop) Rule() string {
	return "one holder + cluster per case: 0..6 node ids from a pool whose string order differs from join order, replicas 1..4 (sometimes 0, 5), " +
		"1-2 indexes with 0..3 fields x 0..3 views, local fragments and remotely known shards over a bounded shard range (plus a few huge shard numbers); " +
		"then fragsByHost, every single-node add (every pool id not in the cluster: head, middle and tail of the sorted ring) and every single-node remove " +
		"as fragSources and as generated job, diff error cases, fragsDiff with duplicates, and CleanHolder for members and non-members after the membership change; " +
		"thorough enumerates every subset of <= 6 of the 8 pool ids x replicas 1..4 x every add/remove on a fixed 2-field index; " +
		"a case is non-trivial when some plan line names at least one source or is refused"
}

var pool = []string{"node1", "node10", "node2", "a", "B", "n", "na", "z-9"}
var viewNames = []string{"standard", "standard_2019", "bsig_v", "standard_201901"}
var fieldNames = []string{"f", "g", "age"}
var indexNames = []string{"i", "users", "a-b_c"}

const exhaustW = 8
const maxRuns = 400

var workerOf int

func csvS(xs []string) string {
	if len(xs) == 0 {
		return "-"
	}
	return strings.Join(xs, ",")
}

func subsetU(r *vh.Rng, max, num, den int) []uint64 {
	var out []uint64
	for v := 0; v <= max; v++ {
		if r.Chance(num, den) {
			out = append(out, uint64(v))
		}
	}
	return out
}

func genSchema(r *vh.Rng) string {
	nf := r.Pick(0, 1, 1, 2, 2, 3)
	if nf == 0 {
		return "-"
	}
	var fs []string
	for _, k := range r.Perm(len(fieldNames))[:nf] {
		nv := r.Pick(0, 1, 1, 2, 3)
		var vs []string
		for _, j := range r.Perm(len(viewNames))[:nv] {
			vs = append(vs, viewNames[j])
		}
		fs = append(fs, fieldNames[k]+":"+strings.Join(vs, ","))
	}
	return strings.Join(fs, ";")
}

func without(ids []string, x string) []string {
	var out []string
	for _, id := range ids {
		if id != x {
			out = append(out, id)
		}
	}
	return out
}

// planLines emits every single add and every single remove for the cluster `ids`.
func planLines(r *vh.Rng, ids []string, idxs []string, full bool) []string {
	var lines []string
	in := map[string]bool{}
	for _, id := range ids {
		in[id] = true
	}
	for _, x := range pool {
		if in[x] {
			continue
		}
		if !full && !r.Chance(1, 2) {
			continue
		}
		to := append(append([]string{}, ids...), x)
		for _, ix := range idxs {
			lines = append(lines, fmt.Sprintf("sources %s %s", ix, csvS(to)))
		}
		lines = append(lines, "job add "+x)
	}
	for _, x := range ids {
		if !full && !r.Chance(2, 3) {
			continue
		}
		for _, ix := range idxs {
			lines = append(lines, fmt.Sprintf("sources %s %s", ix, csvS(without(ids, x))))
		}
		lines = append(lines, "job remove "+x)
	}
	return lines
}

func genFrags(r *vh.Rng) string {
	n := r.Range(0, 6)
	var fs []string
	for i := 0; i < n; i++ {
		fs = append(fs, fmt.Sprintf("%s/%s/%d", r.PickS("f", "g"), r.PickS("v", "w"), r.Intn(3)))
	}
	return csvS(fs)
}

func (p *prop) Gen(r *vh.Rng, tier string, n int) []vh.Case {
	var cases []vh.Case
	for k := 0; k < n; k++ {
		cr := r.Fork()
		size := cr.Pick(0, 1, 2, 2, 3, 3, 4, 4, 5, 6)
		var ids []string
		for _, x := range cr.Perm(len(pool))[:size] {
			ids = append(ids, pool[x])
		}
		rep := cr.Pick(1, 1, 2, 2, 3, 3, 4, 0, 5)
		var lines []string
		var idxs []string
		for _, j := range cr.Perm(len(indexNames))[:cr.Pick(1, 1, 1, 2)] {
			name := indexNames[j]
			idxs = append(idxs, name)
			locals := subsetU(cr, 9, 3, 10)
			remote := subsetU(cr, 14, 3, 10)
			if cr.Chance(1, 8) {
				remote = append(remote, cr.PickU(1<<32, 1<<40+7, 1000003))
			}
			lines = append(lines, fmt.Sprintf("idx %s %s %s %s", name, genSchema(cr), vh.CSV(locals), vh.CSV(remote)))
		}
		lines = append(lines, fmt.Sprintf("cluster %s %d", csvS(ids), rep))
		for _, ix := range idxs {
			lines = append(lines, "fbh "+ix)
		}
		lines = append(lines, planLines(cr, ids, idxs, false)...)
		// diff error cases and odd targets
		if cr.Chance(1, 3) {
			lines = append(lines, "diff "+csvS(ids))
			lines = append(lines, fmt.Sprintf("sources %s %s", idxs[0], csvS(ids)))
			two := append(append([]string{}, ids...), "x1", "x2")
			lines = append(lines, "diff "+csvS(two))
			lines = append(lines, fmt.Sprintf("sources %s %s", idxs[0], csvS(two)))
			if len(ids) >= 2 {
				lines = append(lines, "diff "+csvS(ids[2:]))
				lines = append(lines, fmt.Sprintf("sources %s %s", idxs[0], csvS(ids[2:])))
				// same size, one id swapped: neither add nor remove
				lines = append(lines, "diff "+csvS(append(append([]string{}, ids[1:]...), "x1")))
			}
			if len(ids) > 0 {
				lines = append(lines, "job add "+ids[0], "job remove x1")
			}
		}
		if cr.Chance(1, 3) {
			lines = append(lines, fmt.Sprintf("fragsdiff %s %s", genFrags(cr), genFrags(cr)))
		}
		// membership change completes; cleanup on members and on a node that left
		var target []string
		self := "a"
		switch {
		case len(ids) > 0 && cr.Chance(1, 2):
			x := ids[cr.Intn(len(ids))]
			target = without(ids, x)
			self = x
			if len(target) > 0 && cr.Chance(2, 3) {
				self = target[cr.Intn(len(target))]
			}
		default:
			x := pool[cr.Intn(len(pool))]
			target = append(append([]string{}, without(ids, x)...), x)
			self = target[cr.Intn(len(target))]
		}
		lines = append(lines, fmt.Sprintf("cluster %s %d", csvS(target), rep))
		lines = append(lines, "clean "+self)
		if cr.Chance(1, 2) {
			lines = append(lines, "clean "+self) // idempotent
			for _, ix := range idxs {
				lines = append(lines, "fbh "+ix)
			}
		}
		cases = append(cases, vh.Case{Lines: lines, Nontrivial: size >= 1})
	}
	if followerHook() {
		for k := 0; k < n/2+1; k++ {
			cases = append(cases, followerCase(r.Fork()))
		}
	}
	if tier == "thorough" {
		item := 0
		for mask := 0; mask < 1<<len(pool); mask++ {
			var ids []string
			for i, id := range pool {
				if mask&(1<<i) != 0 {
					ids = append(ids, id)
				}
			}
			if len(ids) > 6 {
				continue
			}
			for rep := 1; rep <= 4; rep++ {
				item++
				if item%exhaustW != workerOf%exhaustW {
					continue
				}
				// join in descending order so the sort in addNodeBasicSorted does the work
				rev := append([]string{}, ids...)
				sort.Sort(sort.Reverse(sort.StringSlice(rev)))
				lines := []string{
					"idx i f:standard,standard_2019;g:standard 0,3,4 1,2,5,6,7,8,9,10,11",
					fmt.Sprintf("cluster %s %d", csvS(rev), rep),
				}
				lines = append(lines, planLines(r, rev, []string{"i"}, true)...)
				for _, self := range ids {
					lines = append(lines, "clean "+self)
				}
				cases = append(cases, vh.Case{Lines: lines, Nontrivial: len(ids) >= 1})
			}
		}
	}
	return cases
}

// followerHook reports whether the tree under test has the mergeClusterStatus shims of
// verif_c21.go (added after the first integration of this harness); without them no follower
// lines are generated and replayed follower lines answer `skip`.
func followerHook() bool {
	t := reflect.TypeOf((*pilosa.VerifC21Env)(nil))
	_, a := t.MethodByName("MergeClusterStatus")
	_, b := t.MethodByName("SetFollower")
	_, c := t.MethodByName("ClusterState")
	return a && b && c
}

// followerCase: a node that is not the coordinator holds fragments (the shards it owned plus the
// ones it copied during the resize), is in state RESIZING with the OLD node list, and receives the
// coordinator's final ClusterStatus; also the transitions that must not clean anything.
func followerCase(cr *vh.Rng) vh.Case {
	size := cr.Pick(2, 3, 3, 4, 4, 5, 6)
	var ids []string
	for _, x := range cr.Perm(len(pool))[:size] {
		ids = append(ids, pool[x])
	}
	rep := cr.Pick(1, 2, 2, 2, 3, 3, 4)
	var lines []string
	name := indexNames[cr.Intn(len(indexNames))]
	schema := genSchema(cr)
	if cr.Chance(3, 4) {
		schema = "f:standard"
		if cr.Chance(1, 2) {
			schema = "f:standard,standard_2019;g:standard"
		}
	}
	var locals []uint64
	for v := 0; v <= 9; v++ {
		if cr.Chance(4, 5) {
			locals = append(locals, uint64(v))
		}
	}
	lines = append(lines, fmt.Sprintf("idx %s %s %s %s", name, schema, vh.CSV(locals), vh.CSV(subsetU(cr, 12, 2, 10))))
	lines = append(lines, fmt.Sprintf("cluster %s %d", csvS(ids), rep))
	// the membership change
	var final []string
	removed := ""
	if cr.Chance(3, 5) {
		removed = ids[cr.Intn(len(ids))]
		final = without(ids, removed)
	} else {
		var out []string
		in := map[string]bool{}
		for _, id := range ids {
			in[id] = true
		}
		for _, x := range pool {
			if !in[x] {
				out = append(out, x)
			}
		}
		final = append(append([]string{}, ids...), out[cr.Intn(len(out))])
	}
	coord := final[cr.Intn(len(final))]
	self := final[cr.Intn(len(final))]
	for tries := 0; self == coord && tries < 4; tries++ {
		self = final[cr.Intn(len(final))]
	}
	from, to := "RESIZING", "NORMAL"
	switch cr.Intn(12) {
	case 0:
		to = "DEGRADED"
	case 1:
		from = "NORMAL"
	case 2:
		from = "STARTING"
	case 3:
		to = "RESIZING"
	case 4:
		self = coord // the coordinator ignores its own status
	case 5:
		if removed != "" {
			self = removed // the node that was removed keeps itself in its list
		}
	}
	// a permutation of the final list: the status carries nodes in the coordinator's order
	var perm []string
	for _, j := range cr.Perm(len(final)) {
		perm = append(perm, final[j])
	}
	lines = append(lines, fmt.Sprintf("follower %s %s %s", self, coord, from))
	lines = append(lines, fmt.Sprintf("status %s %s %s", to, csvS(perm), coord))
	if cr.Chance(1, 2) {
		lines = append(lines, fmt.Sprintf("status %s %s %s", to, csvS(final), coord)) // repeated status: nothing more to do
		lines = append(lines, "fbh "+name)
	}
	if cr.Chance(1, 3) {
		lines = append(lines, fmt.Sprintf("status RESIZING %s %s", csvS(final), coord))
		lines = append(lines, fmt.Sprintf("status NORMAL %s %s", csvS(ids), coord))
	}
	return vh.Case{Lines: lines, Nontrivial: from == "RESIZING" && to != "RESIZING" && self != coord}
}

// ---------- execution ----------

type fragT = pilosa.VerifC21Frag

func fragLess(a, b fragT) bool {
	if a.Field != b.Field {
		return a.Field < b.Field
	}
	if a.View != b.View {
		return a.View < b.View
	}
	return a.Shard < b.Shard
}

func showFrag(f fragT) string { return fmt.Sprintf("%s/%s/%d", f.Field, f.View, f.Shard) }

func parseFrags(s string) []fragT {
	if s == "-" || s == "" {
		return nil
	}
	var out []fragT
	for _, t := range strings.Split(s, ",") {
		p := strings.Split(t, "/")
		sh, _ := strconv.ParseUint(p[2], 10, 64)
		out = append(out, fragT{Field: p[0], View: p[1], Shard: sh})
	}
	return out
}

func parseIDs(s string) []string {
	if s == "-" || s == "" {
		return nil
	}
	return strings.Split(s, ",")
}

func errKind(err error) string {
	msg := err.Error()
	switch {
	case strings.Contains(msg, "clusters are the same size"):
		return "err:same-size"
	case strings.Contains(msg, "adding more than one node"):
		return "err:add-many"
	case strings.Contains(msg, "removing more than one node"):
		return "err:remove-many"
	case strings.Contains(msg, "not enough data to perform resize"):
		return "err:no-source"
	}
	return "err:other"
}

// tagged frag: index name + frag (index empty for per-index plans)
type tag struct {
	index string
	f     fragT
}

func tagLess(a, b tag) bool {
	if a.index != b.index {
		return a.index < b.index
	}
	return fragLess(a.f, b.f)
}

// observed plan: node -> tag -> set of source ids
type obsPlan map[string]map[tag]map[string]bool

func (o obsPlan) structure() string {
	var ns []string
	for n, m := range o {
		var ts []tag
		for t := range m {
			ts = append(ts, t)
		}
		sort.Slice(ts, func(i, j int) bool { return tagLess(ts[i], ts[j]) })
		ns = append(ns, fmt.Sprint(n, ts))
	}
	sort.Strings(ns)
	return strings.Join(ns, ";")
}

func (o obsPlan) render(withIndex bool) string {
	if len(o) == 0 {
		return "-"
	}
	var ns []string
	for n := range o {
		ns = append(ns, n)
	}
	sort.Strings(ns)
	var parts []string
	for _, n := range ns {
		var ts []tag
		for t := range o[n] {
			ts = append(ts, t)
		}
		sort.Slice(ts, func(i, j int) bool { return tagLess(ts[i], ts[j]) })
		var fs []string
		for _, t := range ts {
			var srcs []string
			for s := range o[n][t] {
				srcs = append(srcs, s)
			}
			sort.Strings(srcs)
			name := showFrag(t.f)
			if withIndex {
				name = t.index + ":" + name
			}
			fs = append(fs, name+"<"+strings.Join(srcs, "|"))
		}
		parts = append(parts, n+"{"+strings.Join(fs, ",")+"}")
	}
	return strings.Join(parts, " ")
}

// merge adds one observation; multiplicity of a (node, tag) pair must be 1.
func (o obsPlan) add(node string, t tag, src string) bool {
	if o[node] == nil {
		o[node] = map[tag]map[string]bool{}
	}
	if o[node][t] == nil {
		o[node][t] = map[string]bool{}
	}
	o[node][t][src] = true
	return true
}

type env struct {
	e   *pilosa.VerifC21Env
	dir string
	rep int
}

// bound = number of nodes the real shardNodes reports for the shard under the *current* cluster,
// not counting the node being removed: once every observed set has that size no further run can
// add anything (early stop only; the printed sets are what was observed).
func (v *env) complete(o obsPlan, removed string, defIndex string) bool {
	for _, m := range o {
		for t, srcs := range m {
			ix := t.index
			if ix == "" {
				ix = defIndex
			}
			b := 0
			for _, id := range v.e.ShardNodes(ix, t.f.Shard) {
				if id != removed {
					b++
				}
			}
			if len(srcs) < b {
				return false
			}
		}
	}
	return true
}

func (v *env) sources(index string, to []string) string {
	cur := v.e.NodeIDs()
	removed := ""
	remove := len(to) < len(cur)
	if remove {
		in := map[string]bool{}
		for _, id := range to {
			in[id] = true
		}
		for _, id := range cur {
			if !in[id] {
				removed = id
				break
			}
		}
	}
	runs := 3
	if remove && v.rep >= 2 {
		runs = maxRuns
	}
	obs := obsPlan{}
	first := ""
	for k := 0; k < runs; k++ {
		m, err := v.e.FragSources(to, index)
		one := obsPlan{}
		res := ""
		if err != nil {
			res = errKind(err)
		} else {
			for node, srcs := range m {
				if one[node] == nil {
					one[node] = map[tag]map[string]bool{}
				}
				for _, s := range srcs {
					t := tag{f: s.Frag}
					if one[node][t] != nil {
						return "duplicate-frag-in-plan"
					}
					one.add(node, t, s.Node)
					if s.Index != index {
						return "wrong-index-in-plan"
					}
				}
			}
			res = one.structure()
		}
		if k == 0 {
			first = res
		} else if res != first {
			return "nondeterministic-structure"
		}
		if err != nil {
			if k >= 2 {
				break
			}
			continue
		}
		for node, mm := range one {
			if obs[node] == nil {
				obs[node] = map[tag]map[string]bool{}
			}
			for t, ss := range mm {
				for s := range ss {
					obs.add(node, t, s)
				}
			}
		}
		if k >= 2 && v.complete(obs, removed, index) {
			vh.Count(fmt.Sprintf("runs<=%d", (k/50+1)*50))
			break
		}
	}
	if strings.HasPrefix(first, "err:") {
		vh.Count("plan-" + first)
		return first
	}
	nsrc := 0
	for _, m := range obs {
		for _, ss := range m {
			nsrc++
			if len(ss) > 1 {
				vh.Count("frag-with-choice")
			}
		}
	}
	if nsrc > 0 {
		vh.Count("plan-with-sources")
	} else {
		vh.Count("plan-empty")
	}
	return obs.render(false)
}

func (v *env) job(action, id string) string {
	act := map[string]string{"add": "ADD", "remove": "REMOVE"}[action]
	removed := ""
	runs := 3
	if action == "remove" {
		removed = id
		if v.rep >= 2 {
			runs = maxRuns
		}
	}
	obs := obsPlan{}
	first, idsText := "", ""
	for k := 0; k < runs; k++ {
		j, err := v.e.Job(act, id)
		one := obsPlan{}
		res := ""
		if err != nil {
			res = errKind(err)
		} else {
			seen := map[string]bool{}
			for _, t := range j.Targets {
				if seen[t] {
					return "duplicate-instruction-target"
				}
				seen[t] = true
			}
			for node, srcs := range j.Instructions {
				one[node] = map[tag]map[string]bool{}
				for _, s := range srcs {
					t := tag{index: s.Index, f: s.Frag}
					if one[node][t] != nil {
						return "duplicate-frag-in-plan"
					}
					one.add(node, t, s.Node)
				}
			}
			var ids []string
			for nid := range j.IDs {
				ids = append(ids, nid)
			}
			sort.Strings(ids)
			for i, nid := range ids {
				ids[i] = nid + ":" + map[bool]string{true: "1", false: "0"}[j.IDs[nid]]
			}
			idsText = csvS(ids)
			res = idsText + " " + one.structure()
		}
		if k == 0 {
			first = res
		} else if res != first {
			return "nondeterministic-structure"
		}
		if err != nil {
			if k >= 2 {
				break
			}
			continue
		}
		for node, mm := range one {
			if obs[node] == nil {
				obs[node] = map[tag]map[string]bool{}
			}
			for t, ss := range mm {
				for s := range ss {
					obs.add(node, t, s)
				}
			}
		}
		if k >= 2 && v.complete(obs, removed, "") {
			break
		}
	}
	if strings.HasPrefix(first, "err:") {
		vh.Count("job-" + first)
		return first
	}
	if len(obs) > 0 {
		vh.Count("job-with-instructions")
	} else {
		vh.Count("job-nothing-to-do")
	}
	return "ids=" + idsText + " instr=" + obs.render(true)
}

func (p *prop) Exec(lines []string) []string {
	outs := make([]string, len(lines))
	dir, err := os.MkdirTemp("", "c21-")
	if err != nil {
		panic(err)
	}
	defer os.RemoveAll(dir)
	e, err := pilosa.VerifC21Open(dir)
	if err != nil {
		panic(err)
	}
	defer e.Close()
	v := &env{e: e, dir: dir, rep: 1}
	have := map[string]bool{}
	isFollower := false
	call := func(name string, args ...interface{}) []reflect.Value {
		var in []reflect.Value
		for _, a := range args {
			in = append(in, reflect.ValueOf(a))
		}
		return reflect.ValueOf(e).MethodByName(name).Call(in)
	}
	for i, l := range lines {
		ws := strings.Fields(l)
		outs[i] = vh.Guard(ws[0], func() string {
			switch {
			case len(ws) == 3 && ws[0] == "cluster":
				ids := parseIDs(ws[1])
				rep, _ := strconv.Atoi(ws[2])
				self, coord := "", ""
				if len(ids) > 0 {
					self, coord = ids[0], ids[0]
				}
				e.SetCluster(ids, rep, self, coord)
				v.rep = rep
				isFollower = false
				return "[" + strings.Join(e.NodeIDs(), " ") + "]"
			case len(ws) == 5 && ws[0] == "idx":
				var fields []string
				views := map[string][]string{}
				if ws[2] != "-" {
					for _, fv := range strings.Split(ws[2], ";") {
						p := strings.SplitN(fv, ":", 2)
						fields = append(fields, p[0])
						if len(p) == 2 && p[1] != "" {
							views[p[0]] = strings.Split(p[1], ",")
						}
					}
				}
				if err := e.AddIndex(ws[1], fields, views, vh.ParseCSV(ws[3]), vh.ParseCSV(ws[4])); err != nil {
					return "err:add-index"
				}
				have[ws[1]] = true
				return vh.U64s(e.AvailableShards(ws[1]))
			case len(ws) == 3 && ws[0] == "fragsdiff":
				d := pilosa.VerifC21FragsDiff(parseFrags(ws[1]), parseFrags(ws[2]))
				var ss []string
				for _, f := range d {
					ss = append(ss, showFrag(f))
				}
				return csvS(ss)
			case len(ws) == 2 && ws[0] == "diff":
				action, id, err := e.Diff(parseIDs(ws[1]))
				if err != nil {
					return errKind(err)
				}
				return map[string]string{"ADD": "add", "REMOVE": "remove"}[action] + ":" + id
			case len(ws) == 2 && ws[0] == "fbh" && have[ws[1]]:
				m := e.FragsByHost(ws[1])
				if len(m) == 0 {
					return "-"
				}
				var ns []string
				for n := range m {
					ns = append(ns, n)
				}
				sort.Strings(ns)
				var parts []string
				for _, n := range ns {
					fs := m[n]
					sort.Slice(fs, func(i, j int) bool { return fragLess(fs[i], fs[j]) })
					var ss []string
					for _, f := range fs {
						ss = append(ss, showFrag(f))
					}
					parts = append(parts, n+"{"+strings.Join(ss, ",")+"}")
				}
				return strings.Join(parts, " ")
			case len(ws) == 3 && ws[0] == "sources" && have[ws[1]]:
				return v.sources(ws[1], parseIDs(ws[2]))
			case len(ws) == 3 && ws[0] == "job" && (ws[1] == "add" || ws[1] == "remove"):
				return v.job(ws[1], ws[2])
			case len(ws) == 4 && ws[0] == "follower":
				if !followerHook() {
					return "skip"
				}
				switch ws[3] {
				case "STARTING", "NORMAL", "DEGRADED", "RESIZING":
				default:
					return "bad-op"
				}
				call("SetFollower", ws[1], ws[2], ws[3])
				isFollower = true
				return "ok"
			case len(ws) == 4 && ws[0] == "status":
				if !followerHook() {
					return "skip"
				}
				if !isFollower {
					return "bad-op"
				}
				before := len(e.Fragments())
				if err, _ := call("MergeClusterStatus", ws[1], parseIDs(ws[2]), ws[3])[0].Interface().(error); err != nil {
					return "err:merge"
				}
				fr := e.Fragments()
				if len(fr) < before {
					vh.Count("status-cleaned-some")
				} else {
					vh.Count("status-cleaned-none")
				}
				var ss []string
				for _, f := range fr {
					ss = append(ss, f.Index+"/"+showFrag(f.Frag))
				}
				frs := "-"
				if len(ss) > 0 {
					frs = strings.Join(ss, " ")
				}
				return call("ClusterState")[0].String() + " [" + strings.Join(e.NodeIDs(), " ") + "] | " + frs
			case len(ws) == 2 && ws[0] == "clean":
				before := len(e.Fragments())
				if err := e.Clean(ws[1]); err != nil {
					return "err:clean"
				}
				fr := e.Fragments()
				if len(fr) < before {
					vh.Count("clean-deleted-some")
				} else {
					vh.Count("clean-deleted-none")
				}
				if len(fr) == 0 {
					return "-"
				}
				var ss []string
				for _, f := range fr {
					ss = append(ss, f.Index+"/"+showFrag(f.Frag))
				}
				return strings.Join(ss, " ")
			}
			return "bad-op"
		})
	}
	return outs
}

func main() {
	for i, a := range os.Args {
		v := ""
		if (a == "--seed" || a == "-seed") && i+1 < len(os.Args) {
			v = os.Args[i+1]
		} else if strings.HasPrefix(a, "--seed=") {
			v = a[len("--seed="):]
		}
		if s, err := strconv.ParseUint(v, 10, 64); err == nil && v != "" {
			workerOf = int(s % 1000)
		}
	}
	vh.Main(&prop{})
}
