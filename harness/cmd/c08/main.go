// Harness for C08: data and schema survive a clean restart.
//
// Line formats are documented in lean/PV/C08/Main.lean. Every case runs a real single-node server
// on a scratch data directory: a generated schema (all field types, int bounds excluding zero, time
// quanta, keys, cache settings, existence tracking), data histories, then `reopen`:
//   - the harness runs a query battery (schema with views, options of every field, available shards,
//     and for every field the reads that fit its type: Row / Count / Rows / TopN / time ranges /
//     range queries / Sum / Min / Max / Field.Value / key translation / row and column attributes),
//   - closes the server, starts a new one on the same directory, runs the battery again,
//   - answers `same` when both batteries agree and `diff:<first differing entry>` otherwise
//     (the direct check of the property on the implementation);
// `opts` / `iopts` / `schema` / `val` lines before and after are compared with the model.
package main

import (
	"context"
	"encoding/json"
	"fmt"
	"os"
	"sort"
	"strconv"
	"strings"

	"github.com/pilosa/pilosa"
	"verifharness/vh"
	"verifharness/vh/srv"
)

const sw = pilosa.ShardWidth

type prop struct{}

func (p *prop) Rule() string {
	return "each case: 1-2 indexes (keys / existence tracking drawn), 2-6 fields drawn over all types (set/mutex with every cache type and size 0/small, " +
		"int with bounds around / excluding zero, time with every quantum and noStandardView, bool, keyed variants), then a history of writes " +
		"(bits with and without timestamps, clears, bulk imports, int values incl. 0 as first value and bit-depth growth, value imports with clear, row/column attributes) " +
		"interleaved with opts/val reads and 1-2 reopen ops; non-trivial when it creates an int field or writes >= 3 data ops before a reopen"
}

// ---------- generation ----------

type gField struct {
	name, typ string
	keys      bool
	min, max  int64
	quantum   string
}

type gIndex struct {
	name   string
	keys   bool
	fields []*gField
}

var quanta = []string{"Y", "YM", "YMD", "YMDH", "M", "MD", "MDH", "D", "DH", "H"}

func b01(b bool) string {
	if b {
		return "1"
	}
	return "0"
}

func (p *prop) Gen(r *vh.Rng, tier string, n int) []vh.Case {
	var cases []vh.Case
	for k := 0; k < n; k++ {
		cr := r.Fork()
		if cr.Chance(1, 3) {
			cases = append(cases, genCacheCase(cr))
		} else {
			cases = append(cases, genCase(cr))
		}
	}
	return cases
}

// genCacheCase: a cached set field whose fragments are snapshotted right before the restart
// (operation count 0 at close) — through one import of more than MaxOpN bits, or through the
// MaxOpN hook followed by ordinary writes — and TopN (all rows, and explicit ids) before and after.
func genCacheCase(r *vh.Rng) vh.Case {
	var ls []string
	ls = append(ls, fmt.Sprintf("cidx i0 0 %s", b01(r.Bool())))
	nf := r.Pick(1, 1, 2)
	rows := []int{0, 1, 2, 99, 100, 150}
	cols := []uint64{0, 1, 2, 3, sw, sw + 1, 2*sw + 5}
	for j := 0; j < nf; j++ {
		typ := r.PickS("set", "set", "default")
		ct, cs := "-", 0
		if typ == "set" {
			ct = r.PickS("ranked", "ranked", "lru", "-")
			cs = r.Pick(0, 0, 100)
		}
		ls = append(ls, fmt.Sprintf("cfld i0 f%d %s %s %d 0 0 - 0 0", j, typ, ct, cs))
	}
	fld := func() string { return fmt.Sprintf("f%d", r.Intn(nf)) }
	small := func(f string, onlyCols []uint64) {
		c := onlyCols[r.Intn(len(onlyCols))]
		row := rows[r.Intn(len(rows))]
		switch r.Intn(6) {
		case 0:
			ls = append(ls, fmt.Sprintf("data clear i0 %s %d %d", f, row, c))
		case 1:
			ls = append(ls, fmt.Sprintf("data imp i0 %s %d:%d,%d:%d", f, row, c, rows[r.Intn(len(rows))], onlyCols[r.Intn(len(onlyCols))]))
		default:
			ls = append(ls, fmt.Sprintf("data bit i0 %s %d %d", f, row, c))
		}
	}
	for k := r.Range(2, 8); k > 0; k-- {
		small(fld(), cols)
	}
	mode := r.Intn(4)
	for j := 0; j < nf; j++ {
		f := fmt.Sprintf("f%d", j)
		switch mode {
		case 0: // one import of more than MaxOpN bits is the last write of its shard
			ls = append(ls, fmt.Sprintf("data bigimp i0 %s %d %d %d", f, r.Pick(1, 7, 150), r.Intn(3), 10001+r.Intn(40)))
			vh.Count("cache-case-bigimport")
		case 1, 2: // MaxOpN hook, then ordinary writes to the existing fragments
			ls = append(ls, fmt.Sprintf("maxopn i0 %s %d", f, r.Pick(0, 0, 1)))
			for k := r.Range(1, 3); k > 0; k-- {
				small(f, cols)
			}
			vh.Count("cache-case-maxopn")
		default:
			vh.Count("cache-case-plain")
		}
	}
	reads := func() {
		for j := 0; j < nf; j++ {
			// distinct ids (TopN counts a row once per occurrence in ids=[...]; not this property's concern)
			pm := r.Perm(len(rows))
			ls = append(ls, fmt.Sprintf("topn i0 f%d", j), fmt.Sprintf("topnids i0 f%d %d,%d,%d", j, rows[pm[0]], rows[pm[1]], r.Pick(7, 44)))
		}
	}
	reads()
	ls = append(ls, "reopen")
	reads()
	if r.Chance(1, 2) {
		// a second restart without (or with few) writes: the cache file of the first one is reused
		for k := r.Range(0, 2); k > 0; k-- {
			small(fld(), cols)
		}
		ls = append(ls, "reopen")
		reads()
	}
	return vh.Case{Lines: ls, Nontrivial: true}
}

func genCase(r *vh.Rng) vh.Case {
	var ls []string
	var idxs []*gIndex
	nontrivial := false
	nidx := r.Pick(1, 1, 2)
	for i := 0; i < nidx; i++ {
		ix := &gIndex{name: fmt.Sprintf("i%d", i), keys: r.Chance(1, 4)}
		ls = append(ls, fmt.Sprintf("cidx %s %s %s", ix.name, b01(ix.keys), b01(r.Bool())))
		nf := r.Range(2, 5)
		for j := 0; j < nf; j++ {
			f := &gField{name: fmt.Sprintf("f%d", j)}
			f.typ = r.PickS("set", "set", "int", "int", "int", "time", "mutex", "bool", "default")
			ct, cs, mn, mx, tq, nostd := "-", 0, int64(0), int64(0), "-", false
			// (PQL cannot write values to an int field with keys: no keyed int fields)
			f.keys = r.Chance(1, 4) && f.typ != "bool" && f.typ != "int"
			switch f.typ {
			case "set", "mutex":
				ct = r.PickS("ranked", "lru", "none", "none", "-")
				cs = r.Pick(0, 0, 3, 100)
				if r.Chance(1, 30) {
					ct = "bogus"
				}
			case "int":
				switch r.Intn(6) {
				case 0:
					mn, mx = -10, 1000
				case 1:
					mn, mx = int64(r.Range(1, 20)), int64(r.Range(20, 200)) // excludes zero, positive
				case 2:
					mn, mx = int64(-r.Range(20, 200)), int64(-r.Range(1, 20)) // excludes zero, negative
				case 3:
					mn, mx = 0, int64(r.Range(0, 300))
				case 4:
					mn, mx = int64(-r.Range(0, 300)), int64(r.Range(0, 300))
				case 5:
					mn, mx = -(1 << 40), 1<<40
				}
				if r.Chance(1, 30) {
					mn, mx = 5, 4 // rejected
				}
				f.min, f.max = mn, mx
				nontrivial = true
			case "time":
				tq = r.PickS(quanta...)
				if r.Chance(1, 30) {
					tq = "X"
				}
				nostd = r.Chance(1, 3)
				f.quantum = tq
			}
			ls = append(ls, fmt.Sprintf("cfld %s %s %s %s %d %d %d %s %s %s", ix.name, f.name, f.typ, ct, cs, mn, mx, tq, b01(f.keys), b01(nostd)))
			if ct == "bogus" || tq == "X" || (f.typ == "int" && mn > mx) {
				continue
			}
			ix.fields = append(ix.fields, f)
			if r.Chance(1, 2) {
				ls = append(ls, fmt.Sprintf("opts %s %s", ix.name, f.name))
			}
		}
		if r.Chance(1, 5) {
			ls = append(ls, fmt.Sprintf("cfld %s f0 set - 0 0 0 - 0 0", ix.name)) // duplicate
		}
		idxs = append(idxs, ix)
	}
	cols := []uint64{0, 1, 2, 3, sw, sw + 1, 2*sw + 5}
	ts := []string{"2001-02-03T04:05", "2001-02-03T16:05", "2002-11-30T23:00", "2003-01-01T00:00"}
	colArg := func(ix *gIndex, c uint64) string {
		if ix.keys {
			return fmt.Sprintf("ck%d", c%5)
		}
		return strconv.FormatUint(c, 10)
	}
	rowArg := func(f *gField, row int) string {
		if f.keys {
			return fmt.Sprintf("rk%d", row)
		}
		return strconv.Itoa(row)
	}
	writes := 0
	history := func(m int) {
		for k := 0; k < m; k++ {
			ix := idxs[r.Intn(len(idxs))]
			if len(ix.fields) == 0 {
				continue
			}
			f := ix.fields[r.Intn(len(ix.fields))]
			c := cols[r.Intn(len(cols))]
			switch f.typ {
			case "int":
				if ix.keys {
					// value writes on keyed indexes go through PQL with a string column
					v := f.min + int64(r.U64()%uint64(f.max-f.min+1))
					ls = append(ls, fmt.Sprintf("kval %s %s %s %d", ix.name, f.name, colArg(ix, c), v))
					writes++
					continue
				}
				var v int64
				switch r.Intn(6) {
				case 0:
					v = 0
				case 1:
					v = f.min
				case 2:
					v = f.max
				case 3:
					v = f.max + 1
				default:
					v = f.min + int64(r.U64()%uint64(f.max-f.min+1))
				}
				if r.Chance(1, 4) {
					clear := b01(r.Chance(1, 3))
					if v < f.min || v > f.max {
						v = f.min
					}
					ls = append(ls, fmt.Sprintf("impval %s %s %s %d:%d,%d:%d", ix.name, f.name, clear, c, v, cols[r.Intn(len(cols))], f.min))
				} else {
					ls = append(ls, fmt.Sprintf("setval %s %s %d %d", ix.name, f.name, c, v))
				}
				if r.Chance(1, 3) {
					ls = append(ls, fmt.Sprintf("val %s %s %d", ix.name, f.name, c), fmt.Sprintf("opts %s %s", ix.name, f.name))
				}
				writes++
			case "time":
				ls = append(ls, fmt.Sprintf("data tbit %s %s %s %s %s", ix.name, f.name, rowArg(f, r.Range(0, 2)), colArg(ix, c), r.PickS(ts...)))
				writes++
			case "bool":
				ls = append(ls, fmt.Sprintf("data bit %s %s %s %s", ix.name, f.name, r.PickS("true", "false"), colArg(ix, c)))
				writes++
			default:
				row := r.Pick(0, 1, 2, 99, 100, 150)
				switch r.Intn(6) {
				case 0:
					ls = append(ls, fmt.Sprintf("data clear %s %s %s %s", ix.name, f.name, rowArg(f, row), colArg(ix, c)))
				case 1:
					if !ix.keys && !f.keys {
						ls = append(ls, fmt.Sprintf("data imp %s %s %d:%d,%d:%d,%d:%d", ix.name, f.name, row, c, r.Pick(0, 1, 2), cols[r.Intn(len(cols))], row, cols[r.Intn(len(cols))]))
					}
				case 2:
					if !f.keys {
						ls = append(ls, fmt.Sprintf("data rattr %s %s %d a %d", ix.name, f.name, row, r.Range(1, 9)))
					}
				case 3:
					if !ix.keys {
						ls = append(ls, fmt.Sprintf("data cattr %s %d b %d", ix.name, c, r.Range(1, 9)))
					}
				default:
					ls = append(ls, fmt.Sprintf("data bit %s %s %s %s", ix.name, f.name, rowArg(f, row), colArg(ix, c)))
				}
				writes++
			}
		}
	}
	// first value 0 on every int field now and then (the property's own example)
	for _, ix := range idxs {
		for _, f := range ix.fields {
			if f.typ == "int" && !ix.keys && f.min <= 0 && f.max >= 0 && r.Chance(1, 2) {
				ls = append(ls, fmt.Sprintf("setval %s %s 1 0", ix.name, f.name))
			}
		}
	}
	history(r.Range(0, 10))
	ls = append(ls, "schema", "reopen", "schema")
	for _, ix := range idxs {
		ls = append(ls, "iopts "+ix.name)
		for _, f := range ix.fields {
			ls = append(ls, fmt.Sprintf("opts %s %s", ix.name, f.name))
			if f.typ == "int" && !ix.keys {
				ls = append(ls, fmt.Sprintf("val %s %s 1", ix.name, f.name), fmt.Sprintf("val %s %s %d", ix.name, f.name, cols[r.Intn(len(cols))]))
			}
		}
	}
	if r.Chance(1, 2) {
		if r.Chance(1, 3) && len(idxs[0].fields) > 0 {
			ls = append(ls, fmt.Sprintf("dfld %s %s", idxs[0].name, idxs[0].fields[0].name))
			idxs[0].fields = idxs[0].fields[1:]
		}
		history(r.Range(1, 8))
		ls = append(ls, "reopen", "schema")
		for _, ix := range idxs {
			for _, f := range ix.fields {
				ls = append(ls, fmt.Sprintf("opts %s %s", ix.name, f.name))
			}
		}
	}
	if writes >= 3 {
		nontrivial = true
	}
	return vh.Case{Lines: ls, Nontrivial: nontrivial}
}

// ---------- execution ----------

type xField struct {
	typ     string
	keys    bool
	nostd   bool
	cs      int // explicit cache size (0 = default)
	rows    map[string]bool // row arguments used (as PQL literals)
	intCols map[uint64]bool
}

type xIndex struct {
	keys   bool
	fields map[string]*xField
	cols   map[string]bool // column arguments used (as PQL literals)
}

type state struct {
	s    *srv.Server
	dir  string
	idxs map[string]*xIndex
}

func (p *prop) Exec(lines []string) []string {
	outs := make([]string, len(lines))
	dir, err := os.MkdirTemp("", "verif-c08-")
	if err != nil {
		for i := range outs {
			outs[i] = "err:tempdir"
		}
		return outs
	}
	st := &state{dir: dir, idxs: map[string]*xIndex{}}
	st.s = srv.StartAt(dir, 2)
	defer func() {
		if st.s != nil {
			st.s.Command.Close()
		}
		os.RemoveAll(dir)
	}()
	for i, l := range lines {
		l := l
		outs[i] = vh.Guard("exec", func() string { return st.exec(l) })
	}
	return outs
}

func errClass(err error) string {
	s := err.Error()
	switch {
	case strings.Contains(s, "too low"):
		return "err:too-low"
	case strings.Contains(s, "too high"):
		return "err:too-high"
	case strings.Contains(s, "already exists"):
		return "err:exists"
	case strings.Contains(s, "invalid cache type"):
		return "err:bad-cache"
	case strings.Contains(s, "invalid time quantum"):
		return "err:bad-quantum"
	case strings.Contains(s, "applying option"):
		return "err:bad-option"
	case strings.Contains(s, "index not found"):
		return "err:no-index"
	case strings.Contains(s, "not found"):
		return "err:not-found"
	}
	return "err:other:" + strings.ReplaceAll(strings.ReplaceAll(s, " ", "_"), "\n", "_")
}

func lit(s string) string {
	if _, err := strconv.ParseUint(s, 10, 64); err == nil {
		return s
	}
	if s == "true" || s == "false" {
		return s
	}
	return strconv.Quote(s)
}

func showOpts(o pilosa.FieldOptions) string {
	return fmt.Sprintf("type=%s cache=%s/%d min=%d max=%d base=%d depth=%d tq=%s keys=%v nostd=%v",
		o.Type, o.CacheType, o.CacheSize, o.Min, o.Max, o.Base, o.BitDepth, o.TimeQuantum, o.Keys, o.NoStandardView)
}

func (st *state) query(index, q string) (*pilosa.QueryResponse, error) {
	resp, err := st.s.API.Query(context.Background(), &pilosa.QueryRequest{Index: index, Query: q})
	if err != nil {
		return nil, err
	}
	if resp.Err != nil {
		return nil, resp.Err
	}
	return &resp, nil
}

func (st *state) exec(l string) string {
	ws := strings.Fields(l)
	if len(ws) == 0 {
		return "bad-op"
	}
	ctx := context.Background()
	api := st.s.API
	atoi := func(s string) int64 { v, _ := strconv.ParseInt(s, 10, 64); return v }
	atou := func(s string) uint64 { v, _ := strconv.ParseUint(s, 10, 64); return v }
	switch {
	case ws[0] == "cidx" && len(ws) == 4:
		if _, err := api.CreateIndex(ctx, ws[1], pilosa.IndexOptions{Keys: ws[2] == "1", TrackExistence: ws[3] == "1"}); err != nil {
			return errClass(err)
		}
		st.idxs[ws[1]] = &xIndex{keys: ws[2] == "1", fields: map[string]*xField{}, cols: map[string]bool{}}
		return "ok"
	case ws[0] == "cfld" && len(ws) == 11:
		var opts []pilosa.FieldOption
		ct := ws[4]
		if ct == "-" {
			ct = ""
		}
		tq := ws[8]
		if tq == "-" {
			tq = ""
		}
		switch ws[3] {
		case "default":
		case "set":
			opts = append(opts, pilosa.OptFieldTypeSet(ct, uint32(atou(ws[5]))))
		case "mutex":
			opts = append(opts, pilosa.OptFieldTypeMutex(ct, uint32(atou(ws[5]))))
		case "int":
			opts = append(opts, pilosa.OptFieldTypeInt(atoi(ws[6]), atoi(ws[7])))
		case "time":
			opts = append(opts, pilosa.OptFieldTypeTime(pilosa.TimeQuantum(tq), ws[10] == "1"))
		case "bool":
			opts = append(opts, pilosa.OptFieldTypeBool())
		default:
			return "err:bad-option"
		}
		if ws[9] == "1" {
			opts = append(opts, pilosa.OptFieldKeys())
		}
		if _, err := api.CreateField(ctx, ws[1], ws[2], opts...); err != nil {
			return errClass(err)
		}
		if ix := st.idxs[ws[1]]; ix != nil {
			ix.fields[ws[2]] = &xField{typ: ws[3], keys: ws[9] == "1" && ws[3] != "bool", nostd: ws[10] == "1", cs: int(atou(ws[5])), rows: map[string]bool{}, intCols: map[uint64]bool{}}
		}
		return "ok"
	case ws[0] == "dfld" && len(ws) == 3:
		if err := api.DeleteField(ctx, ws[1], ws[2]); err != nil {
			return errClass(err)
		}
		if ix := st.idxs[ws[1]]; ix != nil {
			delete(ix.fields, ws[2])
		}
		return "ok"
	case ws[0] == "didx" && len(ws) == 2:
		if err := api.DeleteIndex(ctx, ws[1]); err != nil {
			return errClass(err)
		}
		delete(st.idxs, ws[1])
		return "ok"
	case ws[0] == "opts" && len(ws) == 3:
		f, err := api.Field(ctx, ws[1], ws[2])
		if err != nil || f == nil {
			return "err:not-found"
		}
		return showOpts(f.Options())
	case ws[0] == "iopts" && len(ws) == 2:
		ix, err := api.Index(ctx, ws[1])
		if err != nil || ix == nil {
			return "err:not-found"
		}
		o := ix.Options()
		return fmt.Sprintf("keys=%v exist=%v", o.Keys, o.TrackExistence)
	case ws[0] == "schema":
		var parts []string
		for _, ii := range st.s.Server.Holder().Schema() {
			var fs []string
			for _, fi := range ii.Fields {
				fs = append(fs, fi.Name)
			}
			parts = append(parts, ii.Name+":"+strings.Join(fs, ","))
		}
		return strings.Join(parts, ";")
	case ws[0] == "setval" && len(ws) == 5:
		resp, err := st.query(ws[1], fmt.Sprintf("Set(%s, %s=%s)", ws[3], ws[2], ws[4]))
		if err != nil {
			return errClass(err)
		}
		st.noteInt(ws[1], ws[2], atou(ws[3]))
		return strconv.FormatBool(resp.Results[0].(bool))
	case ws[0] == "kval" && len(ws) == 5:
		if _, err := st.query(ws[1], fmt.Sprintf("Set(%s, %s=%s)", lit(ws[3]), ws[2], ws[4])); err != nil {
			return errClass(err)
		}
		if ix := st.idxs[ws[1]]; ix != nil {
			ix.cols[lit(ws[3])] = true
		}
		return "ok"
	case ws[0] == "impval" && len(ws) == 5:
		var cs []uint64
		var vs []int64
		for _, it := range strings.Split(ws[4], ",") {
			cv := strings.Split(it, ":")
			cs = append(cs, atou(cv[0]))
			vs = append(vs, atoi(cv[1]))
			st.noteInt(ws[1], ws[2], atou(cv[0]))
		}
		var opts []pilosa.ImportOption
		if ws[3] == "1" {
			opts = append(opts, pilosa.OptImportOptionsClear(true))
		}
		if err := api.ImportValue(ctx, &pilosa.ImportValueRequest{Index: ws[1], Field: ws[2], ColumnIDs: cs, Values: vs}, opts...); err != nil {
			return errClass(err)
		}
		return "ok"
	case ws[0] == "val" && len(ws) == 4:
		f, err := api.Field(ctx, ws[1], ws[2])
		if err != nil || f == nil {
			return "err:not-found"
		}
		v, ok, err := f.Value(atou(ws[3]))
		if err != nil {
			return errClass(err)
		}
		if !ok {
			return "null"
		}
		return strconv.FormatInt(v, 10)
	case ws[0] == "data" && len(ws) >= 3:
		return st.data(ws[1:])
	case ws[0] == "maxopn" && len(ws) == 4:
		if f, err := api.Field(ctx, ws[1], ws[2]); err != nil || f == nil {
			return "err:not-found"
		}
		pilosa.VerifC08SetMaxOpN(st.s.Server.Holder(), ws[1], ws[2], int(atoi(ws[3])))
		return "ok"
	case (ws[0] == "topn" && len(ws) == 3) || (ws[0] == "topnids" && len(ws) == 4):
		if f, err := api.Field(ctx, ws[1], ws[2]); err != nil || f == nil {
			return "err:not-found"
		}
		_ = api.RecalculateCaches(ctx)
		q := fmt.Sprintf("TopN(%s)", ws[2])
		if ws[0] == "topnids" {
			q = fmt.Sprintf("TopN(%s, ids=[%s])", ws[2], ws[3])
		}
		resp, err := st.query(ws[1], q)
		if err != nil {
			return errClass(err)
		}
		ps, ok := resp.Results[0].([]pilosa.Pair)
		if !ok {
			return "err:not-pairs"
		}
		ps = append([]pilosa.Pair(nil), ps...)
		sort.Slice(ps, func(i, j int) bool {
			if ps[i].Count != ps[j].Count {
				return ps[i].Count > ps[j].Count
			}
			return ps[i].ID < ps[j].ID
		})
		if len(ps) == 0 {
			return "-"
		}
		var parts []string
		for _, p := range ps {
			parts = append(parts, fmt.Sprintf("%d:%d", p.ID, p.Count))
		}
		if zs := pilosa.VerifC08OpN(st.s.Server.Holder(), ws[1], ws[2]); len(zs) > 0 {
			allZero := true
			for _, z := range zs {
				if z != 0 {
					allZero = false
				}
			}
			if allZero {
				vh.Count("topn-with-opN-zero-everywhere")
			}
		}
		return strings.Join(parts, " ")
	case ws[0] == "reopen":
		return st.reopen()
	}
	return "bad-op"
}

func (st *state) noteInt(index, field string, col uint64) {
	if ix := st.idxs[index]; ix != nil {
		if f := ix.fields[field]; f != nil {
			f.intCols[col] = true
		}
	}
}

// data executes a write the model does not interpret; failures are reported (they would be
// spec failures of other properties, not of this one, but must not go unnoticed).
func (st *state) data(ws []string) string {
	ctx := context.Background()
	atou := func(s string) uint64 { v, _ := strconv.ParseUint(s, 10, 64); return v }
	note := func(index, field, row, col string) {
		if ix := st.idxs[index]; ix != nil {
			if col != "" {
				ix.cols[col] = true
			}
			if f := ix.fields[field]; f != nil && row != "" {
				f.rows[row] = true
			}
		}
	}
	var q, index string
	switch {
	case ws[0] == "bit" && len(ws) == 5:
		index = ws[1]
		q = fmt.Sprintf("Set(%s, %s=%s)", lit(ws[4]), ws[2], lit(ws[3]))
		note(ws[1], ws[2], lit(ws[3]), lit(ws[4]))
	case ws[0] == "tbit" && len(ws) == 6:
		index = ws[1]
		q = fmt.Sprintf("Set(%s, %s=%s, %s)", lit(ws[4]), ws[2], lit(ws[3]), ws[5])
		note(ws[1], ws[2], lit(ws[3]), lit(ws[4]))
	case ws[0] == "clear" && len(ws) == 5:
		index = ws[1]
		q = fmt.Sprintf("Clear(%s, %s=%s)", lit(ws[4]), ws[2], lit(ws[3]))
		note(ws[1], ws[2], lit(ws[3]), lit(ws[4]))
	case ws[0] == "rattr" && len(ws) == 6:
		index = ws[1]
		q = fmt.Sprintf("SetRowAttrs(%s, %s, %s=%s)", ws[2], ws[3], ws[4], ws[5])
		note(ws[1], ws[2], ws[3], "")
	case ws[0] == "cattr" && len(ws) == 5:
		index = ws[1]
		q = fmt.Sprintf("SetColumnAttrs(%s, %s=%s)", ws[2], ws[3], ws[4])
		note(ws[1], "", "", ws[2])
	case ws[0] == "bigimp" && len(ws) == 6:
		row, shard, n := atou(ws[3]), atou(ws[4]), int(atou(ws[5]))
		rs := make([]uint64, n)
		cs := make([]uint64, n)
		for k := 0; k < n; k++ {
			rs[k] = row
			cs[k] = shard*sw + 1000 + uint64(k)
		}
		note(ws[1], ws[2], ws[3], "")
		if err := st.s.API.Import(ctx, &pilosa.ImportRequest{Index: ws[1], Field: ws[2], Shard: shard, RowIDs: rs, ColumnIDs: cs}); err != nil {
			return errClass(err)
		}
		vh.Count("big-imports")
		return "ok"
	case ws[0] == "imp" && len(ws) == 4:
		var rs, cs []uint64
		for _, it := range strings.Split(ws[3], ",") {
			rc := strings.Split(it, ":")
			rs = append(rs, atou(rc[0]))
			cs = append(cs, atou(rc[1]))
			note(ws[1], ws[2], rc[0], rc[1])
		}
		// API.Import takes one shard per request
		byShard := map[uint64][2][]uint64{}
		for i := range rs {
			e := byShard[cs[i]/sw]
			e[0] = append(e[0], rs[i])
			e[1] = append(e[1], cs[i])
			byShard[cs[i]/sw] = e
		}
		for sh, e := range byShard {
			if err := st.s.API.Import(ctx, &pilosa.ImportRequest{Index: ws[1], Field: ws[2], Shard: sh, RowIDs: e[0], ColumnIDs: e[1]}); err != nil {
				return errClass(err)
			}
		}
		return "ok"
	default:
		return "bad-op"
	}
	if _, err := st.query(index, q); err != nil {
		return errClass(err)
	}
	return "ok"
}

func sortedKeys(m map[string]bool) []string {
	var ks []string
	for k := range m {
		ks = append(ks, k)
	}
	sort.Strings(ks)
	return ks
}

func canon(v interface{}) string {
	if ps, ok := v.([]pilosa.Pair); ok {
		ps = append([]pilosa.Pair(nil), ps...)
		sort.Slice(ps, func(i, j int) bool {
			if ps[i].Count != ps[j].Count {
				return ps[i].Count > ps[j].Count
			}
			if ps[i].ID != ps[j].ID {
				return ps[i].ID < ps[j].ID
			}
			return ps[i].Key < ps[j].Key
		})
		v = ps
	}
	b, err := json.Marshal(v)
	if err != nil {
		return "err:json:" + err.Error()
	}
	return string(b)
}

// battery returns "<what> => <answer>" entries in a fixed order.
func (st *state) battery() []string {
	ctx := context.Background()
	var out []string
	add := func(what, ans string) { out = append(out, what+" => "+ans) }
	_ = st.s.API.RecalculateCaches(ctx)
	h := st.s.Server.Holder()
	for _, ii := range h.Schema() {
		for _, fi := range ii.Fields {
			var vs []string
			for _, v := range fi.Views {
				vs = append(vs, v.Name)
			}
			add("schema "+ii.Name+"/"+fi.Name, showOpts(fi.Options)+" views="+strings.Join(vs, ","))
			if f := h.Field(ii.Name, fi.Name); f != nil {
				add("shards "+ii.Name+"/"+fi.Name, vh.U64s(f.AvailableShards().Slice()))
			}
		}
		if ix := h.Index(ii.Name); ix != nil {
			o := ix.Options()
			add("index "+ii.Name, fmt.Sprintf("keys=%v exist=%v", o.Keys, o.TrackExistence))
		}
	}
	one := func(index, pql string) {
		resp, err := st.query(index, pql)
		if err != nil {
			add(index+" "+pql, errClass(err))
			return
		}
		var parts []string
		for _, r := range resp.Results {
			parts = append(parts, canon(r))
		}
		if len(resp.ColumnAttrSets) > 0 {
			parts = append(parts, "attrs:"+canon(resp.ColumnAttrSets))
		}
		add(index+" "+pql, strings.Join(parts, " | "))
	}
	// single-call queries of one index are sent as one PQL string (one parse); a failing call
	// makes the harness fall back to one query per call
	var pending []string
	pendingIndex := ""
	flush := func() {
		if len(pending) == 0 {
			return
		}
		resp, err := st.query(pendingIndex, strings.Join(pending, "\n"))
		if err == nil && len(resp.Results) == len(pending) && len(resp.ColumnAttrSets) == 0 {
			for i, pql := range pending {
				add(pendingIndex+" "+pql, canon(resp.Results[i]))
			}
		} else {
			for _, pql := range pending {
				one(pendingIndex, pql)
			}
		}
		pending = nil
	}
	q := func(index, pql string) {
		if strings.HasPrefix(pql, "Options(") || strings.Contains(pql, ") ") {
			flush()
			one(index, pql)
			return
		}
		if index != pendingIndex {
			flush()
			pendingIndex = index
		}
		pending = append(pending, pql)
	}
	var inames []string
	for n := range st.idxs {
		inames = append(inames, n)
	}
	sort.Strings(inames)
	for _, in := range inames {
		ix := st.idxs[in]
		var fnames []string
		for n := range ix.fields {
			fnames = append(fnames, n)
		}
		sort.Strings(fnames)
		for _, fn := range fnames {
			f := ix.fields[fn]
			switch f.typ {
			case "int":
				q(in, fmt.Sprintf("Row(%s != null)", fn))
				q(in, fmt.Sprintf("Sum(field=%s) Min(field=%s) Max(field=%s)", fn, fn, fn))
				for _, k := range []int64{-50, -1, 0, 1, 7, 100} {
					q(in, fmt.Sprintf("Row(%s > %d)", fn, k))
					q(in, fmt.Sprintf("Row(%s <= %d)", fn, k))
				}
				flush()
				if fld := st.s.Server.Holder().Field(in, fn); fld != nil {
					var cs []uint64
					for c := range f.intCols {
						cs = append(cs, c)
					}
					for _, c := range vh.SortedU64(cs) {
						v, ok, err := fld.Value(c)
						add(fmt.Sprintf("%s Value(%s,%d)", in, fn, c), fmt.Sprintf("%d %v %v", v, ok, err))
					}
				}
			default:
				q(in, fmt.Sprintf("Rows(field=%s)", fn))
				// TopN without a limit and only while every written row fits the cache: which rows a
				// full cache keeps (and which of several equal counts a limit cuts) is not determined
				// by the data, so it cannot be compared across a restart
				if (f.typ == "set" || f.typ == "mutex" || f.typ == "default") && (f.cs == 0 || len(f.rows) <= f.cs) {
					q(in, fmt.Sprintf("TopN(%s)", fn))
				}
				for _, row := range sortedKeys(f.rows) {
					if f.typ == "time" {
						q(in, fmt.Sprintf("Row(%s=%s, from='2001-01-01T00:00', to='2002-01-01T00:00')", fn, row))
						q(in, fmt.Sprintf("Row(%s=%s, from='2001-02-03T00:00', to='2003-06-01T00:00')", fn, row))
						if f.nostd {
							continue
						}
					}
					q(in, fmt.Sprintf("Row(%s=%s)", fn, row))
					q(in, fmt.Sprintf("Count(Row(%s=%s))", fn, row))
					q(in, fmt.Sprintf("Options(Row(%s=%s), columnAttrs=true)", fn, row))
				}
			}
		}
		q(in, "Count(All())")
		flush()
	}
	return out
}

func (st *state) reopen() string {
	before := st.battery()
	if err := st.s.Command.Close(); err != nil {
		return "err:close:" + strings.ReplaceAll(err.Error(), " ", "_")
	}
	st.s = nil
	st.s = srv.StartAt(st.dir, 2)
	after := st.battery()
	vh.Count("reopens")
	for i := range before {
		if i >= len(after) {
			return "diff:missing:" + strings.ReplaceAll(before[i], " ", "_")
		}
		if before[i] != after[i] {
			vh.Count("battery-diffs")
			return "diff:" + strings.ReplaceAll(before[i]+" THEN "+after[i], " ", "_")
		}
	}
	if len(after) != len(before) {
		return "diff:extra:" + strings.ReplaceAll(after[len(before)], " ", "_")
	}
	for range before {
		vh.Count("battery-entries")
	}
	return "same"
}

func main() {
	vh.Main(&prop{})
}
