// Harness for C09: a process kill right after any file-system operation.
//
// Line formats are documented in lean/PV/C09/Main.lean. One case = one write history followed by
// `crash <k>` lines.
//
//   - The history is executed on real fragments (verif hooks, shard 0, kinds std / mutex / int) and a
//     real TranslateFile in a scratch directory by a CHILD process (this binary with --child) running
//     under `strace -f -y -xx`, which records every openat/write/rename/ftruncate/unlink of the child
//     with the bytes written. The child writes a marker before and after every call (the "after"
//     marker is the acknowledgement), so every call owns a range of the recorded operations. The
//     answer to a call line is that range in canonical form: trace validation against the model.
//   - `crash <k>`: the directory is rebuilt from the first k recorded operations (create/truncate,
//     append, rename, unlink replayed on byte strings), every fragment and the translate file are
//     opened with the real open path, and what they hold is printed: fault enumeration on the real
//     code. The model answers with `recover (crashAt k)`, the spec with the states the property
//     allows at k.
//
// Snapshots requested by the write paths go to a queue whose worker the child releases only after
// the acknowledgement marker (`bg` lines), so the order of operations is deterministic; the one
// path that waits for its snapshot (importValue, large) gets the worker released in advance.
package main

import (
	"bufio"
	"bytes"
	"fmt"
	"os"
	"os/exec"
	"path/filepath"
	"regexp"
	"sort"
	"strconv"
	"strings"
	"time"

	"github.com/pilosa/pilosa"
	"github.com/pilosa/pilosa/roaring"
	"verifharness/vh"
)

const sw = 1 << 20

type prop struct{}

func (p *prop) Rule() string {
	return "histories of 4-10 API calls (set, clear, setValue, import, importValue small and large, importRoaring, " +
		"Store/ClearRow, explicit snapshot, key translation) on 1-2 fragments of kind std/mutex/int with a small MaxOpN so that " +
		"queued snapshots interleave, rows 0-3, columns 0-5; then EVERY prefix of the recorded file-system operations is a crash " +
		"point; a case is non-trivial when it has at least 6 crash points and at least one multi-operation call or snapshot"
}

// ---------------------------------------------------------------- generation

func csvInts(xs []int) string {
	if len(xs) == 0 {
		return "-"
	}
	s := make([]string, len(xs))
	for i, x := range xs {
		s[i] = strconv.Itoa(x)
	}
	return strings.Join(s, ",")
}

func roaringSize(vals []int) int {
	var u []uint64
	for _, v := range vals {
		u = append(u, uint64(v))
	}
	var buf bytes.Buffer
	_, _ = roaring.NewBitmap(u...).WriteTo(&buf)
	return buf.Len()
}

func (p *prop) Gen(r *vh.Rng, tier string, n int) []vh.Case {
	var cases []vh.Case
	for k := 0; k < n; k++ {
		cr := r.Fork()
		var lines []string
		bound := 0
		multi := false
		nf := cr.Pick(1, 1, 2)
		kinds := make([]string, nf)
		depth := 3
		for i := 0; i < nf; i++ {
			kinds[i] = cr.PickS("std", "std", "mutex", "int")
			maxOpN := cr.Pick(2, 3, 5, 100, 100)
			kd := kinds[i]
			if kd == "int" {
				kd = fmt.Sprintf("int:%d", depth)
				maxOpN = cr.Pick(4, 9, 100, 100)
			}
			lines = append(lines, fmt.Sprintf("fopen %s %d", kd, maxOpN))
			bound += 2
		}
		keysOpen := false
		steps := cr.Range(4, 10)
		for s := 0; s < steps; s++ {
			if cr.Chance(1, 8) {
				if !keysOpen {
					lines = append(lines, "kopen")
					keysOpen = true
					bound++
				}
				var ks []string
				for j := cr.Range(1, 3); j > 0; j-- {
					ks = append(ks, cr.PickS("a", "b", "c", "dd", "e"))
				}
				lines = append(lines, "keys "+strings.Join(ks, ","))
				bound++
				continue
			}
			i := cr.Intn(nf)
			row := func() int { return cr.Pick(0, 1, 2, 3) }
			col := func() int { return cr.Pick(0, 1, 2, 3, 5) }
			pairs := func() ([]int, []int) {
				var rs, cs []int
				for j := cr.Range(1, 4); j > 0; j-- {
					rs = append(rs, row())
					cs = append(cs, col())
				}
				return rs, cs
			}
			switch kinds[i] {
			case "int":
				if cr.Chance(1, 2) {
					lines = append(lines, fmt.Sprintf("setval %d %d %d", i, col(), cr.Range(-7, 7)))
					bound += depth + 2
					multi = true
				} else {
					var cs, vs []int
					for j := cr.Range(1, 3); j > 0; j-- {
						cs = append(cs, col())
						vs = append(vs, cr.Range(-7, 7))
					}
					lines = append(lines, fmt.Sprintf("impval %d %s %s", i, csvInts(cs), csvInts(vs)))
					bound += 3
					multi = true
				}
			default:
				switch x := cr.Intn(100); {
				case x < 30:
					lines = append(lines, fmt.Sprintf("set %d %d %d", i, row(), col()))
					bound += 2
					multi = multi || kinds[i] == "mutex"
				case x < 40:
					lines = append(lines, fmt.Sprintf("clear %d %d %d", i, row(), col()))
					bound++
				case x < 58:
					rs, cs := pairs()
					lines = append(lines, fmt.Sprintf("imp %d %s %s %d", i, csvInts(rs), csvInts(cs), cr.Pick(0, 0, 0, 1)))
					bound += 2
					multi = multi || kinds[i] == "mutex"
				case x < 70:
					var vals []int
					for j := cr.Range(1, 4); j > 0; j-- {
						vals = append(vals, row()*sw+col())
					}
					sort.Ints(vals)
					lines = append(lines, fmt.Sprintf("roaring %d %s %d %d", i, csvInts(vals), cr.Pick(0, 0, 1), roaringSize(vals)))
					bound++
				case x < 82:
					var cs []int
					for j := cr.Range(0, 3); j > 0; j-- {
						cs = append(cs, col())
					}
					lines = append(lines, fmt.Sprintf("setrow %d %d %s", i, row(), csvInts(cs)))
					multi = true
				case x < 90:
					lines = append(lines, fmt.Sprintf("clearrow %d %d", i, row()))
					multi = true
				default:
					lines = append(lines, fmt.Sprintf("snap %d", i))
					bound += 3
					multi = true
				}
			}
			lines = append(lines, fmt.Sprintf("bg %d", i))
			bound += 3
		}
		secondGen := cr.Chance(3, 5)
		if !secondGen {
			for c := 0; c <= bound; c++ {
				lines = append(lines, fmt.Sprintf("crash %d", c))
			}
			cases = append(cases, vh.Case{Lines: lines, Nontrivial: multi && bound >= 6})
			continue
		}
		// second process generation: kill somewhere after the files exist (also inside snapshots),
		// restart with the leftovers in place, shrink the state, snapshot, crash again everywhere
		prefix := 2 * nf
		lines = append(lines, fmt.Sprintf("restart %d", cr.Range(prefix, bound)))
		bound2 := 0
		for s := cr.Range(2, 5); s > 0; s-- {
			i := cr.Intn(nf)
			row := func() int { return cr.Pick(0, 1, 2, 3) }
			col := func() int { return cr.Pick(0, 1, 2, 3, 5) }
			if kinds[i] == "int" {
				lines = append(lines, fmt.Sprintf("setval %d %d %d", i, col(), cr.Range(-1, 1)))
				bound2 += depth + 2
			} else {
				switch x := cr.Intn(10); {
				case x < 4:
					lines = append(lines, fmt.Sprintf("clearrow %d %d", i, row()))
				case x < 6:
					lines = append(lines, fmt.Sprintf("clear %d %d %d", i, row(), col()))
					bound2++
				case x < 8:
					lines = append(lines, fmt.Sprintf("setrow %d %d -", i, row()))
				default:
					lines = append(lines, fmt.Sprintf("set %d %d %d", i, row(), col()))
					bound2 += 2
				}
			}
			lines = append(lines, fmt.Sprintf("bg %d", i))
			bound2 += 3
			if cr.Chance(1, 2) {
				lines = append(lines, fmt.Sprintf("snap %d", i))
				bound2 += 3
			}
		}
		for c := 0; c <= bound2; c++ {
			lines = append(lines, fmt.Sprintf("crash %d", c))
		}
		cases = append(cases, vh.Case{Lines: lines, Nontrivial: true})
		vh.Count("second-generation-cases")
	}
	return cases
}

// ---------------------------------------------------------------- recorded operations

type fsop struct {
	kind string // create, write, rename, unlink, truncate
	path string
	to   string
	data []byte
	size int64
}

type event struct {
	mark string // "B<i>" / "A<i>" or ""
	op   fsop
}

var (
	reRet    = regexp.MustCompile(`\)\s+=\s+(-?\d+)(?:<([^>]*)>)?`)
	reFdPath = regexp.MustCompile(`^\d+<([^>]*)>`)
)

func unhex(s string) []byte {
	var out []byte
	for i := 0; i < len(s); {
		if s[i] == '\\' && i+3 < len(s) && s[i+1] == 'x' {
			v, _ := strconv.ParseUint(s[i+2:i+4], 16, 8)
			out = append(out, byte(v))
			i += 4
		} else {
			out = append(out, s[i])
			i++
		}
	}
	return out
}

// quoted returns the quoted string arguments of a syscall line, decoded.
func quoted(args string) [][]byte {
	var out [][]byte
	for {
		i := strings.IndexByte(args, '"')
		if i < 0 {
			return out
		}
		j := strings.IndexByte(args[i+1:], '"')
		if j < 0 {
			return out
		}
		out = append(out, unhex(args[i+1:i+1+j]))
		args = args[i+j+2:]
	}
}

// parseTrace turns strace output into events on paths below root (and the marker file).
func parseTrace(path, root, markPath string, existing []string) ([]event, error) {
	f, err := os.Open(path)
	if err != nil {
		return nil, err
	}
	defer f.Close()
	sc := bufio.NewScanner(f)
	sc.Buffer(make([]byte, 1<<20), 1<<28)
	pendingLine := map[string]string{}
	exists := map[string]bool{}
	for _, e := range existing {
		exists[e] = true
	}
	var evs []event
	for sc.Scan() {
		line := sc.Text()
		sp := strings.IndexByte(line, ' ')
		if sp < 0 {
			continue
		}
		pid, rest := line[:sp], strings.TrimLeft(line[sp:], " ")
		if strings.HasSuffix(rest, "<unfinished ...>") {
			pendingLine[pid] = strings.TrimSuffix(rest, "<unfinished ...>")
			continue
		}
		if strings.HasPrefix(rest, "<... ") {
			i := strings.Index(rest, "resumed>")
			if i < 0 {
				continue
			}
			rest = pendingLine[pid] + rest[i+len("resumed>"):]
			delete(pendingLine, pid)
		}
		par := strings.IndexByte(rest, '(')
		if par < 0 {
			continue
		}
		name, args := rest[:par], rest[par+1:]
		m := reRet.FindStringSubmatch(rest)
		if m == nil {
			continue
		}
		ret, _ := strconv.ParseInt(m[1], 10, 64)
		if ret < 0 {
			continue
		}
		inRoot := func(p string) bool { return p == markPath || strings.HasPrefix(p, root+"/") }
		switch name {
		case "openat":
			p := string(unhex(m[2]))
			if !inRoot(p) || p == markPath {
				continue
			}
			flags := args
			if strings.Contains(flags, "O_TRUNC") {
				exists[p] = true
				evs = append(evs, event{op: fsop{kind: "create", path: p}})
			} else if strings.Contains(flags, "O_CREAT") && !exists[p] {
				exists[p] = true
				evs = append(evs, event{op: fsop{kind: "create", path: p}})
			}
		case "write", "pwrite64":
			fm := reFdPath.FindStringSubmatch(args)
			if fm != nil {
				fm[1] = string(unhex(fm[1]))
			}
			if fm == nil || !inRoot(fm[1]) {
				continue
			}
			q := quoted(args)
			if len(q) == 0 {
				continue
			}
			data := q[0]
			if int64(len(data)) > ret {
				data = data[:ret]
			}
			if fm[1] == markPath {
				evs = append(evs, event{mark: strings.TrimSpace(string(data))})
				continue
			}
			evs = append(evs, event{op: fsop{kind: "write", path: fm[1], data: data}})
		case "rename", "renameat", "renameat2":
			q := quoted(args)
			if len(q) < 2 {
				continue
			}
			a, b := string(q[0]), string(q[1])
			if !inRoot(a) && !inRoot(b) {
				continue
			}
			exists[b] = true
			delete(exists, a)
			evs = append(evs, event{op: fsop{kind: "rename", path: a, to: b}})
		case "unlink", "unlinkat":
			q := quoted(args)
			if len(q) < 1 || !inRoot(string(q[0])) {
				continue
			}
			delete(exists, string(q[0]))
			evs = append(evs, event{op: fsop{kind: "unlink", path: string(q[0])}})
		case "ftruncate":
			fm := reFdPath.FindStringSubmatch(args)
			if fm != nil {
				fm[1] = string(unhex(fm[1]))
			}
			if fm == nil || !inRoot(fm[1]) {
				continue
			}
			parts := strings.Split(args, ",")
			sz, _ := strconv.ParseInt(strings.TrimSpace(strings.TrimRight(strings.TrimSpace(parts[1]), ")")), 10, 64)
			evs = append(evs, event{op: fsop{kind: "truncate", path: fm[1], size: sz}})
		}
	}
	return evs, nil
}

func tokenPath(p string) string {
	b := p
	switch {
	case b == "keys":
		return "k"
	case strings.HasPrefix(b, "f") && strings.HasSuffix(b, ".snapshotting"):
		return "s" + strings.TrimSuffix(b[1:], ".snapshotting")
	case strings.HasPrefix(b, "f"):
		if _, err := strconv.Atoi(b[1:]); err == nil {
			return "d" + b[1:]
		}
	}
	return "?" + b
}

// group = one model-level operation: consecutive writes to a snapshot temp file are one group.
type group struct {
	token string
	last  int // index (into the fs-op list) of the last real operation of the group
}

func replayFS(base map[string][]byte, ops []fsop, n int) map[string][]byte {
	files := map[string][]byte{}
	for k, v := range base {
		files[k] = append([]byte(nil), v...)
	}
	for _, o := range ops[:n] {
		switch o.kind {
		case "create":
			files[o.path] = []byte{}
		case "write":
			files[o.path] = append(files[o.path], o.data...)
		case "rename":
			if d, ok := files[o.path]; ok {
				files[o.to] = d
				delete(files, o.path)
			}
		case "unlink":
			delete(files, o.path)
		case "truncate":
			d := files[o.path]
			if int64(len(d)) > o.size {
				files[o.path] = d[:o.size]
			}
		}
	}
	return files
}

// recoverState materialises the files and opens them with the real open path.
func recoverState(files map[string][]byte, kinds []string, dir string) string {
	_ = os.RemoveAll(dir)
	_ = os.MkdirAll(dir, 0o755)
	defer os.RemoveAll(dir)
	for p, d := range files {
		_ = os.WriteFile(filepath.Join(dir, p), d, 0o666)
	}
	var parts []string
	for i, kd := range kinds {
		p := filepath.Join(dir, fmt.Sprintf("f%d", i))
		val := "[]"
		if _, err := os.Stat(p); err == nil {
			val = vh.Guard("open", func() string {
				f, err := pilosa.VerifC09OpenFragment(p, kd, 1<<30, false)
				if err != nil {
					return "err"
				}
				defer f.Close()
				return vh.U64s(vh.SortedU64(f.Positions()))
			})
			if strings.HasPrefix(val, "panic:") {
				val = "err"
			}
		}
		parts = append(parts, fmt.Sprintf("d%d=%s", i, val))
	}
	kp := filepath.Join(dir, "keys")
	kval := "[]"
	if _, err := os.Stat(kp); err == nil {
		kval = vh.Guard("kopen", func() string {
			t := pilosa.NewTranslateFile(pilosa.OptTranslateFileMapSize(1 << 20))
			t.Path = kp
			if err := t.Open(); err != nil {
				return "err"
			}
			defer t.Close()
			var ks []string
			for id := uint64(1); ; id++ {
				s, err := t.TranslateColumnToString("i", id)
				if err != nil || s == "" {
					break
				}
				ks = append(ks, fmt.Sprintf("%s:%d", s, id))
			}
			return "[" + strings.Join(ks, " ") + "]"
		})
		if strings.HasPrefix(kval, "panic:") {
			kval = "err"
		}
	}
	parts = append(parts, "k="+kval)
	return strings.Join(parts, " ")
}

// ---------------------------------------------------------------- parent: one case

// generation = one process lifetime: the calls between two `restart` lines.
type generation struct {
	base   map[string][]byte // files (path below root) the process found when it started
	ops    []fsop            // recorded operations of the process (after its start-up)
	groups []group
}

func garbage(n int) []byte { return bytes.Repeat([]byte{0xAB}, n) }

// runGeneration executes the call lines idx (indices into lines) in a strace'd child on a fresh
// root holding base, and fills outs for them.
func runGeneration(dir string, gen int, base map[string][]byte, kinds []string, keysOpen bool,
	lines []string, idx []int, outs []string) (g *generation, newKinds []string, newKeysOpen bool, ok bool) {
	root := filepath.Join(dir, fmt.Sprintf("data%d", gen))
	_ = os.MkdirAll(root, 0o755)
	var existing []string
	for p, d := range base {
		_ = os.WriteFile(filepath.Join(root, p), d, 0o666)
		existing = append(existing, filepath.Join(root, p))
	}
	markPath := filepath.Join(dir, fmt.Sprintf("MARK%d", gen))
	opsFile := filepath.Join(dir, fmt.Sprintf("ops%d.txt", gen))
	var buf bytes.Buffer
	for _, kd := range kinds {
		fmt.Fprintf(&buf, "R %s\n", kd) // reopen directive: fragment of that kind exists already
	}
	if keysOpen {
		fmt.Fprintf(&buf, "K\n")
	}
	for _, i := range idx {
		fmt.Fprintf(&buf, "%d %s\n", i, lines[i])
	}
	if err := os.WriteFile(opsFile, buf.Bytes(), 0o644); err != nil {
		panic(err)
	}
	self, _ := os.Executable()
	tracePath := filepath.Join(dir, fmt.Sprintf("trace%d.txt", gen))
	cmd := exec.Command("strace", "-f", "-qq", "-y", "-xx", "-s", "4000000",
		"-e", "trace=openat,write,pwrite64,rename,renameat,renameat2,ftruncate,unlink,unlinkat",
		"-o", tracePath, self, "--child", root, markPath, opsFile)
	var stdout bytes.Buffer
	cmd.Stdout = &stdout
	done := make(chan error, 1)
	if err := cmd.Start(); err != nil {
		panic(err)
	}
	go func() { done <- cmd.Wait() }()
	select {
	case <-done:
	case <-time.After(120 * time.Second):
		_ = cmd.Process.Kill()
		<-done
		for _, i := range idx {
			outs[i] = "panic:timeout"
		}
		return nil, kinds, keysOpen, false
	}
	newKinds = append([]string(nil), kinds...)
	newKeysOpen = keysOpen
	results := map[int]string{}
	for _, l := range strings.Split(stdout.String(), "\n") {
		ws := strings.Fields(l)
		if len(ws) >= 2 {
			i, err := strconv.Atoi(ws[0])
			if err != nil {
				continue
			}
			results[i] = ws[1]
			if len(ws) >= 3 && strings.HasPrefix(ws[2], "kind=") {
				newKinds = append(newKinds, strings.TrimPrefix(ws[2], "kind="))
			}
			if len(ws) >= 3 && ws[2] == "keysopen" {
				newKeysOpen = true
			}
		}
	}
	evs, err := parseTrace(tracePath, root, markPath, existing)
	if err != nil {
		panic(err)
	}
	g = &generation{base: map[string][]byte{}}
	for k, v := range base {
		g.base[k] = v
	}
	start := map[int]int{}
	stop := map[int]int{}
	seenMark := false
	var pre []fsop
	for _, e := range evs {
		if e.mark != "" {
			seenMark = true
			i, _ := strconv.Atoi(e.mark[1:])
			if e.mark[0] == 'B' {
				start[i] = len(g.ops)
			} else {
				stop[i] = len(g.ops)
			}
			continue
		}
		o := e.op
		o.path = strings.TrimPrefix(o.path, root+"/")
		o.to = strings.TrimPrefix(o.to, root+"/")
		if !seenMark {
			pre = append(pre, o) // start-up of the process (reopening): part of what the calls find
			vh.Count("startup-fsops")
			continue
		}
		g.ops = append(g.ops, o)
	}
	if len(pre) > 0 {
		g.base = replayFS(g.base, pre, len(pre))
	}
	for j, o := range g.ops {
		tp := tokenPath(o.path)
		var tok string
		switch o.kind {
		case "create":
			tok = "c:" + tp
		case "write":
			if strings.HasPrefix(tp, "s") {
				tok = "w:" + tp + ":*"
				if n := len(g.groups); n > 0 && g.groups[n-1].token == tok && g.ops[g.groups[n-1].last].kind == "write" && g.groups[n-1].last == j-1 {
					g.groups[n-1].last = j
					vh.Count("snapshot-write-parts")
					continue
				}
			} else {
				tok = fmt.Sprintf("w:%s:%d", tp, len(o.data))
			}
		case "rename":
			tok = "r:" + tp + ">" + tokenPath(o.to)
		case "unlink":
			tok = "u:" + tp
		case "truncate":
			tok = fmt.Sprintf("t:%s:%d", tp, o.size)
		}
		g.groups = append(g.groups, group{token: tok, last: j})
	}
	groupOfOp := make([]int, len(g.ops)+1)
	{
		k := 0
		for n := 0; n <= len(g.ops); n++ {
			for k < len(g.groups) && g.groups[k].last < n {
				k++
			}
			groupOfOp[n] = k
		}
	}
	for _, i := range idx {
		res, found := results[i]
		if !found {
			outs[i] = "panic:child"
			continue
		}
		if res == "bad-ref" || res == "bad-op" {
			outs[i] = res
			continue
		}
		var toks []string
		for k := groupOfOp[start[i]]; k < groupOfOp[stop[i]]; k++ {
			toks = append(toks, g.groups[k].token)
			vh.Count("fsop:" + g.groups[k].token[:1])
		}
		outs[i] = strings.Join(append(toks, res), " ")
	}
	return g, newKinds, newKeysOpen, true
}

// crashFiles returns the files a kill right after model-level operation k of g leaves behind.
func (g *generation) crashFiles(k int) map[string][]byte {
	n := 0
	if k > 0 {
		n = g.groups[k-1].last + 1
	}
	return replayFS(g.base, g.ops, n)
}

func (p *prop) Exec(lines []string) []string {
	outs := make([]string, len(lines))
	dir, err := os.MkdirTemp("", "c09-")
	if err != nil {
		panic(err)
	}
	defer os.RemoveAll(dir)
	// split into process generations at the restart lines
	type seg struct {
		calls   []int // call lines
		crashes []int // crash lines
		restart int   // index of the restart line that ends it, -1
	}
	segs := []*seg{{restart: -1}}
	for i, l := range lines {
		cur := segs[len(segs)-1]
		switch {
		case strings.HasPrefix(l, "crash"):
			cur.crashes = append(cur.crashes, i)
		case strings.HasPrefix(l, "restart"):
			cur.restart = i
			segs = append(segs, &seg{restart: -1})
		default:
			cur.calls = append(cur.calls, i)
		}
	}
	base := map[string][]byte{}
	var kinds []string
	keysOpen := false
	recDir := filepath.Join(dir, "rec")
	for gi, sg := range segs {
		g, nk, nko, ok := runGeneration(dir, gi, base, kinds, keysOpen, lines, sg.calls, outs)
		if !ok {
			for _, i := range append(sg.crashes, sg.restart) {
				if i >= 0 {
					outs[i] = "panic:timeout"
				}
			}
			for _, rest := range segs[gi+1:] {
				for _, i := range append(append(rest.calls, rest.crashes...), rest.restart) {
					if i >= 0 {
						outs[i] = "panic:timeout"
					}
				}
			}
			return outs
		}
		kinds, keysOpen = nk, nko
		answer := func(i int, clamp bool) (map[string][]byte, bool) {
			ws := strings.Fields(lines[i])
			if len(ws) != 2 {
				outs[i] = "bad-op"
				return nil, false
			}
			k, err := strconv.Atoi(ws[1])
			if err != nil || k < 0 {
				outs[i] = "bad-op"
				return nil, false
			}
			if k > len(g.groups) {
				if !clamp {
					outs[i] = "end"
					return nil, false
				}
				k = len(g.groups)
			}
			files := g.crashFiles(k)
			out := recoverState(files, kinds, recDir)
			// a partly written snapshot file must be invisible: the prefixes inside group k+1 recover
			// like prefix k
			if k < len(g.groups) {
				n := 0
				if k > 0 {
					n = g.groups[k-1].last + 1
				}
				for m := n + 1; m <= g.groups[k].last; m++ {
					if o2 := recoverState(replayFS(g.base, g.ops, m), kinds, recDir); o2 != out {
						out = o2 + " partial-snapshot-visible"
					}
					vh.Count("partial-prefixes")
				}
			}
			outs[i] = out
			vh.Count("recoveries")
			if strings.Contains(out, "err") {
				vh.Count("recover-err")
			}
			return files, true
		}
		for _, i := range sg.crashes {
			answer(i, false)
		}
		if sg.restart >= 0 {
			files, ok := answer(sg.restart, true)
			if !ok {
				files = g.crashFiles(len(g.groups))
			}
			// leftovers stay where the kill left them; where it left none a long one is planted,
			// and .copying / .temp files for every fragment
			for i := range kinds {
				sp := fmt.Sprintf("f%d.snapshotting", i)
				if _, has := files[sp]; !has {
					files[sp] = garbage(4096)
					vh.Count("planted-snapshotting")
				} else {
					vh.Count("real-leftover-snapshotting")
				}
				files[fmt.Sprintf("f%d.copying", i)] = garbage(100)
				files[fmt.Sprintf("f%d.temp", i)] = garbage(100)
			}
			base = files
			vh.Count("restarts")
		}
	}
	return outs
}

// ---------------------------------------------------------------- child

func parseCSV(s string) []uint64 { return vh.ParseCSV(s) }

func parseCSVInt(s string) []int64 {
	if s == "-" || s == "" {
		return nil
	}
	var out []int64
	for _, p := range strings.Split(s, ",") {
		v, err := strconv.ParseInt(p, 10, 64)
		if err != nil {
			panic("bad number")
		}
		out = append(out, v)
	}
	return out
}

type cfrag struct {
	f     *pilosa.VerifC09Frag
	kind  string
	depth uint
}

func childMain(root, markPath, opsFile string) {
	mark, err := os.OpenFile(markPath, os.O_WRONLY|os.O_CREATE|os.O_APPEND, 0o644)
	if err != nil {
		panic(err)
	}
	data, err := os.ReadFile(opsFile)
	if err != nil {
		panic(err)
	}
	out := bufio.NewWriter(os.Stdout)
	defer out.Flush()
	var frags []*cfrag
	var tf *pilosa.TranslateFile
	atoi := func(s string) int {
		v, err := strconv.Atoi(s)
		if err != nil {
			panic("bad number")
		}
		return v
	}
	for _, l := range strings.Split(strings.TrimSpace(string(data)), "\n") {
		ws := strings.Fields(l)
		if len(ws) == 2 && ws[0] == "R" { // reopen an existing fragment (new process generation)
			f, err := pilosa.VerifC09OpenFragment(filepath.Join(root, fmt.Sprintf("f%d", len(frags))), ws[1], 1000000, true)
			if err != nil {
				fmt.Fprintf(out, "reopen-failed %d\n", len(frags))
				out.Flush()
				return
			}
			depth := uint(0)
			if ws[1] == "int" {
				depth = 3
			}
			frags = append(frags, &cfrag{f: f, kind: ws[1], depth: depth})
			continue
		}
		if len(ws) == 1 && ws[0] == "K" {
			t := pilosa.NewTranslateFile(pilosa.OptTranslateFileMapSize(1 << 20))
			t.Path = filepath.Join(root, "keys")
			if err := t.Open(); err != nil {
				fmt.Fprintf(out, "reopen-failed keys\n")
				out.Flush()
				return
			}
			tf = t
			continue
		}
		if len(ws) < 2 {
			continue
		}
		idx := ws[0]
		ws = ws[1:]
		res, extra := func() (res string, extra string) {
			defer func() {
				if e := recover(); e != nil {
					res = "bad-op"
				}
			}()
			get := func(s string) *cfrag {
				i := atoi(s)
				if i < 0 || i >= len(frags) {
					return nil
				}
				return frags[i]
			}
			errRes := func(err error) string {
				if err != nil {
					return "err"
				}
				return "ok"
			}
			fmt.Fprintf(mark, "B%s\n", idx)
			defer fmt.Fprintf(mark, "A%s\n", idx)
			switch ws[0] {
			case "fopen":
				kind, depth := ws[1], uint(0)
				if strings.HasPrefix(kind, "int:") {
					depth = uint(atoi(kind[4:]))
					kind = "int"
				}
				f, err := pilosa.VerifC09OpenFragment(filepath.Join(root, fmt.Sprintf("f%d", len(frags))), kind, atoi(ws[2]), true)
				if err != nil {
					return "err", ""
				}
				frags = append(frags, &cfrag{f: f, kind: kind, depth: depth})
				return "ok", "kind=" + kind
			case "set", "clear":
				f := get(ws[1])
				if f == nil || f.kind == "int" {
					return "bad-ref", ""
				}
				if ws[0] == "set" {
					return errRes(f.f.SetBit(uint64(atoi(ws[2])), uint64(atoi(ws[3]))%sw)), ""
				}
				return errRes(f.f.ClearBit(uint64(atoi(ws[2])), uint64(atoi(ws[3]))%sw)), ""
			case "setval":
				f := get(ws[1])
				if f == nil || f.kind != "int" {
					return "bad-ref", ""
				}
				v, err := strconv.ParseInt(ws[3], 10, 64)
				if err != nil {
					panic("bad number")
				}
				return errRes(f.f.SetValue(uint64(atoi(ws[2]))%sw, f.depth, v)), ""
			case "imp":
				f := get(ws[1])
				if f == nil || f.kind == "int" {
					return "bad-ref", ""
				}
				rows, cols := parseCSV(ws[2]), parseCSV(ws[3])
				n := len(rows)
				if len(cols) < n {
					n = len(cols)
				}
				rows, cols = rows[:n], cols[:n]
				for j := range cols {
					cols[j] %= sw
				}
				return errRes(f.f.Import(rows, cols, ws[4] == "1")), ""
			case "impval":
				f := get(ws[1])
				if f == nil || f.kind != "int" {
					return "bad-ref", ""
				}
				cols, vals := parseCSV(ws[2]), parseCSVInt(ws[3])
				n := len(cols)
				if len(vals) < n {
					n = len(vals)
				}
				cols, vals = cols[:n], vals[:n]
				if f.f.ImportValueAwaits(n, f.depth) {
					f.f.Release() // this path waits for its snapshot: let the worker run it
					defer f.f.Unrelease()
				}
				return errRes(f.f.ImportValue(cols, vals, f.depth)), ""
			case "roaring":
				f := get(ws[1])
				if f == nil || f.kind == "int" {
					return "bad-ref", ""
				}
				var b bytes.Buffer
				_, _ = roaring.NewBitmap(parseCSV(ws[2])...).WriteTo(&b)
				return errRes(f.f.ImportRoaring(b.Bytes(), ws[3] == "1")), ""
			case "setrow":
				f := get(ws[1])
				if f == nil || f.kind == "int" {
					return "bad-ref", ""
				}
				cols := parseCSV(ws[3])
				for j := range cols {
					cols[j] %= sw
				}
				return errRes(f.f.SetRow(cols, uint64(atoi(ws[2])))), ""
			case "clearrow":
				f := get(ws[1])
				if f == nil || f.kind == "int" {
					return "bad-ref", ""
				}
				return errRes(f.f.ClearRow(uint64(atoi(ws[2])))), ""
			case "snap":
				f := get(ws[1])
				if f == nil {
					return "bad-ref", ""
				}
				return errRes(f.f.Snapshot()), ""
			case "bg":
				f := get(ws[1])
				if f == nil {
					return "bad-ref", ""
				}
				if f.f.Pending() {
					f.f.Release()
					f.f.Await()
				}
				return "ok", ""
			case "kopen":
				if tf != nil {
					return "bad-ref", ""
				}
				t := pilosa.NewTranslateFile(pilosa.OptTranslateFileMapSize(1 << 20))
				t.Path = filepath.Join(root, "keys")
				if err := t.Open(); err != nil {
					return "err", ""
				}
				tf = t
				return "ok", "keysopen"
			case "keys":
				if tf == nil {
					return "bad-ref", ""
				}
				var ks []string
				if ws[1] != "-" {
					ks = strings.Split(ws[1], ",")
				}
				_, err := tf.TranslateColumnsToUint64("i", ks)
				return errRes(err), ""
			}
			return "bad-op", ""
		}()
		fmt.Fprintf(out, "%s %s %s\n", idx, res, extra)
		out.Flush()
	}
}

func main() {
	if len(os.Args) >= 5 && os.Args[1] == "--child" {
		childMain(os.Args[2], os.Args[3], os.Args[4])
		return
	}
	vh.Main(&prop{})
}
