// Harness for C28: all write paths for the same bits yield the same answers.
//
// One case = one logical field written into several identical physical fields ("lanes", one index
// each) through different write paths, then a query battery asked of every lane.  The line formats
// are documented in lean/PV/C28/Main.lean.  For a `w` line the harness applies the logical write
// to lane i through the path named for lane i; for a `q` line it asks every applicable lane and
// prints the common answer, or `DIFF <lane>=<answer> ...` when the lanes disagree (a direct
// observation of a C28 violation on the real code).  The Lean driver computes the same answer from
// the abstract field state reached through the model of each lane's path (model) and from the
// path-free specification write (spec).
//
// Paths: q PQL Set/Clear, Q PQL with string keys, i API.Import by ids, k API.Import by keys,
// p API.ImportRoaring with Pilosa-format bytes, o API.ImportRoaring with official-format bytes
// (encoder below), v API.ImportValue by ids, V API.ImportValue by column keys.
package main

import (
	"bytes"
	"context"
	"encoding/binary"
	"fmt"
	"io"
	"os"
	"runtime/debug"
	"sort"
	"strconv"
	"strings"
	"time"

	"github.com/pilosa/pilosa"
	"github.com/pilosa/pilosa/roaring"
	"github.com/pilosa/pilosa/server"
	"verifharness/vh"
	"verifharness/vh/srv"
)

const sw = pilosa.ShardWidth

type lane struct {
	keyed bool
	index string
}

type prop struct {
	s      *srv.Server
	seq    int
	nCases int

	// per-case state
	ftype string
	opt   map[string]string
	lanes []lane
	views map[string]bool // time-view suffixes written so far in this case ("" = standard)
}

func (p *prop) Rule() string {
	return "one logical field (set/mutex/bool/time/int; ranked or lru cache; every contiguous time quantum; with and without standard view) " +
		"written into 4-6 identical physical fields, each through its own path (PQL Set/Clear, Import by ids, Import by keys, ImportRoaring Pilosa bytes, " +
		"ImportRoaring official bytes with array/bitmap/run containers, ImportValue, and a per-line random mixture); rows, columns, timestamps and values are drawn " +
		"from tiny universes at shard/container/block edges so duplicates, overwrites, clears of absent bits and re-hit caches are frequent; the battery " +
		"(Row, Count, Rows, TopN, TopN ids, TopN n, time-range Row, value, conditions, between, not-null, Sum/Min/Max) is asked mid-history and at the end; " +
		"a case is non-trivial when it has at least two write lines or a duplicate column inside one batch, and at least two lanes with different paths"
}

// ------------------------------------------------------------------ items

type item struct {
	row    uint64 // bit fields: row; int fields: unused
	col    uint64 // first column
	colEnd uint64 // last column (== col unless a range item)
	ts     string // YYYYMMDDHH or ""
	val    int64  // int fields
}

func parseItems(ftype string, toks []string) ([]item, bool) {
	var out []item
	for _, t := range toks {
		var it item
		if ftype == "int" {
			kv := strings.SplitN(t, "=", 2)
			if len(kv) != 2 {
				return nil, false
			}
			c, e1 := strconv.ParseUint(kv[0], 10, 64)
			v, e2 := strconv.ParseInt(kv[1], 10, 64)
			if e1 != nil || e2 != nil {
				return nil, false
			}
			it.col, it.colEnd, it.val = c, c, v
			out = append(out, it)
			continue
		}
		if j := strings.IndexByte(t, '@'); j >= 0 {
			it.ts = t[j+1:]
			t = t[:j]
			if len(it.ts) != 10 || strings.Trim(it.ts, "0123456789") != "" {
				return nil, false
			}
			if _, err := time.Parse("2006010215", it.ts); err != nil {
				return nil, false
			}
		}
		rc := strings.SplitN(t, ":", 2)
		if len(rc) != 2 {
			return nil, false
		}
		r, e1 := strconv.ParseUint(rc[0], 10, 64)
		if e1 != nil {
			return nil, false
		}
		it.row = r
		if j := strings.IndexByte(rc[1], '-'); j >= 0 {
			a, e2 := strconv.ParseUint(rc[1][:j], 10, 64)
			b, e3 := strconv.ParseUint(rc[1][j+1:], 10, 64)
			if e2 != nil || e3 != nil || b < a || b-a > 70000 || a/sw != b/sw {
				return nil, false
			}
			it.col, it.colEnd = a, b
		} else {
			c, e2 := strconv.ParseUint(rc[1], 10, 64)
			if e2 != nil {
				return nil, false
			}
			it.col, it.colEnd = c, c
		}
		out = append(out, it)
	}
	return out, true
}

func tsTime(ts string) time.Time {
	t, err := time.Parse("2006010215", ts)
	if err != nil {
		panic("bad ts " + ts)
	}
	return t
}

func tsPQL(ts string) string { return tsTime(ts).Format(pilosa.TimeFormat) }

// viewSuffixes returns the time-view suffixes a timestamp is written to (digit prefixes).
func viewSuffixes(ts, q string) []string {
	var out []string
	for _, u := range q {
		switch u {
		case 'Y':
			out = append(out, ts[:4])
		case 'M':
			out = append(out, ts[:6])
		case 'D':
			out = append(out, ts[:8])
		case 'H':
			out = append(out, ts[:10])
		}
	}
	return out
}

// ------------------------------------------------------------------ official roaring encoder

// encodeOfficial renders sorted 32-bit positions in the RoaringFormatSpec layout. With runs=true
// containers whose run encoding is not larger are written as run containers (cookie 12347).
func encodeOfficial(pos []uint64, runs bool) []byte {
	type cont struct {
		key   uint16
		vals  []uint16
		isRun bool
		runs  [][2]uint16
	}
	var cs []*cont
	for _, p := range pos {
		k := uint16(p >> 16)
		if len(cs) == 0 || cs[len(cs)-1].key != k {
			cs = append(cs, &cont{key: k})
		}
		c := cs[len(cs)-1]
		c.vals = append(c.vals, uint16(p))
	}
	anyRun := false
	for _, c := range cs {
		for i := 0; i < len(c.vals); {
			j := i
			for j+1 < len(c.vals) && c.vals[j+1] == c.vals[j]+1 {
				j++
			}
			c.runs = append(c.runs, [2]uint16{c.vals[i], uint16(j - i)})
			i = j + 1
		}
		if runs {
			sz := 2 * len(c.vals)
			if len(c.vals) > 4096 {
				sz = 8192
			}
			if 2+4*len(c.runs) <= sz {
				c.isRun = true
				anyRun = true
			}
		}
	}
	var b bytes.Buffer
	u16 := func(v uint16) { _ = binary.Write(&b, binary.LittleEndian, v) }
	u32 := func(v uint32) { _ = binary.Write(&b, binary.LittleEndian, v) }
	n := len(cs)
	hasOffsets := true
	if anyRun {
		u32(uint32(12347) | uint32(n-1)<<16)
		bits := make([]byte, (n+7)/8)
		for i, c := range cs {
			if c.isRun {
				bits[i/8] |= 1 << uint(i%8)
			}
		}
		b.Write(bits)
		hasOffsets = n >= 4 // NO_OFFSET_THRESHOLD
	} else {
		u32(12346)
		u32(uint32(n))
	}
	for _, c := range cs {
		u16(c.key)
		u16(uint16(len(c.vals) - 1))
	}
	size := func(c *cont) int {
		switch {
		case c.isRun:
			return 2 + 4*len(c.runs)
		case len(c.vals) > 4096:
			return 8192
		}
		return 2 * len(c.vals)
	}
	if hasOffsets {
		off := b.Len() + 4*n
		for _, c := range cs {
			u32(uint32(off))
			off += size(c)
		}
	}
	for _, c := range cs {
		switch {
		case c.isRun:
			u16(uint16(len(c.runs)))
			for _, r := range c.runs {
				u16(r[0])
				u16(r[1])
			}
		case len(c.vals) > 4096:
			var words [1024]uint64
			for _, v := range c.vals {
				words[v/64] |= 1 << (v % 64)
			}
			for _, w := range words {
				_ = binary.Write(&b, binary.LittleEndian, w)
			}
		default:
			for _, v := range c.vals {
				u16(v)
			}
		}
	}
	return b.Bytes()
}

func encodePilosa(pos []uint64, optimize bool) []byte {
	bm := roaring.NewBitmap(pos...)
	if optimize {
		bm.Optimize()
	}
	var b bytes.Buffer
	if _, err := bm.WriteTo(&b); err != nil {
		panic(err)
	}
	return b.Bytes()
}

// ------------------------------------------------------------------ generation

var colOffsets = []uint64{0, 1, 2, 3, 65535, 65536, 65537, sw - 1}
var tsPool = []string{"2000022923", "2001010100", "2001010113", "2001010200", "2001013100", "2001020100", "2001123123", "2002010100", "2002030412"}
var quanta = []string{"Y", "YM", "YMD", "YMDH", "M", "MD", "MDH", "D", "DH", "H"}

func pickDistinct(r *vh.Rng, pool []uint64, n int) []uint64 {
	perm := r.Perm(len(pool))
	if n > len(pool) {
		n = len(pool)
	}
	out := make([]uint64, n)
	for i := 0; i < n; i++ {
		out[i] = pool[perm[i]]
	}
	return out
}

func lanePaths(r *vh.Rng, ftype, lanes, op string) string {
	// allowed paths per lane kind and op
	var u, k []string
	switch {
	case ftype == "int" && op == "set":
		u, k = []string{"q", "v"}, []string{"Q", "V"}
	case ftype == "int":
		u, k = []string{"v"}, []string{"V"}
	case ftype == "set" || ftype == "time":
		switch op {
		case "set":
			u, k = []string{"q", "i", "p", "o"}, []string{"Q", "k"}
		case "clear":
			if ftype == "time" {
				u, k = []string{"q", "p", "o"}, []string{"Q"}
			} else {
				u, k = []string{"q", "i", "p", "o"}, []string{"Q", "k"}
			}
		case "clearstd":
			u, k = []string{"i", "p", "o"}, []string{"k"}
		}
	default: // mutex, bool
		u, k = []string{"q", "i"}, []string{"Q", "k"}
	}
	var ps []string
	for i, c := range lanes {
		switch {
		case c == 'k':
			ps = append(ps, k[r.Intn(len(k))])
		case i < len(u) && i < 4:
			ps = append(ps, u[i]) // lane i is dedicated to path i where that path exists
		default:
			ps = append(ps, u[r.Intn(len(u))])
		}
	}
	return strings.Join(ps, ",")
}

func (p *prop) Gen(r *vh.Rng, tier string, n int) []vh.Case {
	// vh.NewRng(seed+1) is vh.NewRng(seed) advanced by one draw; re-seed from a mixed output so the
	// worker streams (seed*1000+w) are unrelated.
	r = vh.NewRng(r.U64() ^ 0xC28C28C28)
	cases := make([]vh.Case, 0, n)
	for k := 0; k < n; k++ {
		cases = append(cases, genCase(r.Fork()))
	}
	return cases
}

func genCase(r *vh.Rng) vh.Case {
	ftype := []string{"set", "set", "set", "mutex", "mutex", "bool", "time", "time", "int", "int"}[r.Intn(10)]
	var lines []string
	lanes := "uuuuku"
	fl := "field " + ftype
	q := ""
	nostd := false
	var imin, imax int64
	switch ftype {
	case "set", "mutex":
		ct := r.PickS("ranked", "ranked", "lru")
		cs := r.Pick(50000, 50, 8)
		fl += fmt.Sprintf(" cache=%s csize=%d", ct, cs)
		if ftype == "mutex" {
			lanes = "uuku"
		}
	case "bool":
		lanes = "uuku"
	case "time":
		q = quanta[r.Intn(len(quanta))]
		nostd = r.Chance(1, 6)
		ns := 0
		if nostd {
			ns = 1
		}
		fl += fmt.Sprintf(" q=%s nostd=%d", q, ns)
	case "int":
		mm := [][2]int64{{-100, 100}, {0, 1000}, {-1000, 1000}, {-3, 70000}, {10, 20}}[r.Intn(5)]
		imin, imax = mm[0], mm[1]
		fl += fmt.Sprintf(" min=%d max=%d", imin, imax)
		lanes = "uuku"
	}
	longRun := ftype == "set" && r.Chance(1, 40)
	if longRun {
		lanes = "uuuuu" // thousands of new keys per case would only exercise the translate store
	}
	fl += " lanes=" + lanes
	if r.Chance(1, 2) {
		fl += " exist=1"
	} else {
		fl += " exist=0"
	}
	lines = append(lines, fl)

	// universes
	rows := pickDistinct(r, []uint64{0, 1, 2, 3, 99, 100, 101}, r.Range(2, 4))
	if ftype == "bool" {
		rows = []uint64{0, 1}
	}
	oneShard := r.Chance(1, 3)
	nShards := uint64(2)
	if oneShard {
		nShards = 1
	}
	var colPool []uint64
	for sh := uint64(0); sh < nShards; sh++ {
		for _, o := range colOffsets {
			colPool = append(colPool, sh*sw+o)
		}
	}
	cols := pickDistinct(r, colPool, r.Range(3, 7))
	tss := make([]string, 0)
	for _, i := range r.Perm(len(tsPool))[:r.Range(2, 4)] {
		tss = append(tss, tsPool[i])
	}
	valPool := []int64{imin, imin + 1, imax, imax - 1, 0, 1, -1, 2, 3, 7, 8, 15, 16, -7, -8, 63, 64, 255, 256}
	var vals []int64
	for _, v := range valPool {
		if v >= imin && v <= imax {
			vals = append(vals, v)
		}
	}
	pickVal := func() int64 {
		if r.Chance(1, 12) {
			return imin + int64(r.Intn(int(imax-imin+1)))
		}
		return vals[r.Intn(len(vals))]
	}

	dup := false
	nW := r.Range(1, 6)
	var battery func(full bool)
	battery = func(full bool) {
		var qs []string
		switch ftype {
		case "int":
			for _, c := range cols {
				qs = append(qs, fmt.Sprintf("q val %d", c))
			}
			ops := []string{"lt", "le", "gt", "ge", "eq", "ne"}
			for i := 0; i < 4; i++ {
				pv := pickVal()
				if r.Chance(1, 5) {
					pv += int64(r.Range(-2, 2))
				}
				if r.Chance(1, 10) { // outside [min,max]
					if r.Bool() {
						pv = imax + int64(r.Range(1, 3))
					} else {
						pv = imin - int64(r.Range(1, 3))
					}
				}
				qs = append(qs, fmt.Sprintf("q cmp %s %d", ops[r.Intn(len(ops))], pv))
			}
			a, b := pickVal(), pickVal()
			if a > b {
				a, b = b, a
			}
			qs = append(qs, fmt.Sprintf("q between %d %d", a, b), "q notnull", "q sum", "q min", "q max")
		default:
			for _, rw := range rows {
				qs = append(qs, fmt.Sprintf("q row %d", rw), fmt.Sprintf("q count %d", rw))
			}
			qs = append(qs, "q rows")
			if ftype == "set" || ftype == "mutex" {
				qs = append(qs, "q topn", "q topnids "+vh.CSV(rows))
				if oneShard { // with several shards TopN(n=k) is a two-pass approximation that depends on tie order
					qs = append(qs, fmt.Sprintf("q topk %d", r.Range(1, 3)))
				}
			}
			if ftype == "time" {
				for i := 0; i < 4; i++ {
					qs = append(qs, genTRange(r, rows, tss, q))
				}
			}
		}
		if !full {
			perm := r.Perm(len(qs))
			m := r.Range(1, 4)
			if m > len(qs) {
				m = len(qs)
			}
			var sub []string
			for _, i := range perm[:m] {
				sub = append(sub, qs[i])
			}
			qs = sub
		}
		lines = append(lines, qs...)
	}

	for w := 0; w < nW; w++ {
		op := "set"
		switch {
		case ftype == "time" && r.Chance(2, 10):
			op = "clear"
		case ftype == "time" && r.Chance(1, 8):
			op = "clearstd"
		case ftype != "time" && r.Chance(3, 10):
			op = "clear"
		}
		nI := r.Range(1, 6)
		var toks []string
		seen := map[uint64]bool{}
		for i := 0; i < nI; i++ {
			c := cols[r.Intn(len(cols))]
			if seen[c] {
				dup = true
			}
			seen[c] = true
			if ftype == "int" {
				toks = append(toks, fmt.Sprintf("%d=%d", c, pickVal()))
				continue
			}
			t := fmt.Sprintf("%d:%d", rows[r.Intn(len(rows))], c)
			if ftype == "time" && op == "set" && r.Chance(7, 10) {
				t += "@" + tss[r.Intn(len(tss))]
			}
			toks = append(toks, t)
		}
		if longRun && w == 0 {
			// a long run: bitmap / run containers, cardinality edge 4096
			sh := uint64(r.Intn(int(nShards)))
			start := sh*sw + r.PickU(0, 65536, 61440)
			toks = append(toks, fmt.Sprintf("%d:%d-%d", rows[0], start, start+uint64(r.Pick(4094, 4095, 4096, 5000))))
			vh.Count("gen:long-run")
		}
		lines = append(lines, fmt.Sprintf("w %s %s %s", lanePaths(r, ftype, lanes, op), op, strings.Join(toks, " ")))
		if w < nW-1 && r.Chance(1, 2) {
			battery(false)
		}
	}
	battery(true)
	vh.Count("gen:" + ftype)
	return vh.Case{Lines: lines, Nontrivial: nW >= 2 || dup}
}

func genTRange(r *vh.Rng, rows []uint64, tss []string, q string) string {
	// boundaries: the timestamps in use and their neighbours at each unit
	pick := func() time.Time {
		t := tsTime(tss[r.Intn(len(tss))])
		switch r.Intn(6) {
		case 0:
			t = t.Add(time.Hour)
		case 1:
			t = t.AddDate(0, 0, 1)
		case 2:
			t = time.Date(t.Year(), t.Month(), 1, 0, 0, 0, 0, time.UTC)
		case 3:
			t = time.Date(t.Year(), 1, 1, 0, 0, 0, 0, time.UTC)
		case 4:
			t = time.Date(t.Year()+1, 1, 1, 0, 0, 0, 0, time.UTC)
		}
		return t
	}
	a, b := pick(), pick()
	if b.Before(a) {
		a, b = b, a
	}
	views := pilosa.VerifC28ViewsByTimeRange(a, b, q)
	for len(views) > 40 { // keep lines short: shrink the range towards its start
		b = a.Add(b.Sub(a) / 2).Truncate(time.Hour)
		views = pilosa.VerifC28ViewsByTimeRange(a, b, q)
	}
	var sfx []string
	for _, v := range views {
		sfx = append(sfx, strings.TrimPrefix(v, "standard_"))
	}
	vs := "-"
	if len(sfx) > 0 {
		vs = strings.Join(sfx, ",")
	}
	return fmt.Sprintf("q trange %d %s %s %s", rows[r.Intn(len(rows))], a.Format("2006010215"), b.Format("2006010215"), vs)
}

// ------------------------------------------------------------------ execution

func errClass(err error) string {
	m := err.Error()
	for _, k := range []string{"too low", "too high", "not found", "bool field imports", "only supported for set and time", "clear is not supported",
		"time quantum not set", "unknown roaring magic", "no data to import", "string 'col'", "string 'row'", "must be a string"} {
		if strings.Contains(m, k) {
			return "err:" + strings.ReplaceAll(k, " ", "-")
		}
	}
	m = strings.Map(func(c rune) rune {
		if c == ' ' || c == '\t' || c == '\n' {
			return '_'
		}
		return c
	}, m)
	if len(m) > 60 {
		m = m[:60]
	}
	return "err:other:" + m
}

func (p *prop) Exec(lines []string) (outs []string) {
	if p.s != nil && p.nCases >= 120 {
		p.s.Stop() // bound the growth of the translate file and of the holder
		p.s, p.nCases = nil, 0
	}
	if p.s == nil {
		p.s = startServer()
	}
	p.nCases++
	p.ftype, p.opt, p.lanes, p.views = "", nil, nil, map[string]bool{}
	defer p.dropLanes()
	outs = make([]string, len(lines))
	for i, l := range lines {
		l := l
		outs[i] = guard(func() string { return p.execLine(l) })
	}
	return outs
}

// guard maps a panic of the real code to "panic:<first frame in pilosa>" (and logs it once).
func guard(f func() string) (out string) {
	defer func() {
		if e := recover(); e != nil {
			site := "unknown"
			for _, ln := range strings.Split(string(debug.Stack()), "\n") {
				if strings.HasPrefix(ln, "github.com/pilosa/pilosa") && !strings.Contains(ln, "verif") {
					site = strings.TrimPrefix(ln, "github.com/pilosa/pilosa")
					if j := strings.IndexByte(site, '('); j > 0 && !strings.HasPrefix(site, ".(") {
						site = site[:j]
					}
					if j := strings.LastIndexByte(site, '('); j > 0 {
						site = site[:j]
					}
					break
				}
			}
			if os.Getenv("C28_DEBUG") != "" {
				fmt.Fprintf(os.Stderr, "panic: %v\n%s\n", e, debug.Stack())
			}
			out = "panic:" + strings.ReplaceAll(site, " ", "")
		}
	}()
	return f()
}

// startServer is srv.Start with a translate map large enough for the keyed lanes of many cases
// (srv's 140000-byte map overflows after a few thousand keys).
func startServer() *srv.Server {
	dir, err := os.MkdirTemp("", "verif-c28-")
	if err != nil {
		panic(err)
	}
	m := server.NewCommand(bytes.NewReader(nil), io.Discard, io.Discard, server.OptCommandCloseTimeout(2*time.Millisecond))
	m.Config.DataDir = dir
	m.Config.Bind = "http://localhost:0"
	m.Config.Cluster.Disabled = true
	m.Config.Translation.MapSize = 1 << 26
	m.Config.WorkerPoolSize = 2
	m.Config.Metric.Diagnostics = false
	if err := m.Start(); err != nil {
		panic(err)
	}
	return &srv.Server{Command: m, Dir: dir}
}

func (p *prop) dropLanes() {
	defer func() { _ = recover() }()
	for _, ln := range p.lanes {
		_ = p.s.API.DeleteIndex(context.Background(), ln.index)
	}
	p.lanes = nil
}

func (p *prop) execLine(l string) string {
	ws := strings.Fields(l)
	if len(ws) == 0 {
		return "bad-op"
	}
	switch ws[0] {
	case "field":
		return p.execField(ws[1:])
	case "w":
		if p.ftype == "" || len(ws) < 4 {
			return "bad-op"
		}
		return p.execWrite(ws[1], ws[2], ws[3:])
	case "q":
		if p.ftype == "" || len(ws) < 2 {
			return "bad-op"
		}
		return p.execQuery(ws[1], ws[2:])
	}
	return "bad-op"
}

func (p *prop) execField(ws []string) string {
	if len(ws) < 1 || p.ftype != "" {
		return "bad-op"
	}
	ft := ws[0]
	opt := map[string]string{}
	for _, kv := range ws[1:] {
		j := strings.IndexByte(kv, '=')
		if j < 0 {
			return "bad-op"
		}
		opt[kv[:j]] = kv[j+1:]
	}
	lanes := opt["lanes"]
	if lanes == "" || len(lanes) > 8 {
		return "bad-op"
	}
	mk := func(keyed bool) ([]pilosa.FieldOption, bool) {
		var fo []pilosa.FieldOption
		switch ft {
		case "set", "mutex":
			cs, err := strconv.Atoi(opt["csize"])
			ct := opt["cache"]
			if err != nil || (ct != "ranked" && ct != "lru") || cs <= 0 {
				return nil, false
			}
			if ft == "set" {
				fo = append(fo, pilosa.OptFieldTypeSet(ct, uint32(cs)))
			} else {
				fo = append(fo, pilosa.OptFieldTypeMutex(ct, uint32(cs)))
			}
		case "bool":
			fo = append(fo, pilosa.OptFieldTypeBool())
		case "time":
			q := opt["q"]
			if !pilosa.TimeQuantum(q).Valid() || q == "" {
				return nil, false
			}
			fo = append(fo, pilosa.OptFieldTypeTime(pilosa.TimeQuantum(q), opt["nostd"] == "1"))
		case "int":
			mn, e1 := strconv.ParseInt(opt["min"], 10, 64)
			mx, e2 := strconv.ParseInt(opt["max"], 10, 64)
			if e1 != nil || e2 != nil || mn > mx {
				return nil, false
			}
			fo = append(fo, pilosa.OptFieldTypeInt(mn, mx))
		default:
			return nil, false
		}
		if keyed && ft != "bool" && ft != "int" {
			fo = append(fo, pilosa.OptFieldKeys())
		}
		return fo, true
	}
	ctx := context.Background()
	for i, c := range lanes {
		if c != 'u' && c != 'k' {
			return "bad-op"
		}
		keyed := c == 'k'
		fo, ok := mk(keyed)
		if !ok {
			return "bad-op"
		}
		p.seq++
		name := fmt.Sprintf("x%dl%d", p.seq, i)
		// exist=1: the index tracks existence (API.Import/ImportValue then write the existence field
		// first, from the same request slices). Not()/existence answers are still not compared.
		if _, err := p.s.API.CreateIndex(ctx, name, pilosa.IndexOptions{Keys: keyed, TrackExistence: opt["exist"] == "1"}); err != nil {
			return "err:create-index"
		}
		p.lanes = append(p.lanes, lane{keyed: keyed, index: name})
		if _, err := p.s.API.CreateField(ctx, name, "f", fo...); err != nil {
			return "err:create-field"
		}
	}
	p.ftype, p.opt = ft, opt
	vh.Count("field:" + ft)
	return "ok"
}

// ---- writes

func boolLit(row uint64) string {
	if row == 1 {
		return "true"
	}
	return "false"
}

func expand(items []item) []item {
	var out []item
	for _, it := range items {
		for c := it.col; c <= it.colEnd; c++ {
			x := it
			x.col, x.colEnd = c, c
			out = append(out, x)
		}
	}
	return out
}

func (p *prop) execWrite(paths, op string, toks []string) string {
	ps := strings.Split(paths, ",")
	if len(ps) != len(p.lanes) {
		return "bad-op"
	}
	if op != "set" && op != "clear" && !(op == "clearstd" && p.ftype == "time") {
		return "bad-op"
	}
	items, ok := parseItems(p.ftype, toks)
	if !ok || len(items) == 0 {
		return "bad-op"
	}
	if p.ftype == "bool" {
		for _, it := range items {
			if it.row > 1 {
				return "bad-op"
			}
		}
	}
	for _, it := range items {
		if it.ts != "" && (p.ftype != "time" || op != "set") {
			return "bad-op"
		}
		if it.row >= 4096 {
			return "bad-op" // official roaring positions are 32 bit
		}
	}
	for i, path := range ps {
		if !p.pathAllowed(path, op) {
			return "bad-op"
		}
		if (path == "Q" || path == "k" || path == "V") != p.lanes[i].keyed {
			return "bad-op"
		}
	}
	if p.ftype == "int" {
		mn, _ := strconv.ParseInt(p.opt["min"], 10, 64)
		mx, _ := strconv.ParseInt(p.opt["max"], 10, 64)
		for _, it := range items {
			if it.val < mn || it.val > mx {
				return "bad-op"
			}
		}
	}
	// views this write touches (same for every lane)
	if p.ftype == "time" && op == "set" {
		for _, it := range items {
			if p.opt["nostd"] != "1" {
				p.views[""] = true
			}
			if it.ts != "" {
				for _, s := range viewSuffixes(it.ts, p.opt["q"]) {
					p.views[s] = true
				}
			}
		}
	}
	for i, path := range ps {
		if e := p.writeLane(p.lanes[i], path, op, items); e != "" {
			return fmt.Sprintf("%s:lane%d:%s", e, i, path)
		}
		vh.Count("path:" + p.ftype + ":" + op + ":" + path)
	}
	return "ok"
}

func (p *prop) pathAllowed(path, op string) bool {
	switch p.ftype {
	case "int":
		if op == "set" {
			return strings.Contains("qQvV", path) && len(path) == 1
		}
		return path == "v" || path == "V"
	case "set":
		return len(path) == 1 && strings.Contains("qQikpo", path)
	case "time":
		switch op {
		case "set":
			return len(path) == 1 && strings.Contains("qQikpo", path)
		case "clear":
			return len(path) == 1 && strings.Contains("qQpo", path)
		default:
			return len(path) == 1 && strings.Contains("ikpo", path)
		}
	}
	return len(path) == 1 && strings.Contains("qQik", path)
}

func sameU(a, b []uint64) bool {
	if len(a) != len(b) {
		return false
	}
	for i := range a {
		if a[i] != b[i] {
			return false
		}
	}
	return true
}

func sameI(a, b []int64) bool {
	if len(a) != len(b) {
		return false
	}
	for i := range a {
		if a[i] != b[i] {
			return false
		}
	}
	return true
}

func sameS(a, b []string) bool {
	if len(a) != len(b) {
		return false
	}
	for i := range a {
		if a[i] != b[i] {
			return false
		}
	}
	return true
}

// mutated is the answer of a path that rewrote the slices of the request it was handed: a client
// (or the next path fed from the same request) would see different data than it sent.
const mutated = "err:input-mutated"

func (p *prop) writeLane(ln lane, path, op string, items []item) string {
	ctx := context.Background()
	api := p.s.API
	keyedPath := path == "Q" || path == "k" || path == "V"
	if keyedPath != ln.keyed {
		return "err:lane-kind"
	}
	clear := op != "set"
	switch path {
	case "q", "Q":
		var calls []string
		for _, it := range expand(items) {
			colS := strconv.FormatUint(it.col, 10)
			if ln.keyed {
				colS = fmt.Sprintf("%q", fmt.Sprintf("c%d", it.col))
			}
			var rowS string
			switch {
			case p.ftype == "int":
				rowS = strconv.FormatInt(it.val, 10)
			case p.ftype == "bool":
				rowS = boolLit(it.row)
			case ln.keyed:
				rowS = fmt.Sprintf("%q", fmt.Sprintf("r%d", it.row))
			default:
				rowS = strconv.FormatUint(it.row, 10)
			}
			switch {
			case clear:
				calls = append(calls, fmt.Sprintf("Clear(%s, f=%s)", colS, rowS))
			case it.ts != "":
				calls = append(calls, fmt.Sprintf("Set(%s, f=%s, %s)", colS, rowS, tsPQL(it.ts)))
			default:
				calls = append(calls, fmt.Sprintf("Set(%s, f=%s)", colS, rowS))
			}
		}
		for len(calls) > 0 {
			n := len(calls)
			if n > 500 {
				n = 500
			}
			if _, err := p.s.Query(ln.index, strings.Join(calls[:n], "\n"), nil); err != nil {
				return errClass(err)
			}
			calls = calls[n:]
		}
		return ""
	case "i":
		xs := expand(items)
		// one request per shard, batch order preserved inside a shard
		var shards []uint64
		by := map[uint64][]item{}
		for _, it := range xs {
			sh := it.col / sw
			if _, ok := by[sh]; !ok {
				shards = append(shards, sh)
			}
			by[sh] = append(by[sh], it)
		}
		for _, sh := range shards {
			req := &pilosa.ImportRequest{Index: ln.index, Field: "f", Shard: sh}
			hasTS := false
			for _, it := range by[sh] {
				req.RowIDs = append(req.RowIDs, it.row)
				req.ColumnIDs = append(req.ColumnIDs, it.col)
				var ts int64
				if it.ts != "" {
					ts = tsTime(it.ts).UnixNano()
					hasTS = true
				}
				req.Timestamps = append(req.Timestamps, ts)
			}
			if !hasTS {
				req.Timestamps = nil
			}
			r0, c0, t0 := append([]uint64(nil), req.RowIDs...), append([]uint64(nil), req.ColumnIDs...), append([]int64(nil), req.Timestamps...)
			rs, cs, ts := req.RowIDs, req.ColumnIDs, req.Timestamps
			if err := api.Import(ctx, req, pilosa.OptImportOptionsClear(clear)); err != nil {
				return errClass(err)
			}
			if !sameU(rs, r0) || !sameU(cs, c0) || !sameI(ts, t0) {
				return mutated
			}
		}
		return ""
	case "k":
		xs := expand(items)
		req := &pilosa.ImportRequest{Index: ln.index, Field: "f", Shard: 0}
		hasTS := false
		for _, it := range xs {
			if p.ftype == "bool" {
				req.RowIDs = append(req.RowIDs, it.row)
			} else {
				req.RowKeys = append(req.RowKeys, fmt.Sprintf("r%d", it.row))
			}
			req.ColumnKeys = append(req.ColumnKeys, fmt.Sprintf("c%d", it.col))
			var ts int64
			if it.ts != "" {
				ts = tsTime(it.ts).UnixNano()
				hasTS = true
			}
			req.Timestamps = append(req.Timestamps, ts)
		}
		if !hasTS {
			req.Timestamps = nil
		}
		rk0, ck0, r0 := append([]string(nil), req.RowKeys...), append([]string(nil), req.ColumnKeys...), append([]uint64(nil), req.RowIDs...)
		rks, cks, rs := req.RowKeys, req.ColumnKeys, req.RowIDs
		if err := api.Import(ctx, req, pilosa.OptImportOptionsClear(clear)); err != nil {
			return errClass(err)
		}
		if !sameS(rks, rk0) || !sameS(cks, ck0) || (p.ftype == "bool" && !sameU(rs, r0)) {
			return mutated
		}
		return ""
	case "p", "o":
		// positions per shard per view
		type key struct {
			shard uint64
			view  string
		}
		m := map[key]map[uint64]bool{}
		add := func(sh uint64, view string, pos uint64) {
			k := key{sh, view}
			if m[k] == nil {
				m[k] = map[uint64]bool{}
			}
			m[k][pos] = true
		}
		var allViews []string
		for v := range p.views {
			allViews = append(allViews, v)
		}
		for _, it := range expand(items) {
			sh := it.col / sw
			pos := it.row*sw + it.col%sw
			switch {
			case p.ftype == "set" || op == "clearstd":
				add(sh, "", pos)
			case op == "clear": // every view written so far
				for _, v := range allViews {
					add(sh, v, pos)
				}
			default: // time set
				if p.opt["nostd"] != "1" {
					add(sh, "", pos)
				}
				if it.ts != "" {
					for _, v := range viewSuffixes(it.ts, p.opt["q"]) {
						add(sh, v, pos)
					}
				}
			}
		}
		reqs := map[uint64]*pilosa.ImportRoaringRequest{}
		var shards []uint64
		for k, set := range m {
			pos := make([]uint64, 0, len(set))
			for x := range set {
				pos = append(pos, x)
			}
			sort.Slice(pos, func(i, j int) bool { return pos[i] < pos[j] })
			if reqs[k.shard] == nil {
				reqs[k.shard] = &pilosa.ImportRoaringRequest{Clear: clear, Views: map[string][]byte{}}
				shards = append(shards, k.shard)
			}
			// encoding variant derived from the data so that replays are deterministic
			variant := (len(pos) + int(pos[0]%7)) % 2
			if path == "p" {
				reqs[k.shard].Views[k.view] = encodePilosa(pos, variant == 1)
				vh.Count(fmt.Sprintf("enc:pilosa:opt%d", variant))
			} else {
				reqs[k.shard].Views[k.view] = encodeOfficial(pos, variant == 1)
				vh.Count(fmt.Sprintf("enc:official:runs%d", variant))
			}
		}
		sort.Slice(shards, func(i, j int) bool { return shards[i] < shards[j] })
		for _, sh := range shards {
			before := map[string][]byte{}
			for v, b := range reqs[sh].Views {
				before[v] = append([]byte(nil), b...)
			}
			if err := api.ImportRoaring(ctx, ln.index, "f", sh, false, reqs[sh]); err != nil {
				return errClass(err)
			}
			for v, b := range reqs[sh].Views {
				if !bytes.Equal(b, before[v]) {
					return mutated
				}
			}
		}
		return ""
	case "v":
		var shards []uint64
		by := map[uint64][]item{}
		for _, it := range items {
			sh := it.col / sw
			if _, ok := by[sh]; !ok {
				shards = append(shards, sh)
			}
			by[sh] = append(by[sh], it)
		}
		for _, sh := range shards {
			req := &pilosa.ImportValueRequest{Index: ln.index, Field: "f", Shard: sh}
			for _, it := range by[sh] {
				req.ColumnIDs = append(req.ColumnIDs, it.col)
				req.Values = append(req.Values, it.val)
			}
			c0, v0 := append([]uint64(nil), req.ColumnIDs...), append([]int64(nil), req.Values...)
			cs, vs := req.ColumnIDs, req.Values
			if err := api.ImportValue(ctx, req, pilosa.OptImportOptionsClear(clear)); err != nil {
				return errClass(err)
			}
			if !sameU(cs, c0) || !sameI(vs, v0) {
				return mutated
			}
		}
		return ""
	case "V":
		req := &pilosa.ImportValueRequest{Index: ln.index, Field: "f", Shard: 0}
		for _, it := range items {
			req.ColumnKeys = append(req.ColumnKeys, fmt.Sprintf("c%d", it.col))
			req.Values = append(req.Values, it.val)
		}
		ck0, v0 := append([]string(nil), req.ColumnKeys...), append([]int64(nil), req.Values...)
		cks, vs := req.ColumnKeys, req.Values
		if err := api.ImportValue(ctx, req, pilosa.OptImportOptionsClear(clear)); err != nil {
			return errClass(err)
		}
		if !sameS(cks, ck0) || !sameI(vs, v0) {
			return mutated
		}
		return ""
	}
	return "err:badpath"
}

// ---- queries

func parseKeyNum(k string, prefix byte) (uint64, bool) {
	if len(k) < 2 || k[0] != prefix {
		return 0, false
	}
	v, err := strconv.ParseUint(k[1:], 10, 64)
	return v, err == nil
}

func (p *prop) rowLit(ln lane, row uint64) string {
	switch {
	case p.ftype == "bool":
		return boolLit(row)
	case ln.keyed:
		return fmt.Sprintf("%q", fmt.Sprintf("r%d", row))
	}
	return strconv.FormatUint(row, 10)
}

func (p *prop) colsOf(ln lane, res interface{}) (string, bool) {
	row, ok := res.(*pilosa.Row)
	if !ok {
		return "", false
	}
	var cols []uint64
	if ln.keyed {
		for _, k := range row.Keys {
			c, ok := parseKeyNum(k, 'c')
			if !ok {
				return "err:bad-key:" + k, true
			}
			cols = append(cols, c)
		}
	} else {
		cols = row.Columns()
	}
	return vh.U64s(vh.SortedU64(cols)), true
}

func (p *prop) pairsOf(ln lane, res interface{}) ([]pilosa.Pair, bool) {
	ps, ok := res.([]pilosa.Pair)
	if !ok {
		return nil, false
	}
	out := make([]pilosa.Pair, 0, len(ps))
	for _, x := range ps {
		if ln.keyed {
			r, ok := parseKeyNum(x.Key, 'r')
			if !ok {
				return nil, false
			}
			x = pilosa.Pair{ID: r, Count: x.Count}
		}
		out = append(out, x)
	}
	return out, true
}

func (p *prop) ask(ln lane, kind string, args []string) string {
	q1 := func(pql string) (interface{}, string) {
		res, err := p.s.Query(ln.index, pql, nil)
		if err != nil {
			return nil, errClass(err)
		}
		if len(res) != 1 {
			return nil, "err:result-count"
		}
		return res[0], ""
	}
	u := func(s string) (uint64, bool) {
		v, err := strconv.ParseUint(s, 10, 64)
		return v, err == nil
	}
	switch kind {
	case "row", "count":
		if len(args) != 1 {
			return "bad-op"
		}
		r, ok := u(args[0])
		if !ok {
			return "bad-op"
		}
		if kind == "row" {
			res, e := q1(fmt.Sprintf("Row(f=%s)", p.rowLit(ln, r)))
			if e != "" {
				return e
			}
			s, ok := p.colsOf(ln, res)
			if !ok {
				return "err:result-type"
			}
			return s
		}
		res, e := q1(fmt.Sprintf("Count(Row(f=%s))", p.rowLit(ln, r)))
		if e != "" {
			return e
		}
		n, ok := res.(uint64)
		if !ok {
			return "err:result-type"
		}
		return strconv.FormatUint(n, 10)
	case "rows":
		res, e := q1("Rows(field=f)")
		if e != "" {
			return e
		}
		ri, ok := res.(pilosa.RowIdentifiers)
		if !ok {
			return "err:result-type"
		}
		rows := ri.Rows
		if ln.keyed && p.ftype != "bool" {
			rows = nil
			for _, k := range ri.Keys {
				r, ok := parseKeyNum(k, 'r')
				if !ok {
					return "err:bad-key:" + k
				}
				rows = append(rows, r)
			}
		}
		return vh.U64s(vh.SortedU64(rows))
	case "topn", "topnids", "topk":
		if err := p.s.API.RecalculateCaches(context.Background()); err != nil {
			return "err:recalculate"
		}
		pql := "TopN(f)"
		switch kind {
		case "topnids":
			if len(args) != 1 {
				return "bad-op"
			}
			ss := strings.Split(args[0], ",")
			for _, x := range ss {
				if _, err := strconv.ParseUint(x, 10, 64); err != nil {
					return "bad-op"
				}
			}
			pql = "TopN(f, ids=[" + strings.Join(ss, ",") + "])"
		case "topk":
			if len(args) != 1 {
				return "bad-op"
			}
			k, ok := u(args[0])
			if !ok || k == 0 {
				return "bad-op"
			}
			pql = fmt.Sprintf("TopN(f, n=%d)", k)
		}
		res, e := q1(pql)
		if e != "" {
			return e
		}
		ps, ok := p.pairsOf(ln, res)
		if !ok {
			return "err:result-type"
		}
		if kind == "topk" {
			cs := make([]uint64, len(ps))
			for i, x := range ps {
				cs[i] = x.Count
			}
			sort.Slice(cs, func(i, j int) bool { return cs[i] > cs[j] })
			return vh.U64s(cs)
		}
		sort.Slice(ps, func(i, j int) bool { return ps[i].ID < ps[j].ID })
		ss := make([]string, len(ps))
		for i, x := range ps {
			ss[i] = fmt.Sprintf("%d:%d", x.ID, x.Count)
		}
		return "[" + strings.Join(ss, " ") + "]"
	case "trange":
		if len(args) != 4 || len(args[1]) != 10 || len(args[2]) != 10 {
			return "bad-op"
		}
		r, ok := u(args[0])
		if !ok {
			return "bad-op"
		}
		res, e := q1(fmt.Sprintf("Row(f=%s, from='%s', to='%s')", p.rowLit(ln, r), tsPQL(args[1]), tsPQL(args[2])))
		if e != "" {
			return e
		}
		s, ok := p.colsOf(ln, res)
		if !ok {
			return "err:result-type"
		}
		return s
	case "val":
		if len(args) != 1 {
			return "bad-op"
		}
		c, ok := u(args[0])
		if !ok {
			return "bad-op"
		}
		f := p.s.Server.Holder().Field(ln.index, "f")
		if f == nil {
			return "err:not-found"
		}
		v, exists, err := f.Value(c)
		if err != nil {
			return errClass(err)
		}
		if !exists {
			return "null"
		}
		return strconv.FormatInt(v, 10)
	case "cmp", "between", "notnull":
		var pql string
		switch kind {
		case "cmp":
			if len(args) != 2 {
				return "bad-op"
			}
			op := map[string]string{"lt": "<", "le": "<=", "gt": ">", "ge": ">=", "eq": "==", "ne": "!="}[args[0]]
			if _, err := strconv.ParseInt(args[1], 10, 64); err != nil || op == "" {
				return "bad-op"
			}
			pql = fmt.Sprintf("Row(f %s %s)", op, args[1])
		case "between":
			if len(args) != 2 {
				return "bad-op"
			}
			_, e1 := strconv.ParseInt(args[0], 10, 64)
			_, e2 := strconv.ParseInt(args[1], 10, 64)
			if e1 != nil || e2 != nil {
				return "bad-op"
			}
			pql = fmt.Sprintf("Row(f >< [%s,%s])", args[0], args[1])
		default:
			pql = "Row(f != null)"
		}
		res, e := q1(pql)
		if e != "" {
			return e
		}
		s, ok := p.colsOf(ln, res)
		if !ok {
			return "err:result-type"
		}
		return s
	case "sum", "min", "max":
		name := map[string]string{"sum": "Sum", "min": "Min", "max": "Max"}[kind]
		res, e := q1(name + "(field=f)")
		if e != "" {
			return e
		}
		vc, ok := res.(pilosa.ValCount)
		if !ok {
			return "err:result-type"
		}
		return fmt.Sprintf("%d:%d", vc.Val, vc.Count)
	}
	return "bad-op"
}

func (p *prop) execQuery(kind string, args []string) string {
	bitKinds := map[string]bool{"row": true, "count": true, "rows": true, "topn": true, "topnids": true, "topk": true, "trange": true}
	intKinds := map[string]bool{"val": true, "cmp": true, "between": true, "notnull": true, "sum": true, "min": true, "max": true}
	if (p.ftype == "int") != intKinds[kind] || (p.ftype != "int" && !bitKinds[kind]) {
		return "bad-op"
	}
	if kind == "trange" && p.ftype != "time" {
		return "bad-op"
	}
	if (kind == "topn" || kind == "topnids" || kind == "topk") && p.ftype != "set" && p.ftype != "mutex" {
		return "bad-op"
	}
	var answers []string
	var labels []string
	for i, ln := range p.lanes {
		if ln.keyed && (kind == "topnids" || kind == "val") {
			continue // ids of a keyed lane are an internal detail of its translate store
		}
		a := p.ask(ln, kind, args)
		if a == "bad-op" {
			return a
		}
		answers = append(answers, a)
		labels = append(labels, fmt.Sprintf("lane%d", i))
	}
	same := true
	for _, a := range answers[1:] {
		if a != answers[0] {
			same = false
		}
	}
	vh.Count("q:" + kind)
	if same {
		return answers[0]
	}
	vh.Count("DIFF:" + p.ftype + ":" + kind)
	var parts []string
	for i := range answers {
		parts = append(parts, labels[i]+"="+strings.ReplaceAll(answers[i], " ", ","))
	}
	return "DIFF " + strings.Join(parts, " ")
}

func main() {
	p := &prop{}
	defer func() {
		if p.s != nil {
			p.s.Stop()
		}
	}()
	vh.Main(p)
}
