// Harness for C06: malformed external input is rejected without crashing or hanging, and a
// rejected request leaves stored data unchanged.
//
// Line formats and answers: lean/PV/C06/Main.lean.  Every line is executed in a CHILD PROCESS
// (this binary started with --child; it answers one line per input line on a pipe): a crash of
// the child (unrecovered panic in a worker goroutine, fatal fault) is the observation
// `crash:<last words>`, no answer within the per-line timeout is `hang`; the child is then
// replaced and the run goes on.  Inside the child the roaring entry points get buffers with
// cap == len that end at an inaccessible page (codec.Guard) and runtime/debug.SetPanicOnFault is
// on, so an out-of-bounds read is a panic, which is recovered and reported as `panic:<what>`.
package main

import (
	"bufio"
	"bytes"
	"context"
	"encoding/binary"
	"fmt"
	"hash/fnv"
	"io"
	"os"
	"os/exec"
	"runtime/debug"
	"strconv"
	"strings"
	"sync"
	"time"

	"github.com/pilosa/pilosa"
	"github.com/pilosa/pilosa/encoding/proto"
	"github.com/pilosa/pilosa/pql"
	"github.com/pilosa/pilosa/roaring"
	"verifharness/cmd/c04/codec"
	"verifharness/vh"
	"verifharness/vh/srv"
)

const lineTimeout = 30 * time.Second

// ------------------------------------------------------------------ parent side

type child struct {
	cmd    *exec.Cmd
	in     io.WriteCloser
	out    *bufio.Reader
	errBuf *tailBuf
}

type tailBuf struct {
	mu sync.Mutex
	b  []byte
}

func (t *tailBuf) Write(p []byte) (int, error) {
	t.mu.Lock()
	defer t.mu.Unlock()
	t.b = append(t.b, p...)
	if len(t.b) > 8192 {
		t.b = t.b[len(t.b)-8192:]
	}
	return len(p), nil
}

// lastWords extracts the panic / fatal line of a dead child's stderr.
func (t *tailBuf) lastWords() string {
	t.mu.Lock()
	defer t.mu.Unlock()
	for _, l := range strings.Split(string(t.b), "\n") {
		if strings.HasPrefix(l, "panic:") || strings.HasPrefix(l, "fatal error:") || strings.HasPrefix(l, "unexpected fault") {
			return sanitize(l)
		}
	}
	return "no-message"
}

func sanitize(s string) string {
	s = strings.Map(func(r rune) rune {
		if r == ' ' || r == '\t' || r == '\n' || r == '\r' {
			return '_'
		}
		return r
	}, s)
	if len(s) > 100 {
		s = s[:100]
	}
	return s
}

func startChild() *child {
	c := &child{errBuf: &tailBuf{}}
	c.cmd = exec.Command(os.Args[0], "--child")
	c.cmd.Stderr = c.errBuf
	in, _ := c.cmd.StdinPipe()
	out, _ := c.cmd.StdoutPipe()
	c.in, c.out = in, bufio.NewReaderSize(out, 1<<20)
	if err := c.cmd.Start(); err != nil {
		panic(err)
	}
	return c
}

func (c *child) kill() {
	_ = c.in.Close()
	_ = c.cmd.Process.Kill()
	_, _ = c.cmd.Process.Wait()
}

type prop struct{ c *child }

// ask sends one line to the child and waits for its answer.
func (p *prop) ask(line string) string {
	if p.c == nil {
		p.c = startChild()
	}
	c := p.c
	type res struct {
		s   string
		err error
	}
	ch := make(chan res, 1)
	go func() {
		if _, err := io.WriteString(c.in, line+"\n"); err != nil {
			ch <- res{"", err}
			return
		}
		s, err := c.out.ReadString('\n')
		ch <- res{strings.TrimRight(s, "\n"), err}
	}()
	select {
	case r := <-ch:
		if r.err != nil {
			// the child died while (or before) answering
			_, _ = c.cmd.Process.Wait()
			msg := c.errBuf.lastWords()
			c.kill()
			p.c = nil
			vh.Count("child-crash")
			return "crash:" + msg
		}
		return r.s
	case <-time.After(lineTimeout):
		c.kill()
		p.c = nil
		vh.Count("child-hang")
		return "hang"
	}
}

func (p *prop) Exec(lines []string) []string {
	outs := make([]string, len(lines))
	for i, l := range lines {
		outs[i] = p.ask(l)
		// outcome classes per entry point, for the evidence
		op, cls := l, outs[i]
		if j := strings.IndexByte(op, ' '); j >= 0 {
			op = op[:j]
		}
		if j := strings.IndexAny(cls, " ["); j >= 0 {
			cls = cls[:j]
		}
		if strings.HasPrefix(outs[i], "[") {
			cls = "items"
			if j := strings.LastIndex(outs[i], "end="); j >= 0 {
				cls = "items-" + outs[i][j:]
			}
		}
		if strings.HasPrefix(cls, "panic:") || strings.HasPrefix(cls, "crash:") {
			cls = cls[:5]
		}
		if outs[i] == "ok illformed" {
			cls = "ok-illformed"
		}
		vh.Count(op + ":" + cls)
	}
	return outs
}

func (p *prop) Rule() string {
	return "malformed-input stream: valid encodings (Pilosa WriteTo / writeToUnoptimized with and without an op log of value and roaring ops; official format in the three " +
		"reference-encoder modes) of small container mixes, then one or two mutations: truncation at a random (thorough: every) offset, single-byte corruption biased to the " +
		"header, 32-bit overwrite with huge / boundary counts and offsets, wrong container types, appended bytes; fed to UnmarshalBinary (ub), the import iterators (iter), " +
		"ImportRoaringBits into a non-empty target (imp) and the import worker of an in-process server (iw). Cluster messages: every message type marshalled by the real " +
		"serializer naming existing / missing indexes and fields (cm), plus empty, one-byte, unknown-type, truncated and random bodies (cmraw); PQL: valid queries mutated, " +
		"random and non-UTF8 text (pql); QueryResponse bytes with every result kind, unknown kinds and empty pair lists (qr). Every line runs in a child process with a timeout. " +
		"A case is non-trivial when its input is not accepted verbatim (mutated or structurally invalid) or exercises a guard (missing index/field, short payload)"
}

// ------------------------------------------------------------------ generation

func genValues(r *vh.Rng) []uint16 {
	set := map[int]bool{}
	switch r.Intn(8) {
	case 0:
		for i, n := 0, r.Pick(1, 2, 5, 6); i < n; i++ {
			set[r.Pick(0, 1, 65535, r.Intn(65536), r.Intn(100))] = true
		}
	case 1:
		for i, n := 0, r.Pick(1, 2, 3, 4); i < n; i++ {
			s := r.Intn(65000)
			for j, m := 0, r.Pick(1, 2, 3, 20); j < m; j++ {
				set[s+j] = true
			}
		}
	case 2:
		for v := 0; v < 65536; v++ {
			set[v] = true
		}
	case 3:
		for i, n := 0, r.Pick(4096, 5000); i < n; i++ {
			set[i*r.Pick(3, 13)%65536] = true
		}
	default:
		for i, n := 0, r.Range(1, 12); i < n; i++ {
			set[r.Intn(65536)] = true
		}
	}
	out := make([]int, 0, len(set))
	for v := range set {
		out = append(out, v)
	}
	sortInts(out)
	u := make([]uint16, len(out))
	for i, v := range out {
		u[i] = uint16(v)
	}
	return u
}

func sortInts(a []int) {
	for i := 1; i < len(a); i++ { // shell-ish insertion sort is fine for the small lists; large ones use the std sort below
		if len(a) > 64 {
			break
		}
		for j := i; j > 0 && a[j-1] > a[j]; j-- {
			a[j-1], a[j] = a[j], a[j-1]
		}
	}
	if len(a) > 64 {
		quick(a, 0, len(a)-1)
	}
}
func quick(a []int, lo, hi int) {
	for lo < hi {
		p := a[(lo+hi)/2]
		i, j := lo, hi
		for i <= j {
			for a[i] < p {
				i++
			}
			for a[j] > p {
				j--
			}
			if i <= j {
				a[i], a[j] = a[j], a[i]
				i++
				j--
			}
		}
		if j-lo < hi-i {
			quick(a, lo, j)
			lo = i
		} else {
			quick(a, i, hi)
			hi = j
		}
	}
}

func genEntries(r *vh.Rng, keys []uint64, nk int) []codec.Entry {
	if nk > len(keys) {
		nk = len(keys)
	}
	idx := r.Perm(len(keys))[:nk]
	sortInts(idx)
	var es []codec.Entry
	for _, i := range idx {
		es = append(es, codec.Entry{Key: keys[i], Typ: "abr"[r.Intn(3)], Vals: genValues(r)})
	}
	return es
}

func specOf(es []codec.Entry) string {
	if len(es) == 0 {
		return "-"
	}
	var ss []string
	for _, e := range es {
		vs := make([]uint64, len(e.Vals))
		for i, v := range e.Vals {
			vs[i] = uint64(v)
		}
		ss = append(ss, fmt.Sprintf("%d:%c:%s", e.Key, e.Typ, codec.ShowRanges(vs)))
	}
	return strings.Join(ss, ";")
}

// genEncoding produces a valid encoding (optionally with an op log for the Pilosa format).
func genEncoding(r *vh.Rng, keys []uint64, withOps bool) []byte {
	es := genEntries(r, keys, r.Pick(0, 1, 1, 2, 3, 4, 5))
	var buf bytes.Buffer
	switch r.Intn(5) {
	case 0, 1:
		b := codec.Build("s", byte(r.Pick(0, 1, 255)), es)
		if r.Bool() {
			_, _ = b.WriteTo(&buf)
		} else {
			_, _ = roaring.VerifC04WriteUnoptimized(b, &buf)
		}
		if withOps && r.Chance(1, 2) {
			// a real op log: the bitmap logs into buf what is done to it
			lb := roaring.NewBTreeBitmap()
			_ = lb.UnmarshalBinary(append([]byte(nil), buf.Bytes()...))
			lb.OpWriter = &buf
			for i, n := 0, r.Range(1, 4); i < n; i++ {
				switch r.Intn(5) {
				case 0:
					_, _ = lb.Add(uint64(r.Intn(1 << 18)))
				case 1:
					_, _ = lb.Remove(uint64(r.Intn(1 << 18)))
				case 2:
					_, _ = lb.AddN(uint64(r.Intn(1<<18)), uint64(r.Intn(1<<18)), 7)
				case 3:
					_, _ = lb.RemoveN(uint64(r.Intn(1<<18)), 7)
				case 4:
					var pb bytes.Buffer
					_, _ = codec.Build("s", 0, genEntries(r, keys, r.Pick(1, 2))).WriteTo(&pb)
					_, _, _ = lb.ImportRoaringBits(pb.Bytes(), r.Bool(), true, 0)
				}
			}
		}
		return buf.Bytes()
	default:
		var oes []codec.Entry
		for _, e := range es {
			if e.Key < 65536 {
				oes = append(oes, e)
			}
		}
		return codec.OfficialEncode(r.Intn(3), oes)
	}
}

func mutate(r *vh.Rng, b []byte) []byte {
	b = append([]byte(nil), b...)
	switch r.Intn(9) {
	case 8: // short read: the last few bytes are missing (length checks at the very end of a section)
		if n := r.Range(1, 16); len(b) > n {
			b = b[:len(b)-n]
		}
	case 0, 1:
		if len(b) > 0 {
			b = b[:r.Intn(len(b))]
		}
	case 2, 3:
		for i, n := 0, r.Pick(1, 1, 2, 3); i < n && len(b) > 0; i++ {
			p := r.Intn(len(b))
			if r.Bool() && len(b) > 40 {
				p = r.Intn(40)
			}
			b[p] = byte(r.Pick(0, 1, 2, 3, 4, 7, 0x7f, 0x80, 0xff, r.Intn(256)))
		}
	case 4:
		if len(b) >= 12 {
			p := r.Intn(len(b) - 3)
			if r.Bool() && len(b) > 44 {
				p = r.Intn(40)
			}
			v := []uint32{0xffffffff, 0x80000000, 0x7fffffff, 0x15555556, 0x10000000, uint32(len(b)), uint32(len(b) - 1), uint32(len(b) - 2), uint32(len(b) + 1), 65535, 65536}[r.Intn(11)]
			binary.LittleEndian.PutUint32(b[p:], v)
		}
	case 5:
		b = append(b, make([]byte, r.Pick(1, 2, 12, 13, 17, 40))...)
		if r.Bool() {
			for i := len(b) - 1; i >= 0 && i >= len(b)-13; i-- {
				b[i] = byte(r.Intn(256))
			}
		}
	case 6: // container type / cardinality fields of the first Pilosa header entry, or the official cookie
		if len(b) >= 20 {
			b[16+r.Intn(4)] = byte(r.Pick(0, 1, 2, 3, 4, 255))
		}
	case 7:
		if len(b) >= 8 {
			b[r.Intn(8)] = byte(r.Intn(256))
		}
	}
	return b
}

var pilosaKeys = []uint64{0, 1, 2, 3, 17, 63, 1 << 32}
var rowKeys = []uint64{0, 1, 15, 16, 17, 33, 48, 63}
var officialKeys = []uint64{0, 1, 2, 3, 5, 9, 65535}

var pqlSeeds = []string{
	"Row(f=1)", "Set(1, f=2)", "Count(Union(Row(f=1), Row(g=2)))", "TopN(f, n=5)", "Range(f > 5)", "Row(f=\"abc\")",
	"Set(\"col\", f=\"row\", 2017-01-02T03:04)", "Options(Row(f=1), shards=[0,1])", "GroupBy(Rows(field=f), limit=3)",
	"Clear(1, f=2)Not(Row(f=1))", "Row(f=1.5)", "SetRowAttrs(f, 1, a=\"b\", c=true, d=null)", "Row(-5 < f < 10)", "Store(Row(f=1), g=2)",
}

func genPQL(r *vh.Rng) []byte {
	switch r.Intn(5) {
	case 0:
		n := r.Range(0, 40)
		b := make([]byte, n)
		for i := range b {
			b[i] = byte(r.Intn(256))
		}
		return b
	case 1:
		s := []byte(pqlSeeds[r.Intn(len(pqlSeeds))])
		return mutate(r, s)
	case 2:
		s := pqlSeeds[r.Intn(len(pqlSeeds))]
		return []byte(strings.Repeat("Not(", r.Pick(1, 50, 2000)) + s + strings.Repeat(")", r.Pick(0, 1, 50, 2000)))
	case 3:
		s := pqlSeeds[r.Intn(len(pqlSeeds))]
		return []byte(strings.Replace(s, "f", r.PickS("é", "\xff\xfe", "f\x00", "ｆ", "\"", "'"), 1))
	default:
		return []byte(pqlSeeds[r.Intn(len(pqlSeeds))] + pqlSeeds[r.Intn(len(pqlSeeds))])
	}
}

// pbVarint / pbField build protobuf wire bytes by hand (the generated message package is internal to pilosa).
func pbVarint(b []byte, v uint64) []byte {
	for v >= 0x80 {
		b = append(b, byte(v)|0x80)
		v >>= 7
	}
	return append(b, byte(v))
}
func pbVar(b []byte, field int, v uint64) []byte { return pbVarint(pbVarint(b, uint64(field<<3)), v) }
func pbBytes(b []byte, field int, p []byte) []byte {
	b = pbVarint(b, uint64(field<<3|2))
	b = pbVarint(b, uint64(len(p)))
	return append(b, p...)
}

func genQR(r *vh.Rng) []byte {
	// QueryResponse{Err string = 1; Results []QueryResult = 2; ColumnAttrSets = 3}; QueryResult: see internal/public.proto
	var res []byte
	switch r.Intn(8) {
	case 0: // unknown kind
		res = pbVar(nil, 6, uint64(r.Pick(10, 11, 99, 1<<31)))
	case 1: // kind Pair (9) with no pairs
		res = pbVar(nil, 6, 9)
	case 2: // kind Pair with one pair
		res = pbBytes(pbVar(nil, 6, 9), 3, pbVar(pbVar(nil, 1, 5), 3, 7))
	case 3: // Row kind without row
		res = pbVar(nil, 6, 1)
	case 4: // ValCount kind without ValCount
		res = pbVar(nil, 6, 3)
	case 5: // RowIdentifiers kind without it
		res = pbVar(nil, 6, 8)
	case 6:
		res = pbVar(pbVar(nil, 6, uint64(r.Intn(10))), 2, uint64(r.Intn(100)))
	default:
		res = pbBytes(pbVar(nil, 6, uint64(r.Intn(10))), 1, pbBytes(nil, 1, []byte{1, 2, 3}))
	}
	b := pbBytes(nil, 2, res)
	if r.Chance(1, 3) {
		b = mutate(r, b)
	}
	return b
}

type cmSpec struct {
	msg    pilosa.Message
	ie, fe bool
}

func genCM(r *vh.Rng) (line string, nontrivial bool) {
	idx := r.PickS("i", "i", "nope")
	fld := r.PickS("f", "f", "nf")
	ie := idx == "i"
	fe := ie && fld == "f"
	var m pilosa.Message
	switch r.Intn(9) {
	case 0:
		m = &pilosa.CreateShardMessage{Index: idx, Field: fld, Shard: uint64(r.Intn(3))}
	case 1:
		m = &pilosa.CreateViewMessage{Index: idx, Field: fld, View: "standard"}
	case 2:
		m = &pilosa.DeleteViewMessage{Index: idx, Field: fld, View: "nosuchview"}
	case 3:
		m = &pilosa.DeleteFieldMessage{Index: idx, Field: "nf"} // never deletes f
		fld = "nf"
		fe = false
	case 4:
		m = &pilosa.DeleteAvailableShardMessage{Index: idx, Field: fld, ShardID: 99}
	case 5:
		m = &pilosa.CreateFieldMessage{Index: "nope", Field: "x", Meta: &pilosa.FieldOptions{Type: "set", CacheType: "none"}}
		ie, fe = false, false
	case 6:
		m = &pilosa.DeleteIndexMessage{Index: "nope"}
		ie, fe = false, false
	case 7:
		m = &pilosa.CreateIndexMessage{Index: "i", Meta: &pilosa.IndexOptions{}} // exists already: conflict error
		ie, fe = true, true
	case 8:
		m = &pilosa.RecalculateCaches{}
	}
	body, err := pilosa.MarshalInternalMessage(m, proto.Serializer{})
	if err != nil {
		panic(err)
	}
	b2i := func(b bool) int {
		if b {
			return 1
		}
		return 0
	}
	return fmt.Sprintf("cm %d 1 %d %d %s", body[0], b2i(ie), b2i(fe), codec.Hex(body)), !ie || !fe
}

func genCMRaw(r *vh.Rng) string {
	switch r.Intn(6) {
	case 0:
		return "cm - 1 1 1 -"
	case 1: // unknown type, arbitrary rest
		t := r.Pick(17, 18, 100, 200, 255)
		return fmt.Sprintf("cm %d 1 1 1 %s", t, codec.Hex(append([]byte{byte(t)}, byte(r.Intn(256)))))
	case 2: // one byte: known type, empty message
		t := r.Pick(0, 1, 2, 3, 4, 5, 6, 13, 16)
		if t == 13 { // RecalculateCaches with an empty body
			return fmt.Sprintf("cm 13 1 1 1 %s", codec.Hex([]byte{13}))
		}
		return fmt.Sprintf("cmraw %s", codec.Hex([]byte{byte(t)}))
	default:
		// a real message of any type, truncated / corrupted (only "does not panic or hang" is compared)
		ms := []pilosa.Message{
			&pilosa.CreateShardMessage{Index: "i", Field: "f", Shard: 1},
			&pilosa.CreateIndexMessage{Index: "j", Meta: &pilosa.IndexOptions{Keys: true}},
			&pilosa.CreateFieldMessage{Index: "i", Field: "g", Meta: &pilosa.FieldOptions{Type: "int", Min: -5, Max: 5}},
			&pilosa.DeleteFieldMessage{Index: "i", Field: "zz"},
			&pilosa.CreateViewMessage{Index: "i", Field: "f", View: "standard_2019"},
			&pilosa.NodeStateMessage{NodeID: "n0", State: "READY"},
			&pilosa.NodeEvent{Event: pilosa.NodeJoin, Node: &pilosa.Node{ID: "n9"}},
			&pilosa.SetCoordinatorMessage{New: &pilosa.Node{ID: "n9"}},
			&pilosa.UpdateCoordinatorMessage{New: &pilosa.Node{ID: "n9"}},
			&pilosa.ResizeInstructionComplete{JobID: 7, Node: &pilosa.Node{ID: "n9"}},
			&pilosa.ClusterStatus{ClusterID: "c", State: "NORMAL", Nodes: []*pilosa.Node{{ID: "n9"}}},
			&pilosa.NodeStatus{Node: &pilosa.Node{ID: "n9"}, Schema: &pilosa.Schema{}},
			&pilosa.DeleteAvailableShardMessage{Index: "i", Field: "f", ShardID: 3},
		}
		body, err := pilosa.MarshalInternalMessage(ms[r.Intn(len(ms))], proto.Serializer{})
		if err != nil {
			panic(err)
		}
		tail := body[1:]
		if len(tail) > 0 {
			tail = mutate(r, tail)
		}
		return fmt.Sprintf("cmraw %s", codec.Hex(append([]byte{body[0]}, tail...)))
	}
}

func (p *prop) Gen(r *vh.Rng, tier string, n int) []vh.Case {
	var cases []vh.Case
	add := func(nt bool, lines ...string) { cases = append(cases, vh.Case{Lines: lines, Nontrivial: nt}) }
	for k := 0; k < n; k++ {
		cr := r.Fork()
		coll := cr.PickS("s", "b")
		switch c := cr.Intn(100); {
		case c < 25: // UnmarshalBinary
			enc := genEncoding(cr, pilosaKeys, true)
			d, mut := enc, false
			if cr.Chance(9, 10) {
				d, mut = mutate(cr, enc), true
				if cr.Chance(1, 4) {
					d = mutate(cr, d)
				}
			}
			add(mut, fmt.Sprintf("ub %s %s", coll, codec.Hex(d)))
		case c < 40: // iterators
			enc := genEncoding(cr, pilosaKeys, false)
			d, mut := enc, false
			if cr.Chance(9, 10) {
				d, mut = mutate(cr, enc), true
			}
			add(mut, "iter "+codec.Hex(d))
		case c < 62: // ImportRoaringBits
			keys := pilosaKeys[:cr.Pick(3, 4, len(pilosaKeys))]
			enc := genEncoding(cr, keys, false)
			d, mut := enc, false
			if cr.Chance(4, 5) {
				d, mut = mutate(cr, enc), true
			}
			t := genEntries(cr, keys, cr.Pick(0, 1, 2, 3))
			add(mut, fmt.Sprintf("imp %s %d %s %s", coll, cr.Intn(2), specOf(t), codec.Hex(d)))
		case c < 72: // import worker
			enc := genEncoding(cr, rowKeys, false)
			d, mut := enc, false
			switch cr.Intn(6) {
			case 0:
				d, mut = []byte{}, true
			case 1:
				d, mut = []byte{byte(cr.Pick(0x3c, 0x3a, 0x3b, 0))}, true
			case 2:
			default:
				d, mut = mutate(cr, enc), true
			}
			t := genEntries(cr, rowKeys, cr.Pick(0, 1, 2))
			add(mut, fmt.Sprintf("iw %d %s %s", cr.Intn(2), specOf(t), codec.Hex(d)))
		case c < 80:
			l, nt := genCM(cr)
			add(nt, l)
		case c < 87:
			add(true, genCMRaw(cr))
		case c < 94:
			add(true, "pql "+codec.Hex(genPQL(cr)))
		default:
			add(true, "qr "+codec.Hex(genQR(cr)))
		}
	}
	if tier == "thorough" {
		// every truncation point and every single-byte corruption of a few small encodings
		for k := 0; k < 16 && k < n; k++ {
			cr := r.Fork()
			enc := genEncoding(cr, pilosaKeys[:4], true)
			if len(enc) > 400 {
				continue
			}
			for cut := 0; cut < len(enc); cut++ {
				add(true, "ub s "+codec.Hex(enc[:cut]), "iter "+codec.Hex(enc[:cut]))
			}
			for pos := 0; pos < len(enc) && pos < 64; pos++ {
				for _, v := range []byte{0, 1, 3, 0x80, 0xff} {
					m := append([]byte(nil), enc...)
					if m[pos] == v {
						continue
					}
					m[pos] = v
					add(true, "ub b "+codec.Hex(m), "imp s 0 0:a:1,5 "+codec.Hex(m))
				}
			}
		}
	}
	return cases
}

// ------------------------------------------------------------------ child side

func guardPanic(f func() string) (out string) {
	defer func() {
		if e := recover(); e != nil {
			out = "panic:" + sanitize(fmt.Sprint(e))
		}
	}()
	return f()
}

func itemWords(it roaring.VerifC06Item) []uint16 { return it.Data }

func itemWf(it roaring.VerifC06Item) bool {
	d := it.Data
	switch it.Typ {
	case 1:
		if len(d) != it.N {
			return false
		}
		for i := 1; i < len(d); i++ {
			if d[i-1] >= d[i] {
				return false
			}
		}
		return true
	case 2:
		if len(d) != 4096 {
			return false
		}
		n := 0
		for _, w := range d {
			for ; w != 0; w &= w - 1 {
				n++
			}
		}
		return n == it.N
	case 3:
		if len(d) == 0 {
			return false
		}
		n := 0
		for i := 0; i+1 < len(d); i += 2 {
			if d[i] > d[i+1] || (i > 0 && d[i-1] >= d[i]) {
				return false
			}
			n += int(d[i+1]-d[i]) + 1
		}
		return n == it.N
	}
	return false
}

func showItem(it roaring.VerifC06Item) string {
	h := fnv.New32a()
	var b [2]byte
	for _, w := range it.Data {
		binary.LittleEndian.PutUint16(b[:], w)
		h.Write(b[:])
	}
	t := map[byte]string{1: "a", 2: "b", 3: "r"}[it.Typ]
	if t == "" {
		t = fmt.Sprintf("t%d", it.Typ)
	}
	return fmt.Sprintf("%d:%s:%d:%d:%d", it.Key, t, it.N, it.Len, h.Sum32())
}

type childState struct {
	s    *srv.Server
	nfld int
}

func (cs *childState) server() *srv.Server {
	if cs.s == nil {
		cs.s = srv.Start(2)
		ctx := context.Background()
		if _, err := cs.s.API.CreateIndex(ctx, "i", pilosa.IndexOptions{}); err != nil {
			panic(err)
		}
		for _, f := range []string{"f", "probe"} {
			if _, err := cs.s.API.CreateField(ctx, "i", f, pilosa.OptFieldTypeSet("none", 0)); err != nil {
				panic(err)
			}
		}
	}
	return cs.s
}

func (cs *childState) execLine(l string) string {
	ws := strings.Fields(l)
	if len(ws) == 0 {
		return "bad-op"
	}
	switch {
	case ws[0] == "ub" && len(ws) == 3:
		d, ok := codec.ParseHex(ws[2])
		if !ok {
			return "bad-op"
		}
		g, free := codec.Guard(d)
		defer free()
		b := codec.NewBitmap(ws[1])
		var derr error
		full := guardPanic(func() string {
			derr = b.UnmarshalBinary(g)
			return ""
		})
		// errors of the header / offset / container sections; an op-log error, or the replay's
		// refusal of an inconsistent container (trees with the lazy check), come after the load
		structural := derr != nil && !strings.HasPrefix(codec.ErrClass(derr), "op-") && codec.ErrClass(derr) != "ill-formed"
		// The containers as loaded, before the op log is replayed: for Pilosa data whose header,
		// offset and container sections were accepted, the hook repeats the walk over the header and
		// offset sections. Inconsistent containers are reported whatever the replay of the op
		// log then did (it can fail, or panic in a kernel that trusts the header).
		loadedState := "unknown"
		if len(d) >= 2 && d[0] == 0x3c && d[1] == 0x30 && !structural {
			_ = guardPanic(func() string {
				items, _ := roaring.VerifC06Loaded(d)
				loadedState = "wf"
				for _, it := range items {
					if !itemWf(it) {
						loadedState = "ill"
					}
				}
				return ""
			})
		}
		if loadedState == "ill" {
			return "ok illformed"
		}
		if full != "" {
			return full
		}
		if derr != nil {
			return "err:" + codec.ErrClass(derr)
		}
		ops, opN := roaring.VerifC04Ops(b)
		if loadedState == "unknown" {
			for _, it := range roaring.VerifC06Containers(b) {
				if !itemWf(it) {
					return "ok illformed"
				}
			}
		}
		vals := b.Slice()
		// the decoded bitmap must be usable
		_ = b.Count()
		b.Optimize()
		var buf bytes.Buffer
		if _, err := b.WriteTo(&buf); err != nil {
			return "err:write-after-decode"
		}
		return fmt.Sprintf("ok f=%d v=%s ops=%d,%d", b.Flags, codec.ShowRanges(vals), ops, opN)
	case ws[0] == "imp" && len(ws) == 5:
		tes, ok := codec.ParseSpec(ws[3])
		d, ok2 := codec.ParseHex(ws[4])
		if !ok || !ok2 {
			return "bad-op"
		}
		t := codec.Build(ws[1], 0, tes)
		g, free := codec.Guard(d)
		defer free()
		changed, _, err := t.ImportRoaringBits(g, ws[2] == "1", false, 0)
		if err != nil {
			return "err:" + codec.ErrClass(err) + " v=" + codec.ShowRanges(t.Slice())
		}
		vals := t.Slice()
		t.Optimize()
		_ = t.Count()
		return fmt.Sprintf("ok changed=%d v=%s", changed, codec.ShowRanges(vals))
	case ws[0] == "iter" && len(ws) == 2:
		d, ok := codec.ParseHex(ws[1])
		if !ok {
			return "bad-op"
		}
		g, free := codec.Guard(d)
		defer free()
		items, cerr, werr := roaring.VerifC06Iterate(g)
		if cerr != nil {
			return "err:" + codec.ErrClass(cerr)
		}
		ss := make([]string, len(items))
		for i, it := range items {
			ss[i] = showItem(it)
		}
		end := "eof"
		if werr != nil {
			end = codec.ErrClass(werr)
		}
		return "[" + strings.Join(ss, " ") + "] end=" + end
	case ws[0] == "iw" && len(ws) == 4:
		tes, ok := codec.ParseSpec(ws[2])
		d, ok2 := codec.ParseHex(ws[3])
		if !ok || !ok2 {
			return "bad-op"
		}
		s := cs.server()
		ctx := context.Background()
		cs.nfld++
		fld := fmt.Sprintf("w%d", cs.nfld)
		if _, err := s.API.CreateField(ctx, "i", fld, pilosa.OptFieldTypeSet("none", 0)); err != nil {
			return "err:create-field:" + sanitize(err.Error())
		}
		defer func() { _ = s.API.DeleteField(ctx, "i", fld) }()
		if len(tes) > 0 {
			var buf bytes.Buffer
			if _, err := codec.Build("s", 0, tes).WriteTo(&buf); err != nil {
				return "err:target-write"
			}
			if buf.Len() > 8 { // an all-empty target has nothing to import
				if err := s.API.ImportRoaring(ctx, "i", fld, 0, false, &pilosa.ImportRoaringRequest{Views: map[string][]byte{"": buf.Bytes()}}); err != nil {
					return "err:target-import:" + sanitize(err.Error())
				}
			}
		}
		// exact-size copy: what a request body decoder hands over
		data := append(make([]byte, 0, len(d)), d...)
		err := s.API.ImportRoaring(ctx, "i", fld, 0, false, &pilosa.ImportRoaringRequest{Clear: ws[1] == "1", Views: map[string][]byte{"": data}})
		var rows []uint64
		for r := 0; r < 4; r++ {
			res, qerr := s.Query("i", fmt.Sprintf("Count(Row(%s=%d))", fld, r), nil)
			if qerr != nil {
				return "err:count:" + sanitize(qerr.Error())
			}
			rows = append(rows, res[0].(uint64))
		}
		next := "ok"
		if _, qerr := s.Query("i", "Set(1, probe=1)", nil); qerr != nil {
			next = "err"
		}
		st := "ok"
		if err != nil {
			st = "err"
		}
		return fmt.Sprintf("%s rows=%s next=%s", st, vh.U64s(rows), next)
	case (ws[0] == "cm" && len(ws) == 6) || (ws[0] == "cmraw" && len(ws) == 2):
		body, ok := codec.ParseHex(ws[len(ws)-1])
		if !ok {
			return "bad-op"
		}
		s := cs.server()
		err := s.API.ClusterMessage(context.Background(), bytes.NewReader(body))
		if ws[0] == "cmraw" {
			// an accepted message may have changed the cluster state or the schema: later lines
			// need the normal node with index i and field f again
			ctx := context.Background()
			_, ferr := s.API.Field(ctx, "i", "f")
			_, perr := s.API.Field(ctx, "i", "probe")
			if s.API.State() != "NORMAL" || ferr != nil || perr != nil || len(s.API.Schema(ctx)) != 1 || len(s.API.Hosts(ctx)) != 1 {
				s.Stop()
				cs.s = nil
			}
			return "nopanic"
		}
		if err == nil {
			return "returns"
		}
		e := err.Error()
		switch {
		case strings.Contains(e, "empty cluster message"):
			return "err:empty"
		case strings.Contains(e, "unknown cluster message type"):
			return "err:unknown-type"
		case strings.Contains(e, "deserializing cluster message"):
			return "err:decode"
		case strings.Contains(e, "local index not found"), strings.Contains(e, "local field not found"):
			return "err:not-found"
		}
		return "returns"
	case ws[0] == "pql" && len(ws) == 2:
		b, ok := codec.ParseHex(ws[1])
		if !ok {
			return "bad-op"
		}
		_, _ = pql.NewParser(bytes.NewReader(b)).Parse()
		return "nopanic"
	case ws[0] == "qr" && len(ws) == 2:
		b, ok := codec.ParseHex(ws[1])
		if !ok {
			return "bad-op"
		}
		_ = proto.Serializer{}.Unmarshal(b, &pilosa.QueryResponse{})
		return "nopanic"
	}
	return "bad-op"
}

func childMain() {
	debug.SetPanicOnFault(true)
	cs := &childState{}
	in := bufio.NewReaderSize(os.Stdin, 1<<20)
	out := bufio.NewWriter(os.Stdout)
	for {
		l, err := in.ReadString('\n')
		if l == "" && err != nil {
			break
		}
		l = strings.TrimRight(l, "\n")
		ans := guardPanic(func() string { return cs.execLine(l) })
		fmt.Fprintln(out, ans)
		out.Flush()
		if err != nil {
			break
		}
	}
	if cs.s != nil {
		cs.s.Stop()
	}
}

func main() {
	for _, a := range os.Args[1:] {
		if a == "--child" {
			childMain()
			return
		}
	}
	p := &prop{}
	defer func() {
		if p.c != nil {
			p.c.kill()
		}
	}()
	vh.Main(p)
	_ = strconv.Itoa
}
