// Harness for C22: the resize-job state machine of a real coordinator `cluster`.
//
// Line formats (lean/PV/C22/Main.lean documents the same):
//
//	init <members> <h>      members = csv of node numbers, the first is the coordinator (always 0);
//	                        h = placement table, one 7-digit group per shard key ('.'-separated):
//	                        digit n-1 of group k = index (mod n) of the owner of key k in a sorted
//	                        member list of size n
//	join <node>             NodeJoin event for node (Server.receiveMessage -> cluster.ReceiveEvent)
//	leave <node>            API.RemoveNode
//	complete <job> <node> <ok|err>   ResizeInstructionComplete for the job-th created job (99 = unknown id)
//	abort                   API.ResizeAbort
//	failsend <-|*|nodes>    from now on SendTo(ResizeInstruction) fails for these target nodes (csv; * = every node; - = none),
//	                        so any subset of a job's sends - first, middle, last, several - can be made to fail
//	hold <prewait|got>      arm a gate on the listener: it is held at handleNodeAction's log line "wait for jobResult"
//	                        (job generated, run spawned, not yet receiving) resp. "received jobResult" (result received and
//	                        run finished, completeCurrentJob not yet called) the next time it gets there; no mutex is held there
//	release                 disarm the gate and let a held listener continue
//
// Every event is delivered in its own goroutine; the harness then waits until every goroutine of
// the cluster is parked (runtime.Stack) and prints
//
//	<ret> st=<N|R|S|D> nodes=<csv> cur=<job|-> q=<queued actions> lis=<idle|wait|hold|lock|gone>
//	      jobs=<job>:<a|r><node>:<n|R|D|A>:<pending nodes '.'-separated|->;...  par=<handlers parked for good>
//
// ret: ok | err | refused (state gate) | panic | blocked (the handler never returned).
package main

import (
	"fmt"
	"io/ioutil"
	"math/rand"
	"os"
	"path/filepath"
	"reflect"
	"regexp"
	"runtime"
	"sort"
	"strconv"
	"strings"
	"sync"
	"time"

	"github.com/pilosa/pilosa"
	"github.com/pilosa/pilosa/roaring"
	"verifharness/vh"
)

const nKeys = 4    // shards 0..3 of index "i" carry data
const maxNodes = 7 // placement tables cover member lists of 1..7 nodes
const jobSeed = 424242

type hasher struct {
	mu    sync.Mutex
	keyOf map[uint64]int // partition id -> shard key
	tab   [nKeys][maxNodes]int
}

func (h *hasher) Hash(key uint64, n int) int {
	h.mu.Lock()
	defer h.mu.Unlock()
	if n <= 0 {
		return 0
	}
	k, ok := h.keyOf[key]
	if !ok || n > maxNodes {
		return 0
	}
	return h.tab[k][n-1] % n
}

type prop struct {
	dir    string
	holder *pilosa.Holder
	parts  [nKeys]int

	// per case
	cl      *pilosa.VerifC22Cluster
	h       *hasher
	failSet map[string]bool // target nodes for which sending a ResizeInstruction fails
	failAll bool
	fmu     sync.Mutex
	old     map[int]bool // goroutines that existed before this case (goroutine ids are not monotonic across Ps)
	ref     *rand.Rand
	seq     []int64
	parked  int
	caseNo  int
	holdAt  string        // armed listener gate ("" = none)
	gateCh  chan struct{} // closed by release
}

// the log lines of handleNodeAction used as gates
var gatePrefix = map[string]string{"prewait": "wait for jobResult", "got": "received jobResult"}

// hasLoggerHook: the tree under test carries the logger shim (verif_c22b.go).
func hasLoggerHook() bool {
	_, ok := reflect.TypeOf(&pilosa.VerifC22Cluster{}).MethodByName("SetLogger")
	return ok
}

// logGate is the coordinator's logger: it parks the calling goroutine (the listener) at an armed gate.
func (p *prop) logGate(msg string) {
	p.fmu.Lock()
	at, ch := p.holdAt, p.gateCh
	p.fmu.Unlock()
	if at != "" && strings.HasPrefix(msg, gatePrefix[at]) {
		vh.Count("listener-held-" + at)
		<-ch
	}
}

func (p *prop) releaseGate() {
	p.fmu.Lock()
	if p.gateCh != nil {
		close(p.gateCh)
	}
	p.holdAt, p.gateCh = "", make(chan struct{})
	p.fmu.Unlock()
}

func (p *prop) Rule() string {
	return "event histories against one coordinator: joins (new, duplicate, already-member nodes), removals, completions (success, error, duplicate, late, for finished, " +
		"not-yet-current and unknown jobs), aborts, failing instruction sends, under random placement tables (which decide the pending set of each job); " +
		"a case is non-trivial when at least one job was created and at least one completion or abort targets it"
}

func nid(i int) string { return "n" + strconv.Itoa(i) }
func nnum(id string) int {
	v, _ := strconv.Atoi(strings.TrimPrefix(id, "n"))
	return v
}

func (p *prop) setup() error {
	if p.holder != nil {
		return nil
	}
	dir, err := ioutil.TempDir("", "verif-c22-")
	if err != nil {
		return err
	}
	p.dir = dir
	h := pilosa.NewHolder()
	h.Path = filepath.Join(dir, "data")
	if err := h.Open(); err != nil {
		return err
	}
	idx, err := h.CreateIndex("i", pilosa.IndexOptions{})
	if err != nil {
		return err
	}
	f, err := idx.CreateField("f", pilosa.OptFieldTypeSet("ranked", 100))
	if err != nil {
		return err
	}
	for s := 0; s < nKeys; s++ {
		if _, err := f.SetBit(1, uint64(s)*pilosa.ShardWidth+1, nil); err != nil {
			return err
		}
	}
	// the shard set the planner sees must not depend on which fragments the coordinator keeps after
	// a cleanup (holderCleaner deletes local fragments it no longer owns): record them as remotely available
	if err := f.AddRemoteAvailableShards(roaring.NewBitmap(0, 1, 2, 3)); err != nil {
		return err
	}
	p.holder = h
	return nil
}

// ---------- goroutine probe ----------

type gor struct {
	id     int
	status string
	frames string
}

var hdrRe = regexp.MustCompile(`^goroutine (\d+) \[([^\],]+)`)

func goroutines() []gor {
	buf := make([]byte, 1<<20)
	for {
		n := runtime.Stack(buf, true)
		if n < len(buf) {
			buf = buf[:n]
			break
		}
		buf = make([]byte, 2*len(buf))
	}
	var out []gor
	for _, blk := range strings.Split(string(buf), "\n\n") {
		m := hdrRe.FindStringSubmatch(blk)
		if m == nil {
			continue
		}
		id, _ := strconv.Atoi(m[1])
		out = append(out, gor{id: id, status: m[2], frames: blk})
	}
	return out
}

var parkedStatus = map[string]bool{"chan receive": true, "chan send": true, "select": true, "semacquire": true, "sync.Mutex.Lock": true,
	"sync.RWMutex.Lock": true, "sync.RWMutex.RLock": true, "sync.WaitGroup.Wait": true, "sync.Cond.Wait": true}

func (p *prop) mine() []gor {
	var out []gor
	for _, g := range goroutines() {
		if p.old[g.id] {
			continue
		}
		if strings.Contains(g.frames, "pilosa.(*cluster).") || strings.Contains(g.frames, "pilosa.(*resizeJob).") ||
			strings.Contains(g.frames, "pilosa.(*VerifC22Cluster).") || strings.Contains(g.frames, "pilosa.(*API).") ||
			strings.Contains(g.frames, "main.(*prop).deliver.func") || // the handler goroutine before it enters / after it leaves pilosa code
			strings.Contains(g.frames, "errgroup.(*Group).Go") { // a goroutine the cluster spawned that has not reached its function yet
			out = append(out, g)
		}
	}
	sort.Slice(out, func(a, b int) bool { return out[a].id < out[b].id })
	return out
}

func sig(gs []gor) string {
	var b strings.Builder
	for _, g := range gs {
		fmt.Fprintf(&b, "%d:%s;", g.id, g.status)
	}
	return b.String()
}

// waitQuiet returns once every goroutine of the cluster is parked and nothing moved between two looks.
func (p *prop) waitQuiet() (gs []gor, quiet bool) {
	deadline := time.Now().Add(90 * time.Second) // generous: the machine may be heavily loaded
	prev := "?"
	for time.Now().Before(deadline) {
		time.Sleep(150 * time.Microsecond)
		gs = p.mine()
		all := true
		for _, g := range gs {
			if !parkedStatus[g.status] {
				all = false
			}
		}
		s := sig(gs)
		if all && s == prev {
			return gs, true
		}
		if all {
			prev = s
		} else {
			prev = "?"
		}
	}
	return gs, false
}

func listenerPos(gs []gor) string {
	for _, g := range gs {
		if !strings.Contains(g.frames, "listenForJoins.func1") {
			continue
		}
		switch {
		case strings.Contains(g.frames, "main.(*prop).logGate") && g.status == "chan receive":
			return "hold"
		case g.status == "select" && !strings.Contains(g.frames, "handleNodeAction"):
			return "idle"
		case g.status == "chan receive" && strings.Contains(g.frames, "handleNodeAction"):
			return "wait"
		case parkedStatus[g.status]:
			return "lock"
		}
		return "busy"
	}
	return "gone"
}

// ---------- job ordinals ----------

func (p *prop) seqPos(id int64) int {
	for i, v := range p.seq {
		if v == id {
			return i
		}
	}
	for len(p.seq) < 4096 {
		v := p.ref.Int63()
		p.seq = append(p.seq, v)
		if v == id {
			return len(p.seq) - 1
		}
	}
	return 1 << 30
}

// ---------- observation ----------

func stateLetter(s string) string {
	switch s {
	case "NORMAL":
		return "N"
	case "RESIZING":
		return "R"
	case "STARTING":
		return "S"
	case "DEGRADED":
		return "D"
	}
	return "?" + s
}

func jobLetter(s string) string {
	switch s {
	case "":
		return "n"
	case "RUNNING":
		return "R"
	case "DONE":
		return "D"
	case "ABORTED":
		return "A"
	}
	return "?" + s
}

func nums(ids []string, sep string) string {
	if len(ids) == 0 {
		return "-"
	}
	v := make([]int, len(ids))
	for i, s := range ids {
		v[i] = nnum(s)
	}
	sort.Ints(v)
	ss := make([]string, len(v))
	for i, x := range v {
		ss[i] = strconv.Itoa(x)
	}
	return strings.Join(ss, sep)
}

func (p *prop) jobsInOrder(s pilosa.VerifC22Snapshot) []pilosa.VerifC22Job {
	js := append([]pilosa.VerifC22Job(nil), s.Jobs...)
	sort.Slice(js, func(a, b int) bool { return p.seqPos(js[a].ID) < p.seqPos(js[b].ID) })
	return js
}

func (p *prop) observe(ret string, gs []gor, quiet bool) string {
	lis := listenerPos(gs)
	if !quiet {
		lis = "noquiet"
	}
	// when everything is parked a mutex that cannot be taken is held for good; otherwise be patient
	tmo := 300 * time.Millisecond
	if !quiet {
		tmo = 5 * time.Second
	}
	s := p.cl.Snapshot(tmo)
	if s.Locked {
		return fmt.Sprintf("%s locked lis=%s par=%d", ret, lis, p.parked)
	}
	js := p.jobsInOrder(s)
	cur := "-"
	var parts []string
	for k, j := range js {
		if s.HasCur && j.ID == s.Current {
			cur = strconv.Itoa(k)
		}
		if j.Locked {
			parts = append(parts, fmt.Sprintf("%d:locked", k))
			continue
		}
		// the job's node: the one added (in IDs but not ... ) is not recoverable from IDs alone for
		// removals, so only the action letter is printed together with the tracked ids
		parts = append(parts, fmt.Sprintf("%d:%s:%s:%s", k, strings.ToLower(j.Action[:1]), jobLetter(j.State), nums(j.Pending, ".")))
	}
	jobs := "-"
	if len(parts) > 0 {
		jobs = strings.Join(parts, ";")
	}
	return fmt.Sprintf("%s st=%s nodes=%s cur=%s q=%d lis=%s jobs=%s par=%d", ret, stateLetter(s.State), nums(s.Nodes, ","), cur, s.Queue, lis, jobs, p.parked)
}

// deliver runs one handler in its own goroutine and classifies how it ended.
func (p *prop) deliver(f func() error, gated bool) string {
	type res struct {
		err      error
		panicked bool
	}
	done := make(chan res, 1)
	go func() {
		var r res
		defer func() {
			if e := recover(); e != nil {
				r.panicked = true
			}
			done <- r
		}()
		r.err = f()
	}()
	gs, quiet := p.waitQuiet()
	ret := ""
	var got *res
	select {
	case r := <-done:
		got = &r
	default:
		// The handler looks parked. Before calling it blocked for good, look again for a while:
		// on a heavily loaded machine a handler can be seen parked on a mutex that is about to be released.
		for i := 0; i < 40 && got == nil; i++ {
			time.Sleep(5 * time.Millisecond)
			select {
			case r := <-done:
				got = &r
			default:
			}
		}
		if got != nil {
			gs, quiet = p.waitQuiet()
		}
	}
	if got != nil {
		done <- *got
	}
	select {
	case r := <-done:
		switch {
		case r.panicked:
			ret = "panic"
		case r.err == nil:
			ret = "ok"
		case gated && p.cl.IsNotAllowed(r.err):
			ret = "refused"
		default:
			ret = "err"
		}
	default:
		ret = "blocked"
		p.parked++
		vh.Count("handler-parked")
	}
	vh.Count("ret-" + ret)
	return p.observe(ret, gs, quiet)
}

func (p *prop) closeCase() {
	p.releaseGate()
	if p.cl != nil {
		p.cl.Shutdown()
		p.cl = nil
	}
}

func parseTable(s string) (t [nKeys][maxNodes]int, ok bool) {
	groups := strings.Split(s, ".")
	if len(groups) != nKeys {
		return t, false
	}
	for k, g := range groups {
		if len(g) != maxNodes {
			return t, false
		}
		for n, ch := range g {
			if ch < '0' || ch > '9' {
				return t, false
			}
			t[k][n] = int(ch - '0')
		}
	}
	return t, true
}

func (p *prop) execLine(l string) string {
	ws := strings.Fields(l)
	if len(ws) == 0 {
		return "bad-op"
	}
	if ws[0] == "init" {
		if len(ws) != 3 || p.cl != nil {
			return "bad-op"
		}
		var ids []string
		seen := map[uint64]bool{}
		for _, v := range vh.ParseCSV(ws[1]) {
			if v > 9 || seen[v] {
				return "bad-op"
			}
			seen[v] = true
			ids = append(ids, nid(int(v)))
		}
		tab, ok := parseTable(ws[2])
		if !ok || len(ids) == 0 || len(ids) > maxNodes-1 || ids[0] != "n0" {
			return "bad-op"
		}
		if err := p.setup(); err != nil {
			return "err:setup"
		}
		p.h = &hasher{keyOf: map[uint64]int{}, tab: tab}
		p.failSet, p.failAll, p.parked = map[string]bool{}, false, 0
		p.caseNo++
		p.old = map[int]bool{}
		for _, g := range goroutines() {
			p.old[g.id] = true
		}
		rand.Seed(jobSeed)
		p.ref = rand.New(rand.NewSource(jobSeed))
		p.seq = nil
		send := func(to, kind string, job int64, state string) error {
			if kind == "instruction" {
				p.fmu.Lock()
				fail := p.failAll || p.failSet[to]
				p.fmu.Unlock()
				if fail {
					vh.Count("instruction-send-failed")
					return fmt.Errorf("verif: instruction send to %s fails", to)
				}
				vh.Count("instruction-sent")
			}
			return nil
		}
		cl, err := pilosa.VerifC22New(filepath.Join(p.dir, fmt.Sprintf("c%d", p.caseNo)), p.holder, ids, p.h, 256, send)
		if err != nil {
			return "err:new"
		}
		p.cl = cl
		p.releaseGate()
		if m := reflect.ValueOf(cl).MethodByName("SetLogger"); m.IsValid() {
			m.Call([]reflect.Value{reflect.ValueOf(p.logGate)})
		}
		p.h.mu.Lock()
		for s := 0; s < nKeys; s++ {
			p.h.keyOf[uint64(cl.Partition("i", uint64(s)))] = s
		}
		p.h.mu.Unlock()
		if len(p.h.keyOf) != nKeys {
			return "err:partition-collision"
		}
		gs, quiet := p.waitQuiet()
		return p.observe("ok", gs, quiet)
	}
	if p.cl == nil {
		return "bad-op"
	}
	switch {
	case ws[0] == "join" && len(ws) == 2:
		n, err := strconv.Atoi(ws[1])
		if err != nil || n < 0 || n > 9 {
			return "bad-op"
		}
		return p.deliver(func() error { return p.cl.Join(nid(n)) }, false)
	case ws[0] == "leave" && len(ws) == 2:
		n, err := strconv.Atoi(ws[1])
		if err != nil || n < 0 || n > 9 {
			return "bad-op"
		}
		return p.deliver(func() error { return p.cl.Leave(nid(n)) }, true)
	case ws[0] == "complete" && len(ws) == 4:
		k, err1 := strconv.Atoi(ws[1])
		n, err2 := strconv.Atoi(ws[2])
		if err1 != nil || err2 != nil || k < 0 || n < 0 || n > 9 || (ws[3] != "ok" && ws[3] != "err") {
			return "bad-op"
		}
		s := p.cl.Snapshot(50 * time.Millisecond)
		id := int64(987654321) // unknown job
		if !s.Locked {
			js := p.jobsInOrder(s)
			if k < len(js) {
				id = js[k].ID
			}
		}
		et := ""
		if ws[3] == "err" {
			et = "verif: node failed"
		}
		return p.deliver(func() error { return p.cl.Complete(id, nid(n), et) }, false)
	case ws[0] == "abort" && len(ws) == 1:
		return p.deliver(func() error { return p.cl.Abort() }, true)
	case ws[0] == "hold" && len(ws) == 2 && gatePrefix[ws[1]] != "":
		if !hasLoggerHook() {
			return "err:no-logger-hook"
		}
		p.fmu.Lock()
		p.holdAt = ws[1]
		p.fmu.Unlock()
		gs, quiet := p.waitQuiet()
		return p.observe("ok", gs, quiet)
	case ws[0] == "release" && len(ws) == 1:
		p.releaseGate()
		gs, quiet := p.waitQuiet()
		return p.observe("ok", gs, quiet)
	case ws[0] == "failsend" && len(ws) == 2:
		set := map[string]bool{}
		if ws[1] != "*" && ws[1] != "-" {
			for _, f := range strings.Split(ws[1], ",") {
				v, err := strconv.Atoi(f)
				if err != nil || v < 0 || v > 9 {
					return "bad-op"
				}
				set[nid(v)] = true
			}
		}
		p.fmu.Lock()
		p.failSet, p.failAll = set, ws[1] == "*"
		p.fmu.Unlock()
		gs, quiet := p.waitQuiet()
		return p.observe("ok", gs, quiet)
	}
	return "bad-op"
}

func (p *prop) Exec(lines []string) []string {
	p.closeCase()
	outs := make([]string, len(lines))
	for i, l := range lines {
		l := l
		outs[i] = vh.Guard("exec", func() string { return p.execLine(l) })
	}
	p.closeCase()
	return outs
}

// ---------- generation ----------

func genTable(r *vh.Rng) string {
	var groups []string
	for k := 0; k < nKeys; k++ {
		var b strings.Builder
		mode := r.Intn(4)
		base := r.Intn(7)
		for n := 1; n <= maxNodes; n++ {
			d := 0
			switch mode {
			case 0: // owner index fixed: ownership moves only when the sorted list shifts
				d = base
			case 1: // always the last node
				d = n - 1
			case 2: // random
				d = r.Intn(10)
			case 3: // always the coordinator (index 0): never moves
				d = 0
			}
			b.WriteString(strconv.Itoa(d % 10))
		}
		groups = append(groups, b.String())
	}
	return strings.Join(groups, ".")
}

// genFail picks the target nodes whose instruction sends fail.
func genFail(r *vh.Rng, known []int) string {
	switch r.Intn(6) {
	case 0:
		return "-"
	case 1:
		return "*"
	}
	seen := map[int]bool{}
	var out []string
	for i := r.Range(1, 2); i > 0; i-- {
		v := r.Range(0, 8)
		if len(known) > 0 && r.Chance(3, 4) {
			v = known[r.Intn(len(known))]
		}
		if !seen[v] {
			seen[v] = true
			out = append(out, strconv.Itoa(v))
		}
	}
	return strings.Join(out, ",")
}

// genSendFailure: a cluster of 3-5 members under a fully random placement table (so that a join or a
// removal gives a job with several instructions), the sends to one or two of the target nodes fail -
// whichever position they have among the job's sends -, then the action, completions of the other
// nodes, and a second action with the failure switched off.
func genSendFailure(cr *vh.Rng) vh.Case {
	nm := cr.Range(3, 5)
	members := []int{0}
	for _, v := range cr.Perm(7) {
		if len(members) < nm {
			members = append(members, v+1)
		}
	}
	var ms []string
	for _, m := range members {
		ms = append(ms, strconv.Itoa(m))
	}
	var groups []string
	for k := 0; k < nKeys; k++ {
		var b strings.Builder
		for n := 1; n <= maxNodes; n++ {
			b.WriteString(strconv.Itoa(cr.Intn(10)))
		}
		groups = append(groups, b.String())
	}
	lines := []string{"init " + strings.Join(ms, ",") + " " + strings.Join(groups, ".")}
	newNode := 0
	for v := 1; v <= 9; v++ {
		in := false
		for _, m := range members {
			if m == v {
				in = true
			}
		}
		if !in && (newNode == 0 || cr.Chance(1, 3)) {
			newNode = v
		}
	}
	targets := append(append([]int(nil), members...), newNode)
	var fs []string
	seen := map[int]bool{}
	for i := cr.Range(1, 2); i > 0; i-- {
		v := targets[cr.Intn(len(targets))]
		if !seen[v] {
			seen[v] = true
			fs = append(fs, strconv.Itoa(v))
		}
	}
	lines = append(lines, "failsend "+strings.Join(fs, ","))
	if cr.Chance(4, 5) {
		lines = append(lines, fmt.Sprintf("join %d", newNode))
	} else {
		lines = append(lines, fmt.Sprintf("leave %d", members[1+cr.Intn(len(members)-1)]))
	}
	for _, m := range targets {
		if cr.Chance(2, 3) {
			lines = append(lines, fmt.Sprintf("complete 0 %d ok", m))
		}
	}
	lines = append(lines, "failsend -", fmt.Sprintf("join %d", newNode))
	for _, m := range targets {
		lines = append(lines, fmt.Sprintf("complete 1 %d ok", m))
	}
	vh.Count("gen-send-failure-case")
	return vh.Case{Lines: lines, Nontrivial: true}
}

// genListenerGate: the last completion (or an error, or an abort) lands, then something happens at a chosen
// listener position - held before it starts receiving, or held between receiving the result and
// completeCurrentJob -, then the listener runs on.
func genListenerGate(cr *vh.Rng) vh.Case {
	nm := cr.Range(2, 4)
	members := []int{0}
	for _, v := range cr.Perm(6) {
		if len(members) < nm {
			members = append(members, v+1)
		}
	}
	var ms []string
	for _, m := range members {
		ms = append(ms, strconv.Itoa(m))
	}
	newNode := 7 + cr.Intn(3)
	targets := append(append([]int(nil), members...), newNode)
	lines := []string{"init " + strings.Join(ms, ",") + " " + genTable(cr)}
	at := cr.PickS("got", "got", "got", "prewait")
	lines = append(lines, "hold "+at, fmt.Sprintf("join %d", newNode))
	finish := func(job int) {
		for _, m := range targets {
			lines = append(lines, fmt.Sprintf("complete %d %d ok", job, m))
		}
	}
	switch cr.Intn(4) {
	case 0, 1:
		finish(0) // DONE is delivered (got: received and held; prewait: sits in the buffer)
	case 2:
		lines = append(lines, fmt.Sprintf("complete 0 %d err", targets[cr.Intn(len(targets))]))
	case 3: // nothing yet
	}
	// what lands while the listener is held
	switch cr.Intn(6) {
	case 0, 1, 2:
		lines = append(lines, "abort")
	case 3:
		lines = append(lines, fmt.Sprintf("complete 0 %d err", targets[cr.Intn(len(targets))]), "abort")
	case 4:
		lines = append(lines, fmt.Sprintf("join %d", 1+cr.Intn(9)))
	case 5:
		lines = append(lines, "abort", fmt.Sprintf("complete 0 %d ok", newNode))
	}
	lines = append(lines, "release")
	if cr.Bool() {
		finish(0)
	}
	lines = append(lines, fmt.Sprintf("complete 0 %d err", newNode), fmt.Sprintf("join %d", newNode))
	finish(1)
	vh.Count("gen-listener-gate-case")
	return vh.Case{Lines: lines, Nontrivial: true}
}

func (p *prop) Gen(r *vh.Rng, tier string, n int) []vh.Case {
	var cases []vh.Case
	for k := 0; k < n; k++ {
		cr := r.Fork()
		nm := cr.Pick(1, 2, 2, 3, 3, 4)
		members := []int{0}
		pool := cr.Perm(6)
		for _, v := range pool {
			if len(members) < nm {
				members = append(members, v+1)
			}
		}
		var ms []string
		for _, m := range members {
			ms = append(ms, strconv.Itoa(m))
		}
		if cr.Chance(1, 5) {
			cases = append(cases, genSendFailure(cr))
			continue
		}
		if hasLoggerHook() && cr.Chance(1, 5) {
			cases = append(cases, genListenerGate(cr))
			continue
		}
		lines := []string{"init " + strings.Join(ms, ",") + " " + genTable(cr)}
		steps := cr.Range(3, 14)
		flood := cr.Chance(1, 25) // enough joins to fill the 10-slot queue
		if flood {
			steps = 16
		}
		jobs, hits := 0, 0
		known := append([]int(nil), members...)
		for s := 0; s < steps; s++ {
			pickNode := func() int {
				if cr.Chance(3, 4) && len(known) > 0 {
					return known[cr.Intn(len(known))]
				}
				return cr.Range(0, 8)
			}
			c := cr.Intn(100)
			switch {
			case flood && s >= 1 && s <= 13:
				v := cr.Range(1, 8)
				lines = append(lines, fmt.Sprintf("join %d", v))
				jobs++
			case c < 22:
				v := cr.Range(1, 8)
				known = append(known, v)
				lines = append(lines, fmt.Sprintf("join %d", v))
				jobs++
			case c < 30:
				lines = append(lines, fmt.Sprintf("leave %d", pickNode()))
				jobs++
			case c < 78:
				j := 0
				if jobs > 0 {
					j = cr.Intn(jobs + 1)
				}
				if cr.Chance(1, 12) {
					j = 99
				}
				ok := "ok"
				if cr.Chance(1, 5) {
					ok = "err"
				}
				lines = append(lines, fmt.Sprintf("complete %d %d %s", j, pickNode(), ok))
				if jobs > 0 {
					hits++
				}
			case c < 86:
				lines = append(lines, "abort")
				if jobs > 0 {
					hits++
				}
			case c < 92:
				lines = append(lines, "failsend "+genFail(cr, known))
			default:
				// complete every member for the oldest jobs: drives jobs to DONE
				j := 0
				if jobs > 0 {
					j = cr.Intn(jobs)
				}
				for _, m := range known {
					lines = append(lines, fmt.Sprintf("complete %d %d ok", j, m))
				}
				hits++
			}
		}
		cases = append(cases, vh.Case{Lines: lines, Nontrivial: jobs > 0 && hits > 0})
	}
	return cases
}

func main() {
	p := &prop{}
	defer func() {
		p.closeCase()
		if p.holder != nil {
			_ = p.holder.Close()
		}
		if p.dir != "" {
			// goroutines of abandoned (deadlocked / aborted) clusters may still write their .topology file
			for i := 0; i < 20; i++ {
				if err := os.RemoveAll(p.dir); err == nil {
					if _, serr := os.Stat(p.dir); os.IsNotExist(serr) {
						break
					}
				}
				time.Sleep(10 * time.Millisecond)
			}
		}
	}()
	vh.Main(p)
}
