// Harness for C15: bitmap queries over data spread over shards, and the writes that change it.
//
// Line formats are documented in lean/PV/C15/Main.lean. Every case is a history over a fresh index
// of one in-process server (vh/srv, real executor / holder / fragments); rowop / rowshift lines drive
// the exported Row API directly.
package main

import (
	"context"
	"fmt"
	"sort"
	"strconv"
	"strings"
	"time"

	"github.com/pilosa/pilosa"
	"verifharness/vh"
	"verifharness/vh/srv"
)

const sw = uint64(pilosa.ShardWidth)

type prop struct {
	s     *srv.Server
	idx   int
	index string // current case's index ("" = none yet)
}

func (p *prop) Rule() string {
	return "histories over a fresh index (existence tracking on in 9 of 10): 8-20 writes (Set, timestamped Set, int Set, Import) over a pool of ~8 columns drawn " +
		"from shard and container edges (0,1,65535,65536,SW-2,SW-1,SW,SW+1,SW+65535,SW+65536,2SW-1,2SW,2SW+3,3SW-1,5SW+7), rows 0-3, fields a,b,c (set), t (time YMD), v (int); " +
		"then 6-15 operations: queries/counts over generated expression trees (depth <= 4, arity 0-3; Row, time-range Row, int-condition Row, Union, Intersect, " +
		"Difference, Xor, Not, Shift n in {0,1,2,3,7,-1}, missing fields, wrong arities) interleaved with Set/Clear/ClearRow/Store; plus Row-API lines on multi-shard rows. " +
		"A case is non-trivial when it holds data in >= 2 shards and runs >= 3 queries with operators"
}

// ---------- generation ----------

var edgeCols = []uint64{0, 1, 65535, 65536, sw - 2, sw - 1, sw, sw + 1, sw + 65535, sw + 65536, 2*sw - 1, 2 * sw, 2*sw + 3, 3*sw - 1, 5*sw + 7}
var safeCols = []uint64{0, 1, 65535, 65536, 70000, sw, sw + 1, sw + 65535, sw + 65536, 2 * sw, 2*sw + 3, 5*sw + 7}

var stamps = []string{"2019-01-02T03:00", "2019-01-05T00:00", "2019-02-01T00:00", "2020-03-04T00:00"}
var rangeEnds = []string{"2019-01-01T00:00", "2019-01-03T00:00", "2019-01-06T00:00", "2019-02-02T00:00", "2019-03-01T00:00", "2020-01-01T00:00", "2021-01-01T00:00"}

const quantum = "YMD"

func mustTime(s string) time.Time {
	t, err := time.Parse(pilosa.TimeFormat, s)
	if err != nil {
		panic(err)
	}
	return t
}

func viewsTok(vs []string) string {
	if len(vs) == 0 {
		return "-"
	}
	return strings.Join(vs, "+")
}

type gen struct {
	r     *vh.Rng
	pool  []uint64
	exist bool
}

func (g *gen) col() uint64 { return g.pool[g.r.Intn(len(g.pool))] }
func (g *gen) row() int    { return g.r.Pick(0, 1, 1, 2, 3) }

func (g *gen) leaf() string {
	switch x := g.r.Intn(20); {
	case x < 11:
		return fmt.Sprintf("R(%s,%d)", g.r.PickS("a", "a", "b", "b", "c"), g.row())
	case x < 13:
		return fmt.Sprintf("R(t,%d)", g.row())
	case x < 16:
		i := g.r.Intn(len(rangeEnds) - 1)
		j := i + 1 + g.r.Intn(len(rangeEnds)-i-1)
		from, to := rangeEnds[i], rangeEnds[j]
		vs := pilosa.VerifC15ViewsByTimeRange(mustTime(from), mustTime(to), quantum)
		vh.Count("leaf-time-range")
		return fmt.Sprintf("T(t,%d,%s,%s,%s)", g.row(), from, to, viewsTok(vs))
	case x < 19:
		vh.Count("leaf-int-condition")
		op := g.r.PickS("lt", "le", "gt", "ge", "eq", "ne", "bt", "nn")
		switch op {
		case "bt":
			a := g.r.Range(-14, 14)
			return fmt.Sprintf("C(v,bt,%d,%d)", a, g.r.Range(a, 14))
		case "nn":
			return "C(v,nn)"
		}
		return fmt.Sprintf("C(v,%s,%d)", op, g.r.Range(-14, 14))
	default:
		if g.r.Chance(1, 2) {
			vh.Count("leaf-missing-field")
			return "R(zz,1)"
		}
		return "R(v,1)" // Row() on an int field: empty
	}
}

func (g *gen) expr(depth int) string {
	if depth <= 0 || g.r.Chance(1, 4) {
		return g.leaf()
	}
	switch x := g.r.Intn(20); {
	case x < 12:
		op := g.r.PickS("U", "I", "D", "X")
		n := g.r.Pick(1, 2, 2, 2, 3, 3)
		if g.r.Chance(1, 40) {
			n = 0
			vh.Count("op-no-children")
		}
		var cs []string
		for i := 0; i < n; i++ {
			cs = append(cs, g.expr(depth-1))
		}
		return op + "(" + strings.Join(cs, ",") + ")"
	case x < 15:
		if !g.exist && !g.r.Chance(1, 4) {
			return g.expr(depth - 1)
		}
		if g.r.Chance(1, 40) {
			vh.Count("not-arity")
			return g.r.PickS("N()", "N("+g.leaf()+","+g.leaf()+")")
		}
		return "N(" + g.expr(depth-1) + ")"
	default:
		if g.r.Chance(1, 40) {
			vh.Count("shift-arity")
			return g.r.PickS("S(1)", "S(1,"+g.leaf()+","+g.leaf()+")")
		}
		n := g.r.Pick(0, 1, 1, 1, 2, 3, 7)
		if g.r.Chance(1, 40) {
			n = -1
		}
		return fmt.Sprintf("S(%d,%s)", n, g.expr(depth-1))
	}
}

func (g *gen) write() string {
	switch x := g.r.Intn(20); {
	case x < 7:
		return fmt.Sprintf("set %s %d %d", g.r.PickS("a", "b", "c"), g.row(), g.col())
	case x < 10:
		ts := stamps[g.r.Intn(len(stamps))]
		vs := pilosa.VerifC15ViewsByTime(mustTime(ts), quantum)
		return fmt.Sprintf("sett t %d %d %s %s", g.row(), g.col(), ts, viewsTok(vs))
	case x < 11:
		return fmt.Sprintf("set t %d %d", g.row(), g.col())
	case x < 14:
		return fmt.Sprintf("setv v %d %d", g.col(), g.r.Range(-15, 15))
	case x < 17:
		var bs []string
		for i := g.r.Range(1, 5); i > 0; i-- {
			bs = append(bs, fmt.Sprintf("%d:%d", g.row(), g.col()))
		}
		return fmt.Sprintf("import %s %s", g.r.PickS("a", "b", "c"), strings.Join(bs, ","))
	case x < 18:
		return fmt.Sprintf("clear %s %d %d", g.r.PickS("a", "b", "c"), g.row(), g.col())
	case x < 19:
		return fmt.Sprintf("clearrow %s %d", g.r.PickS("a", "b", "c", "t"), g.row())
	default:
		return fmt.Sprintf("store %s %d %s", g.r.PickS("a", "b", "c", "c"), g.r.Pick(0, 1, 2, 3, 5), g.expr(2))
	}
}

func (p *prop) Gen(r *vh.Rng, tier string, n int) []vh.Case {
	var cases []vh.Case
	for k := 0; k < n; k++ {
		cr := r.Fork()
		if cr.Chance(1, 12) {
			cases = append(cases, genRowAPI(cr))
			continue
		}
		g := &gen{r: cr, exist: !cr.Chance(1, 10)}
		src := edgeCols
		if cr.Chance(6, 10) {
			src = safeCols
		}
		for len(g.pool) < 8 {
			c := src[cr.Intn(len(src))]
			g.pool = append(g.pool, c)
		}
		ex := "0"
		if g.exist {
			ex = "1"
		}
		lines := []string{"schema " + ex + " a:set,b:set,c:set,t:time,v:int"}
		// anchor the bit depth of v (4 bits) so that every generated predicate is inside the range the
		// BSI comparison handles without clamping (C14's subject, not C15's)
		lines = append(lines, fmt.Sprintf("setv v %d 15", g.pool[0]))
		for i := cr.Range(8, 20); i > 0; i-- {
			lines = append(lines, g.write())
		}
		nq := 0
		for i := cr.Range(6, 15); i > 0; i-- {
			if cr.Chance(3, 10) {
				lines = append(lines, g.write())
				continue
			}
			e := g.expr(cr.Pick(1, 2, 3, 3, 4))
			if strings.ContainsAny(e, "UIDXNS") {
				nq++
			}
			if cr.Chance(1, 4) {
				lines = append(lines, "count "+e)
			} else {
				lines = append(lines, "q "+e)
			}
		}
		shards := map[uint64]bool{}
		for _, c := range g.pool {
			shards[c/sw] = true
		}
		cases = append(cases, vh.Case{Lines: lines, Nontrivial: len(shards) >= 2 && nq >= 3})
	}
	return cases
}

func genRowAPI(r *vh.Rng) vh.Case {
	set := func() string {
		var cs []uint64
		for i := r.Range(0, 5); i > 0; i-- {
			cs = append(cs, edgeCols[r.Intn(len(edgeCols))])
		}
		return vh.CSV(cs)
	}
	var lines []string
	for i := 0; i < 6; i++ {
		if r.Chance(1, 3) {
			lines = append(lines, fmt.Sprintf("rowshift %d %s", r.Pick(0, 1, 2, 3, 7), set()))
		} else {
			lines = append(lines, fmt.Sprintf("rowop %s %s %s", r.PickS("union", "inter", "diff", "xor", "merge"), set(), set()))
		}
	}
	return vh.Case{Lines: lines, Nontrivial: true}
}

// ---------- PQL rendering ----------

type node struct {
	head string
	args []string // atoms
	kids []*node
}

// parse mirrors the stack parser of lean/PV/C15/Main.lean.
func parse(s string) (*node, bool) {
	type frame struct{ n *node }
	var stack []*node
	var top []*node
	cur := ""
	flush := func() {
		if cur == "" {
			return
		}
		if len(stack) > 0 {
			f := stack[len(stack)-1]
			f.args = append(f.args, cur)
		}
		cur = ""
	}
	for _, c := range s {
		switch c {
		case '(':
			stack = append(stack, &node{head: cur})
			cur = ""
		case ',':
			flush()
		case ')':
			flush()
			if len(stack) == 0 {
				return nil, false
			}
			n := stack[len(stack)-1]
			stack = stack[:len(stack)-1]
			if len(stack) == 0 {
				top = append(top, n)
			} else {
				stack[len(stack)-1].kids = append(stack[len(stack)-1].kids, n)
			}
		default:
			cur += string(c)
		}
	}
	if cur != "" || len(stack) != 0 || len(top) != 1 {
		return nil, false
	}
	return top[0], true
}

func (n *node) pql() (string, bool) {
	kids := make([]string, len(n.kids))
	for i, k := range n.kids {
		s, ok := k.pql()
		if !ok {
			return "", false
		}
		kids[i] = s
	}
	join := strings.Join(kids, ", ")
	switch n.head {
	case "R":
		if len(n.args) != 2 || len(n.kids) != 0 {
			return "", false
		}
		return fmt.Sprintf("Row(%s=%s)", n.args[0], n.args[1]), true
	case "T":
		if len(n.args) != 5 {
			return "", false
		}
		from, to := mustTime(n.args[2]), mustTime(n.args[3])
		if viewsTok(pilosa.VerifC15ViewsByTimeRange(from, to, quantum)) != n.args[4] {
			return "", false // the views in the line no longer match the code's range decomposition
		}
		return fmt.Sprintf("Row(%s=%s, from='%s', to='%s')", n.args[0], n.args[1], n.args[2], n.args[3]), true
	case "C":
		if len(n.args) < 2 {
			return "", false
		}
		f, op, xs := n.args[0], n.args[1], n.args[2:]
		sym := map[string]string{"lt": "<", "le": "<=", "gt": ">", "ge": ">=", "eq": "==", "ne": "!="}
		switch {
		case op == "nn" && len(xs) == 0:
			return fmt.Sprintf("Row(%s != null)", f), true
		case op == "bt" && len(xs) == 2:
			return fmt.Sprintf("Row(%s >< [%s,%s])", f, xs[0], xs[1]), true
		case sym[op] != "" && len(xs) == 1:
			return fmt.Sprintf("Row(%s %s %s)", f, sym[op], xs[0]), true
		}
		return "", false
	case "U":
		return "Union(" + join + ")", len(n.args) == 0
	case "I":
		return "Intersect(" + join + ")", len(n.args) == 0
	case "D":
		return "Difference(" + join + ")", len(n.args) == 0
	case "X":
		return "Xor(" + join + ")", len(n.args) == 0
	case "N":
		return "Not(" + join + ")", len(n.args) == 0
	case "S":
		if len(n.args) != 1 {
			return "", false
		}
		if join == "" {
			return fmt.Sprintf("Shift(n=%s)", n.args[0]), true
		}
		return fmt.Sprintf("Shift(%s, n=%s)", join, n.args[0]), true
	}
	return "", false
}

// ---------- execution ----------

func errText(err error) string {
	s := err.Error()
	switch {
	case strings.Contains(s, "field not found"):
		return "err:field-not-found"
	case strings.Contains(s, "empty Intersect query"), strings.Contains(s, "empty Difference query"):
		return "err:empty-op"
	case strings.Contains(s, "Not() requires"), strings.Contains(s, "Not() only accepts"):
		return "err:not-arity"
	case strings.Contains(s, "Shift() requires"), strings.Contains(s, "Shift() only accepts"):
		return "err:shift-arity"
	case strings.Contains(s, "cannot shift by negative"):
		return "err:negative-shift"
	case strings.Contains(s, "does not support existence tracking"):
		return "err:no-existence"
	case strings.Contains(s, "bsigroup not found"):
		return "err:bsigroup-not-found"
	case strings.Contains(s, "can't Store() on"):
		return "err:store-field-type"
	case strings.Contains(s, "ClearRow() is not supported"):
		return "err:clearrow-field-type"
	}
	if len(s) > 60 {
		s = s[:60]
	}
	return "err:other:" + strings.ReplaceAll(s, " ", "_")
}

func (p *prop) Exec(lines []string) []string {
	outs := make([]string, len(lines))
	// a case owns one index; it is dropped at the end of the case
	p.index = ""
	defer func() {
		if p.index != "" {
			_ = p.s.API.DeleteIndex(context.Background(), p.index)
			p.index = ""
		}
	}()
	for i, l := range lines {
		l := l
		outs[i] = vh.Guard("exec", func() string { return p.execLine(l) })
	}
	return outs
}

// ensureIndex gives a case without a schema line (possible after shrinking) the empty schema the
// model starts from: an index without fields and without existence tracking.
func (p *prop) ensureIndex() {
	if p.index != "" {
		return
	}
	if p.s == nil {
		p.s = srv.Start(2)
	}
	p.idx++
	p.index = fmt.Sprintf("i%d", p.idx)
	if _, err := p.s.API.CreateIndex(context.Background(), p.index, pilosa.IndexOptions{TrackExistence: false}); err != nil {
		panic(err)
	}
}

func (p *prop) query(q string) ([]interface{}, error) {
	p.ensureIndex()
	return p.s.Query(p.index, q, nil)
}

func boolRes(res []interface{}, err error) string {
	if err != nil {
		return errText(err)
	}
	if b, ok := res[0].(bool); ok {
		return strconv.FormatBool(b)
	}
	return "err:not-bool"
}

func (p *prop) execLine(l string) string {
	ws := strings.Fields(l)
	if len(ws) == 0 {
		return "bad-op"
	}
	ctx := context.Background()
	switch ws[0] {
	case "schema":
		if len(ws) != 3 {
			return "bad-op"
		}
		if p.s == nil {
			p.s = srv.Start(2)
		}
		if p.index != "" {
			_ = p.s.API.DeleteIndex(ctx, p.index)
		}
		p.idx++
		p.index = fmt.Sprintf("i%d", p.idx)
		if _, err := p.s.API.CreateIndex(ctx, p.index, pilosa.IndexOptions{TrackExistence: ws[1] == "1"}); err != nil {
			return "err:create-index"
		}
		if ws[2] != "-" {
			for _, fd := range strings.Split(ws[2], ",") {
				nt := strings.Split(fd, ":")
				if len(nt) != 2 {
					return "bad-op"
				}
				var opt pilosa.FieldOption
				switch nt[1] {
				case "set":
					opt = pilosa.OptFieldTypeSet(pilosa.CacheTypeRanked, 100)
				case "time":
					opt = pilosa.OptFieldTypeTime(pilosa.TimeQuantum(quantum))
				case "int":
					opt = pilosa.OptFieldTypeInt(-1000, 1000)
				default:
					return "bad-op"
				}
				if _, err := p.s.API.CreateField(ctx, p.index, nt[0], opt); err != nil {
					return "err:create-field"
				}
			}
		}
		return "ok"
	case "set":
		if len(ws) != 4 {
			return "bad-op"
		}
		return boolRes(p.query(fmt.Sprintf("Set(%s, %s=%s)", ws[3], ws[1], ws[2])))
	case "sett":
		if len(ws) != 6 {
			return "bad-op"
		}
		if viewsTok(pilosa.VerifC15ViewsByTime(mustTime(ws[4]), quantum)) != ws[5] {
			return "err:views-mismatch"
		}
		return boolRes(p.query(fmt.Sprintf("Set(%s, %s=%s, %s)", ws[3], ws[1], ws[2], ws[4])))
	case "setv":
		if len(ws) != 4 {
			return "bad-op"
		}
		if _, err := p.query(fmt.Sprintf("Set(%s, %s=%s)", ws[2], ws[1], ws[3])); err != nil {
			return errText(err)
		}
		return "ok"
	case "import":
		if len(ws) != 3 {
			return "bad-op"
		}
		p.ensureIndex()
		byShard := map[uint64]*pilosa.ImportRequest{}
		var shards []uint64
		for _, b := range strings.Split(ws[2], ",") {
			rc := strings.Split(b, ":")
			if len(rc) != 2 {
				return "bad-op"
			}
			r, e1 := strconv.ParseUint(rc[0], 10, 64)
			c, e2 := strconv.ParseUint(rc[1], 10, 64)
			if e1 != nil || e2 != nil {
				return "bad-op"
			}
			req := byShard[c/sw]
			if req == nil {
				req = &pilosa.ImportRequest{Index: p.index, Field: ws[1], Shard: c / sw}
				byShard[c/sw] = req
				shards = append(shards, c/sw)
			}
			req.RowIDs = append(req.RowIDs, r)
			req.ColumnIDs = append(req.ColumnIDs, c)
		}
		sort.Slice(shards, func(i, j int) bool { return shards[i] < shards[j] })
		for _, s := range shards {
			if err := p.s.API.Import(ctx, byShard[s]); err != nil {
				return errText(err)
			}
		}
		return "ok"
	case "clear":
		if len(ws) != 4 {
			return "bad-op"
		}
		return boolRes(p.query(fmt.Sprintf("Clear(%s, %s=%s)", ws[3], ws[1], ws[2])))
	case "clearrow":
		if len(ws) != 3 {
			return "bad-op"
		}
		if _, err := p.query(fmt.Sprintf("ClearRow(%s=%s)", ws[1], ws[2])); err != nil {
			return errText(err)
		}
		return "ok"
	case "store":
		if len(ws) != 4 {
			return "bad-op"
		}
		n, ok := parse(ws[3])
		if !ok {
			return "bad-op"
		}
		q, ok := n.pql()
		if !ok {
			return "bad-op"
		}
		return boolRes(p.query(fmt.Sprintf("Store(%s, %s=%s)", q, ws[1], ws[2])))
	case "q", "count":
		if len(ws) != 2 {
			return "bad-op"
		}
		n, ok := parse(ws[1])
		if !ok {
			return "bad-op"
		}
		q, ok := n.pql()
		if !ok {
			return "bad-op"
		}
		if ws[0] == "count" {
			q = "Count(" + q + ")"
		}
		res, err := p.query(q)
		if err != nil {
			return errText(err)
		}
		switch v := res[0].(type) {
		case *pilosa.Row:
			return vh.U64s(v.Columns())
		case uint64:
			return strconv.FormatUint(v, 10)
		}
		return "err:result-type"
	case "rowop":
		if len(ws) != 4 {
			return "bad-op"
		}
		a := pilosa.NewRow(vh.ParseCSV(ws[2])...)
		b := pilosa.NewRow(vh.ParseCSV(ws[3])...)
		var r *pilosa.Row
		switch ws[1] {
		case "union":
			r = a.Union(b)
		case "inter":
			r = a.Intersect(b)
		case "diff":
			r = a.Difference(b)
		case "xor":
			r = a.Xor(b)
		case "merge":
			a.Merge(b)
			r = a
		default:
			return "bad-op"
		}
		return fmt.Sprintf("%s n=%d", vh.U64s(r.Columns()), countSegs(r))
	case "rowshift":
		if len(ws) != 3 {
			return "bad-op"
		}
		n, err := strconv.ParseInt(ws[1], 10, 64)
		if err != nil {
			return "bad-op"
		}
		r, err := pilosa.NewRow(vh.ParseCSV(ws[2])...).Shift(n)
		if err != nil {
			return errText(err)
		}
		return fmt.Sprintf("%s n=%d", vh.U64s(r.Columns()), countSegs(r))
	}
	return "bad-op"
}

// countSegs is Row.Count() (sum of the segments' cached counts).
func countSegs(r *pilosa.Row) uint64 { return r.Count() }

func main() {
	p := &prop{}
	defer func() {
		if p.s != nil {
			p.s.Stop()
		}
	}()
	vh.Main(p)
}
