// Harness for C24: key translation (TranslateFile) against pm_c24.
//
// Line formats are documented in lean/PV/C24/Main.lean. Store 0 is a writable TranslateFile,
// store 1 a read-only one whose PrimaryTranslateStore is a fake that hands out the real reader of
// store 0, cut at a chosen byte and chopped into reads of chosen sizes; `repl` runs one real
// replicate() session on it (hook VerifC24Replicate).
package main

import (
	"bytes"
	"context"
	"encoding/hex"
	"fmt"
	"io"
	"os"
	"path/filepath"
	"sort"
	"strconv"
	"strings"
	"sync"
	"sync/atomic"
	"time"

	"github.com/cespare/xxhash"
	"github.com/pilosa/pilosa"
	pilosahttp "github.com/pilosa/pilosa/http"
	"verifharness/vh"
	"verifharness/vh/srv"
)

type prop struct {
	dir   string
	st    [2]*pilosa.TranslateFile
	cut   int64
	sizes []int
	s     *srv.Server // in-process pilosa for the `http` lines, started on first use
	nidx  int
}

func (p *prop) Rule() string {
	return "histories over two stores (0 primary, 1 read-only replica): translate batches with repeats over a small per-case key pool " +
		"(ASCII, empty, Unicode, NUL, 127/128/5000/16384-byte keys, clusters of keys sharing a robin-hood home slot incl. the wrap-around slots 255/0), " +
		"batches of > 230 keys to force table growth, reverse lookups, restarts, replication sessions cut at every entry boundary and mid-entry with " +
		"read sizes 1..100000, concurrent callers with overlapping batches, `race` lines (statistical: 60 rounds of 2-4 callers released at the same instant " +
		"on a namespace nobody touched before - fresh index, fresh index+field, fresh field of an existing index - each round checked for a bijection onto 1..n), and `http` lines where an in-process server translates column keys and a fresh store " +
		"replicates its log over the real GET /internal/translate/data through pilosa/http's translate store; a case is non-trivial when a key is translated at least twice in one namespace " +
		"(or a batch repeats a key) and the history contains a restart, a replication session, a growth batch or concurrent callers"
}

// ---------- tokens (must match lean/PV/C24/Main.lean) ----------

func asciiKey(i int) []byte { return []byte("k" + strconv.Itoa(i)) }

func parseKeyTok(s string) ([][]byte, bool) {
	if s == "" {
		return nil, false
	}
	switch s[0] {
	case 'x':
		b, err := hex.DecodeString(s[1:])
		if err != nil || strings.ToLower(s[1:]) != s[1:] {
			return nil, false
		}
		return [][]byte{b}, true
	case 'k':
		parts := strings.Split(s[1:], "-")
		if len(parts) == 1 {
			i, err := strconv.ParseUint(parts[0], 10, 31)
			if err != nil {
				return nil, false
			}
			return [][]byte{asciiKey(int(i))}, true
		}
		if len(parts) == 2 {
			i, e1 := strconv.ParseUint(parts[0], 10, 31)
			j, e2 := strconv.ParseUint(parts[1], 10, 31)
			if e1 != nil || e2 != nil {
				return nil, false
			}
			var out [][]byte
			for d := i; d <= j; d++ {
				out = append(out, asciiKey(int(d)))
			}
			return out, true
		}
	case 'L':
		parts := strings.Split(s[1:], "c")
		if len(parts) == 2 {
			n, e1 := strconv.ParseUint(parts[0], 10, 24)
			b, e2 := strconv.ParseUint(parts[1], 10, 31)
			if e1 != nil || e2 != nil {
				return nil, false
			}
			return [][]byte{bytes.Repeat([]byte{byte(b % 256)}, int(n))}, true
		}
	}
	return nil, false
}

func parseKeys(s string) ([]string, bool) {
	if s == "_" {
		return []string{}, true
	}
	out := []string{}
	for _, t := range strings.Split(s, ",") {
		ks, ok := parseKeyTok(t)
		if !ok {
			return nil, false
		}
		for _, k := range ks {
			out = append(out, string(k))
		}
	}
	return out, true
}

type nsKey struct {
	row          bool
	index, field string
}

func parseNs(s string) (nsKey, bool) {
	parts := strings.Split(s, ":")
	one := func(t string) (string, bool) {
		ks, ok := parseKeyTok(t)
		if !ok || len(ks) != 1 {
			return "", false
		}
		return string(ks[0]), true
	}
	if len(parts) == 2 && parts[0] == "c" {
		i, ok := one(parts[1])
		return nsKey{false, i, ""}, ok
	}
	if len(parts) == 3 && parts[0] == "r" {
		i, ok1 := one(parts[1])
		f, ok2 := one(parts[2])
		return nsKey{true, i, f}, ok1 && ok2
	}
	return nsKey{}, false
}

func showIDs(ids []uint64) string {
	if len(ids) == 0 {
		return "-"
	}
	ss := make([]string, len(ids))
	for i, v := range ids {
		ss[i] = strconv.FormatUint(v, 10)
	}
	return strings.Join(ss, ",")
}

// ---------- fake primary: the real reader of store 0, cut and chopped ----------

type fakePrimary struct{ p *prop }

func (f fakePrimary) TranslateColumnsToUint64(string, []string) ([]uint64, error) {
	return nil, pilosa.ErrNotImplemented
}
func (f fakePrimary) TranslateColumnToString(string, uint64) (string, error) {
	return "", pilosa.ErrNotImplemented
}
func (f fakePrimary) TranslateRowsToUint64(string, string, []string) ([]uint64, error) {
	return nil, pilosa.ErrNotImplemented
}
func (f fakePrimary) TranslateRowToString(string, string, uint64) (string, error) {
	return "", pilosa.ErrNotImplemented
}

func (f fakePrimary) Reader(ctx context.Context, off int64) (io.ReadCloser, error) {
	p := f.p
	limit := p.cut
	if sz := pilosa.VerifC24Size(p.st[0]); limit > sz {
		limit = sz
	}
	if limit <= off {
		return io.NopCloser(bytes.NewReader(nil)), nil
	}
	rc, err := p.st[0].Reader(ctx, off)
	if err != nil {
		return nil, err
	}
	return &chopReader{rc: rc, remaining: limit - off, sizes: p.sizes}, nil
}

type chopReader struct {
	rc        io.ReadCloser
	remaining int64
	sizes     []int
	i         int
}

func (c *chopReader) Read(b []byte) (int, error) {
	if c.remaining <= 0 {
		return 0, io.EOF
	}
	n := len(b)
	if len(c.sizes) > 0 {
		if sz := c.sizes[c.i%len(c.sizes)]; sz < n {
			n = sz
		}
		c.i++
	}
	if int64(n) > c.remaining {
		n = int(c.remaining)
	}
	if n == 0 {
		return 0, nil
	}
	m, err := c.rc.Read(b[:n])
	c.remaining -= int64(m)
	return m, err
}

func (c *chopReader) Close() error { return c.rc.Close() }

// ---------- execution ----------

func (p *prop) path(i int) string { return filepath.Join(p.dir, fmt.Sprintf("s%d", i), "keys") }

func (p *prop) open(i int) error {
	s := pilosa.NewTranslateFile(pilosa.OptTranslateFileMapSize(1 << 26))
	s.Path = p.path(i)
	if i == 1 {
		s.PrimaryTranslateStore = fakePrimary{p}
	}
	if err := s.Open(); err != nil {
		return err
	}
	p.st[i] = s
	return nil
}

func (p *prop) reset() {
	for i := range p.st {
		if p.st[i] != nil {
			p.st[i].Close()
			p.st[i] = nil
		}
	}
	if p.dir != "" {
		os.RemoveAll(p.dir)
		p.dir = ""
	}
}

func (p *prop) Exec(lines []string) []string {
	p.reset()
	defer p.reset()
	outs := make([]string, len(lines))
	dir, err := os.MkdirTemp("", "verif-c24-")
	if err != nil {
		for i := range outs {
			outs[i] = "err:tmpdir"
		}
		return outs
	}
	p.dir = dir
	if err := p.open(0); err != nil {
		for i := range outs {
			outs[i] = "err:open"
		}
		return outs
	}
	if err := p.open(1); err != nil {
		for i := range outs {
			outs[i] = "err:open"
		}
		return outs
	}
	for i, l := range lines {
		l := l
		outs[i] = vh.Guard("exec", func() string { return p.execLine(l) })
	}
	return outs
}

func (p *prop) translate(i int, ns nsKey, keys []string) ([]uint64, error) {
	if ns.row {
		return p.st[i].TranslateRowsToUint64(ns.index, ns.field, keys)
	}
	return p.st[i].TranslateColumnsToUint64(ns.index, keys)
}

func (p *prop) reverse(i int, ns nsKey, id uint64) (string, error) {
	if ns.row {
		return p.st[i].TranslateRowToString(ns.index, ns.field, id)
	}
	return p.st[i].TranslateColumnToString(ns.index, id)
}

func (p *prop) fileBytes(i int) []byte {
	b, err := os.ReadFile(p.path(i))
	if err != nil {
		return nil
	}
	return b
}

// boundaries returns the end offsets of the entries in a log file.
func boundaries(data []byte) []int64 {
	var out []int64
	r := bytes.NewReader(data)
	var pos int64
	for {
		var e pilosa.LogEntry
		n, err := e.ReadFrom(r)
		if err != nil {
			return out
		}
		pos += n
		out = append(out, pos)
	}
}

func storeIdx(s string) (int, bool) {
	switch s {
	case "0":
		return 0, true
	case "1":
		return 1, true
	}
	return 0, false
}

func seqOfDump(d string) string {
	if !strings.HasPrefix(d, "seq=") {
		return "0"
	}
	f := strings.Fields(d)
	return strings.TrimPrefix(f[0], "seq=")
}

func (p *prop) execLine(l string) string {
	ws := strings.Fields(l)
	if len(ws) == 0 {
		return "bad-op"
	}
	switch {
	case ws[0] == "tr" && len(ws) == 4:
		i, ok0 := storeIdx(ws[1])
		ns, ok1 := parseNs(ws[2])
		keys, ok2 := parseKeys(ws[3])
		if !ok0 || !ok1 || !ok2 {
			return "bad-op"
		}
		ids, err := p.translate(i, ns, keys)
		if err == pilosa.ErrTranslateStoreReadOnly {
			vh.Count("readonly-error")
			return "ro:" + showIDs(ids)
		} else if err != nil {
			return "err:other"
		}
		return showIDs(ids)
	case ws[0] == "rev" && len(ws) == 4:
		i, ok0 := storeIdx(ws[1])
		ns, ok1 := parseNs(ws[2])
		id, err := strconv.ParseUint(ws[3], 10, 64)
		if !ok0 || !ok1 || err != nil {
			return "bad-op"
		}
		k, err := p.reverse(i, ns, id)
		if err != nil {
			return "err:other"
		}
		return "x" + hex.EncodeToString([]byte(k))
	case (ws[0] == "restart" || ws[0] == "restartq") && len(ws) == 2:
		i, ok0 := storeIdx(ws[1])
		if !ok0 {
			return "bad-op"
		}
		if err := p.st[i].Close(); err != nil {
			return "err:close"
		}
		p.st[i] = nil
		if err := p.open(i); err != nil {
			// keep the harness usable for the remaining lines
			os.Remove(p.path(i))
			_ = p.open(i)
			return "err:replay-decode"
		}
		if ws[0] == "restartq" {
			return "ok"
		}
		return fmt.Sprintf("n=%d", pilosa.VerifC24Size(p.st[i]))
	case ws[0] == "dump" && len(ws) == 3:
		i, ok0 := storeIdx(ws[1])
		ns, ok1 := parseNs(ws[2])
		if !ok0 || !ok1 {
			return "bad-op"
		}
		d := pilosa.VerifC24IndexDump(p.st[i], ns.index, ns.field, ns.row)
		if strings.Contains(d, " cap=256 ") {
			vh.Count("dump-cap-256")
		} else if d != "nil" {
			vh.Count("dump-cap-grown")
		}
		return d
	case ws[0] == "file" && len(ws) == 2:
		i, ok0 := storeIdx(ws[1])
		if !ok0 {
			return "bad-op"
		}
		b := p.fileBytes(i)
		return fmt.Sprintf("n=%d h=%016x", len(b), xxhash.Sum64(b))
	case (ws[0] == "repl" || ws[0] == "replq") && len(ws) == 3:
		data := p.fileBytes(0)
		var cut int64
		switch {
		case ws[1] == "all":
			cut = int64(len(data))
		case strings.HasPrefix(ws[1], "e"):
			k, err := strconv.ParseUint(ws[1][1:], 10, 31)
			if err != nil {
				return "bad-op"
			}
			bs := boundaries(data)
			if k == 0 {
				cut = 0
			} else if int(k) <= len(bs) {
				cut = bs[k-1]
			} else {
				cut = int64(len(data))
			}
		case strings.HasPrefix(ws[1], "b"):
			k, err := strconv.ParseUint(ws[1][1:], 10, 40)
			if err != nil {
				return "bad-op"
			}
			cut = int64(k)
		default:
			return "bad-op"
		}
		var sizes []int
		if ws[2] != "-" && ws[2] != "" {
			for _, t := range strings.Split(ws[2], ",") {
				v, err := strconv.ParseUint(t, 10, 31)
				if err != nil {
					return "bad-op"
				}
				sizes = append(sizes, int(v))
			}
		}
		p.cut, p.sizes = cut, sizes
		before := pilosa.VerifC24Size(p.st[1])
		err := pilosa.VerifC24Replicate(context.Background(), p.st[1])
		after := pilosa.VerifC24Size(p.st[1])
		switch {
		case err != nil:
			vh.Count("repl-ended-with-error")
		case after == before:
			vh.Count("repl-nothing-new")
		case after == int64(len(data)):
			vh.Count("repl-caught-up")
		default:
			vh.Count("repl-partial")
		}
		if ws[0] == "replq" {
			return "ok"
		}
		return fmt.Sprintf("n=%d", after)
	case ws[0] == "same" && len(ws) == 1:
		return "same=" + strconv.FormatBool(bytes.Equal(p.fileBytes(0), p.fileBytes(1)))
	case ws[0] == "conc" && len(ws) == 3:
		ns, ok1 := parseNs(ws[1])
		if !ok1 {
			return "bad-op"
		}
		var batches [][]string
		for _, b := range strings.Split(ws[2], "|") {
			keys, ok := parseKeys(b)
			if !ok {
				return "bad-op"
			}
			batches = append(batches, keys)
		}
		results := make([][]uint64, len(batches))
		errs := make([]error, len(batches))
		var wg sync.WaitGroup
		start := make(chan struct{})
		for b := range batches {
			wg.Add(1)
			go func(b int) {
				defer wg.Done()
				<-start
				results[b], errs[b] = p.translate(0, ns, batches[b])
			}(b)
		}
		close(start)
		wg.Wait()
		byKey := map[string]uint64{}
		byID := map[uint64]string{}
		for b := range batches {
			if errs[b] != nil || len(results[b]) != len(batches[b]) {
				return "bad:call-failed"
			}
			for j, k := range batches[b] {
				id := results[b][j]
				if id == 0 {
					return "bad:zero-id"
				}
				if prev, ok := byKey[k]; ok && prev != id {
					return "bad:key-with-two-ids"
				}
				if prev, ok := byID[id]; ok && prev != k {
					return "bad:id-with-two-keys"
				}
				byKey[k], byID[id] = id, k
			}
		}
		vh.Count("concurrent-lines")
		return "seq=" + seqOfDump(pilosa.VerifC24IndexDump(p.st[0], ns.index, ns.field, ns.row)) + " ok"
	case ws[0] == "race" && len(ws) == 4:
		return p.execRace(ws[1], ws[2], ws[3])
	case ws[0] == "http" && len(ws) == 2:
		return p.execHTTP(ws[1])
	case ws[0] == "chk" && len(ws) == 4:
		i, ok0 := storeIdx(ws[1])
		ns, ok1 := parseNs(ws[2])
		keys, ok2 := parseKeys(ws[3])
		if !ok0 || !ok1 || !ok2 {
			return "bad-op"
		}
		d := pilosa.VerifC24IndexDump(p.st[i], ns.index, ns.field, ns.row)
		if d == "nil" {
			if len(keys) == 0 {
				return "ok distinct=0"
			}
			return "bad:missing"
		}
		seq, _ := strconv.ParseUint(seqOfDump(d), 10, 64)
		ids := make([]uint64, len(keys))
		for j, k := range keys {
			id, ok := pilosa.VerifC24Lookup(p.st[i], ns.index, ns.field, ns.row, []byte(k))
			if !ok {
				return "bad:missing"
			}
			ids[j] = id
		}
		for _, id := range ids {
			if id == 0 || id > seq {
				return "bad:range"
			}
		}
		for j, k := range keys {
			back, err := p.reverse(i, ns, ids[j])
			if err != nil || back != k {
				return "bad:reverse"
			}
		}
		distinct := map[uint64]string{}
		for j, k := range keys {
			if prev, ok := distinct[ids[j]]; ok && prev != k {
				return "bad:shared-id"
			}
			distinct[ids[j]] = k
		}
		return fmt.Sprintf("ok distinct=%d", len(distinct))
	}
	return "bad-op"
}

// execRace: the statistical part of the tie. The two phases of a translation call cannot be gated
// from outside, so the schedule "several callers finish their read-locked phase on a namespace that
// does not exist yet before anyone takes the write lock" is provoked instead of forced: in each of
// `rounds` rounds the batches are translated by goroutines released at the same instant, on a
// namespace nobody has touched before (kind c: fresh index, columns; r: fresh index and field,
// rows; f: a fresh field of an index that already has other namespaces, rows), in a store of its
// own. After every round the mapping must be what C24_bijection says for ANY interleaving of the
// phases: one id per key across all callers, one key per id, ids exactly 1..n, sequence = n,
// lookups and reverse lookups agree, and a second translation changes nothing.
func (p *prop) execRace(kind, roundsTok, batchTok string) string {
	rounds, err := strconv.ParseUint(roundsTok, 10, 16)
	if err != nil || rounds == 0 || (kind != "c" && kind != "r" && kind != "f") {
		return "bad-op"
	}
	var batches [][]string
	distinct := map[string]bool{}
	for _, b := range strings.Split(batchTok, "|") {
		keys, ok := parseKeys(b)
		if !ok {
			return "bad-op"
		}
		batches = append(batches, keys)
		for _, k := range keys {
			distinct[k] = true
		}
	}
	if len(batches) < 1 || len(batches) > 16 {
		return "bad-op"
	}
	// The store of a race line lives on tmpfs when there is one: an append costs an fsync, and on a
	// disk that would limit a line to a handful of rounds.
	base := p.dir
	if fi, err := os.Stat("/dev/shm"); err == nil && fi.IsDir() {
		base = "/dev/shm"
	}
	rdir, err := os.MkdirTemp(base, "verif-c24-race-")
	if err != nil {
		rdir, err = os.MkdirTemp(p.dir, "race-")
	}
	if err != nil {
		return "err:tmpdir"
	}
	defer os.RemoveAll(rdir)
	st := pilosa.NewTranslateFile(pilosa.OptTranslateFileMapSize(1 << 26))
	st.Path = filepath.Join(rdir, "keys")
	if err := st.Open(); err != nil {
		return "err:open"
	}
	defer st.Close()
	if kind == "f" {
		// the index exists already: it has column keys and another field
		if _, err := st.TranslateColumnsToUint64("zi", []string{"a", "b"}); err != nil {
			return "err:other"
		}
		if _, err := st.TranslateRowsToUint64("zi", "base", []string{"a"}); err != nil {
			return "err:other"
		}
	}
	all := make([]string, 0, len(distinct))
	for k := range distinct {
		all = append(all, k)
	}
	sort.Strings(all)
	n := uint64(len(distinct))
	translateIn := func(ns nsKey, keys []string) ([]uint64, error) {
		if ns.row {
			return st.TranslateRowsToUint64(ns.index, ns.field, keys)
		}
		return st.TranslateColumnsToUint64(ns.index, keys)
	}
	// One goroutine per caller for the whole line. They spin (no channel, no Gosched: a woken or
	// descheduled goroutine arrives far too late) until the round counter moves, then call the
	// translation at once; the main goroutine spins until all are back.
	var cur atomic.Value // nsKey of the round
	var roundNo, doneN, stop int32
	results := make([][]uint64, len(batches))
	errs := make([]error, len(batches))
	var wg sync.WaitGroup
	for b := range batches {
		wg.Add(1)
		go func(b int) {
			defer wg.Done()
			seen := int32(0)
			for {
				for atomic.LoadInt32(&roundNo) == seen {
					if atomic.LoadInt32(&stop) == 1 {
						return
					}
				}
				seen = atomic.LoadInt32(&roundNo)
				func() {
					defer func() {
						if e := recover(); e != nil {
							errs[b] = fmt.Errorf("panic")
						}
						atomic.AddInt32(&doneN, 1)
					}()
					results[b], errs[b] = translateIn(cur.Load().(nsKey), batches[b])
				}()
			}
		}(b)
	}
	defer func() {
		atomic.StoreInt32(&stop, 1)
		wg.Wait()
	}()
	detected := func(what string) string {
		vh.Count("race-detected")
		return "bad:" + what
	}
	for round := uint64(0); round < rounds; round++ {
		ns := nsKey{row: kind != "c", index: fmt.Sprintf("z%d", round), field: ""}
		if kind == "r" {
			ns.field = fmt.Sprintf("g%d", round)
		}
		if kind == "f" {
			ns.index, ns.field = "zi", fmt.Sprintf("g%d", round)
		}
		cur.Store(ns)
		atomic.StoreInt32(&doneN, 0)
		atomic.StoreInt32(&roundNo, int32(round+1))
		for atomic.LoadInt32(&doneN) < int32(len(batches)) {
		}
		byKey := map[string]uint64{}
		byID := map[uint64]string{}
		for b := range batches {
			if errs[b] != nil || len(results[b]) != len(batches[b]) {
				return "bad:call-failed"
			}
			for j, k := range batches[b] {
				id := results[b][j]
				if id == 0 {
					return detected("zero-id")
				}
				if prev, ok := byKey[k]; ok && prev != id {
					return detected("key-with-two-ids")
				}
				if prev, ok := byID[id]; ok && prev != k {
					return detected("id-with-two-keys")
				}
				byKey[k], byID[id] = id, k
			}
		}
		for id := uint64(1); id <= n; id++ {
			if _, ok := byID[id]; !ok {
				return detected("ids-not-1..n")
			}
		}
		if seq := seqOfDump(pilosa.VerifC24IndexDump(st, ns.index, ns.field, ns.row)); seq != strconv.FormatUint(n, 10) {
			return detected("sequence")
		}
		for _, k := range all {
			id, ok := pilosa.VerifC24Lookup(st, ns.index, ns.field, ns.row, []byte(k))
			if !ok || id != byKey[k] {
				return detected("lookup-differs")
			}
			var back string
			if ns.row {
				back, _ = st.TranslateRowToString(ns.index, ns.field, id)
			} else {
				back, _ = st.TranslateColumnToString(ns.index, id)
			}
			if back != k {
				return detected("reverse")
			}
		}
		again, err := translateIn(ns, all)
		if err != nil {
			return "bad:call-failed"
		}
		for j, k := range all {
			if again[j] != byKey[k] {
				return detected("id-changed")
			}
		}
	}
	vh.Count("race-lines-" + kind)
	return fmt.Sprintf("rounds=%d seq=%d ok", rounds, n)
}

// execHTTP: column keys are translated by an in-process server (index with keys, one Set per key),
// then a fresh TranslateFile whose primary is pilosa/http's translate store replicates the server's
// whole log over GET /internal/translate/data; the copy must equal the server's file and map every
// key to the id the server gave it.
func (p *prop) execHTTP(keyTok string) string {
	keys, ok := parseKeys(keyTok)
	if !ok {
		return "bad-op"
	}
	for _, k := range keys {
		for _, c := range []byte(k) {
			if !(c >= 'a' && c <= 'z' || c >= '0' && c <= '9') {
				return "bad-op"
			}
		}
		if k == "" {
			return "bad-op"
		}
	}
	if p.s == nil {
		p.s = srv.Start(1)
	}
	p.nidx++
	index := fmt.Sprintf("h%d", p.nidx)
	ctx := context.Background()
	if _, err := p.s.API.CreateIndex(ctx, index, pilosa.IndexOptions{Keys: true}); err != nil {
		return "err:create-index"
	}
	defer p.s.API.DeleteIndex(ctx, index)
	if _, err := p.s.API.CreateField(ctx, index, "f", pilosa.OptFieldTypeSet("ranked", 100)); err != nil {
		return "err:create-field"
	}
	for _, k := range keys {
		if _, err := p.s.Query(index, fmt.Sprintf(`Set("%s", f=1)`, k), nil); err != nil {
			return "err:query"
		}
	}
	primary := filepath.Join(p.s.Dir, ".keys")
	want, err := os.ReadFile(primary)
	if err != nil {
		return "err:read-primary"
	}
	rdir, err := os.MkdirTemp("", "verif-c24-http-")
	if err != nil {
		return "err:tmpdir"
	}
	defer os.RemoveAll(rdir)
	r := pilosa.NewTranslateFile(pilosa.OptTranslateFileMapSize(1 << 24))
	r.Path = filepath.Join(rdir, "keys")
	r.PrimaryTranslateStore = pilosahttp.NewTranslateStore(p.s.API.Node())
	if err := r.Open(); err != nil {
		return "err:open"
	}
	defer r.Close()
	rctx, cancel := context.WithCancel(ctx)
	done := make(chan error, 1)
	go func() { done <- pilosa.VerifC24Replicate(rctx, r) }()
	deadline := time.Now().Add(120 * time.Second)
	for pilosa.VerifC24Size(r) < int64(len(want)) && time.Now().Before(deadline) {
		time.Sleep(2 * time.Millisecond)
	}
	cancel()
	select {
	case <-done:
	case <-time.After(120 * time.Second):
		return "err:replicate-stuck"
	}
	got, _ := os.ReadFile(r.Path)
	ids, err := r.TranslateColumnsToUint64(index, keys)
	if err != nil {
		return "same=" + strconv.FormatBool(bytes.Equal(got, want)) + " err:readonly"
	}
	vh.Count("http-replication")
	return "same=" + strconv.FormatBool(bytes.Equal(got, want)) + " " + showIDs(ids)
}

// ---------- generation ----------

// clusters[s] = indices i such that hashKey("k<i>") & 255 == s.
var clusters = map[int][]int{}

func init() {
	want := map[int]bool{255: true, 0: true, 254: true, 1: true, 100: true}
	for i := 1000; i < 60000; i++ {
		s := int(pilosa.VerifC24HashKey(asciiKey(i)) & 255)
		if want[s] && len(clusters[s]) < 40 {
			clusters[s] = append(clusters[s], i)
		}
	}
}

var specials = []string{"x", "xc3a9", "xe4b896e7958c", "xf09f9880", "x00", "xff00ff", "x6b31", "L127c66", "L128c66", "L300c0", "L5000c97", "L16384c1"}

var nsPool = []string{"c:k0", "c:k1", "r:k0:k0", "r:k0:k1", "c:x", "r:x:x", "r:xc3a9:k0"}

func genPool(r *vh.Rng) []string {
	var pool []string
	for i := 0; i < r.Range(3, 6); i++ {
		pool = append(pool, "k"+strconv.Itoa(r.Range(0, 9)))
	}
	for i := 0; i < r.Range(0, 3); i++ {
		pool = append(pool, specials[r.Intn(len(specials))])
	}
	if r.Chance(1, 2) {
		// keys sharing a home slot, around the wrap-around of the table
		slots := []int{255, 0, 254, 1, 100}
		for i := 0; i < r.Range(2, 8); i++ {
			c := clusters[slots[r.Intn(r.Range(1, len(slots)))]]
			if len(c) > 0 {
				pool = append(pool, "k"+strconv.Itoa(c[r.Intn(len(c))]))
			}
		}
	}
	return pool
}

func genBatch(r *vh.Rng, pool []string, max int) string {
	n := r.Range(0, max)
	if n == 0 {
		return "_"
	}
	ks := make([]string, n)
	for i := range ks {
		ks[i] = pool[r.Intn(len(pool))]
	}
	return strings.Join(ks, ",")
}

func genSizes(r *vh.Rng) string {
	n := r.Range(1, 3)
	ss := make([]string, n)
	for i := range ss {
		ss[i] = strconv.Itoa(r.Pick(1, 1, 2, 3, 7, 64, 4096, 100000))
	}
	return strings.Join(ss, ",")
}

func (p *prop) Gen(r *vh.Rng, tier string, n int) []vh.Case {
	var cases []vh.Case
	for k := 0; k < n; k++ {
		cr := r.Fork()
		if cr.Chance(1, 60) {
			cases = append(cases, genRace(cr, tier))
			continue
		}
		kind := cr.Intn(20)
		switch {
		case kind < 11:
			cases = append(cases, genHistory(cr))
		case kind < 13:
			cases = append(cases, genGrowth(cr, tier))
		case kind < 17:
			cases = append(cases, genReplication(cr))
		default:
			cases = append(cases, genConcurrent(cr))
		}
	}
	return cases
}

func genHistory(r *vh.Rng) vh.Case {
	pool := genPool(r)
	nss := []string{nsPool[r.Intn(len(nsPool))], nsPool[r.Intn(len(nsPool))]}
	var lines []string
	trs, special := 0, false
	entries := 0
	for i := 0; i < r.Range(6, 24); i++ {
		ns := nss[r.Intn(2)]
		switch x := r.Intn(100); {
		case x < 40:
			lines = append(lines, fmt.Sprintf("tr 0 %s %s", ns, genBatch(r, pool, 6)))
			trs++
			entries++
		case x < 48:
			lines = append(lines, fmt.Sprintf("tr 1 %s %s", ns, genBatch(r, pool, 4)))
		case x < 60:
			lines = append(lines, fmt.Sprintf("rev %d %s %d", r.Intn(2), ns, r.Range(0, 8)))
		case x < 66:
			lines = append(lines, fmt.Sprintf("restart %d", r.Intn(2)))
			special = true
		case x < 78:
			cut := "all"
			if r.Chance(1, 2) {
				cut = fmt.Sprintf("e%d", r.Range(0, entries+1))
			} else if r.Chance(1, 3) {
				cut = fmt.Sprintf("b%d", r.Range(0, 40*(entries+1)))
			}
			lines = append(lines, fmt.Sprintf("repl %s %s", cut, genSizes(r)))
			special = true
		case x < 86:
			lines = append(lines, fmt.Sprintf("dump %d %s", r.Intn(2), ns))
		case x < 92:
			lines = append(lines, fmt.Sprintf("file %d", r.Intn(2)))
		default:
			lines = append(lines, fmt.Sprintf("chk %d %s %s", r.Intn(2), ns, genBatch(r, pool, 5)))
		}
	}
	if r.Chance(1, 12) {
		n := r.Range(1, 5)
		ks := make([]string, n)
		for i := range ks {
			ks[i] = "k" + strconv.Itoa(r.Range(0, 6))
		}
		lines = append(lines, "http "+strings.Join(ks, ","))
	}
	return vh.Case{Lines: lines, Nontrivial: trs >= 2 && special}
}

func genGrowth(r *vh.Rng, tier string) vh.Case {
	ns := nsPool[r.Intn(len(nsPool))]
	base := r.Range(100, 5000)
	total := r.Range(225, 260)
	if tier == "thorough" && r.Chance(1, 4) {
		total = r.Range(455, 480) // second doubling
	}
	var lines []string
	// several batches so that growth happens in the middle of a batch or exactly at its edge
	at := base
	for at < base+total {
		step := r.Pick(1, 3, 50, 229, 230, 231, 240)
		if at+step > base+total {
			step = base + total - at
		}
		extra := ""
		if r.Chance(1, 3) {
			extra = fmt.Sprintf(",k%d", r.Range(base, at+step)) // repeat inside the batch
		}
		lines = append(lines, fmt.Sprintf("tr 0 %s k%d-%d%s", ns, at, at+step-1, extra))
		at += step
	}
	lines = append(lines, "dump 0 "+ns)
	lines = append(lines, fmt.Sprintf("chk 0 %s k%d-%d", ns, base, base+total-1))
	lines = append(lines, fmt.Sprintf("rev 0 %s %d", ns, r.Range(1, total)))
	lines = append(lines, "restart 0", "dump 0 "+ns)
	lines = append(lines, fmt.Sprintf("repl e%d %s", r.Range(0, 2), genSizes(r)), "dump 1 "+ns)
	lines = append(lines, "repl all "+genSizes(r), "dump 1 "+ns, "file 1", "file 0")
	lines = append(lines, fmt.Sprintf("tr 1 %s k%d,k%d", ns, base, base+total))
	lines = append(lines, fmt.Sprintf("tr 0 %s k%d,k%d", ns, base+total-1, base+total))
	return vh.Case{Lines: lines, Nontrivial: true}
}

func genReplication(r *vh.Rng) vh.Case {
	pool := genPool(r)
	nss := []string{nsPool[r.Intn(len(nsPool))], nsPool[r.Intn(len(nsPool))]}
	var lines []string
	m := r.Range(3, 8)
	for i := 0; i < m; i++ {
		lines = append(lines, fmt.Sprintf("tr 0 %s %s", nss[r.Intn(2)], genBatch(r, pool, 5)))
	}
	// every boundary in ascending order, with mid-entry cuts and replica restarts in between
	for kk := 0; kk <= m; kk++ {
		if r.Chance(1, 4) {
			continue
		}
		if r.Chance(1, 3) {
			lines = append(lines, fmt.Sprintf("repl b%d %s", r.Range(0, 30*m), genSizes(r)))
		}
		lines = append(lines, fmt.Sprintf("repl e%d %s", kk, genSizes(r)))
		switch r.Intn(5) {
		case 0:
			lines = append(lines, "file 1")
		case 1:
			lines = append(lines, "dump 1 "+nss[r.Intn(2)])
		case 2:
			lines = append(lines, fmt.Sprintf("tr 1 %s %s", nss[r.Intn(2)], genBatch(r, pool, 4)))
		case 3:
			lines = append(lines, "restart 1")
		}
		if r.Chance(1, 5) {
			lines = append(lines, fmt.Sprintf("tr 0 %s %s", nss[r.Intn(2)], genBatch(r, pool, 5)))
		}
	}
	lines = append(lines, "repl all "+genSizes(r), "file 0", "file 1", "same", "dump 1 "+nss[0], "dump 0 "+nss[0])
	return vh.Case{Lines: lines, Nontrivial: true}
}

// genRace: callers released together on fresh namespaces; batches form a ring (neighbours share a
// key and differ in another) plus one key common to all, so that any two callers that overlap in
// time both share and do not share keys.
func genRace(r *vh.Rng, tier string) vh.Case {
	nb := r.Range(2, 4)
	base := r.Range(0, 50)
	bs := make([]string, nb)
	for i := range bs {
		ks := []string{fmt.Sprintf("k%d", base+i), fmt.Sprintf("k%d", base+(i+1)%nb)}
		if r.Chance(2, 3) {
			ks = append(ks, "k999")
		}
		if r.Chance(1, 4) {
			ks = append(ks, ks[0]) // repeat inside the batch
		}
		bs[i] = strings.Join(ks, ",")
	}
	rounds := 60
	if tier == "thorough" {
		rounds = 150
	}
	kind := []string{"c", "c", "r", "r", "f"}[r.Intn(5)]
	return vh.Case{Lines: []string{fmt.Sprintf("race %s %d %s", kind, rounds, strings.Join(bs, "|"))}, Nontrivial: true}
}

func genConcurrent(r *vh.Rng) vh.Case {
	pool := genPool(r)
	ns := nsPool[r.Intn(len(nsPool))]
	var lines []string
	var used []string
	for i := 0; i < r.Range(0, 2); i++ {
		b := genBatch(r, pool, 4)
		lines = append(lines, fmt.Sprintf("tr 0 %s %s", ns, b))
		if b != "_" {
			used = append(used, b)
		}
	}
	for i := 0; i < r.Range(1, 4); i++ {
		nb := r.Range(2, 6)
		bs := make([]string, nb)
		for j := range bs {
			bs[j] = genBatch(r, pool, 5)
			if bs[j] != "_" {
				used = append(used, bs[j])
			}
		}
		lines = append(lines, fmt.Sprintf("conc %s %s", ns, strings.Join(bs, "|")))
		all := "_"
		if len(used) > 0 {
			all = strings.Join(used, ",")
		}
		lines = append(lines, fmt.Sprintf("chk 0 %s %s", ns, all))
		if r.Chance(1, 3) {
			lines = append(lines, "restartq 0", fmt.Sprintf("chk 0 %s %s", ns, all))
		}
		if r.Chance(1, 2) {
			lines = append(lines, "replq all "+genSizes(r), "same", fmt.Sprintf("chk 1 %s %s", ns, all))
		}
	}
	sort.Strings(used)
	return vh.Case{Lines: lines, Nontrivial: true}
}

func main() {
	p := &prop{}
	defer func() {
		p.reset()
		if p.s != nil {
			p.s.Stop()
		}
	}()
	vh.Main(p)
}
