// Harness for C12: TopN reports true row counts.
//
// Line formats are documented in lean/PV/C12/Main.lean. An `open` case drives one real fragment
// (scratch file, cache type ranked/lru/none, cache size 1-4 or 10) through every write path and
// `fragment.top`; an `srv` case drives a field with two shards on an in-process server: writes go
// through PQL Set/Clear and the fragment write paths, reads through PQL TopN (two-pass executor).
//
// The real code leaves three things to the Go runtime (order of equal counts after sort.Sort over a
// map, iteration order of the rowSet map, the 10 s invalidate throttle). The throttle is set per
// line (t0/t1) through the hook; the two orders are observed through the hook and appended to the
// line after ` ~ ` so that the model can follow the same choice after validating it.
package main

import (
	"context"
	"fmt"
	"os"
	"sort"
	"strconv"
	"strings"
	"time"

	"github.com/pilosa/pilosa"
	"verifharness/vh"
	"verifharness/vh/srv"
)

const sw = pilosa.ShardWidth

type prop struct {
	s   *srv.Server
	idx int
}

func (p *prop) Rule() string {
	return "histories of 6-16 operations over 2-7 rows and 6 columns on a fragment whose cache (ranked/lru/none) has size 1-4 (or 10 with up to 13 rows): " +
		"setBit, clearBit, setRow, clearRow, bulk import (set/clear), roaring import (set/clear), RecalculateCache, close+reopen, each with the " +
		"invalidate throttle on or off, interleaved with top(ids / n / filter row / threshold) and cache dumps; srv cases run the same writes on two shards " +
		"and read through PQL TopN; pair cases (1 in 6): two fragments of one field, writes on both, hand-over WriteTo->ReadFrom in either direction onto a fresh or non-empty receiver, " +
		"then top(ids), top(n), cache dump and row reads on the receiver. A case is non-trivial when it writes more distinct rows than the cache holds and contains a top with explicit ids after that"
}

// ---------- generation ----------

func genBits(r *vh.Rng, rows []int, maxBits int) string {
	n := r.Range(1, maxBits)
	seen := map[string]bool{}
	var bs []string
	for i := 0; i < n; i++ {
		b := fmt.Sprintf("%d:%d", rows[r.Intn(len(rows))], r.Intn(6))
		if !seen[b] {
			seen[b] = true
			bs = append(bs, b)
		}
	}
	return strings.Join(bs, ",")
}

func genSubset(r *vh.Rng, max, num, den int) string {
	var out []uint64
	for v := 0; v < max; v++ {
		if r.Chance(num, den) {
			out = append(out, uint64(v))
		}
	}
	return vh.CSV(out)
}

func genIDs(r *vh.Rng, rows []int) string {
	perm := r.Perm(len(rows))
	k := r.Range(1, len(rows))
	if k > 4 {
		k = 4
	}
	var out []uint64
	for _, i := range perm[:k] {
		out = append(out, uint64(rows[i]))
	}
	if r.Chance(1, 8) {
		out = append(out, uint64(rows[len(rows)-1]+1)) // a row that was never written
	}
	return vh.CSV(out)
}

func genTop(r *vh.Rng, rows []int, srcMode string) string {
	ids := "-"
	n := 0
	if r.Chance(1, 2) {
		ids = genIDs(r, rows)
	} else {
		n = r.Pick(0, 1, 1, 2, 2, 3, 5)
	}
	thr := r.Pick(0, 0, 0, 1, 2, 3)
	src := "none"
	if r.Chance(1, 3) {
		if srcMode == "g" {
			src = "g"
		} else {
			src = genSubset(r, 6, 1, 2)
		}
	}
	return fmt.Sprintf("n=%d thr=%d ids=%s src=%s", n, thr, ids, src)
}

func genWrite(r *vh.Rng, rows []int) (string, []int) {
	t := fmt.Sprintf("t%d", r.Intn(2))
	row := rows[r.Intn(len(rows))]
	switch x := r.Intn(100); {
	case x < 34:
		return fmt.Sprintf("set %s %d %d", t, row, r.Intn(6)), []int{row}
	case x < 48:
		return fmt.Sprintf("clear %s %d %d", t, row, r.Intn(6)), nil
	case x < 54:
		return fmt.Sprintf("setrow %s %d %s", t, row, genSubset(r, 6, 1, 2)), []int{row}
	case x < 60:
		return fmt.Sprintf("clearrow %s %d", t, row), nil
	case x < 72:
		return fmt.Sprintf("import %s %s", t, genBits(r, rows, 6)), rows
	case x < 78:
		return fmt.Sprintf("importclear %s %s", t, genBits(r, rows, 4)), nil
	case x < 90:
		return fmt.Sprintf("roaring %s %s", t, genBits(r, rows, 6)), rows
	case x < 96:
		return fmt.Sprintf("roaringclear %s %s", t, genBits(r, rows, 4)), nil
	case x < 98:
		return "recalc", nil
	default:
		return "reopen", nil
	}
}

// genPairCase: two fragments of one field (same cache type, sizes may differ); writes on both, then
// hand-overs (WriteTo -> ReadFrom) in either direction onto a receiver that is fresh or holds other
// / older data, each followed by top with ids, top(n), a cache dump and row reads on the receiver.
func genPairCase(r *vh.Rng) vh.Case {
	kind := r.PickS("ranked", "ranked", "ranked", "lru", "lru", "none")
	sa, sb := r.Pick(1, 2, 2, 3, 4), r.Pick(1, 2, 2, 3, 4)
	nrows := r.Range(2, 5)
	rows := make([]int, nrows)
	for i := range rows {
		rows[i] = i
	}
	lines := []string{fmt.Sprintf("pair %s %d %s %d", kind, sa, kind, sb)}
	after := func(k int) {
		lines = append(lines,
			fmt.Sprintf("sh %d top t%d n=0 thr=0 ids=%s src=none", k, r.Intn(2), genIDs(r, rows)),
			fmt.Sprintf("sh %d top t%d n=%d thr=%d ids=- src=none", k, r.Intn(2), r.Pick(0, 1, 2, 5), r.Pick(0, 0, 1, 2)),
			fmt.Sprintf("sh %d cache", k),
			fmt.Sprintf("row %d %d", k, rows[r.Intn(nrows)]))
		if r.Chance(1, 3) {
			lines = append(lines, fmt.Sprintf("sh %d top t%d %s", k, r.Intn(2), genTop(r, rows, "")))
		}
	}
	nw := r.Range(2, 7)
	for i := 0; i < nw; i++ {
		w, _ := genWrite(r, rows)
		lines = append(lines, fmt.Sprintf("sh 0 %s", w))
	}
	if r.Chance(2, 3) { // the receiver holds other / older data
		nb := r.Range(1, 5)
		for i := 0; i < nb; i++ {
			w, _ := genWrite(r, rows)
			lines = append(lines, fmt.Sprintf("sh 1 %s", w))
		}
	}
	lines = append(lines, "transfer 0 1")
	after(1)
	if r.Chance(1, 2) {
		nw := r.Range(1, 4)
		for i := 0; i < nw; i++ {
			w, _ := genWrite(r, rows)
			lines = append(lines, fmt.Sprintf("sh %d %s", r.Intn(2), w))
		}
		if r.Chance(1, 2) {
			lines = append(lines, "transfer 1 0")
			after(0)
		} else {
			lines = append(lines, "transfer 0 1")
			after(1)
		}
	}
	return vh.Case{Lines: lines, Nontrivial: true}
}

func (p *prop) Gen(r *vh.Rng, tier string, n int) []vh.Case {
	var cases []vh.Case
	for k := 0; k < n; k++ {
		cr := r.Fork()
		if cr.Chance(1, 6) && hasTransferHook() {
			cases = append(cases, genPairCase(cr))
			continue
		}
		isSrv := cr.Chance(1, 10)
		kind := cr.PickS("ranked", "ranked", "ranked", "ranked", "lru", "lru", "lru", "none")
		if isSrv && kind == "none" {
			kind = "ranked"
		}
		size := cr.Pick(1, 1, 2, 2, 3, 4)
		nrows := size + cr.Range(0, 3)
		if cr.Chance(1, 20) {
			size = 10
			nrows = cr.Range(9, 13)
		}
		if nrows < 2 {
			nrows = 2
		}
		rows := make([]int, nrows)
		base := cr.Pick(0, 0, 1, 7)
		for i := range rows {
			rows[i] = base + i
		}
		var lines []string
		written := map[int]bool{}
		nontrivial := false
		nops := cr.Range(6, 16)
		if isSrv {
			lines = append(lines, fmt.Sprintf("srv %s %d", kind, size))
			for i := 0; i < nops; i++ {
				switch x := cr.Intn(100); {
				case x < 60:
					w, _ := genWrite(cr, rows)
					if w == "reopen" {
						w = "recalc"
					}
					lines = append(lines, fmt.Sprintf("sh %d %s", cr.Intn(2), w))
				case x < 70:
					lines = append(lines, fmt.Sprintf("gset %d %d", cr.Intn(2), cr.Intn(6)))
				default:
					lines = append(lines, fmt.Sprintf("topn t%d %s", cr.Intn(2), genTop(cr, rows, "g")))
					nontrivial = true
				}
			}
			lines = append(lines, fmt.Sprintf("topn t%d n=0 thr=0 ids=%s src=none", cr.Intn(2), genIDs(cr, rows)))
		} else {
			lines = append(lines, fmt.Sprintf("open %s %d", kind, size))
			for i := 0; i < nops; i++ {
				switch x := cr.Intn(100); {
				case x < 65:
					w, rs := genWrite(cr, rows)
					for _, q := range rs {
						written[q] = true
					}
					lines = append(lines, w)
				case x < 70:
					lines = append(lines, "cache")
				default:
					tl := genTop(cr, rows, "")
					lines = append(lines, fmt.Sprintf("top t%d %s", cr.Intn(2), tl))
					if len(written) > size && !strings.Contains(tl, "ids=-") {
						nontrivial = true
					}
				}
			}
			lines = append(lines, fmt.Sprintf("top t%d n=0 thr=0 ids=%s src=none", cr.Intn(2), genIDs(cr, rows)), "cache")
			if len(written) > size {
				nontrivial = true
			}
		}
		cases = append(cases, vh.Case{Lines: lines, Nontrivial: nontrivial})
	}
	return cases
}

// ---------- execution ----------

type caseState struct {
	frags []*pilosa.VerifC12Frag
	dir   string // stand-alone
	index string // srv
	kind  string
	pair  bool // two stand-alone fragments (hand-over cases)
}

func parseBits(s string) (rows, cols []uint64) {
	if s == "-" || s == "" {
		return
	}
	for _, b := range strings.Split(s, ",") {
		p := strings.Split(b, ":")
		r, _ := strconv.ParseUint(p[0], 10, 64)
		c, _ := strconv.ParseUint(p[1], 10, 64)
		rows = append(rows, r)
		cols = append(cols, c)
	}
	return
}

func showPairs(ps []pilosa.Pair) string {
	if len(ps) == 0 {
		return "-"
	}
	for i := 1; i < len(ps); i++ {
		if ps[i].Count > ps[i-1].Count {
			return "unordered " + fmt.Sprint(ps)
		}
	}
	ps = append([]pilosa.Pair(nil), ps...)
	sort.SliceStable(ps, func(i, j int) bool {
		if ps[i].Count != ps[j].Count {
			return ps[i].Count > ps[j].Count
		}
		return ps[i].ID < ps[j].ID
	})
	ss := make([]string, len(ps))
	for i, p := range ps {
		ss[i] = fmt.Sprintf("%d:%d", p.ID, p.Count)
	}
	return strings.Join(ss, " ")
}

func kv(w, key string) string { return strings.TrimPrefix(w, key+"=") }

func stripHints(l string) string {
	if i := strings.Index(l, " ~"); i >= 0 {
		return l[:i]
	}
	return l
}

// hintsOf turns the events of one shard into hint words.
func hintsOf(shard int, ev []string, wantAdds bool) []string {
	var out, adds []string
	flush := func() {
		if len(adds) > 0 && wantAdds {
			out = append(out, fmt.Sprintf("%d/a:%s", shard, strings.Join(adds, ",")))
		}
		adds = nil
	}
	for _, e := range ev {
		switch {
		case strings.HasPrefix(e, "B"):
			adds = append(adds, e[1:])
		case strings.HasPrefix(e, "A"):
			flush()
		default:
			flush()
			out = append(out, fmt.Sprintf("%d/%s", shard, e))
		}
	}
	flush()
	return out
}

// The hand-over hooks were added after the first C12 hook commit; on a tree that does not have them
// yet, pair cases are not generated and a replayed pair case is answered `skip` line by line.
type transferHook interface {
	Transfer(*pilosa.VerifC12Frag) error
	Row(uint64) []uint64
}

func hasTransferHook() bool {
	var f *pilosa.VerifC12Frag
	_, ok := interface{}(f).(transferHook)
	return ok
}

func (p *prop) Exec(lines []string) []string {
	outs := make([]string, len(lines))
	if len(lines) > 0 && strings.HasPrefix(lines[0], "pair ") && !hasTransferHook() {
		for i := range lines {
			lines[i], outs[i] = "skip", "skip"
		}
		vh.Count("pair-case-skipped-no-hook")
		return outs
	}
	st := &caseState{}
	t0 := time.Now()
	defer func() {
		p.cleanup(st)
		if st.index != "" {
			vh.Extra["ms-srv-cases"] += int(time.Since(t0) / time.Millisecond)
		} else {
			vh.Extra["ms-frag-cases"] += int(time.Since(t0) / time.Millisecond)
		}
	}()
	for i := range lines {
		base := stripHints(lines[i])
		var hints []string
		outs[i] = vh.Guard("exec", func() string {
			o, h := p.execLine(st, base)
			hints = h
			return o
		})
		if len(hints) > 0 {
			lines[i] = base + " ~ " + strings.Join(hints, " ")
		} else {
			lines[i] = base
		}
	}
	return outs
}

func (p *prop) cleanup(st *caseState) {
	if st.dir != "" {
		for _, f := range st.frags {
			func() {
				defer func() { _ = recover() }()
				_ = f.Close()
			}()
		}
		_ = os.RemoveAll(st.dir)
	}
	if st.index != "" {
		_ = p.s.API.DeleteIndex(context.Background(), st.index)
	}
}

func (p *prop) drain(st *caseState, wantAdds bool) []string {
	var hs []string
	for k, f := range st.frags {
		hs = append(hs, hintsOf(k, f.Drain(), wantAdds)...)
	}
	return hs
}

func (p *prop) execLine(st *caseState, l string) (string, []string) {
	ws := strings.Fields(l)
	if len(ws) == 0 {
		return "bad-op", nil
	}
	switch ws[0] {
	case "pair":
		if len(ws) != 5 || len(st.frags) > 0 {
			return "bad-op", nil
		}
		dir, err := os.MkdirTemp("", "verif-c12-")
		if err != nil {
			return "err:tempdir", nil
		}
		st.dir = dir
		st.pair = true
		for k := 0; k < 2; k++ {
			kind := ws[1+2*k]
			size, err := strconv.Atoi(ws[2+2*k])
			if err != nil || (kind != "ranked" && kind != "lru" && kind != "none") {
				return "bad-op", nil
			}
			sub := fmt.Sprintf("%s/%d", dir, k)
			if err := os.Mkdir(sub, 0o755); err != nil {
				return "err:tempdir", nil
			}
			f, err := pilosa.VerifC12OpenFragment(sub, kind, uint32(size))
			if err != nil {
				return "err:open", nil
			}
			st.frags = append(st.frags, f)
		}
		st.kind = ws[1]
		vh.Count("case-pair-" + ws[1])
		return "ok", nil
	case "open", "srv":
		if len(ws) != 3 || len(st.frags) > 0 {
			return "bad-op", nil
		}
		size, err := strconv.Atoi(ws[2])
		if err != nil || (ws[1] != "ranked" && ws[1] != "lru" && ws[1] != "none") {
			return "bad-op", nil
		}
		st.kind = ws[1]
		if ws[0] == "open" {
			dir, err := os.MkdirTemp("", "verif-c12-")
			if err != nil {
				return "err:tempdir", nil
			}
			st.dir = dir
			f, err := pilosa.VerifC12OpenFragment(dir, ws[1], uint32(size))
			if err != nil {
				return "err:open", nil
			}
			st.frags = []*pilosa.VerifC12Frag{f}
			vh.Count("case-frag-" + ws[1])
			return "ok", nil
		}
		if p.s == nil {
			p.s = srv.Start(1)
		}
		p.idx++
		st.index = fmt.Sprintf("i%d", p.idx)
		ctx := context.Background()
		if _, err := p.s.API.CreateIndex(ctx, st.index, pilosa.IndexOptions{}); err != nil {
			return "err:create-index", nil
		}
		if _, err := p.s.API.CreateField(ctx, st.index, "f", pilosa.OptFieldTypeSet(ws[1], uint32(size))); err != nil {
			return "err:create-field", nil
		}
		if _, err := p.s.API.CreateField(ctx, st.index, "g", pilosa.OptFieldTypeSet("ranked", 100)); err != nil {
			return "err:create-field", nil
		}
		for k := uint64(0); k < 2; k++ {
			f, err := pilosa.VerifC12HolderFragment(p.s.Server.Holder(), st.index, "f", k)
			if err != nil {
				return "err:fragment", nil
			}
			st.frags = append(st.frags, f)
		}
		vh.Count("case-srv-" + ws[1])
		return "ok", nil
	}
	if len(st.frags) == 0 {
		return "bad-op", nil
	}
	switch ws[0] {
	case "transfer":
		if len(ws) != 3 || !st.pair {
			return "bad-op", nil
		}
		i, err1 := strconv.Atoi(ws[1])
		j, err2 := strconv.Atoi(ws[2])
		if err1 != nil || err2 != nil || i == j || i < 0 || j < 0 || i > 1 || j > 1 {
			return "bad-op", nil
		}
		if err := interface{}(st.frags[j]).(transferHook).Transfer(st.frags[i]); err != nil {
			return "err:transfer", p.drain(st, false)
		}
		vh.Count("transfer")
		return "ok", p.drain(st, false)
	case "row":
		if len(ws) != 3 || !st.pair {
			return "bad-op", nil
		}
		k, err1 := strconv.Atoi(ws[1])
		r, err2 := strconv.ParseUint(ws[2], 10, 64)
		if err1 != nil || err2 != nil || k < 0 || k > 1 {
			return "bad-op", nil
		}
		vh.Count("row")
		return vh.U64s(interface{}(st.frags[k]).(transferHook).Row(r)), nil
	case "sh":
		if len(ws) < 3 || (st.index == "" && !st.pair) {
			return "bad-op", nil
		}
		k, err := strconv.Atoi(ws[1])
		if err != nil || k < 0 || k >= len(st.frags) {
			return "bad-op", nil
		}
		o := p.fragOp(st, k, ws[2:])
		return o, p.drain(st, strings.HasPrefix(ws[2], "import") || strings.HasPrefix(ws[2], "roaring"))
	case "gset":
		if len(ws) != 3 || st.index == "" {
			return "bad-op", nil
		}
		k, err1 := strconv.ParseUint(ws[1], 10, 64)
		c, err2 := strconv.ParseUint(ws[2], 10, 64)
		if err1 != nil || err2 != nil || k > 1 {
			return "bad-op", nil
		}
		if _, err := p.s.Query(st.index, fmt.Sprintf("Set(%d, g=0)", k*sw+c), nil); err != nil {
			return "err:gset", nil
		}
		return "ok", nil
	case "topn":
		if len(ws) != 6 || st.index == "" {
			return "bad-op", nil
		}
		for _, f := range st.frags {
			f.SetThrottled(ws[1] == "t1")
		}
		n, _ := strconv.Atoi(kv(ws[2], "n"))
		thr, _ := strconv.Atoi(kv(ws[3], "thr"))
		ids := vh.ParseCSV(kv(ws[4], "ids"))
		args := []string{"f"}
		if kv(ws[5], "src") == "g" {
			args = append(args, "Row(g=0)")
		}
		if n > 0 {
			args = append(args, fmt.Sprintf("n=%d", n))
		}
		if thr > 0 {
			args = append(args, fmt.Sprintf("threshold=%d", thr))
		}
		if len(ids) > 0 {
			ss := make([]string, len(ids))
			for i, id := range ids {
				ss[i] = strconv.FormatUint(id, 10)
			}
			args = append(args, "ids=["+strings.Join(ss, ",")+"]")
		}
		res, err := p.s.Query(st.index, "TopN("+strings.Join(args, ", ")+")", []uint64{0, 1})
		hints := p.drain(st, false)
		if err != nil {
			return "err:topn", hints
		}
		ps, _ := res[0].([]pilosa.Pair)
		pick := make([]string, len(ps))
		for i, q := range ps {
			pick[i] = strconv.FormatUint(q.ID, 10)
		}
		if len(pick) > 0 {
			hints = append(hints, "p:"+strings.Join(pick, ","))
		}
		vh.Count("topn")
		return showPairs(ps), hints
	}
	if st.index != "" {
		return "bad-op", nil
	}
	o := p.fragOp(st, 0, ws)
	return o, p.drain(st, strings.HasPrefix(ws[0], "import") || strings.HasPrefix(ws[0], "roaring"))
}

func tflag(s string) (bool, bool) {
	switch s {
	case "t0":
		return false, true
	case "t1":
		return true, true
	}
	return false, false
}

func (p *prop) fragOp(st *caseState, k int, ws []string) string {
	f := st.frags[k]
	shardBase := uint64(k) * sw
	if st.pair {
		shardBase = 0 // both fragments are shard 0 of their own scratch file
	}
	u := func(s string) (uint64, bool) {
		v, err := strconv.ParseUint(s, 10, 64)
		return v, err == nil
	}
	if len(ws) >= 2 {
		if t, ok := tflag(ws[1]); ok {
			f.SetThrottled(t)
		}
	}
	switch {
	case (ws[0] == "set" || ws[0] == "clear") && len(ws) == 4:
		r, ok1 := u(ws[2])
		c, ok2 := u(ws[3])
		if _, ok := tflag(ws[1]); !ok || !ok1 || !ok2 {
			return "bad-op"
		}
		var ch bool
		var err error
		if st.index != "" {
			q := fmt.Sprintf("Set(%d, f=%d)", shardBase+c, r)
			if ws[0] == "clear" {
				q = fmt.Sprintf("Clear(%d, f=%d)", shardBase+c, r)
			}
			var res []interface{}
			res, err = p.s.Query(st.index, q, nil)
			if err == nil {
				ch, _ = res[0].(bool)
			}
		} else if ws[0] == "set" {
			ch, err = f.SetBit(r, c)
		} else {
			ch, err = f.ClearBit(r, c)
		}
		if err != nil {
			return "err:" + ws[0]
		}
		vh.Count(ws[0])
		return strconv.FormatBool(ch)
	case ws[0] == "setrow" && len(ws) == 4:
		r, ok1 := u(ws[2])
		if _, ok := tflag(ws[1]); !ok || !ok1 {
			return "bad-op"
		}
		cols := vh.ParseCSV(ws[3])
		for i := range cols {
			cols[i] += shardBase
		}
		if _, err := f.SetRow(r, cols); err != nil {
			return "err:setrow"
		}
		vh.Count("setrow")
		return "ok"
	case ws[0] == "clearrow" && len(ws) == 3:
		r, ok1 := u(ws[2])
		if _, ok := tflag(ws[1]); !ok || !ok1 {
			return "bad-op"
		}
		if _, err := f.ClearRow(r); err != nil {
			return "err:clearrow"
		}
		vh.Count("clearrow")
		return "ok"
	case (ws[0] == "import" || ws[0] == "importclear" || ws[0] == "roaring" || ws[0] == "roaringclear") && len(ws) == 3:
		if _, ok := tflag(ws[1]); !ok {
			return "bad-op"
		}
		rows, cols := parseBits(ws[2])
		for i := range cols {
			cols[i] += shardBase
		}
		var err error
		if strings.HasPrefix(ws[0], "import") {
			err = f.Import(rows, cols, ws[0] == "importclear")
		} else {
			err = f.ImportRoaring(rows, cols, ws[0] == "roaringclear")
		}
		if err != nil {
			return "err:" + ws[0]
		}
		vh.Count(ws[0])
		return "ok"
	case ws[0] == "recalc" && len(ws) == 1:
		f.Recalculate()
		return "ok"
	case ws[0] == "reopen" && len(ws) == 1:
		if st.index != "" {
			return "bad-op"
		}
		if err := f.Reopen(); err != nil {
			return "err:reopen"
		}
		vh.Count("reopen")
		return "ok"
	case ws[0] == "cache" && len(ws) == 1:
		return f.CacheDump()
	case ws[0] == "top" && len(ws) == 6:
		if _, ok := tflag(ws[1]); !ok {
			return "bad-op"
		}
		n, _ := strconv.Atoi(kv(ws[2], "n"))
		thr, _ := strconv.ParseUint(kv(ws[3], "thr"), 10, 64)
		ids := vh.ParseCSV(kv(ws[4], "ids"))
		srcS := kv(ws[5], "src")
		var src []uint64
		if srcS != "none" {
			src = vh.ParseCSV(srcS)
			for i := range src {
				src[i] += shardBase
			}
		}
		ps, err := f.Top(n, srcS != "none", src, ids, thr)
		if err != nil {
			return "err:top"
		}
		if len(ids) > 0 {
			vh.Count("top-ids")
		} else {
			vh.Count("top-n")
		}
		return showPairs(ps)
	}
	return "bad-op"
}

func main() {
	p := &prop{}
	defer func() {
		if p.s != nil {
			p.s.Stop()
		}
	}()
	vh.Main(p)
}
