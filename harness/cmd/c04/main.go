// Harness for C04: roaring encodings round-trip; official format decodes to the described set
// and leaves the input alone; ImportRoaringBits = decode-then-merge with the exact changed count.
//
// Line formats and answers are documented in lean/PV/C04/Main.lean. Every buffer handed to the
// real decoders has cap == len and ends at an inaccessible page (codec.Guard), so a read or write
// past the end of the input is a (recovered) fault, and the buffer is compared with the original
// bytes after the call.
package main

import (
	"bytes"
	"encoding/json"
	"fmt"
	"os"
	"runtime/debug"
	"strconv"
	"strings"

	"github.com/pilosa/pilosa/roaring"
	"verifharness/cmd/c04/codec"
	"verifharness/vh"
)

type prop struct{}

func (p *prop) Rule() string {
	return "one bitmap per line, built container by container (keys from {0,1,2,3,5,65535,2^32,2^47-1}, encodings array/bitmap/run, " +
		"contents drawn around the format's boundaries: 0/65535 edges, full and empty containers, 4095/4096/4097 values, run counts at N/2 and 2047..2049, " +
		"<=2 vs >=3 runs, <=5 vs >=6 array values); rt/un = Pilosa format, off = official format written by the reference encoder in modes 0/1/2 " +
		"(incl. >=4 containers with runs, 4096-value arrays), raw = fixtures from the repo's tests, imp = import of such payloads in set/clear mode into such targets " +
		"on slice and B-tree collections. A case is non-trivial when at least one container holds data (for imp: target and payload both non-empty)"
}

// ---------- generation ----------

func rangesOf(vs []int) string {
	if len(vs) == 0 {
		return "-"
	}
	u := make([]uint64, len(vs))
	for i, v := range vs {
		u[i] = uint64(v)
	}
	return codec.ShowRanges(u)
}

// genValues draws the ascending low values of one container.
func genValues(r *vh.Rng, allowEmpty bool) []int {
	set := map[int]bool{}
	addRun := func(s, n int) {
		for v := s; v < s+n && v <= 65535; v++ {
			set[v] = true
		}
	}
	switch k := r.Intn(16); k {
	case 0:
		if allowEmpty {
			return nil
		}
		set[r.Intn(65536)] = true
	case 1: // few sparse values around the inline-stash size
		for i, n := 0, r.Pick(1, 2, 4, 5, 6, 7); i < n; i++ {
			set[r.Pick(0, 1, 63, 64, 65, 4095, 4096, 65534, 65535, r.Intn(65536), r.Intn(200))] = true
		}
	case 2: // 1..4 runs (stash boundary at 2)
		for i, n := 0, r.Pick(1, 2, 3, 4); i < n; i++ {
			addRun(r.Pick(0, 100*i+r.Intn(50), 65000+100*i, r.Intn(65536)), r.Pick(1, 2, 3, 10, 300))
		}
	case 3: // full container
		addRun(0, 65536)
	case 4: // all but a few
		addRun(0, 65536)
		for i := 0; i < r.Pick(1, 2, 3); i++ {
			delete(set, r.Pick(0, 65535, r.Intn(65536)))
		}
	case 5: // exactly 4095 / 4096 / 4097 scattered values (array/bitmap boundary)
		n := r.Pick(4095, 4096, 4097)
		step := r.Pick(2, 3, 16)
		for i := 0; i < n && i*step <= 65535; i++ {
			set[i*step] = true
		}
		for v := 65535; len(set) < n; v-- { // step 16 does not fit: fill up from the top
			set[v] = true
		}
	case 6: // runs == N/2 boundary: pairs and a singleton
		m := r.Pick(3, 10, 2047, 2048, 2049)
		for i := 0; i < m; i++ {
			addRun(i*4, 2)
		}
		if r.Bool() {
			set[m*4+1] = true
		}
	case 7: // dense random (bitmap territory)
		for i, n := 0, r.Pick(5000, 9000, 30000); i < n; i++ {
			set[r.Intn(65536)] = true
		}
	case 8: // many short runs
		for i, n := 0, r.Pick(50, 500, 3000); i < n; i++ {
			addRun(r.Intn(65536), r.Pick(1, 2, 3, 8))
		}
	case 9: // edges
		set[0] = true
		set[65535] = true
		if r.Bool() {
			addRun(65530, 6)
		}
	default:
		for i, n := 0, r.Range(1, 40); i < n; i++ {
			if r.Chance(1, 4) {
				addRun(r.Intn(65536), r.Range(2, 30))
			} else {
				set[r.Intn(65536)] = true
			}
		}
	}
	out := make([]int, 0, len(set))
	for v := range set {
		out = append(out, v)
	}
	sortInts(out)
	return out
}

func sortInts(a []int) {
	// insertion into a sorted slice via a simple sort (deterministic)
	if len(a) < 2 {
		return
	}
	quick(a, 0, len(a)-1)
}
func quick(a []int, lo, hi int) {
	for lo < hi {
		p := a[(lo+hi)/2]
		i, j := lo, hi
		for i <= j {
			for a[i] < p {
				i++
			}
			for a[j] > p {
				j--
			}
			if i <= j {
				a[i], a[j] = a[j], a[i]
				i++
				j--
			}
		}
		if j-lo < hi-i {
			quick(a, lo, j)
			lo = i
		} else {
			quick(a, i, hi)
			hi = j
		}
	}
}

var pilosaKeys = []uint64{0, 1, 2, 3, 5, 65535, 1 << 32, 1<<47 - 1}
var officialKeys = []uint64{0, 1, 2, 3, 5, 9, 65534, 65535}

// genSpec draws a container spec with nk distinct ascending keys; returns it and whether any container holds data.
func genSpec(r *vh.Rng, keys []uint64, nk int, allowEmpty bool) (string, bool) {
	if nk > len(keys) {
		nk = len(keys)
	}
	if nk == 0 {
		return "-", false
	}
	idx := r.Perm(len(keys))[:nk]
	sortInts(idx)
	var es []string
	any := false
	for _, i := range idx {
		vs := genValues(r, allowEmpty)
		any = any || len(vs) > 0
		es = append(es, fmt.Sprintf("%d:%s:%s", keys[i], r.PickS("a", "b", "r"), rangesOf(vs)))
	}
	return strings.Join(es, ";"), any
}

var fixtures = []string{
	"3B3001000100000900010000000100010009000100",     // roaring_internal_test.go / http/client_test.go
	"3A300000010000000000020010000000010002000300",   // no-run cookie, one array container {1,2,3}
	"3A30000000000000",                               // empty official bitmap
	"3C30000000000000",                               // empty Pilosa bitmap
	"3B30000001000008000300010002000A00020014000200", // one run container, 3 runs (DESIGN section 8 #3)
}

func (p *prop) Gen(r *vh.Rng, tier string, n int) []vh.Case {
	var cases []vh.Case
	for k := 0; k < n; k++ {
		cr := r.Fork()
		coll := cr.PickS("s", "b")
		var line string
		nontrivial := false
		switch c := cr.Intn(20); {
		case c < 6: // Pilosa round trip
			sp, any := genSpec(cr, pilosaKeys, cr.Pick(0, 1, 1, 2, 2, 3, 5), true)
			line = fmt.Sprintf("%s %s %d %s", cr.PickS("rt", "rt", "un"), coll, cr.Pick(0, 0, 1, 2, 255, 300), sp)
			nontrivial = any
		case c < 11: // official
			sp, any := genSpec(cr, officialKeys, cr.Pick(0, 1, 2, 3, 4, 4, 5, 8), false)
			line = fmt.Sprintf("off %s %d %s", coll, cr.Pick(0, 1, 1, 2, 2), sp)
			nontrivial = any
		case c < 12:
			line = fmt.Sprintf("raw %s %s", coll, fixtures[cr.Intn(len(fixtures))])
			nontrivial = true
		default: // import
			keys := pilosaKeys
			f := cr.PickS("p", "p", "u", "o0", "o1", "o2", "o2")
			if f[0] == 'o' {
				keys = officialKeys
			}
			keys = keys[:cr.Pick(2, 3, 4, len(keys))] // few keys: target and payload overlap often
			tsp, tany := genSpec(cr, keys, cr.Pick(0, 1, 2, 3), true)
			psp, pany := genSpec(cr, keys, cr.Pick(0, 1, 2, 3, 4), f[0] != 'o')
			line = fmt.Sprintf("imp %s %d %s %s %s", coll, cr.Intn(2), tsp, f, psp)
			nontrivial = tany && pany
		}
		cases = append(cases, vh.Case{Lines: []string{line}, Nontrivial: nontrivial})
	}
	if tier == "thorough" && n > 0 {
		// many containers of the official key space, with and without runs (all 65536 of them:
		// extra check `official-65536-containers`; the list-based model is quadratic in the count)
		cases = append(cases,
			vh.Case{Lines: []string{"off s 0 K0..2047:a:7"}, Nontrivial: true},
			vh.Case{Lines: []string{"off b 2 K0..1023:a:7-9"}, Nontrivial: true},
			vh.Case{Lines: []string{"off s 1 K100..1200:a:7-9,11"}, Nontrivial: true},
			vh.Case{Lines: []string{"imp b 0 - o2 K0..511:a:7-9"}, Nontrivial: true})
	}
	return cases
}

// ---------- execution ----------

func summary(b *roaring.Bitmap) string {
	ops, opN := roaring.VerifC04Ops(b)
	return fmt.Sprintf("f=%d c=%s v=%s ops=%d,%d", b.Flags, codec.ShowInfo(b), codec.ShowRanges(b.Slice()), ops, opN)
}

// showUnmarshal decodes enc (in a guarded buffer) into a fresh bitmap, then decodes the same
// buffer a second time.
func showUnmarshal(coll string, enc []byte) string {
	g, free := codec.Guard(enc)
	defer free()
	b := codec.NewBitmap(coll)
	if err := b.UnmarshalBinary(g); err != nil {
		return "err:" + codec.ErrClass(err)
	}
	first := summary(b)
	unmod := bytes.Equal(g, enc)
	b2 := codec.NewBitmap(coll)
	second := ""
	if err := b2.UnmarshalBinary(g); err != nil {
		second = "err:" + codec.ErrClass(err)
	} else {
		second = summary(b2)
	}
	// the containers of b and b2 point into g: they must not be used after free()
	return fmt.Sprintf("ok %s unmod=%t twice=%t", first, unmod, second == first)
}

func payloadBytes(f, pl string) ([]byte, bool) {
	if f == "x" {
		return codec.ParseHex(pl)
	}
	es, ok := codec.ParseSpec(pl)
	if !ok {
		return nil, false
	}
	var buf bytes.Buffer
	switch f {
	case "p":
		if _, err := codec.Build("s", 0, es).WriteTo(&buf); err != nil {
			return nil, false
		}
		return buf.Bytes(), true
	case "u":
		if _, err := roaring.VerifC04WriteUnoptimized(codec.Build("s", 0, es), &buf); err != nil {
			return nil, false
		}
		return buf.Bytes(), true
	case "o0", "o1", "o2":
		return codec.OfficialEncode(int(f[1]-'0'), es), true
	}
	return nil, false
}

func (p *prop) execLine(l string) string {
	ws := strings.Fields(l)
	switch {
	case len(ws) == 4 && (ws[0] == "rt" || ws[0] == "un"):
		flags, err := strconv.ParseUint(ws[2], 10, 32)
		es, ok := codec.ParseSpec(ws[3])
		if err != nil || !ok {
			return "bad-op"
		}
		b := codec.Build(ws[1], byte(flags), es)
		var buf bytes.Buffer
		if ws[0] == "rt" {
			if _, err := b.WriteTo(&buf); err != nil {
				return "err:write"
			}
		} else if _, err := roaring.VerifC04WriteUnoptimized(b, &buf); err != nil {
			return "err:write"
		}
		return codec.EncTag(buf.Bytes()) + " " + showUnmarshal(ws[1], buf.Bytes())
	case len(ws) == 4 && ws[0] == "off":
		mode, err := strconv.Atoi(ws[2])
		es, ok := codec.ParseSpec(ws[3])
		if err != nil || !ok {
			return "bad-op"
		}
		enc := codec.OfficialEncode(mode, es)
		return codec.EncTag(enc) + " " + showUnmarshal(ws[1], enc)
	case len(ws) == 3 && ws[0] == "raw":
		d, ok := codec.ParseHex(ws[2])
		if !ok {
			return "bad-op"
		}
		return showUnmarshal(ws[1], d)
	case len(ws) == 6 && ws[0] == "imp":
		tes, ok := codec.ParseSpec(ws[3])
		d, ok2 := payloadBytes(ws[4], ws[5])
		if !ok || !ok2 {
			return "bad-op"
		}
		t := codec.Build(ws[1], 0, tes)
		g, free := codec.Guard(d)
		defer free()
		changed, rowSet, err := t.ImportRoaringBits(g, ws[2] == "1", false, 16)
		if err != nil {
			return "err:" + codec.ErrClass(err) + " v=" + codec.ShowRanges(t.Slice())
		}
		var rows []uint64
		for r := range rowSet {
			rows = append(rows, r)
		}
		rows = vh.SortedU64(rows)
		rs := make([]string, len(rows))
		for i, r := range rows {
			rs[i] = fmt.Sprintf("%d:%d", r, rowSet[r])
		}
		return fmt.Sprintf("ok changed=%d v=%s rows=[%s]", changed, codec.ShowRanges(t.Slice()), strings.Join(rs, " "))
	}
	return "bad-op"
}

func (p *prop) Exec(lines []string) []string {
	outs := make([]string, len(lines))
	for i, l := range lines {
		l := l
		outs[i] = vh.Guard("exec", func() string { return p.execLine(l) })
		// what the line exercised, for the evidence: op, and the container encodings decoded
		ws := strings.Fields(l)
		if len(ws) > 0 {
			op := ws[0]
			if op == "imp" && len(ws) == 6 {
				op = "imp-" + ws[4] + map[string]string{"0": "-set", "1": "-clear"}[ws[2]]
			}
			if op == "off" && len(ws) == 4 {
				op = "off-mode" + ws[2]
			}
			vh.Count(op)
			if j := strings.Index(outs[i], " c=["); j >= 0 {
				seen := map[string]bool{}
				for _, c := range strings.Fields(strings.SplitN(outs[i][j+4:], "]", 2)[0]) {
					if f := strings.Split(c, ":"); len(f) == 3 && !seen[f[1]] {
						seen[f[1]] = true
						vh.Count("decoded-container-" + f[1])
					}
				}
			}
			if strings.HasPrefix(outs[i], "err:") {
				vh.Count("rejected")
			}
		}
	}
	return outs
}

// big65536 is the extra check for the largest official-format instances: all 65536 containers
// present, without runs (cookie 12346) and with runs (count stored as 65535 in the cookie, offset
// header present), including a full container and a 4096-value array. The list-based model
// driver is quadratic in the container count, so this instance is compared with the source set
// directly (the encoder used here is the Go twin of Spec.encodeOfficial, which every `off` line
// of the main stream compares byte-for-byte with the Lean one).
func big65536() {
	type verdict struct {
		OK          bool     `json:"ok"`
		Evaluations int      `json:"evaluations"`
		Distinct    int      `json:"distinct_nontrivial"`
		What        string   `json:"what"`
		Found       bool     `json:"found"`
		Replay      []string `json:"replay_lines"`
	}
	v := verdict{OK: true}
	var problems []string
	for _, mode := range []int{0, 1, 2} {
		var es []codec.Entry
		for k := 0; k < 65536; k++ {
			vals := []uint16{7, 8, 9, uint16(k)}
			switch k {
			case 3:
				vals = make([]uint16, 65536)
				for i := range vals {
					vals[i] = uint16(i)
				}
			case 5:
				vals = make([]uint16, 4096)
				for i := range vals {
					vals[i] = uint16(i * 16)
				}
			}
			if k != 3 && k != 5 {
				// ascending and duplicate-free
				m := map[uint16]bool{}
				var u []uint16
				for _, x := range []uint16{7, 8, 9, uint16(k)} {
					if !m[x] {
						m[x] = true
						u = append(u, x)
					}
				}
				for i := 1; i < len(u); i++ {
					for j := i; j > 0 && u[j-1] > u[j]; j-- {
						u[j-1], u[j] = u[j], u[j-1]
					}
				}
				vals = u
			}
			es = append(es, codec.Entry{Key: uint64(k), Typ: 'a', Vals: vals})
		}
		want := codec.Values(es)
		enc := codec.OfficialEncode(mode, es)
		for _, coll := range []string{"s", "b"} {
			v.Evaluations++
			res := vh.Guard("big", func() string {
				g, free := codec.Guard(enc)
				defer free()
				b := codec.NewBitmap(coll)
				if err := b.UnmarshalBinary(g); err != nil {
					return "decode error: " + err.Error()
				}
				got := b.Slice()
				if len(got) != len(want) {
					return fmt.Sprintf("decoded %d values, want %d", len(got), len(want))
				}
				for i := range got {
					if got[i] != want[i] {
						return fmt.Sprintf("value %d is %d, want %d", i, got[i], want[i])
					}
				}
				if !bytes.Equal(g, enc) {
					return "input modified"
				}
				b2 := codec.NewBitmap(coll)
				if err := b2.UnmarshalBinary(g); err != nil || b2.Count() != uint64(len(want)) {
					return "second decode differs"
				}
				t := codec.NewBitmap(coll)
				changed, _, err := t.ImportRoaringBits(g, false, false, 0)
				if err != nil || changed != len(want) || t.Count() != uint64(len(want)) {
					return fmt.Sprintf("import: changed=%d err=%v count=%d want %d", changed, err, t.Count(), len(want))
				}
				changed, _, err = t.ImportRoaringBits(g, true, false, 0)
				if err != nil || changed != len(want) || t.Count() != 0 {
					return fmt.Sprintf("clear import: changed=%d err=%v count=%d", changed, err, t.Count())
				}
				return "ok"
			})
			if res != "ok" {
				v.OK, v.Found = false, true
				problems = append(problems, fmt.Sprintf("mode %d coll %s: %s", mode, coll, res))
				v.Replay = append(v.Replay, fmt.Sprintf("off %s %d K0..65535:a:7-9", coll, mode))
			}
		}
	}
	v.Distinct = v.Evaluations
	v.What = "official format with all 65536 containers (modes 0/1/2 of the reference encoder, slice and B-tree collections): decode = source set, input unmodified, second decode equal, import set/clear with exact changed"
	if len(problems) > 0 {
		v.What += " — FAILED: " + strings.Join(problems, "; ")
	}
	out, _ := json.Marshal(v)
	fmt.Println(string(out))
}

func main() {
	debug.SetPanicOnFault(true)
	for _, a := range os.Args[1:] {
		if a == "--big65536" {
			big65536()
			return
		}
	}
	vh.Main(&prop{})
}
