// Package codec holds what the C04 and C06 harnesses share: container specs, the canonical
// text forms of lean/PV/C04/Driver.lean, a reference encoder for the official Roaring format
// (byte-for-byte the same as Spec.encodeOfficial in lean/PV/C04/Spec.lean — the model driver
// prints length and fnv32a of its encoding, so a difference shows up as a disagreement),
// guard-page buffers, and the mapping from Go error texts to the model's error classes.
package codec

import (
	"encoding/binary"
	"encoding/hex"
	"fmt"
	"hash/fnv"
	"sort"
	"strconv"
	"strings"
	"syscall"

	"github.com/pilosa/pilosa/roaring"
)

// Entry is one container of a spec: key, source encoding ('a','b','r') and ascending values.
type Entry struct {
	Key  uint64
	Typ  byte
	Vals []uint16
}

func parseRanges(s string) ([]uint16, bool) {
	if s == "-" || s == "" {
		return nil, true
	}
	var out []uint16
	for _, p := range strings.Split(s, ",") {
		ab := strings.Split(p, "-")
		switch len(ab) {
		case 1:
			v, err := strconv.ParseUint(ab[0], 10, 32)
			if err != nil {
				return nil, false
			}
			out = append(out, uint16(v))
		case 2:
			a, e1 := strconv.ParseUint(ab[0], 10, 32)
			b, e2 := strconv.ParseUint(ab[1], 10, 32)
			if e1 != nil || e2 != nil {
				return nil, false
			}
			for v := a; v <= b; v++ {
				out = append(out, uint16(v))
			}
		default:
			return nil, false
		}
	}
	return out, true
}

// ParseSpec parses a container spec (see Driver.lean).
func ParseSpec(s string) ([]Entry, bool) {
	if s == "-" {
		return nil, true
	}
	var out []Entry
	for _, e := range strings.Split(s, ";") {
		f := strings.Split(e, ":")
		if len(f) != 3 || len(f[1]) != 1 || !strings.Contains("abr", f[1]) {
			return nil, false
		}
		vals, ok := parseRanges(f[2])
		if !ok {
			return nil, false
		}
		var keys []uint64
		if strings.HasPrefix(f[0], "K") {
			ab := strings.Split(f[0][1:], "..")
			if len(ab) != 2 {
				return nil, false
			}
			a, e1 := strconv.ParseUint(ab[0], 10, 64)
			b, e2 := strconv.ParseUint(ab[1], 10, 64)
			if e1 != nil || e2 != nil {
				return nil, false
			}
			for k := a; k <= b; k++ {
				keys = append(keys, k)
			}
		} else {
			k, err := strconv.ParseUint(f[0], 10, 64)
			if err != nil {
				return nil, false
			}
			keys = []uint64{k}
		}
		for _, k := range keys {
			out = append(out, Entry{Key: k, Typ: f[1][0], Vals: vals})
		}
	}
	return out, true
}

// NewBitmap returns an empty bitmap of the chosen collection kind ("s" slice, "b" B-tree).
func NewBitmap(coll string) *roaring.Bitmap {
	if coll == "b" {
		return roaring.NewBTreeBitmap()
	}
	return roaring.NewSliceBitmap()
}

// Build creates the bitmap a spec describes: one container per entry, in the given encoding.
func Build(coll string, flags byte, es []Entry) *roaring.Bitmap {
	b := NewBitmap(coll)
	b.Flags = flags
	for _, e := range es {
		b.Containers.Put(e.Key, roaring.VerifC04Container(e.Typ, e.Vals))
	}
	return b
}

// Values of a spec as a sorted list (later entries with the same key replace earlier ones, as Put does).
func Values(es []Entry) []uint64 {
	m := map[uint64][]uint16{}
	for _, e := range es {
		m[e.Key] = e.Vals
	}
	var keys []uint64
	for k := range m {
		keys = append(keys, k)
	}
	sort.Slice(keys, func(i, j int) bool { return keys[i] < keys[j] })
	var out []uint64
	for _, k := range keys {
		for _, v := range m[k] {
			out = append(out, k<<16|uint64(v))
		}
	}
	return out
}

// ShowRanges renders `a-b,c` (consecutive values joined), `-` when empty.
func ShowRanges(vs []uint64) string {
	if len(vs) == 0 {
		return "-"
	}
	var sb strings.Builder
	s, l := vs[0], vs[0]
	flush := func() {
		if sb.Len() > 0 {
			sb.WriteByte(',')
		}
		sb.WriteString(strconv.FormatUint(s, 10))
		if s != l {
			sb.WriteByte('-')
			sb.WriteString(strconv.FormatUint(l, 10))
		}
	}
	for _, v := range vs[1:] {
		if l+1 == v {
			l = v
			continue
		}
		flush()
		s, l = v, v
	}
	flush()
	return sb.String()
}

func typLetter(t byte) string {
	switch t {
	case 1:
		return "a"
	case 2:
		return "b"
	case 3:
		return "r"
	}
	return fmt.Sprintf("t%d", t)
}

// ShowInfo renders `[key:type:n ...]`.
func ShowInfo(b *roaring.Bitmap) string {
	var ss []string
	for _, ci := range roaring.VerifC04Info(b) {
		ss = append(ss, fmt.Sprintf("%d:%s:%d", ci.Key, typLetter(ci.Typ), ci.N))
	}
	return "[" + strings.Join(ss, " ") + "]"
}

// EncTag renders `enc=<len>:<fnv32a>`.
func EncTag(d []byte) string {
	h := fnv.New32a()
	h.Write(d)
	return fmt.Sprintf("enc=%d:%d", len(d), h.Sum32())
}

// ParseHex parses a hex token (`-` = empty).
func ParseHex(s string) ([]byte, bool) {
	if s == "-" {
		return []byte{}, true
	}
	b, err := hex.DecodeString(s)
	return b, err == nil
}

// Hex renders a hex token.
func Hex(b []byte) string {
	if len(b) == 0 {
		return "-"
	}
	return hex.EncodeToString(b)
}

// ---------------------------------------------------------------- guard-page buffers

// Guard returns a copy of b with cap == len that ends exactly at an inaccessible page, and a
// function releasing it. Any read or write past the end faults (with debug.SetPanicOnFault a
// recoverable panic, otherwise a fatal signal).
func Guard(b []byte) ([]byte, func()) {
	const ps = 4096
	n := (len(b) + ps - 1) / ps * ps
	if n == 0 {
		n = ps
	}
	m, err := syscall.Mmap(-1, 0, n+ps, syscall.PROT_READ|syscall.PROT_WRITE, syscall.MAP_ANON|syscall.MAP_PRIVATE)
	if err != nil {
		panic(err)
	}
	if err := syscall.Mprotect(m[n:], syscall.PROT_NONE); err != nil {
		panic(err)
	}
	d := m[n-len(b) : n : n]
	copy(d, b)
	return d, func() { _ = syscall.Munmap(m) }
}

// ---------------------------------------------------------------- error classes

// ErrClass maps the text of a decoder error to the class names of PV.C04.Err.name.
func ErrClass(err error) string {
	s := err.Error()
	has := func(x string) bool { return strings.Contains(s, x) }
	switch {
	case has("no roaring bitmap provided"):
		return "no-data"
	case has("contradict its header"):
		return "ill-formed"
	case has("data too small"), has("buffer too small"), has("not long enough to be a roaring header"):
		return "too-small"
	case has("invalid roaring file, magic number"), has("unknown roaring magic number"):
		return "bad-magic"
	case has("wrong roaring version"):
		return "bad-version"
	case has("key-cardinality not provided"), has("key-cardinality slice overruns"), has("insufficient data for header + offsets"):
		return "hdr-overrun"
	case has("offsets not provided"), has("insufficient data for offsets"):
		return "offs-overrun"
	case has("offset out of bounds"):
		return "offset-oob"
	case has("container out of bounds"):
		return "cont-oob"
	case has("unsupported container type"):
		return "bad-type"
	case has("is-run bitmap overruns"):
		return "isrun-overrun"
	case has("logically impossible"):
		return "too-many"
	case has("offset incomplete"):
		return "offs-incomplete"
	case has("did not find expected serialCookie"):
		return "bad-cookie"
	case has("op data out of bounds"):
		return "op-short"
	case has("maximum operation size exceeded"):
		return "op-batch-too-big"
	case has("op data truncated"):
		return "op-truncated"
	case has("unknown op type"):
		return "op-unknown"
	case has("checksum mismatch"):
		return "op-checksum"
	case has(" size, maximum "):
		return "iter-size"
	case has("had offset "):
		return "iter-offset"
	}
	return "other(" + strings.ReplaceAll(strings.ReplaceAll(s, " ", "_"), "\t", "_") + ")"
}

// ---------------------------------------------------------------- official reference encoder

func le16(b []byte, v int) []byte {
	var x [2]byte
	binary.LittleEndian.PutUint16(x[:], uint16(v))
	return append(b, x[:]...)
}
func le32(b []byte, v int) []byte {
	var x [4]byte
	binary.LittleEndian.PutUint32(x[:], uint32(v))
	return append(b, x[:]...)
}

func toRuns(vs []uint16) [][2]int {
	var rs [][2]int
	for _, v := range vs {
		if n := len(rs); n > 0 && rs[n-1][1]+1 == int(v) {
			rs[n-1][1] = int(v)
		} else {
			rs = append(rs, [2]int{int(v), int(v)})
		}
	}
	return rs
}

func useRun(mode int, vs []uint16) bool {
	if mode == 2 {
		return true
	}
	if mode == 1 {
		m := 2 * len(vs)
		if m > 8192 {
			m = 8192
		}
		return 2+4*len(toRuns(vs)) < m
	}
	return false
}

// OfficialEncode encodes the non-empty containers of es (distinct ascending keys < 65536) in the
// official Roaring format; mode as in Spec.encodeOfficial.
func OfficialEncode(mode int, es []Entry) []byte {
	var g []Entry
	for _, e := range es {
		if len(e.Vals) > 0 {
			g = append(g, e)
		}
	}
	n := len(g)
	anyRun := false
	isRun := make([]bool, n)
	for i, e := range g {
		isRun[i] = useRun(mode, e.Vals)
		anyRun = anyRun || isRun[i]
	}
	var out []byte
	if anyRun {
		out = le16(out, 12347)
		out = le16(out, n-1)
		bm := make([]byte, (n+7)/8)
		for i, r := range isRun {
			if r {
				bm[i/8] |= 1 << (uint(i) % 8)
			}
		}
		out = append(out, bm...)
	} else {
		out = le32(out, 12346)
		out = le32(out, n)
	}
	for _, e := range g {
		out = le16(out, int(e.Key))
		out = le16(out, len(e.Vals)-1)
	}
	pls := make([][]byte, n)
	for i, e := range g {
		var p []byte
		switch {
		case isRun[i]:
			rs := toRuns(e.Vals)
			p = le16(p, len(rs))
			for _, r := range rs {
				p = le16(p, r[0])
				p = le16(p, r[1]-r[0])
			}
		case len(e.Vals) <= 4096:
			for _, v := range e.Vals {
				p = le16(p, int(v))
			}
		default:
			p = make([]byte, 8192)
			for _, v := range e.Vals {
				p[v/8] |= 1 << (v % 8)
			}
		}
		pls[i] = p
	}
	if !anyRun || n >= 4 {
		off := len(out) + 4*n
		for _, p := range pls {
			out = le32(out, off)
			off += len(p)
		}
	}
	for _, p := range pls {
		out = append(out, p...)
	}
	return out
}
