// Package srv starts in-process pilosa servers for the harnesses (same recipe as test.newCommand,
// without the testing package).
package srv

import (
	"bytes"
	"context"
	"io/ioutil"
	"os"
	"time"

	"github.com/pilosa/pilosa"
	"github.com/pilosa/pilosa/server"
)

// Server is a running single-node pilosa.
type Server struct {
	*server.Command
	Dir string
}

// Start runs a single node with the given executor worker pool size in a fresh temp dir.
func Start(workers int) *Server {
	dir, err := ioutil.TempDir("", "verif-pilosa-")
	if err != nil {
		panic(err)
	}
	return StartAt(dir, workers)
}

// StartAt runs a single node on an existing data dir.
func StartAt(dir string, workers int) *Server {
	m := server.NewCommand(bytes.NewReader(nil), ioutil.Discard, ioutil.Discard,
		server.OptCommandCloseTimeout(2*time.Millisecond))
	m.Config.DataDir = dir
	m.Config.Bind = "http://localhost:0"
	m.Config.Cluster.Disabled = true
	m.Config.Translation.MapSize = 140000
	m.Config.WorkerPoolSize = workers
	m.Config.Metric.Diagnostics = false
	if err := m.Start(); err != nil {
		panic(err)
	}
	return &Server{Command: m, Dir: dir}
}

// Stop closes the server and removes its data dir.
func (s *Server) Stop() {
	_ = s.Command.Close()
	_ = os.RemoveAll(s.Dir)
}

// Query runs PQL against the given shards (nil = all), preserving their order.
func (s *Server) Query(index, q string, shards []uint64) ([]interface{}, error) {
	resp, err := s.API.Query(context.Background(), &pilosa.QueryRequest{Index: index, Query: q, Shards: shards})
	if err != nil {
		return nil, err
	}
	if resp.Err != nil {
		return nil, resp.Err
	}
	return resp.Results, nil
}
