// Package srv2 starts an in-process multi-node pilosa cluster (gossip-joined server.Commands)
// for the harnesses: the recipe of test.MustRunCluster without the testing package.
package srv2

import (
	"bytes"
	"context"
	"fmt"
	"io/ioutil"
	"os"
	"path/filepath"
	"time"

	"github.com/pilosa/pilosa"
	"github.com/pilosa/pilosa/server"
	"github.com/pilosa/pilosa/toml"
)

// Cluster is a set of running nodes; Nodes[0] is the cluster coordinator.
type Cluster struct {
	Nodes []*server.Command
	dirs  []string
}

// Start runs n gossip-joined nodes with the given replica count and per-node worker pool size
// and waits until every node reports cluster state NORMAL.
func Start(n, replicas, workers int) (*Cluster, error) {
	c := &Cluster{}
	seeds := make([]string, n)
	for i := 0; i < n; i++ {
		dir, err := ioutil.TempDir("", "verif-pilosa-cl-")
		if err != nil {
			c.Stop()
			return nil, err
		}
		c.dirs = append(c.dirs, dir)
		m := server.NewCommand(bytes.NewReader(nil), ioutil.Discard, ioutil.Discard,
			server.OptCommandCloseTimeout(2*time.Millisecond))
		m.Config.DataDir = dir
		m.Config.Bind = "http://localhost:0"
		m.Config.Cluster.Disabled = false
		m.Config.Cluster.Coordinator = i == 0
		m.Config.Cluster.ReplicaN = replicas
		m.Config.Translation.MapSize = 140000
		m.Config.WorkerPoolSize = workers
		m.Config.Metric.Diagnostics = false
		m.Config.Gossip.Port = "0"
		// a loaded machine must not make a node look dead (the cluster would leave state NORMAL)
		m.Config.Gossip.ProbeTimeout = toml.Duration(3 * time.Second)
		m.Config.Gossip.ProbeInterval = toml.Duration(5 * time.Second)
		m.Config.Gossip.SuspicionMult = 10
		m.Config.Gossip.Seeds = seeds[:i]
		if err := ioutil.WriteFile(filepath.Join(dir, ".id"), []byte(fmt.Sprintf("node%d", i)), 0600); err != nil {
			c.Stop()
			return nil, err
		}
		if err := m.Start(); err != nil {
			c.Stop()
			return nil, fmt.Errorf("starting node %d: %v", i, err)
		}
		c.Nodes = append(c.Nodes, m)
		seeds[i] = m.GossipTransport().URI.String()
	}
	if !c.WaitNormal(60 * time.Second) {
		c.Stop()
		return nil, fmt.Errorf("cluster did not reach state NORMAL")
	}
	return c, nil
}

// WaitNormal waits until every node sees all nodes and reports cluster state NORMAL.
func (c *Cluster) WaitNormal(d time.Duration) bool {
	deadline := time.Now().Add(d)
	for {
		ok := true
		for _, m := range c.Nodes {
			if m.API.State() != pilosa.ClusterStateNormal || len(m.API.Hosts(context.Background())) != len(c.Nodes) {
				ok = false
			}
		}
		if ok {
			return true
		}
		if time.Now().After(deadline) {
			return false
		}
		time.Sleep(5 * time.Millisecond)
	}
}

// Stop closes every node and removes the data dirs.
func (c *Cluster) Stop() {
	for _, m := range c.Nodes {
		_ = m.Close()
	}
	for _, d := range c.dirs {
		_ = os.RemoveAll(d)
	}
	c.Nodes, c.dirs = nil, nil
}

// Query runs PQL through node i as the coordinating node (shards nil = all).
func (c *Cluster) Query(i int, index, q string, shards []uint64) ([]interface{}, error) {
	resp, err := c.Nodes[i].API.Query(context.Background(), &pilosa.QueryRequest{Index: index, Query: q, Shards: shards})
	if err != nil {
		return nil, err
	}
	if resp.Err != nil {
		return nil, resp.Err
	}
	return resp.Results, nil
}
