// Package vh is the shared skeleton of every correspondence harness (cmd/cXX).
//
// A harness generates cases (lists of operation lines, see lean/PV/Common/Proto.lean) from one
// SplitMix64 state, executes each case against the real pilosa code in-process and writes
//
//	<out>/ops.txt    "case <k>" + the operation lines            (input of pm_cXX)
//	<out>/impl.txt   one output line per line of ops.txt          (compared with pm_cXX's output)
//	<out>/stats.json op/branch distribution, distinct cases, samples
//
// With --replay <ops.txt> it re-executes exactly those lines (used by replay and by the shrinker).
package vh

import (
	"bufio"
	"crypto/sha1"
	"encoding/json"
	"flag"
	"fmt"
	"os"
	"path/filepath"
	"sort"
	"strconv"
	"strings"
)

// Rng is SplitMix64: every random choice of a run derives from VERIF_SEED.
type Rng struct{ s uint64 }

func NewRng(seed uint64) *Rng {
	// Mix the seed first: the state advances by a constant, so unmixed consecutive seeds would
	// produce the same stream shifted by one draw.
	z := seed + 0x9E3779B97F4A7C15
	z = (z ^ (z >> 30)) * 0xBF58476D1CE4E5B9
	z = (z ^ (z >> 27)) * 0x94D049BB133111EB
	return &Rng{s: z ^ (z >> 31)}
}

func (r *Rng) U64() uint64 {
	r.s += 0x9E3779B97F4A7C15
	z := r.s
	z = (z ^ (z >> 30)) * 0xBF58476D1CE4E5B9
	z = (z ^ (z >> 27)) * 0x94D049BB133111EB
	return z ^ (z >> 31)
}

// Intn returns a value in [0,n).
func (r *Rng) Intn(n int) int {
	if n <= 0 {
		return 0
	}
	return int(r.U64() % uint64(n))
}

// Range returns a value in [lo,hi].
func (r *Rng) Range(lo, hi int) int { return lo + r.Intn(hi-lo+1) }
func (r *Rng) Bool() bool           { return r.U64()&1 == 1 }
func (r *Rng) Chance(num, den int) bool {
	return r.Intn(den) < num
}

// Pick returns one of the given values.
func (r *Rng) Pick(vals ...int) int { return vals[r.Intn(len(vals))] }
func (r *Rng) PickU(vals ...uint64) uint64 {
	return vals[r.Intn(len(vals))]
}
func (r *Rng) PickS(vals ...string) string { return vals[r.Intn(len(vals))] }

// Fork derives an independent generator (so adding draws in one case does not shift the others).
func (r *Rng) Fork() *Rng { return NewRng(r.U64()) }

// Perm returns a permutation of 0..n-1.
func (r *Rng) Perm(n int) []int {
	p := make([]int, n)
	for i := range p {
		p[i] = i
	}
	for i := n - 1; i > 0; i-- {
		j := r.Intn(i + 1)
		p[i], p[j] = p[j], p[i]
	}
	return p
}

// Case is one independent scenario: state is reset at its start.
type Case struct {
	Lines []string
	// Nontrivial marks a case that exercises the property by the harness's own stated rule.
	Nontrivial bool
}

// Prop is what a property harness implements.
type Prop interface {
	// Gen produces about n cases for the tier ("quick" or "thorough").
	Gen(r *Rng, tier string, n int) []Case
	// Exec runs the operation lines of one case against the real code and returns exactly one
	// output line per input line. It must not panic (recover inside and print "panic:<site>").
	Exec(lines []string) []string
	// Rule states how cases are generated and what makes one non-trivial.
	Rule() string
}

// Stats is written to stats.json.
type Stats struct {
	Cases              int            `json:"cases"`
	Ops                int            `json:"ops"`
	DistinctCases      int            `json:"distinct_cases"`
	DistinctNontrivial int            `json:"distinct_nontrivial"`
	OpHistogram        map[string]int `json:"op_histogram"`
	OutHistogram       map[string]int `json:"out_histogram"`
	Samples            []string       `json:"samples"`
	Rule               string         `json:"rule"`
	Extra              map[string]int `json:"extra,omitempty"`
}

// Extra lets a harness count property-specific things (branches hit, encodings, error kinds).
var Extra = map[string]int{}

// Count bumps a named counter in stats.json.
func Count(name string) { Extra[name]++ }

func outClass(s string) string {
	switch {
	case strings.HasPrefix(s, "panic:"):
		return "panic"
	case strings.HasPrefix(s, "err:"):
		return s
	case s == "-":
		return "-"
	default:
		return "ok"
	}
}

// SafeExec runs Exec and turns a panic that escapes it into per-line "panic:" outputs.
func SafeExec(p Prop, lines []string) (outs []string) {
	defer func() {
		if e := recover(); e != nil {
			outs = make([]string, len(lines))
			for i := range outs {
				outs[i] = "panic:escaped:" + strings.ReplaceAll(fmt.Sprint(e), "\n", " ")
			}
		}
	}()
	outs = p.Exec(lines)
	if len(outs) != len(lines) {
		panic(fmt.Sprintf("harness bug: %d outputs for %d lines", len(outs), len(lines)))
	}
	return outs
}

// Main is the entry point of every cmd/cXX.
func Main(p Prop) {
	seed := flag.Uint64("seed", 1, "PRNG seed")
	n := flag.Int("n", 100, "number of cases")
	tier := flag.String("tier", "quick", "quick|thorough")
	out := flag.String("out", "", "output directory")
	replay := flag.String("replay", "", "ops file to re-execute instead of generating")
	flag.Parse()
	if *out == "" {
		fmt.Fprintln(os.Stderr, "--out required")
		os.Exit(2)
	}
	if err := os.MkdirAll(*out, 0o755); err != nil {
		panic(err)
	}
	var cases []Case
	if *replay != "" {
		cases = readCases(*replay)
	} else {
		cases = p.Gen(NewRng(*seed), *tier, *n)
	}
	opsF, _ := os.Create(filepath.Join(*out, "ops.txt"))
	implF, _ := os.Create(filepath.Join(*out, "impl.txt"))
	ow, iw := bufio.NewWriter(opsF), bufio.NewWriter(implF)
	st := Stats{OpHistogram: map[string]int{}, OutHistogram: map[string]int{}, Rule: p.Rule()}
	seen := map[[20]byte]bool{}
	for k, c := range cases {
		fmt.Fprintf(ow, "case %d\n", k)
		fmt.Fprintln(iw, "-")
		outs := SafeExec(p, c.Lines)
		for i, l := range c.Lines {
			if strings.ContainsAny(l, "\n\r") || strings.ContainsAny(outs[i], "\n\r") {
				panic("harness bug: newline inside a protocol line")
			}
			fmt.Fprintln(ow, l)
			fmt.Fprintln(iw, outs[i])
			op := l
			if j := strings.IndexByte(l, ' '); j >= 0 {
				op = l[:j]
			}
			st.OpHistogram[op]++
			st.OutHistogram[outClass(outs[i])]++
		}
		st.Cases++
		st.Ops += len(c.Lines)
		h := sha1.Sum([]byte(strings.Join(c.Lines, "\n")))
		if !seen[h] {
			seen[h] = true
			st.DistinctCases++
			if c.Nontrivial || *replay != "" {
				st.DistinctNontrivial++
			}
		}
		if len(st.Samples) < 3 && len(c.Lines) > 0 {
			s := strings.Join(c.Lines, " ; ")
			if len(s) > 400 {
				s = s[:400] + "…"
			}
			st.Samples = append(st.Samples, s)
		}
	}
	ow.Flush()
	iw.Flush()
	opsF.Close()
	implF.Close()
	st.Extra = Extra
	b, _ := json.MarshalIndent(st, "", " ")
	if err := os.WriteFile(filepath.Join(*out, "stats.json"), b, 0o644); err != nil {
		panic(err)
	}
}

func readCases(path string) []Case {
	f, err := os.Open(path)
	if err != nil {
		panic(err)
	}
	defer f.Close()
	var cases []Case
	sc := bufio.NewScanner(f)
	sc.Buffer(make([]byte, 1<<20), 1<<28)
	for sc.Scan() {
		l := sc.Text()
		if strings.HasPrefix(l, "#") {
			continue // comment lines of replay files
		}
		if strings.HasPrefix(l, "case ") || l == "case" {
			cases = append(cases, Case{})
			continue
		}
		if len(cases) == 0 {
			cases = append(cases, Case{})
		}
		c := &cases[len(cases)-1]
		c.Lines = append(c.Lines, l)
	}
	return cases
}

// ---- small formatting helpers shared by harnesses ----

// U64s renders "[a b c]" like PV.Proto.showNats.
func U64s(xs []uint64) string {
	ss := make([]string, len(xs))
	for i, x := range xs {
		ss[i] = strconv.FormatUint(x, 10)
	}
	return "[" + strings.Join(ss, " ") + "]"
}

// CSV renders "a,b,c" or "-" when empty.
func CSV(xs []uint64) string {
	if len(xs) == 0 {
		return "-"
	}
	ss := make([]string, len(xs))
	for i, x := range xs {
		ss[i] = strconv.FormatUint(x, 10)
	}
	return strings.Join(ss, ",")
}

// ParseCSV parses "a,b,c" / "-".
func ParseCSV(s string) []uint64 {
	if s == "-" || s == "" {
		return nil
	}
	parts := strings.Split(s, ",")
	out := make([]uint64, len(parts))
	for i, p := range parts {
		v, err := strconv.ParseUint(p, 10, 64)
		if err != nil {
			panic("bad csv " + s)
		}
		out[i] = v
	}
	return out
}

// SortedU64 returns a sorted copy.
func SortedU64(xs []uint64) []uint64 {
	o := append([]uint64(nil), xs...)
	sort.Slice(o, func(i, j int) bool { return o[i] < o[j] })
	return o
}

// Guard runs f and maps a panic to "panic:<site>".
func Guard(site string, f func() string) (out string) {
	defer func() {
		if e := recover(); e != nil {
			out = "panic:" + site
		}
	}()
	return f()
}
