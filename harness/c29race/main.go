// Command c29race is the search/validation part of C29 (never the proof): a concurrent workload
// against an in-process pilosa server, built with -race by run.py.
//
// Rounds of G goroutines issue a seeded mix of bit writes (PQL Set/Clear), bulk imports (ids,
// roaring, values), row stores/clears (Store, ClearRow), queries (Row, Count, Intersect, TopN,
// TopN ids on an LRU field, Sum/Min/Max, Rows, time ranges, GroupBy), snapshots, cache
// recalculation and flushes, and view deletion over three rows and two shards, under a varied
// GOMAXPROCS and random yields.  It reports panics, deadlocks (round time-out, with a goroutine
// dump) and — through the race detector's log, read by run.py — data races.  The single-section
// operations on field `s` (Set, Clear, Row) are recorded with invocation/response times and
// checked for linearizability with porcupine against the sequential bit-set model; the
// multi-section read Count(Intersect(Row(m=1), Row(m=2))) on the mutex field `m` is checked
// against the mutex invariant (never both rows) and counted separately (known finding).
package main

import (
	"bytes"
	"context"
	"encoding/json"
	"flag"
	"fmt"
	"io"
	"math/rand"
	"os"
	"runtime"
	"sort"
	"strings"
	"sync"
	"sync/atomic"
	"time"

	"github.com/anishathalye/porcupine"
	"github.com/pilosa/pilosa"
	"github.com/pilosa/pilosa/encoding/proto"
	"github.com/pilosa/pilosa/roaring"
	"github.com/pilosa/pilosa/server"
)

const sw = pilosa.ShardWidth

var cols = []uint64{0, 1, 65536, sw, sw + 1}

// schemaOps adds view deletion and CreateFieldMessage to the mix.  C29 quantifies over "bit writes,
// imports, row stores and clears, queries, snapshots and cache flushes"; schema changes are not in
// that list (a Set racing with DeleteView of the view it writes legitimately fails with "no such
// file"), so they are off in the registered check.
var schemaOps bool

type srvT struct {
	*server.Command
	dir string
}

func start() *srvT {
	dir, err := os.MkdirTemp("", "verif-c29race-")
	if err != nil {
		panic(err)
	}
	m := server.NewCommand(bytes.NewReader(nil), io.Discard, io.Discard, server.OptCommandCloseTimeout(2*time.Millisecond))
	m.Config.DataDir = dir
	m.Config.Bind = "http://localhost:0"
	m.Config.Cluster.Disabled = true
	m.Config.Translation.MapSize = 1 << 22
	m.Config.WorkerPoolSize = 4
	m.Config.Metric.Diagnostics = false
	if err := m.Start(); err != nil {
		panic(err)
	}
	return &srvT{Command: m, dir: dir}
}

func (s *srvT) stop() {
	_ = s.Command.Close()
	_ = os.RemoveAll(s.dir)
}

func (s *srvT) q(pql string) ([]interface{}, error) {
	resp, err := s.API.Query(context.Background(), &pilosa.QueryRequest{Index: "i", Query: pql})
	if err != nil {
		return nil, err
	}
	if resp.Err != nil {
		return nil, resp.Err
	}
	return resp.Results, nil
}

// ---- recorded history of field s (single-section operations)

type opIn struct {
	kind     int // 0 set 1 clear 2 row (the part of a Row read that one shard's fragment answers)
	row, col uint64
	shard    uint64
}

type history struct {
	mu  sync.Mutex
	ops []porcupine.Operation
}

func (h *history) add(client int, in opIn, out interface{}, call, ret int64) {
	h.mu.Lock()
	h.ops = append(h.ops, porcupine.Operation{ClientId: client, Input: in, Output: out, Call: call, Return: ret})
	h.mu.Unlock()
}

func colBit(c uint64) uint64 {
	for i, x := range cols {
		if x == c {
			return 1 << uint(i)
		}
	}
	panic("unknown column")
}

// model of one row of ONE FRAGMENT of a set field: state = bit mask over the shard's cols.  A Row
// query over two shards is one fragment.row critical section per shard (the executor maps over
// shards), so it is recorded as one read per shard: across shards it is a multi-section read.
var rowModel = porcupine.Model{
	Partition: func(h []porcupine.Operation) [][]porcupine.Operation {
		m := map[uint64][]porcupine.Operation{}
		for _, o := range h {
			in := o.Input.(opIn)
			k := in.row*4 + in.shard
			m[k] = append(m[k], o)
		}
		var out [][]porcupine.Operation
		for _, v := range m {
			out = append(out, v)
		}
		return out
	},
	Init: func() interface{} { return uint64(0) },
	Step: func(st, in, out interface{}) (bool, interface{}) {
		s := st.(uint64)
		i := in.(opIn)
		switch i.kind {
		case 0:
			b := colBit(i.col)
			return out.(bool) == (s&b == 0), s | b
		case 1:
			b := colBit(i.col)
			return out.(bool) == (s&b != 0), s &^ b
		default:
			return out.(uint64) == s, s
		}
	},
	Equal: func(a, b interface{}) bool { return a.(uint64) == b.(uint64) },
}

type result struct {
	Ok             bool           `json:"ok"`
	Evaluations    int            `json:"evaluations"`
	Nontrivial     int            `json:"distinct_nontrivial"`
	What           string         `json:"what"`
	Found          bool           `json:"found"`
	Panics         []string       `json:"panics"`
	Deadlock       string         `json:"deadlock"`
	NonLin         []string       `json:"nonlinearizable"`
	TornReads      int            `json:"torn_multi_section_reads"`
	TornSample     string         `json:"torn_sample"`
	Counters       map[string]int `json:"counters"`
	Rounds         int            `json:"rounds"`
	LinHistories   int            `json:"lin_histories"`
	LinOps         int            `json:"lin_ops"`
	LinUnknown     int            `json:"lin_unknown"`
	ReplayLines    []string       `json:"replay_lines"`
	GoMaxProcsSeen []int          `json:"gomaxprocs"`
}

func main() {
	seed := flag.Int64("seed", 1, "seed")
	seconds := flag.Int("seconds", 45, "wall budget")
	out := flag.String("out", "", "result file (JSON)")
	flag.BoolVar(&schemaOps, "schema-ops", false, "also delete views and create fields through cluster messages (NOT operations C29 lists; only for reproducing the lock-table findings)")
	flag.Parse()
	res := &result{Counters: map[string]int{}, ReplayLines: []string{}, Panics: []string{}, NonLin: []string{}}
	var cmu sync.Mutex
	count := func(k string) { cmu.Lock(); res.Counters[k]++; cmu.Unlock() }
	deadline := time.Now().Add(time.Duration(*seconds) * time.Second)
	rng := rand.New(rand.NewSource(*seed))
	procs := []int{1, 2, 4, 8}
	round := 0
	for time.Now().Before(deadline) && res.Deadlock == "" && len(res.Panics) == 0 {
		gmp := procs[round%len(procs)]
		runtime.GOMAXPROCS(gmp)
		res.GoMaxProcsSeen = append(res.GoMaxProcsSeen, gmp)
		runRound(rng.Int63(), round, res, count)
		round++
	}
	res.Rounds = round
	res.Ok = len(res.Panics) == 0 && res.Deadlock == "" && len(res.NonLin) == 0
	res.Found = !res.Ok
	res.Nontrivial = res.LinHistories
	switch {
	case len(res.Panics) > 0:
		res.What = "panic under the concurrent workload: " + res.Panics[0]
	case res.Deadlock != "":
		res.What = "deadlock (round did not finish): " + res.Deadlock[:min(400, len(res.Deadlock))]
	case len(res.NonLin) > 0:
		res.What = "history of single-section operations on field s is not linearizable: " + res.NonLin[0]
	default:
		res.What = fmt.Sprintf("%d rounds, %d operations, %d recorded histories (%d ops) linearizable, %d torn multi-section reads",
			res.Rounds, res.Evaluations, res.LinHistories, res.LinOps, res.TornReads)
	}
	b, _ := json.Marshal(res)
	if *out != "" {
		_ = os.WriteFile(*out, b, 0o644)
	}
	fmt.Println(string(b))
}

// stopOrReport closes the server; a Close that does not return (e.g. fragment.Close waiting for a
// snapshot that will never be signalled) is reported as a deadlock instead of hanging the check.
func stopOrReport(s *srvT, res *result) {
	done := make(chan struct{})
	go func() { s.stop(); close(done) }()
	select {
	case <-done:
	case <-time.After(120 * time.Second):
		buf := make([]byte, 1<<20)
		n := runtime.Stack(buf, true)
		if res.Deadlock == "" {
			res.Deadlock = "server Close does not return: " + blockedSummary(string(buf[:n]))
		}
	}
}

func runRound(seed int64, round int, res *result, count func(string)) {
	s := start()
	stopped := false
	defer func() {
		if !stopped {
			stopOrReport(s, res)
		}
	}()
	ctx := context.Background()
	api := s.API
	must := func(err error) {
		if err != nil {
			panic(err)
		}
	}
	_, err := api.CreateIndex(ctx, "i", pilosa.IndexOptions{TrackExistence: true})
	must(err)
	mk := func(name string, o pilosa.FieldOption) {
		_, err := api.CreateField(ctx, "i", name, o)
		must(err)
	}
	mk("s", pilosa.OptFieldTypeSet("ranked", 100))
	mk("l", pilosa.OptFieldTypeSet("lru", 2))
	mk("m", pilosa.OptFieldTypeMutex("ranked", 100))
	mk("t", pilosa.OptFieldTypeTime("YMD"))
	mk("d", pilosa.OptFieldTypeTime("YM"))
	mk("v", pilosa.OptFieldTypeInt(-1000, 1000))
	// make every fragment exist, then lower MaxOpN so that the snapshot queue runs
	for _, c := range cols {
		_, err := s.q(fmt.Sprintf("Set(%d, s=0) Clear(%d, s=0) Set(%d, l=0) Set(%d, m=1) Set(%d, t=0, 2001-01-01T00:00) Set(%d, v=1)", c, c, c, c, c, c))
		must(err)
	}
	h := s.Server.Holder()
	// a low MaxOpN makes the background snapshot QUEUE (snapshotQueueWorker) rewrite the fragments
	// while other requests touch them, and sends every value import down the large path
	// (enqueueSnapshot + unprotectedAwaitSnapshot); s keeps the default in even rounds
	for _, f := range []string{"l", "m", "v"} {
		pilosa.VerifC29SetMaxOpN(h, "i", f, 3)
	}
	if round%2 == 1 {
		pilosa.VerifC29SetMaxOpN(h, "i", "s", 5)
	}
	hist := &history{}
	var torn int64
	var tornSample atomic.Value
	var nops int64
	G := 6
	per := 120
	var wg sync.WaitGroup
	var pmu sync.Mutex
	start0 := time.Now()
	now := func() int64 { return int64(time.Since(start0)) }
	for g := 0; g < G; g++ {
		wg.Add(1)
		go func(g int) {
			defer wg.Done()
			r := rand.New(rand.NewSource(seed + int64(g)*7919))
			defer func() {
				if e := recover(); e != nil {
					buf := make([]byte, 1<<14)
					n := runtime.Stack(buf, false)
					pmu.Lock()
					res.Panics = append(res.Panics, strings.ReplaceAll(fmt.Sprintf("%v | %s", e, firstPilosaFrame(string(buf[:n]))), "\n", " "))
					pmu.Unlock()
				}
			}()
			for k := 0; k < per; k++ {
				if r.Intn(4) == 0 {
					runtime.Gosched()
				}
				if r.Intn(16) == 0 {
					time.Sleep(time.Duration(r.Intn(200)) * time.Microsecond)
				}
				atomic.AddInt64(&nops, 1)
				row := uint64(r.Intn(3))
				col := cols[r.Intn(len(cols))]
				switch op := r.Intn(30); {
				case op < 5: // recorded Set on s
					t0 := now()
					rs, err := s.q(fmt.Sprintf("Set(%d, s=%d)", col, row))
					t1 := now()
					must(err)
					hist.add(g, opIn{0, row, col, col / sw}, rs[0].(bool), t0, t1)
					count("s.set")
				case op < 8: // recorded Clear on s
					t0 := now()
					rs, err := s.q(fmt.Sprintf("Clear(%d, s=%d)", col, row))
					t1 := now()
					must(err)
					hist.add(g, opIn{1, row, col, col / sw}, rs[0].(bool), t0, t1)
					count("s.clear")
				case op < 12: // recorded Row on s
					t0 := now()
					rs, err := s.q(fmt.Sprintf("Row(s=%d)", row))
					t1 := now()
					must(err)
					var mask [2]uint64
					for _, c := range rs[0].(*pilosa.Row).Columns() {
						mask[c/sw] |= colBit(c)
					}
					hist.add(g, opIn{2, row, 0, 0}, mask[0], t0, t1)
					hist.add(g, opIn{2, row, 0, 1}, mask[1], t0, t1)
					count("s.row")
				case op < 14: // mutex move + multi-section read
					_, err := s.q(fmt.Sprintf("Set(%d, m=%d)", cols[0], 1+r.Intn(2)))
					must(err)
					count("m.set")
				case op < 17:
					rs, err := s.q("Count(Intersect(Row(m=1), Row(m=2)))")
					must(err)
					if n := rs[0].(uint64); n != 0 {
						atomic.AddInt64(&torn, 1)
						tornSample.Store(fmt.Sprintf("Count(Intersect(Row(m=1), Row(m=2))) = %d on a mutex field while Set(%d, m=1|2) runs", n, cols[0]))
					}
					count("m.intersect")
				case op == 17: // bulk import ids into l and t
					req := &pilosa.ImportRequest{Index: "i", Field: "l", Shard: col / sw, RowIDs: []uint64{row, row + 1}, ColumnIDs: []uint64{col, col}}
					must(api.Import(ctx, req, pilosa.OptImportOptionsClear(r.Intn(3) == 0)))
					count("l.import")
				case op == 18: // roaring import into l
					bm := roaring.NewBitmap(row*sw+col%sw, (row+1)*sw+col%sw)
					var b bytes.Buffer
					_, err := bm.WriteTo(&b)
					must(err)
					must(api.ImportRoaring(ctx, "i", "l", col/sw, false, &pilosa.ImportRoaringRequest{Clear: r.Intn(3) == 0, Views: map[string][]byte{"": b.Bytes()}}))
					count("l.roaring")
				case op == 19: // value writes
					if r.Intn(2) == 0 {
						_, err := s.q(fmt.Sprintf("Set(%d, v=%d)", col, r.Intn(600)-300))
						must(err)
					} else {
						must(api.ImportValue(ctx, &pilosa.ImportValueRequest{Index: "i", Field: "v", Shard: col / sw, ColumnIDs: []uint64{col}, Values: []int64{int64(r.Intn(600) - 300)}}))
					}
					count("v.write")
				case op == 20:
					_, err := s.q("Sum(field=v) Min(field=v) Max(field=v) Row(v > 0) Row(v != null)")
					must(err)
					count("v.read")
				case op == 21: // TopN on rank and LRU caches
					_, err := s.q(fmt.Sprintf("TopN(s, n=2) TopN(l, ids=[0,1,2,3]) TopN(l) TopN(m) TopN(s, Row(l=%d), n=2)", row))
					must(err)
					count("topn")
				case op == 22: // row store / clear
					if r.Intn(2) == 0 {
						_, err := s.q(fmt.Sprintf("Store(Row(s=%d), l=%d)", row, 3+r.Intn(2)))
						must(err)
					} else {
						_, err := s.q(fmt.Sprintf("ClearRow(l=%d)", 3+r.Intn(2)))
						must(err)
					}
					count("l.store-clearrow")
				case op == 23:
					_, err := s.q("Rows(field=l) Rows(field=m) GroupBy(Rows(field=l), Rows(field=m)) MinRow(field=l) MaxRow(field=l)")
					must(err)
					count("rows")
				case op == 24: // time writes and range reads
					_, err := s.q(fmt.Sprintf("Set(%d, t=%d, 2001-0%d-02T00:00) Clear(%d, t=%d)", col, row, 1+r.Intn(3), cols[r.Intn(len(cols))], row))
					must(err)
					_, err = s.q(fmt.Sprintf("Row(t=%d, from='2001-01-01T00:00', to='2001-03-01T00:00') Rows(field=t, from='2001-01-01T00:00', to='2002-01-01T00:00')", row))
					must(err)
					count("t.rw")
				case op == 25: // snapshots
					for _, f := range []string{"s", "l", "m", "v"}[r.Intn(4):][:1] {
						_, err := pilosa.VerifC29Snapshot(h, "i", f)
						must(err)
					}
					count("snapshot")
				case op == 26:
					must(api.RecalculateCaches(ctx))
					pilosa.VerifC29FlushCaches(h)
					count("caches")
				case op == 27: // timestamped writes on d (with --schema-ops: against view deletion)
					if !schemaOps || r.Intn(2) == 0 {
						_, err := s.q(fmt.Sprintf("Set(%d, d=%d, 2001-0%d-02T00:00)", col, row, 1+r.Intn(2)))
						if err != nil && !schemaOps {
							must(err)
						}
					} else {
						_ = api.DeleteView(ctx, "i", "d", fmt.Sprintf("standard_20010%d", 1+r.Intn(2)))
					}
					count("d.write")
				case op == 28: // schema reads (with --schema-ops: while fields are created through a cluster message)
					if !schemaOps || r.Intn(2) == 0 {
						_ = api.Schema(ctx)
						_, err := s.q("Count(Row(s=0))")
						must(err)
					} else {
						msg := &pilosa.CreateFieldMessage{Index: "i", Field: fmt.Sprintf("z%d", r.Intn(4)),
							Meta: &pilosa.FieldOptions{Type: pilosa.FieldTypeSet, CacheType: pilosa.CacheTypeRanked, CacheSize: 10}}
						b, err := pilosa.MarshalInternalMessage(msg, proto.Serializer{})
						must(err)
						must(api.ClusterMessage(ctx, bytes.NewReader(b)))
					}
					count("schema")
				default:
					_, err := s.q(fmt.Sprintf("Count(Union(Row(s=%d), Row(l=%d))) Not(Row(s=%d))", row, row, row))
					must(err)
					count("misc")
				}
			}
		}(g)
	}
	done := make(chan struct{})
	go func() { wg.Wait(); close(done) }()
	// deadlock = no operation completes for a long time (not a wall-clock limit on the round: the
	// check may share the machine with many others)
	last, lastT := int64(-1), time.Now()
wait:
	for {
		select {
		case <-done:
			break wait
		case <-time.After(time.Second):
			if n := atomic.LoadInt64(&nops); n != last {
				last, lastT = n, time.Now()
			} else if time.Since(lastT) > 180*time.Second {
				buf := make([]byte, 1<<20)
				n := runtime.Stack(buf, true)
				res.Deadlock = blockedSummary(string(buf[:n]))
				stopped = true
				return // leak the server: its goroutines are stuck
			}
		}
	}
	res.Evaluations += int(atomic.LoadInt64(&nops))
	res.TornReads += int(atomic.LoadInt64(&torn))
	if v := tornSample.Load(); v != nil && res.TornSample == "" {
		res.TornSample = v.(string)
	}
	// linearizability of the recorded single-section history
	if len(hist.ops) > 0 {
		cr := porcupine.CheckOperationsTimeout(rowModel, hist.ops, 5*time.Second)
		res.LinHistories++
		res.LinOps += len(hist.ops)
		switch cr {
		case porcupine.Illegal:
			res.NonLin = append(res.NonLin, describe(hist.ops))
		case porcupine.Unknown:
			res.LinUnknown++
		}
	}
}

func describe(ops []porcupine.Operation) string {
	sort.Slice(ops, func(i, j int) bool { return ops[i].Call < ops[j].Call })
	var ss []string
	for _, o := range ops {
		in := o.Input.(opIn)
		ss = append(ss, fmt.Sprintf("c%d %s(%d,%d;shard %d)=%v [%d,%d]", o.ClientId, []string{"Set", "Clear", "Row"}[in.kind], in.row, in.col, in.shard, o.Output, o.Call, o.Return))
		if len(ss) > 60 {
			break
		}
	}
	return strings.Join(ss, "; ")
}

func firstPilosaFrame(stack string) string {
	for _, ln := range strings.Split(stack, "\n") {
		if strings.HasPrefix(ln, "github.com/pilosa/pilosa") && !strings.Contains(ln, "Verif") {
			return ln
		}
	}
	return "?"
}

// blockedSummary lists the pilosa frames goroutines are blocked in (mutex waits first).
func blockedSummary(dump string) string {
	var out []string
	for _, g := range strings.Split(dump, "\n\n") {
		if !strings.Contains(g, "sync.(*RWMutex)") && !strings.Contains(g, "sync.(*Mutex)") && !strings.Contains(g, "sync.(*Cond)") && !strings.Contains(g, "chan ") {
			continue
		}
		f := firstPilosaFrame(g)
		if f != "?" {
			hdr := strings.SplitN(g, "\n", 2)[0]
			out = append(out, hdr+" "+f)
		}
		if len(out) > 12 {
			break
		}
	}
	return strings.Join(out, " || ")
}
