#!/usr/bin/env python3
"""run.py <repo> <tier> <seed>: build harness/c29race with -race against the tree <repo>, run the
concurrent workload, collect the race detector's reports and print one JSON verdict line.

Data races are keyed by the pilosa functions on top of the two conflicting stacks; a race whose key
is listed in known_findings.jsonl (property C29, kind finding, field "race") is reported but does
not fail the check.  This run searches for failing schedules; it is not the proof."""
import json, os, re, shutil, subprocess, sys, time

here = os.path.dirname(os.path.abspath(__file__))
root = os.path.dirname(os.path.dirname(here))
repo, tier, seed = sys.argv[1], sys.argv[2], sys.argv[3]
work = os.path.join(root, ".work", "c29race")
shutil.rmtree(work, ignore_errors=True)
os.makedirs(work)
mod = os.path.join(work, "go.mod")
open(mod, "w").write(f"""module c29race

go 1.23.5

require (
	github.com/anishathalye/porcupine v1.3.0
	github.com/pilosa/pilosa v0.0.0
)

replace github.com/pilosa/pilosa => {repo}

replace github.com/hashicorp/memberlist => github.com/pilosa/memberlist v0.1.4-0.20190415211605-f6512523c021
""")
shutil.copyfile(os.path.join(repo, "go.sum"), os.path.join(work, "go.sum"))
env = dict(os.environ, GOFLAGS="-mod=mod", GOPROXY="off", GOSUMDB="off", GOTOOLCHAIN="local",
           TMPDIR=os.path.join(root, ".work", "tmp"), GORACE=f"log_path={work}/race halt_on_error=0 history_size=3")
os.makedirs(env["TMPDIR"], exist_ok=True)
binp = os.path.join(work, "c29race.bin")
t0 = time.time()
# -race switches on checkptr, which rejects the array-pointer casts of roaring's mmap decoding
# (a checker artefact, not a race); it is switched off explicitly.
ovl = ["-overlay", os.environ["VERIF_GO_OVERLAY"]] if os.environ.get("VERIF_GO_OVERLAY") else []  # see bin/check harness_build
p = subprocess.run(["go", "build", "-race", "-gcflags=all=-d=checkptr=0", "-tags", "verif", "-modfile", mod] + ovl + ["-o", binp, "."], cwd=here, env=env,
                   stdout=subprocess.PIPE, stderr=subprocess.STDOUT, text=True)
if p.returncode != 0:
    print(json.dumps({"ok": False, "found": False, "evaluations": 0, "what": "c29race does not build with -race: " + p.stdout[-600:]}))
    sys.exit(0)
build_s = time.time() - t0
seconds = 30 if tier == "quick" else 300
resf = os.path.join(work, "result.json")
try:
    p = subprocess.run([binp, "--seed", seed, "--seconds", str(seconds), "--out", resf], cwd=work, env=env,
                       stdout=subprocess.PIPE, stderr=subprocess.STDOUT, text=True, timeout=seconds + 600)
    out, rc = p.stdout, p.returncode
except subprocess.TimeoutExpired as e:
    out, rc = (e.stdout or b"").decode(errors="replace") if isinstance(e.stdout, bytes) else (e.stdout or ""), 124
# ---- race reports
def frames(block):
    """pilosa functions of one stack, top first"""
    fs = []
    for ln in block.split("\n"):
        if not ln.startswith("  ") or ln.startswith("   "):
            continue
        f = ln.strip()
        if f.endswith("()"):
            f = f[:-2]
        if f.startswith("github.com/pilosa/pilosa") and "Verif" not in f:
            f = f[len("github.com/pilosa/pilosa"):]
            f = re.sub(r"\.func\d+(\.\d+)*$", "", f)
            f = re.sub(r"\.gowrap\d+$", "", f)
            fs.append(f)
    return fs

races = {}
for fn in sorted(os.listdir(work)):
    if not fn.startswith("race."):
        continue
    txt = open(os.path.join(work, fn), errors="replace").read()
    for rep in txt.split("==================")[1:]:
        if "DATA RACE" not in rep:
            continue
        parts = re.split(r"\n\n", rep.strip().replace("WARNING: DATA RACE\n", ""))
        stacks = [p_ for p_ in parts if re.match(r"(Read|Write|Previous read|Previous write|Atomic)", p_.strip(), re.I)]
        tops = []
        for st in stacks[:2]:
            fs = frames(st)
            kind = "W" if re.match(r"(Write|Previous write)", st.strip(), re.I) else "R"
            # access site = innermost function of package pilosa proper and its caller
            root_fs = [f for f in fs if f.startswith(".")] or fs
            tops.append(kind + ":" + "<".join(root_fs[:2]) if root_fs else kind + ":?")
        key = " | ".join(sorted(tops))
        races.setdefault(key, 0)
        races[key] += 1

res = None
if os.path.exists(resf):
    res = json.load(open(resf))
if res is None:
    # the process died or hung: a fatal runtime error (e.g. concurrent map read and map write), an
    # escaped panic, or a Close that never returns; the race log written so far is still reported
    tail = out[-1500:]
    m = re.search(r"(fatal error: [^\n]+|panic: [^\n]+)", out)
    why = m.group(1) if m else ("timeout" if rc == 124 else tail[-300:])
    res = {"ok": False, "found": True, "evaluations": 0, "distinct_nontrivial": 0, "counters": {},
           "what": "workload process died or hung (exit %d): %s" % (rc, why),
           "replay_lines": ["# c29race --seed %s" % seed] + [l for l in tail.split("\n") if "pilosa" in l][:12]}
known = {}
kf = os.path.join(root, "known_findings.jsonl")
if os.path.exists(kf):
    for line in open(kf):
        line = line.strip()
        if line and not line.startswith("#"):
            e = json.loads(line)
            if e.get("property") == "C29" and e.get("kind") == "finding" and e.get("race"):
                known[e["race"]] = e
new = {k: v for k, v in races.items() if k not in known}
res["counters"]["race_reports"] = sum(races.values())
res["counters"]["race_sites"] = len(races)
res["counters"]["race_sites_known"] = len(races) - len(new)
res["counters"]["build_s"] = int(build_s)
if new:
    res["ok"] = False
    res["found"] = True
    prev = ""
    if "died or hung" in res.get("what", "") or res.get("deadlock"):
        prev = " [" + res.get("what", "")[:200] + "]"
    res["what"] = "DATA RACE under -race (%d site pairs, %d new): %s" % (len(races), len(new), "; ".join(sorted(new))[:500]) + prev
    res["replay_lines"] = ["# go run -race harness/c29race --seed %s (schedule dependent)" % seed] + ["# " + k for k in sorted(new)][:20]
elif races:
    res["what"] += "; known races seen: " + "; ".join(sorted(races))[:300]
res["replay_lines"] = res.get("replay_lines") or []
if res.get("nonlinearizable"):
    res["replay_lines"] = ["# c29race --seed %s : non-linearizable single-section history (schedule dependent)" % seed] + ["# " + x[:2000] for x in res["nonlinearizable"][:2]]
print(json.dumps({k: res[k] for k in ("ok", "evaluations", "distinct_nontrivial", "what", "found", "replay_lines", "counters") if k in res}))
